(* GhostProofs.v — refinement of the ghost queue (GhostModel.v) to an abstract FIFO ring.
   `avalanche` is never unfolded: every lemma holds for an arbitrary hash function. *)
Require Import KV.Base KV.EstimatorModel KV.GhostModel.
From Coq Require Import Arith.
Open Scope N_scope.

(* ------------------------------------------------------------------------------------ *)
(* 0. small tactics                                                                      *)
(* ------------------------------------------------------------------------------------ *)

Ltac ifs :=
  repeat match goal with
  | |- context[if ?b then _ else _] => let E := fresh "E" in destruct b eqn:E
  | H : context[if ?b then _ else _] |- _ => let E := fresh "E" in destruct b eqn:E
  end.

(* ------------------------------------------------------------------------------------ *)
(* 1. word arrays: getw / setw / number of non-zero words                                *)
(* ------------------------------------------------------------------------------------ *)

Definition lenN (l : list N) : N := N.of_nat (length l).

Lemma setw_nat_length l i v : length (setw_nat l i v) = length l.
Proof.
  revert i; induction l as [|x l IH]; intros i; [reflexivity|].
  destruct i as [|i]; cbn [setw_nat length]; [reflexivity|]. now rewrite IH.
Qed.

Lemma nth_setw_nat_same l i v : (i < length l)%nat -> nth i (setw_nat l i v) 0 = v.
Proof.
  revert i; induction l as [|x l IH]; intros i Hi; cbn [length] in Hi; [lia|].
  destruct i as [|i]; cbn [setw_nat nth]; [reflexivity|]. apply IH; lia.
Qed.

Lemma nth_setw_nat_other l i j v : i <> j -> nth j (setw_nat l i v) 0 = nth j l 0.
Proof.
  revert i j; induction l as [|x l IH]; intros i j Hij; [destruct i; reflexivity|].
  destruct i as [|i], j as [|j]; cbn [setw_nat nth]; try reflexivity; try lia.
  apply IH; lia.
Qed.

Lemma lenN_setw l p v : lenN (setw l p v) = lenN l.
Proof. unfold lenN, setw. now rewrite setw_nat_length. Qed.

Lemma length_setw l p v : length (setw l p v) = length l.
Proof. unfold setw. apply setw_nat_length. Qed.

Lemma getw_setw_same l p v : p < lenN l -> getw (setw l p v) p = v.
Proof. unfold lenN, getw, setw; intros Hp. apply nth_setw_nat_same. lia. Qed.

Lemma getw_setw_other l p q v : p <> q -> getw (setw l p v) q = getw l q.
Proof. unfold getw, setw; intros Hpq. apply nth_setw_nat_other. lia. Qed.

Lemma getw_beyond l p : lenN l <= p -> getw l p = 0.
Proof. unfold lenN, getw; intros Hp. apply nth_overflow. lia. Qed.

Lemma getw_of_nat l i : getw l (N.of_nat i + 1 - 1) = nth i l 0.
Proof. unfold getw. f_equal. lia. Qed.

Lemma getw_of_nat' l i : getw l (N.of_nat i) = nth i l 0.
Proof. unfold getw. f_equal. lia. Qed.

Definition nz (x : N) : nat := if x =? 0 then 0%nat else 1%nat.

Fixpoint cnt (l : list N) : nat :=
  match l with [] => 0%nat | x :: r => (nz x + cnt r)%nat end.

Lemma cnt_setw_nat l i v :
  (i < length l)%nat -> (cnt (setw_nat l i v) + nz (nth i l 0%N) = cnt l + nz v)%nat.
Proof.
  revert i; induction l as [|x l IH]; intros i Hi; cbn [length] in Hi; [lia|].
  destruct i as [|i]; cbn [setw_nat nth cnt]; [lia|].
  specialize (IH i ltac:(lia)). lia.
Qed.

Lemma cnt_setw l p v :
  p < lenN l -> (cnt (setw l p v) + nz (getw l p) = cnt l + nz v)%nat.
Proof. unfold lenN, setw, getw; intros Hp. apply cnt_setw_nat. lia. Qed.

Lemma cnt_le_length l : (cnt l <= length l)%nat.
Proof. induction l as [|x l IH]; cbn [cnt length]; [lia|]. unfold nz. ifs; lia. Qed.

Lemma cnt_exists_zero l : (cnt l < length l)%nat -> exists p, p < lenN l /\ getw l p = 0.
Proof.
  unfold lenN. induction l as [|x l IH]; cbn [cnt length]; intros H; [lia|].
  destruct (x =? 0) eqn:E.
  - exists 0. split; [lia|]. unfold getw. cbn. lia.
  - unfold nz in H. rewrite E in H.
    destruct IH as [p [Hp Hz]]; [lia|].
    exists (p + 1). split; [lia|].
    unfold getw in *. replace (N.to_nat (p + 1)) with (S (N.to_nat p)) by lia. exact Hz.
Qed.

Lemma cnt_all_zero l : (forall p, getw l p = 0) -> cnt l = 0%nat.
Proof.
  induction l as [|x l IH]; intros H; [reflexivity|].
  cbn [cnt]. rewrite IH.
  - specialize (H 0). unfold getw in H. cbn in H. subst x. reflexivity.
  - intros p. specialize (H (p + 1)). unfold getw in *.
    replace (N.to_nat (p + 1)) with (S (N.to_nat p)) in H by lia. exact H.
Qed.

Lemma getw_repeat0 k p : getw (repeat 0 k) p = 0.
Proof.
  unfold getw. generalize (N.to_nat p) as i. induction k as [|k IH]; intros i; destruct i; cbn; auto.
Qed.

Lemma getw_map0 (l : list N) p : getw (map (fun _ => 0) l) p = 0.
Proof.
  unfold getw. generalize (N.to_nat p) as i. induction l as [|x l IH]; intros i; destruct i; cbn; auto.
Qed.

(* ------------------------------------------------------------------------------------ *)
(* 2. cyclic arithmetic on positions 0 .. m-1 without mod                                *)
(* ------------------------------------------------------------------------------------ *)

Definition addm (m a j : N) : N := if a + j <? m then a + j else a + j - m.
Definition dist (m a b : N) : N := if a <=? b then b - a else b + m - a.

Ltac md := unfold addm, dist in *; ifs; lia.

Lemma addm_lt m a j : a < m -> j <= m -> addm m a j < m.
Proof. intros; md. Qed.
Lemma addm_0 m a : a < m -> addm m a 0 = a.
Proof. intros; md. Qed.
Lemma addm_dist m a b : a < m -> b < m -> addm m a (dist m a b) = b.
Proof. intros; md. Qed.
Lemma dist_addm m a j : a < m -> j < m -> dist m a (addm m a j) = j.
Proof. intros; md. Qed.
Lemma dist_lt m a b : a < m -> b < m -> dist m a b < m.
Proof. intros; md. Qed.
Lemma dist_0 m a b : a < m -> b < m -> dist m a b = 0 -> a = b.
Proof. intros; md. Qed.
Lemma dist_same m a : dist m a a = 0.
Proof. md. Qed.
Lemma addm_addm m a i j : a < m -> i + j <= m -> addm m (addm m a i) j = addm m a (i + j).
Proof. intros; md. Qed.
Lemma addm_inj m a i j : a < m -> i < m -> j < m -> addm m a i = addm m a j -> i = j.
Proof. intros; md. Qed.
Lemma dist_cross m s h p :
  s < m -> h < m -> p < m -> dist m s h < dist m s p -> dist m s p = dist m s h + dist m h p.
Proof. intros; md. Qed.
Lemma dist_succ m c e : c < m -> e < m -> c <> e -> dist m c e = dist m (addm m c 1) e + 1.
Proof. intros; md. Qed.

(* the Go expression (pos+1) & mask for mask = 2^k - 1 *)
Lemma land_pow2_mod a k : N.land a (2 ^ k - 1) = a mod 2 ^ k.
Proof.
  replace (2 ^ k - 1) with (N.ones k) by (rewrite N.ones_equiv; lia).
  apply N.land_ones.
Qed.

Lemma land_mask_lt a k : N.land a (2 ^ k - 1) < 2 ^ k.
Proof. rewrite land_pow2_mod. apply N.mod_lt. apply N.pow_nonzero. lia. Qed.

Lemma next_land k p : p < 2 ^ k -> N.land (p + 1) (2 ^ k - 1) = addm (2 ^ k) p 1.
Proof.
  intros Hp. rewrite land_pow2_mod. unfold addm.
  destruct (p + 1 <? 2 ^ k) eqn:E.
  - apply N.mod_small. lia.
  - replace (p + 1) with (2 ^ k) by lia. rewrite N.mod_same by lia. lia.
Qed.

(* ------------------------------------------------------------------------------------ *)
(* 3. the probe loops, parametric in the start position                                  *)
(* ------------------------------------------------------------------------------------ *)

Section Probe.
  Variables (m mask : N).
  Hypothesis Hnext : forall p, p < m -> N.land (p + 1) mask = addm m p 1.

  Lemma insert_from_spec d : forall fuel sl pos v,
    pos < m -> d < m -> (N.to_nat d < fuel)%nat ->
    (forall j, j < d -> getw sl (addm m pos j) <> 0) ->
    getw sl (addm m pos d) = 0 ->
    idx_insert_from fuel sl mask pos v = (setw sl (addm m pos d) v, false).
  Proof.
    induction d as [|d IH] using N.peano_ind; intros fuel sl pos v Hpos Hd Hfuel Hne Hz.
    - destruct fuel as [|f]; [lia|]. cbn [idx_insert_from].
      rewrite addm_0 in Hz by assumption. rewrite Hz. cbn [N.eqb].
      rewrite addm_0 by assumption. reflexivity.
    - destruct fuel as [|f]; [lia|]. cbn [idx_insert_from].
      pose proof (Hne 0 ltac:(lia)) as H0. rewrite addm_0 in H0 by assumption.
      destruct (getw sl pos =? 0) eqn:E; [lia|].
      rewrite Hnext by assumption.
      rewrite (IH f sl (addm m pos 1) v).
      + rewrite addm_addm by lia. do 2 f_equal. f_equal. lia.
      + apply addm_lt; lia.
      + lia.
      + lia.
      + intros j Hj. rewrite addm_addm by lia. replace (1 + j) with (j + 1) by lia. apply Hne. lia.
      + rewrite addm_addm by lia. replace (1 + d) with (N.succ d) by lia. exact Hz.
  Qed.

  (* idx_find_from walks over non-empty, non-matching slots *)
  Lemma find_from_walk d : forall fuel ents sl pos h,
    pos < m -> d < m -> (N.to_nat d < fuel)%nat ->
    (forall j, j < d -> getw sl (addm m pos j) <> 0 /\ getw ents (getw sl (addm m pos j) - 1) <> h) ->
    idx_find_from fuel ents sl mask pos h =
      idx_find_from (fuel - N.to_nat d) ents sl mask (addm m pos d) h.
  Proof.
    induction d as [|d IH] using N.peano_ind; intros fuel ents sl pos h Hpos Hd Hfuel Hne.
    - rewrite addm_0 by assumption. f_equal. lia.
    - destruct fuel as [|f]; [lia|]. cbn [idx_find_from].
      destruct (Hne 0 ltac:(lia)) as [H0 H1]. rewrite addm_0 in H0, H1 by assumption.
      destruct (getw sl pos =? 0) eqn:E; [lia|].
      destruct (getw ents (getw sl pos - 1) =? h) eqn:E1; [lia|].
      rewrite Hnext by assumption.
      rewrite (IH f ents sl (addm m pos 1) h).
      + rewrite addm_addm by lia. replace (1 + d) with (N.succ d) by lia.
        f_equal. lia.
      + apply addm_lt; lia.
      + lia.
      + lia.
      + intros j Hj. rewrite addm_addm by lia. replace (1 + j) with (j + 1) by lia. apply Hne. lia.
  Qed.

  Lemma find_from_found d fuel ents sl pos h :
    pos < m -> d < m -> (N.to_nat d < fuel)%nat ->
    (forall j, j < d -> getw sl (addm m pos j) <> 0 /\ getw ents (getw sl (addm m pos j) - 1) <> h) ->
    getw sl (addm m pos d) <> 0 -> getw ents (getw sl (addm m pos d) - 1) = h ->
    idx_find_from fuel ents sl mask pos h = (addm m pos d, true, false).
  Proof.
    intros Hpos Hd Hfuel Hne Hnz Hh. rewrite (find_from_walk d) by assumption.
    destruct (fuel - N.to_nat d)%nat as [|f] eqn:Ef; [lia|]. cbn [idx_find_from].
    destruct (getw sl (addm m pos d) =? 0) eqn:E; [lia|].
    destruct (getw ents (getw sl (addm m pos d) - 1) =? h) eqn:E1; [reflexivity|lia].
  Qed.

  Lemma find_from_notfound d fuel ents sl pos h :
    pos < m -> d < m -> (N.to_nat d < fuel)%nat ->
    (forall j, j < d -> getw sl (addm m pos j) <> 0 /\ getw ents (getw sl (addm m pos j) - 1) <> h) ->
    getw sl (addm m pos d) = 0 ->
    idx_find_from fuel ents sl mask pos h = (addm m pos d, false, false).
  Proof.
    intros Hpos Hd Hfuel Hne Hz. rewrite (find_from_walk d) by assumption.
    destruct (fuel - N.to_nat d)%nat as [|f] eqn:Ef; [lia|]. cbn [idx_find_from].
    rewrite Hz. reflexivity.
  Qed.

  (* the first empty slot on the probe path from s *)
  Lemma first_empty_aux sl s (d : nat) :
    (forall j, j < N.of_nat d -> getw sl (addm m s j) <> 0) \/
    (exists d', d' < N.of_nat d /\ getw sl (addm m s d') = 0 /\
                forall j, j < d' -> getw sl (addm m s j) <> 0).
  Proof.
    induction d as [|d IH].
    - left. intros j Hj. lia.
    - destruct IH as [IH|IH].
      + destruct (getw sl (addm m s (N.of_nat d)) =? 0) eqn:E.
        * right. exists (N.of_nat d). split; [lia|]. split; [lia|]. exact IH.
        * left. intros j Hj. destruct (N.eq_dec j (N.of_nat d)) as [->|Hne]; [lia|]. apply IH. lia.
      + right. destruct IH as [d' [H1 [H2 H3]]]. exists d'. split; [lia|]. split; assumption.
  Qed.

  Lemma first_empty sl s e :
    s < m -> e < m -> getw sl e = 0 ->
    exists d, d <= dist m s e /\ getw sl (addm m s d) = 0 /\
              forall j, j < d -> getw sl (addm m s j) <> 0.
  Proof.
    intros Hs He Hz.
    destruct (first_empty_aux sl s (S (N.to_nat (dist m s e)))) as [H|[d [H1 [H2 H3]]]].
    - exfalso. apply (H (dist m s e)); [lia|]. rewrite addm_dist by assumption. exact Hz.
    - exists d. split; [lia|]. split; assumption.
  Qed.
End Probe.

(* ------------------------------------------------------------------------------------ *)
(* 4. deletion by cluster re-insertion                                                   *)
(* ------------------------------------------------------------------------------------ *)

Section Delete.
  Variables (m mask : N) (ents : list N).
  Hypothesis Hnext : forall p, p < m -> N.land (p + 1) mask = addm m p 1.
  Hypothesis Hhome : forall a, N.land a mask < m.

  (* home position of the index value v (= ring index + 1) *)
  Definition hm (v : N) : N := N.land (avalanche (getw ents (v - 1))) mask.

  (* every index entry is reachable from its home position over non-empty slots *)
  Definition good (sl : list N) : Prop :=
    forall p, p < m -> getw sl p <> 0 ->
    forall j, j < dist m (hm (getw sl p)) p -> getw sl (addm m (hm (getw sl p)) j) <> 0.

  Definition inj (sl : list N) : Prop :=
    forall p q, p < m -> q < m -> getw sl p <> 0 -> getw sl p = getw sl q -> p = q.

  Definition same_content (sl sl' : list N) : Prop :=
    lenN sl' = lenN sl /\ cnt sl' = cnt sl /\
    (forall v, v <> 0 -> ((exists p, p < m /\ getw sl' p = v) <-> (exists p, p < m /\ getw sl p = v))) /\
    (inj sl -> inj sl').

  Lemma same_content_refl sl : same_content sl sl.
  Proof. unfold same_content. repeat split; auto; tauto. Qed.

  Lemma same_content_trans a b c : same_content a b -> same_content b c -> same_content a c.
  Proof.
    intros [H1 [H2 [H3 H4]]] [G1 [G2 [G3 G4]]]. unfold same_content.
    split; [congruence|]. split; [congruence|]. split; [|tauto].
    intros v Hv. rewrite (G3 v Hv). apply H3. exact Hv.
  Qed.

  Lemma getw_move sl c q v x :
    lenN sl = m -> c < m -> q < m ->
    getw (setw (setw sl c 0) q v) x = if x =? q then v else if x =? c then 0 else getw sl x.
  Proof.
    intros Hl Hc Hq.
    destruct (x =? q) eqn:E1.
    - apply N.eqb_eq in E1. subst x. apply getw_setw_same. rewrite lenN_setw. lia.
    - apply N.eqb_neq in E1. rewrite getw_setw_other by congruence.
      destruct (x =? c) eqn:E2.
      + apply N.eqb_eq in E2. subst x. apply getw_setw_same. lia.
      + apply N.eqb_neq in E2. apply getw_setw_other. congruence.
  Qed.

  Lemma move_same_content sl c q v :
    lenN sl = m -> c < m -> q < m -> getw sl c = v -> v <> 0 -> getw (setw sl c 0) q = 0 ->
    same_content sl (setw (setw sl c 0) q v).
  Proof.
    intros Hl Hc Hq Hv Hnz Hq0.
    assert (Hq0' : q = c \/ (q <> c /\ getw sl q = 0)).
    { destruct (N.eq_dec q c) as [->|Hne]; [left; reflexivity|right].
      split; [assumption|]. rewrite getw_setw_other in Hq0 by congruence. exact Hq0. }
    unfold same_content. split; [|split; [|split]].
    - now rewrite !lenN_setw.
    - pose proof (cnt_setw sl c 0 ltac:(lia)) as H1.
      pose proof (cnt_setw (setw sl c 0) q v ltac:(rewrite lenN_setw; lia)) as H2.
      rewrite Hq0 in H2. rewrite Hv in H1. unfold nz in *.
      destruct (v =? 0) eqn:E; [lia|]. cbn [N.eqb] in *. lia.
    - intros w Hw. split; intros [p [Hp Hpw]].
      + rewrite getw_move in Hpw by assumption. revert Hpw.
        destruct (p =? q) eqn:E1; intros Hpw.
        * exists c. split; [assumption|congruence].
        * revert Hpw. destruct (p =? c) eqn:E2; intros Hpw; [lia|]. exists p. split; assumption.
      + destruct (N.eq_dec p c) as [->|Hpc].
        * exists q. split; [assumption|]. rewrite getw_move by assumption.
          rewrite N.eqb_refl. congruence.
        * exists p. split; [assumption|]. rewrite getw_move by assumption.
          destruct (p =? q) eqn:E1.
          { apply N.eqb_eq in E1. subst p. destruct Hq0' as [->|[_ Hz]]; [congruence|]. congruence. }
          destruct (p =? c) eqn:E2; [lia|]. exact Hpw.
    - intros Hinj p p' Hp Hp' Hpnz Heq.
      rewrite (getw_move sl c q v p), (getw_move sl c q v p') in Heq by assumption.
      rewrite (getw_move sl c q v p) in Hpnz by assumption. revert Heq Hpnz.
      destruct (p =? q) eqn:E1, (p' =? q) eqn:E2; cbv iota; try lia.
      + destruct (p' =? c) eqn:E3; [lia|]. intros Heq Hpnz.
        assert (c = p') by (apply Hinj; try assumption; congruence). lia.
      + destruct (p =? c) eqn:E3; [lia|]. intros Heq Hpnz.
        assert (p = c) by (apply Hinj; try assumption; congruence). lia.
      + destruct (p =? c) eqn:E3; [lia|]. destruct (p' =? c) eqn:E4; [lia|]. intros Heq Hpnz.
        apply Hinj; assumption.
  Qed.

  Lemma setw_nat_restore l i a : (i < length l)%nat -> setw_nat (setw_nat l i a) i (nth i l 0) = l.
  Proof.
    revert i; induction l as [|x l IH]; intros i Hi; cbn [length] in Hi; [lia|].
    destruct i as [|i]; cbn [setw_nat nth]; [reflexivity|]. f_equal. apply IH. lia.
  Qed.

  Lemma setw_restore sl c a : c < lenN sl -> setw (setw sl c a) c (getw sl c) = sl.
  Proof. unfold lenN, setw, getw; intros Hc. apply setw_nat_restore. lia. Qed.

  (* Loop invariant of reinsert_cluster.  hl = the single hole in the cluster, the cursor is
     c = hl + k (cyclically), e = an empty slot at or beyond the cursor (termination). *)
  Definition hole_inv (sl : list N) (hl k e : N) : Prop :=
    lenN sl = m /\ hl < m /\ e < m /\ 1 <= k /\ k <= dist m hl e /\
    getw sl hl = 0 /\ getw sl e = 0 /\
    (forall j, 0 < j -> j < k -> getw sl (addm m hl j) <> 0) /\
    (forall p, p < m -> getw sl p <> 0 ->
       (forall j, j < dist m (hm (getw sl p)) p -> addm m (hm (getw sl p)) j <> hl ->
                  getw sl (addm m (hm (getw sl p)) j) <> 0) /\
       (dist m (hm (getw sl p)) hl < dist m (hm (getw sl p)) p -> k <= dist m hl p)).

  Lemma hm_lt v : hm v < m.
  Proof. unfold hm. apply Hhome. Qed.

  Lemma hole_final sl hl k e :
    hole_inv sl hl k e -> getw sl (addm m hl k) = 0 -> good sl.
  Proof.
    intros [Hl [Hhl [He [Hk1 [Hke [Hz [Hez [Hrun Hall]]]]]]]] Hc0.
    intros p Hp Hnz j Hj.
    destruct (Hall p Hp Hnz) as [Hw Hc]. clear Hall.
    pose proof (hm_lt (getw sl p)) as Hs. set (s := hm (getw sl p)) in *.
    pose proof (dist_lt m s p Hs Hp) as Hdsp.
    pose proof (dist_lt m hl e Hhl He) as Hdhe.
    destruct (N.eq_dec (addm m s j) hl) as [Ehl|Nhl]; [exfalso|apply Hw; assumption].
    assert (Hj' : j = dist m s hl) by (rewrite <- Ehl; symmetry; apply dist_addm; lia).
    assert (Hk : k <= dist m hl p) by (apply Hc; lia).
    pose proof (dist_cross m s hl p Hs Hhl Hp ltac:(lia)) as Hcr.
    destruct (N.eq_dec k (dist m hl p)) as [Ek|Nk].
    - apply Hnz. rewrite <- (addm_dist m hl p) by assumption. rewrite <- Ek. exact Hc0.
    - apply (Hw (dist m s hl + k)).
      + lia.
      + rewrite <- addm_addm by lia. rewrite addm_dist by assumption. clear - Hhl Hk1 Hke Hdhe. md.
      + rewrite <- addm_addm by lia. rewrite addm_dist by assumption. exact Hc0.
  Qed.

  Lemma hole_step_B sl hl k e :
    hole_inv sl hl k e -> getw sl (addm m hl k) <> 0 ->
    ~ (dist m (hm (getw sl (addm m hl k))) hl < dist m (hm (getw sl (addm m hl k))) (addm m hl k)) ->
    hole_inv sl hl (k + 1) e.
  Proof.
    intros [Hl [Hhl [He [Hk1 [Hke [Hz [Hez [Hrun Hall]]]]]]]] Hcnz Hncross.
    pose proof (dist_lt m hl e Hhl He) as Hdhe.
    assert (Hkne : k <> dist m hl e).
    { intros Ek. apply Hcnz. rewrite Ek. rewrite addm_dist by assumption. exact Hez. }
    unfold hole_inv. repeat (split; [first [assumption|lia]|]). split.
    - intros j Hj0 Hj. destruct (N.eq_dec j k) as [->|Hne]; [exact Hcnz|]. apply Hrun; lia.
    - intros p Hp Hnz. destruct (Hall p Hp Hnz) as [Hw Hc]. split; [exact Hw|].
      intros Hcross. specialize (Hc Hcross).
      destruct (N.eq_dec k (dist m hl p)) as [Ek|Nk]; [|lia].
      exfalso. apply Hncross. rewrite Ek. rewrite addm_dist by assumption. exact Hcross.
  Qed.

  Lemma hole_step_A sl hl k e v :
    hole_inv sl hl k e -> getw sl (addm m hl k) = v -> v <> 0 ->
    dist m (hm v) hl < dist m (hm v) (addm m hl k) ->
    hole_inv (setw (setw sl (addm m hl k) 0) hl v) (addm m hl k) 1 e.
  Proof.
    intros [Hl [Hhl [He [Hk1 [Hke [Hz [Hez [Hrun Hall]]]]]]]] Hv Hvnz Hcross.
    pose proof (dist_lt m hl e Hhl He) as Hdhe.
    set (c := addm m hl k) in *.
    assert (Hc : c < m) by (apply addm_lt; lia).
    assert (Hchl : c <> hl) by (unfold c; clear - Hhl Hk1 Hke Hdhe; md).
    assert (Hec : e <> c) by congruence.
    assert (Hehl : e <> hl) by (clear - Hhl He Hk1 Hke; intros ->; rewrite dist_same in Hke; lia).
    assert (G : forall x, getw (setw (setw sl c 0) hl v) x =
                          if x =? hl then v else if x =? c then 0 else getw sl x).
    { intros x. apply getw_move; assumption. }
    destruct (Hall c Hc ltac:(congruence)) as [Hwc _]. rewrite Hv in Hwc.
    pose proof (hm_lt v) as Hsv.
    unfold hole_inv. split; [now rewrite !lenN_setw|]. split; [assumption|]. split; [assumption|].
    split; [lia|]. split; [clear - Hc He Hec; md|].
    split. { rewrite G. destruct (c =? hl) eqn:E1; [lia|]. now rewrite N.eqb_refl. }
    split. { rewrite G. destruct (e =? hl) eqn:E1; [lia|]. destruct (e =? c) eqn:E2; [lia|]. exact Hez. }
    split; [intros j Hj0 Hj1; lia|].
    intros p Hp. rewrite (G p).
    destruct (p =? hl) eqn:Ep1.
    - (* the moved entry, now at hl *)
      apply N.eqb_eq in Ep1. subst p. intros _. split.
      + intros j Hj Hjc. rewrite G.
        destruct (addm m (hm v) j =? hl) eqn:E1; [assumption|].
        destruct (addm m (hm v) j =? c) eqn:E2; [lia|].
        apply Hwc; lia.
      + intros Hcr. clear - Hc Hhl Hchl. md.
    - destruct (p =? c) eqn:Ep2; [intros; lia|].
      intros Hnz. destruct (Hall p Hp Hnz) as [Hw _]. split.
      + intros j Hj Hjc. rewrite G.
        destruct (addm m (hm (getw sl p)) j =? hl) eqn:E1; [assumption|].
        destruct (addm m (hm (getw sl p)) j =? c) eqn:E2; [lia|].
        apply Hw; lia.
      + intros _. clear - Hc Hp Ep2. md.
  Qed.

  Lemma reinsert_spec : forall fuel sl hl k e,
    hole_inv sl hl k e -> (N.to_nat (dist m (addm m hl k) e) < fuel)%nat ->
    exists sl', reinsert_cluster fuel ents sl mask (addm m hl k) = (sl', false) /\
                good sl' /\ same_content sl sl'.
  Proof.
    induction fuel as [|f IH]; intros sl hl k e Hinv Hfuel; [lia|].
    cbn [reinsert_cluster].
    pose proof Hinv as [Hl [Hhl [He [Hk1 [Hke [Hz [Hez [Hrun Hall]]]]]]]].
    pose proof (dist_lt m hl e Hhl He) as Hdhe.
    set (c := addm m hl k) in *.
    assert (Hc : c < m) by (apply addm_lt; lia).
    assert (Hchl : c <> hl) by (unfold c; clear - Hhl Hk1 Hke Hdhe; md).
    destruct (getw sl c =? 0) eqn:Ec.
    - exists sl. split; [reflexivity|]. split; [|apply same_content_refl].
      apply (hole_final sl hl k e Hinv). fold c. lia.
    - assert (Hvnz : getw sl c <> 0) by lia.
      assert (Hec : e <> c) by congruence.
      set (v := getw sl c) in *.
      unfold idx_insert. replace (v - 1 + 1) with v by lia.
      change (N.land (avalanche (getw ents (v - 1))) mask) with (hm v).
      pose proof (hm_lt v) as Hsv.
      destruct (Hall c Hc Hvnz) as [Hwc _]. fold v in Hwc.
      pose proof (dist_lt m (hm v) c Hsv Hc) as Hdsc.
      pose proof (dist_lt m (hm v) hl Hsv Hhl) as Hdsh.
      assert (Hlen1 : length (setw sl c 0) = N.to_nat m).
      { rewrite length_setw. unfold lenN in Hl. lia. }
      rewrite Hlen1. rewrite Hnext by assumption.
      assert (Hfuel' : (N.to_nat (dist m (addm m c 1) e) < f)%nat).
      { pose proof (dist_succ m c e Hc He ltac:(congruence)). lia. }
      destruct (N.ltb_spec (dist m (hm v) hl) (dist m (hm v) c)) as [Hcross|Hncross].
      + (* the entry moves into the hole *)
        rewrite (insert_from_spec m mask Hnext (dist m (hm v) hl)).
        * rewrite addm_dist by assumption.
          pose proof (hole_step_A sl hl k e v Hinv eq_refl Hvnz Hcross) as Hinv'. fold c in Hinv'.
          destruct (IH _ c 1 e Hinv' Hfuel') as [sl' [Hrun' [Hgood' Hsc']]].
          exists sl'. split; [exact Hrun'|]. split; [exact Hgood'|].
          eapply same_content_trans; [|exact Hsc'].
          apply move_same_content; try assumption; try reflexivity.
          rewrite getw_setw_other by congruence. exact Hz.
        * assumption.
        * assumption.
        * lia.
        * intros j Hj. 
          assert (addm m (hm v) j <> hl).
          { intros E. pose proof (dist_addm m (hm v) j Hsv ltac:(lia)). rewrite E in H. lia. }
          assert (addm m (hm v) j <> c).
          { intros E. pose proof (dist_addm m (hm v) j Hsv ltac:(lia)). rewrite E in H0. lia. }
          rewrite getw_setw_other by congruence. apply Hwc; [lia|assumption].
        * rewrite addm_dist by assumption. rewrite getw_setw_other by congruence. exact Hz.
      + (* the entry stays where it is *)
        rewrite (insert_from_spec m mask Hnext (dist m (hm v) c)).
        * rewrite addm_dist by assumption. unfold v. rewrite setw_restore by lia.
          assert (Hinv' : hole_inv sl hl (k + 1) e).
          { apply hole_step_B; try assumption. fold c. fold v. lia. }
          replace (addm m c 1) with (addm m hl (k + 1)) in * by (unfold c; rewrite addm_addm by lia; reflexivity).
          apply (IH sl hl (k + 1) e Hinv' Hfuel').
        * assumption.
        * assumption.
        * lia.
        * intros j Hj.
          assert (addm m (hm v) j <> hl).
          { intros E. pose proof (dist_addm m (hm v) j Hsv ltac:(lia)). rewrite E in H. lia. }
          assert (addm m (hm v) j <> c).
          { intros E. pose proof (dist_addm m (hm v) j Hsv ltac:(lia)). rewrite E in H0. lia. }
          rewrite getw_setw_other by congruence. apply Hwc; [lia|assumption].
        * rewrite addm_dist by assumption. apply getw_setw_same. lia.
  Qed.
End Delete.

Section DeleteAt.
  Variables (m mask : N) (ents : list N).
  Hypothesis Hnext : forall p, p < m -> N.land (p + 1) mask = addm m p 1.
  Hypothesis Hhome : forall a, N.land a mask < m.

  Lemma delete_at_spec sl pos e :
    lenN sl = m -> pos < m -> e < m -> good m mask ents sl ->
    getw sl pos <> 0 -> getw sl e = 0 ->
    exists sl', idx_delete_at ents sl mask pos = (sl', false) /\
                good m mask ents sl' /\ same_content m (setw sl pos 0) sl'.
  Proof.
    intros Hl Hpos He Hgood Hnz Hez.
    unfold idx_delete_at. rewrite Hnext by assumption.
    assert (Hpe : pos <> e) by congruence.
    assert (Hlen : length sl = N.to_nat m) by (unfold lenN in Hl; lia).
    rewrite Hlen.
    apply (reinsert_spec m mask ents Hnext Hhome (N.to_nat m) (setw sl pos 0) pos 1 e).
    - unfold hole_inv. split; [now rewrite lenN_setw|]. split; [assumption|]. split; [assumption|].
      split; [lia|]. split; [clear - Hpos He Hpe; md|].
      split; [apply getw_setw_same; lia|].
      split; [rewrite getw_setw_other by assumption; exact Hez|].
      split; [intros j Hj0 Hj1; lia|].
      intros p Hp.
      destruct (N.eq_dec p pos) as [->|Hne]; [rewrite getw_setw_same by lia; intros; lia|].
      rewrite (getw_setw_other sl pos p) by congruence. intros Hpnz. split.
      + intros j Hj Hjh. rewrite getw_setw_other by congruence. apply Hgood; assumption.
      + intros _. clear - Hpos Hp Hne. md.
    - pose proof (addm_lt m pos 1 Hpos ltac:(lia)) as Hc.
      pose proof (dist_lt m (addm m pos 1) e Hc He). lia.
  Qed.
End DeleteAt.

(* ------------------------------------------------------------------------------------ *)
(* 5. abstract specification: a ring of n optional fingerprints with a cursor            *)
(* ------------------------------------------------------------------------------------ *)

Record aring := { aslots : list (option N); acur : nat }.

Definition cell_is (h : N) (c : option N) : bool :=
  match c with Some x => x =? h | None => false end.

Fixpoint set_nth {A : Type} (l : list A) (i : nat) (v : A) : list A :=
  match l, i with
  | [], _ => []
  | _ :: t, O => v :: t
  | x :: t, S j => x :: set_nth t j v
  end.

Definition a_contains (r : aring) (h : N) : bool := existsb (cell_is h) (aslots r).

Definition a_add (r : aring) (h : N) : aring :=
  if a_contains r h then r
  else {| aslots := set_nth (aslots r) (acur r) (Some h);
          acur := (acur r + 1) mod length (aslots r) |}.

Definition a_remove (r : aring) (h : N) : aring * bool :=
  if a_contains r h
  then ({| aslots := map (fun c => if cell_is h c then None else c) (aslots r); acur := acur r |}, true)
  else (r, false).

Definition a_clear (r : aring) : aring :=
  {| aslots := map (fun _ => None) (aslots r); acur := 0 |}.

Definition a_new (n : nat) : aring := {| aslots := repeat None n; acur := 0 |}.

Definition cell (asl : list (option N)) (i : nat) : option N := nth i asl None.

Fixpoint count_some (l : list (option N)) : nat :=
  match l with
  | [] => 0%nat
  | Some _ :: t => S (count_some t)
  | None :: t => count_some t
  end.

Lemma set_nth_length {A} (l : list A) i v : length (set_nth l i v) = length l.
Proof.
  revert i; induction l as [|x l IH]; intros i; [reflexivity|].
  destruct i; cbn [set_nth length]; [reflexivity|]. now rewrite IH.
Qed.

Lemma cell_set_nth_same asl i v : (i < length asl)%nat -> cell (set_nth asl i v) i = v.
Proof.
  unfold cell. revert i; induction asl as [|x l IH]; intros i Hi; cbn [length] in Hi; [lia|].
  destruct i; cbn [set_nth nth]; [reflexivity|]. apply IH. lia.
Qed.

Lemma cell_set_nth_other asl i j v : i <> j -> cell (set_nth asl i v) j = cell asl j.
Proof.
  unfold cell. revert i j; induction asl as [|x l IH]; intros i j Hij; [destruct i; reflexivity|].
  destruct i, j; cbn [set_nth nth]; try reflexivity; try lia. apply IH. lia.
Qed.

Lemma cell_some_lt asl i h : cell asl i = Some h -> (i < length asl)%nat.
Proof.
  unfold cell. intros H. destruct (Nat.lt_ge_cases i (length asl)) as [Hlt|Hge]; [assumption|].
  rewrite nth_overflow in H by assumption. discriminate.
Qed.

Definition osome (c : option N) : nat := match c with Some _ => 1%nat | None => 0%nat end.

Lemma count_some_set_nth asl i v :
  (i < length asl)%nat ->
  (count_some (set_nth asl i v) + osome (cell asl i) = count_some asl + osome v)%nat.
Proof.
  unfold cell. revert i; induction asl as [|x l IH]; intros i Hi; cbn [length] in Hi; [lia|].
  destruct i; cbn [set_nth nth count_some].
  - destruct x, v; cbn [osome count_some]; lia.
  - specialize (IH i ltac:(lia)). destruct x; lia.
Qed.

Lemma count_some_le asl : (count_some asl <= length asl)%nat.
Proof. induction asl as [|[x|] l IH]; cbn [count_some length]; lia. Qed.

Lemma count_some_none_lt asl i : (i < length asl)%nat -> cell asl i = None -> (count_some asl < length asl)%nat.
Proof.
  unfold cell. revert i; induction asl as [|x l IH]; intros i Hi Hc; cbn [length] in Hi; [lia|].
  destruct i; cbn [nth] in Hc.
  - subst x. cbn [count_some length]. pose proof (count_some_le l). lia.
  - specialize (IH i ltac:(lia) Hc). destruct x; cbn [count_some length]; lia.
Qed.

Lemma count_some_some_pos asl i h : cell asl i = Some h -> (1 <= count_some asl)%nat.
Proof.
  unfold cell. revert i; induction asl as [|x l IH]; intros i Hc; [destruct i; discriminate|].
  destruct i; cbn [nth] in Hc.
  - subst x. cbn [count_some]. lia.
  - specialize (IH i Hc). destruct x; cbn [count_some]; lia.
Qed.

Lemma count_some_all_none asl : (forall i, cell asl i = None) -> count_some asl = 0%nat.
Proof.
  unfold cell. induction asl as [|x l IH]; intros H; [reflexivity|].
  pose proof (H 0%nat) as H0. cbn [nth] in H0. subst x. cbn [count_some].
  apply IH. intros i. exact (H (S i)).
Qed.

Lemma a_contains_true asl cur h :
  a_contains {| aslots := asl; acur := cur |} h = true <-> exists i, cell asl i = Some h.
Proof.
  unfold a_contains, cell. cbn [aslots]. rewrite existsb_exists. split.
  - intros [c [Hin Hc]]. destruct c as [x|]; cbn [cell_is] in Hc; [|discriminate].
    apply N.eqb_eq in Hc. subst x.
    destruct (In_nth _ _ None Hin) as [i [Hi Hnth]]. exists i. exact Hnth.
  - intros [i Hi]. exists (Some h). split.
    + rewrite <- Hi. apply nth_In. apply (cell_some_lt asl i h). exact Hi.
    + cbn [cell_is]. apply N.eqb_refl.
Qed.

Lemma a_contains_false asl cur h :
  a_contains {| aslots := asl; acur := cur |} h = false <-> forall i, cell asl i <> Some h.
Proof.
  split.
  - intros Hf i Hi. assert (a_contains {| aslots := asl; acur := cur |} h = true) by (apply a_contains_true; eauto).
    congruence.
  - intros Hn. destruct (a_contains {| aslots := asl; acur := cur |} h) eqn:E; [|reflexivity].
    apply a_contains_true in E. destruct E as [i Hi]. exfalso. exact (Hn i Hi).
Qed.

Lemma cell_repeat_none n i : cell (repeat None n) i = None.
Proof. unfold cell. revert i; induction n; intros i; destruct i; cbn; auto. Qed.

Lemma cell_map_none (asl : list (option N)) i : cell (map (fun _ => None) asl) i = None.
Proof. unfold cell. revert i; induction asl; intros i; destruct i; cbn; auto. Qed.

(* removing = setting the unique cell that holds Some h to None *)
Lemma remove_map_set_nth asl i h :
  (forall a b x, cell asl a = Some x -> cell asl b = Some x -> a = b) ->
  cell asl i = Some h ->
  map (fun c => if cell_is h c then None else c) asl = set_nth asl i None.
Proof.
  intros Hnd Hi.
  apply (nth_ext _ _ None None).
  - now rewrite map_length, set_nth_length.
  - intros j Hj. rewrite map_length in Hj.
    change (nth j (set_nth asl i None) None) with (cell (set_nth asl i None) j).
    rewrite (nth_indep _ None (if cell_is h None then None else None)) by (now rewrite map_length).
    rewrite (map_nth (fun c => if cell_is h c then None else c)).
    change (nth j asl None) with (cell asl j).
    destruct (Nat.eq_dec i j) as [<-|Hne].
    + rewrite cell_set_nth_same by (eapply cell_some_lt; eassumption).
      rewrite Hi. cbn [cell_is]. now rewrite N.eqb_refl.
    + rewrite cell_set_nth_other by assumption.
      destruct (cell asl j) as [x|] eqn:Ej; cbn [cell_is]; [|reflexivity].
      destruct (x =? h) eqn:E; [|reflexivity].
      apply N.eqb_eq in E. subst x. exfalso. apply Hne. eapply Hnd; eassumption.
Qed.

(* ------------------------------------------------------------------------------------ *)
(* 6. the representation invariant of the index                                          *)
(* ------------------------------------------------------------------------------------ *)

Definition geom (m mask : N) (n : nat) : Prop :=
  (exists k, m = 2 ^ k) /\ mask = m - 1 /\ 2 * N.of_nat n <= m.

Lemma geom_next m mask n : geom m mask n -> forall p, p < m -> N.land (p + 1) mask = addm m p 1.
Proof. intros [[k ->] [-> _]] p Hp. apply next_land. exact Hp. Qed.

Lemma geom_home m mask n : geom m mask n -> forall a, N.land a mask < m.
Proof. intros [[k ->] [-> _]] a. apply land_mask_lt. Qed.

Lemma geom_lt m mask n : geom m mask n -> N.of_nat n < m.
Proof.
  intros [[k ->] [_ H]]. assert (2 ^ k <> 0) by (apply N.pow_nonzero; lia). lia.
Qed.

(* index slots sl (length m) represent exactly the map { h |-> i : cell asl i = Some h } *)
Definition RI (m mask : N) (ents sl : list N) (asl : list (option N)) : Prop :=
  lenN sl = m /\ length ents = length asl /\
  (forall i j h, cell asl i = Some h -> cell asl j = Some h -> i = j) /\
  (forall i h, cell asl i = Some h -> nth i ents 0 = h) /\
  cnt sl = count_some asl /\
  (forall p, p < m -> getw sl p <> 0 ->
     exists i h, getw sl p = N.of_nat i + 1 /\ cell asl i = Some h) /\
  (forall i h, cell asl i = Some h -> exists p, p < m /\ getw sl p = N.of_nat i + 1) /\
  inj m sl /\ good m mask ents sl.

Section Index.
  Variables (m mask : N) (n : nat).
  Hypothesis Hgeom : geom m mask n.

  Let Hnext := geom_next m mask n Hgeom.
  Let Hhome := geom_home m mask n Hgeom.

  Lemma RI_exists_empty ents sl asl :
    RI m mask ents sl asl -> length asl = n -> exists e, e < m /\ getw sl e = 0.
  Proof.
    intros [Hl [_ [_ [_ [Hcnt _]]]]] Hn.
    pose proof (geom_lt m mask n Hgeom) as Hnm. pose proof (count_some_le asl) as Hle.
    destruct (cnt_exists_zero sl) as [e [He Hz]].
    - unfold lenN in Hl. lia.
    - exists e. split; [congruence|assumption].
  Qed.

  Lemma find_present ents sl asl i h :
    RI m mask ents sl asl -> length asl = n -> cell asl i = Some h ->
    exists p, p < m /\ getw sl p = N.of_nat i + 1 /\
      idx_find_from (length sl) ents sl mask (N.land (avalanche h) mask) h = (p, true, false).
  Proof.
    intros HRI Hn Hi.
    pose proof HRI as [Hl [Hel [Hnd [Hents [Hcnt [Hs2c [Hc2s [Hinj Hgood]]]]]]]].
    destruct (Hc2s i h Hi) as [p [Hp Hpv]].
    exists p. split; [assumption|]. split; [assumption|].
    assert (Hpnz : getw sl p <> 0) by lia.
    pose proof (Hgood p Hp Hpnz) as Hpath. rewrite Hpv in Hpath.
    unfold hm in Hpath. rewrite getw_of_nat in Hpath. rewrite (Hents i h Hi) in Hpath.
    set (s := N.land (avalanche h) mask) in *.
    assert (Hs : s < m) by apply Hhome.
    pose proof (dist_lt m s p Hs Hp) as Hd.
    replace (p, true, false) with (addm m s (dist m s p), true, false) by (now rewrite addm_dist).
    apply (find_from_found m mask Hnext (dist m s p)).
    - assumption.
    - assumption.
    - unfold lenN in Hl. lia.
    - intros j Hj. split; [apply Hpath; assumption|].
      pose proof (Hpath j Hj) as Hjnz.
      assert (Hxm : addm m s j < m) by (apply addm_lt; lia).
      destruct (Hs2c _ Hxm Hjnz) as [i' [h' [Hv' Hc']]].
      rewrite Hv', getw_of_nat, (Hents i' h' Hc').
      intros ->. assert (i' = i) by (eapply Hnd; eassumption). subst i'.
      assert (addm m s j = p) by (apply Hinj; try assumption; congruence).
      pose proof (dist_addm m s j Hs ltac:(lia)) as Hda. rewrite H in Hda. lia.
    - rewrite addm_dist by assumption. assumption.
    - rewrite addm_dist by assumption. rewrite Hpv, getw_of_nat. apply Hents. assumption.
  Qed.

  Lemma find_absent ents sl asl h :
    RI m mask ents sl asl -> length asl = n -> (forall i, cell asl i <> Some h) ->
    exists p, idx_find_from (length sl) ents sl mask (N.land (avalanche h) mask) h = (p, false, false).
  Proof.
    intros HRI Hn Hab.
    destruct (RI_exists_empty ents sl asl HRI Hn) as [e [He Hez]].
    pose proof HRI as [Hl [Hel [Hnd [Hents [Hcnt [Hs2c [Hc2s [Hinj Hgood]]]]]]]].
    set (s := N.land (avalanche h) mask) in *.
    assert (Hs : s < m) by apply Hhome.
    destruct (first_empty m mask Hnext sl s e Hs He Hez) as [d [Hd [Hdz Hdne]]].
    pose proof (dist_lt m s e Hs He) as Hde.
    exists (addm m s d).
    apply (find_from_notfound m mask Hnext d).
    - assumption.
    - lia.
    - unfold lenN in Hl. lia.
    - intros j Hj. split; [apply Hdne; assumption|].
      assert (Hxm : addm m s j < m) by (apply addm_lt; lia).
      destruct (Hs2c _ Hxm (Hdne j Hj)) as [i' [h' [Hv' Hc']]].
      rewrite Hv', getw_of_nat, (Hents i' h' Hc').
      intros ->. exact (Hab i' Hc').
    - assumption.
  Qed.

  Lemma good_ents_ext ents ents' sl :
    (forall p, p < m -> getw sl p <> 0 -> getw ents' (getw sl p - 1) = getw ents (getw sl p - 1)) ->
    good m mask ents sl -> good m mask ents' sl.
  Proof.
    intros Hext Hgood p Hp Hnz j. unfold hm. rewrite (Hext p Hp Hnz). apply Hgood; assumption.
  Qed.

  (* changing the ring word of an empty cell does not disturb the index *)
  Lemma RI_ents_change ents sl asl i x :
    RI m mask ents sl asl -> cell asl i = None -> RI m mask (setw_nat ents i x) sl asl.
  Proof.
    intros [Hl [Hel [Hnd [Hents [Hcnt [Hs2c [Hc2s [Hinj Hgood]]]]]]]] Hi.
    unfold RI. split; [assumption|]. split; [now rewrite setw_nat_length|]. split; [assumption|].
    split.
    { intros j h Hj. rewrite nth_setw_nat_other by congruence. apply Hents. assumption. }
    split; [assumption|]. split; [assumption|]. split; [assumption|]. split; [assumption|].
    apply (good_ents_ext ents); [|assumption].
    intros p Hp Hnz. destruct (Hs2c p Hp Hnz) as [i' [h' [Hv' Hc']]].
    rewrite Hv', !getw_of_nat. apply nth_setw_nat_other. congruence.
  Qed.

  Lemma RI_delete ents sl asl pos i :
    RI m mask ents sl asl -> length asl = n -> pos < m -> getw sl pos = N.of_nat i + 1 ->
    exists sl', idx_delete_at ents sl mask pos = (sl', false) /\ RI m mask ents sl' (set_nth asl i None).
  Proof.
    intros HRI Hn Hpos Hv.
    destruct (RI_exists_empty ents sl asl HRI Hn) as [e [He Hez]].
    pose proof HRI as [Hl [Hel [Hnd [Hents [Hcnt [Hs2c [Hc2s [Hinj Hgood]]]]]]]].
    assert (Hnz : getw sl pos <> 0) by lia.
    destruct (delete_at_spec m mask ents Hnext Hhome sl pos e Hl Hpos He Hgood Hnz Hez)
      as [sl' [Hrun [Hgood' [Hl' [Hcnt' [Hvals Hinj']]]]]].
    exists sl'. split; [exact Hrun|].
    destruct (Hs2c pos Hpos Hnz) as [i0 [h0 [Hv0 Hc0]]].
    assert (i0 = i) by lia. subst i0.
    pose proof (cell_some_lt asl i h0 Hc0) as Hilt.
    assert (G : forall x, getw (setw sl pos 0) x = if x =? pos then 0 else getw sl x).
    { intros x. destruct (x =? pos) eqn:E.
      - apply N.eqb_eq in E. subst x. apply getw_setw_same. lia.
      - apply N.eqb_neq in E. apply getw_setw_other. congruence. }
    assert (Hinj0 : inj m (setw sl pos 0)).
    { intros p q Hp Hq. rewrite !G. destruct (p =? pos) eqn:E1; [lia|].
      destruct (q =? pos) eqn:E2; [lia|]. apply Hinj; assumption. }
    unfold RI. split; [rewrite Hl', lenN_setw; assumption|]. split; [now rewrite set_nth_length|].
    split.
    { intros a b h Ha Hb.
      destruct (Nat.eq_dec i a) as [<-|Hia]; [rewrite cell_set_nth_same in Ha by assumption; discriminate|].
      destruct (Nat.eq_dec i b) as [<-|Hib]; [rewrite cell_set_nth_same in Hb by assumption; discriminate|].
      rewrite cell_set_nth_other in Ha, Hb by assumption. eapply Hnd; eassumption. }
    split.
    { intros a h Ha.
      destruct (Nat.eq_dec i a) as [<-|Hia]; [rewrite cell_set_nth_same in Ha by assumption; discriminate|].
      rewrite cell_set_nth_other in Ha by assumption. apply Hents. assumption. }
    split.
    { rewrite Hcnt'. pose proof (cnt_setw sl pos 0 ltac:(lia)) as H1.
      pose proof (count_some_set_nth asl i None Hilt) as H2. rewrite Hc0 in H2.
      unfold nz in H1. destruct (getw sl pos =? 0) eqn:E; [lia|]. cbn [N.eqb osome] in *. lia. }
    split.
    { intros p Hp Hpnz.
      destruct (proj1 (Hvals (getw sl' p) Hpnz)) as [p0 [Hp0 Hp0v]]; [exists p; split; [assumption|reflexivity]|].
      rewrite G in Hp0v. destruct (p0 =? pos) eqn:E; [lia|].
      apply N.eqb_neq in E.
      destruct (Hs2c p0 Hp0 ltac:(lia)) as [i' [h' [Hv' Hc']]].
      exists i', h'. split; [congruence|].
      rewrite cell_set_nth_other; [assumption|].
      intros <-. apply E. apply Hinj; try assumption; try lia. }
    split.
    { intros a h Ha.
      destruct (Nat.eq_dec i a) as [<-|Hia]; [rewrite cell_set_nth_same in Ha by assumption; discriminate|].
      rewrite cell_set_nth_other in Ha by assumption.
      destruct (Hc2s a h Ha) as [p0 [Hp0 Hp0v]].
      apply (Hvals (N.of_nat a + 1) ltac:(lia)).
      exists p0. split; [assumption|]. rewrite G. destruct (p0 =? pos) eqn:E; [|assumption].
      apply N.eqb_eq in E. subst p0. lia. }
    split; [apply Hinj'; assumption|assumption].
  Qed.

  Lemma RI_insert ents sl asl i h :
    RI m mask ents sl asl -> length asl = n -> (i < n)%nat -> cell asl i = None ->
    nth i ents 0 = h -> (forall j, cell asl j <> Some h) ->
    exists sl', idx_insert ents sl mask h (N.of_nat i) = (sl', false) /\
                RI m mask ents sl' (set_nth asl i (Some h)).
  Proof.
    intros HRI Hn Hi Hci Hei Hab.
    pose proof HRI as [Hl [Hel [Hnd [Hents [Hcnt [Hs2c [Hc2s [Hinj Hgood]]]]]]]].
    destruct (RI_exists_empty ents sl asl HRI Hn) as [e [He Hez]].
    unfold idx_insert.
    set (s := N.land (avalanche h) mask) in *.
    assert (Hs : s < m) by apply Hhome.
    destruct (first_empty m mask Hnext sl s e Hs He Hez) as [d [Hd [Hdz Hdne]]].
    pose proof (dist_lt m s e Hs He) as Hde.
    assert (Hdm : d < m) by lia.
    set (q := addm m s d) in *.
    assert (Hq : q < m) by (apply addm_lt; lia).
    exists (setw sl q (N.of_nat i + 1)). split.
    { apply (insert_from_spec m mask Hnext d); try assumption. unfold lenN in Hl. lia. }
    assert (G : forall x, getw (setw sl q (N.of_nat i + 1)) x = if x =? q then N.of_nat i + 1 else getw sl x).
    { intros x. destruct (x =? q) eqn:E.
      - apply N.eqb_eq in E. subst x. apply getw_setw_same. lia.
      - apply N.eqb_neq in E. apply getw_setw_other. congruence. }
    assert (Hilt : (i < length asl)%nat) by lia.
    unfold RI. split; [now rewrite lenN_setw|]. split; [now rewrite set_nth_length|].
    split.
    { intros a b x Ha Hb.
      destruct (Nat.eq_dec i a) as [<-|Hia], (Nat.eq_dec i b) as [<-|Hib]; [reflexivity| | |].
      - rewrite cell_set_nth_same in Ha by assumption. rewrite cell_set_nth_other in Hb by assumption.
        exfalso. apply (Hab b). congruence.
      - rewrite cell_set_nth_same in Hb by assumption. rewrite cell_set_nth_other in Ha by assumption.
        exfalso. apply (Hab a). congruence.
      - rewrite cell_set_nth_other in Ha, Hb by assumption. eapply Hnd; eassumption. }
    split.
    { intros a x Ha.
      destruct (Nat.eq_dec i a) as [<-|Hia].
      - rewrite cell_set_nth_same in Ha by assumption. congruence.
      - rewrite cell_set_nth_other in Ha by assumption. apply Hents. assumption. }
    split.
    { pose proof (cnt_setw sl q (N.of_nat i + 1) ltac:(lia)) as H1.
      pose proof (count_some_set_nth asl i (Some h) Hilt) as H2. rewrite Hci in H2.
      rewrite Hdz in H1. unfold nz in H1. destruct (N.of_nat i + 1 =? 0) eqn:E; [lia|].
      cbn [N.eqb osome] in *. lia. }
    split.
    { intros p Hp. rewrite G. destruct (p =? q) eqn:E.
      - intros _. exists i, h. split; [reflexivity|]. apply cell_set_nth_same. assumption.
      - intros Hpnz. destruct (Hs2c p Hp Hpnz) as [i' [h' [Hv' Hc']]].
        exists i', h'. split; [assumption|]. rewrite cell_set_nth_other; [assumption|]. congruence. }
    split.
    { intros a x Ha.
      destruct (Nat.eq_dec i a) as [<-|Hia].
      - exists q. split; [assumption|]. rewrite G. now rewrite N.eqb_refl.
      - rewrite cell_set_nth_other in Ha by assumption.
        destruct (Hc2s a x Ha) as [p [Hp Hpv]]. exists p. split; [assumption|].
        rewrite G. destruct (p =? q) eqn:E; [|assumption].
        apply N.eqb_eq in E. subst p. lia. }
    assert (Hfresh : forall p, p < m -> getw sl p <> N.of_nat i + 1).
    { intros p Hp Hpv. destruct (Hs2c p Hp ltac:(lia)) as [i' [h' [Hv' Hc']]].
      assert (i' = i) by lia. subst i'. congruence. }
    split.
    { intros p p' Hp Hp'. rewrite !G.
      destruct (p =? q) eqn:E1, (p' =? q) eqn:E2; try lia.
      - intros _ Heq. exfalso. apply (Hfresh p' Hp'). congruence.
      - intros _ Heq. exfalso. apply (Hfresh p Hp). congruence.
      - apply Hinj; assumption. }
    intros p Hp. rewrite (G p). destruct (p =? q) eqn:E.
    - apply N.eqb_eq in E. subst p. intros _ j.
      unfold hm. rewrite getw_of_nat, Hei. fold s.
      replace (dist m s q) with d by (unfold q; now rewrite dist_addm). intros Hj.
      rewrite G. destruct (addm m s j =? q) eqn:E1; [lia|]. apply Hdne. assumption.
    - intros Hpnz j Hj. rewrite G.
      destruct (addm m (hm mask ents (getw sl p)) j =? q) eqn:E1; [lia|].
      apply Hgood; assumption.
  Qed.
End Index.

(* ------------------------------------------------------------------------------------ *)
(* 7. the refinement relation and the refinement theorems                                *)
(* ------------------------------------------------------------------------------------ *)

Definition R (g : ghost) (r : aring) : Prop :=
  let n := length (aslots r) in
  (1 <= n)%nat /\ (acur r < n)%nat /\ gnext g = N.of_nat (acur r) /\ gerr g = false /\
  glive g = N.of_nat (count_some (aslots r)) /\
  geom (lenN (gslots g)) (gmask g) n /\
  RI (lenN (gslots g)) (gmask g) (entries g) (gslots g) (aslots r).

Lemma RI_empty m mask ents sl asl :
  lenN sl = m -> length ents = length asl ->
  (forall p, getw sl p = 0) -> (forall i, cell asl i = None) ->
  RI m mask ents sl asl.
Proof.
  intros Hl Hel Hz Hnone. unfold RI.
  split; [assumption|]. split; [assumption|].
  split; [intros i j h Hi; rewrite Hnone in Hi; discriminate|].
  split; [intros i h Hi; rewrite Hnone in Hi; discriminate|].
  split; [rewrite cnt_all_zero by assumption; now rewrite count_some_all_none|].
  split; [intros p _ Hp; rewrite Hz in Hp; lia|].
  split; [intros i h Hi; rewrite Hnone in Hi; discriminate|].
  split; [intros p q _ _ Hp; rewrite Hz in Hp; lia|].
  intros p _ Hp. rewrite Hz in Hp. lia.
Qed.

(* Theorem 1 *)
Theorem new_ghost_refines (n : nat) (k : N) :
  (1 <= n)%nat -> 2 * N.of_nat n <= 2 ^ k ->
  R (new_ghost (N.of_nat n) (2 ^ k)) (a_new n).
Proof.
  intros Hn Hm. unfold R, new_ghost, a_new.
  cbn [aslots acur entries gslots gmask gnext glive gerr].
  rewrite repeat_length.
  assert (HlenN : lenN (repeat 0 (N.to_nat (2 ^ k))) = 2 ^ k).
  { unfold lenN. rewrite repeat_length. lia. }
  rewrite HlenN.
  split; [assumption|]. split; [lia|]. split; [reflexivity|]. split; [reflexivity|].
  split; [rewrite count_some_all_none; [reflexivity|apply cell_repeat_none]|].
  split; [unfold geom; split; [exists k; reflexivity|split; [reflexivity|assumption]]|].
  apply RI_empty.
  - assumption.
  - rewrite !repeat_length. lia.
  - apply getw_repeat0.
  - apply cell_repeat_none.
Qed.

Lemma R_not_disabled g r : R g r -> ghost_disabled g = false.
Proof.
  intros [Hn [_ [_ [_ [_ [_ [_ [Hel _]]]]]]]]. unfold ghost_disabled.
  destruct (entries g); [cbn [length] in Hel; lia|reflexivity].
Qed.

(* Theorem 2 *)
Theorem g_contains_refines g r h : R g r -> g_contains g h = a_contains r h.
Proof.
  intros HR. pose proof (R_not_disabled g r HR) as Hdis.
  destruct HR as [Hn [Hcur [Hnx [Herr [Hlive [Hgeom HRI]]]]]].
  unfold g_contains. rewrite Hdis. unfold idx_find, probe_start.
  destruct r as [asl cur]. cbn [aslots acur] in *.
  destruct (a_contains {| aslots := asl; acur := cur |} h) eqn:E.
  - apply a_contains_true in E. destruct E as [i Hi].
    destruct (find_present _ _ _ Hgeom _ _ _ i h HRI eq_refl Hi) as [p [_ [_ Hf]]].
    rewrite Hf. reflexivity.
  - rewrite a_contains_false in E.
    destruct (find_absent _ _ _ Hgeom _ _ _ h HRI eq_refl E) as [p Hf].
    rewrite Hf. reflexivity.
Qed.

(* Theorem 5 *)
Theorem g_clear_refines g r : R g r -> R (g_clear g) (a_clear r).
Proof.
  intros [Hn [Hcur [Hnx [Herr [Hlive [Hgeom HRI]]]]]].
  destruct HRI as [Hl [Hel _]].
  unfold R, g_clear, a_clear. cbn [aslots acur entries gslots gmask gnext glive gerr].
  rewrite map_length.
  assert (HlenN : lenN (map (fun _ => 0) (gslots g)) = lenN (gslots g)).
  { unfold lenN. now rewrite map_length. }
  rewrite HlenN.
  split; [assumption|]. split; [lia|]. split; [reflexivity|]. split; [assumption|].
  split; [rewrite count_some_all_none; [reflexivity|apply cell_map_none]|].
  split; [assumption|].
  apply RI_empty.
  - assumption.
  - rewrite !map_length. assumption.
  - apply getw_map0.
  - apply cell_map_none.
Qed.

(* Theorem 8: capacity 0 *)
Theorem ghost_disabled_inert g h :
  ghost_disabled g = true ->
  g_contains g h = false /\ g_add g h = g /\ g_remove g h = (g, false).
Proof.
  intros Hd. unfold g_contains, g_add, g_remove. rewrite Hd. auto.
Qed.

Lemma new_ghost_0_disabled m : ghost_disabled (new_ghost 0 m) = true.
Proof. reflexivity. Qed.

Lemma ghost_disabled_clear g : ghost_disabled g = true -> ghost_disabled (g_clear g) = true.
Proof. unfold ghost_disabled, g_clear. cbn [entries]. destruct (entries g); [reflexivity|discriminate]. Qed.

Lemma set_nth_cell_id asl i : cell asl i = None -> set_nth asl i None = asl.
Proof.
  unfold cell. revert i; induction asl as [|x l IH]; intros i Hi; [destruct i; reflexivity|].
  destruct i; cbn [set_nth nth] in *; [now subst x|]. f_equal. apply IH. exact Hi.
Qed.

Lemma set_nth_twice {A} (l : list A) i a b : set_nth (set_nth l i a) i b = set_nth l i b.
Proof.
  revert i; induction l as [|x l IH]; intros i; [destruct i; reflexivity|].
  destruct i; cbn [set_nth]; [reflexivity|]. f_equal. apply IH.
Qed.

Lemma succ_mod_nat c n : (c < n)%nat -> ((c + 1) mod n = if (c + 1 =? n)%nat then 0 else c + 1)%nat.
Proof.
  intros Hc. destruct (c + 1 =? n)%nat eqn:E.
  - apply Nat.eqb_eq in E. rewrite E. apply Nat.mod_same. lia.
  - apply Nat.eqb_neq in E. apply Nat.mod_small. lia.
Qed.

Section Evict.
  Variables (m mask : N) (n : nat).
  Hypothesis Hgeom : geom m mask n.

  (* g_add's eviction of the fingerprint stored in the ring cell under the cursor *)
  Lemma evict_spec ents sl asl cur lv :
    RI m mask ents sl asl -> length asl = n -> (cur < n)%nat -> lv = N.of_nat (count_some asl) ->
    exists pos okold sl1 lv1,
      idx_find_from (length sl) ents sl mask (N.land (avalanche (nth cur ents 0)) mask) (nth cur ents 0)
        = (pos, okold, false) /\
      (if okold && (getw sl pos =? N.of_nat cur + 1)
       then let '(s, e) := idx_delete_at ents sl mask pos in (s, lv - 1, e)
       else (sl, lv, false)) = (sl1, lv1, false) /\
      RI m mask ents sl1 (set_nth asl cur None) /\
      lv1 = N.of_nat (count_some (set_nth asl cur None)).
  Proof.
    intros HRI Hn Hcur Hlv.
    pose proof HRI as [Hl [Hel [Hnd [Hents [Hcnt [Hs2c [Hc2s [Hinj Hgood]]]]]]]].
    set (old := nth cur ents 0).
    destruct (cell asl cur) as [h0|] eqn:Ec.
    - (* occupied cell: its index entry is deleted *)
      assert (Hold : old = h0) by (apply Hents; assumption). rewrite Hold.
      destruct (find_present m mask n Hgeom ents sl asl cur h0 HRI Hn Ec) as [p [Hp [Hpv Hf]]].
      destruct (RI_delete m mask n Hgeom ents sl asl p cur HRI Hn Hp Hpv) as [sl1 [Hdel HRI1]].
      exists p, true, sl1, (lv - 1). split; [exact Hf|].
      rewrite Hpv, N.eqb_refl. cbn [andb]. rewrite Hdel. split; [reflexivity|]. split; [exact HRI1|].
      pose proof (count_some_set_nth asl cur None ltac:(lia)) as H1. rewrite Ec in H1. cbn [osome] in H1.
      lia.
    - (* empty cell: nothing to evict *)
      rewrite (set_nth_cell_id asl cur Ec).
      destruct (a_contains {| aslots := asl; acur := 0 |} old) eqn:E.
      + apply a_contains_true in E. destruct E as [i Hi].
        destruct (find_present m mask n Hgeom ents sl asl i old HRI Hn Hi) as [p [Hp [Hpv Hf]]].
        exists p, true, sl, lv. split; [exact Hf|].
        assert (i <> cur) by congruence.
        destruct (getw sl p =? N.of_nat cur + 1) eqn:E1; [lia|]. cbn [andb].
        split; [reflexivity|]. split; assumption.
      + rewrite a_contains_false in E.
        destruct (find_absent m mask n Hgeom ents sl asl old HRI Hn E) as [p Hf].
        exists p, false, sl, lv. split; [exact Hf|]. cbn [andb].
        split; [reflexivity|]. split; assumption.
  Qed.
End Evict.

(* Theorem 3 *)
Theorem g_add_refines g r h : R g r -> R (g_add g h) (a_add r h).
Proof.
  intros HR. pose proof (R_not_disabled g r HR) as Hdis.
  pose proof HR as [Hn [Hcur [Hnx [Herr [Hlive [Hgeom HRI]]]]]].
  destruct r as [asl cur]. destruct g as [ents sl mask nx lv er].
  cbn [aslots acur entries gslots gmask gnext glive gerr] in *. subst nx er.
  unfold g_add, a_add. rewrite Hdis. unfold idx_find, probe_start.
  cbn [aslots acur entries gslots gmask gnext glive gerr].
  destruct (a_contains {| aslots := asl; acur := cur |} h) eqn:E.
  - apply a_contains_true in E. destruct E as [i Hi].
    destruct (find_present _ _ _ Hgeom _ _ _ i h HRI eq_refl Hi) as [p [_ [_ Hf]]].
    rewrite Hf. exact HR.
  - rewrite a_contains_false in E.
    destruct (find_absent _ _ _ Hgeom _ _ _ h HRI eq_refl E) as [p Hf].
    rewrite Hf. cbv zeta.
    rewrite getw_of_nat'.
    destruct (evict_spec _ _ _ Hgeom ents sl asl cur lv HRI eq_refl Hcur Hlive)
      as [pos [okold [sl1 [lv1 [Hf1 [Hev [HRI1 Hlv1]]]]]]].
    rewrite Hf1. rewrite Hev.
    pose proof HRI as [Hl [Hel _]].
    assert (Hcl : (cur < length asl)%nat) by lia.
    assert (Hl1 : lenN sl1 = lenN sl) by (destruct HRI1 as [H _]; exact H).
    assert (Hc1 : cell (set_nth asl cur None) cur = None) by (apply cell_set_nth_same; assumption).
    assert (Hsetw : setw ents (N.of_nat cur) h = setw_nat ents cur h) by (unfold setw; now rewrite Nat2N.id).
    rewrite Hsetw.
    pose proof (RI_ents_change _ _ ents sl1 _ cur h HRI1 Hc1) as HRI2.
    assert (Hlen1 : length (set_nth asl cur None) = length asl) by apply set_nth_length.
    assert (Hgeom1 : geom (lenN sl) mask (length (set_nth asl cur None))) by (rewrite Hlen1; exact Hgeom).
    destruct (RI_insert _ _ _ Hgeom1 (setw_nat ents cur h) sl1 (set_nth asl cur None) cur h) as [sl2 [Hins HRI3]].
    + exact HRI2.
    + reflexivity.
    + lia.
    + exact Hc1.
    + apply nth_setw_nat_same. lia.
    + intros j Hj. destruct (Nat.eq_dec cur j) as [<-|Hne]; [congruence|].
      rewrite cell_set_nth_other in Hj by assumption. exact (E j Hj).
    + rewrite Hins. rewrite set_nth_twice in HRI3.
      unfold R. cbn [aslots acur entries gslots gmask gnext glive gerr].
      rewrite set_nth_length.
      assert (Hl2 : lenN sl2 = lenN sl) by (destruct HRI3 as [H _]; exact H).
      rewrite Hl2.
      split; [assumption|].
      split; [apply Nat.mod_upper_bound; lia|].
      split.
      { rewrite succ_mod_nat by assumption. rewrite Hel.
        destruct (cur + 1 =? length asl)%nat eqn:E1.
        - apply Nat.eqb_eq in E1. destruct (N.of_nat cur + 1 =? N.of_nat (length asl)) eqn:E2; lia.
        - apply Nat.eqb_neq in E1. destruct (N.of_nat cur + 1 =? N.of_nat (length asl)) eqn:E2; lia. }
      split; [reflexivity|].
      split.
      { pose proof (count_some_set_nth (set_nth asl cur None) cur (Some h) ltac:(lia)) as H1.
        rewrite Hc1 in H1. rewrite set_nth_twice in H1. cbn [osome] in H1. lia. }
      split; [exact Hgeom|exact HRI3].
Qed.

(* Theorem 4 *)
Theorem g_remove_refines' g r h :
  R g r -> snd (g_remove g h) = snd (a_remove r h) /\ R (fst (g_remove g h)) (fst (a_remove r h)).
Proof.
  intros HR. pose proof (R_not_disabled g r HR) as Hdis.
  pose proof HR as [Hn [Hcur [Hnx [Herr [Hlive [Hgeom HRI]]]]]].
  destruct r as [asl cur]. destruct g as [ents sl mask nx lv er].
  cbn [aslots acur entries gslots gmask gnext glive gerr] in *. subst nx er.
  unfold g_remove, a_remove. rewrite Hdis. unfold idx_find, probe_start.
  cbn [aslots acur entries gslots gmask gnext glive gerr].
  destruct (a_contains {| aslots := asl; acur := cur |} h) eqn:E.
  - apply a_contains_true in E. destruct E as [i Hi].
    destruct (find_present _ _ _ Hgeom _ _ _ i h HRI eq_refl Hi) as [p [Hp [Hpv Hf]]].
    rewrite Hf. cbn [negb]. cbv zeta.
    destruct (RI_delete _ _ _ Hgeom ents sl asl p i HRI eq_refl Hp Hpv) as [sl1 [Hdel HRI1]].
    rewrite Hdel. cbn [fst snd]. split; [reflexivity|].
    pose proof HRI as [Hl [Hel [Hnd _]]].
    rewrite (remove_map_set_nth asl i h Hnd Hi).
    pose proof (cell_some_lt asl i h Hi) as Hilt.
    assert (Hc1 : cell (set_nth asl i None) i = None) by (apply cell_set_nth_same; assumption).
    assert (Hsetw : setw ents (getw sl p - 1) 0 = setw_nat ents i 0).
    { unfold setw. f_equal. lia. }
    rewrite Hsetw.
    pose proof (RI_ents_change _ _ ents sl1 _ i 0 HRI1 Hc1) as HRI2.
    assert (Hl1 : lenN sl1 = lenN sl) by (destruct HRI1 as [H _]; exact H).
    unfold R. cbn [aslots acur entries gslots gmask gnext glive gerr].
    rewrite set_nth_length. rewrite Hl1.
    split; [assumption|]. split; [assumption|]. split; [reflexivity|]. split; [reflexivity|].
    split.
    { pose proof (count_some_set_nth asl i None Hilt) as H1. rewrite Hi in H1. cbn [osome] in H1. lia. }
    split; [exact Hgeom|exact HRI2].
  - pose proof E as E'. rewrite a_contains_false in E'.
    destruct (find_absent _ _ _ Hgeom _ _ _ h HRI eq_refl E') as [p Hf].
    rewrite Hf. cbn [negb fst snd orb]. split; [reflexivity|]. exact HR.
Qed.

Theorem g_remove_refines g r h :
  R g r ->
  let (g', ok) := g_remove g h in let (r', ok') := a_remove r h in ok = ok' /\ R g' r'.
Proof.
  intros HR. pose proof (g_remove_refines' g r h HR) as H.
  destruct (g_remove g h) as [g' ok]. destruct (a_remove r h) as [r' ok']. exact H.
Qed.

(* ------------------------------------------------------------------------------------ *)
(* 8. operation sequences: observational refinement, the error flag never rises          *)
(* ------------------------------------------------------------------------------------ *)

Inductive gop := OpAdd (h : N) | OpRemove (h : N) | OpContains (h : N) | OpClear.

Definition g_step (g : ghost) (op : gop) : ghost * option bool :=
  match op with
  | OpAdd h => (g_add g h, None)
  | OpRemove h => let '(g', ok) := g_remove g h in (g', Some ok)
  | OpContains h => (g, Some (g_contains g h))
  | OpClear => (g_clear g, None)
  end.

Definition a_step (r : aring) (op : gop) : aring * option bool :=
  match op with
  | OpAdd h => (a_add r h, None)
  | OpRemove h => let '(r', ok) := a_remove r h in (r', Some ok)
  | OpContains h => (r, Some (a_contains r h))
  | OpClear => (a_clear r, None)
  end.

Lemma step_refines g r op :
  R g r -> snd (g_step g op) = snd (a_step r op) /\ R (fst (g_step g op)) (fst (a_step r op)).
Proof.
  intros HR. destruct op as [h|h|h|]; cbn [g_step a_step].
  - cbn [fst snd]. split; [reflexivity|]. apply g_add_refines. exact HR.
  - pose proof (g_remove_refines' g r h HR) as [H1 H2].
    destruct (g_remove g h) as [g' ok]. destruct (a_remove r h) as [r' ok'].
    cbn [fst snd] in *. split; [congruence|assumption].
  - cbn [fst snd]. split; [|exact HR]. f_equal. apply g_contains_refines. exact HR.
  - cbn [fst snd]. split; [reflexivity|]. apply g_clear_refines. exact HR.
Qed.

Theorem run_refines ops : forall g r,
  R g r ->
  run_out g_step g ops = run_out a_step r ops /\
  R (run_state g_step g ops) (run_state a_step r ops).
Proof.
  unfold run_out, run_state.
  induction ops as [|op ops IH]; intros g r HR; cbn [run].
  - cbn [fst snd]. split; [reflexivity|exact HR].
  - pose proof (step_refines g r op HR) as [H1 H2].
    destruct (g_step g op) as [g1 o1]. destruct (a_step r op) as [r1 o2]. cbn [fst snd] in *.
    destruct (IH g1 r1 H2) as [H3 H4].
    destruct (run g_step g1 ops) as [g2 os1]. destruct (run a_step r1 ops) as [r2 os2].
    cbn [fst snd] in *. split; [congruence|assumption].
Qed.

(* Theorem 6: fuel always suffices *)
Corollary ghost_never_errs (n : nat) (k : N) ops :
  (1 <= n)%nat -> 2 * N.of_nat n <= 2 ^ k ->
  gerr (run_state g_step (new_ghost (N.of_nat n) (2 ^ k)) ops) = false.
Proof.
  intros Hn Hm.
  destruct (run_refines ops _ _ (new_ghost_refines n k Hn Hm)) as [_ HR].
  destruct HR as [_ [_ [_ [Herr _]]]]. exact Herr.
Qed.

Corollary ghost_observations (n : nat) (k : N) ops :
  (1 <= n)%nat -> 2 * N.of_nat n <= 2 ^ k ->
  run_out g_step (new_ghost (N.of_nat n) (2 ^ k)) ops = run_out a_step (a_new n) ops /\
  glive (run_state g_step (new_ghost (N.of_nat n) (2 ^ k)) ops)
    = N.of_nat (count_some (aslots (run_state a_step (a_new n) ops))).
Proof.
  intros Hn Hm.
  destruct (run_refines ops _ _ (new_ghost_refines n k Hn Hm)) as [Hout HR].
  split; [exact Hout|]. destruct HR as [_ [_ [_ [_ [Hlive _]]]]]. exact Hlive.
Qed.

(* ------------------------------------------------------------------------------------ *)
(* 9. FIFO window of the abstract ring (Theorem 7)                                       *)
(* ------------------------------------------------------------------------------------ *)

(* history of ACCEPTED adds, newest first, each with a "removed since" flag *)
Definition hist := list (N * bool).

Definition live_entry (h : N) (e : N * bool) : bool := (fst e =? h) && negb (snd e).

(* h is among the last n accepted adds and not flagged removed *)
Definition live_in (n : nat) (H : hist) (h : N) : bool := existsb (live_entry h) (firstn n H).

Definition h_add (n : nat) (H : hist) (h : N) : hist :=
  if live_in n H h then H else (h, false) :: H.

(* flag the newest live entry of h among the first k entries *)
Fixpoint mark_removed (k : nat) (H : hist) (h : N) : hist :=
  match k, H with
  | S k', (x, rm) :: t =>
      if (x =? h) && negb rm then (x, true) :: t else (x, rm) :: mark_removed k' t h
  | _, _ => H
  end.

Definition h_step (n : nat) (H : hist) (op : gop) : hist :=
  match op with
  | OpAdd h => h_add n H h
  | OpRemove h => mark_removed n H h
  | OpContains _ => H
  | OpClear => []
  end.

Definition hcell (H : hist) (j : nat) : option N :=
  match nth_error H j with Some (x, false) => Some x | _ => None end.

Lemma hcell_nil j : hcell [] j = None.
Proof. unfold hcell. destruct j; reflexivity. Qed.

Lemma hcell_cons_S e H j : hcell (e :: H) (S j) = hcell H j.
Proof. reflexivity. Qed.

Lemma live_in_iff n : forall H h, live_in n H h = true <-> exists j, (j < n)%nat /\ hcell H j = Some h.
Proof.
  unfold live_in. induction n as [|n IH]; intros H h.
  - cbn [firstn existsb]. split; [discriminate|]. intros [j [Hj _]]. lia.
  - destruct H as [|[x rm] t].
    + cbn [firstn existsb]. split; [discriminate|]. intros [j [_ Hj]]. rewrite hcell_nil in Hj. discriminate.
    + cbn [firstn existsb]. rewrite Bool.orb_true_iff, IH. split.
      * intros [Hl|[j [Hj Hc]]].
        { unfold live_entry in Hl. cbn [fst snd] in Hl. apply Bool.andb_true_iff in Hl. destruct Hl as [H1 H2].
          apply N.eqb_eq in H1. subst x. destruct rm; [discriminate|].
          exists 0%nat. split; [lia|reflexivity]. }
        { exists (S j). split; [lia|]. rewrite hcell_cons_S. exact Hc. }
      * intros [j [Hj Hc]]. destruct j as [|j].
        { left. unfold hcell in Hc. cbn [nth_error] in Hc. destruct rm; [discriminate|].
          injection Hc as ->. unfold live_entry. cbn [fst snd negb]. now rewrite N.eqb_refl. }
        { right. exists j. split; [lia|]. rewrite hcell_cons_S in Hc. exact Hc. }
Qed.

(* ring cell holding the j-th newest accepted add when the cursor is cur *)
Definition widx (n cur j : nat) : nat :=
  if (j <? cur)%nat then (cur - 1 - j)%nat else (cur + n - 1 - j)%nat.

Lemma widx_lt n cur j : (cur < n)%nat -> (j < n)%nat -> (widx n cur j < n)%nat.
Proof. intros Hc Hj. unfold widx. destruct (Nat.ltb_spec j cur); lia. Qed.

Lemma widx_invol n cur j : (cur < n)%nat -> (j < n)%nat -> widx n cur (widx n cur j) = j.
Proof.
  intros Hc Hj. unfold widx.
  destruct (Nat.ltb_spec j cur) as [H1|H1].
  - destruct (Nat.ltb_spec (cur - 1 - j) cur); lia.
  - destruct (Nat.ltb_spec (cur + n - 1 - j) cur); lia.
Qed.

Lemma widx_succ_0 n cur : (cur < n)%nat -> widx n ((cur + 1) mod n) 0 = cur.
Proof.
  intros Hc. rewrite succ_mod_nat by assumption. unfold widx.
  destruct (Nat.eqb_spec (cur + 1) n) as [E|E].
  - destruct (Nat.ltb_spec 0 0); lia.
  - destruct (Nat.ltb_spec 0 (cur + 1)); lia.
Qed.

Lemma widx_succ_S n cur j :
  (cur < n)%nat -> (S j < n)%nat ->
  widx n ((cur + 1) mod n) (S j) = widx n cur j /\ widx n cur j <> cur.
Proof.
  intros Hc Hj. rewrite succ_mod_nat by assumption. unfold widx.
  destruct (Nat.eqb_spec (cur + 1) n) as [E|E].
  - destruct (Nat.ltb_spec (S j) 0); [lia|]. destruct (Nat.ltb_spec j cur); lia.
  - destruct (Nat.ltb_spec (S j) (cur + 1)); destruct (Nat.ltb_spec j cur); lia.
Qed.

Definition Wwin (n : nat) (asl : list (option N)) (cur : nat) (H : hist) : Prop :=
  forall j, (j < n)%nat -> cell asl (widx n cur j) = hcell H j.

Definition uniq (n : nat) (H : hist) : Prop :=
  forall j1 j2 h, (j1 < n)%nat -> (j2 < n)%nat -> hcell H j1 = Some h -> hcell H j2 = Some h -> j1 = j2.

(* a live entry in the window is the latest accepted add of its fingerprint *)
Definition latest (n : nat) (H : hist) : Prop :=
  forall j h, (j < n)%nat -> hcell H j = Some h ->
  forall j' e, (j' < j)%nat -> nth_error H j' = Some e -> fst e <> h.

Definition fifo_inv (n : nat) (r : aring) (H : hist) : Prop :=
  length (aslots r) = n /\ (acur r < n)%nat /\ Wwin n (aslots r) (acur r) H /\ uniq n H /\ latest n H.

Lemma contains_live_in n r H h : fifo_inv n r H -> a_contains r h = live_in n H h.
Proof.
  intros [Hlen [Hcur [HW _]]]. destruct r as [asl cur]. cbn [aslots acur] in *.
  apply Bool.eq_iff_eq_true. rewrite a_contains_true, live_in_iff. split.
  - intros [i Hi]. pose proof (cell_some_lt asl i h Hi) as Hil. rewrite Hlen in Hil.
    exists (widx n cur i). split; [apply widx_lt; assumption|].
    rewrite <- HW by (apply widx_lt; assumption). rewrite widx_invol by assumption. exact Hi.
  - intros [j [Hj Hc]]. exists (widx n cur j). rewrite HW by assumption. exact Hc.
Qed.

Lemma hcell_mark_removed h : forall k H j,
  uniq k H -> (j < k)%nat ->
  hcell (mark_removed k H h) j = if cell_is h (hcell H j) then None else hcell H j.
Proof.
  induction k as [|k IH]; intros H j Hu Hj; [lia|].
  destruct H as [|[x rm] t].
  - cbn [mark_removed]. rewrite hcell_nil. reflexivity.
  - cbn [mark_removed].
    assert (Hu' : uniq k t).
    { intros j1 j2 y H1 H2 Hc1 Hc2. assert (S j1 = S j2); [|lia].
      apply (Hu (S j1) (S j2) y); try lia; rewrite hcell_cons_S; assumption. }
    destruct ((x =? h) && negb rm) eqn:E.
    + apply Bool.andb_true_iff in E. destruct E as [E1 E2]. apply N.eqb_eq in E1. subst x.
      destruct rm; [discriminate|].
      destruct j as [|j].
      * unfold hcell. cbn [nth_error cell_is]. now rewrite N.eqb_refl.
      * rewrite !hcell_cons_S.
        destruct (hcell t j) as [y|] eqn:Ey; cbn [cell_is]; [|reflexivity].
        destruct (y =? h) eqn:E3; [|reflexivity]. apply N.eqb_eq in E3. subst y.
        exfalso. assert (0 = S j)%nat; [|lia].
        apply (Hu 0%nat (S j) h); try lia; [reflexivity|]. rewrite hcell_cons_S. exact Ey.
    + destruct j as [|j].
      * unfold hcell. cbn [nth_error]. destruct rm; [reflexivity|]. cbn [cell_is].
        rewrite Bool.andb_true_r in E. now rewrite E.
      * rewrite !hcell_cons_S. apply IH; [assumption|lia].
Qed.

Lemma mark_removed_fst h : forall k H j,
  option_map fst (nth_error (mark_removed k H h) j) = option_map fst (nth_error H j).
Proof.
  induction k as [|k IH]; intros H j; [reflexivity|].
  destruct H as [|[x rm] t]; [reflexivity|]. cbn [mark_removed].
  destruct ((x =? h) && negb rm).
  - destruct j; reflexivity.
  - destruct j; [reflexivity|]. cbn [nth_error]. apply IH.
Qed.

Lemma cell_map_clear h asl i :
  cell (map (fun c => if cell_is h c then None else c) asl) i
  = if cell_is h (cell asl i) then None else cell asl i.
Proof.
  unfold cell.
  exact (map_nth (fun c => if cell_is h c then None else c) asl None i).
Qed.

Lemma fifo_step n r H op :
  fifo_inv n r H -> fifo_inv n (fst (a_step r op)) (h_step n H op).
Proof.
  intros Hinv. pose proof (fun h => contains_live_in n r H h Hinv) as Hcl.
  destruct Hinv as [Hlen [Hcur [HW [Hu Hlat]]]].
  destruct r as [asl cur]. cbn [aslots acur] in *.
  destruct op as [h|h|h|]; cbn [a_step h_step fst].
  - (* add *)
    unfold a_add, h_add. rewrite <- Hcl.
    destruct (a_contains {| aslots := asl; acur := cur |} h) eqn:E.
    { unfold fifo_inv. cbn [aslots acur]. auto. }
    cbn [aslots acur]. rewrite Hcl in E.
    assert (Hnl : forall j, (j < n)%nat -> hcell H j <> Some h).
    { intros j Hj Hc. assert (live_in n H h = true) by (apply live_in_iff; eauto). congruence. }
    unfold fifo_inv. cbn [aslots acur]. rewrite set_nth_length.
    split; [assumption|]. split; [rewrite Hlen; apply Nat.mod_upper_bound; lia|]. rewrite Hlen.
    split; [|split].
    + intros j Hj. destruct j as [|j].
      * rewrite widx_succ_0 by assumption. rewrite cell_set_nth_same by lia. reflexivity.
      * destruct (widx_succ_S n cur j Hcur Hj) as [H1 H2]. rewrite H1.
        rewrite cell_set_nth_other by congruence. rewrite hcell_cons_S. apply HW. lia.
    + intros j1 j2 y H1 H2 Hc1 Hc2.
      destruct j1 as [|j1], j2 as [|j2]; [reflexivity| | |].
      * exfalso. unfold hcell in Hc1. cbn [nth_error] in Hc1. injection Hc1 as <-.
        rewrite hcell_cons_S in Hc2. apply (Hnl j2); [lia|assumption].
      * exfalso. unfold hcell in Hc2. cbn [nth_error] in Hc2. injection Hc2 as <-.
        rewrite hcell_cons_S in Hc1. apply (Hnl j1); [lia|assumption].
      * rewrite hcell_cons_S in Hc1, Hc2. f_equal. apply (Hu j1 j2 y); try lia; assumption.
    + intros j y Hj Hc j' e Hj' He.
      destruct j as [|j]; [lia|]. rewrite hcell_cons_S in Hc.
      destruct j' as [|j'].
      * cbn [nth_error] in He. injection He as <-. cbn [fst]. intros ->. apply (Hnl j); [lia|assumption].
      * cbn [nth_error] in He. apply (Hlat j y ltac:(lia) Hc j' e); [lia|assumption].
  - (* remove *)
    assert (Hfst : fst (let '(r', ok) := a_remove {| aslots := asl; acur := cur |} h in (r', Some ok))
                   = fst (a_remove {| aslots := asl; acur := cur |} h)).
    { destruct (a_remove {| aslots := asl; acur := cur |} h); reflexivity. }
    rewrite Hfst. clear Hfst.
    assert (Hcells : forall i, cell (aslots (fst (a_remove {| aslots := asl; acur := cur |} h))) i
                               = if cell_is h (cell asl i) then None else cell asl i).
    { intros i. unfold a_remove.
      destruct (a_contains {| aslots := asl; acur := cur |} h) eqn:E; cbn [fst aslots].
      - apply cell_map_clear.
      - rewrite a_contains_false in E. destruct (cell asl i) as [y|] eqn:Ey; cbn [cell_is]; [|reflexivity].
        destruct (y =? h) eqn:E1; [|reflexivity]. apply N.eqb_eq in E1. subst y. exfalso. exact (E i Ey). }
    assert (Hlen' : length (aslots (fst (a_remove {| aslots := asl; acur := cur |} h))) = n).
    { unfold a_remove. destruct (a_contains {| aslots := asl; acur := cur |} h); cbn [fst aslots];
        [rewrite map_length|]; assumption. }
    assert (Hcur' : acur (fst (a_remove {| aslots := asl; acur := cur |} h)) = cur).
    { unfold a_remove. destruct (a_contains {| aslots := asl; acur := cur |} h); reflexivity. }
    assert (Hsub : forall j y, (j < n)%nat -> hcell (mark_removed n H h) j = Some y -> hcell H j = Some y).
    { intros j y Hj. rewrite hcell_mark_removed by assumption.
      destruct (cell_is h (hcell H j)); [discriminate|auto]. }
    unfold fifo_inv. rewrite Hlen', Hcur'.
    split; [reflexivity|]. split; [assumption|]. split; [|split].
    + intros j Hj. rewrite Hcells. rewrite hcell_mark_removed by assumption. rewrite !HW by assumption. reflexivity.
    + intros j1 j2 y H1 H2 Hc1 Hc2. apply (Hu j1 j2 y); auto.
    + intros j y Hj Hc j' e Hj' He.
      pose proof (mark_removed_fst h n H j') as Hf. rewrite He in Hf. cbn [option_map] in Hf.
      destruct (nth_error H j') as [e0|] eqn:E0; [|discriminate]. cbn [option_map] in Hf.
      injection Hf as Hf. rewrite Hf.
      apply (Hlat j y Hj (Hsub j y Hj Hc) j' e0 Hj' E0).
  - (* contains *)
    unfold fifo_inv. cbn [aslots acur]. auto.
  - (* clear *)
    unfold a_clear, fifo_inv. cbn [aslots acur]. rewrite map_length.
    split; [assumption|]. split; [lia|]. split; [|split].
    + intros j Hj. rewrite cell_map_none, hcell_nil. reflexivity.
    + intros j1 j2 y _ _ Hc. rewrite hcell_nil in Hc. discriminate.
    + intros j y _ Hc. rewrite hcell_nil in Hc. discriminate.
Qed.

Lemma fifo_inv_new n : (1 <= n)%nat -> fifo_inv n (a_new n) [].
Proof.
  intros Hn. unfold fifo_inv, a_new. cbn [aslots acur]. rewrite repeat_length.
  split; [reflexivity|]. split; [lia|]. split; [|split].
  - intros j Hj. rewrite cell_repeat_none, hcell_nil. reflexivity.
  - intros j1 j2 y _ _ Hc. rewrite hcell_nil in Hc. discriminate.
  - intros j y _ Hc. rewrite hcell_nil in Hc. discriminate.
Qed.

Lemma fifo_lockstep n ops : forall r H,
  fifo_inv n r H -> fifo_inv n (run_state a_step r ops) (fold_left (h_step n) ops H).
Proof.
  intros r H. rewrite run_state_fold. revert r H.
  induction ops as [|op ops IH]; intros r H Hinv; cbn [fold_left]; [exact Hinv|].
  apply IH. apply fifo_step. exact Hinv.
Qed.

(* Theorem 7 *)
Theorem fifo_window n ops h :
  (1 <= n)%nat ->
  a_contains (run_state a_step (a_new n) ops) h = live_in n (fold_left (h_step n) ops []) h.
Proof.
  intros Hn. apply contains_live_in. apply fifo_lockstep. apply fifo_inv_new. exact Hn.
Qed.

(* ... and the live entry is the LATEST accepted add of h: nothing newer in the history is about h *)
Theorem fifo_window_latest n ops h :
  (1 <= n)%nat ->
  let H := fold_left (h_step n) ops [] in
  a_contains (run_state a_step (a_new n) ops) h = true <->
  exists j, (j < n)%nat /\ nth_error H j = Some (h, false) /\
            forall j' e, (j' < j)%nat -> nth_error H j' = Some e -> fst e <> h.
Proof.
  intros Hn H.
  pose proof (fifo_lockstep n ops _ _ (fifo_inv_new n Hn)) as Hinv. fold H in Hinv.
  rewrite (contains_live_in n _ H h Hinv). rewrite live_in_iff.
  destruct Hinv as [_ [_ [_ [_ Hlat]]]].
  split.
  - intros [j [Hj Hc]]. exists j. split; [assumption|]. split.
    + unfold hcell in Hc. destruct (nth_error H j) as [[x rm]|]; [|discriminate].
      destruct rm; [discriminate|]. now injection Hc as ->.
    + apply (Hlat j h Hj Hc).
  - intros [j [Hj [Hc _]]]. exists j. split; [assumption|]. unfold hcell. now rewrite Hc.
Qed.

(* the concrete ghost inherits the window property *)
Corollary ghost_fifo_window (n : nat) (k : N) ops h :
  (1 <= n)%nat -> 2 * N.of_nat n <= 2 ^ k ->
  g_contains (run_state g_step (new_ghost (N.of_nat n) (2 ^ k)) ops) h
  = live_in n (fold_left (h_step n) ops []) h.
Proof.
  intros Hn Hm.
  destruct (run_refines ops _ _ (new_ghost_refines n k Hn Hm)) as [_ HR].
  rewrite (g_contains_refines _ _ h HR). apply fifo_window. exact Hn.
Qed.

(* ------------------------------------------------------------------------------------ *)
(* 10. R in the words of the task: reachability from the probe start                     *)
(* ------------------------------------------------------------------------------------ *)

Lemma R_reachable g r i h :
  R g r -> cell (aslots r) i = Some h ->
  let m := lenN (gslots g) in
  nth i (entries g) 0 = h /\
  exists d, d < m /\ getw (gslots g) (addm m (probe_start g h) d) = N.of_nat i + 1 /\
            forall j, j < d -> getw (gslots g) (addm m (probe_start g h) j) <> 0.
Proof.
  intros [Hn [Hcur [Hnx [Herr [Hlive [Hgeom HRI]]]]]] Hi m.
  destruct HRI as [Hl [Hel [Hnd [Hents [Hcnt [Hs2c [Hc2s [Hinj Hgood]]]]]]]].
  split; [apply Hents; assumption|].
  destruct (Hc2s i h Hi) as [p [Hp Hpv]].
  pose proof (Hgood p Hp ltac:(lia)) as Hpath. rewrite Hpv in Hpath.
  unfold hm in Hpath. rewrite getw_of_nat, (Hents i h Hi) in Hpath.
  fold (probe_start g h) in Hpath.
  assert (Hs : probe_start g h < m) by (apply (geom_home _ _ _ Hgeom)).
  exists (dist m (probe_start g h) p). split; [apply dist_lt; assumption|].
  split; [rewrite addm_dist by assumption; exact Hpv|exact Hpath].
Qed.

Lemma R_slot_owner g r p :
  R g r -> p < lenN (gslots g) -> getw (gslots g) p <> 0 ->
  exists i h, getw (gslots g) p = N.of_nat i + 1 /\ cell (aslots r) i = Some h /\
              forall q, q < lenN (gslots g) -> getw (gslots g) q = getw (gslots g) p -> q = p.
Proof.
  intros [Hn [Hcur [Hnx [Herr [Hlive [Hgeom HRI]]]]]] Hp Hnz.
  destruct HRI as [Hl [Hel [Hnd [Hents [Hcnt [Hs2c [Hc2s [Hinj Hgood]]]]]]]].
  destruct (Hs2c p Hp Hnz) as [i [h [Hv Hc]]]. exists i, h. split; [assumption|]. split; [assumption|].
  intros q Hq Heq. symmetry. apply Hinj; auto.
Qed.

Lemma R_has_empty_slot g r : R g r -> exists e, e < lenN (gslots g) /\ getw (gslots g) e = 0.
Proof.
  intros [Hn [Hcur [Hnx [Herr [Hlive [Hgeom HRI]]]]]].
  apply (RI_exists_empty _ _ _ Hgeom _ _ _ HRI eq_refl).
Qed.

(* ------------------------------------------------------------------------------------ *)
(* 11. non-vacuity: a concrete ghost of capacity 3 with 8 index slots, real avalanche    *)
(* ------------------------------------------------------------------------------------ *)

(* 10, 20 and 30 all hash to index position 0, so evicting 10 re-inserts the cluster {20,30};
   40 hashes to 2, 50 to 6.  The adds wrap the ring, remove 40 leaves a hole, 40 is re-added. *)
Example ghost_example :
  let ops1 := [OpAdd 10; OpAdd 20; OpAdd 30; OpAdd 40; OpAdd 50; OpRemove 40] in
  let g1 := run_state g_step (new_ghost 3 8) ops1 in
  let r1 := run_state a_step (a_new 3) ops1 in
  let g2 := g_add (g_add g1 40) 20 in
  let r2 := a_add (a_add r1 40) 20 in
  map (fun h => N.land (avalanche h) 7) [10; 20; 30; 40; 50] = [0; 0; 0; 2; 6] /\
  g1 = {| entries := [0; 50; 30]; gslots := [3; 0; 0; 0; 0; 0; 2; 0]; gmask := 7;
          gnext := 2; glive := 2; gerr := false |} /\
  r1 = {| aslots := [None; Some 50; Some 30]; acur := 2 |} /\
  R g1 r1 /\
  g2 = {| entries := [20; 50; 40]; gslots := [1; 0; 3; 0; 0; 0; 2; 0]; gmask := 7;
          gnext := 1; glive := 3; gerr := false |} /\
  r2 = {| aslots := [Some 20; Some 50; Some 40]; acur := 1 |} /\
  R g2 r2 /\
  map (g_contains g2) [10; 20; 30; 40; 50] = [false; true; false; true; true] /\
  fold_left (h_step 3) (ops1 ++ [OpAdd 40; OpAdd 20]) []
    = [(20, false); (40, false); (50, false); (40, true); (30, false); (20, false); (10, false)].
Proof.
  intros ops1 g1 r1 g2 r2.
  assert (HR1 : R g1 r1).
  { pose proof (new_ghost_refines 3 3 ltac:(lia) ltac:(cbn; lia)) as H0.
    destruct (run_refines ops1 _ _ H0) as [_ H1]. exact H1. }
  assert (HR2 : R g2 r2) by (unfold g2, r2; do 2 apply g_add_refines; exact HR1).
  split; [vm_compute; reflexivity|].
  split; [vm_compute; reflexivity|].
  split; [vm_compute; reflexivity|].
  split; [exact HR1|].
  split; [vm_compute; reflexivity|].
  split; [vm_compute; reflexivity|].
  split; [exact HR2|].
  split; vm_compute; reflexivity.
Qed.

(* the load condition matters: with m < 2n (here n = m = 2) the index fills up and the
   probe loops run out of fuel *)
Example load_condition_needed :
  gerr (run_state g_step (new_ghost 2 2) [OpAdd 1; OpAdd 2; OpAdd 3]) = true.
Proof. vm_compute. reflexivity. Qed.

(* ------------------------------------------------------------------------------------ *)
(* 12. the extracted Z-stream driver (ghost_step / ghost_init) never reports an error    *)
(* ------------------------------------------------------------------------------------ *)

Definition decode (op : list Z) : option gop :=
  match op with
  | [1; h] => Some (OpAdd (Z.to_N h))
  | [2; h] => Some (OpRemove (Z.to_N h))
  | [3; h] => Some (OpContains (Z.to_N h))
  | [4] => Some OpClear
  | _ => None
  end%Z.

Lemma ghost_step_decode g op :
  fst (ghost_step g op) = match decode op with Some o => fst (g_step g o) | None => g end.
Proof.
  unfold ghost_step, decode.
  repeat match goal with
  | |- context[match ?x with _ => _ end] => is_var x; destruct x
  end; try reflexivity.
  all: cbn [g_step fst]; try reflexivity.
  all: destruct (g_remove g (Z.to_N z)); reflexivity.
Qed.

Lemma ghost_step_R g r op : R g r -> exists r', R (fst (ghost_step g op)) r'.
Proof.
  intros HR. rewrite ghost_step_decode. destruct (decode op) as [o|].
  - exists (fst (a_step r o)). apply step_refines. exact HR.
  - exists r. exact HR.
Qed.

Theorem ghost_stream_never_errs (n : nat) (k : N) (ops : list (list Z)) :
  (1 <= n)%nat -> 2 * N.of_nat n <= 2 ^ k ->
  gerr (run_state ghost_step (ghost_init [Z.of_nat n; Z.of_N (2 ^ k)]) ops) = false.
Proof.
  intros Hn Hm. unfold ghost_init.
  replace (Z.to_N (Z.of_nat n)) with (N.of_nat n) by lia. rewrite N2Z.id.
  pose proof (new_ghost_refines n k Hn Hm) as HR.
  rewrite run_state_fold.
  assert (Hgen : forall g, (exists r, R g r) ->
            exists r, R (fold_left (fun st i => fst (ghost_step st i)) ops g) r).
  { induction ops as [|op ops IH]; intros g [r Hr]; cbn [fold_left]; [eauto|].
    apply IH. apply (ghost_step_R g r op Hr). }
  destruct (Hgen _ (ex_intro _ _ HR)) as [r [_ [_ [_ [Herr _]]]]]. exact Herr.
Qed.

(* capacity 0 along whole runs: the ghost stays disabled and every observation is negative *)
Lemma ghost_disabled_step g op :
  ghost_disabled g = true ->
  ghost_disabled (fst (g_step g op)) = true /\
  (snd (g_step g op) = None \/ snd (g_step g op) = Some false).
Proof.
  intros Hd. destruct (ghost_disabled_inert g 0 Hd) as [_ _].
  destruct op as [h|h|h|]; cbn [g_step].
  - destruct (ghost_disabled_inert g h Hd) as [_ [-> _]]. cbn [fst snd]. auto.
  - destruct (ghost_disabled_inert g h Hd) as [_ [_ ->]]. cbn [fst snd]. auto.
  - destruct (ghost_disabled_inert g h Hd) as [-> _]. cbn [fst snd]. auto.
  - cbn [fst snd]. split; [apply ghost_disabled_clear; assumption|auto].
Qed.

Theorem ghost_disabled_run ops : forall g,
  ghost_disabled g = true ->
  ghost_disabled (run_state g_step g ops) = true /\
  Forall (fun o => o = None \/ o = Some false) (run_out g_step g ops).
Proof.
  unfold run_state, run_out.
  induction ops as [|op ops IH]; intros g Hd; cbn [run].
  - cbn [fst snd]. split; [assumption|constructor].
  - destruct (ghost_disabled_step g op Hd) as [H1 H2].
    destruct (g_step g op) as [g1 o]. cbn [fst snd] in *.
    destruct (IH g1 H1) as [H3 H4]. destruct (run g_step g1 ops) as [g2 os]. cbn [fst snd] in *.
    split; [assumption|]. constructor; assumption.
Qed.
