(* C02 — concurrent Set/Get/Delete histories are linearizable per key. (a) LinCheck.v: a VERIFIED decision procedure for linearizability against the lossy register (sound and complete), its windowed form, and the three consequences named in the property; the conc stream feeds real histories to the extracted checker. (b) HtableLtsProofs.v: lock-free lookups against the single writer at the granularity of atomic loads/stores: a hit returns an item of that key alive during the lookup, a miss overlaps an instant at which the key was unpublished. (c) the strict statement is refuted on the table LTS inside ONE in-flight insert (present/absent/present): finding F10. Only `exact` + Print Assumptions. (c) MutexLinearizability.v: for LRU / LFU / FIFO every Set, Delete and Get runs under the shard lock; any object whose operations are lock-protected bodies is linearizable with the lock acquisition as linearization point, instantiated to the lossy register of LinCheck. *)
Require Import KV.Base KV.HtableModel KV.HtableProofs KV.HtableTrace KV.HtableLts KV.HtableLtsProofs KV.LinCheck KV.MutexAtomicity KV.MutexLinearizability KV.ItemImmutable.
Open Scope Z_scope.

(* the checker accepts exactly the linearizable histories of the lossy register *)
Theorem c02_checker_correct :
  forall (init : option Z) (h : list LinCheck.call),
         lin_check init h = true <-> LinCheck.linearizable init h.
Proof. exact lin_check_correct. Qed.

(* cutting at quiescent points and chaining the possible contents is exact *)
Theorem c02_windowed_checker_correct :
  forall (init : option Z) (ws : list (list LinCheck.call)),
         windows_ok ws ->
         wf (concat ws) ->
         lin_check_windows_exact init ws = true <-> LinCheck.linearizable init (concat ws).
Proof. exact lin_check_windows_exact_correct. Qed.

(* the stream form the driver runs is exact *)
Theorem c02_stream_checker_correct :
  forall (init x : option Z) (ws : list (list LinCheck.call)),
         windows_ok ws ->
         wf (concat ws) ->
         (forall o : list Z, In o (run_out lin_chain_step [init] (map (enc_window x) ws)) -> o = [1]) <->
         LinCheck.linearizable init (concat ws).
Proof. exact lin_chain_stream_correct. Qed.

(* a Get never returns a value older than one whose Set completed before the Get began *)
Theorem c02_no_stale_after_set :
  forall (init : option Z) (h : list LinCheck.call) (w1 w2 g : LinCheck.call) (v1 v2 : Z),
         LinCheck.linearizable init h ->
         In w2 h ->
         In g h ->
         LinCheck.op w1 = KSet v1 false ->
         LinCheck.op w2 = KSet v2 false ->
         v1 <> v2 ->
         only_writer h v1 w1 -> ret w1 < inv w2 -> ret w2 < inv g -> LinCheck.op g <> KGet (Some v1).
Proof. exact no_stale_read. Qed.

(* nor a value whose Delete completed before the Get began *)
Theorem c02_no_value_after_delete :
  forall (init : option Z) (h : list LinCheck.call) (w d g : LinCheck.call) 
           (v : Z) (ok : bool),
         LinCheck.linearizable init h ->
         In d h ->
         In g h ->
         LinCheck.op w = KSet v false ->
         LinCheck.op d = KDelete ok ->
         only_writer h v w -> ret w < inv d -> ret d < inv g -> LinCheck.op g <> KGet (Some v).
Proof. exact no_read_after_delete. Qed.

(* successive reads never go backwards *)
Theorem c02_reads_never_go_back :
  forall (init : option Z) (h : list LinCheck.call) (w1 w2 g1 g2 : LinCheck.call) (v1 v2 : Z),
         LinCheck.linearizable init h ->
         In g1 h ->
         In g2 h ->
         LinCheck.op w1 = KSet v1 false ->
         LinCheck.op w2 = KSet v2 false ->
         LinCheck.op g1 = KGet (Some v2) ->
         v1 <> v2 ->
         init <> Some v2 ->
         only_writer h v1 w1 ->
         only_writer h v2 w2 ->
         ret w1 < inv w2 -> ret g1 < inv g2 -> LinCheck.op g2 <> KGet (Some v1).
Proof. exact monotonic_reads. Qed.

(* lock-free hit: an item of that key, alive at some instant during the lookup *)
Theorem c02_reader_hit_sound :
  forall hashf : Z -> Z,
         (forall k : Z, 0 <= hashf k) ->
         forall (g0 : gstate) (r : nat) (k h : Z) (rest : list rop) (sch : list nat) 
           (g2 : gstate) (v : Z),
         HtableLtsProofs.reachable hashf g0 ->
         rpcof (rth g0 r) = RB ->
         rscript (rth g0 r) = RLookup k h :: rest ->
         rpcof (rth (lfinal g0 sch) r) <> RB ->
         rscript (rth (lfinal g0 sch) r) = rest ->
         HtableLts.lstep (lfinal g0 sch) (S r) = Some (g2, [0; 1; v]) ->
         exists it : HtableModel.item,
           HtableModel.ikey it = k /\
           HtableModel.ival it = v /\ (exists gj : gstate, In gj (ltrace g0 sch) /\ alive_in it gj).
Proof. exact reader_sound_hit. Qed.

(* lock-free miss: the key was unpublished at some instant during the lookup *)
Theorem c02_reader_miss_sound :
  forall hashf : Z -> Z,
         (forall k : Z, 0 <= hashf k) ->
         forall (g0 : gstate) (r : nat) (k h : Z) (rest : list rop) (sch : list nat) (g2 : gstate),
         HtableLtsProofs.reachable hashf g0 ->
         rpcof (rth g0 r) = RB ->
         rscript (rth g0 r) = RLookup k h :: rest ->
         rpcof (rth (lfinal g0 sch) r) <> RB ->
         rscript (rth (lfinal g0 sch) r) = rest ->
         HtableLts.lstep (lfinal g0 sch) (S r) = Some (g2, [0; 0; 0]) ->
         exists gj : gstate, In gj (ltrace g0 sch) /\ absent_cur k gj.
Proof. exact reader_sound_miss. Qed.

(* a key published throughout a lookup is found with that item *)
Theorem c02_resident_found :
  forall hashf : Z -> Z,
         (forall k : Z, 0 <= hashf k) ->
         forall (g0 : gstate) (r : nat) (k h : Z) (rest : list rop) (sch : list nat) 
           (g2 : gstate) (o : list Z) (x : HtableModel.item),
         HtableLtsProofs.reachable hashf g0 ->
         rpcof (rth g0 r) = RB ->
         rscript (rth g0 r) = RLookup k h :: rest ->
         rpcof (rth (lfinal g0 sch) r) <> RB ->
         rscript (rth (lfinal g0 sch) r) = rest ->
         HtableLts.lstep (lfinal g0 sch) (S r) = Some (g2, o) ->
         rpcof (rth g2 r) = RB ->
         HtableModel.ikey x = k ->
         (forall gj : gstate,
          In gj (ltrace g0 sch) -> exists p : nat, published (cur_arr (gmem gj)) p x) ->
         o = [0; 1; HtableModel.ival x].
Proof. exact resident_key_found. Qed.

(* a key absent throughout is not found *)
Theorem c02_absent_not_found :
  forall hashf : Z -> Z,
         (forall k : Z, 0 <= hashf k) ->
         forall (g0 : gstate) (r : nat) (k h : Z) (rest : list rop) (sch : list nat) 
           (g2 : gstate) (o : list Z),
         HtableLtsProofs.reachable hashf g0 ->
         rpcof (rth g0 r) = RB ->
         rscript (rth g0 r) = RLookup k h :: rest ->
         rpcof (rth (lfinal g0 sch) r) <> RB ->
         rscript (rth (lfinal g0 sch) r) = rest ->
         HtableLts.lstep (lfinal g0 sch) (S r) = Some (g2, o) ->
         rpcof (rth g2 r) = RB ->
         (forall (gj : gstate) (it : HtableModel.item),
          In gj (ltrace g0 sch) -> alive_in it gj -> HtableModel.ikey it <> k) -> 
         o = [0; 0; 0].
Proof. exact absent_key_not_found. Qed.

(* never another key's value, even when tags collide *)
Theorem c02_never_wrong_key :
  forall hashf : Z -> Z,
         (forall k : Z, 0 <= hashf k) ->
         forall (g0 : gstate) (r : nat) (k h : Z) (rest : list rop) (sch : list nat) 
           (g2 : gstate) (v : Z),
         HtableLtsProofs.reachable hashf g0 ->
         rpcof (rth g0 r) = RB ->
         rscript (rth g0 r) = RLookup k h :: rest ->
         rpcof (rth (lfinal g0 sch) r) <> RB ->
         rscript (rth (lfinal g0 sch) r) = rest ->
         HtableLts.lstep (lfinal g0 sch) (S r) = Some (g2, [0; 1; v]) ->
         exists it : HtableModel.item, HtableModel.ikey it = k /\ HtableModel.ival it = v.
Proof. exact never_wrong_key. Qed.

(* every history of lock-protected calls (write-locked bodies and read-locked observations, any threads, any schedule) is linearizable; the witness order is the lock-acquisition order *)
Theorem c02_lock_protected_linearizable :
  forall (S R : Type) (s0 : S) (scripts : list (list (MutexAtomicity.op S R)))
           (w : wstate S R),
         wreachable s0 scripts w ->
         linearizable_with s0 (w_hist w) (spec_run s0 (w_lin w)) /\
         writes_of (w_lin w) = g_acq (w_st w).
Proof. exact MutexLinearizability.lock_protected_linearizable. Qed.

(* ...in existential form *)
Theorem c02_lock_protected_history_linearizable :
  forall (S R : Type) (s0 : S) (scripts : list (list (MutexAtomicity.op S R)))
           (w : wstate S R), wreachable s0 scripts w -> linearizable s0 (w_hist w).
Proof. exact MutexLinearizability.lock_protected_history_linearizable. Qed.

(* instantiated to one key as a lossy register (Set / rejected Set / Delete / Get / Exists / silent eviction): the history is linearizable in LinCheck's sense *)
Theorem c02_locked_register_linearizable :
  forall (s0 : LossyRegister.V)
           (scripts : list (list (MutexAtomicity.op LossyRegister.V LossyRegister.Rr)))
           (w : wstate LossyRegister.V LossyRegister.Rr),
         LossyRegister.reg_scripts scripts ->
         wreachable s0 scripts w -> LinCheck.linearizable s0 (LossyRegister.reg_calls s0 w).
Proof. exact MutexLinearizability.LossyRegister.register_linearizable. Qed.

(* locked policies: a Get invoked after Set v2 returned (itself invoked after Set v1 returned) does not return v1 *)
Theorem c02_locked_no_stale_read :
  forall (s0 : LossyRegister.V)
           (scripts : list (list (MutexAtomicity.op LossyRegister.V LossyRegister.Rr)))
           (w : wstate LossyRegister.V LossyRegister.Rr) (t1 q1 p1 : nat)
           (c1 : lcall LossyRegister.V LossyRegister.Rr) (r1 : res LossyRegister.Rr) 
           (t2 q2 p2 : nat) (c2 : lcall LossyRegister.V LossyRegister.Rr) 
           (r2 : res LossyRegister.Rr) (tg qg pg : nat) (cg : lcall LossyRegister.V LossyRegister.Rr)
           (rg : res LossyRegister.Rr) (v1 v2 : Z),
         LossyRegister.reg_scripts scripts ->
         wreachable s0 scripts w ->
         LossyRegister.completed w t1 q1 p1 c1 r1 ->
         LossyRegister.kop_of r1 = Some (KSet v1 false) ->
         LossyRegister.completed w t2 q2 p2 c2 r2 ->
         LossyRegister.kop_of r2 = Some (KSet v2 false) ->
         LossyRegister.completed w tg qg pg cg rg ->
         v1 <> v2 ->
         only_writer (LossyRegister.reg_calls s0 w) v1
           {| inv := Z.of_nat q1; ret := Z.of_nat p1; LinCheck.op := KSet v1 false |} ->
         (p1 < q2)%nat -> (p2 < qg)%nat -> LossyRegister.kop_of rg <> Some (KGet (Some v1)).
Proof. exact MutexLinearizability.LossyRegister.get_not_stale_direct. Qed.

(* locked policies: a Get invoked after a Delete returned does not return the deleted value *)
Theorem c02_locked_no_value_after_delete :
  forall (s0 : LossyRegister.V)
           (scripts : list (list (MutexAtomicity.op LossyRegister.V LossyRegister.Rr)))
           (w : wstate LossyRegister.V LossyRegister.Rr) (t1 q1 p1 : nat)
           (c1 : lcall LossyRegister.V LossyRegister.Rr) (r1 : res LossyRegister.Rr) 
           (td qd pd : nat) (cd : lcall LossyRegister.V LossyRegister.Rr) 
           (rd : res LossyRegister.Rr) (ok : bool) (tg qg pg : nat)
           (cg : lcall LossyRegister.V LossyRegister.Rr) (rg : res LossyRegister.Rr) 
           (v : Z),
         LossyRegister.reg_scripts scripts ->
         wreachable s0 scripts w ->
         LossyRegister.completed w t1 q1 p1 c1 r1 ->
         LossyRegister.kop_of r1 = Some (KSet v false) ->
         LossyRegister.completed w td qd pd cd rd ->
         LossyRegister.kop_of rd = Some (KDelete ok) ->
         LossyRegister.completed w tg qg pg cg rg ->
         only_writer (LossyRegister.reg_calls s0 w) v
           {| inv := Z.of_nat q1; ret := Z.of_nat p1; LinCheck.op := KSet v false |} ->
         (p1 < qd)%nat -> (pd < qg)%nat -> LossyRegister.kop_of rg <> Some (KGet (Some v)).
Proof. exact MutexLinearizability.LossyRegister.get_not_deleted_direct. Qed.

(* nobody placed later in the witness order responded before an earlier one was invoked *)
Theorem c02_real_time_timestamps :
  forall (S R : Type) (h : list (event S R)) (ts : list nat) (i j : nat),
         rt_respected h ts ->
         (i < j)%nat -> (j < length ts)%nat -> ~ (ret_pos h ts j < inv_pos h ts i)%nat.
Proof. exact MutexLinearizability.rt_timestamps. Qed.

(* strict atomicity fails inside one in-flight re-insert: present / absent / present (finding F10) *)
Theorem c02_atomic_refuted :
  exists (ws : list wop) (rss : list (list rop)) (sch1 sch2 sch3 sch4 : list nat) 
         (v : Z),
           wproto Flicker.hf ainit ws /\
           (let g0 := init_state 0 ws rss in
            let g1 := lfinal g0 sch1 in
            let g2 := lfinal g1 sch2 in
            let g3 := lfinal g2 sch3 in
            let g4 := lfinal g3 sch4 in
            gwpc g1 = W222 5 (Flicker.mk 2 v 6) false /\
            sch2 = [1%nat] /\
            snd (HtableLts.lrun g1 sch2) = [[0; 1; v]] /\
            sch3 = [2%nat; 2%nat; 2%nat] /\
            rpcof (rth g2 1) = RB /\
            last (snd (HtableLts.lrun g2 sch3)) [] = [0; 0; 0] /\
            sch4 = [0%nat; 3%nat; 3%nat; 3%nat; 3%nat] /\
            rpcof (rth g3 2) = RB /\
            last (snd (HtableLts.lrun g3 sch4)) [] = [0; 1; v] /\
            gwpc g4 <> WB /\
            completions (filter (fun _ : list Z => true) (snd (HtableLts.lrun g3 [0%nat]))) = []).
Proof. exact Flicker.atomic_flicker_refuted. Qed.

(* a paused lock-free read never returns a mixture or another key's write *)
Theorem c02_paused_read_delivers_one_write :
  forall (before : list op) (k : Z) (p : nat) (after : list op),
         let s := run false init before in
         lookup (tab s) k = Some p ->
         exists it : item,
           resume s p = Some it /\
           resume (run false s after) p = Some it /\ ikey it = k /\ In it (log s).
Proof. exact ItemImmutable.paused_read_delivers_one_write. Qed.

Print Assumptions c02_checker_correct.
Print Assumptions c02_windowed_checker_correct.
Print Assumptions c02_stream_checker_correct.
Print Assumptions c02_no_stale_after_set.
Print Assumptions c02_no_value_after_delete.
Print Assumptions c02_reads_never_go_back.
Print Assumptions c02_reader_hit_sound.
Print Assumptions c02_reader_miss_sound.
Print Assumptions c02_resident_found.
Print Assumptions c02_absent_not_found.
Print Assumptions c02_never_wrong_key.
Print Assumptions c02_lock_protected_linearizable.
Print Assumptions c02_lock_protected_history_linearizable.
Print Assumptions c02_locked_register_linearizable.
Print Assumptions c02_locked_no_stale_read.
Print Assumptions c02_locked_no_value_after_delete.
Print Assumptions c02_real_time_timestamps.
Print Assumptions c02_atomic_refuted.
Print Assumptions c02_paused_read_delivers_one_write.
