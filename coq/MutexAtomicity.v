(* MutexAtomicity.v — critical sections under one lock compose sequentially.

   One generic labelled transition system covers parts 1–6 of the task:
     * shared state [S], result type [R], any number of threads (a list of scripts);
     * the INNER lock is a sync.RWMutex: write flag [wlk] + reader count [rdc];
     * the OUTER lock is a plain sync.Mutex token [olk] (the cache's drainMu);
     * a write call is  Lock/TryLock ; micro-steps (one per scheduler step) ; Unlock,
       a read call is   RLock ; observations (one per scheduler step) ; RUnlock,
       [ILocal] is a thread-local step that does not touch [S];
     * [OOuter try b] is  outer.Lock/TryLock ; inner-level ops b ; outer.Unlock —
       so the acquisition order outer-then-inner (or inner alone, or TryLock on either)
       is the syntax of scripts.
   The one-lock system is the fragment whose scripts contain no [OOuter]; theorems 1–4
   are stated for the inner lock and hold for every script, so they hold for it too.
   Ghost fields record the acquisition order, the returned results and what readers saw. *)
From KV Require Import Base.
Close Scope Z_scope.
Open Scope nat_scope.

Set Implicit Arguments.

(* ---------- generic list helpers ---------- *)
Section ListHelpers.
  Variable A : Type.

  Fixpoint upd (l : list A) (i : nat) (x : A) : list A :=
    match l, i with
    | [], _ => []
    | _ :: r, O => x :: r
    | a :: r, Datatypes.S j => a :: upd r j x
    end.

  Definition b2n (b : bool) : nat := if b then 1 else 0.

  Fixpoint count (p : A -> bool) (l : list A) : nat :=
    match l with [] => 0 | a :: r => b2n (p a) + count p r end.

  Lemma nth_upd_eq l i x a : nth_error l i = Some a -> nth_error (upd l i x) i = Some x.
  Proof.
    revert i; induction l as [|b l IH]; intros [|i] H; cbn in *; try discriminate; auto.
  Qed.

  Lemma nth_upd_ne l i j x : i <> j -> nth_error (upd l i x) j = nth_error l j.
  Proof.
    revert i j; induction l as [|b l IH]; intros [|i] [|j] H; cbn; auto; try congruence.
  Qed.

  Lemma count_upd p l i x a : nth_error l i = Some a ->
    count p (upd l i x) + b2n (p a) = count p l + b2n (p x).
  Proof.
    revert i; induction l as [|b l IH]; intros [|i] H; cbn in *; try discriminate.
    - inversion H; subst. lia.
    - specialize (IH _ H). lia.
  Qed.

  Lemma count_upd' p l i x a ba bx : nth_error l i = Some a -> p a = ba -> p x = bx ->
    count p (upd l i x) + b2n ba = count p l + b2n bx.
  Proof. intros H <- <-. apply count_upd; auto. Qed.

  Lemma count_ge1 p l i a : nth_error l i = Some a -> p a = true -> 1 <= count p l.
  Proof.
    revert i; induction l as [|b l IH]; intros [|i] H Hp; cbn in *; try discriminate.
    - inversion H; subst. rewrite Hp. cbn. lia.
    - specialize (IH _ H Hp). lia.
  Qed.

  Lemma count_ge2 p l i j a b : i <> j ->
    nth_error l i = Some a -> nth_error l j = Some b -> p a = true -> p b = true ->
    2 <= count p l.
  Proof.
    revert i j; induction l as [|c l IH]; intros [|i] [|j] Hne Hi Hj Ha Hb; cbn in *;
      try discriminate; try congruence.
    - inversion Hi; subst. rewrite Ha. pose proof (count_ge1 p l j Hj Hb). cbn. lia.
    - inversion Hj; subst. rewrite Hb. pose proof (count_ge1 p l i Hi Ha). cbn. lia.
    - assert (i <> j) by congruence. specialize (IH i j H Hi Hj Ha Hb). lia.
  Qed.

  Lemma count_pos_ex p l : 1 <= count p l -> exists i a, nth_error l i = Some a /\ p a = true.
  Proof.
    induction l as [|b l IH]; cbn; intros H; [lia|].
    destruct (p b) eqn:E.
    - exists 0, b; auto.
    - cbn in H. destruct (IH H) as (i & a & Hi & Ha). exists (Datatypes.S i), a; auto.
  Qed.

  Lemma In_firstn_incl k : forall (l : list A) x, In x (firstn k l) -> In x l.
  Proof.
    induction k as [|k IH]; intros [|a l] x H; cbn in *; try contradiction.
    destruct H as [H|H]; auto.
  Qed.
End ListHelpers.

(* ---------- the model ---------- *)
Section Model.
  Variables S R : Type.

  (* a micro-step of a write critical section: shared state + the call's private accumulator *)
  Definition mstep := S -> R -> S * R.

  Record call := { c_init : R; c_steps : list mstep }.

  Fixpoint run_steps (ms : list mstep) (sr : S * R) : S * R :=
    match ms with [] => sr | m :: r => run_steps r (m (fst sr) (snd sr)) end.

  (* the whole critical section as ONE atomic function  body : S -> S * R *)
  Definition body (c : call) (s : S) : S * R := run_steps (c_steps c) (s, c_init c).

  (* any function S -> S * R is the body of a (one micro-step) call *)
  Definition call_of (r0 : R) (f : S -> S * R) : call :=
    {| c_init := r0; c_steps := [fun s _ => f s] |}.
  Lemma body_call_of r0 f s : body (call_of r0 f) s = f s.
  Proof. reflexivity. Qed.

  Inductive iop :=
  | ILocal                                   (* thread-local step *)
  | IWrite (try : bool) (c : call)           (* Lock / TryLock ; body ; Unlock *)
  | IRead (obs : list (S -> R)).             (* RLock ; observations ; RUnlock *)

  Inductive op :=
  | OIn (i : iop)
  | OOuter (try : bool) (b : list iop).      (* outer.Lock / TryLock ; b ; outer.Unlock *)

  Inductive istatus :=
  | Idle
  | InW (c : call) (rem : list mstep) (r : R)   (* holds the write lock *)
  | InR (rem : list (S -> R)).                  (* holds a read lock *)

  Record thread := { t_prog : list op; t_outer : option (list iop); t_in : istatus }.

  Record state := {
    sh : S;                       (* the shared state *)
    wlk : bool;                   (* inner lock write-held *)
    rdc : nat;                    (* inner lock reader count *)
    olk : bool;                   (* outer token held *)
    thr : list thread;
    g_acq : list (nat * call);    (* ghost: write acquisitions, in order *)
    g_ret : list (nat * R);       (* ghost: results returned, in Unlock order *)
    g_obs : list (nat * S * R)    (* ghost: reader observations (thread, state seen, value) *)
  }.

  Definition set_thr (st : state) (t : nat) (th : thread) : state :=
    {| sh := sh st; wlk := wlk st; rdc := rdc st; olk := olk st;
       thr := upd (thr st) t th;
       g_acq := g_acq st; g_ret := g_ret st; g_obs := g_obs st |}.

  (* execute inner-level op [i] for thread [t]; [th'] is the thread with [i] already consumed *)
  Definition do_iop (st : state) (t : nat) (th' : thread) (i : iop) : option state :=
    match i with
    | ILocal => Some (set_thr st t th')
    | IWrite try c =>
        if wlk st || (0 <? rdc st) then
          (if try then Some (set_thr st t th') else None)
        else Some {| sh := sh st; wlk := true; rdc := rdc st; olk := olk st;
                     thr := upd (thr st) t
                              {| t_prog := t_prog th'; t_outer := t_outer th';
                                 t_in := InW c (c_steps c) (c_init c) |};
                     g_acq := g_acq st ++ [(t, c)]; g_ret := g_ret st; g_obs := g_obs st |}
    | IRead obs =>
        if wlk st then None
        else Some {| sh := sh st; wlk := wlk st; rdc := Datatypes.S (rdc st); olk := olk st;
                     thr := upd (thr st) t
                              {| t_prog := t_prog th'; t_outer := t_outer th'; t_in := InR obs |};
                     g_acq := g_acq st; g_ret := g_ret st; g_obs := g_obs st |}
    end.

  (* one scheduler step of thread [t]; None = finished, blocked, or no such thread *)
  Definition step (st : state) (t : nat) : option state :=
    match nth_error (thr st) t with
    | None => None
    | Some th =>
      match t_in th with
      | InW c (m :: rem) r =>
          let sr := m (sh st) r in
          Some {| sh := fst sr; wlk := wlk st; rdc := rdc st; olk := olk st;
                  thr := upd (thr st) t
                           {| t_prog := t_prog th; t_outer := t_outer th;
                              t_in := InW c rem (snd sr) |};
                  g_acq := g_acq st; g_ret := g_ret st; g_obs := g_obs st |}
      | InW c [] r =>
          Some {| sh := sh st; wlk := false; rdc := rdc st; olk := olk st;
                  thr := upd (thr st) t
                           {| t_prog := t_prog th; t_outer := t_outer th; t_in := Idle |};
                  g_acq := g_acq st; g_ret := g_ret st ++ [(t, r)]; g_obs := g_obs st |}
      | InR (f :: rem) =>
          Some {| sh := sh st; wlk := wlk st; rdc := rdc st; olk := olk st;
                  thr := upd (thr st) t
                           {| t_prog := t_prog th; t_outer := t_outer th; t_in := InR rem |};
                  g_acq := g_acq st; g_ret := g_ret st;
                  g_obs := g_obs st ++ [(t, sh st, f (sh st))] |}
      | InR [] =>
          Some {| sh := sh st; wlk := wlk st; rdc := pred (rdc st); olk := olk st;
                  thr := upd (thr st) t
                           {| t_prog := t_prog th; t_outer := t_outer th; t_in := Idle |};
                  g_acq := g_acq st; g_ret := g_ret st; g_obs := g_obs st |}
      | Idle =>
        match t_outer th with
        | Some [] =>
            Some {| sh := sh st; wlk := wlk st; rdc := rdc st; olk := false;
                    thr := upd (thr st) t
                             {| t_prog := t_prog th; t_outer := None; t_in := Idle |};
                    g_acq := g_acq st; g_ret := g_ret st; g_obs := g_obs st |}
        | Some (i :: rest) =>
            do_iop st t {| t_prog := t_prog th; t_outer := Some rest; t_in := Idle |} i
        | None =>
          match t_prog th with
          | [] => None
          | OIn i :: p =>
              do_iop st t {| t_prog := p; t_outer := None; t_in := Idle |} i
          | OOuter try b :: p =>
              if olk st then
                (if try then Some (set_thr st t {| t_prog := p; t_outer := None; t_in := Idle |})
                 else None)
              else Some {| sh := sh st; wlk := wlk st; rdc := rdc st; olk := true;
                           thr := upd (thr st) t
                                    {| t_prog := p; t_outer := Some b; t_in := Idle |};
                           g_acq := g_acq st; g_ret := g_ret st; g_obs := g_obs st |}
          end
        end
      end
    end.

  Definition init (s0 : S) (scripts : list (list op)) : state :=
    {| sh := s0; wlk := false; rdc := 0; olk := false;
       thr := map (fun p => {| t_prog := p; t_outer := None; t_in := Idle |}) scripts;
       g_acq := []; g_ret := []; g_obs := [] |}.

  Variable s0 : S.
  Variable scripts : list (list op).

  Inductive reachable : state -> Prop :=
  | R_init : reachable (init s0 scripts)
  | R_step st t st' : reachable st -> step st t = Some st' -> reachable st'.

  (* executable scheduler: a schedule is a list of thread ids; blocked picks are no-ops *)
  Fixpoint exec (sched : list nat) (st : state) : state :=
    match sched with
    | [] => st
    | t :: r => exec r (match step st t with Some st' => st' | None => st end)
    end.

  Lemma exec_reachable sched st : reachable st -> reachable (exec sched st).
  Proof.
    revert st; induction sched as [|t r IH]; intros st H; cbn; auto.
    apply IH. destruct (step st t) eqn:E; auto. eapply R_step; eauto.
  Qed.

  (* ---------- observation predicates ---------- *)
  Definition isW (th : thread) : bool := match t_in th with InW _ _ _ => true | _ => false end.
  Definition isR (th : thread) : bool := match t_in th with InR _ => true | _ => false end.
  Definition isO (th : thread) : bool := match t_outer th with Some _ => true | None => false end.

  Definition in_write (st : state) (t : nat) : Prop :=
    exists th, nth_error (thr st) t = Some th /\ isW th = true.
  Definition in_read (st : state) (t : nat) : Prop :=
    exists th, nth_error (thr st) t = Some th /\ isR th = true.
  Definition holds_outer (st : state) (t : nat) : Prop :=
    exists th, nth_error (thr st) t = Some th /\ isO th = true.
  Definition in_w (st : state) (t : nat) (c : call) (rem : list mstep) (r : R) : Prop :=
    exists th, nth_error (thr st) t = Some th /\ t_in th = InW c rem r.

  (* ---------- 1. lock/thread consistency and mutual exclusion ---------- *)
  Definition lock_inv (st : state) : Prop :=
    count isW (thr st) = b2n (wlk st) /\
    count isR (thr st) = rdc st /\
    (wlk st = true -> rdc st = 0) /\
    count isO (thr st) = b2n (olk st).

  Lemma count_init (p : thread -> bool) (l : list (list op)) :
    (forall q, p {| t_prog := q; t_outer := None; t_in := Idle |} = false) ->
    count p (map (fun q => {| t_prog := q; t_outer := None; t_in := Idle |}) l) = 0.
  Proof. intros H; induction l; cbn; auto. rewrite H, IHl. reflexivity. Qed.

  Lemma lock_inv_init : lock_inv (init s0 scripts).
  Proof.
    unfold lock_inv, init; cbn. repeat split; try (apply count_init; reflexivity); auto.
  Qed.

  (* case analysis of one step *)
  Ltac step_cases H :=
    unfold step in H;
    match type of H with
    | match nth_error ?l ?t with _ => _ end = _ =>
        let th := fresh "th" in let Hth := fresh "Hth" in
        destruct (nth_error l t) as [th|] eqn:Hth; [|discriminate];
        let Hin := fresh "Hin" in
        destruct (t_in th) as [|c [|m rem] r|[|f rem]] eqn:Hin;
        [ let Ho := fresh "Ho" in
          destruct (t_outer th) as [[|i rest]|] eqn:Ho;
          [ | destruct i as [|try c|obs]; unfold do_iop in H
            | let Hp := fresh "Hp" in
              destruct (t_prog th) as [|[i|try b] p] eqn:Hp;
              [ discriminate
              | destruct i as [|try c|obs]; unfold do_iop in H
              | ] ]
        | | | | ]
    end.

  Ltac rw_outer th :=
    match goal with
    | Ho : t_outer th = _ |- _ => rewrite Ho
    | _ => idtac
    end.

  Ltac cnt_tac st t th Hth Hin :=
    match goal with
    | |- context [upd _ _ ?x] =>
        let CW := fresh "CW" in let CR := fresh "CR" in let CO := fresh "CO" in
        pose proof (count_upd' isW (thr st) t x Hth
                      ltac:(unfold isW; rewrite Hin; reflexivity)
                      ltac:(unfold isW; cbn [t_in]; reflexivity)) as CW;
        pose proof (count_upd' isR (thr st) t x Hth
                      ltac:(unfold isR; rewrite Hin; reflexivity)
                      ltac:(unfold isR; cbn [t_in]; reflexivity)) as CR;
        pose proof (count_upd' isO (thr st) t x Hth
                      ltac:(unfold isO; rw_outer th; reflexivity)
                      ltac:(unfold isO; cbn [t_outer]; rw_outer th; reflexivity)) as CO
    end.

  Lemma lock_inv_step st t st' : lock_inv st -> step st t = Some st' -> lock_inv st'.
  Proof.
    intros (HW & HR & HX & HO) H.
    step_cases H.
    all: repeat match type of H with
         | (if ?b then _ else _) = _ => let E := fresh "E" in destruct b eqn:E
         end; try discriminate.
    all: inversion H; subst; clear H; unfold lock_inv, set_thr; cbn [sh wlk rdc olk thr].
    all: cnt_tac st t th Hth Hin.
    all: cbn [b2n] in *.
    all: destruct (wlk st); destruct (olk st); cbn [b2n orb] in *;
              try discriminate;
              repeat split; try lia; try (intros; lia); try (intros; discriminate).
  Qed.

  Lemma lock_inv_reachable st : reachable st -> lock_inv st.
  Proof. induction 1; [apply lock_inv_init | eapply lock_inv_step; eauto]. Qed.

  Lemma b2n_le1 b : b2n b <= 1.
  Proof. destruct b; cbn; lia. Qed.

  Lemma in_write_wlk st t : lock_inv st -> in_write st t -> wlk st = true.
  Proof.
    intros (HW & _) (th & Hn & Hw). pose proof (count_ge1 isW _ _ Hn Hw).
    destruct (wlk st); cbn in *; auto; lia.
  Qed.

  Lemma wlk_in_write st : lock_inv st -> wlk st = true -> exists t, in_write st t.
  Proof.
    intros (HW & _) E. rewrite E in HW. cbn in HW.
    destruct (@count_pos_ex _ isW (thr st)) as (i & a & Hi & Ha); [lia|].
    exists i, a; auto.
  Qed.

  Lemma in_read_rdc st t : lock_inv st -> in_read st t -> wlk st = false /\ 1 <= rdc st.
  Proof.
    intros (_ & HR & HX & _) (th & Hn & Hr). pose proof (count_ge1 isR _ _ Hn Hr).
    split; [|lia]. destruct (wlk st); auto. specialize (HX eq_refl). lia.
  Qed.

  Lemma write_unique st t1 t2 : lock_inv st -> in_write st t1 -> in_write st t2 -> t1 = t2.
  Proof.
    intros (HW & _) (a & Ha & Pa) (b & Hb & Pb).
    destruct (Nat.eq_dec t1 t2) as [|Hne]; auto.
    pose proof (count_ge2 isW _ Hne Ha Hb Pa Pb). pose proof (b2n_le1 (wlk st)). lia.
  Qed.

  (* 1. mutual exclusion: at most one writer; no reader while a writer; one outer holder *)
  Theorem mutual_exclusion st : reachable st ->
    (forall t1 t2, in_write st t1 -> in_write st t2 -> t1 = t2) /\
    (forall t1 t2, in_write st t1 -> ~ in_read st t2) /\
    (forall t1 t2, holds_outer st t1 -> holds_outer st t2 -> t1 = t2).
  Proof.
    intros Hr. pose proof (lock_inv_reachable Hr) as LI. repeat split.
    - intros; eapply write_unique; eauto.
    - intros t1 t2 Hw Hrd. apply in_write_wlk in Hw; auto.
      apply in_read_rdc in Hrd; auto. destruct Hrd; congruence.
    - intros t1 t2 (a & Ha & Pa) (b & Hb & Pb).
      destruct (Nat.eq_dec t1 t2) as [|Hne]; auto.
      destruct LI as (_ & _ & _ & HO).
      pose proof (count_ge2 isO _ Hne Ha Hb Pa Pb). pose proof (b2n_le1 (olk st)). lia.
  Qed.

  (* the lock words agree with the thread statuses *)
  Theorem lock_words st : reachable st ->
    (wlk st = true <-> exists t, in_write st t) /\
    (1 <= rdc st <-> exists t, in_read st t) /\
    (olk st = true <-> exists t, holds_outer st t).
  Proof.
    intros Hr. pose proof (lock_inv_reachable Hr) as LI. repeat split.
    - apply wlk_in_write; auto.
    - intros (t & H); eapply in_write_wlk; eauto.
    - intros H. destruct LI as (_ & HR & _). rewrite <- HR in H.
      destruct (count_pos_ex _ _ H) as (i & a & Hi & Ha). exists i, a; auto.
    - intros (t & H). eapply in_read_rdc; eauto.
    - intros H. destruct LI as (_ & _ & _ & HO). rewrite H in HO. cbn in HO.
      destruct (@count_pos_ex _ isO (thr st)) as (i & a & Hi & Ha); [lia|]. exists i, a; auto.
    - intros (t & a & Ha & Pa). destruct LI as (_ & _ & _ & HO).
      pose proof (count_ge1 isO _ _ Ha Pa). destruct (olk st); cbn in *; auto; lia.
  Qed.

  (* ---------- 2. atomicity ---------- *)
  Definition seq_state (s : S) (cs : list call) : S :=
    fold_left (fun s c => fst (body c s)) cs s.

  Fixpoint seq_rets (s : S) (acq : list (nat * call)) : list (nat * R) :=
    match acq with
    | [] => []
    | (t, c) :: r => (t, snd (body c s)) :: seq_rets (fst (body c s)) r
    end.

  Lemma seq_state_snoc s cs c : seq_state s (cs ++ [c]) = fst (body c (seq_state s cs)).
  Proof. unfold seq_state. rewrite fold_left_app. reflexivity. Qed.

  Lemma seq_rets_snoc s acq t c :
    seq_rets s (acq ++ [(t, c)]) =
    seq_rets s acq ++ [(t, snd (body c (seq_state s (map snd acq))))].
  Proof.
    revert s; induction acq as [|[t' c'] acq IH]; intros s; cbn; auto.
    rewrite IH. reflexivity.
  Qed.

  Lemma run_steps_app a b sr : run_steps (a ++ b) sr = run_steps b (run_steps a sr).
  Proof. revert sr; induction a; intros; cbn; auto. Qed.

  Definition atom_inv (st : state) : Prop :=
    (wlk st = false ->
       sh st = seq_state s0 (map snd (g_acq st)) /\ g_ret st = seq_rets s0 (g_acq st)) /\
    (forall t c rem r, in_w st t c rem r ->
       exists acq' done,
         g_acq st = acq' ++ [(t, c)] /\ c_steps c = done ++ rem /\
         run_steps done (seq_state s0 (map snd acq'), c_init c) = (sh st, r) /\
         g_ret st = seq_rets s0 acq').

  Lemma nth_upd_inv (A : Type) (l : list A) t x t' y :
    nth_error (upd l t x) t' = Some y ->
    (t' = t /\ y = x) \/ (t' <> t /\ nth_error l t' = Some y).
  Proof.
    intros H. destruct (Nat.eq_dec t t') as [<-|Hne].
    - left. split; auto.
      destruct (nth_error l t) eqn:E.
      + erewrite nth_upd_eq in H; eauto. congruence.
      + exfalso. revert t H E. induction l as [|b l IH]; intros [|t] H E; cbn in *;
          try discriminate. eauto.
    - right. rewrite nth_upd_ne in H; auto.
  Qed.

  Lemma atom_inv_step st t st' :
    lock_inv st -> atom_inv st -> step st t = Some st' -> atom_inv st'.
  Proof.
    intros LI (A1 & A2) H.
    assert (WL : forall t1 th1, nth_error (thr st) t1 = Some th1 -> isW th1 = true ->
                                wlk st = true).
    { intros; eapply in_write_wlk; eauto. eexists; eauto. }
    assert (ME : forall t1 th1 t2 th2, nth_error (thr st) t1 = Some th1 -> isW th1 = true ->
                   nth_error (thr st) t2 = Some th2 -> isW th2 = true -> t1 = t2).
    { intros; eapply write_unique; eauto; eexists; eauto. }
    step_cases H.
    all: repeat match type of H with
         | (if ?b then _ else _) = _ => let E := fresh "E" in destruct b eqn:E
         end; try discriminate.
    all: inversion H; subst; clear H; unfold atom_inv, set_thr, in_w;
         cbn [sh wlk rdc olk thr g_acq g_ret g_obs].
    all: split.
    all: try exact A1.
    all: try (intros; discriminate).
    all: try (intros _; apply A1; assumption).
    all: try (intros t' c' rem' r' (th' & Hn & Hi);
              apply nth_upd_inv in Hn as [[-> ->]|[Hne Hn]]; cbn [t_in] in Hi;
              [ try discriminate | try (apply A2; exists th'; auto; fail) ]).
    all: try (assert (HW' : isW th' = true) by (unfold isW; rewrite Hi; reflexivity)).
    all: assert (HWt : t_in th = Idle \/ isW th = true)
           by (unfold isW; rewrite Hin; auto).
    (* acquisitions: the acquiring thread starts a fresh section; nobody else is inside *)
    1, 3: inversion Hi; subst; apply Bool.orb_false_iff in E as [E1 E2];
          destruct (A1 E1) as [Hs Hr]; exists (g_acq st), []; cbn; rewrite <- Hs; auto.
    1, 2: exfalso; apply Bool.orb_false_iff in E as [E1 _];
          rewrite (WL t' th' Hn HW') in E1; discriminate.
    - (* Unlock: the finished section is appended to the sequential run *)
      intros _. destruct HWt as [HWt|HWt]; [congruence|].
      destruct (A2 t c [] r) as (acq' & done & Ha & Hc & Hrun & Hret); [exists th; auto|].
      rewrite app_nil_r in Hc.
      rewrite Ha, map_app. cbn [map snd]. rewrite seq_state_snoc, seq_rets_snoc. unfold body.
      rewrite Hc, Hrun, Hret. cbn. auto.
    - exfalso. destruct HWt as [HWt|HWt]; [congruence|].
      assert (t = t') by (eapply ME; eauto). congruence.
    - intros E. destruct HWt as [HWt|HWt]; [congruence|].
      rewrite (WL t th Hth HWt) in E. discriminate.
    - (* micro-step: the in-progress prefix grows by one *)
      inversion Hi; subst.
      destruct (A2 t c' (m :: rem') r) as (acq' & done & Ha & Hc & Hrun & Hret);
        [exists th; auto|].
      exists acq', (done ++ [m]). repeat split; auto.
      + rewrite Hc, <- app_assoc. reflexivity.
      + rewrite run_steps_app, Hrun. cbn. destruct (m (sh st) r); reflexivity.
    - exfalso. destruct HWt as [HWt|HWt]; [congruence|].
      assert (t = t') by (eapply ME; eauto). congruence.
  Qed.

  Lemma atom_inv_reachable st : reachable st -> atom_inv st.
  Proof.
    induction 1.
    - split; cbn; auto. intros t c rem r (th & Hn & Hi). exfalso.
      unfold init in Hn; cbn in Hn. apply nth_error_In in Hn. apply in_map_iff in Hn.
      destruct Hn as (q & <- & _). discriminate.
    - eapply atom_inv_step; eauto. apply lock_inv_reachable; auto.
  Qed.

  (* 2. atomicity.  [g_acq st] is the list of write-lock acquisitions in order.
        - no section in progress: the shared state is the SEQUENTIAL run of the acquired
          bodies, each applied atomically, and the returned results are the sequential ones;
        - thread t in progress on call c with [rem] micro-steps left: c is the LAST
          acquisition, the shared state is the sequential run of all earlier ones followed
          by the executed prefix [done] of c, and all earlier results are the sequential ones. *)
  Theorem atomicity st : reachable st ->
    ((forall t, ~ in_write st t) ->
       sh st = seq_state s0 (map snd (g_acq st)) /\ g_ret st = seq_rets s0 (g_acq st)) /\
    (forall t c rem r, in_w st t c rem r ->
       exists acq' done,
         g_acq st = acq' ++ [(t, c)] /\ c_steps c = done ++ rem /\
         (sh st, r) = run_steps done (seq_state s0 (map snd acq'), c_init c) /\
         g_ret st = seq_rets s0 acq').
  Proof.
    intros Hr. destruct (atom_inv_reachable Hr) as [A1 A2]. split.
    - intros Hn. apply A1. destruct (wlk st) eqn:E; auto.
      destruct (wlk_in_write (lock_inv_reachable Hr) E) as (t & Ht). destruct (Hn t Ht).
    - intros t c rem r Hw. destruct (A2 t c rem r Hw) as (a & d & H1 & H2 & H3 & H4).
      exists a, d; auto.
  Qed.

  (* ---------- 3. invariant transfer ---------- *)
  Definition preserves (Inv : S -> Prop) (c : call) : Prop :=
    forall s, Inv s -> Inv (fst (body c s)).

  Lemma seq_state_inv (Inv : S -> Prop) cs : forall s,
    Inv s -> Forall (preserves Inv) cs -> Inv (seq_state s cs).
  Proof.
    induction cs as [|c cs IH]; intros s Hs Hf; cbn; auto.
    inversion Hf; subst. apply IH; auto.
  Qed.

  (* strongest form: only the bodies that were actually acquired need to preserve Inv *)
  Theorem invariant_transfer_acq (Inv : S -> Prop) st : reachable st ->
    Inv s0 -> Forall (preserves Inv) (map snd (g_acq st)) ->
    wlk st = false -> Inv (sh st).
  Proof.
    intros Hr H0 Hf E. destruct (atom_inv_reachable Hr) as [A1 _].
    destruct (A1 E) as [-> _]. apply seq_state_inv; auto.
  Qed.

  (* every call acquired so far comes from the scripts *)
  Section ScriptCalls.
    Variable P : call -> Prop.
    Definition iop_ok (i : iop) : Prop := match i with IWrite _ c => P c | _ => True end.
    Definition op_ok (o : op) : Prop :=
      match o with OIn i => iop_ok i | OOuter _ b => Forall iop_ok b end.
    Definition thread_ok (th : thread) : Prop :=
      Forall op_ok (t_prog th) /\
      match t_outer th with Some b => Forall iop_ok b | None => True end.
    Definition scripts_ok : Prop := Forall (Forall op_ok) scripts.

    Definition calls_inv (st : state) : Prop :=
      (forall t th, nth_error (thr st) t = Some th -> thread_ok th) /\
      Forall (fun tc => P (snd tc)) (g_acq st).

    Lemma calls_inv_step st t st' : calls_inv st -> step st t = Some st' -> calls_inv st'.
    Proof.
      intros (HT & HA) H.
      step_cases H.
      all: repeat match type of H with
           | (if ?b then _ else _) = _ => let E := fresh "E" in destruct b eqn:E
           end; try discriminate.
      all: inversion H; subst; clear H; unfold calls_inv, set_thr;
           cbn [sh wlk rdc olk thr g_acq g_ret g_obs].
      all: destruct (HT t th Hth) as [Hp1 Ho1].
      all: try rewrite Ho in Ho1; try rewrite Hp in Hp1.
      all: repeat match goal with
           | H : Forall _ (_ :: _) |- _ => inversion H; clear H; subst
           end.
      all: split;
           [ intros t' th' Hn; apply nth_upd_inv in Hn as [[-> ->]|[Hne Hn]];
             [ unfold thread_ok; cbn [t_prog t_outer]; try rewrite Ho; auto
             | eapply HT; eauto ]
           | try assumption; try (apply Forall_app; split; auto) ].
    Qed.

    Lemma calls_inv_reachable st : scripts_ok -> reachable st -> calls_inv st.
    Proof.
      intros Hs. induction 1.
      - split; cbn; auto. intros t th Hn.
        apply nth_error_In in Hn. apply in_map_iff in Hn. destruct Hn as (q & <- & Hq).
        split; cbn; auto. unfold scripts_ok in Hs. rewrite Forall_forall in Hs. auto.
      - eapply calls_inv_step; eauto.
    Qed.
  End ScriptCalls.

  Lemma acq_preserve (Inv : S -> Prop) st : scripts_ok (preserves Inv) -> reachable st ->
    Forall (preserves Inv) (map snd (g_acq st)).
  Proof.
    intros Hs Hr. destruct (calls_inv_reachable Hs Hr) as [_ HA].
    rewrite Forall_map. exact HA.
  Qed.

  (* 3. invariant transfer: Inv holds initially, every WHOLE body in the scripts preserves
        it => Inv holds in every reachable state with no write section in progress
        (lock free or read-held), although it may be broken between micro-steps. *)
  Theorem invariant_transfer (Inv : S -> Prop) st :
    Inv s0 -> scripts_ok (preserves Inv) -> reachable st ->
    (forall t, ~ in_write st t) -> Inv (sh st).
  Proof.
    intros H0 Hs Hr Hn. apply invariant_transfer_acq; auto.
    - apply acq_preserve; auto.
    - destruct (wlk st) eqn:E; auto.
      destruct (wlk_in_write (lock_inv_reachable Hr) E) as (t & Ht). destruct (Hn t Ht).
  Qed.

  Corollary invariant_transfer_lockword (Inv : S -> Prop) st :
    Inv s0 -> scripts_ok (preserves Inv) -> reachable st -> wlk st = false -> Inv (sh st).
  Proof. intros. apply invariant_transfer_acq; auto. apply acq_preserve; auto. Qed.

  (* ---------- 4. readers ---------- *)
  Theorem reader_sees_quiescent_state (Inv : S -> Prop) st t :
    Inv s0 -> scripts_ok (preserves Inv) -> reachable st ->
    in_read st t -> Inv (sh st).
  Proof.
    intros H0 Hs Hr Hrd. apply invariant_transfer_lockword; auto.
    apply (in_read_rdc (lock_inv_reachable Hr) Hrd).
  Qed.

  (* the log of what readers actually observed: each observed state is the sequential
     run of a PREFIX of the acquisition order (readers are linearised between writers) *)
  Definition obs_ok (acq : list (nat * call)) (x : nat * S * R) : Prop :=
    exists k, k <= length acq /\ snd (fst x) = seq_state s0 (map snd (firstn k acq)).

  Lemma obs_ok_snoc acq y x : obs_ok acq x -> obs_ok (acq ++ [y]) x.
  Proof.
    intros (k & Hk & E). exists k. split; [rewrite app_length; lia|].
    rewrite firstn_app. replace (k - length acq) with 0 by lia. cbn. rewrite app_nil_r. auto.
  Qed.

  Lemma obs_inv_step st t st' : lock_inv st -> atom_inv st ->
    Forall (obs_ok (g_acq st)) (g_obs st) -> step st t = Some st' ->
    Forall (obs_ok (g_acq st')) (g_obs st').
  Proof.
    intros LI (A1 & _) HO H.
    step_cases H.
    all: repeat match type of H with
         | (if ?b then _ else _) = _ => let E := fresh "E" in destruct b eqn:E
         end; try discriminate.
    all: inversion H; subst; clear H; unfold set_thr;
         cbn [sh wlk rdc olk thr g_acq g_ret g_obs]; try assumption.
    1, 2: eapply Forall_impl; [|exact HO]; intros; apply obs_ok_snoc; auto.
    apply Forall_app; split; auto. constructor; auto.
    assert (Hrd : in_read st t) by (exists th; split; auto; unfold isR; rewrite Hin; auto).
    destruct (in_read_rdc LI Hrd) as [E _]. destruct (A1 E) as [Hs _].
    exists (length (g_acq st)). split; auto. rewrite firstn_all. exact Hs.
  Qed.

  Lemma obs_inv_reachable st : reachable st -> Forall (obs_ok (g_acq st)) (g_obs st).
  Proof.
    induction 1; [constructor|].
    eapply obs_inv_step; eauto using lock_inv_reachable, atom_inv_reachable.
  Qed.

  Theorem reader_observations (Inv : S -> Prop) st :
    Inv s0 -> scripts_ok (preserves Inv) -> reachable st ->
    Forall (fun x => Inv (snd (fst x)) /\
                     exists k, k <= length (g_acq st) /\
                       snd (fst x) = seq_state s0 (map snd (firstn k (g_acq st))))
           (g_obs st).
  Proof.
    intros H0 Hs Hr. eapply Forall_impl; [|apply obs_inv_reachable; auto].
    intros x (k & Hk & E). split; [|exists k; auto]. rewrite E.
    apply seq_state_inv; auto.
    pose proof (acq_preserve Hs Hr) as HF. rewrite Forall_forall in *.
    intros c Hc. apply HF. rewrite in_map_iff in *. destruct Hc as (tc & <- & Hin).
    exists tc; split; auto. eapply In_firstn_incl; eauto.
  Qed.

  (* ---------- 5. two locks: no deadlock ---------- *)
  Definition holds_lock (st : state) (t : nat) : Prop :=
    in_write st t \/ in_read st t \/ holds_outer st t.

  Theorem lock_order_no_cycle st : reachable st ->
    (wlk st = false /\ rdc st = 0 /\ olk st = false) \/
    (exists t, holds_lock st t /\ step st t <> None).
  Proof.
    intros Hr. pose proof (lock_inv_reachable Hr) as LI.
    destruct (wlk st) eqn:EW.
    { right. destruct (wlk_in_write LI EW) as (t & th & Hn & Hw). exists t. split.
      - left. exists th; auto.
      - unfold step. rewrite Hn. unfold isW in Hw.
        destruct (t_in th) as [|c [|m rem] r|]; discriminate. }
    destruct (rdc st) as [|k] eqn:ER.
    2:{ right. destruct LI as (_ & HR & _).
        destruct (@count_pos_ex _ isR (thr st)) as (t & th & Hn & Hrd); [lia|].
        exists t. split.
        - right; left. exists th; auto.
        - unfold step. rewrite Hn. unfold isR in Hrd.
          destruct (t_in th) as [| |[|f rem]]; discriminate. }
    destruct (olk st) eqn:EO; [|left; auto].
    right. destruct LI as (HW & HR & _ & HO). rewrite EO in HO. cbn in HO.
    destruct (@count_pos_ex _ isO (thr st)) as (t & th & Hn & Ho); [lia|].
    exists t. split.
    - right; right. exists th; auto.
    - assert (Hin : t_in th = Idle).
      { destruct (t_in th) eqn:Hin; auto.
        - assert (isW th = true) by (unfold isW; rewrite Hin; auto).
          pose proof (count_ge1 isW _ _ Hn H). rewrite EW in HW. cbn in HW. lia.
        - assert (isR th = true) by (unfold isR; rewrite Hin; auto).
          pose proof (count_ge1 isR _ _ Hn H). lia. }
      unfold step. rewrite Hn, Hin. unfold isO in Ho.
      destruct (t_outer th) as [[|i rest]|]; try discriminate.
      destruct i as [|try c|obs]; unfold do_iop; rewrite ?EW, ?ER; cbn; discriminate.
  Qed.

  (* global progress: unless every thread has finished its script, some thread can step *)
  Definition finished (th : thread) : Prop :=
    t_prog th = [] /\ t_outer th = None /\ t_in th = Idle.

  Definition unfin (th : thread) : bool :=
    match t_prog th, t_outer th, t_in th with
    | [], None, Idle => false
    | _, _, _ => true
    end.

  Lemma count_zero_all (A : Type) (p : A -> bool) l :
    count p l = 0 -> forall i a, nth_error l i = Some a -> p a = false.
  Proof.
    intros H i a Hn. destruct (p a) eqn:E; auto.
    pose proof (count_ge1 p _ _ Hn E). lia.
  Qed.

  Theorem deadlock_free st : reachable st ->
    (forall t th, nth_error (thr st) t = Some th -> finished th) \/
    (exists t, step st t <> None).
  Proof.
    intros Hr. destruct (lock_order_no_cycle Hr) as [(EW & ER & EO)|(t & _ & Ht)];
      [|right; eauto].
    pose proof (lock_inv_reachable Hr) as (HW & HR & _ & HO).
    rewrite EW in HW; rewrite EO in HO; rewrite ER in HR; cbn in HW, HO.
    destruct (count unfin (thr st)) as [|k] eqn:EC.
    - left. intros t th Hn. pose proof (count_zero_all _ _ EC _ Hn) as Hu.
      unfold unfin in Hu. unfold finished.
      destruct (t_prog th); [|discriminate]. destruct (t_outer th); [discriminate|].
      destruct (t_in th); try discriminate. auto.
    - right. destruct (@count_pos_ex _ unfin (thr st)) as (t & th & Hn & Hu); [lia|].
      exists t.
      pose proof (count_zero_all _ _ HW _ Hn) as H1.
      pose proof (count_zero_all _ _ HR _ Hn) as H2.
      pose proof (count_zero_all _ _ HO _ Hn) as H3.
      unfold isW, isR, isO, unfin in *. unfold step. rewrite Hn.
      destruct (t_in th); try discriminate.
      destruct (t_outer th); try discriminate.
      destruct (t_prog th) as [|[i|try b] p]; try discriminate.
      + destruct i as [|try c|obs]; unfold do_iop; rewrite ?EW, ?ER; cbn; discriminate.
      + rewrite EO. discriminate.
  Qed.
End Model.

(* ---------- 6. a concrete run: 3 threads, interleaved micro-steps ---------- *)
Module Example3.
  Definition St := (nat * nat)%type.       (* two counters; invariant: they are equal *)
  (* add k to both counters in TWO micro-steps (invariant broken in between); return new value *)
  Definition inc (k : nat) : call St nat :=
    {| c_init := 0;
       c_steps := [ (fun s r => ((fst s + k, snd s), r));
                    (fun s r => ((fst s, snd s + k), fst s)) ] |}.
  Definition diff : St -> nat := fun s => fst s - snd s + (snd s - fst s).

  Definition scripts : list (list (op St nat)) :=
    [ (* T0 *) [ OIn (ILocal _ _); OIn (IWrite false (inc 1)); OIn (IRead [diff]) ];
      (* T1 *) [ OOuter false [IWrite false (inc 10); ILocal _ _]; OOuter true [ILocal _ _] ];
      (* T2 *) [ OIn (IRead [fst; diff]); OIn (IWrite true (inc 100));
                 OOuter true [IWrite true (inc 1000)] ] ].

  Definition sched : list nat :=
    [ 0;          (* T0 local *)
      2;          (* T2 RLock *)
      0;          (* T0 Lock: blocked by the reader *)
      1;          (* T1 takes the outer token *)
      2; 1;       (* T2 observes fst; T1 Lock: blocked by the reader *)
      2; 2;       (* T2 observes diff; RUnlock *)
      0;          (* T0 Lock *)
      0;          (* T0 micro-step 1: invariant broken *)
      1; 2;       (* T1 Lock blocked; T2 TryLock fails -> skips inc 100 *)
      2;          (* T2 outer TryLock fails (T1 holds it) -> skips *)
      0; 1; 0;    (* T0 micro-step 2; T1 still blocked; T0 Unlock *)
      0; 1;       (* T0 RLock; T1 Lock blocked by reader *)
      0; 0;       (* T0 observes diff; RUnlock *)
      1; 1; 1; 1; (* T1 Lock; two micro-steps; Unlock *)
      1; 1;       (* T1 local under outer; outer Unlock *)
      1; 1; 1 ].  (* T1 outer TryLock ok; local; outer Unlock *)

  Definition final := exec sched (init (0, 0) scripts).
  Definition view (st : state St nat) :=
    (sh st, (wlk st, rdc st, olk st), map fst (g_acq st), g_ret st, g_obs st,
     map (fun th => (length (t_prog th))) (thr st)).

  Example run_final :
    view final =
    ((11, 11), (false, 0, false), [0; 1], [(0, 1); (1, 11)],
     [(2, (0, 0), 0); (2, (0, 0), 0); (0, (1, 1), 0)], [0; 0; 0]).
  Proof. vm_compute. reflexivity. Qed.

  (* after the first 10 scheduler steps T0 is in the middle of its section: the
     invariant fst = snd is broken, the write lock is held, T1 holds the outer token *)
  Example run_mid :
    let st := exec (firstn 10 sched) (init (0, 0) scripts) in
    (sh st, (wlk st, rdc st, olk st), map fst (g_acq st), g_ret st) =
    ((1, 0), (true, 0, true), [0], []).
  Proof. vm_compute. reflexivity. Qed.

  (* the concurrent run agrees with the sequential run of the acquired bodies *)
  Example run_sequential :
    sh final = seq_state (0, 0) [inc 1; inc 10] /\
    g_ret final = seq_rets (0, 0) [(0, inc 1); (1, inc 10)].
  Proof. vm_compute. split; reflexivity. Qed.

  Example run_reachable : reachable (0, 0) scripts final.
  Proof. apply exec_reachable. constructor. Qed.

  (* the general theorems instantiated: Inv := (fst s = snd s) *)
  Definition Inv (s : St) : Prop := fst s = snd s.
  Lemma inc_preserves k : preserves Inv (inc k).
  Proof. intros [a b] H. unfold Inv in *. cbn in *. lia. Qed.
  Lemma scripts_preserve : scripts_ok scripts (preserves Inv).
  Proof.
    unfold scripts_ok, scripts.
    repeat (constructor; cbn; auto using inc_preserves).
  Qed.
  Example every_quiescent_state_balanced st :
    reachable (0, 0) scripts st -> wlk st = false -> fst (sh st) = snd (sh st).
  Proof.
    intros Hr E.
    assert (H0 : Inv (0, 0)) by reflexivity.
    exact (invariant_transfer_lockword H0 scripts_preserve Hr E).
  Qed.
End Example3.
