(* C16 — every valid configuration yields a well-formed cache; invalid ones are refused.
   This file contains only statements closed by `exact` plus Print Assumptions. *)
Require Import KV.Base KV.Gen.Consts KV.ConfigModel KV.ConfigProofs.

(* Validate accepts exactly the documented ranges. *)
Theorem c16_validate_exact : forall c, validate c = None <-> ranges_ok c.
Proof. exact validate_exact. Qed.

(* Shard count is a power of two, for every accepted config, every CPU count. *)
Theorem c16_pow2 : forall c ncpu, validate c = None -> 1 <= ncpu -> ShardCount c <= 2 ^ 62 ->
  is_pow2 (shard_count c ncpu) /\ 1 <= shard_count c ncpu.
Proof. exact shard_count_pow2. Qed.

(* At most maxShardCount when chosen automatically or bounded; never above a set budget. *)
Theorem c16_le_max_auto : forall c ncpu, validate c = None -> 1 <= ncpu -> ShardCount c <= 2 ^ 62 ->
  ShardCount c = 0 -> shard_count c ncpu <= maxShardCount.
Proof. exact shard_count_auto_le_max. Qed.

Theorem c16_le_maxsize : forall c ncpu, validate c = None -> 1 <= ncpu -> ShardCount c <= 2 ^ 62 ->
  0 < MaxSize c -> shard_count c ncpu <= MaxSize c /\ shard_count c ncpu <= maxShardCount.
Proof. exact shard_count_le_maxsize. Qed.

Theorem c16_le_maxcost : forall c ncpu, validate c = None -> 1 <= ncpu -> ShardCount c <= 2 ^ 62 ->
  0 < MaxCost c -> shard_count c ncpu <= MaxCost c /\ shard_count c ncpu <= maxShardCount.
Proof. exact shard_count_le_maxcost. Qed.

(* the documented ceiling is 256 *)
Theorem c16_max_is_256 : maxShardCount = 256.
Proof. reflexivity. Qed.

(* Per-shard budgets: at least one each and they sum exactly to the configured budget. *)
Theorem c16_caps_sum : forall budget n, 0 < budget -> 1 <= n ->
  sumZ (map (share budget n) (zseq 0 (Z.to_nat n))) = budget.
Proof. exact share_sum. Qed.

Theorem c16_caps_positive : forall budget n i, 1 <= n <= budget -> 1 <= share budget n i.
Proof. exact share_ge_1. Qed.

(* SieveTinyLFU segments of a shard of capacity cap >= 1. *)
Theorem c16_sieve_segments : forall cap pr gr, 1 <= cap -> 0 <= pr <= 100 -> 0 <= gr <= 100 ->
  let s := sieve_segs cap pr gr in
  1 <= lo s <= pc s /\ pc s <= hi s /\ hi s <= cap /\ mc s = cap - pc s /\
  (2 <= cap -> 1 <= mc s) /\ (0 < mc s -> 1 <= gc s) /\ 0 <= gc s /\ 1 <= astep s.
Proof. exact sieve_segs_wf. Qed.

(* Zero-valued optional fields behave as their documented defaults. *)
Theorem c16_defaults : forall c ncpu, validate c = None ->
  new_obs (with_defaults c) ncpu = new_obs c ncpu.
Proof. exact defaults_equivalent. Qed.

(* The full statement "New succeeds for every accepted config" is refuted by the
   64-bit wrap of the rounding for ShardCount in (2^62, 2^63): finding F9. *)
Theorem c16_new_total_refuted : exists c, validate c = None /\ shard_count c 1 < 0.
Proof. exists f9_config. exact shard_count_wrap_witness. Qed.

Print Assumptions c16_validate_exact.
Print Assumptions c16_pow2.
Print Assumptions c16_le_max_auto.
Print Assumptions c16_le_maxsize.
Print Assumptions c16_le_maxcost.
Print Assumptions c16_max_is_256.
Print Assumptions c16_caps_sum.
Print Assumptions c16_caps_positive.
Print Assumptions c16_sieve_segments.
Print Assumptions c16_defaults.
Print Assumptions c16_new_total_refuted.
