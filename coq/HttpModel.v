(* HttpModel.v — httpcache/middleware.go: Cache-Control parsing (hasCacheControlDirective,
   extractMaxAge with strconv.Atoi and the int64 clamp, headerFieldValues), the default cache
   policy, the capturing response writer as a state machine over handler actions composed with
   a reference model of net/http's server-side ResponseWriter, Wrap's decision, and replay.
   Strings are lists of byte values (Z in 0..255); theorems are about ASCII (< 128) input. *)
Require Import KV.Base.
Open Scope Z_scope.

Definition str := list Z.

(* ------------------------------------------------------------------ ASCII helpers *)
Definition is_space (c : Z) : bool := ((9 <=? c) && (c <=? 13)) || (c =? 32).
Definition lower (c : Z) : Z := if (65 <=? c) && (c <=? 90) then c + 32 else c.
Fixpoint str_eqb (a b : str) : bool :=
  match a, b with
  | [], [] => true
  | x :: a', y :: b' => (x =? y) && str_eqb a' b'
  | _, _ => false
  end.
Definition equal_fold (a b : str) : bool := str_eqb (map lower a) (map lower b).

Fixpoint drop_space (s : str) : str :=
  match s with c :: r => if is_space c then drop_space r else s | [] => [] end.
Definition trim_space (s : str) : str := rev (drop_space (rev (drop_space s))).

(* strings.Split(s, ",") *)
Fixpoint split_on (sep : Z) (s : str) (cur : str) : list str :=
  match s with
  | [] => [rev cur]
  | c :: r => if c =? sep then rev cur :: split_on sep r [] else split_on sep r (c :: cur)
  end.
Definition split_comma (s : str) : list str := split_on 44 s [].

(* strings.Cut(s, "=") : (before, after, found) *)
Fixpoint cut_on (sep : Z) (s : str) (acc : str) : str * str * bool :=
  match s with
  | [] => (rev acc, [], false)
  | c :: r => if c =? sep then (rev acc, r, true) else cut_on sep r (c :: acc)
  end.
Definition cut_eq (s : str) : str * str * bool := cut_on 61 s [].

(* ------------------------------------------------------------------ hasCacheControlDirective *)
Definition directive_name (part : str) : str :=
  let '(name, _, _) := cut_eq (trim_space part) in trim_space name.

Definition has_directive (cc : str) (ds : list str) : bool :=
  match cc with
  | [] => false
  | _ => existsb (fun part => existsb (fun d => equal_fold (directive_name part) d) ds) (split_comma cc)
  end.

(* ------------------------------------------------------------------ strconv.Atoi (base 10, 64-bit) *)
Definition is_digit (c : Z) : bool := (48 <=? c) && (c <=? 57).
Fixpoint digits_val (s : str) (acc : Z) : option Z :=
  match s with
  | [] => Some acc
  | c :: r => if is_digit c then digits_val r (acc * 10 + (c - 48)) else None
  end.
Definition atoi (s : str) : option Z :=
  let '(neg, ds) := match s with
                    | 43 :: r => (false, r)       (* '+' *)
                    | 45 :: r => (true, r)        (* '-' *)
                    | _ => (false, s)
                    end in
  match ds with
  | [] => None
  | _ => match digits_val ds 0 with
         | Some v => let x := if neg then - v else v in
                     if (- two63 <=? x) && (x <? two63) then Some x else None
         | None => None
         end
  end.

Definition second_ns : Z := 1000000000.

(* extractMaxAge: first max-age with a positive integer value; clamped instead of wrapping *)
Fixpoint max_age_parts (parts : list str) : Z :=
  match parts with
  | [] => 0
  | p :: r =>
    let '(name, value, ok) := cut_eq (trim_space p) in
    if ok && equal_fold (trim_space name) [109; 97; 120; 45; 97; 103; 101] then
      match atoi (trim_space value) with
      | Some secs => if 0 <? secs
                     then (if max_int64 / second_ns <? secs then max_int64 else secs * second_ns)
                     else max_age_parts r
      | None => max_age_parts r
      end
    else max_age_parts r
  end.
Definition extract_max_age (cc : str) : Z :=
  match cc with [] => 0 | _ => max_age_parts (split_comma cc) end.

(* ------------------------------------------------------------------ headers *)
Definition header := list (str * list str).   (* map key -> values; keys distinct *)

Fixpoint str_leb (a b : str) : bool :=
  match a, b with
  | [], _ => true
  | _ :: _, [] => false
  | x :: a', y :: b' => if x <? y then true else if y <? x then false else str_leb a' b'
  end.
Fixpoint insert_key (k : str * list str) (l : header) : header :=
  match l with
  | [] => [k]
  | h :: r => if str_leb (fst k) (fst h) then k :: l else h :: insert_key k r
  end.
Definition sort_header (h : header) : header := fold_right insert_key [] h.

Fixpoint join_comma (vs : list str) : str :=
  match vs with [] => [] | [v] => v | v :: r => v ++ [44] ++ join_comma r end.

(* headerFieldValues: every value of every spelling of name, keys in sorted order, joined by "," *)
Definition header_field_values (h : header) (name : str) : str :=
  join_comma (flat_map snd (filter (fun kv => equal_fold (fst kv) name) (sort_header h))).

Definition s_no_cache : str := [110; 111; 45; 99; 97; 99; 104; 101].
Definition s_no_store : str := [110; 111; 45; 115; 116; 111; 114; 101].
Definition s_private : str := [112; 114; 105; 118; 97; 116; 101].
Definition s_cache_control : str := [67; 97; 99; 104; 101; 45; 67; 111; 110; 116; 114; 111; 108].

(* ------------------------------------------------------------------ default policy *)
Record pconf := {
  p_methods : list Z;      (* cacheable method ids *)
  p_status : list Z;       (* cacheable status codes *)
  p_limit : bool; p_maxbody : Z;
  p_defttl : Z
}.
Fixpoint memZ (l : list Z) (x : Z) : bool := match l with [] => false | y :: r => (y =? x) || memZ r x end.

(* expires: oracle = result of parsing the Expires header relative to now: Some ttl when it parses *)
(* result: (store?, kind, ttl) with kind 1 = max-age, 2 = Expires, 3 = default TTL, 0 = not stored *)
Definition default_policy (p : pconf) (method status bodylen : Z) (h : header) (expires : option Z) : bool * Z * Z :=
  if negb (memZ (p_methods p) method) then (false, 0, 0)
  else if negb (memZ (p_status p) status) then (false, 0, 0)
  else if p_limit p && (p_maxbody p <? bodylen) then (false, 0, 0)
  else
    let cc := header_field_values h s_cache_control in
    if has_directive cc [s_no_cache; s_no_store; s_private] then (false, 0, 0)
    else
      let ma := extract_max_age cc in
      if 0 <? ma then (true, 1, ma)
      else match expires with
           | Some ttl => if 0 <? ttl then (true, 2, ttl) else (true, 3, p_defttl p)
           | None => (true, 3, p_defttl p)
           end.

(* ------------------------------------------------------------------ handler actions and the two writers *)
Inductive action :=
| HSet (k : str) (v : str)        (* w.Header()[k] = [v]  (raw map write, key as spelled) *)
| HAdd (k : str) (v : str)        (* append to w.Header()[k] *)
| HDel (k : str)
| AWriteHeader (code : Z)
| AWrite (n : Z) (tag : Z)        (* n bytes, contents identified by tag *)
| AFlush
| AHijack.

Definition hget (h : header) (k : str) : list str :=
  match find (fun kv => str_eqb (fst kv) k) h with Some kv => snd kv | None => [] end.
Definition hdel (h : header) (k : str) : header := filter (fun kv => negb (str_eqb (fst kv) k)) h.
Definition hset (h : header) (k : str) (vs : list str) : header := hdel h k ++ [(k, vs)].

(* reference model of the server-side writer: the first non-1xx status commits a header snapshot *)
Record under := {
  u_hdr : header;                  (* the live map handed to the handler *)
  u_committed : bool; u_status : Z; u_sent_hdr : header;
  u_body : list (Z * Z);           (* chunks (n, tag) *)
  u_info : list (Z * header);      (* informational responses sent *)
  u_hijacked : bool
}.
Definition is_info (code : Z) : bool := (100 <=? code) && (code <=? 199) && negb (code =? 101).

Definition u_write_header (u : under) (code : Z) : under :=
  if u_hijacked u then u
  else if is_info code then
    {| u_hdr := u_hdr u; u_committed := u_committed u; u_status := u_status u; u_sent_hdr := u_sent_hdr u;
       u_body := u_body u; u_info := if u_committed u then u_info u else u_info u ++ [(code, u_hdr u)];
       u_hijacked := false |}
  else if u_committed u then u
  else {| u_hdr := u_hdr u; u_committed := true; u_status := code; u_sent_hdr := u_hdr u;
          u_body := u_body u; u_info := u_info u; u_hijacked := false |}.
(* bodyAllowedForStatus *)
Definition body_allowed (status : Z) : bool :=
  negb (((100 <=? status) && (status <=? 199)) || (status =? 204) || (status =? 304)).
Definition u_write (u : under) (n tag : Z) : under :=
  if u_hijacked u then u else
  let u1 := if u_committed u then u else u_write_header u 200 in
  {| u_hdr := u_hdr u1; u_committed := u_committed u1; u_status := u_status u1; u_sent_hdr := u_sent_hdr u1;
     u_body := if (n =? 0) || negb (body_allowed (u_status u1)) then u_body u1 else u_body u1 ++ [(n, tag)];
     u_info := u_info u1; u_hijacked := false |}.
Definition u_set_hdr (u : under) (h : header) : under :=
  {| u_hdr := h; u_committed := u_committed u; u_status := u_status u; u_sent_hdr := u_sent_hdr u;
     u_body := u_body u; u_info := u_info u; u_hijacked := u_hijacked u |}.
Definition u_hijack (u : under) : under :=
  {| u_hdr := u_hdr u; u_committed := u_committed u; u_status := u_status u; u_sent_hdr := u_sent_hdr u;
     u_body := u_body u; u_info := u_info u; u_hijacked := true |}.

(* the capturing writer of the middleware *)
Record capw := {
  c_status : Z; c_buf : list (Z * Z); c_buflen : Z; c_headers : header;
  c_wrote : bool; c_toolarge : bool; c_streamed : bool;
  c_miss : str;            (* miss marker header name, [] = none *)
  c_maxbody : Z; c_limit : bool
}.
Definition cw_set (c : capw) st buf bl hd wr tl sm : capw :=
  {| c_status := st; c_buf := buf; c_buflen := bl; c_headers := hd; c_wrote := wr; c_toolarge := tl; c_streamed := sm;
     c_miss := c_miss c; c_maxbody := c_maxbody c; c_limit := c_limit c |}.

Definition s_MISS : str := [77; 73; 83; 83].
Definition s_HIT : str := [72; 73; 84].

(* http.Header.Set canonicalises the key; the harness only uses canonical marker names *)
Definition cap_write_header (c : capw) (u : under) (code : Z) : capw * under :=
  if is_info code then (c, u_write_header u code)
  else if c_wrote c then (c, u)
  else
    let hd := u_hdr u in
    let u1 := match c_miss c with [] => u | mk => u_set_hdr u (hset (u_hdr u) mk [s_MISS]) end in
    (cw_set c code (c_buf c) (c_buflen c) hd true (c_toolarge c) (c_streamed c || (code =? 101)),
     u_write_header u1 code).

Definition cap_capture (c : capw) (n tag : Z) : capw :=
  if c_streamed c || c_toolarge c || (n =? 0) then c
  else if negb (c_limit c) then cw_set c (c_status c) (c_buf c ++ [(n, tag)]) (c_buflen c + n) (c_headers c) (c_wrote c) false (c_streamed c)
  else
    let remaining := c_maxbody c - c_buflen c in
    if remaining <=? 0 then cw_set c (c_status c) (c_buf c) (c_buflen c) (c_headers c) (c_wrote c) true (c_streamed c)
    else if remaining <? n
    then cw_set c (c_status c) (c_buf c ++ [(remaining, tag)]) (c_buflen c + remaining) (c_headers c) (c_wrote c) true (c_streamed c)
    else cw_set c (c_status c) (c_buf c ++ [(n, tag)]) (c_buflen c + n) (c_headers c) (c_wrote c) false (c_streamed c).

Definition cap_write (c : capw) (u : under) (n tag : Z) : capw * under :=
  let '(c1, u1) := if c_wrote c then (c, u) else cap_write_header c u 200 in
  (cap_capture c1 n tag, u_write u1 n tag).

Definition cap_flush (c : capw) (u : under) : capw * under :=
  let c0 := cw_set c (c_status c) (c_buf c) (c_buflen c) (c_headers c) (c_wrote c) (c_toolarge c) true in
  if c_wrote c0 then (c0, if u_committed u then u else u_write_header u 200)
  else let '(c1, u1) := cap_write_header c0 u 200 in (c1, u1).

Definition cap_hijack (c : capw) (u : under) : capw * under :=
  (cw_set c (c_status c) (c_buf c) (c_buflen c) (c_headers c) true (c_toolarge c) true, u_hijack u).

Definition act (cu : capw * under) (a : action) : capw * under :=
  let '(c, u) := cu in
  match a with
  | HSet k v => (c, u_set_hdr u (hset (u_hdr u) k [v]))
  | HAdd k v => (c, u_set_hdr u (hset (u_hdr u) k (hget (u_hdr u) k ++ [v])))
  | HDel k => (c, u_set_hdr u (hdel (u_hdr u) k))
  | AWriteHeader code => cap_write_header c u code
  | AWrite n tag => cap_write c u n tag
  | AFlush => cap_flush c u
  | AHijack => cap_hijack c u
  end.

Definition cap_finish (cu : capw * under) : capw * under :=
  let '(c, u) := cu in if c_wrote c then cu else cap_write_header c u 200.

Definition new_capw (miss : str) (maxbody : Z) (limit : bool) : capw :=
  {| c_status := 200; c_buf := []; c_buflen := 0; c_headers := []; c_wrote := false; c_toolarge := false;
     c_streamed := false; c_miss := miss; c_maxbody := maxbody; c_limit := limit |}.
Definition new_under : under :=
  {| u_hdr := []; u_committed := false; u_status := 0; u_sent_hdr := []; u_body := []; u_info := []; u_hijacked := false |}.

Definition run_handler (miss : str) (maxbody : Z) (limit : bool) (acts : list action) : capw * under :=
  cap_finish (fold_left act acts (new_capw miss maxbody limit, new_under)).

Definition cacheable (c : capw) : bool := negb (c_streamed c) && negb (c_toolarge c).

(* cachedHeaders: drop ignored names (compared after canonicalisation = case-insensitively for ASCII) *)
Definition cached_headers (ignore : list str) (h : header) : header :=
  filter (fun kv => negb (existsb (fun ig => equal_fold (fst kv) ig) ignore)) h.

(* what Wrap stores for a cacheable method: None = nothing stored *)
Record stored := { st_status : Z; st_hdr : header; st_body : list (Z * Z); st_kind : Z; st_ttl : Z }.

(* a request whose method is not cacheable goes straight to the handler: no capture, no marker *)
Definition act_raw (u : under) (a : action) : under :=
  match a with
  | HSet k v => u_set_hdr u (hset (u_hdr u) k [v])
  | HAdd k v => u_set_hdr u (hset (u_hdr u) k (hget (u_hdr u) k ++ [v]))
  | HDel k => u_set_hdr u (hdel (u_hdr u) k)
  | AWriteHeader code => u_write_header u code
  | AWrite n tag => u_write u n tag
  | AFlush => if u_committed u then u else u_write_header u 200
  | AHijack => u_hijack u
  end.
Definition run_raw (acts : list action) : under :=
  let u := fold_left act_raw acts new_under in
  if u_committed u || u_hijacked u then u else u_write_header u 200.

Definition wrap_miss (p : pconf) (ignore : list str) (miss : str) (method : Z) (acts : list action) (expires : option Z)
  : option stored * under :=
  if negb (memZ (p_methods p) method) then (None, run_raw acts) else
  let '(c, u) := run_handler miss (p_maxbody p) (p_limit p) acts in
  if negb (cacheable c) then (None, u)
  else
    let '(ok, kind, ttl) := default_policy p method (c_status c) (c_buflen c) (c_headers c) expires in
    if ok then (Some {| st_status := c_status c; st_hdr := cached_headers ignore (c_headers c);
                        st_body := c_buf c; st_kind := kind; st_ttl := ttl |}, u)
    else (None, u).

(* serveCached: stored headers overwrite the response map, then the hit markers *)
Definition replay (s : stored) (hit : str) : Z * header * list (Z * Z) :=
  (st_status s, st_hdr s ++ [(hit, [s_HIT])], st_body s).

(* what an HTTP client reads: keys canonicalised (textproto.CanonicalMIMEHeaderKey for token bytes),
   spellings merged in the order the server writes them (keys sorted bytewise) *)
Definition is_upper (c : Z) : bool := (65 <=? c) && (c <=? 90).
Definition is_lower (c : Z) : bool := (97 <=? c) && (c <=? 122).
Fixpoint canon_from (s : str) (up : bool) : str :=
  match s with
  | [] => []
  | c :: r =>
    let c' := if up then (if is_lower c then c - 32 else c) else (if is_upper c then c + 32 else c) in
    c' :: canon_from r (c =? 45)
  end.
Definition canon (s : str) : str := canon_from s true.
(* a field value on the wire: CR/LF become spaces, surrounding blanks are trimmed *)
Definition is_blank (c : Z) : bool := (c =? 32) || (c =? 9) || (c =? 10) || (c =? 13).
Fixpoint drop_blank (s : str) : str :=
  match s with c :: r => if is_blank c then drop_blank r else s | [] => [] end.
Definition wire_value (v : str) : str :=
  let v1 := map (fun c => if (c =? 10) || (c =? 13) then 32 else c) v in
  rev (drop_blank (rev (drop_blank v1))).
Fixpoint merge_canon (h : header) (acc : header) : header :=
  match h with
  | [] => acc
  | (k, vs) :: r => let ck := canon k in merge_canon r (hset acc ck (hget acc ck ++ map wire_value vs))
  end.
Definition client_header (h : header) : header := merge_canon (sort_header h) [].

(* ------------------------------------------------------------------ stream "http" *)
(* strings are encoded as length-prefixed byte lists *)
Fixpoint take_str (n : nat) (l : list Z) : str * list Z :=
  match n, l with
  | O, _ => ([], l)
  | S n', c :: r => let '(s, rest) := take_str n' r in (c :: s, rest)
  | S _, [] => ([], [])
  end.
Definition read_str (l : list Z) : str * list Z :=
  match l with n :: r => take_str (Z.to_nat n) r | [] => ([], []) end.
Definition write_str (s : str) : list Z := Z.of_nat (length s) :: s.

Fixpoint read_actions (fuel : nat) (l : list Z) : list action :=
  match fuel with
  | O => []
  | S f =>
    match l with
    | 1 :: r => let '(k, r1) := read_str r in let '(v, r2) := read_str r1 in HSet k v :: read_actions f r2
    | 2 :: r => let '(k, r1) := read_str r in let '(v, r2) := read_str r1 in HAdd k v :: read_actions f r2
    | 3 :: r => let '(k, r1) := read_str r in HDel k :: read_actions f r1
    | 4 :: code :: r => AWriteHeader code :: read_actions f r
    | 5 :: n :: tag :: r => AWrite n tag :: read_actions f r
    | 6 :: r => AFlush :: read_actions f r
    | 7 :: r => AHijack :: read_actions f r
    | _ => []
    end
  end.

Definition enc_header (h : header) : list Z :=
  let sh := sort_header h in
  Z.of_nat (length sh) :: flat_map (fun kv => write_str (fst kv) ++ Z.of_nat (length (snd kv)) :: flat_map write_str (snd kv)) sh.
Definition enc_body (b : list (Z * Z)) : list Z := Z.of_nat (length b) :: flat_map (fun nt => [fst nt; snd nt]) b.

Fixpoint read_strs (n : nat) (l : list Z) : list str * list Z :=
  match n with
  | O => ([], l)
  | S n' => let '(s, r) := read_str l in let '(ss, r') := read_strs n' r in (s :: ss, r')
  end.
Fixpoint read_zs (n : nat) (l : list Z) : list Z * list Z :=
  match n, l with
  | O, _ => ([], l)
  | S n', x :: r => let '(xs, r') := read_zs n' r in (x :: xs, r')
  | S _, [] => ([], [])
  end.

Record hcfg := { h_p : pconf; h_ignore : list str; h_miss : str; h_hit : str }.

(* cfg: nmethods, methods..., nstatus, status..., limit, maxbody, defttl, nignore, ignore strs..., miss, hit *)
Definition http_init (l : list Z) : hcfg :=
  match l with
  | nm :: r0 =>
    let '(ms, r1) := read_zs (Z.to_nat nm) r0 in
    match r1 with
    | ns :: r2 =>
      let '(sts, r3) := read_zs (Z.to_nat ns) r2 in
      match r3 with
      | lim :: mb :: dt :: ni :: r4 =>
        let '(igs, r5) := read_strs (Z.to_nat ni) r4 in
        let '(miss, r6) := read_str r5 in
        let '(hit, _) := read_str r6 in
        {| h_p := {| p_methods := ms; p_status := sts; p_limit := z2b lim; p_maxbody := mb; p_defttl := dt |};
           h_ignore := igs; h_miss := miss; h_hit := hit |}
      | _ => {| h_p := {| p_methods := []; p_status := []; p_limit := false; p_maxbody := 0; p_defttl := 0 |}; h_ignore := []; h_miss := []; h_hit := [] |}
      end
    | _ => {| h_p := {| p_methods := []; p_status := []; p_limit := false; p_maxbody := 0; p_defttl := 0 |}; h_ignore := []; h_miss := []; h_hit := [] |}
    end
  | _ => {| h_p := {| p_methods := []; p_status := []; p_limit := false; p_maxbody := 0; p_defttl := 0 |}; h_ignore := []; h_miss := []; h_hit := [] |}
  end.

(* ops:
   1 method expkind expttl acts...  : one miss through Wrap; output: stored?(kind,ttl*,status,hdr,body) ++ client view
   2 cc-bytes...                    : has_directive / extract_max_age on a raw Cache-Control value *)
Definition http_step (c : hcfg) (op : list Z) : hcfg * list Z :=
  match op with
  | 1 :: method :: ek :: et :: rest =>
    let acts := read_actions (length rest) rest in
    let expires := if ek =? 0 then None else Some et in
    let '(st, u) := wrap_miss (h_p c) (h_ignore c) (h_miss c) method acts expires in
    let client := if u_hijacked u then [1]
                  else [0; u_status u] ++ enc_header (client_header (u_sent_hdr u)) ++ enc_body (u_body u)
                       ++ [Z.of_nat (length (u_info u))] in
    (c, match st with
        | None => [0] ++ client
        | Some s => let '(hs, hh, hb) := replay s (h_hit c) in
                    [1; st_kind s; if st_kind s =? 2 then 0 else st_ttl s; st_status s] ++ enc_header (st_hdr s)
                    ++ enc_body (st_body s) ++ client
                    ++ [hs] ++ enc_header (client_header hh) ++ enc_body (if body_allowed hs then hb else [])
        end)
  | 2 :: rest =>
    let '(cc, _) := read_str rest in
    let hd := has_directive cc [s_no_cache; s_no_store; s_private] in
    (c, [b2z hd; if hd then 0 else extract_max_age cc])
  | _ => (c, [-1])
  end.
