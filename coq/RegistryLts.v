(* RegistryLts.v — executable labelled transition system of the named-cache registry (manager.go).

   Shared state
     caches  : the sync.Map  name -> instance   (atomic Load / LoadOrStore / LoadAndDelete / CompareAndDelete / Range)
     regs    : registrations name -> {config, optional type, optional factory}, guarded by the RWMutex [mu]
     insts   : heap of every cache instance ever built by New: type, close state (closeOnce), and the ghost
               fields creator / phase.  An instance's background goroutines run until its Close has completed,
               i.e. exactly while [i_st <> Closed].
   Threads: any number; [LSpawn c] starts a new caller at any time, [LStep t ch] lets thread [t] perform its next
   atomic step ([ch] resolves the only internal non-determinism, the order in which sync.Map.Range visits keys).
   A step that is not enabled (blocked lock, blocked closeOnce, finished thread) yields [None].

   Every program below follows manager.go statement by statement; purely local computation (type assertions on
   an immutable type, error construction) is fused with the preceding shared access.  Stdlib only. *)
From KV Require Import Base.
Close Scope Z_scope.
Open Scope nat_scope.

Definition name := nat.
Definition ty := nat.      (* the pair of type parameters (K,V), abstract *)
Definition iid := nat.     (* instance identity (pointer) *)
Definition tid := nat.

(* ---------------- small finite maps ---------------- *)
Definition upd {A} (f : nat -> A) (k : nat) (v : A) : nat -> A :=
  fun x => if Nat.eqb x k then v else f x.

Fixpoint lookup {A} (n : nat) (m : list (nat * A)) : option A :=
  match m with
  | [] => None
  | (k, v) :: r => if Nat.eqb n k then Some v else lookup n r
  end.

Fixpoint del {A} (n : nat) (m : list (nat * A)) : list (nat * A) :=
  match m with
  | [] => []
  | (k, v) :: r => if Nat.eqb n k then del n r else (k, v) :: del n r
  end.

Definition keys {A} (m : list (nat * A)) : list nat := map fst m.
Definition mem (n : nat) (l : list nat) : bool := existsb (Nat.eqb n) l.
Definition rem (n : nat) (l : list nat) : list nat := filter (fun x => negb (Nat.eqb x n)) l.

(* ---------------- instances ---------------- *)
(* closeOnce: Open -> Closing t (t runs the body of closeOnce.Do; other Close callers block) -> Closed *)
Inductive cstate := Open | Closing (by_ : tid) | Closed.

(* ghost life-cycle of an instance with respect to the sync.Map *)
Inductive phase :=
| Private            (* built by createCache, never stored *)
| Stored (n : name)  (* currently the value of [n] in the map *)
| Taken.             (* removed from the map by a thread that holds it and closes it (Remove's LoadAndDelete, or
                        CloseAll's CompareAndDelete of the very instance it visited and closed) *)

Record inst := mkInst { i_ty : ty; i_st : cstate; i_creator : tid; i_phase : phase }.
Definition inst0 := mkInst 0 Closed 0 Taken.
Definition with_st (x : inst) (c : cstate) := mkInst (i_ty x) c (i_creator x) (i_phase x).
Definition with_phase (x : inst) (p : phase) := mkInst (i_ty x) (i_st x) (i_creator x) p.

(* cacheRegistration: config (only its validity matters), cacheType, factory (the type the factory builds) *)
Record reg := mkReg { r_ok : bool; r_ty : option ty; r_fac : option ty }.

(* ---------------- calls, results, program counters ---------------- *)
Inductive call :=
| CGet (t : ty) (n : name)                  (* GetCache[t](m, n) *)
| CGetCfg (t : ty) (n : name) (ok : bool)   (* GetCacheWithConfig[t](m, n, config); ok = config.Validate()==nil *)
| CReg (n : name) (ok : bool)               (* m.Register(n, config) *)
| CRegT (t : ty) (n : name) (ok : bool)     (* RegisterCache[t](m, n, config) *)
| CRemove (n : name)
| CCloseAll.

Inductive res :=
| ROk (i : iid)     (* the cache pointer, nil error *)
| RNil              (* nil error, no value *)
| EMismatch         (* ErrTypeMismatch *)
| ENotReg           (* ErrCacheNotRegistered *)
| EExists           (* ErrCacheExists *)
| EInvalid.         (* config.Validate / New error *)

Inductive kind := KGet (t : ty) (n : name) | KReg (n : name) | KRm (n : name) | KCA.

Inductive pc :=
| Idle                                                   (* no such thread *)
(* GetCache (wc=false) / GetCacheWithConfig (wc=true) *)
| GLoad (wc : bool) (t : ty) (n : name) (ok : bool)      (* m.caches.Load(name) + assertCache *)
| GRLock (wc : bool) (t : ty) (n : name) (ok : bool)     (* m.configMu.RLock() *)
| GRead (wc : bool) (t : ty) (n : name) (ok : bool)      (* reg, exists := m.registrations[name] *)
| GRUnlock (wc : bool) (t : ty) (n : name) (ok : bool) (r : option reg)  (* RUnlock + the checks *)
(* createCache *)
| CNew (t : ty) (n : name) (r : reg)                     (* factory() / New(), then the type assertion *)
| CLoS (t : ty) (n : name) (i : iid)                     (* m.caches.LoadOrStore(name, cache) *)
| CCloseBad (t : ty) (n : name) (i : iid)                (* closer.Close() of a wrongly typed instance *)
| CCloseBadFin (t : ty) (n : name) (i : iid)
| CCloseLoser (t : ty) (n : name) (i j : iid)            (* cache.Close() of the loser; j = winner *)
| CCloseLoserFin (t : ty) (n : name) (i j : iid)
(* register *)
| RgStart (n : name) (r : reg)                           (* config.Validate() *)
| RgLock (n : name) (r : reg)                            (* configMu.Lock() *)
| RgCheck (n : name) (r : reg)                           (* _, exists := registrations[name] *)
| RgWrite (n : name) (r : reg)                           (* registrations[name] = reg *)
| RgUnlock (n : name) (ex : bool)                        (* deferred Unlock, return ErrCacheExists iff ex *)
(* Remove *)
| RmLock (n : name)
| RmDel (n : name)                                       (* delete(registrations, name) *)
| RmUnlock (n : name)
| RmLAD (n : name)                                       (* caches.LoadAndDelete(name) *)
| RmClose (n : name) (i : iid)
| RmCloseFin (n : name) (i : iid)
(* CloseAll: todo = keys present when Range started and not yet visited/seen absent; vis = keys visited *)
| CAStart
| CARange (todo vis : list name)
| CAClose (todo vis : list name) (n : name) (i : iid)    (* cache.Close() inside the Range callback *)
| CACloseFin (todo vis : list name) (n : name) (i : iid)
| CADelete (todo vis : list name) (n : name) (i : iid)   (* m.caches.CompareAndDelete(key, value) *)
| Done (k : kind) (x : res).

Inductive event :=
| ELin (t : tid) (n : name) (i : iid)   (* thread t observed i as the map's value for n (Load hit / LoadOrStore) *)
| EDel (n : name) (i : iid)             (* i was removed from the map entry n *)
| ERet (t : tid) (x : res).             (* thread t returned x *)

Record rwlock := mkRw { rw_w : option tid; rw_r : list tid }.

Record state := mkState {
  caches : list (name * iid);
  regs : name -> option reg;
  mu : rwlock;
  insts : iid -> inst;
  ninst : nat;
  thr : tid -> pc;
  nthr : nat;
  trace : list event      (* newest first *)
}.

Definition init : state :=
  mkState [] (fun _ => None) (mkRw None []) (fun _ => inst0) 0 (fun _ => Idle) 0 [].

(* ---------------- setters ---------------- *)
Definition set_thr (s : state) (t : tid) (p : pc) : state :=
  mkState (caches s) (regs s) (mu s) (insts s) (ninst s) (upd (thr s) t p) (nthr s) (trace s).
Definition set_caches (s : state) (c : list (name * iid)) : state :=
  mkState c (regs s) (mu s) (insts s) (ninst s) (thr s) (nthr s) (trace s).
Definition set_regs (s : state) (r : name -> option reg) : state :=
  mkState (caches s) r (mu s) (insts s) (ninst s) (thr s) (nthr s) (trace s).
Definition set_mu (s : state) (m : rwlock) : state :=
  mkState (caches s) (regs s) m (insts s) (ninst s) (thr s) (nthr s) (trace s).
Definition set_inst (s : state) (i : iid) (x : inst) : state :=
  mkState (caches s) (regs s) (mu s) (upd (insts s) i x) (ninst s) (thr s) (nthr s) (trace s).
Definition new_inst (s : state) (x : inst) : state :=
  mkState (caches s) (regs s) (mu s) (upd (insts s) (ninst s) x) (S (ninst s)) (thr s) (nthr s) (trace s).
Definition emit (s : state) (e : event) : state :=
  mkState (caches s) (regs s) (mu s) (insts s) (ninst s) (thr s) (nthr s) (e :: trace s).

Definition goto := set_thr.
Definition ret (s : state) (t : tid) (k : kind) (x : res) : state :=
  emit (set_thr s t (Done k x)) (ERet t x).

Definition set_phase (s : state) (i : iid) (p : phase) : state :=
  set_inst s i (with_phase (insts s i) p).

(* ---------------- Close of an instance (closeOnce) ---------------- *)
(* first half of Close: enter closeOnce.Do.  [true] = this caller runs the body (a second step finishes it);
   [false] = the Once is already done, Close returns at once; [None] = another caller is inside Do: block. *)
Definition close_begin (s : state) (me : tid) (i : iid) : option (state * bool) :=
  match i_st (insts s i) with
  | Open => Some (set_inst s i (with_st (insts s i) (Closing me)), true)
  | Closing _ => None
  | Closed => Some (s, false)
  end.
(* second half: workers.Wait() returned, shards cleared, Do returns *)
Definition close_fin (s : state) (i : iid) : state :=
  set_inst s i (with_st (insts s i) Closed).

(* assertCache[t](name, cached) *)
Definition assert_res (s : state) (t : ty) (j : iid) : res :=
  if Nat.eqb (i_ty (insts s j)) t then ROk j else EMismatch.

(* reg.cacheType != nil && reg.cacheType != cacheTypeOf[K,V]() *)
Definition typed_mismatch (r : reg) (t : ty) : bool :=
  match r_ty r with Some t' => negb (Nat.eqb t' t) | None => false end.

Definition init_pc (c : call) : pc :=
  match c with
  | CGet t n => GLoad false t n true
  | CGetCfg t n ok => GLoad true t n ok
  | CReg n ok => RgStart n (mkReg ok None None)
  | CRegT t n ok => RgStart n (mkReg ok (Some t) (Some t))
  | CRemove n => RmLock n
  | CCloseAll => CAStart
  end.

(* ---------------- one atomic step of thread t at program counter p ---------------- *)
Definition step_thread (s : state) (t : tid) (ch : nat) (p : pc) : option state :=
  match p with
  | Idle | Done _ _ => None

  (* ---- GetCache / GetCacheWithConfig ---- *)
  | GLoad wc a n ok =>
      match lookup n (caches s) with
      | Some i => Some (ret (emit s (ELin t n i)) t (KGet a n) (assert_res s a i))
      | None => Some (goto s t (GRLock wc a n ok))
      end
  | GRLock wc a n ok =>
      match rw_w (mu s) with
      | None => Some (goto (set_mu s (mkRw None (t :: rw_r (mu s)))) t (GRead wc a n ok))
      | Some _ => None
      end
  | GRead wc a n ok => Some (goto s t (GRUnlock wc a n ok (regs s n)))
  | GRUnlock wc a n ok r =>
      let s1 := set_mu s (mkRw (rw_w (mu s)) (rem t (rw_r (mu s)))) in
      if wc then
        match r with
        | Some rg => if typed_mismatch rg a then Some (ret s1 t (KGet a n) EMismatch)
                     else Some (goto s1 t (CNew a n (mkReg ok None None)))
        | None => Some (goto s1 t (CNew a n (mkReg ok None None)))
        end
      else
        match r with
        | None => Some (ret s1 t (KGet a n) ENotReg)
        | Some rg => if typed_mismatch rg a then Some (ret s1 t (KGet a n) EMismatch)
                     else Some (goto s1 t (CNew a n rg))
        end

  (* ---- createCache ---- *)
  | CNew a n rg =>
      if r_ok rg then
        let ct := match r_fac rg with Some t' => t' | None => a end in
        let i := ninst s in
        let s1 := new_inst s (mkInst ct Open t Private) in
        if Nat.eqb ct a then Some (goto s1 t (CLoS a n i)) else Some (goto s1 t (CCloseBad a n i))
      else Some (ret s t (KGet a n) EInvalid)
  | CLoS a n i =>
      match lookup n (caches s) with
      | Some j => Some (goto (emit s (ELin t n j)) t (CCloseLoser a n i j))
      | None =>
          let s1 := set_phase (set_caches s ((n, i) :: caches s)) i (Stored n) in
          Some (ret (emit s1 (ELin t n i)) t (KGet a n) (ROk i))
      end
  | CCloseBad a n i =>
      match close_begin s t i with
      | Some (s1, true) => Some (goto s1 t (CCloseBadFin a n i))
      | Some (s1, false) => Some (ret s1 t (KGet a n) EMismatch)
      | None => None
      end
  | CCloseBadFin a n i => Some (ret (close_fin s i) t (KGet a n) EMismatch)
  | CCloseLoser a n i j =>
      match close_begin s t i with
      | Some (s1, true) => Some (goto s1 t (CCloseLoserFin a n i j))
      | Some (s1, false) => Some (ret s1 t (KGet a n) (assert_res s1 a j))
      | None => None
      end
  | CCloseLoserFin a n i j =>
      let s1 := close_fin s i in Some (ret s1 t (KGet a n) (assert_res s1 a j))

  (* ---- Register / RegisterCache ---- *)
  | RgStart n rg => if r_ok rg then Some (goto s t (RgLock n rg)) else Some (ret s t (KReg n) EInvalid)
  | RgLock n rg =>
      match rw_w (mu s), rw_r (mu s) with
      | None, [] => Some (goto (set_mu s (mkRw (Some t) [])) t (RgCheck n rg))
      | _, _ => None
      end
  | RgCheck n rg =>
      match regs s n with
      | Some _ => Some (goto s t (RgUnlock n true))
      | None => Some (goto s t (RgWrite n rg))
      end
  | RgWrite n rg => Some (goto (set_regs s (upd (regs s) n (Some rg))) t (RgUnlock n false))
  | RgUnlock n ex => Some (ret (set_mu s (mkRw None (rw_r (mu s)))) t (KReg n) (if ex then EExists else RNil))

  (* ---- Remove ---- *)
  | RmLock n =>
      match rw_w (mu s), rw_r (mu s) with
      | None, [] => Some (goto (set_mu s (mkRw (Some t) [])) t (RmDel n))
      | _, _ => None
      end
  | RmDel n => Some (goto (set_regs s (upd (regs s) n None)) t (RmUnlock n))
  | RmUnlock n => Some (goto (set_mu s (mkRw None (rw_r (mu s)))) t (RmLAD n))
  | RmLAD n =>
      match lookup n (caches s) with
      | Some i =>
          let s1 := set_phase (set_caches s (del n (caches s))) i Taken in
          Some (goto (emit s1 (EDel n i)) t (RmClose n i))
      | None => Some (ret s t (KRm n) RNil)
      end
  | RmClose n i =>
      match close_begin s t i with
      | Some (s1, true) => Some (goto s1 t (RmCloseFin n i))
      | Some (s1, false) => Some (ret s1 t (KRm n) RNil)
      | None => None
      end
  | RmCloseFin n i => Some (ret (close_fin s i) t (KRm n) RNil)

  (* ---- CloseAll ---- *)
  | CAStart => Some (goto s t (CARange (keys (caches s)) []))
  | CARange todo vis =>
      match ch with
      | O => match todo with [] => Some (ret s t KCA RNil) | _ :: _ => None end
      | S n =>
          if mem n vis then None
          else match lookup n (caches s) with
               | Some i => Some (goto s t (CAClose (rem n todo) (n :: vis) n i))
               | None => if mem n todo then Some (goto s t (CARange (rem n todo) vis)) else None
               end
      end
  | CAClose todo vis n i =>
      match close_begin s t i with
      | Some (s1, true) => Some (goto s1 t (CACloseFin todo vis n i))
      | Some (s1, false) => Some (goto s1 t (CADelete todo vis n i))
      | None => None
      end
  | CACloseFin todo vis n i => Some (goto (close_fin s i) t (CADelete todo vis n i))
  | CADelete todo vis n i =>
      (* CompareAndDelete(key, value): remove the key only if it still maps to the instance visited (and closed) *)
      match lookup n (caches s) with
      | Some j =>
          if Nat.eqb j i then
            let s1 := set_phase (set_caches s (del n (caches s))) i Taken in
            Some (goto (emit s1 (EDel n i)) t (CARange todo vis))
          else Some (goto s t (CARange todo vis))
      | None => Some (goto s t (CARange todo vis))
      end
  end.

Inductive label := LSpawn (c : call) | LStep (t : tid) (ch : nat).

Definition spawn (s : state) (c : call) : state :=
  mkState (caches s) (regs s) (mu s) (insts s) (ninst s) (upd (thr s) (nthr s) (init_pc c)) (S (nthr s)) (trace s).

Definition step (s : state) (l : label) : option state :=
  match l with
  | LSpawn c => Some (spawn s c)
  | LStep t ch => step_thread s t ch (thr s t)
  end.

Fixpoint exec (s : state) (ls : list label) : option state :=
  match ls with
  | [] => Some s
  | l :: r => match step s l with Some s1 => exec s1 r | None => None end
  end.

Inductive reachable : state -> Prop :=
| reach_init : reachable init
| reach_step s l s' : reachable s -> step s l = Some s' -> reachable s'.

Lemma exec_reachable s ls s' : reachable s -> exec s ls = Some s' -> reachable s'.
Proof.
  revert s. induction ls as [|l r IH]; cbn [exec]; intros s R E.
  - injection E as <-. exact R.
  - destruct (step s l) as [s1|] eqn:S1; [|discriminate]. eapply IH; [|exact E]. econstructor; eauto.
Qed.

(* run thread t for k consecutive steps with choice 0 *)
Definition steps (t : tid) (k : nat) : list label := repeat (LStep t 0) k.

(* observation helpers for the examples *)
Definition st_of (s : state) (i : iid) := i_st (insts s i).
Definition phase_of (s : state) (i : iid) := i_phase (insts s i).
Definition result_of (s : state) (t : tid) : option res :=
  match thr s t with Done _ x => Some x | _ => None end.
