(* NotifierStream.v — stream wrapper of NotifierLts for the lock-step correspondence stream "nl" (sid 61).
   Model only, no proofs. Mutators of the harness are synchronous Delete calls: the five atomic steps of one
   stageRemoval run back to back (a legal schedule of the LTS). One notifier macro-step runs the LTS notifier from one
   verifYield point of the real goroutine to the next: 501 = NSelect, 502 = NCheck i (i < nsh), 503 = NLock i,
   505 = NDeliver i with a non-empty hand; the lock / swap / clear-flag / unlock steps and the bookkeeping positions
   (NCheck nsh, NDeliver with an empty hand) have no yield point in the code and are passed through. *)
Require Import List ZArith Bool. Import ListNotations.
Require Import KV.NotifierLts.
Local Open Scope nat_scope.

Definition no_re (_ : Z) : option (nat * Z) := None.

Definition nl_init (cfg : list Z) : state :=
  match cfg with
  | n :: _ => init (Z.to_nat n) []
  | [] => init 1 []
  end.

Definition observable (s : state) : bool :=
  match npos s with
  | NSelect | NExited => true
  | NCheck i => i <? nsh s
  | NLock _ => true
  | NDeliver _ => match hand s with [] => false | _ => true end
  | _ => false
  end.

Fixpoint nl_run (fuel : nat) (c : bool) (s : state) : state :=
  match fuel with
  | O => s
  | S f => match not_step no_re c s with
           | None => s
           | Some s1 => if observable s1 then s1 else nl_run f c s1
           end
  end.

Definition b2zn (b : bool) : Z := if b then 1%Z else 0%Z.

Definition pos_code (s : state) : list Z :=
  match npos s with
  | NSelect => [501%Z; 0%Z]
  | NCheck _ => [502%Z; 0%Z]      (* the shard index is not visible at the yield point; it shows in the flags and buffers *)
  | NLock _ => [503%Z; 0%Z]
  | NDeliver _ => [505%Z; 0%Z]
  | NExited => [(-1)%Z; 0%Z]
  | _ => [(-9)%Z; 0%Z]
  end.

Definition nl_snapshot (s : state) : list Z :=
  [b2zn (wakeTok s); b2zn (closeCh s)]
  ++ map b2zn (pendings s)
  ++ map (fun l => Z.of_nat (length l)) (bufs s)
  ++ [Z.of_nat (length (delivered s)); match rev (delivered s) with (_, x) :: _ => x | [] => 0%Z end].

Fixpoint iter_mut (k : nat) (s : state) : state :=
  match k with
  | O => s
  | S j => match mut_step s 0 with Some s1 => iter_mut j s1 | None => s end
  end.

Definition nl_step (s : state) (o : list Z) : state * list Z :=
  match o with
  | [1%Z; sh; id] =>
      let s0 := set_muts s (fupd (muts s) 0 (mkMut [(Z.to_nat sh, id)] MIdle)) in
      let s1 := iter_mut 5 s0 in
      (s1, nl_snapshot s1)
  | [2%Z; c] =>
      match not_step no_re (negb (Z.eqb c 0)) s with
      | None => (s, [(-2)%Z] ++ nl_snapshot s)
      | Some _ => let s1 := nl_run 200 (negb (Z.eqb c 0)) s in (s1, pos_code s1 ++ nl_snapshot s1)
      end
  | [3%Z] =>
      match close_step s with
      | Some s1 => (s1, nl_snapshot s1)
      | None => (s, [(-2)%Z])
      end
  | _ => (s, [(-9)%Z])
  end.
