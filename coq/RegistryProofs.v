(* RegistryProofs.v — invariants and theorems A1..A8 for the registry transition system of RegistryLts.v. *)
From KV Require Import Base RegistryLts.
Close Scope Z_scope.
Open Scope nat_scope.

(* ------------------------------------------------------------------ *)
(** * Finite-map lemmas                                                  *)
(* ------------------------------------------------------------------ *)
Lemma upd_eq {A} (f : nat -> A) k v : upd f k v k = v.
Proof. unfold upd. now rewrite Nat.eqb_refl. Qed.
Lemma upd_neq {A} (f : nat -> A) k v x : x <> k -> upd f k v x = f x.
Proof. unfold upd. intros H. destruct (Nat.eqb_spec x k); [contradiction|reflexivity]. Qed.

Lemma lookup_del {A} n k (m : list (nat * A)) :
  lookup n (del k m) = if Nat.eqb n k then None else lookup n m.
Proof.
  induction m as [|[a v] m IH]; cbn [del lookup].
  - now destruct (Nat.eqb n k).
  - destruct (Nat.eqb_spec k a) as [E|E].
    + subst a. rewrite IH. destruct (Nat.eqb_spec n k); reflexivity.
    + cbn [lookup]. rewrite IH. destruct (Nat.eqb_spec n a) as [F|F]; [|reflexivity].
      subst a. destruct (Nat.eqb_spec n k); [congruence|reflexivity].
Qed.

Lemma lookup_cons {A} n k (v : A) m : lookup n ((k, v) :: m) = if Nat.eqb n k then Some v else lookup n m.
Proof. reflexivity. Qed.

Lemma In_rem x n l : In x (rem n l) <-> In x l /\ x <> n.
Proof.
  unfold rem. rewrite filter_In. destruct (Nat.eqb_spec x n); cbn; intuition congruence.
Qed.

(* ------------------------------------------------------------------ *)
(** * Classification of program counters                                 *)
(* ------------------------------------------------------------------ *)
(* pcs of createCache that own a never-stored instance; the flag says "inside closeOnce.Do" *)
Definition own_of (p : pc) : option (iid * bool) :=
  match p with
  | CLoS _ _ i | CCloseBad _ _ i | CCloseLoser _ _ i _ => Some (i, false)
  | CCloseBadFin _ _ i | CCloseLoserFin _ _ i _ => Some (i, true)
  | _ => None
  end.
(* pcs of Remove that hold the instance they took out of the map *)
Definition taken_of (p : pc) : option (iid * bool) :=
  match p with
  | RmClose _ i => Some (i, false)
  | RmCloseFin _ i => Some (i, true)
  | _ => None
  end.
(* pcs of CloseAll's Range callback: 0 = before Close, 1 = inside closeOnce.Do, 2 = before CompareAndDelete(key, value) *)
Definition ca_of (p : pc) : option (name * iid * nat) :=
  match p with
  | CAClose _ _ n i => Some (n, i, 0)
  | CACloseFin _ _ n i => Some (n, i, 1)
  | CADelete _ _ n i => Some (n, i, 2)
  | _ => None
  end.
Definition is_ca (p : pc) : bool :=
  match p with CAStart | CARange _ _ | CAClose _ _ _ _ | CACloseFin _ _ _ _ | CADelete _ _ _ _ => true | _ => false end.
(* the instance whose closeOnce.Do body this pc is running *)
Definition closing_of (p : pc) : option iid :=
  match p with
  | CCloseBadFin _ _ i | CCloseLoserFin _ _ i _ | RmCloseFin _ i | CACloseFin _ _ _ i => Some i
  | _ => None
  end.
Definition holds_w (p : pc) : bool :=
  match p with RgCheck _ _ | RgWrite _ _ | RgUnlock _ _ | RmDel _ | RmUnlock _ => true | _ => false end.
Definition holds_r (p : pc) : bool :=
  match p with GRead _ _ _ _ | GRUnlock _ _ _ _ _ => true | _ => false end.
(* a CloseAll thread that visited instance i under key n and is about to (finish closing it and)
   CompareAndDelete (n, i) *)
Definition ca_will_delete (p : pc) (n : name) (i : iid) : Prop :=
  match p with
  | CACloseFin _ _ n' i' | CADelete _ _ n' i' => n' = n /\ i' = i
  | _ => False
  end.
(* registration carried by a register pc; flag = already validated *)
Definition reg_of (p : pc) : option (reg * bool) :=
  match p with
  | RgStart _ r => Some (r, false)
  | RgLock _ r | RgCheck _ r | RgWrite _ r => Some (r, true)
  | _ => None
  end.
Definition reg_wf (r : reg) := r_fac r = r_ty r.

(* ------------------------------------------------------------------ *)
(** * The invariant                                                      *)
(* ------------------------------------------------------------------ *)
Section InvDef.
  Variable s : state.
  Definition ph (i : iid) := i_phase (insts s i).
  Definition stt (i : iid) := i_st (insts s i).
  Definition tyi (i : iid) := i_ty (insts s i).
  Definition cre (i : iid) := i_creator (insts s i).
  Definition pub (j : iid) := j < ninst s /\ ph j <> Private.

  (* observations of the map for name n since its last removal all agree with the current value *)
  Definition lin_agree : Prop :=
    forall post pre t n i, trace s = post ++ ELin t n i :: pre ->
      (forall j, ~ In (EDel n j) post) -> lookup n (caches s) = Some i.
  Definition ret_has_lin : Prop :=
    forall post pre t i, trace s = post ++ ERet t (ROk i) :: pre -> exists n, In (ELin t n i) pre.

  Record Inv : Prop := {
    iv_map1 : forall n i, lookup n (caches s) = Some i -> i < ninst s /\ ph i = Stored n;
    iv_map2 : forall n i, i < ninst s -> ph i = Stored n -> lookup n (caches s) = Some i;
    iv_idle : forall t, nthr s <= t -> thr s t = Idle;
    iv_own : forall t i b, own_of (thr s t) = Some (i, b) ->
               i < ninst s /\ cre i = t /\ ph i = Private /\ stt i = (if b then Closing t else Open);
    iv_los_ty : forall t a n i, thr s t = CLoS a n i -> tyi i = a;
    iv_loser : forall t a n i j, (thr s t = CCloseLoser a n i j \/ thr s t = CCloseLoserFin a n i j) ->
               pub j /\ In (ELin t n j) (trace s);
    iv_tk : forall t i b, taken_of (thr s t) = Some (i, b) ->
               i < ninst s /\ ph i = Taken /\ (b = true -> stt i = Closing t);
    iv_ca : forall t n i k, ca_of (thr s t) = Some (n, i, k) ->
               pub i /\ (k = 1 -> stt i = Closing t) /\ (k = 2 -> stt i = Closed) /\
               (forall m, ph i = Stored m -> m = n);
    iv_done : forall t a n i, thr s t = Done (KGet a n) (ROk i) ->
               pub i /\ tyi i = a /\ In (ELin t n i) (trace s);
    iv_rd : forall t, holds_r (thr s t) = true -> In t (rw_r (mu s));
    iv_wr : forall t, holds_w (thr s t) = true -> rw_w (mu s) = Some t;
    iv_mutex : rw_w (mu s) <> None -> rw_r (mu s) = [];
    iv_rgwrite : forall t n r, thr s t = RgWrite n r -> regs s n = None;
    iv_reg : forall t r b, reg_of (thr s t) = Some (r, b) -> reg_wf r /\ (b = true -> r_ok r = true);
    iv_regs : forall n r, regs s n = Some r -> reg_wf r /\ r_ok r = true;
    iv_grunlock : forall t wc a n ok r, thr s t = GRUnlock wc a n ok (Some r) -> reg_wf r /\ r_ok r = true;
    iv_cnew : forall t a n r, thr s t = CNew a n r -> reg_wf r /\ typed_mismatch r a = false;
    iv_priv : forall i, i < ninst s -> ph i = Private -> stt i <> Closed ->
               exists b, own_of (thr s (cre i)) = Some (i, b);
    iv_taken : forall i, i < ninst s -> ph i = Taken -> stt i <> Closed ->
               exists t b, taken_of (thr s t) = Some (i, b);
    iv_closing : forall i t, i < ninst s -> stt i = Closing t -> closing_of (thr s t) = Some i;
    iv_stored : forall n i, lookup n (caches s) = Some i -> stt i <> Open ->
               exists t, ca_will_delete (thr s t) n i;
    iv_lin : lin_agree;
    iv_ret : ret_has_lin
  }.
End InvDef.

(* ------------------------------------------------------------------ *)
(** * Step inversion                                                     *)
(* ------------------------------------------------------------------ *)
Ltac simp_state :=
  cbn [caches regs mu insts ninst thr nthr trace set_thr set_caches set_regs set_mu set_inst new_inst emit goto ret
       set_phase close_fin spawn i_ty i_st i_creator i_phase with_st with_phase rw_w rw_r] in *.

Ltac inv_thread H :=
  match type of H with step_thread ?s ?t ?ch ?p = Some _ => destruct p eqn:Epc end;
  cbn [step_thread] in H; unfold close_begin in H;
  try match type of H with context [i_st (insts ?s ?i)] => destruct (i_st (insts s i)) eqn:Est end;
  repeat match type of H with
    | context [match ?x with _ => _ end] => destruct x eqn:?
    end; try discriminate H; injection H as <-.


Ltac unf := unfold pub, reg_wf in *; unfold ph, stt, tyi, cre in *.
Ltac split_eqb :=
  repeat match goal with
  | |- context [Nat.eqb ?a ?b] => destruct (Nat.eqb_spec a b); subst
  | H : context [Nat.eqb ?a ?b] |- _ => destruct (Nat.eqb_spec a b); subst
  end.
Create HintDb inv.
#[export] Hint Extern 2 (_ < _) => lia : inv.
#[export] Hint Extern 2 (_ <= _) => lia : inv.
#[export] Hint Extern 2 (_ <> _) => congruence : inv.
#[export] Hint Extern 2 (_ = _) => congruence : inv.
Ltac fin := try solve [eauto with inv | congruence | lia | intuition (eauto with inv; (congruence || lia))].

(* facts of the invariant about the stepping thread t (whose pc is known by Epc) *)
Ltac spec2 F := first [specialize (F _ _ eq_refl) | clear F].
Ltac spec3 F := first [specialize (F _ _ _ eq_refl) | clear F].
Ltac facts I t :=
  let s := match type of I with Inv ?s => s end in
  pose proof (iv_own s I t) as Fown; pose proof (iv_tk s I t) as Ftk; pose proof (iv_ca s I t) as Fca;
  pose proof (iv_rd s I t) as Frd; pose proof (iv_wr s I t) as Fwr; pose proof (iv_reg s I t) as Freg;
  try match goal with E : thr s t = CLoS ?a ?n ?i |- _ => pose proof (iv_los_ty s I t a n i E) as Flos end;
  try match goal with E : thr s t = CCloseLoser ?a ?n ?i ?j |- _ =>
        pose proof (iv_loser s I t a n i j (or_introl E)) as Floser end;
  try match goal with E : thr s t = CCloseLoserFin ?a ?n ?i ?j |- _ =>
        pose proof (iv_loser s I t a n i j (or_intror E)) as Floser end;
  try match goal with E : thr s t = GRUnlock ?wc ?a ?n ?ok (Some ?r) |- _ =>
        pose proof (iv_grunlock s I t wc a n ok r E) as Fgru end;
  try match goal with E : thr s t = CNew ?a ?n ?r |- _ => pose proof (iv_cnew s I t a n r E) as Fcnew end;
  match goal with E : thr s t = _ |- _ => rewrite E in Fown, Ftk, Fca, Frd, Fwr, Freg end;
  cbn [own_of taken_of ca_of holds_r holds_w reg_of] in Fown, Ftk, Fca, Frd, Fwr, Freg;
  spec2 Fown; spec2 Ftk; spec3 Fca; spec2 Freg;
  first [specialize (Frd eq_refl) | clear Frd]; first [specialize (Fwr eq_refl) | clear Fwr].


Ltac maps I :=
  repeat match goal with
  | L : lookup ?n (caches ?s) = Some ?i |- _ =>
      lazymatch goal with
      | _ : i < ninst s /\ ph s i = Stored n |- _ => fail
      | _ => pose proof (iv_map1 s I n i L)
      end
  end.

Ltac injs :=
  repeat match goal with
  | H : Some _ = Some _ |- _ => injection H; clear H; intros; subst
  | H : (_, _) = (_, _) |- _ => injection H; clear H; intros; subst
  | H : Some _ = None |- _ => discriminate H
  | H : None = Some _ |- _ => discriminate H
  end.
Ltac pre I H t := revert H; intros H; inv_thread H; simp_state; facts I t; maps I.
Ltac norm := unf; simp_state; unfold upd in *; rewrite ?lookup_del, ?lookup_cons in *.

(* trace-level formulations *)
Definition lin_ok (tr : list event) (m : list (name * iid)) : Prop :=
  forall post pre t n i, tr = post ++ ELin t n i :: pre ->
    (forall j, ~ In (EDel n j) post) -> lookup n m = Some i.
Definition ret_ok (tr : list event) : Prop :=
  forall post pre t i, tr = post ++ ERet t (ROk i) :: pre -> exists n, In (ELin t n i) pre.

Lemma cons_split {A} (e x : A) tr post pre :
  e :: tr = post ++ x :: pre ->
  (post = [] /\ e = x /\ tr = pre) \/ (exists post', post = e :: post' /\ tr = post' ++ x :: pre).
Proof.
  destruct post as [|y post]; cbn [app]; intros E; injection E as -> ->; [left|right]; eauto.
Qed.

Lemma lin_ok_ret tr m t x : lin_ok tr m -> lin_ok (ERet t x :: tr) m.
Proof.
  intros L post pre t0 n i E N. apply cons_split in E as [(-> & E & _)|(post' & -> & E)]; [discriminate|].
  eapply L; [exact E|]. intros j K. apply (N j). right. exact K.
Qed.
Lemma lin_ok_lin tr m t n i : lin_ok tr m -> lookup n m = Some i -> lin_ok (ELin t n i :: tr) m.
Proof.
  intros L Hl post pre t0 n0 i0 E N. apply cons_split in E as [(-> & E & _)|(post' & -> & E)].
  - injection E as <- <- <-. exact Hl.
  - eapply L; [exact E|]. intros j K. apply (N j). right. exact K.
Qed.
Lemma lin_ok_store tr m t n i : lin_ok tr m -> lookup n m = None -> lin_ok (ELin t n i :: tr) ((n, i) :: m).
Proof.
  intros L Hl post pre t0 n0 i0 E N. rewrite lookup_cons.
  apply cons_split in E as [(-> & E & _)|(post' & -> & E)].
  - injection E as <- <- <-. now rewrite Nat.eqb_refl.
  - assert (K : lookup n0 m = Some i0).
    { eapply L; [exact E|]. intros j K. apply (N j). right. exact K. }
    destruct (Nat.eqb_spec n0 n); [congruence|exact K].
Qed.
Lemma lin_ok_del tr m n i : lin_ok tr m -> lin_ok (EDel n i :: tr) (del n m).
Proof.
  intros L post pre t0 n0 i0 E N. rewrite lookup_del.
  apply cons_split in E as [(-> & E & _)|(post' & -> & E)]; [discriminate|].
  destruct (Nat.eqb_spec n0 n) as [->|D].
  - exfalso. apply (N i). left. reflexivity.
  - eapply L; [exact E|]. intros j K. apply (N j). right. exact K.
Qed.

Lemma ret_ok_other tr e : ret_ok tr -> (forall t i, e <> ERet t (ROk i)) -> ret_ok (e :: tr).
Proof.
  intros R N post pre t i E. apply cons_split in E as [(-> & E & _)|(post' & -> & E)].
  - exfalso. eapply N. exact E.
  - eapply R. exact E.
Qed.
Lemma ret_ok_ret tr t x : ret_ok tr -> (forall i, x = ROk i -> exists n, In (ELin t n i) tr) -> ret_ok (ERet t x :: tr).
Proof.
  intros R N post pre t0 i E. apply cons_split in E as [(-> & E & <-)|(post' & -> & E)].
  - injection E as <- ->. apply N. reflexivity.
  - eapply R. exact E.
Qed.

Lemma wit_upd (Q : pc -> Prop) (th : tid -> pc) t P' :
  (exists t0, Q (th t0)) -> (Q (th t) -> Q P') -> exists t0, Q (upd th t P' t0).
Proof.
  intros [t0 W] K. destruct (Nat.eq_dec t0 t) as [->|N].
  - exists t. rewrite upd_eq. auto.
  - exists t0. rewrite upd_neq by exact N. exact W.
Qed.
Ltac norm_hyps := unf; simp_state; unfold upd in * |-; rewrite ?lookup_del, ?lookup_cons in * |-.

Section Pres.
  Variables (s s' : state) (t : tid) (ch : nat).
  Hypothesis I : Inv s.
  Hypothesis H : step_thread s t ch (thr s t) = Some s'.

  Lemma p_map1 : forall n i, lookup n (caches s') = Some i -> i < ninst s' /\ ph s' i = Stored n.
  Proof.
    pre I H t; intros xn xi L; pose proof (iv_map1 s I xn xi) as M; norm; split_eqb; simp_state; fin.
  Qed.

  Lemma p_map2 : forall n i, i < ninst s' -> ph s' i = Stored n -> lookup n (caches s') = Some i.
  Proof.
    pre I H t; intros xn xi L P; pose proof (iv_map2 s I xn xi) as M; norm; split_eqb; simp_state; fin.
  Qed.

  Lemma p_idle : forall t0, nthr s' <= t0 -> thr s' t0 = Idle.
  Proof.
    pre I H t; intros xt L; pose proof (iv_idle s I xt) as M; pose proof (iv_idle s I t) as M'; norm;
      split_eqb; simp_state; fin.
  Qed.

  Lemma p_own : forall t0 i b, own_of (thr s' t0) = Some (i, b) ->
      i < ninst s' /\ cre s' i = t0 /\ ph s' i = Private /\ stt s' i = (if b then Closing t0 else Open).
  Proof.
    pre I H t; intros xt xi xb O; pose proof (iv_own s I xt xi xb) as M; norm; split_eqb; simp_state;
      cbn [own_of] in *; injs; fin.
  Qed.

  Lemma p_los_ty : forall t0 a n i, thr s' t0 = CLoS a n i -> tyi s' i = a.
  Proof.
    pre I H t; intros xt xa xn xi O; pose proof (iv_los_ty s I xt xa xn xi) as M;
      pose proof (iv_own s I xt xi false) as M2; norm; split_eqb; simp_state; try rewrite O in *; cbn [own_of] in *; injs;
      try discriminate; try (injection O as -> -> ->); fin.
  Qed.

  Lemma p_loser : forall t0 a n i j, (thr s' t0 = CCloseLoser a n i j \/ thr s' t0 = CCloseLoserFin a n i j) ->
      pub s' j /\ In (ELin t0 n j) (trace s').
  Proof.
    pre I H t; intros xt xa xn xi xj O; pose proof (iv_loser s I xt xa xn xi xj) as M; norm; split_eqb; simp_state;
      try (destruct O as [O|O]; try discriminate O; injection O as -> -> -> ->); cbn [In]; fin.
  Qed.

  Lemma p_tk : forall t0 i b, taken_of (thr s' t0) = Some (i, b) ->
      i < ninst s' /\ ph s' i = Taken /\ (b = true -> stt s' i = Closing t0).
  Proof.
    pre I H t; intros xt xi xb O; pose proof (iv_tk s I xt xi xb) as M; norm; split_eqb; simp_state;
      cbn [taken_of] in *; injs; fin.
  Qed.

  Lemma p_ca : forall t0 n i k, ca_of (thr s' t0) = Some (n, i, k) ->
      pub s' i /\ (k = 1 -> stt s' i = Closing t0) /\ (k = 2 -> stt s' i = Closed) /\
      (forall m, ph s' i = Stored m -> m = n).
  Proof.
    pre I H t; intros xt xn xi xk O; pose proof (iv_ca s I xt xn xi xk) as M; norm; split_eqb; simp_state;
      cbn [ca_of] in *; injs; fin.
  Qed.

  Lemma p_done : forall t0 a n i, thr s' t0 = Done (KGet a n) (ROk i) ->
      pub s' i /\ tyi s' i = a /\ In (ELin t0 n i) (trace s').
  Proof.
    pre I H t; intros xt xa xn xi O; pose proof (iv_done s I xt xa xn xi) as M; unfold assert_res in *; norm;
      split_eqb; simp_state; try discriminate O; try (injection O as -> -> ->); cbn [In]; fin.
  Qed.

  Lemma p_rd : forall t0, holds_r (thr s' t0) = true -> In t0 (rw_r (mu s')).
  Proof.
    pre I H t; intros xt O; pose proof (iv_rd s I xt) as M; norm; rewrite ?In_rem; split_eqb; simp_state;
      try match goal with E : rw_r (mu s) = [] |- _ => rewrite E in * end;
      cbn [holds_r In] in *; try discriminate O; fin.
  Qed.

  Lemma p_wr : forall t0, holds_w (thr s' t0) = true -> rw_w (mu s') = Some t0.
  Proof.
    pre I H t; intros xt O; pose proof (iv_wr s I xt) as M; norm; split_eqb; simp_state;
      cbn [holds_w] in *; try discriminate O; fin.
  Qed.

  Lemma p_mutex : rw_w (mu s') <> None -> rw_r (mu s') = [].
  Proof.
    pre I H t; intros O; pose proof (iv_mutex s I) as M; norm; simp_state; fin;
      try (rewrite M by fin; reflexivity).
  Qed.

  Lemma p_rgwrite : forall t0 n r, thr s' t0 = RgWrite n r -> regs s' n = None.
  Proof.
    pre I H t; intros xt xn xr O; pose proof (iv_rgwrite s I xt xn xr) as M; pose proof (iv_wr s I xt) as M2;
      norm; split_eqb; simp_state; try discriminate O; try (injection O as -> ->);
      try (rewrite O in M2; cbn [holds_w] in M2); fin.
  Qed.

  Lemma p_reg : forall t0 r b, reg_of (thr s' t0) = Some (r, b) -> reg_wf r /\ (b = true -> r_ok r = true).
  Proof.
    pre I H t; intros xt xr xb O; pose proof (iv_reg s I xt xr xb) as M; norm; split_eqb; simp_state;
      cbn [reg_of] in *; injs; fin.
  Qed.

  Lemma p_regs : forall n r, regs s' n = Some r -> reg_wf r /\ r_ok r = true.
  Proof.
    pre I H t; intros xn xr O; pose proof (iv_regs s I xn xr) as M; norm; split_eqb; simp_state; injs; fin.
  Qed.

  Lemma p_grunlock : forall t0 wc a n ok r, thr s' t0 = GRUnlock wc a n ok (Some r) -> reg_wf r /\ r_ok r = true.
  Proof.
    pre I H t; intros xt xwc xa xn xok xr O; pose proof (iv_grunlock s I xt xwc xa xn xok xr) as M;
      norm; split_eqb; simp_state; try discriminate O; fin.
    all: injection O as -> -> -> -> E; eapply (iv_regs s I); eauto.
  Qed.

  Lemma p_cnew : forall t0 a n r, thr s' t0 = CNew a n r -> reg_wf r /\ typed_mismatch r a = false.
  Proof.
    pre I H t; intros xt xa xn xr O; pose proof (iv_cnew s I xt xa xn xr) as M;
      norm; split_eqb; simp_state; try discriminate O; try (injection O as -> -> ->); fin.
    all: injection O; intros; subst; split; reflexivity.
  Qed.

  Lemma p_closing : forall i t0, i < ninst s' -> stt s' i = Closing t0 -> closing_of (thr s' t0) = Some i.
  Proof.
    pre I H t; intros xi xt L O; pose proof (iv_closing s I xi xt) as M; norm; split_eqb; simp_state;
      cbn [closing_of] in *; try rewrite Epc in M; cbn [closing_of] in *; injs; fin.
  Qed.

  Lemma p_priv : forall i, i < ninst s' -> ph s' i = Private -> stt s' i <> Closed ->
      exists b, own_of (thr s' (cre s' i)) = Some (i, b).
  Proof.
    pre I H t; intros xi L P C; pose proof (iv_priv s I xi) as M; norm; split_eqb; simp_state;
      try rewrite Epc in M; cbn [own_of] in *; fin.
    all: try (destruct M as [mb Mb]; [solve [fin] .. | ]; injs; fin).
    Unshelve. all: exact true.
  Qed.

  Lemma p_taken : forall i, i < ninst s' -> ph s' i = Taken -> stt s' i <> Closed ->
      exists t0 b, taken_of (thr s' t0) = Some (i, b).
  Proof.
    pre I H t; intros xi L P C; pose proof (iv_taken s I xi) as M; norm_hyps; split_eqb; simp_state;
      try (exfalso; solve [fin]).
    all: try solve [exists t; rewrite upd_eq; cbn [taken_of]; eauto].
    all: match goal with |- exists _ b, taken_of _ = Some (?x, b) =>
           apply (wit_upd (fun p => exists b, taken_of p = Some (x, b))) end;
      [ apply M; fin | rewrite ?Epc; cbn [taken_of]; intros [wb W]; injs; try discriminate W; fin ].
    Unshelve. all: exact true.
  Qed.

  Lemma p_stored : forall n i, lookup n (caches s') = Some i -> stt s' i <> Open ->
      exists t0, ca_will_delete (thr s' t0) n i.
  Proof.
    pre I H t; intros xn xi L C; pose proof (iv_stored s I xn xi) as M; norm_hyps; split_eqb; simp_state;
      maps I; unf; try (exfalso; solve [fin]).
    all: try solve [exists t; rewrite upd_eq; cbn [ca_will_delete]; fin].
    all: try solve [exists t; rewrite upd_eq; cbn [ca_will_delete]; destruct Fca as (_ & _ & _ & Fn);
                    split; [symmetry; apply Fn; fin | reflexivity]].
    all: match goal with |- exists _, ca_will_delete _ ?n ?x =>
           apply (wit_upd (fun p => ca_will_delete p n x)) end;
      [ apply M; fin | rewrite ?Epc; cbn [ca_will_delete]; intros W; fin ].
  Qed.

  Lemma p_lin : lin_agree s'.
  Proof.
    change (lin_ok (trace s') (caches s')).
    pose proof (iv_lin s I : lin_ok (trace s) (caches s)) as M.
    pre I H t; repeat first [apply lin_ok_ret | apply lin_ok_del | apply lin_ok_store | apply lin_ok_lin ]; fin.
  Qed.

  Lemma p_ret : ret_has_lin s'.
  Proof.
    change (ret_ok (trace s')).
    pose proof (iv_ret s I : ret_ok (trace s)) as M.
    pre I H t; repeat first [apply ret_ok_ret | apply ret_ok_other; [|discriminate] ]; fin.
    all: unfold assert_res; norm; intros xi E; split_eqb; try discriminate E; injs;
      try (injection E as <-); cbn [In]; fin.
    Unshelve. all: exact [].
  Qed.

  Lemma inv_thread_step : Inv s'.
  Proof.
    constructor.
    - exact p_map1.
    - exact p_map2.
    - exact p_idle.
    - exact p_own.
    - exact p_los_ty.
    - exact p_loser.
    - exact p_tk.
    - exact p_ca.
    - exact p_done.
    - exact p_rd.
    - exact p_wr.
    - exact p_mutex.
    - exact p_rgwrite.
    - exact p_reg.
    - exact p_regs.
    - exact p_grunlock.
    - exact p_cnew.
    - exact p_priv.
    - exact p_taken.
    - exact p_closing.
    - exact p_stored.
    - exact p_lin.
    - exact p_ret.
  Qed.
End Pres.

Lemma inv_spawn s c : Inv s -> Inv (spawn s c).
Proof.
  intros I. pose proof (iv_idle s I (nthr s) (le_n _)) as Idl.
  constructor; unfold lin_agree, ret_has_lin; unf; simp_state.
  - exact (iv_map1 s I).
  - exact (iv_map2 s I).
  - intros xt L. pose proof (iv_idle s I xt). unfold upd. split_eqb; fin.
  - intros xt xi xb. pose proof (iv_own s I xt xi xb). unfold upd; split_eqb; fin. destruct c; discriminate.
  - intros xt xa xn xi. pose proof (iv_los_ty s I xt xa xn xi). unfold upd; split_eqb; fin. destruct c; discriminate.
  - intros xt xa xn xi xj. pose proof (iv_loser s I xt xa xn xi xj). unfold upd; split_eqb; fin.
    destruct c; intros [?|?]; discriminate.
  - intros xt xi xb. pose proof (iv_tk s I xt xi xb). unfold upd; split_eqb; fin. destruct c; discriminate.
  - intros xt xn xi xk. pose proof (iv_ca s I xt xn xi xk). unfold upd; split_eqb; fin. destruct c; discriminate.
  - intros xt xa xn xi. pose proof (iv_done s I xt xa xn xi). unfold upd; split_eqb; fin. destruct c; discriminate.
  - intros xt. pose proof (iv_rd s I xt). unfold upd; split_eqb; fin. destruct c; discriminate.
  - intros xt. pose proof (iv_wr s I xt). unfold upd; split_eqb; fin. destruct c; discriminate.
  - exact (iv_mutex s I).
  - intros xt xn xr. pose proof (iv_rgwrite s I xt xn xr). unfold upd; split_eqb; fin. destruct c; discriminate.
  - intros xt xr xb. pose proof (iv_reg s I xt xr xb). unfold upd; split_eqb; fin.
    destruct c; cbn; intros E; try discriminate E; injection E as <- <-; split; (reflexivity || discriminate).
  - exact (iv_regs s I).
  - intros xt xwc xa xn xok xr. pose proof (iv_grunlock s I xt xwc xa xn xok xr). unfold upd; split_eqb; fin.
    destruct c; discriminate.
  - intros xt xa xn xr. pose proof (iv_cnew s I xt xa xn xr). unfold upd; split_eqb; fin. destruct c; discriminate.
  - intros xi L P C. destruct (iv_priv s I xi L P C) as [b Hb]. exists b. unfold upd; split_eqb; fin.
    unfold cre in Hb. rewrite e, Idl in Hb. discriminate.
  - intros xi L P C. destruct (iv_taken s I xi L P C) as (t0 & b & Hb). exists t0, b. unfold upd; split_eqb; fin.
    rewrite Idl in Hb. discriminate.
  - intros xi xt L C. pose proof (iv_closing s I xi xt L C) as Hb. unfold upd; split_eqb; fin.
    rewrite Idl in Hb. discriminate.
  - intros xn xi L C. destruct (iv_stored s I xn xi L C) as (t0 & Hb). exists t0. unfold upd; split_eqb; fin.
    rewrite Idl in Hb. destruct Hb.
  - exact (iv_lin s I).
  - exact (iv_ret s I).
Qed.

Lemma inv_init : Inv init.
Proof.
  constructor; unfold lin_agree, ret_has_lin; unf; cbn; try discriminate; try lia; try tauto; intros;
    try discriminate; try lia.
  all: try (destruct post; discriminate).
  destruct H; discriminate.
Qed.

Theorem inv_step s l s' : Inv s -> step s l = Some s' -> Inv s'.
Proof.
  intros I H. destruct l as [c|t ch]; cbn [step] in H.
  - injection H as <-. apply inv_spawn. exact I.
  - eapply inv_thread_step; eauto.
Qed.

Theorem inv_reachable s : reachable s -> Inv s.
Proof. induction 1; [apply inv_init | eapply inv_step; eauto]. Qed.

(* ------------------------------------------------------------------ *)
(** * Two further invariants (proved on top of [Inv])                    *)
(* ------------------------------------------------------------------ *)
Record Inv2 (s : state) : Prop := {
  (* the type-assertion failure branch of createCache is dead code: both callers check the registered type first
     and a registration's factory builds exactly its cacheType *)
  x_nobad : forall t a n i, thr s t <> CCloseBad a n i /\ thr s t <> CCloseBadFin a n i;
  (* an instance that was ever stored was stored by its creator, whose call returned it *)
  x_pubdone : forall i, i < ninst s -> ph s i <> Private -> exists a n, thr s (cre s i) = Done (KGet a n) (ROk i)
}.

Lemma inv2_thread s s' t ch : Inv s -> Inv2 s -> step_thread s t ch (thr s t) = Some s' -> Inv2 s'.
Proof.
  intros I I2 H. constructor.
  - pre I H t; intros xt xa xn xi; pose proof (x_nobad s I2 xt xa xn xi) as M; norm; split_eqb; simp_state; fin;
      try (split; discriminate).
    all: exfalso; destruct Fcnew as [W Tm]; unfold typed_mismatch in Tm; rewrite W in Heqo; rewrite Heqo in Tm;
      cbn in Tm; split_eqb; cbn in Tm; congruence.
  - pre I H t; intros xi L P; pose proof (x_pubdone s I2 xi) as M; norm; split_eqb; simp_state;
      try rewrite Epc in M; fin.
    all: try (destruct M as (ma & mn & Mb); [solve [fin] .. | ]; try discriminate Mb; fin).
    Unshelve. all: exact 0.
Qed.

Lemma inv2_spawn s c : Inv s -> Inv2 s -> Inv2 (spawn s c).
Proof.
  intros I I2. pose proof (iv_idle s I (nthr s) (le_n _)) as Idl. constructor; unf; simp_state.
  - intros xt xa xn xi. pose proof (x_nobad s I2 xt xa xn xi). unfold upd; split_eqb; fin.
    destruct c; split; discriminate.
  - intros xi L P. destruct (x_pubdone s I2 xi L P) as (a & n & Hb). exists a, n. unfold upd; split_eqb; fin.
    unfold cre in Hb. rewrite e, Idl in Hb. discriminate.
Qed.

Lemma inv2_init : Inv2 init.
Proof. constructor; unf; cbn; intros; try lia. split; discriminate. Qed.

Theorem inv2_reachable s : reachable s -> Inv s /\ Inv2 s.
Proof.
  induction 1 as [|s l s' R [I I2] H].
  - split; [apply inv_init | apply inv2_init].
  - split; [eapply inv_step; eauto|].
    destruct l as [c|t ch]; cbn [step] in H.
    + injection H as <-. apply inv2_spawn; assumption.
    + eapply inv2_thread; eauto.
Qed.


(* ================================================================== *)
(** * Theorems                                                           *)
(* ================================================================== *)

(* ------------------------------------------------------------------ *)
(** ** A1 same_instance                                                  *)
(* ------------------------------------------------------------------ *)
(* The map is a function of the name (one instance per name by construction); conversely an instance sits under
   at most one name.  Every successful GetCache/GetCacheWithConfig return [ERet t (ROk i)] is preceded, in the
   same thread, by its linearization event [ELin t n i] (Load hit, or LoadOrStore as winner or loser); at that
   event - and for as long as no removal [EDel n _] of that name follows - the map holds [i] under [n].  Hence any
   two linearization events for [n] that are not separated by a removal of [n] carry the same instance. *)
Theorem A1_same_instance s : reachable s ->
  (forall n m i, lookup n (caches s) = Some i -> lookup m (caches s) = Some i -> n = m) /\
  (forall post pre t i, trace s = post ++ ERet t (ROk i) :: pre -> exists n, In (ELin t n i) pre) /\
  (forall t a n i, thr s t = Done (KGet a n) (ROk i) -> In (ELin t n i) (trace s)) /\
  (forall post pre t n i, trace s = post ++ ELin t n i :: pre ->
      (forall j, ~ In (EDel n j) post) -> lookup n (caches s) = Some i) /\
  (forall post mid pre t1 t2 n i1 i2,
      trace s = post ++ ELin t2 n i2 :: mid ++ ELin t1 n i1 :: pre ->
      (forall j, ~ In (EDel n j) (post ++ ELin t2 n i2 :: mid)) -> i1 = i2).
Proof.
  intros R. pose proof (inv_reachable s R) as I. repeat split.
  - intros n m i A B. apply (iv_map1 s I) in A. apply (iv_map1 s I) in B. destruct A as [_ A], B as [_ B].
    congruence.
  - exact (iv_ret s I).
  - intros t a n i D. apply (iv_done s I) in D. tauto.
  - exact (iv_lin s I).
  - intros post mid pre t1 t2 n i1 i2 E N.
    assert (A : lookup n (caches s) = Some i1).
    { eapply (iv_lin s I) with (post := post ++ ELin t2 n i2 :: mid); [|exact N].
      rewrite E, <- app_assoc. reflexivity. }
    assert (B : lookup n (caches s) = Some i2).
    { eapply (iv_lin s I); [exact E|]. intros j K. apply (N j). apply in_or_app. left. exact K. }
    congruence.
Qed.

(* the step that emits a linearization event leaves that instance in the map *)
Corollary A1_lin_point s l s' t n i :
  reachable s -> step s l = Some s' ->
  (trace s' = ELin t n i :: trace s \/ exists x, trace s' = ERet t x :: ELin t n i :: trace s) ->
  lookup n (caches s') = Some i.
Proof.
  intros R H E. assert (R' : reachable s') by (econstructor; eauto).
  pose proof (iv_lin s' (inv_reachable s' R')) as L. destruct E as [E|[x E]].
  - apply (L [] (trace s) t n i E). intros j [].
  - apply (L [ERet t x] (trace s) t n i E). intros j [K|[]]. discriminate K.
Qed.

(* "live (not closed)": not literally - CloseAll closes an instance before removing its key, so in that window the
   map holds a closing/closed instance and a racing GetCache returns it (see [A1_closed_instance_returned] below;
   such a call linearizes before CloseAll's removal).
   What is true: a stored instance that is not Open has a CloseAll thread in flight that visited THIS instance under
   THIS key and is about to CompareAndDelete it; in particular while no CloseAll is running every stored (hence
   every returned-at-linearization) instance is Open. *)
Theorem A1_live_unless_closeall s n i : reachable s ->
  lookup n (caches s) = Some i -> i_st (insts s i) <> Open ->
  exists t, ca_will_delete (thr s t) n i.
Proof. intros R. exact (iv_stored s (inv_reachable s R) n i). Qed.

Corollary A1_live_without_closeall s n i : reachable s ->
  (forall t, is_ca (thr s t) = false) -> lookup n (caches s) = Some i -> i_st (insts s i) = Open.
Proof.
  intros R N L. destruct (i_st (insts s i)) eqn:E; [reflexivity| |].
  all: destruct (A1_live_unless_closeall s n i R L) as [t W]; [congruence|];
    specialize (N t); destruct (thr s t); cbn in *; try contradiction; discriminate.
Qed.

(* ------------------------------------------------------------------ *)
(** ** A2 losers_closed                                                  *)
(* ------------------------------------------------------------------ *)
(* When the call that created instance i has returned, i was stored in the map by that call (and the call returned
   it) or i is fully closed (closeOnce body finished: its goroutines are released). *)
Theorem A2_losers_closed s i k x : reachable s -> i < ninst s ->
  thr s (i_creator (insts s i)) = Done k x ->
  (i_phase (insts s i) <> Private /\ exists a n, k = KGet a n /\ x = ROk i) \/ i_st (insts s i) = Closed.
Proof.
  intros R L D. destruct (inv2_reachable s R) as [I I2].
  destruct (i_phase (insts s i)) eqn:P.
  - destruct (i_st (insts s i)) eqn:C; [| |right; reflexivity].
    all: destruct (iv_priv s I i L P) as [b Hb]; [unfold stt; congruence|];
      unfold cre in Hb; rewrite D in Hb; discriminate.
  - left. split; [discriminate|]. destruct (x_pubdone s I2 i L) as (a & n0 & Hb); [unfold ph; congruence|].
    unfold cre in Hb. rewrite D in Hb. injection Hb as -> ->. eauto.
  - left. split; [discriminate|]. destruct (x_pubdone s I2 i L) as (a & n0 & Hb); [unfold ph; congruence|].
    unfold cre in Hb. rewrite D in Hb. injection Hb as -> ->. eauto.
Qed.

(* instances closed by createCache (losers, wrongly typed) were never stored: nobody else ever sees them; no call
   returns such an instance, and every returned instance was stored *)
Theorem A2_returned_was_stored s t a n i : reachable s ->
  thr s t = Done (KGet a n) (ROk i) -> i < ninst s /\ i_phase (insts s i) <> Private.
Proof. intros R D. apply (iv_done s (inv_reachable s R)) in D. destruct D as [D _]. exact D. Qed.

Theorem A2_private_only_creator s i : reachable s -> i < ninst s -> i_phase (insts s i) = Private ->
  (forall n, lookup n (caches s) <> Some i) /\
  (forall t a n, thr s t <> Done (KGet a n) (ROk i)) /\
  (i_st (insts s i) <> Closed -> exists b, own_of (thr s (i_creator (insts s i))) = Some (i, b)).
Proof.
  intros R L P. pose proof (inv_reachable s R) as I. repeat split.
  - intros n K. apply (iv_map1 s I) in K. unfold ph in K. destruct K; congruence.
  - intros t a n K. apply (iv_done s I) in K. unfold pub, ph in K. destruct K as [[_ K] _]. congruence.
  - intros C. exact (iv_priv s I i L P C).
Qed.

(* Goroutine-leak characterisation.  An instance whose Close has not completed is, at every moment,
     - in the map, or
     - private to its creator, which is at a program point of createCache that stores it or closes it, or
     - held by a Remove call that took it out of the map and is about to close it.
   (CloseAll only removes, by CompareAndDelete, the very instance it has already closed.) *)
Theorem A2_open_instance_is_owned s i : reachable s -> i < ninst s -> i_st (insts s i) <> Closed ->
  (exists n, lookup n (caches s) = Some i) \/
  (i_phase (insts s i) = Private /\ exists b, own_of (thr s (i_creator (insts s i))) = Some (i, b)) \/
  (i_phase (insts s i) = Taken /\ exists t b, taken_of (thr s t) = Some (i, b)).
Proof.
  intros R L C. pose proof (inv_reachable s R) as I. destruct (i_phase (insts s i)) eqn:P.
  - right; left. split; [reflexivity|]. exact (iv_priv s I i L P C).
  - left. exists n. exact (iv_map2 s I n i L P).
  - right; right. split; [reflexivity|]. exact (iv_taken s I i L P C).
Qed.

(* A2 in full: CloseAll, Remove and any number of creators in any interleaving - in every reachable state in which
   all calls have returned, every instance ever created is in the map or fully closed: no goroutine leaks. *)
Theorem A2_no_leak s : reachable s ->
  (forall t, thr s t = Idle \/ exists k x, thr s t = Done k x) ->
  forall i, i < ninst s -> (exists n, lookup n (caches s) = Some i) \/ i_st (insts s i) = Closed.
Proof.
  intros R Q i L. destruct (i_st (insts s i)) eqn:C; [| |right; reflexivity].
  all: destruct (A2_open_instance_is_owned s i R L) as [K|[[_ [b K]]|[_ (t & b & K)]]]; [congruence|left; exact K| |].
  all: try (destruct (Q (i_creator (insts s i))) as [Z|(k & x & Z)]; rewrite Z in K; discriminate).
  all: destruct (Q t) as [Z|(k & x & Z)]; rewrite Z in K; discriminate.
Qed.

(* ------------------------------------------------------------------ *)
(** ** Monotonicity facts used below                                     *)
(* ------------------------------------------------------------------ *)
Lemma step_monotone s l s' i : reachable s -> step s l = Some s' -> i < ninst s ->
  ninst s <= ninst s' /\
  i_ty (insts s' i) = i_ty (insts s i) /\
  (i_st (insts s i) = Closed -> i_st (insts s' i) = Closed) /\
  (i_phase (insts s i) <> Private -> i_phase (insts s' i) <> Private) /\
  (i_phase (insts s i) = Taken -> i_phase (insts s' i) = Taken).
Proof.
  intros R H L. pose proof (inv_reachable s R) as I. destruct l as [c|t ch]; cbn [step] in H.
  - injection H as <-. simp_state. repeat split; auto.
  - pre I H t; norm; split_eqb; simp_state; repeat split; fin.
Qed.

(* ------------------------------------------------------------------ *)
(** ** A3 type_mismatch                                                  *)
(* ------------------------------------------------------------------ *)
(* type safety: whatever the interleaving, a successful GetCache[a]/GetCacheWithConfig[a] returns an instance of
   type a *)
Theorem A3_type_safety s t a n i : reachable s -> thr s t = Done (KGet a n) (ROk i) -> i_ty (insts s i) = a.
Proof. intros R D. apply (iv_done s (inv_reachable s R)) in D. tauto. Qed.

(* a call that returned anything but instance i has fully closed every instance i it created *)
Theorem A3_failed_call_closed_what_it_created s t a n x i : reachable s ->
  thr s t = Done (KGet a n) x -> i < ninst s -> i_creator (insts s i) = t -> x <> ROk i ->
  i_st (insts s i) = Closed.
Proof.
  intros R D L C N. subst t. destruct (A2_losers_closed s i _ _ R L D) as [(_ & a' & n' & _ & E)|E]; [congruence|exact E].
Qed.

(* the live instance has another type: ErrTypeMismatch at once, nothing created or changed *)
Theorem A3_mismatch_live_instance s t ch wc a n ok i :
  thr s t = GLoad wc a n ok -> lookup n (caches s) = Some i -> i_ty (insts s i) <> a ->
  exists s', step s (LStep t ch) = Some s' /\ thr s' t = Done (KGet a n) EMismatch /\
             caches s' = caches s /\ regs s' = regs s /\ insts s' = insts s /\ ninst s' = ninst s.
Proof.
  intros P L N. cbn [step]. rewrite P. cbn [step_thread]. rewrite L. eexists; split; [reflexivity|].
  simp_state. rewrite upd_eq. unfold assert_res. destruct (Nat.eqb_spec (i_ty (insts s i)) a); [contradiction|].
  repeat split; reflexivity.
Qed.

(* no live instance was seen and the registration read under the lock is typed differently: ErrTypeMismatch,
   nothing created (both for GetCache and for GetCacheWithConfig) *)
Theorem A3_mismatch_typed_registration s t ch wc a n ok rg :
  thr s t = GRUnlock wc a n ok (Some rg) -> typed_mismatch rg a = true ->
  exists s', step s (LStep t ch) = Some s' /\ thr s' t = Done (KGet a n) EMismatch /\
             caches s' = caches s /\ regs s' = regs s /\ insts s' = insts s /\ ninst s' = ninst s.
Proof.
  intros P M. cbn [step]. rewrite P. cbn [step_thread]. rewrite M.
  destruct wc; (eexists; split; [reflexivity|]); simp_state; rewrite upd_eq; repeat split; reflexivity.
Qed.

(* the branch of createCache that closes a wrongly typed new instance is unreachable (dead code): the callers
   check a typed registration first and a registration's factory builds its own cacheType *)
Theorem A3_createCache_assertion_never_fails s t a n i : reachable s ->
  thr s t <> CCloseBad a n i /\ thr s t <> CCloseBadFin a n i.
Proof. intros R. destruct (inv2_reachable s R) as [_ I2]. apply (x_nobad s I2). Qed.

(* ------------------------------------------------------------------ *)
(** ** Symbolic execution of one thread running alone                    *)
(* ------------------------------------------------------------------ *)
Ltac sx1 := cbn [exec step steps repeat]; simp_state; rewrite ?upd_eq; cbn [step_thread]; simp_state.
Ltac sx := repeat (progress sx1).

(* ------------------------------------------------------------------ *)
(** ** A4 unregistered                                                   *)
(* ------------------------------------------------------------------ *)
(* what GetCache does is determined by its two observations: Load missed, registration absent -> ErrCacheNotRegistered *)
Theorem A4_unregistered_step s t ch a n ok :
  thr s t = GRUnlock false a n ok None ->
  exists s', step s (LStep t ch) = Some s' /\ thr s' t = Done (KGet a n) ENotReg /\
             caches s' = caches s /\ regs s' = regs s /\ insts s' = insts s /\ ninst s' = ninst s.
Proof.
  intros P. cbn [step]. rewrite P. cbn [step_thread]. eexists; split; [reflexivity|].
  simp_state. rewrite upd_eq. repeat split; reflexivity.
Qed.

(* run without interference on a name with neither instance nor registration *)
Theorem A4_unregistered s t a n ok :
  thr s t = GLoad false a n ok -> lookup n (caches s) = None -> regs s n = None -> rw_w (mu s) = None ->
  exists s', exec s (steps t 4) = Some s' /\ thr s' t = Done (KGet a n) ENotReg /\
             caches s' = caches s /\ regs s' = regs s /\ insts s' = insts s /\ ninst s' = ninst s.
Proof.
  intros P L Rg W. sx. rewrite P. sx. rewrite L. sx. rewrite W. sx. rewrite Rg. sx.
  eexists; split; [reflexivity|]. sx. repeat split; reflexivity.
Qed.

(* ------------------------------------------------------------------ *)
(** ** A5 register_never_replaces                                        *)
(* ------------------------------------------------------------------ *)
(* a registration, once present, is never changed by anybody; it can only disappear through Remove's delete *)
Theorem A5_register_never_replaces s l s' n r : reachable s -> step s l = Some s' -> regs s n = Some r ->
  regs s' n = Some r \/ (regs s' n = None /\ exists t ch, l = LStep t ch /\ thr s t = RmDel n).
Proof.
  intros R H E. pose proof (inv_reachable s R) as I. destruct l as [c|t ch]; cbn [step] in H.
  - injection H as <-. left. exact E.
  - pose proof (iv_rgwrite s I t) as W.
    pre I H t; norm; split_eqb; simp_state; try (left; assumption).
    + exfalso. specialize (W _ _ eq_refl). congruence.
    + right. split; [reflexivity|]. eauto.
Qed.

(* the write of register happens only when the name is unregistered (the check and the write are one critical
   section of configMu) *)
Theorem A5_write_only_when_absent s t n r : reachable s -> thr s t = RgWrite n r -> regs s n = None.
Proof. intros R. apply (iv_rgwrite s (inv_reachable s R)). Qed.

Theorem A5_mutual_exclusion s : reachable s ->
  (forall t, holds_w (thr s t) = true -> rw_w (mu s) = Some t) /\
  (forall t, holds_r (thr s t) = true -> In t (rw_r (mu s))) /\
  (rw_w (mu s) <> None -> rw_r (mu s) = []).
Proof. intros R. pose proof (inv_reachable s R) as I. repeat split; [apply (iv_wr s I)|apply (iv_rd s I)|apply (iv_mutex s I)]. Qed.

(* Register / RegisterCache on a registered name, run without interference: ErrCacheExists, nothing changes *)
Theorem A5_register_existing s t n rg r0 :
  thr s t = RgStart n rg -> r_ok rg = true -> regs s n = Some r0 -> mu s = mkRw None [] ->
  exists s', exec s (steps t 4) = Some s' /\ thr s' t = Done (KReg n) EExists /\
             caches s' = caches s /\ regs s' = regs s /\ insts s' = insts s /\ mu s' = mu s.
Proof.
  intros P Ok Rg M. sx. rewrite P. sx. rewrite Ok. sx. rewrite M. sx. rewrite Rg. sx.
  eexists; split; [reflexivity|]. sx. repeat split; reflexivity.
Qed.

(* ... and on an unregistered name it registers exactly its own registration *)
Theorem A5_register_fresh s t n rg :
  thr s t = RgStart n rg -> r_ok rg = true -> regs s n = None -> mu s = mkRw None [] ->
  exists s', exec s (steps t 5) = Some s' /\ thr s' t = Done (KReg n) RNil /\
             regs s' n = Some rg /\ (forall m, m <> n -> regs s' m = regs s m) /\
             caches s' = caches s /\ mu s' = mu s.
Proof.
  intros P Ok Rg M. sx. rewrite P. sx. rewrite Ok. sx. rewrite M. sx. rewrite Rg. sx. sx.
  eexists; split; [reflexivity|]. sx. repeat split; try reflexivity.
  intros m D. apply upd_neq. exact D.
Qed.

(* an invalid configuration is rejected before anything is touched *)
Theorem A5_register_invalid s t ch n rg :
  thr s t = RgStart n rg -> r_ok rg = false ->
  exists s', step s (LStep t ch) = Some s' /\ thr s' t = Done (KReg n) EInvalid /\
             caches s' = caches s /\ regs s' = regs s /\ mu s' = mu s.
Proof.
  intros P Ok. cbn [step]. rewrite P. cbn [step_thread]. rewrite Ok. eexists; split; [reflexivity|].
  simp_state. rewrite upd_eq. repeat split; reflexivity.
Qed.

Lemma step_thr_other s t0 ch s' t : step_thread s t0 ch (thr s t0) = Some s' -> t <> t0 -> thr s' t = thr s t.
Proof. intros H N. inv_thread H; simp_state; rewrite upd_neq by exact N; reflexivity. Qed.

(* ------------------------------------------------------------------ *)
(** ** A6 remove                                                         *)
(* ------------------------------------------------------------------ *)
Theorem A6_remove_deletes_registration s t ch n :
  thr s t = RmDel n ->
  exists s', step s (LStep t ch) = Some s' /\ regs s' n = None /\ (forall m, m <> n -> regs s' m = regs s m) /\
             caches s' = caches s /\ insts s' = insts s.
Proof.
  intros P. cbn [step]. rewrite P. cbn [step_thread]. eexists; split; [reflexivity|]. simp_state.
  repeat split; [apply upd_eq|intros m D; apply upd_neq; exact D].
Qed.

Theorem A6_remove_takes_instance s t ch n :
  thr s t = RmLAD n ->
  exists s', step s (LStep t ch) = Some s' /\ lookup n (caches s') = None /\
             (forall m, m <> n -> lookup m (caches s') = lookup m (caches s)) /\ regs s' = regs s /\
             match lookup n (caches s) with
             | Some i => thr s' t = RmClose n i /\ i_phase (insts s' i) = Taken /\ trace s' = EDel n i :: trace s
             | None => thr s' t = Done (KRm n) RNil
             end.
Proof.
  intros P. cbn [step]. rewrite P. cbn [step_thread]. destruct (lookup n (caches s)) as [i|] eqn:L.
  - eexists; split; [reflexivity|]. simp_state. rewrite !upd_eq. cbn. rewrite lookup_del, Nat.eqb_refl.
    repeat split; try reflexivity. intros m D. rewrite lookup_del. destruct (Nat.eqb_spec m n); [contradiction|reflexivity].
  - eexists; split; [reflexivity|]. simp_state. rewrite upd_eq. repeat split; auto.
Qed.

(* when Remove returns, the instance it took out of the map is fully closed *)
Theorem A6_remove_returns_closed s l s' t n i : reachable s ->
  (thr s t = RmClose n i \/ thr s t = RmCloseFin n i) -> step s l = Some s' -> thr s' t = Done (KRm n) RNil ->
  i_st (insts s' i) = Closed.
Proof.
  intros R P H D. pose proof (inv_reachable s R) as I. destruct l as [c|t0 ch]; cbn [step] in H.
  - injection H as <-. simp_state. unfold upd in D. destruct (Nat.eqb_spec t (nthr s)) as [->|N].
    + rewrite (iv_idle s I (nthr s) (le_n _)) in P. destruct P; discriminate.
    + destruct P as [P|P]; rewrite P in D; discriminate.
  - destruct (Nat.eq_dec t t0) as [->|N].
    + destruct P as [P|P]; rewrite P in H; cbn [step_thread] in H; unfold close_begin in H.
      * destruct (i_st (insts s i)) eqn:E; try discriminate H; injection H as <-; simp_state;
          rewrite upd_eq in D; try discriminate D. exact E.
      * injection H as <-. simp_state. rewrite upd_eq. reflexivity.
    + rewrite (step_thr_other _ _ _ _ _ H N) in D. destruct P as [P|P]; rewrite P in D; discriminate.
Qed.

(* ... and forgotten for ever: a Taken instance never re-enters the map *)
Theorem A6_forgotten s i : reachable s -> i < ninst s -> i_phase (insts s i) = Taken ->
  forall ls s', exec s ls = Some s' -> forall n, lookup n (caches s') <> Some i.
Proof.
  intros R L P ls. revert s R L P. induction ls as [|l ls IH]; cbn [exec]; intros s R L P s' E n K.
  - injection E as <-. apply (iv_map1 s (inv_reachable s R)) in K. unfold ph in K. destruct K as [_ K].
    congruence.
  - destruct (step s l) as [s1|] eqn:S1; [|discriminate].
    destruct (step_monotone s l s1 i R S1 L) as (Le & _ & _ & _ & T).
    eapply (IH s1); [econstructor; eauto|lia|auto|exact E|exact K].
Qed.

(* Remove running without interference on a name with an open instance *)
Theorem A6_remove_alone s t n i :
  thr s t = RmLock n -> mu s = mkRw None [] -> lookup n (caches s) = Some i -> i_st (insts s i) = Open ->
  exists s', exec s (steps t 6) = Some s' /\ thr s' t = Done (KRm n) RNil /\
             regs s' n = None /\ lookup n (caches s') = None /\
             i_st (insts s' i) = Closed /\ i_phase (insts s' i) = Taken.
Proof.
  intros P M L O. sx. rewrite P. sx. rewrite M. sx. rewrite L. sx. unfold close_begin. sx. cbn [with_phase i_st].
  rewrite O. sx.
  eexists; split; [reflexivity|]. sx. rewrite ?upd_eq. cbn. rewrite lookup_del, Nat.eqb_refl. repeat split; reflexivity.
Qed.

(* ------------------------------------------------------------------ *)
(** ** A7 closeall_keeps_registrations                                   *)
(* ------------------------------------------------------------------ *)
Theorem A7_closeall_keeps_registrations s t ch s' :
  is_ca (thr s t) = true -> step s (LStep t ch) = Some s' -> regs s' = regs s /\ mu s' = mu s.
Proof.
  intros C H. cbn [step] in H. inv_thread H; try discriminate C; simp_state; split; reflexivity.
Qed.

(* Range visits a key with the value the map holds for it at that moment *)
Theorem A7_visits_present s t ch s' todo vis todo' vis' n i :
  thr s t = CARange todo vis -> step s (LStep t ch) = Some s' -> thr s' t = CAClose todo' vis' n i ->
  ch = S n /\ lookup n (caches s) = Some i /\ mem n vis = false.
Proof.
  intros P H D. cbn [step] in H. rewrite P in H. cbn [step_thread] in H.
  destruct ch as [|m]; [destruct todo; [|discriminate]; injection H as <-; simp_state; rewrite upd_eq in D; discriminate|].
  destruct (mem m vis) eqn:Mv; [discriminate|]. destruct (lookup m (caches s)) as [j|] eqn:L.
  - injection H as <-. simp_state. rewrite upd_eq in D. injection D as _ _ <- <-. auto.
  - destruct (mem m todo); [|discriminate]. injection H as <-. simp_state. rewrite upd_eq in D. discriminate.
Qed.

(* every visited instance is fully closed before CloseAll deletes its key *)
Theorem A7_closes_before_delete s t todo vis n i : reachable s ->
  thr s t = CADelete todo vis n i -> i_st (insts s i) = Closed.
Proof.
  intros R P. destruct (iv_ca s (inv_reachable s R) t n i 2) as (_ & _ & C & _); [rewrite P; reflexivity|].
  apply C. reflexivity.
Qed.

(* CloseAll's CompareAndDelete(key, value): the key is removed only if it still maps to the instance this
   CloseAll visited (and has closed); otherwise nothing changes at all *)
Theorem A7_delete_is_conditional s t ch todo vis n i :
  thr s t = CADelete todo vis n i ->
  exists s', step s (LStep t ch) = Some s' /\ thr s' t = CARange todo vis /\ regs s' = regs s /\
    (lookup n (caches s) = Some i ->
       lookup n (caches s') = None /\ i_phase (insts s' i) = Taken /\ trace s' = EDel n i :: trace s /\
       (forall m, m <> n -> lookup m (caches s') = lookup m (caches s))) /\
    (lookup n (caches s) <> Some i ->
       caches s' = caches s /\ insts s' = insts s /\ trace s' = trace s).
Proof.
  intros P. cbn [step]. rewrite P. cbn [step_thread]. destruct (lookup n (caches s)) as [j|] eqn:L.
  - destruct (Nat.eqb_spec j i) as [->|N].
    + eexists; split; [reflexivity|]. simp_state. rewrite !upd_eq. rewrite lookup_del, Nat.eqb_refl.
      repeat split; try reflexivity; try congruence.
      intros m D. rewrite lookup_del. destruct (Nat.eqb_spec m n); [contradiction|reflexivity].
    + eexists; split; [reflexivity|]. simp_state. rewrite upd_eq. repeat split; try reflexivity; congruence.
  - eexists; split; [reflexivity|]. simp_state. rewrite upd_eq. repeat split; try reflexivity; congruence.
Qed.

(* CloseAll returns only when every key that was present at its start has been visited or seen absent *)
Theorem A7_returns_when_all_seen s t ch s' todo vis :
  thr s t = CARange todo vis -> step s (LStep t ch) = Some s' -> thr s' t = Done KCA RNil -> todo = [].
Proof.
  intros P H D. cbn [step] in H. rewrite P in H. cbn [step_thread] in H.
  destruct ch as [|m]; [destruct todo; [reflexivity|discriminate]|].
  destruct (mem m vis); [discriminate|]. destruct (lookup m (caches s)).
  - injection H as <-. simp_state. rewrite upd_eq in D. discriminate.
  - destruct (mem m todo); [|discriminate]. injection H as <-. simp_state. rewrite upd_eq in D. discriminate.
Qed.

(* ... so a later GetCache (here: run without interference) re-creates the cache from the registration *)
Theorem A7_recreate_from_registration s t a n rg :
  thr s t = GLoad false a n true -> lookup n (caches s) = None -> regs s n = Some rg ->
  r_ok rg = true -> r_fac rg = r_ty rg -> typed_mismatch rg a = false -> rw_w (mu s) = None ->
  exists s', exec s (steps t 6) = Some s' /\ thr s' t = Done (KGet a n) (ROk (ninst s)) /\
             lookup n (caches s') = Some (ninst s) /\ i_st (insts s' (ninst s)) = Open /\
             i_ty (insts s' (ninst s)) = a /\ regs s' = regs s.
Proof.
  intros P L Rg Ok Fac Tm W. destruct rg as [ok rt rf]. cbn in Ok, Fac, Tm. subst ok rf.
  unfold typed_mismatch in Tm. cbn in Tm.
  assert (E : match rt with Some t' => t' | None => a end = a).
  { destruct rt as [t'|]; [|reflexivity]. destruct (Nat.eqb_spec t' a); [assumption|discriminate]. }
  sx. rewrite P. sx. rewrite L. sx. rewrite W. sx. rewrite Rg. sx. unfold typed_mismatch. cbn [r_ty]. rewrite Tm. sx.
  cbn [r_ok r_fac]. rewrite E, Nat.eqb_refl. sx. rewrite L. sx.
  eexists; split; [reflexivity|]. sx. rewrite ?upd_eq. cbn. rewrite ?Nat.eqb_refl.
  repeat split; reflexivity.
Qed.

(* ================================================================== *)
(** * Concrete schedules (vm_compute)                                    *)
(* ================================================================== *)
Definition obs (s : state) (nt ni : nat) :=
  (caches s, map (result_of s) (seq 0 nt), map (st_of s) (seq 0 ni), map (phase_of s) (seq 0 ni)).

(** ** A8: three concurrent GetCacheWithConfig on one name - threads 0,1 of type 1, thread 2 of type 2.
    All three miss the Load, read the (absent) registration, and build an instance (0,1,2).  Thread 0 wins
    LoadOrStore; thread 1 loses, closes its instance 1 and returns instance 0; thread 2 loses, closes its
    instance 2 and fails the type assertion against the winner. *)
Definition sched_A8 : list label :=
  [LSpawn (CGetCfg 1 0 true); LSpawn (CGetCfg 1 0 true); LSpawn (CGetCfg 2 0 true)]
  ++ steps 0 5 ++ steps 1 5 ++ steps 2 5      (* Load miss, RLock, read, RUnlock, New *)
  ++ steps 0 1                                (* LoadOrStore: stored *)
  ++ steps 1 3 ++ steps 2 3.                  (* LoadOrStore: loaded; Close (2 steps); assertCache *)

Example A8_three_callers :
  option_map (fun s => obs s 3 3) (exec init sched_A8) =
  Some ([(0, 0)],
        [Some (ROk 0); Some (ROk 0); Some EMismatch],
        [Open; Closed; Closed],
        [Stored 0; Private; Private]).
Proof. vm_compute. reflexivity. Qed.

(** ** A7: Register; GetCache -> instance 0; CloseAll closes and forgets it, keeps the registration; GetCache
    re-creates instance 1 from the registration. *)
Definition sched_A7 : list label :=
  [LSpawn (CReg 7 true)] ++ steps 0 5
  ++ [LSpawn (CGet 3 7)] ++ steps 1 6
  ++ [LSpawn CCloseAll; LStep 2 0; LStep 2 8 (* visit key 7 *)] ++ steps 2 4 (* close x2, delete, end *)
  ++ [LSpawn (CGet 3 7)] ++ steps 3 6.

Example A7_closeall_then_recreate :
  option_map (fun s => (obs s 4 2, match regs s 7 with Some _ => true | None => false end)) (exec init sched_A7) =
  Some (([(7, 1)],
         [Some RNil; Some (ROk 0); Some RNil; Some (ROk 1)],
         [Closed; Open],
         [Taken; Stored 7]), true).
Proof. vm_compute. reflexivity. Qed.

(** ** A1 "live" does not hold literally: CloseAll closes an instance BEFORE it removes the key (Close, then
    CompareAndDelete), so in that window the map still holds the instance and a racing GetCache returns it.
    Such a call linearizes (at its Load / LoadOrStore, event ELin) BEFORE CloseAll's removal of that instance
    (event EDel): it is equivalent to a GetCache that completed just before CloseAll and whose result CloseAll then
    closed.  By [A1_live_unless_closeall] this is the only way to obtain a non-Open instance at the linearization
    point: a CloseAll that visited exactly this instance is about to CompareAndDelete it.
    Thread 0 creates instance 0; CloseAll (thread 1) visits it and closes it; before CloseAll removes the key,
    thread 2's GetCacheWithConfig loads instance 0 and returns it successfully although it is Closed. *)
Definition sched_closed_returned : list label :=
  [LSpawn (CGetCfg 1 0 true)] ++ steps 0 6
  ++ [LSpawn CCloseAll; LStep 1 0; LStep 1 1] ++ steps 1 2     (* visit key 0; Close completed *)
  ++ [LSpawn (CGetCfg 1 0 true); LStep 2 0].                    (* Load hit on the closed instance *)

Example A1_closed_instance_returned :
  option_map (fun s => (result_of s 2, st_of s 0, caches s)) (exec init sched_closed_returned) =
  Some (Some (ROk 0), Closed, [(0, 0)]).
Proof. vm_compute. reflexivity. Qed.

(** ** The former leak schedule (it leaked with CloseAll's old unconditional Delete(key)), on the NEW model.
    Thread 0 creates instance 0 under key 0.  Two CloseAll calls (threads 1,2) both visit (key 0, instance 0).
    Thread 1 closes instance 0 and removes it.  Thread 3's GetCacheWithConfig then creates instance 1 and stores it
    under key 0.  Thread 2 finds instance 0 already closed and executes CompareAndDelete(key 0, instance 0), which
    fails because key 0 now maps to instance 1: nothing is removed.  All calls have returned; instance 1 is Open
    AND still in the map (so a later CloseAll/Remove closes it): no leak, as [A2_no_leak] proves in general. *)
Definition sched_leak : list label :=
  [LSpawn (CGetCfg 1 0 true)] ++ steps 0 6
  ++ [LSpawn CCloseAll; LSpawn CCloseAll; LStep 1 0; LStep 2 0; LStep 1 1; LStep 2 1]  (* both visit (0, inst 0) *)
  ++ steps 1 3                                 (* thread 1: Close (2 steps), CompareAndDelete(0, inst 0) succeeds *)
  ++ [LSpawn (CGetCfg 1 0 true)] ++ steps 3 6  (* thread 3 creates and stores instance 1 *)
  ++ steps 2 2                                 (* thread 2: Close is a no-op, CompareAndDelete(0, inst 0) fails *)
  ++ steps 1 1 ++ steps 2 1.                   (* both Range loops end *)

Example A2_former_leak_schedule_no_longer_leaks :
  option_map (fun s => obs s 4 2) (exec init sched_leak) =
  Some ([(0, 1)],
        [Some (ROk 0); Some RNil; Some RNil; Some (ROk 1)],
        [Closed; Open],
        [Taken; Stored 0]).
Proof. vm_compute. reflexivity. Qed.
