(* EstimatorModel.v — keyhash.Avalanche, doorkeeper, count-min sketch (sketch.go) and the
   incrementFrequency / tickObservation / estimate glue of sieve.go, over 64-bit words in N.
   The uint64 wrap is written explicitly (w64). *)
Require Import KV.Base KV.Gen.Consts.
Open Scope N_scope.

Definition w64 (n : N) : N := n mod 18446744073709551616.

Definition prime64_2 : N := 14029467366897019727.   (* 0xC2B2AE3D27D4EB4F *)
Definition prime64_3 : N := 1609587929392839161.    (* 0x165667B19E3779F9 *)

Definition avalanche (h0 : N) : N :=
  let h1 := N.lxor h0 (N.shiftr h0 33) in
  let h2 := w64 (h1 * prime64_2) in
  let h3 := N.lxor h2 (N.shiftr h2 29) in
  let h4 := w64 (h3 * prime64_3) in
  N.lxor h4 (N.shiftr h4 32).

(* ---- word arrays ---- *)
Definition getw (l : list N) (i : N) : N := nth (N.to_nat i) l 0.

Fixpoint setw_nat (l : list N) (i : nat) (v : N) : list N :=
  match l, i with
  | [], _ => []
  | _ :: r, O => v :: r
  | x :: r, S j => x :: setw_nat r j v
  end.
Definition setw (l : list N) (i v : N) : list N := setw_nat l (N.to_nat i) v.

(* ---- doorkeeper: 2-hash Bloom filter over a bit array of 64-bit words ---- *)
Record door := { dbits : list N; dmask : N }.

Definition door_idx (d : door) (av : N) : N * N :=
  (N.land av (dmask d), N.land (N.shiftr av 32) (dmask d)).
Definition door_has (d : door) (i : N) : bool := N.testbit (getw (dbits d) (i / 64)) (i mod 64).
Definition door_set (d : door) (i : N) : door :=
  {| dbits := setw (dbits d) (i / 64) (N.lor (getw (dbits d) (i / 64)) (N.shiftl 1 (i mod 64)));
     dmask := dmask d |}.
Definition door_contains (d : door) (av : N) : bool :=
  match dbits d with [] => false | _ => let '(i, j) := door_idx d av in door_has d i && door_has d j end.
(* add: returns (already present?, new filter) *)
Definition door_add (d : door) (av : N) : bool * door :=
  match dbits d with
  | [] => (true, d)
  | _ => let '(i, j) := door_idx d av in
         (door_has d i && door_has d j, door_set (door_set d i) j)
  end.
Definition door_clear (d : door) : door := {| dbits := map (fun _ => 0) (dbits d); dmask := dmask d |}.

(* ---- count-min sketch: 4-bit counters packed 16 per word, blocks of 8 words ---- *)
Record sketch := { counters : list N; blockMask : N; samples : N; resetAt : N }.

Definition agingMask : N := 8608480567731124087.   (* 0x7777777777777777 *)

Definition sk_indexes (s : sketch) (av : N) : list N :=
  let base := N.land av (blockMask s) * 128 in
  [ base + N.land (N.shiftr av 21) 127; base + N.land (N.shiftr av 28) 127;
    base + N.land (N.shiftr av 35) 127; base + N.land (N.shiftr av 42) 127 ].

Definition nib (w sh : N) : N := N.land (N.shiftr w sh) 15.
Definition sk_counter (cs : list N) (i : N) : N := nib (getw cs (i / 16)) ((i mod 16) * 4).
Definition sk_incr (cs : list N) (i : N) : list N :=
  let wi := i / 16 in let sh := (i mod 16) * 4 in
  if nib (getw cs wi) sh <? 15 then setw cs wi (w64 (getw cs wi + N.shiftl 1 sh)) else cs.

Fixpoint min_counter (cs : list N) (idx : list N) : N :=
  match idx with
  | [] => 15
  | [i] => sk_counter cs i
  | i :: r => N.min (sk_counter cs i) (min_counter cs r)
  end.

Definition sk_estimate (s : sketch) (av : N) : N :=
  match counters s with [] => 0 | _ => min_counter (counters s) (sk_indexes s av) end.

Definition sk_add (s : sketch) (av : N) : sketch :=
  match counters s with
  | [] => s
  | _ => let idx := sk_indexes s av in
         if min_counter (counters s) idx <? 15
         then {| counters := fold_left sk_incr idx (counters s); blockMask := blockMask s;
                 samples := samples s; resetAt := resetAt s |}
         else s
  end.

Definition sk_age (s : sketch) : sketch :=
  {| counters := map (fun w => N.land (N.shiftr w 1) agingMask) (counters s);
     blockMask := blockMask s; samples := 0; resetAt := resetAt s |}.
Definition sk_clear (s : sketch) : sketch :=
  {| counters := map (fun _ => 0) (counters s); blockMask := blockMask s; samples := 0; resetAt := resetAt s |}.

(* ---- the estimator: doorkeeper + sketch with the aging trigger ---- *)
Record estimator := { sk : sketch; dr : door }.

(* tickObservation: returns the new state and whether an aging event happened *)
Definition tick_obs (e : estimator) : estimator * bool :=
  let s1 := {| counters := counters (sk e); blockMask := blockMask (sk e);
               samples := w64 (samples (sk e) + 1); resetAt := resetAt (sk e) |} in
  if (0 <? resetAt s1) && (resetAt s1 <=? samples s1)
  then ({| sk := sk_age s1; dr := door_clear (dr e) |}, true)
  else ({| sk := s1; dr := dr e |}, false).

Definition record_av (e : estimator) (av : N) : estimator * bool :=
  let '(seen, d1) := door_add (dr e) av in
  let s1 := if seen then sk_add (sk e) av else sk e in
  tick_obs {| sk := s1; dr := d1 |}.

Definition increment_frequency (e : estimator) (h : N) : estimator * bool := record_av e (avalanche h).

Definition estimate_av (e : estimator) (av : N) : N :=
  let x := sk_estimate (sk e) av in
  if door_contains (dr e) av && (x <? 15) then x + 1 else x.
Definition estimate (e : estimator) (h : N) : N := estimate_av e (avalanche h).

(* construction, sizes as in newCountMinSketch / newDoorkeeper for n samples (already rounded
   by ConfigModel: words = sketch_words, dwords = door_words) *)
Definition new_estimator (words dwords : N) : estimator :=
  {| sk := {| counters := repeat 0 (N.to_nat words); blockMask := words / 8 - 1; samples := 0;
              resetAt := words * 16 * 10 |};
     dr := {| dbits := repeat 0 (N.to_nat dwords); dmask := dwords * 64 - 1 |} |}.

Definition est_clear (e : estimator) : estimator := {| sk := sk_clear (sk e); dr := door_clear (dr e) |}.

(* ---- stream "est": ops 1 h = record, 2 = tick, 3 h = estimate (plus parts), 4 = clear, 5 h = avalanche *)
Open Scope Z_scope.
Fixpoint tick_n (k : nat) (e : estimator) (aged : Z) : estimator * Z :=
  match k with
  | O => (e, aged)
  | S k' => let '(e1, a) := tick_obs e in tick_n k' e1 (aged + b2z a)
  end.

Definition est_step (e : estimator) (op : list Z) : estimator * list Z :=
  match op with
  | [1; h] => let '(e1, aged) := increment_frequency e (Z.to_N h) in
              (e1, [b2z aged; Z.of_N (samples (sk e1))])
  | [2] => let '(e1, aged) := tick_obs e in (e1, [b2z aged; Z.of_N (samples (sk e1))])
  | [3; h] => let av := avalanche (Z.to_N h) in
              (e, [Z.of_N (estimate e (Z.to_N h)); Z.of_N (sk_estimate (sk e) av); b2z (door_contains (dr e) av)])
  | [4] => (est_clear e, [])
  | [6; k] => let '(e1, n) := tick_n (Z.to_nat k) e 0 in (e1, [n; Z.of_N (samples (sk e1))])
  | [5; h] => (e, [Z.of_N (avalanche (Z.to_N h))])
  | _ => (e, [-1])
  end.

Definition est_init (cfg : list Z) : estimator :=
  match cfg with
  | [words; dwords] => new_estimator (Z.to_N words) (Z.to_N dwords)
  | _ => new_estimator 64 16
  end.
