(* StripedCounterStream.v — stream wrapper of StripedCounter for the correspondence stream "sc" (sid 48): the real
   striped statistics block driven sequentially (recordHit with arbitrary stripe ids, reduced by the mask exactly as
   the code does, and whole aggregate calls). Model only, no proofs. *)
Require Import List ZArith Arith. Import ListNotations.
Require Import KV.StripedCounter.
Local Open Scope nat_scope.

Record sc_state := mkSc { sc_n : nat; sc_s : state }.

Definition sc_init (cfg : list Z) : sc_state :=
  match cfg with
  | n :: _ => mkSc (Z.to_nat n) (init [Inc []; AggNew])
  | [] => mkSc 1 (init [Inc []; AggNew])
  end.

Fixpoint run_agg (fuel : nat) (n : nat) (s : state) : state :=
  match fuel with
  | O => s
  | S f => match step_thread n s 1 with Some s1 => run_agg f n s1 | None => s end
  end.

Definition sc_step (st : sc_state) (o : list Z) : sc_state * list Z :=
  let n := sc_n st in
  match o with
  | [1%Z; id] =>
      (* the caller's stripe id is reduced modulo the (power of two) number of stripes *)
      let i := Z.to_nat (Z.modulo id (Z.of_nat n)) in
      let s0 := mkState (stripes (sc_s st)) (done (sc_s st)) (set_nth (threads (sc_s st)) 0 (Inc [i])) in
      (match step_thread n s0 0 with Some s1 => mkSc n s1 | None => st end, [])
  | [2%Z] =>
      let s0 := mkState (stripes (sc_s st)) (done (sc_s st)) (set_nth (threads (sc_s st)) 1 AggNew) in
      let s1 := run_agg (S (S n)) n s0 in
      (mkSc n s1,
       match nth_error (threads s1) 1 with
       | Some (Agg _ _ r) => r :: map (stripes s1) (seq 0 n)
       | _ => [(-9)%Z]
       end)
  | _ => (st, [(-9)%Z])
  end.
