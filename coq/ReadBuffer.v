(* ReadBuffer.v — one stripe of the lossy multi-producer / single-consumer read-sample ring
   (readbuffer.go [readStripe], [sample]; shard.go [drainStripe]).

   Model (an LTS with per-thread program counters, any number of producers):
     buf   : 64 cells (0 = empty)        tail : producers' ticket counter
     head  : consumer-only cursor
   producer  sample h :  (1) i := tail.Add(1)-1      (fetch-add)
                         (2) buf[i mod 64].Store(h') with h' = (h = 0 ? 1 : h)
                         (3) needDrain := (i+1) - head.Load() >= 64
   consumer  drainStripe: (a) t := tail.Load()   (b) h := head.Load(); t = h -> return;
                          t-h > 64 -> h := t-64  (c) for h < t: v := buf[h mod 64].Swap(0);
                          v <> 0 -> deliver v; h++   (d) head.Store(t)
   Every numbered/lettered line is ONE atomic scheduler step; thread id 0 is the single
   consumer (the holder of drainMu), thread id j+1 is producer j.  Counters are natural
   numbers (the uint64 wrap after 2^64 samples is not modelled).
   Ghost fields: [tick] (the value of every ticket, in ticket order = "sampled"),
   [stored], [lost] (values overwritten while still unread), [delivered], [acc] (every cell
   access as (position, index)), [rets] (needDrain results). *)
From KV Require Import Base.
Close Scope Z_scope.
Open Scope nat_scope.

Set Implicit Arguments.
Arguments Nat.modulo : simpl never.
Arguments Nat.div : simpl never.

(* ---------- list helpers ---------- *)
Section ListHelpers.
  Variable A : Type.

  Fixpoint upd (l : list A) (i : nat) (x : A) : list A :=
    match l, i with
    | [], _ => []
    | _ :: r, O => x :: r
    | a :: r, S j => a :: upd r j x
    end.

  Definition b2n (b : bool) : nat := if b then 1 else 0.

  Fixpoint count (p : A -> bool) (l : list A) : nat :=
    match l with [] => 0 | a :: r => b2n (p a) + count p r end.

  Lemma count_app p a b : count p (a ++ b) = count p a + count p b.
  Proof. induction a; cbn; auto. rewrite IHa. lia. Qed.

  Lemma upd_length l i x : length (upd l i x) = length l.
  Proof. revert i; induction l; intros [|i]; cbn; auto. Qed.

  Lemma nth_error_upd_eq l i x a : nth_error l i = Some a -> nth_error (upd l i x) i = Some x.
  Proof. revert i; induction l; intros [|i] H; cbn in *; try discriminate; auto. Qed.

  Lemma nth_error_upd_ne l i j x : i <> j -> nth_error (upd l i x) j = nth_error l j.
  Proof. revert i j; induction l; intros [|i] [|j] H; cbn; auto; congruence. Qed.

  Lemma nth_upd_eq l i x d : i < length l -> nth i (upd l i x) d = x.
  Proof. revert i; induction l; intros [|i] H; cbn in *; try lia; auto. apply IHl; lia. Qed.

  Lemma nth_upd_ne l i j x d : i <> j -> nth j (upd l i x) d = nth j l d.
  Proof. revert i j; induction l; intros [|i] [|j] H; cbn; auto; congruence. Qed.

  Lemma count_upd p l i x a : nth_error l i = Some a ->
    count p (upd l i x) + b2n (p a) = count p l + b2n (p x).
  Proof.
    revert i; induction l as [|b l IH]; intros [|i] H; cbn in *; try discriminate.
    - inversion H; subst. lia.
    - specialize (IH _ H). lia.
  Qed.

  Lemma count_upd' p l i x a ba bx : nth_error l i = Some a -> p a = ba -> p x = bx ->
    count p (upd l i x) + b2n ba = count p l + b2n bx.
  Proof. intros H <- <-. apply count_upd; auto. Qed.

  Lemma count_upd_nth p l i x d : i < length l ->
    count p (upd l i x) + b2n (p (nth i l d)) = count p l + b2n (p x).
  Proof.
    intros H. apply count_upd. revert i H; induction l; intros [|i] H; cbn in *; try lia; auto.
    apply IHl; lia.
  Qed.

  Lemma nth_error_upd_inv l t x t' y :
    nth_error (upd l t x) t' = Some y ->
    (t' = t /\ y = x) \/ (t' <> t /\ nth_error l t' = Some y).
  Proof.
    intros H. destruct (Nat.eq_dec t t') as [<-|Hne].
    - left. split; auto.
      destruct (nth_error l t) eqn:E.
      + erewrite nth_error_upd_eq in H; eauto. congruence.
      + exfalso. revert t H E. induction l as [|b l IH]; intros [|t] H E; cbn in *;
          try discriminate. eauto.
    - right. rewrite nth_error_upd_ne in H; auto.
  Qed.

  Lemma skipn_nth_cons (l : list A) h d : h < length l -> skipn h l = nth h l d :: skipn (S h) l.
  Proof.
    revert h; induction l as [|a l IH]; intros [|h] H; cbn in *; try lia; auto.
    apply IH; lia.
  Qed.
End ListHelpers.

(* ---------- the model ---------- *)
Definition NSLOT : nat := 64.

Definition fix0 (h : Z) : Z := if Z.eqb h 0 then 1%Z else h.

Inductive ppc :=
| PIdle                        (* between samples *)
| PGot (v : Z) (i : nat)       (* fetch-add done: owns ticket i, store pending *)
| PStored (i : nat).           (* store done, head load pending *)

Record prod := { p_todo : list Z; p_pc : ppc }.

Inductive cpc :=
| CIdle
| CT (t : nat)                 (* tail loaded *)
| CLoop (h t : nat).           (* in the swap loop / about to store head *)

Record state := {
  buf : list Z; tail : nat; head : nat;
  prods : list prod; cons : cpc;
  tick : list Z;               (* ghost: value of ticket i (what was sampled), i < tail *)
  stored : list Z;             (* ghost: values stored so far *)
  lost : list Z;               (* ghost: unread values overwritten by a store *)
  delivered : list Z;          (* ghost: values handed to the sketch, in order *)
  acc : list (nat * nat);      (* ghost: cell accesses (position, index used) *)
  rets : list (nat * bool)     (* ghost: (ticket, needDrain) results *)
}.

Definition step (st : state) (tid : nat) : option state :=
  match tid with
  | O =>
    match cons st with
    | CIdle =>
        Some {| buf := buf st; tail := tail st; head := head st; prods := prods st;
                cons := CT (tail st);
                tick := tick st; stored := stored st; lost := lost st;
                delivered := delivered st; acc := acc st; rets := rets st |}
    | CT t =>
        Some {| buf := buf st; tail := tail st; head := head st; prods := prods st;
                cons := if t =? head st then CIdle
                        else CLoop (if NSLOT <? t - head st then t - NSLOT else head st) t;
                tick := tick st; stored := stored st; lost := lost st;
                delivered := delivered st; acc := acc st; rets := rets st |}
    | CLoop h t =>
        if h <? t then
          let k := h mod NSLOT in
          let v := nth k (buf st) 0%Z in
          Some {| buf := upd (buf st) k 0%Z; tail := tail st; head := head st;
                  prods := prods st; cons := CLoop (S h) t;
                  tick := tick st; stored := stored st; lost := lost st;
                  delivered := if Z.eqb v 0 then delivered st else delivered st ++ [v];
                  acc := acc st ++ [(h, k)]; rets := rets st |}
        else
          Some {| buf := buf st; tail := tail st; head := t; prods := prods st;
                  cons := CIdle;
                  tick := tick st; stored := stored st; lost := lost st;
                  delivered := delivered st; acc := acc st; rets := rets st |}
    end
  | S j =>
    match nth_error (prods st) j with
    | None => None
    | Some pr =>
      match p_pc pr with
      | PIdle =>
        match p_todo pr with
        | [] => None
        | x :: r =>
            Some {| buf := buf st; tail := S (tail st); head := head st;
                    prods := upd (prods st) j {| p_todo := r; p_pc := PGot (fix0 x) (tail st) |};
                    cons := cons st;
                    tick := tick st ++ [fix0 x]; stored := stored st; lost := lost st;
                    delivered := delivered st; acc := acc st; rets := rets st |}
        end
      | PGot v i =>
          let k := i mod NSLOT in
          let o := nth k (buf st) 0%Z in
          Some {| buf := upd (buf st) k v; tail := tail st; head := head st;
                  prods := upd (prods st) j {| p_todo := p_todo pr; p_pc := PStored i |};
                  cons := cons st;
                  tick := tick st; stored := stored st ++ [v];
                  lost := if Z.eqb o 0 then lost st else lost st ++ [o];
                  delivered := delivered st; acc := acc st ++ [(i, k)]; rets := rets st |}
      | PStored i =>
          Some {| buf := buf st; tail := tail st; head := head st;
                  prods := upd (prods st) j {| p_todo := p_todo pr; p_pc := PIdle |};
                  cons := cons st;
                  tick := tick st; stored := stored st; lost := lost st;
                  delivered := delivered st; acc := acc st;
                  rets := rets st ++ [(i, NSLOT <=? (S i) - head st)] |}
      end
    end
  end.

Definition init (scripts : list (list Z)) : state :=
  {| buf := repeat 0%Z NSLOT; tail := 0; head := 0;
     prods := map (fun s => {| p_todo := s; p_pc := PIdle |}) scripts; cons := CIdle;
     tick := []; stored := []; lost := []; delivered := []; acc := []; rets := [] |}.

Section Reach.
  Variable scripts : list (list Z).

  Inductive reachable : state -> Prop :=
  | R_init : reachable (init scripts)
  | R_step st t st' : reachable st -> step st t = Some st' -> reachable st'.

  Fixpoint exec (sched : list nat) (st : state) : state :=
    match sched with
    | [] => st
    | t :: r => exec r (match step st t with Some st' => st' | None => st end)
    end.

  Lemma exec_reachable sched st : reachable st -> reachable (exec sched st).
  Proof.
    revert st; induction sched as [|t r IH]; intros st H; cbn [exec]; auto.
    apply IH. destruct (step st t) eqn:E; auto. eapply R_step; eauto.
  Qed.

  Lemma exec_step t r st st' : step st t = Some st' -> exec (t :: r) st = exec r st'.
  Proof. intros H. cbn [exec]. rewrite H. reflexivity. Qed.

  Lemma exec_app a b st : exec (a ++ b) st = exec b (exec a st).
  Proof. revert st; induction a; intros; cbn [exec app]; auto. Qed.
End Reach.

Lemma Some_inj (A : Type) (a b : A) : Some a = Some b -> a = b.
Proof. congruence. Qed.

(* case analysis of one step *)
Ltac step_cases H :=
  unfold step in H;
  match type of H with
  | match ?tid with _ => _ end = _ =>
      destruct tid as [|j];
      [ let Hc := fresh "Hc" in
        destruct (cons _) as [|t|h t] eqn:Hc;
        [ | | let Hlt := fresh "Hlt" in destruct (h <? t) eqn:Hlt ]
      | let pr := fresh "pr" in let Hpr := fresh "Hpr" in
        destruct (nth_error (prods _) j) as [pr|] eqn:Hpr; [|discriminate];
        let Hpc := fresh "Hpc" in
        destruct (p_pc pr) as [|v i|i] eqn:Hpc;
        [ let Htd := fresh "Htd" in
          destruct (p_todo pr) as [|x r] eqn:Htd; [discriminate|]
        | | ] ]
  end;
  apply Some_inj in H; subst.

Definition nz (v : Z) : Prop := v <> 0%Z.

Lemma fix0_nz h : nz (fix0 h).
Proof. unfold nz, fix0. destruct (Z.eqb_spec h 0); lia. Qed.

Lemma mod_lt_slot i : i mod NSLOT < NSLOT.
Proof. apply Nat.mod_upper_bound. unfold NSLOT; lia. Qed.

Section Proofs.
  Variable scripts : list (list Z).
  Notation reachable := (reachable scripts).

  (* ---------- basic invariant: shapes, cursors ---------- *)
  Definition cons_ok (st : state) : Prop :=
    match cons st with
    | CIdle => True
    | CT t => head st <= t /\ t <= tail st
    | CLoop h t => head st <= h /\ h <= t /\ t <= tail st /\ t - h <= NSLOT
    end.

  Definition basic_inv (st : state) : Prop :=
    length (buf st) = NSLOT /\
    length (tick st) = tail st /\
    head st <= tail st /\
    cons_ok st /\
    Forall nz (tick st).

  Lemma basic_inv_init : basic_inv (init scripts).
  Proof. unfold basic_inv, cons_ok; cbn. repeat split; auto. Qed.

  Lemma basic_inv_step st t st' : basic_inv st -> step st t = Some st' -> basic_inv st'.
  Proof.
    intros (HL & HT & HH & HC & HN) H. unfold cons_ok in HC.
    step_cases H; unfold basic_inv, cons_ok; cbn [buf tail head cons tick];
      try rewrite Hc in HC; rewrite ?upd_length.
    - repeat split; auto; lia.
    - repeat split; auto.
      destruct (Nat.eqb_spec t (head st)); auto.
      unfold NSLOT in *. destruct (Nat.ltb_spec 64 (t - head st)); lia.
    - apply Nat.ltb_lt in Hlt. repeat split; auto; lia.
    - repeat split; auto; lia.
    - rewrite app_length; cbn. repeat split; auto; try lia.
      + destruct (cons st); auto; lia.
      + apply Forall_app; split; auto. constructor; auto. apply fix0_nz.
    - repeat split; auto.
    - repeat split; auto.
  Qed.

  Lemma basic_inv_reachable st : reachable st -> basic_inv st.
  Proof. induction 1; [apply basic_inv_init | eapply basic_inv_step; eauto]. Qed.

  (* ---------- 4. head is monotone, head <= tail ---------- *)
  Theorem head_le_tail st : reachable st -> head st <= tail st.
  Proof. intros H. apply (basic_inv_reachable H). Qed.

  Theorem head_monotone st t st' : reachable st -> step st t = Some st' ->
    head st <= head st' /\ tail st <= tail st'.
  Proof.
    intros Hr H. destruct (basic_inv_reachable Hr) as (_ & _ & _ & HC & _).
    unfold cons_ok in HC.
    step_cases H; cbn [head tail]; try rewrite Hc in HC; lia.
  Qed.

  Lemma exec_monotone sched : forall st, reachable st ->
    head st <= head (exec sched st) /\ tail st <= tail (exec sched st).
  Proof.
    induction sched as [|t r IH]; intros st Hr; cbn [exec]; [lia|].
    destruct (step st t) as [st'|] eqn:E; [|apply IH; auto].
    pose proof (head_monotone _ Hr E). specialize (IH st' (R_step _ Hr E)). lia.
  Qed.

  (* producers' pending tickets are real tickets and carry the ticket's value *)
  Definition pc_ok (st : state) (pc : ppc) : Prop :=
    match pc with
    | PIdle => True
    | PGot v i => i < tail st /\ nth i (tick st) 0%Z = v
    | PStored i => i < tail st
    end.

  Definition prod_inv (st : state) : Prop :=
    forall j pr, nth_error (prods st) j = Some pr -> pc_ok st (p_pc pr).

  Lemma prod_inv_step st t st' : basic_inv st -> prod_inv st -> step st t = Some st' ->
    prod_inv st'.
  Proof.
    intros (HL & HT & HH & HC & HN) HP H.
    step_cases H; unfold prod_inv; cbn [prods]; auto.
    - intros j' pr' Hn. apply nth_error_upd_inv in Hn as [[-> ->]|[Hne Hn]];
        unfold pc_ok; cbn [p_pc tail tick].
      + split; [lia|]. rewrite app_nth2 by lia. rewrite HT, Nat.sub_diag. reflexivity.
      + specialize (HP _ _ Hn). unfold pc_ok in HP. destruct (p_pc pr'); auto; try lia.
        destruct HP. split; [lia|]. rewrite app_nth1 by lia. auto.
    - intros j' pr' Hn. apply nth_error_upd_inv in Hn as [[-> ->]|[Hne Hn]].
      + specialize (HP _ _ Hpr). rewrite Hpc in HP. unfold pc_ok in *. cbn. tauto.
      + exact (HP _ _ Hn).
    - intros j' pr' Hn. apply nth_error_upd_inv in Hn as [[-> ->]|[Hne Hn]].
      + exact I.
      + exact (HP _ _ Hn).
  Qed.

  Lemma prod_inv_reachable st : reachable st -> prod_inv st.
  Proof.
    induction 1.
    - intros j pr Hn. unfold init in Hn; cbn in Hn. apply nth_error_In in Hn.
      apply in_map_iff in Hn. destruct Hn as (q & <- & _). exact I.
    - eapply prod_inv_step; eauto. apply basic_inv_reachable; auto.
  Qed.

  (* ---------- 2. indices in range ---------- *)
  Theorem indices_in_range st : reachable st ->
    length (buf st) = NSLOT /\
    Forall (fun a => snd a = fst a mod NSLOT /\ snd a < length (buf st) /\ fst a < tail st)
           (acc st).
  Proof.
    intros Hr. split; [apply (basic_inv_reachable Hr)|].
    induction Hr as [|st t st' Hr IH H]; [constructor|].
    destruct (basic_inv_reachable Hr) as (HL & HT & HH & HC & HN). unfold cons_ok in HC.
    assert (MONO : forall (a : nat * nat) n m, n <= m ->
              snd a = fst a mod NSLOT /\ snd a < NSLOT /\ fst a < n ->
              snd a = fst a mod NSLOT /\ snd a < NSLOT /\ fst a < m) by (intros; lia).
    rewrite HL in IH.
    step_cases H; cbn [buf tail acc]; rewrite ?upd_length, ?HL; auto.
    - try rewrite Hc in HC. apply Nat.ltb_lt in Hlt.
      apply Forall_app; split; auto. constructor; auto. cbn. pose proof (mod_lt_slot h).
      repeat split; auto; lia.
    - eapply Forall_impl; [|exact IH]. intros a. apply MONO. lia.
    - apply Forall_app; split; auto. constructor; auto. cbn. pose proof (mod_lt_slot i).
      repeat split; auto.
      pose proof (prod_inv_reachable Hr _ Hpr) as Hp. rewrite Hpc in Hp. apply Hp.
  Qed.

  (* ---------- 1. no fabrication: exact accounting of every stored sample ---------- *)
  Definition cnt (x : Z) (l : list Z) : nat := count (Z.eqb x) l.
  Definition pendp (x : Z) (pr : prod) : bool :=
    match p_pc pr with PGot v _ => Z.eqb x v | _ => false end.

  (* stored = delivered + overwritten + still in a cell     (as multisets of nonzero values)
     sampled (tick) = stored + pending stores               (as multisets) *)
  Definition acct_inv (st : state) : Prop :=
    forall x, x <> 0%Z ->
      cnt x (stored st) = cnt x (delivered st) + cnt x (lost st) + cnt x (buf st).
  Definition pend_inv (st : state) : Prop :=
    forall x, cnt x (stored st) + count (pendp x) (prods st) = cnt x (tick st).

  Lemma cnt_snoc x l v : cnt x (l ++ [v]) = cnt x l + b2n (Z.eqb x v).
  Proof. unfold cnt. rewrite count_app. cbn. lia. Qed.

  Lemma acct_inv_step st t st' : basic_inv st -> acct_inv st -> step st t = Some st' ->
    acct_inv st'.
  Proof.
    intros (HL & _) HA H.
    step_cases H; unfold acct_inv; cbn [buf stored lost delivered]; auto.
    - (* swap *)
      intros x Hx. specialize (HA x Hx).
      pose proof (count_upd_nth (Z.eqb x) (buf st) 0%Z 0%Z
                    (i := h mod NSLOT) ltac:(rewrite HL; apply mod_lt_slot)) as CU.
      fold (cnt x (upd (buf st) (h mod NSLOT) 0%Z)) in CU. fold (cnt x (buf st)) in CU.
      destruct (Z.eqb_spec (nth (h mod NSLOT) (buf st) 0%Z) 0) as [E|E].
      + rewrite E in CU. destruct (Z.eqb_spec x 0); [lia|]. cbn [b2n] in CU. lia.
      + rewrite cnt_snoc. destruct (Z.eqb_spec x 0); [lia|]. cbn [b2n] in CU. lia.
    - (* store *)
      intros x Hx. specialize (HA x Hx).
      pose proof (count_upd_nth (Z.eqb x) (buf st) v 0%Z
                    (i := i mod NSLOT) ltac:(rewrite HL; apply mod_lt_slot)) as CU.
      fold (cnt x (upd (buf st) (i mod NSLOT) v)) in CU. fold (cnt x (buf st)) in CU.
      rewrite cnt_snoc.
      destruct (Z.eqb_spec (nth (i mod NSLOT) (buf st) 0%Z) 0) as [E|E].
      + rewrite E in CU. destruct (Z.eqb_spec x 0); [lia|]. cbn [b2n] in CU. lia.
      + rewrite cnt_snoc. lia.
  Qed.

  Lemma pend_inv_step st t st' : pend_inv st -> step st t = Some st' -> pend_inv st'.
  Proof.
    intros HA H.
    step_cases H; unfold pend_inv; cbn [prods stored tick]; auto.
    all: intros y; specialize (HA y);
         match goal with
         | |- context [upd (prods _) _ ?n] =>
             pose proof (@count_upd' _ (pendp y) (prods st) _ n _ _ _ Hpr
                           ltac:(unfold pendp; rewrite Hpc; reflexivity)
                           ltac:(unfold pendp; cbn [p_pc]; reflexivity)) as CU
         end;
         rewrite ?cnt_snoc; cbn [b2n] in CU; lia.
  Qed.

  Lemma acct_reachable st : reachable st -> acct_inv st /\ pend_inv st.
  Proof.
    induction 1 as [|st t st' Hr [IA IP] H].
    - split; intros x; cbn; intros.
      + unfold cnt. cbn. destruct (Z.eqb_spec x 0); [contradiction|]. reflexivity.
      + unfold cnt; cbn. induction scripts; cbn; auto.
    - split; [eapply acct_inv_step | eapply pend_inv_step]; eauto.
      apply basic_inv_reachable; auto.
  Qed.

  (* exact accounting (the strongest form) *)
  Theorem sample_accounting st : reachable st ->
    (forall x, x <> 0%Z ->
       cnt x (stored st) = cnt x (delivered st) + cnt x (lost st) + cnt x (buf st)) /\
    (forall x, cnt x (tick st) = cnt x (stored st) + count (pendp x) (prods st)).
  Proof.
    intros Hr. destruct (acct_reachable Hr) as [A P]. split; [exact A|].
    intros x. rewrite <- P. reflexivity.
  Qed.

  Lemma delivered_nz st : reachable st -> Forall nz (delivered st).
  Proof.
    induction 1 as [|st t st' Hr IH H]; [constructor|].
    step_cases H; cbn [delivered]; auto.
    destruct (Z.eqb_spec (nth (h mod NSLOT) (buf st) 0%Z) 0); auto.
    apply Forall_app; split; auto.
  Qed.

  Lemma cnt_nz_zero l : Forall nz l -> cnt 0%Z l = 0.
  Proof.
    unfold cnt. induction 1 as [|a l Ha _ IH]; cbn [count]; auto. rewrite IH.
    unfold nz in Ha. destruct (Z.eqb_spec 0 a); cbn [b2n]; lia.
  Qed.

  (* every sampled value comes from a producer's script (0 reported as 1) *)
  Definition src_inv (st : state) : Prop :=
    (forall x, In x (tick st) -> In x (map fix0 (concat scripts))) /\
    (forall j pr, nth_error (prods st) j = Some pr -> incl (p_todo pr) (concat scripts)).

  Lemma src_inv_reachable st : reachable st -> src_inv st.
  Proof.
    induction 1 as [|st t st' Hr [IT IP] H].
    - split; [intros x []|]. intros j pr Hn. cbn in Hn.
      rewrite nth_error_map in Hn. destruct (nth_error scripts j) eqn:E; [|discriminate].
      inversion Hn; subst; cbn. intros z Hz. apply in_concat. exists l. split; auto.
      eapply nth_error_In; eauto.
    - step_cases H; unfold src_inv; cbn [tick prods]; auto.
      + pose proof (IP _ _ Hpr) as Hi. rewrite Htd in Hi. split.
        * intros y Hy. apply in_app_or in Hy as [Hy|[<-|[]]]; auto.
          apply in_map. apply Hi. left; auto.
        * intros j' pr' Hn. apply nth_error_upd_inv in Hn as [[-> ->]|[Hne Hn]]; eauto.
          cbn. intros z Hz. apply Hi. right; auto.
      + split; auto. intros j' pr' Hn.
        apply nth_error_upd_inv in Hn as [[-> ->]|[Hne Hn]]; eauto. cbn. eauto.
      + split; auto. intros j' pr' Hn.
        apply nth_error_upd_inv in Hn as [[-> ->]|[Hne Hn]]; eauto. cbn. eauto.
  Qed.

  (* 1. no fabrication: delivered is a sub-multiset of the sampled values [tick]; nothing
        delivered is 0; every sampled value is fix0 of a fingerprint in some script *)
  Theorem no_fabrication st : reachable st ->
    (forall x, cnt x (delivered st) <= cnt x (tick st)) /\
    Forall nz (delivered st) /\
    (forall x, In x (tick st) -> exists h, In h (concat scripts) /\ x = fix0 h).
  Proof.
    intros Hr. destruct (sample_accounting Hr) as [A P]. repeat split.
    - intros x. destruct (Z.eq_dec x 0) as [->|Hx].
      + rewrite (cnt_nz_zero (delivered_nz Hr)). lia.
      + specialize (A x Hx). specialize (P x). lia.
    - apply delivered_nz; auto.
    - intros x Hx. apply (proj1 (src_inv_reachable Hr)) in Hx.
      apply in_map_iff in Hx. destruct Hx as (h & <- & Hh). exists h; auto.
  Qed.

  (* ---------- 3. the window: a drain without concurrent producers ----------
     The statement needs a hypothesis on the state in which the drain starts ([window_ok]:
     the cells of the current window hold their tickets' values).  Quiescence of the
     producers during the drain alone is NOT sufficient — see Examples.window_needs_coherence
     for the counterexample (an earlier out-of-order store leaves a stale value behind).
     [window_ok] holds initially, after every completed drain, and is preserved by every
     sample whose steps are not interleaved with other stores (window_ok_atomic_sample). *)
  Definition lastn (n : nat) (l : list Z) : list Z := skipn (length l - n) l.

  Definition win_lo (st : state) : nat :=
    if NSLOT <? tail st - head st then tail st - NSLOT else head st.

  (* the cells of the current window hold the values of their tickets *)
  Definition window_ok (st : state) : Prop :=
    forall pos, win_lo st <= pos < tail st ->
      nth (pos mod NSLOT) (buf st) 0%Z = nth pos (tick st) 0%Z.

  Lemma mod_ne a b : a < b < a + NSLOT -> b mod NSLOT <> a mod NSLOT.
  Proof.
    unfold NSLOT. intros H E.
    pose proof (Nat.div_mod a 64 ltac:(lia)). pose proof (Nat.div_mod b 64 ltac:(lia)). lia.
  Qed.

  Lemma drain_loop k : forall st h t,
    cons st = CLoop h t -> t = h + k -> k <= NSLOT ->
    t <= length (tick st) -> length (buf st) = NSLOT -> Forall nz (tick st) ->
    (forall pos, h <= pos < t -> nth (pos mod NSLOT) (buf st) 0%Z = nth pos (tick st) 0%Z) ->
    let st' := exec (repeat 0 k) st in
    cons st' = CLoop t t /\
    delivered st' = delivered st ++ firstn k (skipn h (tick st)) /\
    tail st' = tail st /\ head st' = head st /\ tick st' = tick st /\
    prods st' = prods st /\ lost st' = lost st /\ stored st' = stored st /\
    length (buf st') = NSLOT.
  Proof.
    induction k as [|k IH]; intros st h t Hc Ht Hk Hlen HL HN Hcells.
    - cbn. replace t with h in * by lia. rewrite app_nil_r. repeat split; auto.
    - cbn [repeat exec].
      destruct (step st 0) as [st1|] eqn:Hs.
      2:{ unfold step in Hs. rewrite Hc in Hs. destruct (h <? t); discriminate. }
      unfold step in Hs. rewrite Hc in Hs.
      destruct (Nat.ltb_spec h t) as [Hlt|Hge]; [|lia].
      inversion Hs; subst st1; clear Hs.
      set (v := nth (h mod NSLOT) (buf st) 0%Z).
      assert (Hv : v = nth h (tick st) 0%Z) by (apply Hcells; lia).
      assert (Hvnz : v <> 0%Z).
      { rewrite Hv. rewrite Forall_forall in HN. apply HN. apply nth_In. lia. }
      match goal with |- context [exec (repeat 0 k) ?s1] => specialize (IH s1 (S h) t) end.
      cbn [cons tick buf delivered tail head prods lost stored] in IH.
      rewrite upd_length in IH.
      destruct IH as (I1 & I2 & I3 & I4 & I5 & I6 & I7 & I8 & I9); auto; try lia.
      { intros pos Hp. rewrite nth_upd_ne; [apply Hcells; lia|].
        intros E. symmetry in E. revert E. apply mod_ne. lia. }
      cbv zeta. repeat split; auto.
      rewrite I2. destruct (Z.eqb_spec v 0); [contradiction|].
      rewrite <- app_assoc. f_equal. cbn [app].
      rewrite (skipn_nth_cons (tick st) 0%Z (h := h)) by lia.
      cbn [firstn]. rewrite Hv. reflexivity.
  Qed.

  Lemma repeat_plus (A : Type) (x : A) n m : repeat x (n + m) = repeat x n ++ repeat x m.
  Proof. induction n; cbn; auto. rewrite IHn; auto. Qed.

  (* 3a. quiescent drain: delivers exactly the last min(tail-head, 64) samples, in order *)
  Theorem window st : reachable st ->
    cons st = CIdle -> window_ok st -> tail st <> head st ->
    let n := Nat.min (tail st - head st) NSLOT in
    let st' := exec (repeat 0 (n + 3)) st in
    cons st' = CIdle /\ head st' = tail st /\ tail st' = tail st /\
    delivered st' = delivered st ++ lastn n (tick st) /\
    lost st' = lost st /\ stored st' = stored st /\ prods st' = prods st.
  Proof.
    intros Hr Hc Hw Hne n st'.
    destruct (basic_inv_reachable Hr) as (HL & HT & HH & _ & HN).
    assert (Hn : n = tail st - win_lo st).
    { unfold n, win_lo, NSLOT. destruct (Nat.ltb_spec 64 (tail st - head st)); lia. }
    assert (Hlo : win_lo st + n = tail st).
    { unfold win_lo, NSLOT in *. destruct (Nat.ltb_spec 64 (tail st - head st)); lia. }
    subst st'. replace (n + 3) with (2 + (n + 1)) by lia.
    rewrite !repeat_plus, !exec_app.
    (* steps (a) and (b) *)
    assert (E2 : exec (repeat 0 2) st =
                 {| buf := buf st; tail := tail st; head := head st; prods := prods st;
                    cons := CLoop (win_lo st) (tail st);
                    tick := tick st; stored := stored st; lost := lost st;
                    delivered := delivered st; acc := acc st; rets := rets st |}).
    { cbn [repeat exec]. unfold step. rewrite Hc. cbn [cons head tail].
      destruct (Nat.eqb_spec (tail st) (head st)); [contradiction|]. reflexivity. }
    rewrite E2. clear E2.
    match goal with |- context [exec (repeat 0 n) ?s1] =>
      pose proof (@drain_loop n s1 (win_lo st) (tail st)) as DL end.
    cbn [cons tick buf delivered tail head prods lost stored] in DL.
    destruct DL as (D1 & D2 & D3 & D4 & D5 & D6 & D7 & D8 & D9); auto; try lia.
    match goal with |- context [exec (repeat 0 n) ?s1] => set (s2 := exec (repeat 0 n) s1) in * end.
    (* step (d) *)
    cbn [repeat exec]. unfold step. rewrite D1. rewrite Nat.ltb_irrefl.
    cbn [cons head tail delivered lost stored prods].
    repeat split; auto.
    rewrite D2. f_equal. unfold lastn. rewrite HT.
    replace (tail st - n) with (win_lo st) by lia.
    apply firstn_all2. rewrite skipn_length. lia.
  Qed.

  (* empty stripe: the drain returns after its two loads *)
  Theorem window_empty st : cons st = CIdle -> tail st = head st ->
    let st' := exec (repeat 0 2) st in
    cons st' = CIdle /\ head st' = head st /\ delivered st' = delivered st /\ buf st' = buf st.
  Proof.
    intros Hc He. cbn [repeat exec]. unfold step. rewrite Hc. cbn [cons head tail].
    rewrite He, Nat.eqb_refl. cbn. auto.
  Qed.

  (* when is [window_ok] available?  Initially, after any completed drain, and it is
     preserved by every sample whose three steps run back to back (no other producer
     store in between) — i.e. in every run made of whole samples and whole drains. *)
  Lemma window_ok_drained st : head st = tail st -> window_ok st.
  Proof.
    intros E pos. unfold win_lo, NSLOT. rewrite E, Nat.sub_diag. cbn. lia.
  Qed.

  Lemma window_ok_init : window_ok (init scripts).
  Proof. apply window_ok_drained. reflexivity. Qed.

  Lemma step_fetch st j pr x r :
    nth_error (prods st) j = Some pr -> p_pc pr = PIdle -> p_todo pr = x :: r ->
    step st (S j) =
    Some {| buf := buf st; tail := S (tail st); head := head st;
            prods := upd (prods st) j {| p_todo := r; p_pc := PGot (fix0 x) (tail st) |};
            cons := cons st;
            tick := tick st ++ [fix0 x]; stored := stored st; lost := lost st;
            delivered := delivered st; acc := acc st; rets := rets st |}.
  Proof. intros H1 H2 H3. unfold step. rewrite H1, H2, H3. reflexivity. Qed.

  Lemma step_store st j pr v i :
    nth_error (prods st) j = Some pr -> p_pc pr = PGot v i ->
    step st (S j) =
    Some {| buf := upd (buf st) (i mod NSLOT) v; tail := tail st; head := head st;
            prods := upd (prods st) j {| p_todo := p_todo pr; p_pc := PStored i |};
            cons := cons st;
            tick := tick st; stored := stored st ++ [v];
            lost := if Z.eqb (nth (i mod NSLOT) (buf st) 0%Z) 0 then lost st
                    else lost st ++ [nth (i mod NSLOT) (buf st) 0%Z];
            delivered := delivered st; acc := acc st ++ [(i, i mod NSLOT)];
            rets := rets st |}.
  Proof. intros H1 H2. unfold step. rewrite H1, H2. reflexivity. Qed.

  Lemma step_ret st j pr i :
    nth_error (prods st) j = Some pr -> p_pc pr = PStored i ->
    step st (S j) =
    Some {| buf := buf st; tail := tail st; head := head st;
            prods := upd (prods st) j {| p_todo := p_todo pr; p_pc := PIdle |};
            cons := cons st;
            tick := tick st; stored := stored st; lost := lost st;
            delivered := delivered st; acc := acc st;
            rets := rets st ++ [(i, NSLOT <=? (S i) - head st)] |}.
  Proof. intros H1 H2. unfold step. rewrite H1, H2. reflexivity. Qed.

  Lemma window_ok_atomic_sample st j pr x r : reachable st -> window_ok st ->
    nth_error (prods st) j = Some pr -> p_pc pr = PIdle -> p_todo pr = x :: r ->
    let st' := exec [S j; S j; S j] st in
    window_ok st' /\ tick st' = tick st ++ [fix0 x] /\ tail st' = S (tail st) /\
    head st' = head st /\ cons st' = cons st /\ delivered st' = delivered st.
  Proof.
    intros Hr Hw Hpr Hpc Htd.
    destruct (basic_inv_reachable Hr) as (HL & HT & HH & _ & HN).
    erewrite exec_step by (eapply step_fetch; eauto).
    erewrite exec_step
      by (eapply step_store; [cbn [prods]; eapply nth_error_upd_eq; eauto|reflexivity]).
    erewrite exec_step
      by (eapply step_ret;
          [cbn [prods]; eapply nth_error_upd_eq; eapply nth_error_upd_eq; eauto|reflexivity]).
    cbn [exec].
    cbn [p_pc p_todo]. cbn [tick tail head cons delivered buf].
    repeat split; auto.
    intros pos. unfold win_lo. cbn [tail head buf tick]. intros Hp.
    assert (Hp' : pos = tail st \/ (win_lo st <= pos < tail st /\ tail st < pos + NSLOT)).
    { unfold win_lo, NSLOT in *.
      destruct (Nat.ltb_spec 64 (S (tail st) - head st));
        destruct (Nat.ltb_spec 64 (tail st - head st)); lia. }
    destruct Hp' as [->|[Hp1 Hp2]].
    - rewrite nth_upd_eq by (rewrite HL; apply mod_lt_slot).
      rewrite app_nth2 by lia. rewrite HT, Nat.sub_diag. reflexivity.
    - rewrite nth_upd_ne by (apply mod_ne; lia).
      rewrite app_nth1 by lia. apply Hw; auto.
  Qed.

  (* ---------- 3b. what happens under concurrency ---------- *)
  (* every nonzero cell holds the value of a real ticket of that cell's residue class *)
  Definition cell_inv (st : state) : Prop :=
    forall k, k < NSLOT -> nth k (buf st) 0%Z <> 0%Z ->
      exists p, p < tail st /\ p mod NSLOT = k /\ nth p (tick st) 0%Z = nth k (buf st) 0%Z.

  Lemma cell_inv_step st t st' : basic_inv st -> prod_inv st -> cell_inv st ->
    step st t = Some st' -> cell_inv st'.
  Proof.
    intros (HL & HT & _) HP HC H.
    step_cases H; unfold cell_inv; cbn [buf tail tick]; auto.
    - intros k Hk Hnz. destruct (Nat.eq_dec (h mod NSLOT) k) as [<-|Hne].
      + rewrite nth_upd_eq in Hnz by (rewrite HL; apply mod_lt_slot). congruence.
      + rewrite nth_upd_ne in * by auto. auto.
    - intros k Hk Hnz. destruct (HC k Hk Hnz) as (p & Hp & Hm & Hv).
      exists p. repeat split; auto. rewrite app_nth1 by lia. auto.
    - intros k Hk Hnz. destruct (Nat.eq_dec (i mod NSLOT) k) as [<-|Hne].
      + rewrite nth_upd_eq by (rewrite HL; apply mod_lt_slot).
        pose proof (HP _ _ Hpr) as Hp. rewrite Hpc in Hp. destruct Hp.
        exists i. auto.
      + rewrite nth_upd_ne in * by auto. auto.
  Qed.

  Theorem cell_provenance st : reachable st -> cell_inv st.
  Proof.
    induction 1 as [|st t st' Hr IH H].
    - intros k Hk Hnz. exfalso. apply Hnz. cbn [init buf]. apply nth_repeat.
    - eapply cell_inv_step; eauto using basic_inv_reachable, prod_inv_reachable.
  Qed.

  (* a pending store always lands in its own cell, whatever the consumer has done meanwhile
     (even if head has already moved past the ticket); the only loss it can cause is the
     unread value it overwrites *)
  Theorem store_lands st j pr v i st' : reachable st ->
    nth_error (prods st) j = Some pr -> p_pc pr = PGot v i -> step st (S j) = Some st' ->
    v = nth i (tick st) 0%Z /\ v <> 0%Z /\ i < tail st /\
    nth (i mod NSLOT) (buf st') 0%Z = v /\
    (forall k, k <> i mod NSLOT -> nth k (buf st') 0%Z = nth k (buf st) 0%Z) /\
    delivered st' = delivered st /\ head st' = head st /\
    lost st' = (if Z.eqb (nth (i mod NSLOT) (buf st) 0%Z) 0 then lost st
                else lost st ++ [nth (i mod NSLOT) (buf st) 0%Z]).
  Proof.
    intros Hr Hpr Hpc H. rewrite (@step_store st j pr v i Hpr Hpc) in H. inversion H; subst; clear H.
    cbn [buf delivered head lost].
    destruct (basic_inv_reachable Hr) as (HL & HT & _ & _ & HN).
    pose proof (prod_inv_reachable Hr _ Hpr) as Hp. rewrite Hpc in Hp. destruct Hp as [Hi Hv].
    repeat split; auto.
    - rewrite <- Hv. rewrite Forall_forall in HN. apply HN. apply nth_In. lia.
    - apply nth_upd_eq. rewrite HL. apply mod_lt_slot.
    - intros k Hk. apply nth_upd_ne. auto.
  Qed.

  (* samples are dropped ONLY by being overwritten in their cell by a later store,
     and delivered ONLY by the consumer's swap *)
  Theorem loss_only_by_overwrite st t st' : step st t = Some st' ->
    (lost st' = lost st \/
     exists j pr v i, t = S j /\ nth_error (prods st) j = Some pr /\ p_pc pr = PGot v i /\
       nth (i mod NSLOT) (buf st) 0%Z <> 0%Z /\
       lost st' = lost st ++ [nth (i mod NSLOT) (buf st) 0%Z]) /\
    (delivered st' = delivered st \/
     exists h t', t = 0 /\ cons st = CLoop h t' /\ h < t' /\
       nth (h mod NSLOT) (buf st) 0%Z <> 0%Z /\
       delivered st' = delivered st ++ [nth (h mod NSLOT) (buf st) 0%Z]).
  Proof.
    intros H. step_cases H; cbn [lost delivered]; split; auto.
    - destruct (Z.eqb_spec (nth (h mod NSLOT) (buf st) 0%Z) 0); auto.
      right. exists h, t. apply Nat.ltb_lt in Hlt. auto.
    - destruct (Z.eqb_spec (nth (i mod NSLOT) (buf st) 0%Z) 0); auto.
      right. exists j, pr, v, i. auto.
  Qed.

  (* needDrain = false is never wrong about a full window: the ticket is less than 64
     ahead of head (and stays so, head being monotone) *)
  Theorem need_drain_false st : reachable st ->
    Forall (fun r => snd r = false -> S (fst r) < head st + NSLOT) (rets st).
  Proof.
    induction 1 as [|st t st' Hr IH H]; [constructor|].
    destruct (basic_inv_reachable Hr) as (_ & _ & _ & HC & _). unfold cons_ok in HC.
    step_cases H; cbn [rets head]; auto.
    - try rewrite Hc in HC. eapply Forall_impl; [|exact IH]. cbn. intros a Ha Hf.
      specialize (Ha Hf). lia.
    - apply Forall_app; split; auto. constructor; auto. cbn [fst snd].
      intros Hf. apply Nat.leb_gt in Hf. lia.
  Qed.
End Proofs.

(* ---------- 5. concrete runs ---------- *)
Module Examples.
  Open Scope Z_scope.
  Definition zs (a : Z) (n : nat) : list Z := zseq a n.
  Definition cells (st : state) : list (nat * Z) :=
    filter (fun kv => negb (Z.eqb (snd kv) 0)) (combine (seq 0 NSLOT) (buf st)).
  Definition view (st : state) :=
    (delivered st, lost st, (head st, tail st), cells st).
  Close Scope Z_scope.

  (* (a) a lapped stripe: one producer samples 1..70 (each sample's three steps back to back),
         then ONE drain: 3 + 64 consumer steps.  It delivers exactly 7..70, in order;
         1..6 were overwritten (lost). *)
  Definition lap_sched : list nat := repeat 1 (70 * 3) ++ repeat 0 (64 + 3).
  Definition lap_final := exec lap_sched (init [zs 1 70]).
  Example lapped_stripe :
    view lap_final = (zs 7 64, zs 1 6, (70, 70), []).
  Proof. vm_compute. reflexivity. Qed.

  (* needDrain was reported for exactly the samples with ticket >= 63 (backlog >= 64) *)
  Example lapped_need_drain :
    map snd (rets lap_final) = repeat false 63 ++ repeat true 7.
  Proof. vm_compute. reflexivity. Qed.

  Example lapped_reachable : reachable [zs 1 70] lap_final.
  Proof. apply exec_reachable. constructor. Qed.

  (* (b) a delayed store.  Producer A (thread 1) samples 100, producer B (thread 2) samples
         201, 202, ...  A takes ticket 0 but its store is delayed. *)
  Definition dly_scripts := [[100%Z]; zs 201 70].
  Definition dly_prefix : list nat :=
    [1]                      (* A: fetch-add, ticket 0; store pending *)
    ++ [2; 2; 2]             (* B: sample 201, ticket 1 *)
    ++ repeat 0 5            (* drain positions 0,1: cell 0 still EMPTY, delivers 201; head := 2 *)
    ++ [1; 1].               (* A: store lands in cell 0 although head = 2 > 0; A returns *)
  Definition dly_mid := exec dly_prefix (init dly_scripts).

  (* the consumer passed cell 0 before the store: nothing lost, 100 sits in cell 0 *)
  Example delayed_store_stays_in_cell :
    view dly_mid = ([201%Z], [], (2, 2), [(0, 100%Z)]).
  Proof. vm_compute. reflexivity. Qed.

  (* (b1) ... and is delivered by a LATER drain: B completes tickets 2..63, takes ticket 64
          (store pending), the drain covers positions 2..64 and position 64 is cell 0 again:
          it hands out 100, late and out of order.  B's own 264 then lands in cell 0. *)
  Definition dly_later : list nat :=
    repeat 2 (62 * 3) ++ [2] ++ repeat 0 (2 + 63 + 1) ++ [2; 2].
  Example delayed_store_delivered_later :
    view (exec dly_later dly_mid) =
    (201%Z :: zs 202 62 ++ [100%Z], [], (65, 65), [(0, 264%Z)]).
  Proof. vm_compute. reflexivity. Qed.

  (* (b2) ... or is overwritten: B completes tickets 2..64 before any drain; the store of
          ticket 64 overwrites the unread 100 in cell 0 (the one and only loss). *)
  Definition dly_over : list nat := repeat 2 (63 * 3) ++ repeat 0 (2 + 63 + 1).
  Example delayed_store_overwritten :
    view (exec dly_over dly_mid) =
    (201%Z :: zs 202 63, [100%Z], (65, 65), []).
  Proof. vm_compute. reflexivity. Qed.

  (* (c) REFUTATION of the naive window statement ("producers quiescent during the drain
         => the drain delivers the last min(t-h,64) samples"): quiescence DURING the drain is
         not enough, the window must also be coherent ([window_ok]) when the drain starts.
         A takes ticket 0 and stalls; B completes tickets 1..64 (264 goes to cell 0); A's
         stale store then overwrites the NEWER 264.  Now every producer is idle, the drain
         runs alone over positions 1..64 — and delivers 100 (ticket 0) where the last-64
         statement promises 264 (ticket 64). *)
  Definition stale_sched : list nat :=
    [1] ++ repeat 2 (64 * 3) ++ [1; 1] ++ repeat 0 (64 + 3).
  Example window_needs_coherence :
    let st := exec stale_sched (init dly_scripts) in
    view st = (zs 201 63 ++ [100%Z], [264%Z], (65, 65), []) /\
    lastn 64 (tick st) = zs 201 64.
  Proof. vm_compute. split; reflexivity. Qed.
End Examples.
