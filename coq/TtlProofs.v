(* TtlProofs.v — cache-level theorems for C05 (TTL: stamping, expiry, remaining time, cleanup) and
   C06 (removal notifications: conservation, not-readable-after-drop, reasons) over CacheModel.v,
   on top of the shard libraries ClassicProofs.v (LRU / LFU / FIFO) and SieveProofs.v (SieveTinyLFU).
   Stdlib only.
     A  TTL arithmetic (norm_ttl, stamp, remaining time)
     B  what Get / Exists / Keys return, from the code alone
     P  no shard function touches the queue of pending SetAsync commands
     C  one shard, any policy: ShInv, the view through lookup (lke), drop / write / touch / sweep / clear specs
     D  ghost-log deltas (SRel) and the last event about a key (LastW)
     E  the cache-level invariant TInv and the delta of every operation (CStep)
     F  the typed machine of CacheProofs.v (cop / cstep / settle / crun): every step, every history, cache_init
     G  C05 at cache level    H  C06 at cache level    I  concrete runs and refuted literal statements
   Sections A - E do not depend on CacheProofs.v; from F on the file uses its typed machine
   (cop, cstep, cstep_full, settle, crun, encode_op, cache_step_state), PolicyOK / CacheInv and cache_init_inv. *)
Require Import KV.Base KV.Gen.Consts KV.ConfigModel KV.CacheModel KV.ClassicProofs.
Require KV.SieveProofs.
From Coq Require Import Permutation.
Open Scope Z_scope.
Module SP := KV.SieveProofs.

(* ================================================================== *)
(** * A. TTL arithmetic: norm_ttl, stamp, remaining time (C05 item 8, 10) *)
(* ================================================================== *)

(** default resolution: 0 (DefaultExpiration) selects the configured default; everything that is
    not strictly positive afterwards means "never expires" and is normalised to 0 *)
Lemma norm_ttl_spec c ttl :
  norm_ttl c ttl = if ttl =? defaultExpiration then Z.max 0 (defttl c) else Z.max 0 ttl.
Proof.
  unfold norm_ttl. cbv zeta. destruct (ttl =? defaultExpiration);
    [destruct (Z.ltb_spec 0 (defttl c))|destruct (Z.ltb_spec 0 ttl)]; lia.
Qed.

Lemma norm_ttl_nonneg c ttl : 0 <= norm_ttl c ttl.
Proof. rewrite norm_ttl_spec. destruct (ttl =? defaultExpiration); lia. Qed.

Lemma norm_ttl_positive c ttl : 0 < ttl -> norm_ttl c ttl = ttl.
Proof. intros H. rewrite norm_ttl_spec. unfold defaultExpiration. destruct (Z.eqb_spec ttl 0); lia. Qed.

Lemma norm_ttl_no_expiration c : norm_ttl c noExpiration = 0.
Proof. reflexivity. Qed.

Lemma norm_ttl_negative c ttl : ttl < 0 -> norm_ttl c ttl = 0.
Proof. intros H. rewrite norm_ttl_spec. unfold defaultExpiration. destruct (Z.eqb_spec ttl 0); lia. Qed.

Lemma norm_ttl_default_pos c : 0 < defttl c -> norm_ttl c defaultExpiration = defttl c.
Proof. intros H. rewrite norm_ttl_spec. cbn. lia. Qed.

(* DefaultTTL 0 or -1 (or any non-positive default) *)
Lemma norm_ttl_default_none c : defttl c <= 0 -> norm_ttl c defaultExpiration = 0.
Proof. intros H. rewrite norm_ttl_spec. cbn. lia. Qed.

Lemma norm_ttl_zero_iff c ttl :
  norm_ttl c ttl = 0 <-> (ttl < 0 \/ (ttl = defaultExpiration /\ defttl c <= 0)).
Proof. rewrite norm_ttl_spec. unfold defaultExpiration. destruct (Z.eqb_spec ttl 0); lia. Qed.

(** the saturating stamp *)
Lemma stamp_nonpos t n : t <= 0 -> stamp t n = 0.
Proof. intros H. unfold stamp. destruct (Z.ltb_spec 0 t); [lia|reflexivity]. Qed.

Lemma stamp_zero_ttl n : stamp 0 n = 0.
Proof. reflexivity. Qed.

Lemma stamp_pos_gen t n : 0 < t -> (n <= 0 -> t + n <= max_int64) -> stamp t n = Z.min (n + t) max_int64.
Proof.
  intros Ht Hn. unfold stamp. destruct (Z.ltb_spec 0 t); [|lia].
  destruct (Z.ltb_spec 0 n); cbn [andb]; [|lia].
  destruct (Z.ltb_spec (max_int64 - n) t); lia.
Qed.

(* TTLs are int64 durations: the stored deadline is min(n + t, max_int64) at EVERY clock value *)
Lemma stamp_pos t n : 0 < t <= max_int64 -> stamp t n = Z.min (n + t) max_int64.
Proof. intros H. apply stamp_pos_gen; lia. Qed.

Lemma stamp_pos_clock t n : 0 < t -> 0 < n -> stamp t n = Z.min (n + t) max_int64.
Proof. intros H1 H2. apply stamp_pos_gen; lia. Qed.

Lemma stamp_nonneg t n : 0 <= n -> 0 <= stamp t n.
Proof.
  intros Hn. unfold stamp. destruct (Z.ltb_spec 0 t); [|lia].
  destruct ((0 <? n) && (max_int64 - n <? t)); [unfold max_int64, two63|]; lia.
Qed.

Lemma stamp_zero_iff t n : 0 <= n -> (stamp t n = 0 <-> t <= 0).
Proof.
  intros Hn. unfold stamp. destruct (Z.ltb_spec 0 t); [|lia].
  destruct ((0 <? n) && (max_int64 - n <? t)); [unfold max_int64, two63|]; lia.
Qed.

(* the deadline is never in the past of the write, and never beyond max_int64 (no wrap-around) *)
Lemma stamp_bounds t n : 0 < t <= max_int64 -> 0 <= n <= max_int64 -> n <= stamp t n <= max_int64 /\ (n < max_int64 -> n < stamp t n).
Proof. intros Ht Hn. rewrite stamp_pos by exact Ht. lia. Qed.

(* remaining time at a later clock: at most the TTL given, non-negative while not expired, strictly decreasing *)
Lemma remaining_le_ttl t n nw : 0 < t -> n <= nw -> stamp t n - nw <= t.
Proof.
  intros Ht Hn. unfold stamp. destruct (Z.ltb_spec 0 t); [|lia].
  destruct (Z.ltb_spec 0 n); cbn [andb]; [|lia].
  destruct (Z.ltb_spec (max_int64 - n) t); lia.
Qed.

Lemma remaining_decreasing ex nw1 nw2 : nw1 < nw2 -> ex - nw2 < ex - nw1.
Proof. lia. Qed.

Lemma expired_spec it nw : expired it nw = true <-> 0 < exp it < nw.
Proof. unfold expired. lia. Qed.

Lemma expired_false it nw : expired it nw = false <-> (exp it <= 0 \/ nw <= exp it).
Proof. unfold expired. lia. Qed.

Lemma expired_mono it nw nw' : nw <= nw' -> expired it nw = true -> expired it nw' = true.
Proof. rewrite !expired_spec. lia. Qed.

Lemma never_expires it nw : exp it = 0 -> expired it nw = false.
Proof. intros H. apply expired_false. lia. Qed.

(* ================================================================== *)
(** * B. What the read operations return: statements that follow from the code alone *)
(* ================================================================== *)

(** the published entry of key k in shard sh, as the read paths see it *)
Definition resident (c : cache) (sh k : Z) : option item :=
  match get_shard c sh with Some s => lookup s (policy c) k | None => None end.

Lemma lookup_some_memz s pol k it : lookup s pol k = Some it -> memz (tabk s) k = true.
Proof. unfold lookup. destruct (memz (tabk s) k); [reflexivity|discriminate]. Qed.

(* fields of the cache record that no write / drain touches *)
Record SameCfg (c c' : cache) : Prop := {
  sc_policy : policy c' = policy c; sc_nshards : nshards c' = nshards c; sc_defttl : defttl c' = defttl c;
  sc_stats : statsOn c' = statsOn c; sc_mask : mask c' = mask c; sc_track : trackCost c' = trackCost c;
  sc_now : now c' = now c; sc_closed : closed c' = closed c; sc_len : length (shards c') = length (shards c)
}.

Lemma SameCfg_refl c : SameCfg c c.
Proof. constructor; reflexivity. Qed.
Lemma SameCfg_trans a b c : SameCfg a b -> SameCfg b c -> SameCfg a c.
Proof. intros [] []. constructor; congruence. Qed.

Lemma set_nth_length {A} (l : list A) i x : length (set_nth l i x) = length l.
Proof. revert i. induction l as [|a l IH]; intros [|i]; cbn [set_nth length]; auto. Qed.

Lemma SameCfg_put c sh s h m ev ex : SameCfg c (put_shard c sh s h m ev ex).
Proof. constructor; try reflexivity. cbn [put_shard shards]. apply set_nth_length. Qed.

Lemma env_of_same c c' : SameCfg c c' -> env_of c' = env_of c.
Proof. intros []. unfold env_of. congruence. Qed.

Lemma SameCfg_apply_cmd c sh k v ttl cst : SameCfg c (apply_cmd c sh k v ttl cst).
Proof.
  unfold apply_cmd. destruct (get_shard c sh) as [s|]; [|apply SameCfg_refl].
  destruct (apply_set (env_of c) s k v (stamp ttl (now c)) cst) as [[s1 cm] d]. apply SameCfg_put.
Qed.

Lemma SameCfg_drain_cmds cmds : forall c sh, SameCfg c (drain_cmds c sh cmds).
Proof.
  induction cmds as [|cmd r IH]; intros c sh; cbn [drain_cmds]; [apply SameCfg_refl|].
  destruct cmd as [|k [|v [|ttl [|cst [|x y]]]]]; try apply IH.
  eapply SameCfg_trans; [apply SameCfg_apply_cmd|apply IH].
Qed.

Lemma SameCfg_drain_shard c sh : SameCfg c (drain_shard c sh).
Proof.
  unfold drain_shard. destruct (get_shard c sh) as [s|]; [|apply SameCfg_refl].
  destruct (pend s) as [|cmd r]; [apply SameCfg_refl|].
  eapply SameCfg_trans; [apply SameCfg_put|apply SameCfg_drain_cmds].
Qed.

(** ** Get / GetWithTTL *)

(* a resident key is never drained away before it is looked up: Get sees exactly [resident c sh k] *)
Theorem op_get_resident c k sh it c' ok v r :
  closed c = false -> resident c sh k = Some it -> op_get c k sh = (c', ok, v, r) ->
  if expired it (now c) then ok = false /\ v = 0 /\ r = 0
  else ok = true /\ v = val it /\ r = (if exp it =? 0 then -1 else exp it - now c).
Proof.
  unfold resident, op_get. intros Hc. rewrite Hc.
  destruct (get_shard c sh) as [s|] eqn:G; [|discriminate]. intros LK. cbv zeta.
  rewrite (lookup_some_memz _ _ _ _ LK). cbn [negb]. rewrite andb_false_r, G, LK.
  destruct (expired it (now c)).
  - destruct (drop_item (env_of c) s it reasonExpired) as [[s1 o] d]. intros H. injection H as _ <- <- <-. auto.
  - intros H. injection H as _ <- <- <-. auto.
Qed.

(** C05 item 9, Get: an entry whose deadline has passed is never returned *)
Theorem c05_never_after_deadline_get c k sh it c' ok v r :
  closed c = false -> resident c sh k = Some it -> 0 < exp it < now c ->
  op_get c k sh = (c', ok, v, r) -> ok = false /\ v = 0 /\ r = 0.
Proof.
  intros Hc R E H. pose proof (op_get_resident c k sh it c' ok v r Hc R H) as P.
  rewrite (proj2 (expired_spec it (now c)) E) in P. exact P.
Qed.

(** C05 item 9, second half: while the deadline has not passed (or there is none) a resident entry is served *)
Theorem c05_served_until_deadline c k sh it c' ok v r :
  closed c = false -> resident c sh k = Some it -> (exp it = 0 \/ now c <= exp it) ->
  op_get c k sh = (c', ok, v, r) ->
  ok = true /\ v = val it /\ r = (if exp it =? 0 then -1 else exp it - now c).
Proof.
  intros Hc R E H. pose proof (op_get_resident c k sh it c' ok v r Hc R H) as P.
  assert (X : expired it (now c) = false) by (apply expired_false; lia).
  rewrite X in P. exact P.
Qed.

(* conversely, every hit is backed by a resident entry whose deadline has not passed.  (The entry is
   looked up in c itself, or, for a SieveTinyLFU miss that first helps draining the shard's queue,
   in the drained cache: a queued SetAsync may have just written it.) *)
Theorem op_get_hit_sound c k sh c' v r :
  op_get c k sh = (c', true, v, r) ->
  closed c = false /\
  exists c0 it, (c0 = c \/ c0 = drain_shard c sh) /\ resident c0 sh k = Some it /\
                expired it (now c) = false /\ v = val it /\
                r = (if exp it =? 0 then -1 else exp it - now c).
Proof.
  unfold op_get. destruct (closed c) eqn:Hc; [discriminate|].
  destruct (get_shard c sh) as [s0|] eqn:G0; [|discriminate]. cbv zeta.
  set (c0 := if is_sieve s0 (policy c) && negb (memz (tabk s0) k) then drain_shard c sh else c).
  assert (SC : SameCfg c c0).
  { unfold c0. destruct (is_sieve s0 (policy c) && negb (memz (tabk s0) k)); [apply SameCfg_drain_shard|apply SameCfg_refl]. }
  assert (C0 : c0 = c \/ c0 = drain_shard c sh).
  { unfold c0. destruct (is_sieve s0 (policy c) && negb (memz (tabk s0) k)); auto. }
  clearbody c0.
  destruct (get_shard c0 sh) as [s|] eqn:G; [|discriminate].
  destruct (lookup s (policy c0) k) as [it|] eqn:LK; [|discriminate].
  destruct (expired it (now c0)) eqn:E.
  - destruct (drop_item (env_of c0) s it reasonExpired) as [[s1 o] d]. discriminate.
  - intros H. injection H as _ <- <-. split; [reflexivity|].
    exists c0, it. unfold resident. rewrite G, LK. rewrite (sc_now _ _ SC) in *. auto.
Qed.

(** C05 item 10: the remaining time reported by GetWithTTL *)
Theorem c05_remaining c k sh c' v r :
  op_get c k sh = (c', true, v, r) ->
  exists c0 it, (c0 = c \/ c0 = drain_shard c sh) /\ resident c0 sh k = Some it /\
    (exp it = 0 -> r = -1) /\
    (exp it <> 0 -> r = exp it - now c) /\
    (0 <= exp it -> (r = -1 <-> exp it = 0) /\ (exp it <> 0 -> 0 <= r)) /\
    (* written at clock n <= now with effective TTL t > 0: at most the TTL given *)
    (forall t n, 0 < t -> n <= now c -> exp it = stamp t n -> 0 <= n -> 0 <= r <= t).
Proof.
  intros H. destruct (op_get_hit_sound _ _ _ _ _ _ H) as (_ & c0 & it & C0 & R & E & _ & Hr).
  exists c0, it. split; [exact C0|]. split; [exact R|].
  apply expired_false in E.
  assert (Hr' : (exp it = 0 -> r = -1) /\ (exp it <> 0 -> r = exp it - now c)).
  { destruct (Z.eqb_spec (exp it) 0); lia. }
  clear Hr. destruct Hr' as [Hr0 Hr1].
  split; [exact Hr0|]. split; [exact Hr1|]. split; [intros Hp; split; lia|].
  intros t0 n0 Ht Hn Hs Hn0.
  pose proof (remaining_le_ttl t0 n0 (now c) Ht Hn) as B1. pose proof (stamp_nonneg t0 n0 Hn0) as B2.
  pose proof (stamp_zero_iff t0 n0 Hn0) as B3. lia.
Qed.

(* strictly decreasing in the clock: two reads of the same entry at clocks n1 < n2 *)
Theorem c05_remaining_decreasing c1 c2 k sh it c1' c2' v1 v2 r1 r2 :
  closed c1 = false -> closed c2 = false ->
  resident c1 sh k = Some it -> resident c2 sh k = Some it -> exp it <> 0 ->
  now c1 < now c2 ->
  op_get c1 k sh = (c1', true, v1, r1) -> op_get c2 k sh = (c2', true, v2, r2) -> r2 < r1.
Proof.
  intros H1 H2 R1 R2 E N G1 G2.
  pose proof (op_get_resident _ _ _ _ _ _ _ _ H1 R1 G1) as P1.
  pose proof (op_get_resident _ _ _ _ _ _ _ _ H2 R2 G2) as P2.
  destruct (expired it (now c1)); [destruct P1; discriminate|].
  destruct (expired it (now c2)); [destruct P2; discriminate|].
  destruct P1 as (_ & _ & ->). destruct P2 as (_ & _ & ->).
  destruct (Z.eqb_spec (exp it) 0); lia.
Qed.

(** ** Exists *)
Theorem op_exists_resident c k sh c' b :
  closed c = false -> op_exists c k sh = (c', b) ->
  b = match resident c sh k with Some it => negb (expired it (now c)) | None => false end.
Proof.
  unfold resident, op_exists. intros Hc. rewrite Hc.
  destruct (get_shard c sh) as [s|]; [|intros H; injection H as _ <-; reflexivity].
  destruct (lookup s (policy c) k) as [it|]; [|intros H; injection H as _ <-; reflexivity].
  destruct (expired it (now c)).
  - destruct (drop_item (env_of c) s it reasonExpired) as [[s1 o] d]. intros H; injection H as _ <-. reflexivity.
  - intros H; injection H as _ <-. reflexivity.
Qed.

Theorem c05_never_after_deadline_exists c k sh it c' b :
  resident c sh k = Some it -> 0 < exp it < now c -> op_exists c k sh = (c', b) -> b = false.
Proof.
  intros R E H. destruct (closed c) eqn:Hc.
  - unfold op_exists in H. rewrite Hc in H. injection H as _ <-. reflexivity.
  - rewrite (op_exists_resident _ _ _ _ _ Hc H), R, (proj2 (expired_spec it (now c)) E). reflexivity.
Qed.

Theorem op_exists_true_sound c k sh c' :
  op_exists c k sh = (c', true) ->
  closed c = false /\ c' = c /\ exists it, resident c sh k = Some it /\ expired it (now c) = false.
Proof.
  unfold resident, op_exists. destruct (closed c); [discriminate|].
  destruct (get_shard c sh) as [s|]; [|discriminate].
  destruct (lookup s (policy c) k) as [it|]; [|discriminate].
  destruct (expired it (now c)) eqn:E.
  - destruct (drop_item (env_of c) s it reasonExpired) as [[s1 o] d]. discriminate.
  - intros H. injection H as <-. split; [reflexivity|]. split; [reflexivity|]. exists it. auto.
Qed.

(** ** Keys: what one shard contributes *)
Definition shard_keys (pol nw : Z) (s : shard) : list Z :=
  map key (filter (fun it => memz (tabk s) (key it) && ((exp it =? 0) || (nw <=? exp it))) (shard_items s pol)).

Lemma op_keys_eq c : closed c = false -> op_keys c = flat_map (shard_keys (policy c) (now c)) (shards c).
Proof. intros Hc. unfold op_keys. rewrite Hc. reflexivity. Qed.

Lemma op_keys_closed c : closed c = true -> op_keys c = [].
Proof. intros Hc. unfold op_keys. rewrite Hc. reflexivity. Qed.

Lemma in_shard_keys pol nw s k :
  In k (shard_keys pol nw s) <->
  exists it, In it (shard_items s pol) /\ key it = k /\ In k (tabk s) /\ (exp it = 0 \/ nw <= exp it).
Proof.
  unfold shard_keys. rewrite in_map_iff. split.
  - intros (it & K & H). apply filter_In in H. destruct H as [Hi Hc]. apply andb_true_iff in Hc. destruct Hc as [M E].
    exists it. rewrite K in M. apply memz_In in M. repeat split; auto. lia.
  - intros (it & Hi & K & M & E). exists it. split; [exact K|]. apply filter_In. split; [exact Hi|].
    apply andb_true_iff. split; [rewrite K; apply memz_In; exact M|lia].
Qed.

(* every listed key is published in some shard with a deadline that has not passed *)
Theorem op_keys_sound c k :
  In k (op_keys c) ->
  closed c = false /\
  exists s it, In s (shards c) /\ In it (shard_items s (policy c)) /\ key it = k /\ In k (tabk s) /\
               (exp it = 0 \/ now c <= exp it) /\ expired it (now c) = false.
Proof.
  destruct (closed c) eqn:Hc; [rewrite (op_keys_closed _ Hc); intros []|].
  rewrite (op_keys_eq _ Hc), in_flat_map. intros (s & Hs & Hk). split; [reflexivity|].
  apply in_shard_keys in Hk. destruct Hk as (it & Hi & K & M & E).
  exists s, it. repeat split; auto. apply expired_false. lia.
Qed.

(* ================================================================== *)
(** * P. No shard function touches the queue of pending SetAsync commands *)
(* ================================================================== *)

Lemma pend_drop_item e s it r : pend (fst (fst (drop_item e s it r))) = pend s.
Proof.
  unfold drop_item. destruct (negb (unpub it) && negb (memz (tabk s) (key it))); [reflexivity|].
  cbn [fst]. sfld. destruct (is_sieve s (e_pol e)); [|reflexivity].
  unfold sieve_unlink. destruct (has_key (main s) (key it)); [reflexivity|].
  destruct (has_key (prob s) (key it)); reflexivity.
Qed.

Lemma pend_pop_ev s kind : pend (fst (pop_ev s kind)) = pend s.
Proof. unfold pop_ev. destruct (evs s) as [|[k a] r]; [reflexivity|]. destruct (k =? kind); reflexivity. Qed.

Lemma pend_apply_adapts fuel : forall s, pend (apply_adapts fuel s) = pend s.
Proof.
  induction fuel as [|f IH]; intros s; cbn [apply_adapts]; [reflexivity|].
  destruct (evs s) as [|[k a] r]; [reflexivity|]. destruct (k =? evAdapt); [|reflexivity].
  destruct ((pmin s <=? a) && (a <=? pmax s)); [rewrite IH|]; reflexivity.
Qed.

Lemma pend_adapts s : pend (adapts s) = pend s.
Proof. apply pend_apply_adapts. Qed.

Ltac use_pend L E := let H := fresh "Hp" in pose proof L as H; rewrite E in H; cbn [fst] in H.

Lemma pend_evict_one e s : pend (fst (evict_one e s)) = pend s.
Proof.
  unfold evict_one. destruct (e_pol e =? policyLFU).
  - destruct (lfu s); [reflexivity|].
    destruct (pop_ev s evLfu) as [s1 v] eqn:E1. use_pend (pend_pop_ev s evLfu) E1.
    destruct v as [vk|]; [|exact Hp].
    destruct (negb (memz (lfu_min_bucket (lfu s1)) vk)); [exact Hp|].
    match goal with |- context [find_item (lst ?x) vk] => set (s2 := x) end.
    destruct (find_item (lst s2) vk) as [it|]; [|exact Hp].
    match goal with |- context [drop_item ?e' s2 it reasonCapacity] =>
      destruct (drop_item e' s2 it reasonCapacity) as [[s3 o] d] eqn:E3; use_pend (pend_drop_item e' s2 it reasonCapacity) E3 end.
    cbn [fst]. rewrite Hp0. exact Hp.
  - destruct (last_item (lst s)) as [it|]; [|reflexivity].
    match goal with |- context [drop_item ?e' s it reasonCapacity] =>
      destruct (drop_item e' s it reasonCapacity) as [[s3 o] d] eqn:E3; use_pend (pend_drop_item e' s it reasonCapacity) E3 end.
    exact Hp.
Qed.

Lemma pend_evict_while fuel e : forall s pre add acc, pend (fst (evict_while fuel e s pre add acc)) = pend s.
Proof.
  induction fuel as [|f IH]; intros s pre add acc; cbn [evict_while]; [reflexivity|].
  destruct ((if pre then would_over s add else over_capacity s) && (0 <? zlen (tabk s))); [|reflexivity].
  destruct (evict_one e s) as [s1 d] eqn:E1. use_pend (pend_evict_one e s) E1. rewrite IH. exact Hp.
Qed.

Lemma pend_apply_classic e s k v ex c : pend (fst (fst (apply_classic e s k v ex c))) = pend s.
Proof.
  unfold apply_classic. destruct (lookup s (e_pol e) k) as [old|].
  - cbv zeta. match goal with |- context [over_capacity ?x] => set (s1 := x) end.
    destruct (over_capacity s1); [|reflexivity].
    destruct (evict_while (S (length (tabk s1))) e s1 false 0 0) as [s2 d] eqn:E. use_pend (pend_evict_while (S (length (tabk s1))) e s1 false 0 0) E.
    exact Hp.
  - destruct (evict_while (S (length (tabk s))) e s true c 0) as [s1 d] eqn:E. use_pend (pend_evict_while (S (length (tabk s))) e s true c 0) E.
    exact Hp.
Qed.

(* ---- the SieveTinyLFU write path ---- *)
Lemma pend_promote s it : pend (promote s it) = pend s.
Proof. unfold promote. destruct (has_key (prob s) (key it) && (0 <? mcap s)); reflexivity. Qed.

Lemma pend_find_victim n : forall s c force, pend (fst (find_victim n s c force)) = pend s.
Proof.
  induction n as [|n IH]; intros s c force; cbn [find_victim].
  - destruct force; [|reflexivity]. destruct (main_candidate s c); reflexivity.
  - destruct (main_candidate s c) as [it|]; [|reflexivity]. destruct (visited it); [|reflexivity].
    cbv zeta. rewrite IH. reflexivity.
Qed.

Lemma pend_find_main_victim s scan force : pend (fst (find_main_victim s scan force)) = pend s.
Proof. unfold find_main_victim. destruct (main s); [reflexivity|]. apply pend_find_victim. Qed.

Lemma pend_drop_prob_victim e s it : pend (fst (fst (drop_prob_victim e s it))) = pend s.
Proof.
  unfold drop_prob_victim. destruct (drop_item e s it reasonCapacity) as [[s1 ok] d] eqn:E.
  use_pend (pend_drop_item e s it reasonCapacity) E. destruct ok; exact Hp.
Qed.

Lemma pend_evict_probation e s : pend (fst (fst (evict_probation e s))) = pend s.
Proof.
  unfold evict_probation. destruct (last_item (prob s)) as [it|]; [|reflexivity].
  destruct ((probationPromotionReuse <=? reuse it) || visited it); [apply pend_promote|].
  destruct (drop_prob_victim e s it) as [[s1 o] d] eqn:E. use_pend (pend_drop_prob_victim e s it) E. exact Hp.
Qed.

Lemma pend_evict_main e s inn tie scan force : pend (fst (fst (evict_main e s inn tie scan force))) = pend s.
Proof.
  unfold evict_main. cbv zeta.
  set (inn' := match inn with Some k => if owns s k then Some k else None | None => None end). clearbody inn'.
  destruct (find_main_victim s scan force) as [s1 v] eqn:E1. use_pend (pend_find_main_victim s scan force) E1.
  destruct v as [vk|].
  - assert (D : forall s2 adm, pend s2 = pend s ->
      pend (fst (fst (if negb adm
        then match inn' with
             | Some k => match find_q s2 k with
                         | Some it => let '(s3, ok, d) := drop_item e s2 it reasonRejected in (s3, ok, d)
                         | None => (s2, false, 0) end
             | None => (s2, false, 0) end
        else match find_q s2 vk with
             | Some it => let '(s3, ok, d) := drop_item e s2 it reasonCapacity in
                          if ok then (bump s3 0 0 0 1, true, d) else (s3, false, d)
             | None => (s2, false, 0) end))) = pend s).
    { intros s2 adm H2. destruct (negb adm).
      - destruct inn' as [k|]; [|exact H2]. destruct (find_q s2 k) as [it|]; [|exact H2].
        destruct (drop_item e s2 it reasonRejected) as [[s3 ok] d] eqn:E. use_pend (pend_drop_item e s2 it reasonRejected) E.
        cbn [fst]. congruence.
      - destruct (find_q s2 vk) as [it|]; [|exact H2].
        destruct (drop_item e s2 it reasonCapacity) as [[s3 ok] d] eqn:E. use_pend (pend_drop_item e s2 it reasonCapacity) E.
        destruct ok; cbn [fst]; unfold bump; sfld; congruence. }
    destruct inn' as [k|].
    + destruct (k =? vk).
      * apply (D s1 true Hp).
      * match goal with |- context [pop_ev s1 ?kd] =>
          destruct (pop_ev s1 kd) as [s2 a] eqn:E2; use_pend (pend_pop_ev s1 kd) E2 end.
        apply D. congruence.
    + apply (D s1 true Hp).
  - destruct inn' as [k|]; [|exact Hp]. destruct force; [|exact Hp].
    destruct (find_q s1 k) as [it|]; [|exact Hp].
    destruct (drop_item e s1 it reasonRejected) as [[s2 ok] d] eqn:E. use_pend (pend_drop_item e s1 it reasonRejected) E.
    cbn [fst]. congruence.
Qed.

Lemma pend_force_evict e s : pend (fst (fst (force_evict e s))) = pend s.
Proof.
  unfold force_evict. destruct (last_item (prob s)) as [it|]; [apply pend_drop_prob_victim|].
  destruct (main s); [reflexivity|].
  destruct (find_main_victim s 1 true) as [s1 v] eqn:E1. use_pend (pend_find_main_victim s 1 true) E1.
  destruct v as [vk|]; [|exact Hp]. destruct (find_q s1 vk) as [it|]; [|exact Hp].
  destruct (drop_item e s1 it reasonCapacity) as [[s2 ok] d] eqn:E. use_pend (pend_drop_item e s1 it reasonCapacity) E.
  destruct ok; cbn [fst]; unfold bump; sfld; congruence.
Qed.

Lemma pend_enforce_loop w e : forall s inn tie acc, pend (fst (fst (fst (enforce_loop w e s inn tie acc)))) = pend s.
Proof.
  induction w as [|w IH]; intros s inn tie acc; cbn [enforce_loop]; [reflexivity|].
  destruct (negb (over_capacity s)); [reflexivity|].
  assert (EP : forall s1 p d, evict_probation e s = (s1, p, d) ->
     pend (fst (fst (fst (match p with
       | Some k => enforce_loop w e s1 (Some k) true (acc + d)
       | None => enforce_loop w e s1 inn tie (acc + d) end)))) = pend s).
  { intros s1 p d E. use_pend (pend_evict_probation e s) E. destruct p; rewrite IH; exact Hp. }
  destruct ((pcap s <? zlen (prob s)) && negb (zlen (prob s) =? 0)).
  { destruct (evict_probation e s) as [[s1 p] d] eqn:E. exact (EP _ _ _ eq_refl). }
  destruct (negb (zlen (main s) =? 0)).
  - destruct (pop_ev s evKeep) as [s' a] eqn:E0. use_pend (pend_pop_ev s evKeep) E0.
    set (sk := if in_probation_below_cap s inn
               then (let '(s'0, a0) := (s', a) in (s'0, match a0 with Some x => negb (x =? 0) | None => false end))
               else (let '(s'0, _) := (s', a) in (s'0, false))).
    assert (SK : fst sk = s') by (unfold sk; destruct (in_probation_below_cap s inn); reflexivity).
    destruct sk as [s0 keep]. cbn [fst] in SK. subst s0.
    destruct (evict_main e s' (if keep then None else inn) (if keep then false else tie) defaultMainVictimScan false)
      as [[s1 ok] d] eqn:E1.
    use_pend (pend_evict_main e s' (if keep then None else inn) (if keep then false else tie) defaultMainVictimScan false) E1.
    destruct ok; rewrite IH; congruence.
  - destruct (negb (zlen (prob s) =? 0)); [|reflexivity].
    destruct (evict_probation e s) as [[s1 p] d] eqn:E. exact (EP _ _ _ eq_refl).
Qed.

Lemma pend_force_loop fuel e : forall s acc, pend (fst (force_loop fuel e s acc)) = pend s.
Proof.
  induction fuel as [|f IH]; intros s acc; cbn [force_loop]; [reflexivity|].
  destruct (over_capacity s && (0 <? zlen (tabk s))); [|reflexivity].
  destruct (force_evict e s) as [[s1 ok] d] eqn:E. use_pend (pend_force_evict e s) E.
  destruct ok; [rewrite IH|]; exact Hp.
Qed.

Lemma pend_enforce e s inn tie : pend (fst (enforce e s inn tie)) = pend s.
Proof.
  unfold enforce.
  destruct (enforce_loop (Z.to_nat maxEvictionWork) e s inn tie 0) as [[[s1 inn1] tie1] a1] eqn:E1.
  use_pend (pend_enforce_loop (Z.to_nat maxEvictionWork) e s inn tie 0) E1.
  destruct (negb (over_capacity s1)); [exact Hp|].
  set (X := if negb (zlen (prob s1) =? 0)
            then (let '(s', p, d) := evict_probation e s1 in
                  match p with Some k => (s', Some k, true, a1 + d) | None => (s', inn1, tie1, a1 + d) end)
            else (s1, inn1, tie1, a1)).
  assert (HX : pend (fst (fst (fst X))) = pend s).
  { unfold X. destruct (negb (zlen (prob s1) =? 0)); [|exact Hp].
    destruct (evict_probation e s1) as [[s' p] d] eqn:E2. use_pend (pend_evict_probation e s1) E2.
    destruct p; cbn [fst]; congruence. }
  destruct X as [[[s2 inn2] tie2] a2]. cbn [fst] in HX.
  destruct (negb (over_capacity s2)); [exact HX|].
  set (Y := if negb (zlen (main s2) =? 0)
            then (let '(s', _, d) := evict_main e s2 inn2 tie2 defaultMainVictimScan true in (s', a2 + d))
            else (s2, a2)).
  assert (HY : pend (fst Y) = pend s).
  { unfold Y. destruct (negb (zlen (main s2) =? 0)); [|exact HX].
    destruct (evict_main e s2 inn2 tie2 defaultMainVictimScan true) as [[s' o] d] eqn:E3.
    use_pend (pend_evict_main e s2 inn2 tie2 defaultMainVictimScan true) E3. cbn [fst]. congruence. }
  destruct Y as [s3 a3]. cbn [fst] in HY. rewrite pend_force_loop. exact HY.
Qed.

Lemma pend_record_update s k : pend (record_update s k) = pend s.
Proof.
  unfold record_update. destruct (find_item (main s) k) as [it|]; [reflexivity|].
  destruct (find_item (prob s) k) as [it|]; [|reflexivity]. cbv zeta.
  match goal with |- context [if ?b then _ else _] => destruct b end; [rewrite pend_promote|]; reflexivity.
Qed.

Lemma pend_apply_sieve e s k v ex c : pend (fst (fst (apply_sieve e s k v ex c))) = pend s.
Proof.
  unfold apply_sieve. cbv zeta. destruct (lookup s (e_pol e) k) as [prev|].
  - match goal with |- context [if warmup s then ?a else record_update ?a k] =>
      set (s2 := a); assert (H2 : pend s2 = pend s) by (unfold s2; destruct (has_key (prob s) k); reflexivity) end.
    clearbody s2.
    assert (H3 : pend (if warmup s then s2 else record_update s2 k) = pend s).
    { destruct (warmup s); [exact H2|]. rewrite pend_record_update. exact H2. }
    set (s3 := if warmup s then s2 else record_update s2 k) in *. clearbody s3.
    destruct (over_capacity s3); [|exact H3].
    destruct (enforce e s3 None false) as [s4 d] eqn:E. use_pend (pend_enforce e s3 None false) E. cbn [fst]. congruence.
  - destruct (pop_ev s evGhost) as [s' a] eqn:E0. use_pend (pend_pop_ev s evGhost) E0.
    set (gh := negb (warmup s) && match a with Some x => negb (x =? 0) | None => false end). clearbody gh.
    assert (H0 : pend (adapts s') = pend s) by (rewrite pend_adapts; exact Hp).
    set (s0 := adapts s') in *. clearbody s0.
    set (to_main := gh && (0 <? mcap s0)). clearbody to_main.
    match goal with |- context [if negb (warmup s) || over_capacity ?x then enforce e ?x (Some k) gh else (?x, 0)] =>
      set (s1 := x); assert (H1 : pend s1 = pend s) by (unfold s1; destruct to_main; exact H0) end.
    clearbody s1.
    set (R := if negb (warmup s) || over_capacity s1 then enforce e s1 (Some k) gh else (s1, 0)).
    assert (HR : pend (fst R) = pend s).
    { unfold R. destruct (negb (warmup s) || over_capacity s1); [rewrite pend_enforce|]; exact H1. }
    destruct R as [s2 d]. cbn [fst] in HR. destruct (owns s2 k); exact HR.
Qed.

Theorem pend_apply_set e s k v ex c : pend (fst (fst (apply_set e s k v ex c))) = pend s.
Proof.
  unfold apply_set. destruct (is_sieve s (e_pol e)); [rewrite pend_apply_sieve; apply pend_adapts|apply pend_apply_classic].
Qed.

(* ================================================================== *)
(** * C. One shard, any policy: unified invariant, and the shard as seen through [lookup] *)
(* ================================================================== *)

Definition ShInv (pol m : Z) (s : shard) : Prop :=
  (is_sieve s pol = false /\ Good pol m s) \/
  (is_sieve s pol = true /\ SP.SInv s /\ SP.Quiet s /\ SP.Ledger s /\ SP.NotifLog m s).

Lemma is_sieve_pol s pol : is_sieve s pol = true -> pol = policySieve.
Proof. unfold is_sieve. intros H. apply andb_true_iff in H. lia. Qed.

(* the policy-independent part of an entry: (key, value, deadline, cost, unpublished) *)
Definition essence := (Z * Z * Z * Z * bool)%type.
Definition lke (pol : Z) (s : shard) (k : Z) : option essence := option_map SP.ess (lookup s pol k).

Lemma lke_some pol s k t : lke pol s k = Some t -> exists it, lookup s pol k = Some it /\ SP.ess it = t.
Proof. unfold lke. destruct (lookup s pol k) as [it|]; [|discriminate]. intros H. injection H as <-. eauto. Qed.

Lemma lke_none pol s k : lke pol s k = None <-> lookup s pol k = None.
Proof. unfold lke. destruct (lookup s pol k); cbn [option_map]; split; intros H; try discriminate; reflexivity. Qed.

Lemma ess_expired it it' nw : SP.ess it = SP.ess it' -> expired it nw = expired it' nw.
Proof. unfold SP.ess, expired. intros H. injection H as _ _ -> _ _. reflexivity. Qed.

(* lookup by key in a list of essences *)
Fixpoint efind (E : list essence) (k : Z) : option essence :=
  match E with [] => None | t :: r => if SP.ekey t =? k then Some t else efind r k end.

Lemma efind_map_ess l k : efind (map SP.ess l) k = option_map SP.ess (find_item l k).
Proof.
  induction l as [|x l IH]; cbn [map efind find_item option_map]; [reflexivity|].
  change (SP.ekey (SP.ess x)) with (key x). destruct (key x =? k); [reflexivity|exact IH].
Qed.

Lemma efind_some E k t : efind E k = Some t -> In t E /\ SP.ekey t = k.
Proof.
  induction E as [|x E IH]; cbn [efind]; [discriminate|].
  destruct (Z.eqb_spec (SP.ekey x) k) as [Ek|Ek]; intros H.
  - injection H as <-. split; [left; reflexivity|exact Ek].
  - destruct (IH H) as [A B]. split; [right; exact A|exact B].
Qed.

Lemma efind_none E k : efind E k = None <-> ~ In k (map SP.ekey E).
Proof.
  induction E as [|x E IH]; cbn [efind map In]; [tauto|].
  destruct (Z.eqb_spec (SP.ekey x) k) as [Ek|Ek]; [split; [discriminate|tauto]|].
  rewrite IH. tauto.
Qed.

Lemma efind_unique E k t : NoDup (map SP.ekey E) -> In t E -> SP.ekey t = k -> efind E k = Some t.
Proof.
  induction E as [|x E IH]; cbn [efind map In]; intros ND H K; [destruct H|].
  inversion ND as [|y l Hy ND']; subst.
  destruct H as [->|H]; [rewrite Z.eqb_refl; reflexivity|].
  destruct (Z.eqb_spec (SP.ekey x) (SP.ekey t)) as [Ek|Ek]; [|apply IH; auto].
  exfalso. apply Hy. rewrite Ek. apply in_map. exact H.
Qed.

Lemma efind_perm E E' k : NoDup (map SP.ekey E) -> Permutation E E' -> efind E k = efind E' k.
Proof.
  intros ND P. assert (ND' : NoDup (map SP.ekey E')) by exact (Permutation_NoDup (Permutation_map SP.ekey P) ND).
  destruct (efind E k) as [t|] eqn:F.
  - destruct (efind_some _ _ _ F) as [A B]. symmetry. apply efind_unique; auto. exact (Permutation_in _ P A).
  - symmetry. apply efind_none. apply efind_none in F. intros H. apply F.
    exact (Permutation_in _ (Permutation_sym (Permutation_map SP.ekey P)) H).
Qed.

Lemma efind_app A B k : efind (A ++ B) k = match efind A k with Some t => Some t | None => efind B k end.
Proof. induction A as [|x A IH]; cbn [app efind]; [reflexivity|]. destruct (SP.ekey x =? k); [reflexivity|exact IH]. Qed.


(* ---- entries dropped by one write: (item, reason) ---- *)
Definition dkey (p : item * Z) : Z := key (fst p).
Definition dnotes (m : Z) (dl : list (item * Z)) : list notif :=
  flat_map (fun p => if mask_has m (snd p) then [mk_notif (fst p) (snd p)] else []) dl.
Definition wlog (old : option item) (k v : Z) : list (Z * Z * Z) :=
  match old with Some prev => [(1, k, val prev); (0, k, v)] | None => [(0, k, v)] end.
Definition cap_drops (l : list item) : list (item * Z) := map (fun it => (it, reasonCapacity)) l.

Lemma cap_drops_dent l : map SP.dent (cap_drops l) = map drop_entry l.
Proof. unfold cap_drops. rewrite map_map. reflexivity. Qed.
Lemma cap_drops_keys l : map dkey (cap_drops l) = map key l.
Proof. unfold cap_drops. rewrite map_map. reflexivity. Qed.
Lemma cap_drops_notes m l :
  dnotes m (cap_drops l) = if mask_has m reasonCapacity then map (fun it => mk_notif it reasonCapacity) l else [].
Proof.
  unfold dnotes, cap_drops. induction l as [|x l IH]; cbn [map flat_map fst snd]; [destruct (mask_has m reasonCapacity); reflexivity|].
  rewrite IH. destruct (mask_has m reasonCapacity); reflexivity.
Qed.
Lemma sp_dnots e dl : SP.dnots e dl = dnotes (e_mask e) dl.
Proof. reflexivity. Qed.

(* the entries of a classic drop sequence were resident, with pairwise different keys *)
Lemma drops_resident G pol lf m s l s' :
  (pol = policyLFU -> lf = true) -> Drops G lf m s l s' -> CInv pol s ->
  (forall it, In it l -> In it (lst s)) /\ NoDup (map key l).
Proof.
  intros Hlf. induction 1 as [s s' F|s it s1 l s' g Hf DR D IH]; intros C.
  - split; [intros it []|constructor].
  - assert (C1 : CInv pol s1) by (eapply CInv_drop; eauto).
    destruct (IH C1) as [A B]. rewrite (dr_lst _ _ _ _ _ _ DR) in A.
    split.
    + intros x [<-|Hx]; [exact (proj1 (find_item_Some _ _ _ Hf))|]. eapply In_remove_key. apply A. exact Hx.
    + cbn [map]. constructor; [|exact B]. intros Hin. apply in_map_iff in Hin. destruct Hin as (x & Kx & Hx).
      apply A in Hx. pose proof (find_remove_same (lst s) (key it) (ci_lst_nodup _ _ C)) as FN.
      apply find_item_None in FN. apply FN. rewrite <- Kx at 1. apply in_map. exact Hx.
Qed.

Lemma efind_others k l k' : k' <> k -> efind (map SP.ess (SP.others k l)) k' = efind (map SP.ess l) k'.
Proof.
  intros N. unfold SP.others. induction l as [|x l IH]; cbn [filter map efind]; [reflexivity|].
  destruct (Z.eqb_spec (key x) k) as [Ek|Ek]; cbn [negb map efind]; change (SP.ekey (SP.ess x)) with (key x).
  - destruct (Z.eqb_spec (key x) k'); [congruence|exact IH].
  - destruct (key x =? k'); [reflexivity|exact IH].
Qed.

Lemma efind_ess_as k b l k' : efind (map (SP.ess_as k b) l) k' = option_map (SP.ess_as k b) (find_item l k').
Proof.
  induction l as [|x l IH]; cbn [map efind find_item option_map]; [reflexivity|].
  rewrite SP.ess_as_key. destruct (key x =? k'); [reflexivity|exact IH].
Qed.

Lemma same_lookup s s' pol k : SP.Same s s' -> lookup s' pol k = lookup s pol k.
Proof.
  intros (A1 & A2 & A3 & A4 & A5 & A6 & A7 & A8 & A9 & A10 & A11 & A12 & _). unfold lookup, is_sieve. rewrite A1, A2, A4, A10, A12. reflexivity.
Qed.

Lemma sinv_ess_nodup s : SP.SInv s -> NoDup (map SP.ekey (map SP.ess (SP.items s))).
Proof. intros I. exact (proj1 (proj1 (proj1 (SP.SInv_ess s) I))). Qed.

Section OneShard.
Variables (pol m : Z) (e : env).
Hypothesis Hpol : e_pol e = pol.
Hypothesis Hmask : e_mask e = m.

Lemma sieve_env s : is_sieve s pol = true -> e_pol e = policySieve.
Proof. intros H. rewrite Hpol. exact (is_sieve_pol _ _ H). Qed.

(* the Sieve view is "find by key in the essences of the queues" *)
Lemma sieve_lke s k : is_sieve s pol = true -> SP.SInv s -> SP.Quiet s ->
  lke pol s k = efind (map SP.ess (SP.items s)) k.
Proof.
  intros HS I Q. unfold lke. rewrite <- Hpol.
  rewrite (proj1 (SP.lookup_spec e (sieve_env s HS) s k I Q)). symmetry. apply efind_map_ess.
Qed.

Lemma classic_lke s k : CInv pol s -> lke pol s k = option_map SP.ess (find_item (lst s) k).
Proof. intros C. unfold lke. rewrite (lookup_find _ _ _ C). reflexivity. Qed.

(** U1: what a successful lookup means *)
Lemma sh_lookup_some s k it : ShInv pol m s -> lookup s pol k = Some it ->
  key it = k /\ unpub it = false /\ In k (tabk s) /\ 0 <= cost it.
Proof.
  intros [[HS (C & _)]|(HS & I & Q & _)] LK.
  - destruct (lookup_resident _ _ _ _ C LK) as (_ & A & B & _ & D1 & D2). auto.
  - rewrite <- Hpol in LK. destruct (SP.lookup_some e (sieve_env s HS) s k it I LK) as (A & B & C & D & _).
    repeat split; auto. exact (SP.iv_costnn _ _ _ _ _ _ _ _ _ _ _ _ _ I it A).
Qed.

Lemma sh_tabk_resident s k : ShInv pol m s -> In k (tabk s) -> exists it, lookup s pol k = Some it.
Proof.
  intros [[HS (C & _)]|(HS & I & Q & _)] Hk.
  - apply (ClassicProofs.lookup_spec pol s k C). exact Hk.
  - rewrite <- Hpol. destruct (SP.lookup_spec e (sieve_env s HS) s k I Q) as [_ B].
    apply B in Hk. destruct (lookup s (e_pol e) k) as [it|]; [eauto|congruence].
Qed.

(** U2: dropping a looked-up entry (Delete, expiry through Get / Exists / Cleanup) *)
Record DropSpec (s : shard) (k : Z) (it : item) (r : Z) (s' : shard) : Prop := {
  ds_inv : ShInv pol m s';
  ds_glog : glog s' = glog s ++ [(10 + r, k, val it)];
  ds_nlog : nlog s' = nlog s ++ (if mask_has m r then [mk_notif it r] else []);
  ds_staged : staged s' = staged s ++ (if mask_has m r then [mk_notif it r] else []);
  ds_view : forall k', lke pol s' k' = if k' =? k then None else lke pol s k';
  ds_tabk : tabk s' = remz (tabk s) k;
  ds_caps : cap s' = cap s /\ costcap s' = costcap s;
  ds_sieve : is_sieve s' pol = is_sieve s pol
}.

Lemma sh_drop s k it r s' ok d : ShInv pol m s -> lookup s pol k = Some it -> 0 <= r ->
  drop_item e s it r = (s', ok, d) ->
  DropSpec s k it r s' /\ ok = true /\ d = (if e_stats e && (r =? reasonCapacity) then 1 else 0).
Proof.
  intros [[HS G]|(HS & I & Q & Lg & Nl)] LK Hr D.
  - (* classic *)
    pose proof G as (C & _).
    destruct (lookup_resident _ _ _ _ C LK) as (Hf & Hk & Hkt & Hin & Hok & Hu).
    rewrite <- Hpol, <- Hmask in G. rewrite <- Hpol in LK.
    destruct (lookup_drop_good e s k it r s' ok d Hr G LK D) as (G' & Ok & Dd).
    rewrite Hpol, Hmask in G'.
    pose proof D as D2. apply drop_item_rel in D2; [|rewrite Hpol; exact HS|exact Hu|rewrite Hk; exact Hkt].
    destruct D2 as (DR & _). rewrite Hmask in DR. destruct DR as [D1 D2 D3 D4 D5 D6 D7 D8 D9 D10 D11 D12 D13].
    rewrite Hk in *.
    assert (HS' : is_sieve s' pol = is_sieve s pol) by (apply is_sieve_cap; exact D1).
    split; [|split; assumption].
    constructor; auto.
    + left. split; [rewrite HS'; exact HS|exact G'].
    + intros k'. rewrite (classic_lke s' k' (proj1 G')), (classic_lke s k' C), D4.
      destruct (Z.eqb_spec k' k) as [->|N].
      * rewrite find_remove_same by apply (ci_lst_nodup _ _ C). reflexivity.
      * rewrite find_remove_other by exact N. reflexivity.
  - (* sieve *)
    pose proof (sieve_env s HS) as HP. rewrite <- Hpol in LK.
    destruct (SP.lookup_some e HP s k it I LK) as (Hin & Hk & Hu & Hkt & Hf).
    destruct (SP.drop_item_spec e HP s it r I Hin) as [s2 (D' & F & P & T & Z1 & C1 & HO & Gl & Nl' & St & _)].
    assert (FR : SP.final_reason it r = r) by (unfold SP.final_reason; rewrite Hu; reflexivity).
    rewrite FR in *. rewrite D in D'. injection D' as <- -> ->.
    destruct (SP.drop_item_preserves e HP s it r s' true _ I Hin Hr D) as (_ & I' & Q' & _ & Lg' & Nl2).
    destruct F as (F1 & F2 & _).
    assert (HS' : is_sieve s' pol = is_sieve s pol) by (apply is_sieve_cap; exact F1).
    rewrite Hu in T. rewrite Hk in *. rewrite Hmask in *.
    split; [|split; reflexivity].
    constructor; auto.
    + right. rewrite HS'. split; [exact HS|]. split; [exact I'|]. split; [exact (Q' Q)|]. split; [exact (Lg' Lg)|exact (Nl2 Nl)].
    + rewrite Nl'. unfold SP.notif_of, mk_notif. rewrite Hmask, Hk. reflexivity.
    + rewrite St. unfold SP.notif_of, mk_notif. rewrite Hmask, Hk. reflexivity.
    + intros k'. rewrite (sieve_lke s' k') by (rewrite ?HS'; auto).
      rewrite (sieve_lke s k' HS I Q).
      rewrite (efind_perm _ _ k' (sinv_ess_nodup s I) P).
      cbn [efind]. change (SP.ekey (SP.ess it)) with (key it). rewrite Hk, (Z.eqb_sym k k').
      destruct (Z.eqb_spec k' k) as [->|N]; [|reflexivity].
      apply efind_none.
      pose proof (Permutation_NoDup (Permutation_map SP.ekey P) (sinv_ess_nodup s I)) as ND.
      cbn [map] in ND. inversion ND as [|x l Hx _]; subst. change (SP.ekey (SP.ess it)) with (key it) in Hx.
      exact Hx.
Qed.

(** U3: one write applied to its shard (apply_set), any policy *)
Record SetSpec (s : shard) (k v ex c : Z) (s' : shard) (d : Z) (dl : list (item * Z)) : Prop := {
  ss_inv : ShInv pol m s';
  ss_glog : glog s' = glog s ++ wlog (lookup s pol k) k v ++ map SP.dent dl \/
            (glog s' = glog s ++ map SP.dent dl ++ wlog (lookup s pol k) k v /\ ~ In k (map dkey dl));
  ss_nlog : nlog s' = nlog s ++ dnotes m dl;
  ss_staged : staged s' = staged s ++ dnotes m dl;
  ss_nodup : NoDup (map dkey dl);
  ss_view : forall k', lke pol s' k' = if memz (map dkey dl) k' then None
                                        else if k' =? k then Some (k, v, ex, c, false) else lke pol s k';
  ss_dropped : Forall (fun p => (dkey p = k /\ val (fst p) = v) \/
                               (dkey p <> k /\ lke pol s (dkey p) = Some (SP.ess (fst p)))) dl;
  ss_reasons : Forall (fun p => (snd p = reasonCapacity /\ unpub (fst p) = false) \/
                               (snd p = reasonRejected /\ is_sieve s pol = true)) dl;
  ss_evict : d = if e_stats e then Z.of_nat (length (filter (fun p => snd p =? reasonCapacity) dl)) else 0;
  ss_caps : cap s' = cap s /\ costcap s' = costcap s;
  ss_sieve : is_sieve s' pol = is_sieve s pol;
  ss_update : forall old, lookup s pol k = Some old -> over_capacity s = false ->
              (costcap s <= 0 \/ c <= cost old) -> dl = []
}.

Lemma sh_apply_set_classic s k v ex c s' cm d :
  is_sieve s pol = false -> Good pol m s -> 0 <= c -> apply_classic e s k v ex c = (s', cm, d) ->
  exists dl, SetSpec s k v ex c s' d dl.
Proof.
  intros HS G Hc H. pose proof G as (C & _).
  pose proof (apply_classic_good pol m e s k v ex c s' cm d Hpol Hmask Hc G H) as G'.
  destruct (apply_classic_spec pol e s k v ex c s' cm d Hpol C Hc H) as (_ & S).
  rewrite Hmask in S.
  destruct (find_item (lst s) k) as [old|] eqn:Hf.
  - destruct S as (l & D & Hd & _).
    pose proof (CInv_upd pol s old k v ex c C Hf Hc) as C1.
    pose proof (Drops_eff _ pol _ _ _ _ _ (drops_lf pol) D C1) as EF.
    destruct (drops_resident _ pol _ _ _ _ _ (drops_lf pol) D C1) as [RS ND].
    assert (HS' : is_sieve s' pol = is_sieve s pol) by (apply is_sieve_cap; rewrite (de_cap _ _ _ _ _ EF); reflexivity).
    exists (cap_drops l). constructor.
    + left. split; [rewrite HS'; exact HS|exact G'].
    + left. rewrite (lookup_find pol s k C), Hf, (de_glog _ _ _ _ _ EF), cap_drops_dent. unfold ClassicProofs.upd_state, wlog. sfld.
      rewrite <- app_assoc. reflexivity.
    + rewrite (de_nlog _ _ _ _ _ EF), cap_drops_notes. unfold ClassicProofs.upd_state. sfld. rewrite app_nil_r. reflexivity.
    + rewrite (de_staged _ _ _ _ _ EF), cap_drops_notes. reflexivity.
    + rewrite cap_drops_keys. exact ND.
    + intros k'. rewrite cap_drops_keys, (classic_lke s' k' (proj1 G')), (classic_lke s k' C).
      rewrite (de_find _ _ _ _ _ EF), (find_upd_state _ _ _ _ _ _ _ _ Hf).
      destruct (memz (map key l) k'); [reflexivity|]. destruct (k' =? k); reflexivity.
    + unfold cap_drops. rewrite Forall_map. apply Forall_forall. intros x Hx. unfold dkey. cbn [fst].
      pose proof (find_item_NoDup _ _ (ci_lst_nodup _ _ C1) (RS x Hx)) as Fx.
      rewrite (find_upd_state _ _ _ _ _ _ _ _ Hf) in Fx. destruct (Z.eqb_spec (key x) k) as [Ek|Ek].
      * left. injection Fx as <-. split; [exact Ek|reflexivity].
      * right. split; [exact Ek|]. rewrite (classic_lke s _ C), Fx. reflexivity.
    + unfold cap_drops. rewrite Forall_map. apply Forall_forall. intros x Hx. left. cbn [fst snd]. split; [reflexivity|].
      pose proof (ci_items _ _ C1) as IT. rewrite Forall_forall in IT. exact (proj2 (IT x (RS x Hx))).
    + rewrite Hd. unfold cap_drops, zlen. destruct (e_stats e); [|reflexivity]. f_equal.
      rewrite filter_all, map_length; [reflexivity|]. intros p Hp. apply in_map_iff in Hp. destruct Hp as (x & <- & _). reflexivity.
    + split; [rewrite (de_cap _ _ _ _ _ EF)|rewrite (de_costcap _ _ _ _ _ EF)]; reflexivity.
    + exact HS'.
    + intros old' LKo O HC. rewrite (lookup_find pol s k C), Hf in LKo. injection LKo as <-.
      assert (Hg : ew_cond false 0 (ClassicProofs.upd_state pol s old k v ex c) = false).
      { unfold ew_cond, over_capacity, ClassicProofs.upd_state. sfld. unfold over_capacity in O.
        destruct (0 <? zlen (tabk s)); lia. }
      apply Drops_nil_inv in D; [|exact Hg]. destruct D as [-> _]. reflexivity.
  - destruct S as (l & s1 & D & -> & Hd & _).
    pose proof (Drops_eff _ pol _ _ _ _ _ (drops_lf pol) D C) as EF.
    destruct (drops_resident _ pol _ _ _ _ _ (drops_lf pol) D C) as [RS ND].
    assert (NK : ~ In k (map key l)).
    { intros Hin. apply in_map_iff in Hin. destruct Hin as (x & Kx & Hx). apply find_item_None in Hf. apply Hf.
      rewrite <- Kx. apply in_map. exact (RS x Hx). }
    assert (HS' : is_sieve (ClassicProofs.ins_state pol s1 k v ex c) pol = is_sieve s pol).
    { apply is_sieve_cap. unfold ClassicProofs.ins_state. sfld. exact (de_cap _ _ _ _ _ EF). }
    exists (cap_drops l). constructor.
    + left. split; [rewrite HS'; exact HS|exact G'].
    + right. rewrite (lookup_find pol s k C), Hf, cap_drops_keys. split; [|exact NK]. unfold ClassicProofs.ins_state, wlog. sfld.
      rewrite (de_glog _ _ _ _ _ EF), cap_drops_dent, <- app_assoc. reflexivity.
    + unfold ClassicProofs.ins_state. sfld. rewrite (de_nlog _ _ _ _ _ EF), cap_drops_notes, app_nil_r. reflexivity.
    + unfold ClassicProofs.ins_state. sfld. rewrite (de_staged _ _ _ _ _ EF), cap_drops_notes. reflexivity.
    + rewrite cap_drops_keys. exact ND.
    + intros k'. rewrite cap_drops_keys, (classic_lke _ k' (proj1 G')), (classic_lke s k' C).
      rewrite find_ins_state, (de_find _ _ _ _ _ EF).
      destruct (Z.eqb_spec k' k) as [->|N].
      * apply memz_false in NK. rewrite NK. reflexivity.
      * destruct (memz (map key l) k'); reflexivity.
    + unfold cap_drops. rewrite Forall_map. apply Forall_forall. intros x Hx. unfold dkey. cbn [fst]. right.
      assert (Ek : key x <> k).
      { intros Ek. apply NK. rewrite <- Ek. apply in_map. exact Hx. }
      split; [exact Ek|]. rewrite (classic_lke s _ C), (find_item_NoDup _ _ (ci_lst_nodup _ _ C) (RS x Hx)). reflexivity.
    + unfold cap_drops. rewrite Forall_map. apply Forall_forall. intros x Hx. left. cbn [fst snd]. split; [reflexivity|].
      pose proof (ci_items _ _ C) as IT. rewrite Forall_forall in IT. exact (proj2 (IT x (RS x Hx))).
    + rewrite Hd. unfold cap_drops, zlen. destruct (e_stats e); [|reflexivity]. f_equal.
      rewrite filter_all, map_length; [reflexivity|]. intros p Hp. apply in_map_iff in Hp. destruct Hp as (x & <- & _). reflexivity.
    + unfold ClassicProofs.ins_state. sfld. split; [rewrite (de_cap _ _ _ _ _ EF)|rewrite (de_costcap _ _ _ _ _ EF)]; reflexivity.
    + exact HS'.
    + intros old LKo _ _. rewrite (lookup_find pol s k C), Hf in LKo. discriminate.
Qed.

Lemma sh_apply_set_sieve s k v ex c s' cm d :
  is_sieve s pol = true -> SP.SInv s -> SP.Quiet s -> SP.Ledger s -> SP.NotifLog m s -> 0 <= c ->
  apply_sieve e (adapts s) k v ex c = (s', cm, d) ->
  exists dl, SetSpec s k v ex c s' d dl.
Proof.
  intros HS I0 Q0 Lg0 Nl0 Hc H. pose proof (sieve_env s HS) as HP.
  destruct (SP.adapts_spec s I0) as (I & SM & _).
  destruct (SP.adapts_preserves e s I0) as (_ & QQ & _ & LL & NN). rewrite Hmask in NN.
  pose proof (QQ Q0) as Q. pose proof (LL Lg0) as Lg. pose proof (NN Nl0) as Nl. clear QQ LL NN.
  set (sa := adapts s) in *.
  assert (LKa : forall k', lookup sa pol k' = lookup s pol k') by (intros k'; apply same_lookup; exact SM).
  assert (LEa : forall k', lke pol sa k' = lke pol s k') by (intros k'; unfold lke; rewrite LKa; reflexivity).
  pose proof (SP.apply_sieve_ledger e HP sa k v ex c s' cm d I Q Hc Lg H) as Lg'.
  assert (Nl' : SP.NotifLog m s').
  { rewrite <- Hmask. apply (SP.apply_sieve_notiflog e HP sa k v ex c s' cm d I Q Hc); [rewrite Hmask; exact Nl|exact H]. }
  destruct (SP.apply_sieve_sum e HP true sa k v ex c s' cm d I Q Hc (SP.FuelHyp_true _ _) H)
    as (I' & Q' & (K1 & K2 & _) & dl & G & N & St & R & D & _ & _ & _ & _ & FIT & P & _ & _).
  rewrite Hpol in G, P, FIT. rewrite LKa in G, P, FIT.
  destruct SM as (_ & _ & _ & _ & A5 & A6 & A7 & A8 & A9 & A10 & A11 & _).
  assert (HSa : is_sieve sa pol = true) by (rewrite (is_sieve_cap s sa pol A10); exact HS).
  assert (HS' : is_sieve s' pol = is_sieve s pol).
  { rewrite (is_sieve_cap sa s' pol K1). apply is_sieve_cap. exact A10. }
  set (ins := SP.is_none (lookup s pol k)) in *.
  set (L := (k, v, ex, c, ins) :: map SP.ess (SP.others k (SP.items sa))) in *.
  assert (NDL : NoDup (map SP.ekey L)) by (apply SP.lhs_nodup; [exact I|reflexivity]).
  pose proof (Permutation_NoDup (Permutation_map SP.ekey P) NDL) as NDR.
  rewrite map_app in NDR.
  assert (KA : map SP.ekey (map SP.ess (map fst dl)) = map dkey dl) by (rewrite !map_map; reflexivity).
  assert (KB : map SP.ekey (map (SP.ess_as k ins) (SP.items s')) = map key (SP.items s')).
  { rewrite map_map. apply map_ext. intros y. apply SP.ess_as_key. }
  rewrite KA, KB in NDR.
  (* the view *)
  assert (VW : forall k', lke pol s' k' = if memz (map dkey dl) k' then None
                 else if k' =? k then Some (k, v, ex, c, false) else lke pol s k').
  { intros k'. pose proof (efind_perm _ _ k' NDL P) as EP. rewrite efind_app, efind_ess_as in EP.
    rewrite (sieve_lke s' k') by (rewrite ?HS'; auto). rewrite efind_map_ess.
    destruct (memz (map dkey dl) k') eqn:M.
    - apply memz_In in M. destruct (find_item (SP.items s') k') as [y|] eqn:Fy; [exfalso|reflexivity].
      destruct (find_item_Some _ _ _ Fy) as [Hy Ky].
      destruct (proj1 (nodup_app_iff _ _) NDR) as (_ & _ & DJ). apply (DJ k' M). rewrite <- Ky. apply in_map. exact Hy.
    - apply memz_false in M. rewrite <- KA in M. apply efind_none in M. rewrite M in EP.
      unfold L in EP. cbn [efind] in EP. change (SP.ekey (k, v, ex, c, ins)) with k in EP. rewrite (Z.eqb_sym k k') in EP.
      destruct (Z.eqb_spec k' k) as [EK|NK].
      + subst k'. destruct (find_item (SP.items s') k) as [y|] eqn:Fy; [|discriminate]. cbn [option_map] in *.
        destruct (find_item_Some _ _ _ Fy) as [Hy Ky]. injection EP as EP.
        unfold SP.ess_as in EP. rewrite Ky, Z.eqb_refl in EP. unfold SP.ess. rewrite (Q' y Hy).
        injection EP as E2 E3 E4. congruence.
      + rewrite (efind_others k _ k' NK) in EP. rewrite <- (sieve_lke sa k' HSa I Q), LEa in EP. rewrite EP.
        destruct (find_item (SP.items s') k') as [y|] eqn:Fy; [|reflexivity]. cbn [option_map].
        destruct (find_item_Some _ _ _ Fy) as [Hy Ky]. unfold SP.ess_as. destruct (Z.eqb_spec (key y) k); [congruence|reflexivity]. }
  exists dl. constructor.
  - right. rewrite HS'. split; [exact HS|]. split; [exact I'|]. split; [exact Q'|]. split; [exact Lg'|exact Nl'].
  - left. rewrite G, A7. reflexivity.
  - rewrite N, A8, sp_dnots, Hmask. reflexivity.
  - rewrite St, A9, sp_dnots, Hmask. reflexivity.
  - exact (proj1 (proj1 (nodup_app_iff _ _) NDR)).
  - exact VW.
  - apply Forall_forall. intros p Hp.
    assert (HL : In (SP.ess (fst p)) L).
    { apply (Permutation_in _ (Permutation_sym P)). apply in_or_app. left. apply in_map. apply in_map. exact Hp. }
    destruct HL as [HL|HL].
    + left. unfold SP.ess in HL. injection HL as E1 E2 _ _ _. unfold dkey. auto.
    + right. apply in_map_iff in HL. destruct HL as (it0 & E0 & H0). unfold SP.others in H0. apply filter_In in H0.
      destruct H0 as [H0 N0].
      assert (K0 : key it0 = dkey p) by (unfold dkey, SP.ess in *; congruence).
      split; [lia|]. rewrite <- LEa, <- K0. unfold lke. rewrite <- Hpol at 1.
      rewrite (SP.lookup_of_in e HP sa it0 I H0 (Q it0 H0)). cbn [option_map]. rewrite E0. reflexivity.
  - eapply Forall_impl; [|exact R]. intros p (R1 & R2 & R3).
    destruct R1 as [R1|R1]; [left; split; [exact R1|exact (R3 R1)]|right; split; [exact R1|exact HS]].
  - rewrite D. reflexivity.
  - split; congruence.
  - exact HS'.
  - intros old LKo O HC. unfold ins in FIT. rewrite LKo in FIT. cbn [SP.is_none] in FIT.
    pose proof (SP.SInv_cap s I0) as C1. apply (SP.not_over_fits _ C1) in O. destruct O as [O1 O2].
    apply FIT; [lia|]. intros Hcc. rewrite A11 in Hcc. specialize (O2 Hcc). lia.
Qed.

Theorem sh_apply_set s k v ex c s' cm d :
  ShInv pol m s -> 0 <= c -> apply_set e s k v ex c = (s', cm, d) -> exists dl, SetSpec s k v ex c s' d dl.
Proof.
  intros [[HS G]|(HS & I & Q & Lg & Nl)] Hc H; unfold apply_set in H; rewrite Hpol, HS in H.
  - eapply sh_apply_set_classic; eauto.
  - eapply sh_apply_set_sieve; eauto.
Qed.
End OneShard.

Section OneShard2.
Variables (pol m : Z) (e : env).
Hypothesis Hpol : e_pol e = pol.
Hypothesis Hmask : e_mask e = m.

(** U4: the read-hit update of Get (recency / frequency / visited bit), followed by adapts *)
Definition hit_upd (s : shard) (it : item) (k : Z) : shard :=
  if is_sieve s pol then SP.get_touch s k it else get_hit_upd pol s it k.

Record TouchSpec (s s' : shard) : Prop := {
  ts_inv : ShInv pol m s';
  ts_view : forall k', lke pol s' k' = lke pol s k';
  ts_glog : glog s' = glog s; ts_nlog : nlog s' = nlog s; ts_staged : staged s' = staged s;
  ts_tabk : tabk s' = tabk s;
  ts_caps : cap s' = cap s /\ costcap s' = costcap s;
  ts_sieve : is_sieve s' pol = is_sieve s pol
}.

Lemma TouchSpec_refl s : ShInv pol m s -> TouchSpec s s.
Proof. intros H. constructor; auto. Qed.

Lemma TouchSpec_trans a b c : TouchSpec a b -> TouchSpec b c -> TouchSpec a c.
Proof.
  intros [A1 A2 A3 A4 A5 A6 [A7 A8] A9] [B1 B2 B3 B4 B5 B6 [B7 B8] B9].
  constructor; try congruence; try exact B1; try (split; congruence).
Qed.

Lemma sh_adapts s : ShInv pol m s -> TouchSpec s (adapts s).
Proof.
  intros [[HS G]|(HS & I & Q & Lg & Nl)].
  - pose proof (apply_adapts_frame (length (evs s)) s) as F. fold (adapts s) in F.
    pose proof (adapts_good pol m s G) as G'.
    assert (HS' : is_sieve (adapts s) pol = is_sieve s pol) by (apply is_sieve_cap; apply F).
    constructor; try apply F; auto.
    + left. split; [rewrite HS'; exact HS|exact G'].
    + intros k'. rewrite (classic_lke pol (adapts s) k' (proj1 G')), (classic_lke pol s k' (proj1 G)), (fr_lst _ _ F). reflexivity.
    + split; apply F.
  - destruct (SP.adapts_spec s I) as (I' & SM & _).
    destruct (SP.adapts_preserves e s I) as (_ & QQ & _ & LL & NN). rewrite Hmask in NN.
    pose proof SM as (A1 & A2 & A3 & A4 & A5 & A6 & A7 & A8 & A9 & A10 & A11 & _).
    assert (HS' : is_sieve (adapts s) pol = is_sieve s pol) by (apply is_sieve_cap; exact A10).
    constructor; auto.
    + right. rewrite HS'. split; [exact HS|]. split; [exact I'|]. split; [exact (QQ Q)|]. split; [exact (LL Lg)|exact (NN Nl)].
    + intros k'. unfold lke. rewrite (same_lookup _ _ pol k' SM). reflexivity.
Qed.

Lemma sh_hit_upd s k it : ShInv pol m s -> lookup s pol k = Some it -> TouchSpec s (hit_upd s it k).
Proof.
  intros [[HS G]|(HS & I & Q & Lg & Nl)] LK; unfold hit_upd; rewrite HS.
  - pose proof (get_hit_good pol m s k it G LK) as G'. pose proof G as (C & _).
    destruct (lookup_resident _ _ _ _ C LK) as (Hf & Hk & _). rewrite Hk in Hf.
    assert (E : (forall k', find_item (lst (get_hit_upd pol s it k)) k' = find_item (lst s) k') /\
                glog (get_hit_upd pol s it k) = glog s /\ nlog (get_hit_upd pol s it k) = nlog s /\
                staged (get_hit_upd pol s it k) = staged s /\ tabk (get_hit_upd pol s it k) = tabk s /\
                cap (get_hit_upd pol s it k) = cap s /\ costcap (get_hit_upd pol s it k) = costcap s).
    { unfold get_hit_upd. destruct (pol =? policyLRU); [|destruct (pol =? policyLFU); repeat split; reflexivity].
      sfld. repeat split; try reflexivity. intros k'. cbn [find_item]. rewrite Hk.
      destruct (Z.eqb_spec k k') as [<-|N]; [symmetry; exact Hf|]. apply find_remove_other. congruence. }
    destruct E as (E1 & E2 & E3 & E4 & E5 & E6 & E7).
    assert (HS' : is_sieve (get_hit_upd pol s it k) pol = is_sieve s pol) by (apply is_sieve_cap; exact E6).
    constructor; auto.
    + left. split; [rewrite HS'; exact HS|exact G'].
    + intros k'. rewrite (classic_lke pol _ k' (proj1 G')), (classic_lke pol s k' C), E1. reflexivity.
  - pose proof (sieve_env pol e Hpol s HS) as HP. rewrite <- Hpol in LK.
    destruct (SP.get_touch_preserves e HP s k it I LK) as (I' & QQ & _ & LL & NN). rewrite Hmask in NN.
    destruct (SP.lookup_some e HP s k it I LK) as (Hin & Hk & Hu & Hkt & FI).
    pose proof (SP.SInv_items_nodup s I) as ND. unfold SP.items in ND, FI.
    assert (E : map SP.ess (SP.items (SP.get_touch s k it)) = map SP.ess (SP.items s) /\
                glog (SP.get_touch s k it) = glog s /\ nlog (SP.get_touch s k it) = nlog s /\
                staged (SP.get_touch s k it) = staged s /\ tabk (SP.get_touch s k it) = tabk s /\
                cap (SP.get_touch s k it) = cap s /\ costcap (SP.get_touch s k it) = costcap s).
    { unfold SP.get_touch. destruct (warmup s); [repeat split; reflexivity|]. cbv zeta.
      destruct (has_key (prob s) k) eqn:HK; unfold SP.items; sfld; (split; [|repeat split; reflexivity]); rewrite !map_app.
      - apply SP.has_key_true in HK. destruct (SP.find_item_in _ _ HK) as [x Fx].
        rewrite (SP.find_item_app_l _ (main s) _ _ Fx) in FI. injection FI as ->.
        rewrite (SP.replace_flags_ess (prob s) it (reuse it) true (proj1 (SP.find_item_some _ _ _ Fx)) (SP.nodup_keys_app_l _ _ ND)).
        reflexivity.
      - apply SP.has_key_false in HK. apply SP.find_item_none in HK. rewrite (SP.find_item_app_r _ _ _ HK) in FI.
        rewrite (SP.replace_flags_ess (main s) it (reuse it) true (proj1 (SP.find_item_some _ _ _ FI)) (SP.nodup_keys_app_r _ _ ND)).
        reflexivity. }
    destruct E as (E1 & E2 & E3 & E4 & E5 & E6 & E7).
    assert (HS' : is_sieve (SP.get_touch s k it) pol = is_sieve s pol) by (apply is_sieve_cap; exact E6).
    constructor; auto.
    + right. rewrite HS'. split; [exact HS|]. split; [exact I'|]. split; [exact (QQ Q)|]. split; [exact (LL Lg)|exact (NN Nl)].
    + intros k'. rewrite (sieve_lke pol e Hpol _ k') by (rewrite ?HS'; auto).
      rewrite (sieve_lke pol e Hpol s k' HS I Q), E1. reflexivity.
Qed.

Theorem sh_get_touch s k it : ShInv pol m s -> lookup s pol k = Some it -> TouchSpec s (adapts (hit_upd s it k)).
Proof.
  intros H LK. pose proof (sh_hit_upd s k it H LK) as T1.
  exact (TouchSpec_trans _ _ _ T1 (sh_adapts _ (ts_inv _ _ T1))).
Qed.

(** U5: the Cleanup sweep of one shard *)
Definition exp_entry (it : item) : Z * Z * Z := (10 + reasonExpired, key it, val it).
Definition exp_notes (rl : list item) : list notif :=
  if mask_has m reasonExpired then map (fun it => mk_notif it reasonExpired) rl else [].

Record CleanSpec (nw : Z) (ks : list Z) (s s' : shard) (rl : list item) : Prop := {
  cs_inv : ShInv pol m s';
  cs_glog : glog s' = glog s ++ map exp_entry rl;
  cs_nlog : nlog s' = nlog s ++ exp_notes rl;
  cs_staged : staged s' = staged s ++ exp_notes rl;
  cs_removed : Forall (fun it => lke pol s (key it) = Some (SP.ess it) /\ expired it nw = true) rl;
  cs_nodup : NoDup (map key rl);
  cs_view : forall k, lke pol s' k = if memz (map key rl) k then None else lke pol s k;
  cs_swept : forall k, In k ks -> forall it, lookup s' pol k = Some it -> expired it nw = false;
  cs_caps : cap s' = cap s /\ costcap s' = costcap s;
  cs_sieve : is_sieve s' pol = is_sieve s pol
}.

Lemma exp_notes_cons it rl :
  exp_notes (it :: rl) = (if mask_has m reasonExpired then [mk_notif it reasonExpired] else []) ++ exp_notes rl.
Proof. unfold exp_notes. destruct (mask_has m reasonExpired); reflexivity. Qed.

Theorem sh_cleanup_fold nw ks : forall s ev ex s' ev' ex',
  ShInv pol m s -> fold_left (cleanup_shard e nw) ks (s, ev, ex) = (s', ev', ex') ->
  exists rl, CleanSpec nw ks s s' rl /\ ev' = ev /\ ex' = ex + (if e_stats e then zlen rl else 0).
Proof.
  induction ks as [|k r IH]; intros s ev ex s' ev' ex' HI H; cbn [fold_left] in H.
  - injection H as <- <- <-. exists []. split; [|split; [reflexivity|unfold zlen; cbn; destruct (e_stats e); lia]].
    constructor; auto; unfold exp_notes; cbn [map]; rewrite ?app_nil_r; auto.
    + destruct (mask_has m reasonExpired); rewrite app_nil_r; reflexivity.
    + destruct (mask_has m reasonExpired); rewrite app_nil_r; reflexivity.
    + constructor.
    + intros k []. 
  - assert (KEEP : cleanup_shard e nw (s, ev, ex) k = (s, ev, ex) ->
                   (forall it, lookup s pol k = Some it -> expired it nw = false) ->
                   exists rl, CleanSpec nw (k :: r) s s' rl /\ ev' = ev /\ ex' = ex + (if e_stats e then zlen rl else 0)).
    { intros E NE. rewrite E in H. destruct (IH _ _ _ _ _ _ HI H) as (rl & CS & Hev & Hex).
      exists rl. split; [|auto]. destruct CS as [C1 C2 C3 C4 C5 C6 C7 C8 C9 C10]. constructor; auto.
      intros k' [<-|Hk'] it' LK'; [|exact (C8 k' Hk' it' LK')].
      assert (V : lke pol s' k = Some (SP.ess it')) by (unfold lke; rewrite LK'; reflexivity).
      rewrite C7 in V. destruct (memz (map key rl) k); [discriminate|].
      apply lke_some in V. destruct V as (it0 & L0 & E0). rewrite <- (ess_expired _ _ nw E0). exact (NE it0 L0). }
    unfold cleanup_shard in H at 2. unfold cleanup_shard in KEEP. rewrite Hpol in H, KEEP.
    destruct (lookup s pol k) as [it|] eqn:LK; [|apply KEEP; [reflexivity|intros it0 X; discriminate]].
    destruct (expired it nw) eqn:EX; [|apply KEEP; [reflexivity|intros it0 X; injection X as <-; exact EX]].
    clear KEEP.
    destruct (drop_item e s it reasonExpired) as [[s1 ok] d] eqn:DI.
    assert (Hr : 0 <= reasonExpired) by (unfold reasonExpired; lia).
    destruct (sh_drop pol m e Hpol Hmask s k it reasonExpired s1 ok d HI LK Hr DI) as (DS & -> & ->).
    destruct (sh_lookup_some pol m e Hpol s k it HI LK) as (Hk & _).
    change (e_stats e && (reasonExpired =? reasonCapacity)) with (e_stats e && false) in H. rewrite andb_false_r in H.
    cbn [andb] in H.
    destruct (IH _ _ _ _ _ _ (ds_inv _ _ _ _ _ _ _ DS) H) as (rl & CS & Hev & Hex).
    destruct DS as [D1 D2 D3 D4 D5 D6 [D7 D8] D9]. destruct CS as [C1 C2 C3 C4 C5 C6 C7 C8 [C9 C10] C11].
    assert (NKR : ~ In k (map key rl)).
    { intros Hin. apply in_map_iff in Hin. destruct Hin as (x & Kx & Hx). rewrite Forall_forall in C5.
      destruct (C5 x Hx) as [V _]. rewrite D5, Kx, Z.eqb_refl in V. discriminate. }
    exists (it :: rl). split; [|split; [lia|]].
    + constructor; auto.
      * rewrite C2, D2, <- app_assoc. cbn [map].
        replace (exp_entry it) with (10 + reasonExpired, k, val it) by (unfold exp_entry; rewrite Hk; reflexivity). reflexivity.
      * rewrite C3, D3, <- app_assoc, exp_notes_cons. reflexivity.
      * rewrite C4, D4, <- app_assoc, exp_notes_cons. reflexivity.
      * constructor; [split; [rewrite Hk; unfold lke; rewrite LK; reflexivity|exact EX]|].
        eapply Forall_impl; [|exact C5]. intros x [V X]. split; [|exact X].
        rewrite D5 in V. destruct (key x =? k); [discriminate|exact V].
      * cbn [map]. rewrite Hk. constructor; assumption.
      * intros k'. rewrite C7, D5. cbn [map memz]. rewrite Hk, (Z.eqb_sym k k').
        destruct (k' =? k); cbn [orb]; destruct (memz (map key rl) k'); reflexivity.
      * intros k' [<-|Hk'] it' LK'; [|exact (C8 k' Hk' it' LK')].
        assert (V : lke pol s' k = Some (SP.ess it')) by (unfold lke; rewrite LK'; reflexivity).
        rewrite C7, D5, Z.eqb_refl in V. destruct (memz (map key rl) k); discriminate.
      * split; congruence.
      * congruence.
    + rewrite Hex. unfold zlen. cbn [length]. destruct (e_stats e); lia.
Qed.

(** U6: Clear / Close *)
Theorem sh_clear s : ShInv pol m s ->
  ShInv pol m (clear_shard pol s) /\ (forall k, lookup (clear_shard pol s) pol k = None) /\
  staged (clear_shard pol s) = staged s /\ nlog (clear_shard pol s) = nlog s /\
  tabk (clear_shard pol s) = [] /\ size (clear_shard pol s) = 0 /\ pend (clear_shard pol s) = pend s /\
  (exists g, glog (clear_shard pol s) = glog s ++ g /\ Forall (fun x => fst (fst x) = 2) g) /\
  is_sieve (clear_shard pol s) pol = is_sieve s pol.
Proof.
  intros HI.
  assert (HS' : is_sieve (clear_shard pol s) pol = is_sieve s pol) by (apply is_sieve_cap; reflexivity).
  split; [|split; [intros k; reflexivity|]].
  - destruct HI as [[HS G]|(HS & I & Q & Lg & Nl)].
    + left. split; [rewrite HS'; exact HS|apply clear_shard_good; exact G].
    + pose proof (sieve_env pol e Hpol s HS) as HP.
      destruct (SP.clear_shard_preserves e HP m s I Q) as (I' & Q' & LL & NN & _). rewrite Hpol in *.
      right. rewrite HS'. split; [exact HS|]. split; [exact I'|]. split; [exact Q'|]. split; [exact (LL Lg)|exact (NN Nl)].
  - unfold clear_shard. sfld. repeat split; try reflexivity; try apply app_nil_r; try exact HS'.
    eexists. split; [reflexivity|]. apply Forall_forall. intros x Hx. apply in_map_iff in Hx. destruct Hx as (it & <- & _). reflexivity.
Qed.
End OneShard2.

(* ================================================================== *)
(** * D. Ghost-log deltas: what each shard transition appends, and the last event about a key *)
(* ================================================================== *)

Definition gtag (x : Z * Z * Z) : Z := fst (fst x).
Definition gkey (x : Z * Z * Z) : Z := snd (fst x).
Definition gval (x : Z * Z * Z) : Z := snd x.

(* the most recent entry about key k, ignoring "replaced" markers (tag 1): (tag, value) *)
Definition about (k : Z) (x : Z * Z * Z) : bool := (gkey x =? k) && negb (gtag x =? 1).
Fixpoint last_ev (g : list (Z * Z * Z)) (k : Z) (acc : option (Z * Z)) : option (Z * Z) :=
  match g with [] => acc | x :: r => last_ev r k (if about k x then Some (gtag x, gval x) else acc) end.
Definition lastev (g : list (Z * Z * Z)) (k : Z) : option (Z * Z) := last_ev g k None.

Lemma last_ev_app g d k acc : last_ev (g ++ d) k acc = last_ev d k (last_ev g k acc).
Proof. revert acc. induction g as [|x g IH]; intros acc; cbn [app last_ev]; [reflexivity|apply IH]. Qed.

Lemma lastev_app g d k : lastev (g ++ d) k = last_ev d k (lastev g k).
Proof. apply last_ev_app. Qed.

Lemma last_ev_silent d k acc : Forall (fun x => about k x = false) d -> last_ev d k acc = acc.
Proof. intros H. revert acc. induction H as [|x d Hx _ IH]; intros acc; cbn [last_ev]; [reflexivity|]. rewrite Hx. apply IH. Qed.

(* a resident entry is the subject of the last event about its key, and that event is its write *)
Definition LastW (pol : Z) (s : shard) : Prop :=
  forall k it, lookup s pol k = Some it -> lastev (glog s) k = Some (0, val it).

Lemma about_dent k dl : ~ In k (map dkey dl) -> Forall (fun x => about k x = false) (map SP.dent dl).
Proof.
  intros N. apply Forall_forall. intros x Hx. apply in_map_iff in Hx. destruct Hx as (p & <- & Hp).
  unfold about, SP.dent, gkey. cbn [fst snd]. destruct (Z.eqb_spec (key (fst p)) k) as [E|E]; [|reflexivity].
  exfalso. apply N. rewrite <- E. apply (in_map dkey). exact Hp.
Qed.

Lemma about_wlog old k v k' : k' <> k -> Forall (fun x => about k' x = false) (wlog old k v).
Proof.
  intros N. assert (E : (k =? k') = false) by lia.
  destruct old; cbn [wlog]; repeat constructor; unfold about, gkey; cbn [fst snd]; rewrite E; reflexivity.
Qed.

Lemma last_ev_wlog old k v acc : last_ev (wlog old k v) k acc = Some (0, v).
Proof. destruct old; cbn [wlog last_ev]; unfold about, gkey, gtag, gval; cbn [fst snd]; rewrite Z.eqb_refl; reflexivity. Qed.

(* ---- the delta relation ---- *)
Definition SRel (m : Z) (Q : Z * Z * Z -> Prop) (s s' : shard) : Prop :=
  exists delta, glog s' = glog s ++ delta /\ Forall Q delta /\
                staged s' = staged s ++ notifs_of m delta /\ nlog s' = nlog s ++ notifs_of m delta /\
                cap s' = cap s /\ costcap s' = costcap s.

Lemma SRel_refl m Q s : SRel m Q s s.
Proof. exists []. cbn. rewrite !app_nil_r. repeat split; constructor. Qed.

Lemma SRel_eq m Q s s' : glog s' = glog s -> staged s' = staged s -> nlog s' = nlog s ->
  cap s' = cap s /\ costcap s' = costcap s -> SRel m Q s s'.
Proof. intros A B C [D E]. exists []. cbn. rewrite !app_nil_r. repeat split; auto. Qed.

Lemma SRel_trans m Q a b c : SRel m Q a b -> SRel m Q b c -> SRel m Q a c.
Proof.
  intros (d1 & A1 & A2 & A3 & A4 & A5 & A6) (d2 & B1 & B2 & B3 & B4 & B5 & B6). exists (d1 ++ d2).
  rewrite B1, B3, B4, A1, A3, A4, notifs_of_app, <- !app_assoc. repeat split; auto; try congruence. apply Forall_app; auto.
Qed.

Lemma SRel_weaken m (Q Q' : Z * Z * Z -> Prop) s s' : (forall x, Q x -> Q' x) -> SRel m Q s s' -> SRel m Q' s s'.
Proof. intros H (d & A & B & C & D & E). exists d. repeat split; auto; try apply E. eapply Forall_impl; eauto. Qed.

Lemma notifs_of_dent m dl : Forall (fun p => 0 <= snd p) dl -> notifs_of m (map SP.dent dl) = dnotes m dl.
Proof.
  unfold notifs_of, dnotes. induction 1 as [|p dl Hp _ IH]; cbn [map flat_map]; [reflexivity|]. rewrite IH. f_equal.
  unfold SP.dent, notif_of, mk_notif. replace (10 + snd p - 10) with (snd p) by lia.
  replace (10 <=? 10 + snd p) with true by lia. reflexivity.
Qed.

Lemma notifs_of_wlog m old k v : notifs_of m (wlog old k v) = [].
Proof. destruct old; reflexivity. Qed.

(* the classes of ghost-log entries *)
Definition write_entry (pol : Z) (x : Z * Z * Z) : Prop :=
  gtag x = 0 \/ gtag x = 1 \/ gtag x = 10 + reasonCapacity \/ (gtag x = 10 + reasonRejected /\ pol = policySieve).
Definition drop_entry_of (r k : Z) (x : Z * Z * Z) : Prop := gtag x = 10 + r /\ gkey x = k.
Definition expired_entry (nw : Z) (x : Z * Z * Z) : Prop :=
  gtag x = 10 + reasonExpired /\ exists it, key it = gkey x /\ val it = gval x /\ 0 < exp it < nw.
Definition cleared_entry (x : Z * Z * Z) : Prop := gtag x = 2.

Section ShardSteps.
Variables (pol m : Z) (e : env).
Hypothesis Hpol : e_pol e = pol.
Hypothesis Hmask : e_mask e = m.

Lemma set_rel s k v ex c s' d dl : SetSpec pol m e s k v ex c s' d dl -> SRel m (write_entry pol) s s'.
Proof.
  intros [S1 S2 S3 S4 S5 S6 S7 S8 S9 S10 S11 S12].
  assert (R0 : Forall (fun p => 0 <= snd p) dl).
  { eapply Forall_impl; [|exact S8]. unfold reasonCapacity, reasonRejected. intros p [[A _]|[A _]]; lia. }
  assert (QW : Forall (write_entry pol) (wlog (lookup s pol k) k v)).
  { destruct (lookup s pol k); cbn [wlog]; repeat (apply Forall_cons; [unfold write_entry, gtag; cbn [fst]; auto|]); constructor. }
  assert (QD : Forall (write_entry pol) (map SP.dent dl)).
  { rewrite Forall_map. eapply Forall_impl; [|exact S8]. intros p [[A _]|[A B]]; unfold write_entry, gtag, SP.dent; cbn [fst].
    - right; right; left. lia.
    - right; right; right. split; [lia|]. apply (is_sieve_pol _ _ B). }
  destruct S2 as [G|[G _]].
  - exists (wlog (lookup s pol k) k v ++ map SP.dent dl).
    rewrite notifs_of_app, notifs_of_wlog, (notifs_of_dent m dl R0). cbn [app].
    repeat split; auto; try apply S10. apply Forall_app; auto.
  - exists (map SP.dent dl ++ wlog (lookup s pol k) k v).
    rewrite notifs_of_app, notifs_of_wlog, (notifs_of_dent m dl R0), app_nil_r.
    repeat split; auto; try apply S10. apply Forall_app; auto.
Qed.

Lemma set_lastw s k v ex c s' d dl : SetSpec pol m e s k v ex c s' d dl -> LastW pol s -> LastW pol s'.
Proof.
  intros [S1 S2 S3 S4 S5 S6 S7 S8 S9 S10 S11 S12] LW k' it' LK'.
  assert (V : lke pol s' k' = Some (SP.ess it')) by (unfold lke; rewrite LK'; reflexivity).
  rewrite S6 in V. destruct (memz (map dkey dl) k') eqn:M; [discriminate|]. apply memz_false in M.
  pose proof (about_dent k' dl M) as SD.
  destruct (Z.eqb_spec k' k) as [->|NK].
  - injection V as V. assert (Ev : val it' = v) by (unfold SP.ess in V; congruence). rewrite Ev.
    destruct S2 as [G|[G _]]; rewrite G, lastev_app, last_ev_app.
    + rewrite last_ev_wlog. apply last_ev_silent. exact SD.
    + rewrite (last_ev_silent _ _ _ SD). apply last_ev_wlog.
  - apply lke_some in V. destruct V as (it0 & L0 & E0).
    assert (Ev : val it0 = val it') by (unfold SP.ess in E0; congruence). rewrite <- Ev, <- (LW k' it0 L0).
    pose proof (about_wlog (lookup s pol k) k v k' NK) as SW.
    destruct S2 as [G|[G _]]; rewrite G, lastev_app, last_ev_app.
    + rewrite (last_ev_silent _ _ _ SW). apply last_ev_silent. exact SD.
    + rewrite (last_ev_silent _ _ _ SD). apply last_ev_silent. exact SW.
Qed.

Lemma drop_rel s k it r s' : 0 <= r -> key it = k -> DropSpec pol m s k it r s' ->
  SRel m (fun x => x = (10 + r, k, val it)) s s'.
Proof.
  intros Hr Hk [D1 D2 D3 D4 D5 D6 D7 D8]. exists [(10 + r, k, val it)].
  assert (N : notifs_of m [(10 + r, k, val it)] = if mask_has m r then [mk_notif it r] else []).
  { unfold notifs_of. cbn [flat_map notif_of]. rewrite app_nil_r. replace (10 + r - 10) with r by lia.
    replace (10 <=? 10 + r) with true by lia. cbn [andb]. unfold mk_notif. rewrite Hk. reflexivity. }
  rewrite N. repeat split; auto; try apply D7.
Qed.

Lemma drop_lastw s k it r s' : DropSpec pol m s k it r s' -> LastW pol s -> LastW pol s'.
Proof.
  intros [D1 D2 D3 D4 D5 D6 D7 D8] LW k' it' LK'.
  assert (V : lke pol s' k' = Some (SP.ess it')) by (unfold lke; rewrite LK'; reflexivity).
  rewrite D5 in V. destruct (Z.eqb_spec k' k) as [E|NK]; [discriminate|].
  apply lke_some in V. destruct V as (it0 & L0 & E0).
  assert (Ev : val it0 = val it') by (unfold SP.ess in E0; congruence). rewrite <- Ev, <- (LW k' it0 L0).
  rewrite D2, lastev_app. apply last_ev_silent. constructor; [|constructor].
  unfold about, gkey. cbn [fst snd]. replace (k =? k') with false by lia. reflexivity.
Qed.

Lemma touch_rel Q s s' : TouchSpec pol m s s' -> SRel m Q s s'.
Proof. intros [T1 T2 T3 T4 T5 T6 T7 T8]. apply SRel_eq; assumption. Qed.

Lemma touch_lastw s s' : TouchSpec pol m s s' -> LastW pol s -> LastW pol s'.
Proof.
  intros [T1 T2 T3 T4 T5 T6 T7 T8] LW k' it' LK'.
  assert (V : lke pol s' k' = Some (SP.ess it')) by (unfold lke; rewrite LK'; reflexivity).
  rewrite T2 in V. apply lke_some in V. destruct V as (it0 & L0 & E0).
  assert (Ev : val it0 = val it') by (unfold SP.ess in E0; congruence). rewrite <- Ev, T3. exact (LW k' it0 L0).
Qed.

Lemma notifs_of_exp rl : notifs_of m (map exp_entry rl) = exp_notes m rl.
Proof.
  unfold notifs_of, exp_notes. induction rl as [|x rl IH]; cbn [map flat_map]; [destruct (mask_has m reasonExpired); reflexivity|].
  rewrite IH. unfold exp_entry, notif_of. change (10 <=? 10 + reasonExpired) with true.
  change (10 + reasonExpired - 10) with reasonExpired. cbn [andb]. destruct (mask_has m reasonExpired); reflexivity.
Qed.

Lemma clean_rel nw ks s s' rl : CleanSpec pol m nw ks s s' rl -> SRel m (expired_entry nw) s s'.
Proof.
  intros [C1 C2 C3 C4 C5 C6 C7 C8 C9 C10]. exists (map exp_entry rl). rewrite notifs_of_exp.
  repeat split; auto; try apply C9. rewrite Forall_map. eapply Forall_impl; [|exact C5]. intros it [_ EX].
  split; [reflexivity|]. exists it. apply expired_spec in EX. auto.
Qed.

Lemma clean_lastw nw ks s s' rl : CleanSpec pol m nw ks s s' rl -> LastW pol s -> LastW pol s'.
Proof.
  intros [C1 C2 C3 C4 C5 C6 C7 C8 C9 C10] LW k' it' LK'.
  assert (V : lke pol s' k' = Some (SP.ess it')) by (unfold lke; rewrite LK'; reflexivity).
  rewrite C7 in V. destruct (memz (map key rl) k') eqn:M; [discriminate|]. apply memz_false in M.
  apply lke_some in V. destruct V as (it0 & L0 & E0).
  assert (Ev : val it0 = val it') by (unfold SP.ess in E0; congruence). rewrite <- Ev, <- (LW k' it0 L0).
  rewrite C2, lastev_app. apply last_ev_silent. apply Forall_forall. intros x Hx. apply in_map_iff in Hx.
  destruct Hx as (y & <- & Hy). unfold about, exp_entry, gkey. cbn [fst snd].
  destruct (Z.eqb_spec (key y) k') as [E|E]; [|reflexivity]. exfalso. apply M. rewrite <- E. apply in_map. exact Hy.
Qed.
End ShardSteps.

(* ================================================================== *)
(** * E. The cache-level invariant and what every operation appends to the ghost logs *)
(* ================================================================== *)

Definition cmd_ok (cmd : list Z) : Prop := match cmd with [k; v; ttl; cst] => 0 <= cst | _ => True end.

Record TShard (pol m : Z) (s : shard) : Prop := {
  tsh_inv : ShInv pol m s;
  tsh_pend : Forall cmd_ok (pend s);
  tsh_last : LastW pol s
}.

Definition TInv (c : cache) : Prop := Forall (TShard (policy c) (mask c)) (shards c).

(* c' is c with every shard i extended by ghost-log entries satisfying Q i *)
Definition CStep (Q : nat -> Z * Z * Z -> Prop) (c c' : cache) : Prop :=
  policy c' = policy c /\ mask c' = mask c /\ length (shards c') = length (shards c) /\
  forall i s, nth_error (shards c) i = Some s ->
    exists s', nth_error (shards c') i = Some s' /\ TShard (policy c) (mask c) s' /\ SRel (mask c) (Q i) s s'.

Definition at_shard (sh : Z) (Q0 : Z * Z * Z -> Prop) : nat -> Z * Z * Z -> Prop :=
  fun i x => i = Z.to_nat sh /\ Q0 x.

Lemma TInv_nth c i s : TInv c -> nth_error (shards c) i = Some s -> TShard (policy c) (mask c) s.
Proof. intros T H. unfold TInv in T. rewrite Forall_forall in T. apply T. eapply nth_error_In; eauto. Qed.

Lemma TInv_get c sh s : TInv c -> get_shard c sh = Some s -> TShard (policy c) (mask c) s.
Proof. intros T H. eapply TInv_nth; eauto. Qed.

Lemma CStep_refl Q c : TInv c -> CStep Q c c.
Proof.
  intros T. repeat split; auto. intros i s H. exists s. split; [exact H|]. split; [eapply TInv_nth; eauto|apply SRel_refl].
Qed.

Lemma CStep_trans Q c c1 c2 : CStep Q c c1 -> CStep Q c1 c2 -> CStep Q c c2.
Proof.
  intros (A1 & A2 & A3 & A4) (B1 & B2 & B3 & B4). repeat split; try congruence.
  intros i s H. destruct (A4 i s H) as (s1 & H1 & T1 & R1). destruct (B4 i s1 H1) as (s2 & H2 & T2 & R2).
  rewrite A1, A2 in *. exists s2. split; [exact H2|]. split; [exact T2|]. eapply SRel_trans; eauto.
Qed.

Lemma CStep_weaken (Q Q' : nat -> Z * Z * Z -> Prop) c c' : (forall i x, Q i x -> Q' i x) -> CStep Q c c' -> CStep Q' c c'.
Proof.
  intros HQ (A1 & A2 & A3 & A4). repeat split; auto. intros i s H. destruct (A4 i s H) as (s1 & H1 & T1 & R1).
  exists s1. split; [exact H1|]. split; [exact T1|]. eapply SRel_weaken; [apply HQ|exact R1].
Qed.

Lemma CStep_TInv Q c c' : CStep Q c c' -> TInv c'.
Proof.
  intros (A1 & A2 & A3 & A4). unfold TInv. rewrite A1, A2. apply Forall_forall. intros s' Hs'.
  apply In_nth_error in Hs'. destruct Hs' as [i Hi].
  assert (Hlt : (i < length (shards c))%nat) by (rewrite <- A3; apply nth_error_Some; congruence).
  destruct (nth_error (shards c) i) as [s|] eqn:E; [|apply nth_error_None in E; lia].
  destruct (A4 i s E) as (s1 & H1 & T1 & _). congruence.
Qed.

Lemma CStep_get Q c c' sh s : CStep Q c c' -> get_shard c sh = Some s ->
  exists s', get_shard c' sh = Some s' /\ TShard (policy c) (mask c) s' /\ SRel (mask c) (Q (Z.to_nat sh)) s s'.
Proof. intros (_ & _ & _ & A4) H. exact (A4 _ _ H). Qed.

Lemma nth_error_set_nth_other {A} (l : list A) i j x : i <> j -> nth_error (set_nth l i x) j = nth_error l j.
Proof.
  revert i j. induction l as [|a l IH]; intros [|i] [|j] N; cbn [set_nth nth_error]; try reflexivity; try congruence.
  apply IH. congruence.
Qed.

Lemma CStep_put Q0 c sh s s1 h mi ev ex :
  TInv c -> get_shard c sh = Some s -> TShard (policy c) (mask c) s1 -> SRel (mask c) Q0 s s1 ->
  CStep (at_shard sh Q0) c (put_shard c sh s1 h mi ev ex).
Proof.
  intros T G T1 R1. split; [reflexivity|]. split; [reflexivity|]. split; [apply set_nth_length|].
  intros i s0 H. cbn [put_shard shards]. destruct (Nat.eq_dec (Z.to_nat sh) i) as [<-|N].
  - unfold get_shard in G. rewrite G in H. injection H as <-. exists s1.
    split; [eapply nth_error_set_nth_same; eauto|]. split; [exact T1|].
    eapply SRel_weaken; [|exact R1]. intros x Hx. split; [reflexivity|exact Hx].
  - exists s0. rewrite (nth_error_set_nth_other _ _ _ _ N). split; [exact H|]. split; [eapply TInv_nth; eauto|apply SRel_refl].
Qed.

(* the shard invariant ignores the oracle queue and the pending commands *)
Lemma ShInv_sh_evs pol m s ev pe : ShInv pol m s -> ShInv pol m (sh_evs s ev pe).
Proof.
  intros [[HS G]|(HS & I & Q & Lg & Nl)].
  - left. split; [exact HS|]. eapply Good_frame; [apply Frame_sh_evs|exact G].
  - right. split; [exact HS|]. split; [exact I|]. split; [exact Q|]. split; [exact Lg|exact Nl].
Qed.

Lemma TShard_sh_evs pol m s ev pe : TShard pol m s -> Forall cmd_ok pe -> TShard pol m (sh_evs s ev pe).
Proof. intros [A B C] H. constructor; [apply ShInv_sh_evs; exact A|exact H|exact C]. Qed.

Lemma ShInv_unstage pol m s :
  ShInv pol m s -> ShInv pol m (sh_set s (tabk s) (lst s) (lfu s) (prob s) (main s) (hand s) (size s) (scost s) []).
Proof.
  intros [[HS (C & L & N)]|(HS & I & Q & Lg & Nl)].
  - left. split; [exact HS|]. apply Good_intro; [|exact L|exact N]. destruct C. constructor; assumption.
  - right. split; [exact HS|]. split; [exact I|]. split; [exact Q|]. split; [exact Lg|exact Nl].
Qed.

Definition wentry (c : cache) : Z * Z * Z -> Prop := write_entry (policy c).

(** ** one command applied to its shard *)
Lemma apply_cmd_step c sh k v ttl cst :
  TInv c -> 0 <= cst -> CStep (at_shard sh (wentry c)) c (apply_cmd c sh k v ttl cst).
Proof.
  intros T Hc. unfold apply_cmd. destruct (get_shard c sh) as [s|] eqn:G; [|apply CStep_refl; exact T].
  destruct (apply_set (env_of c) s k v (stamp ttl (now c)) cst) as [[s1 cm] d] eqn:E.
  destruct (TInv_get _ _ _ T G) as [A B C].
  destruct (sh_apply_set (policy c) (mask c) (env_of c) eq_refl eq_refl s k v _ cst s1 cm d A Hc E) as [dl SS].
  pose proof (pend_apply_set (env_of c) s k v (stamp ttl (now c)) cst) as PE. rewrite E in PE. cbn [fst] in PE.
  apply (CStep_put (wentry c) c sh s s1); auto.
  - constructor; [exact (ss_inv _ _ _ _ _ _ _ _ _ _ _ SS)|rewrite PE; exact B|eapply set_lastw; eauto].
  - eapply set_rel; eauto.
Qed.

Lemma wentry_step Q c c' : CStep Q c c' -> wentry c' = wentry c.
Proof. intros (A & _). unfold wentry. rewrite A. reflexivity. Qed.

Lemma drain_cmds_step sh cmds : forall c,
  TInv c -> Forall cmd_ok cmds -> CStep (at_shard sh (wentry c)) c (drain_cmds c sh cmds).
Proof.
  induction cmds as [|cmd r IH]; intros c T F; cbn [drain_cmds]; [apply CStep_refl; exact T|].
  inversion F as [|x l Hx Hr]; subst.
  assert (SKIP : CStep (at_shard sh (wentry c)) c (drain_cmds c sh r)) by (apply IH; assumption).
  destruct cmd as [|k [|v [|ttl [|cst [|x y]]]]]; try exact SKIP.
  cbn [cmd_ok] in Hx. pose proof (apply_cmd_step c sh k v ttl cst T Hx) as S1.
  eapply CStep_trans; [exact S1|]. rewrite <- (wentry_step _ _ _ S1). apply IH; [eapply CStep_TInv; eauto|exact Hr].
Qed.

Lemma drain_shard_step c sh : TInv c -> CStep (at_shard sh (wentry c)) c (drain_shard c sh).
Proof.
  intros T. unfold drain_shard. destruct (get_shard c sh) as [s|] eqn:G; [|apply CStep_refl; exact T].
  destruct (pend s) as [|cmd r] eqn:P; [apply CStep_refl; exact T|].
  pose proof (TInv_get _ _ _ T G) as TS.
  assert (S1 : CStep (at_shard sh (wentry c)) c (put_shard c sh (sh_evs s (evs s) []) (hits c) (misses c) (evictions c) (expirations c))).
  { apply (CStep_put (wentry c) c sh s); auto.
    - apply TShard_sh_evs; [exact TS|constructor].
    - apply SRel_eq; auto. }
  eapply CStep_trans; [exact S1|]. rewrite <- (wentry_step _ _ _ S1).
  apply drain_cmds_step; [eapply CStep_TInv; eauto|]. rewrite <- P. exact (tsh_pend _ _ _ TS).
Qed.

Lemma drain_all_step c : TInv c -> CStep (fun _ => wentry c) c (drain_all c).
Proof.
  intros T. unfold drain_all. generalize (zseq 0 (length (shards c))). intros l.
  assert (K : forall c0, TInv c0 -> wentry c0 = wentry c -> CStep (fun _ => wentry c) c0 (fold_left drain_shard l c0)).
  { induction l as [|i l IH]; intros c0 T0 W0; cbn [fold_left]; [apply CStep_refl; exact T0|].
    pose proof (drain_shard_step c0 i T0) as S1.
    eapply CStep_trans.
    - eapply CStep_weaken; [|exact S1]. intros j x [_ Hx]. rewrite <- W0. exact Hx.
    - apply IH; [eapply CStep_TInv; eauto|]. rewrite (wentry_step _ _ _ S1). exact W0. }
  apply K; [exact T|reflexivity].
Qed.

(** ** Set / SetAsync *)
Lemma set_check_cost c sh cst : set_check c sh cst = 0 -> 0 <= cst.
Proof. unfold set_check. destruct (Z.ltb_spec cst 0); [discriminate|lia]. Qed.

Theorem op_set_step c k v ttl cst sh c' r : TInv c -> op_set c k v ttl cst sh = (c', r) ->
  (r <> 0 /\ c' = c) \/ (r = 0 /\ CStep (at_shard sh (wentry c)) c c').
Proof.
  intros T. unfold op_set. destruct (Z.eqb_spec (set_check c sh cst) 0) as [E|E]; cbn [negb].
  - intros H. injection H as <- <-. right. split; [reflexivity|].
    pose proof (drain_shard_step c sh T) as S1. eapply CStep_trans; [exact S1|].
    rewrite <- (wentry_step _ _ _ S1). apply apply_cmd_step; [eapply CStep_TInv; eauto|exact (set_check_cost _ _ _ E)].
  - intros H. injection H as <- <-. left. auto.
Qed.

Theorem op_set_async_step c k v ttl cst sh c' r : TInv c -> op_set_async c k v ttl cst sh = (c', r) ->
  (r <> 0 /\ c' = c) \/ (r = 0 /\ CStep (fun _ _ => False) c c').
Proof.
  intros T. unfold op_set_async. destruct (Z.eqb_spec (set_check c sh cst) 0) as [E|E]; cbn [negb].
  - destruct (get_shard c sh) as [s|] eqn:G; intros H; injection H as <- <-; [right|left; split; [lia|reflexivity]].
    split; [reflexivity|]. pose proof (TInv_get _ _ _ T G) as TS.
    eapply CStep_weaken; [|apply (CStep_put (fun _ => False) c sh s); eauto].
    + intros i x [_ []].
    + apply TShard_sh_evs; [exact TS|]. apply Forall_app. split; [exact (tsh_pend _ _ _ TS)|].
      constructor; [exact (set_check_cost _ _ _ E)|constructor].
    + apply SRel_eq; auto.
  - intros H. injection H as <- <-. left. auto.
Qed.

(** ** dropping a looked-up entry and putting the shard back *)
Lemma drop_put_step c sh s k it r s1 ok d (ad : bool) h mi ev ex :
  TInv c -> get_shard c sh = Some s -> lookup s (policy c) k = Some it -> 0 <= r ->
  drop_item (env_of c) s it r = (s1, ok, d) ->
  CStep (at_shard sh (fun x => x = (10 + r, k, val it))) c
        (put_shard c sh (if ad then adapts s1 else s1) h mi ev ex) /\
  ok = true /\ d = (if statsOn c && (r =? reasonCapacity) then 1 else 0) /\
  lookup (if ad then adapts s1 else s1) (policy c) k = None.
Proof.
  intros T G LK Hr D. destruct (TInv_get _ _ _ T G) as [A B C].
  destruct (sh_drop (policy c) (mask c) (env_of c) eq_refl eq_refl s k it r s1 ok d A LK Hr D) as (DS & Ok & Dd).
  destruct (sh_lookup_some (policy c) (mask c) (env_of c) eq_refl s k it A LK) as (Hk & _).
  pose proof (pend_drop_item (env_of c) s it r) as PE. rewrite D in PE. cbn [fst] in PE.
  assert (T1 : TShard (policy c) (mask c) s1).
  { constructor; [exact (ds_inv _ _ _ _ _ _ _ DS)|rewrite PE; exact B|eapply drop_lastw; eauto]. }
  pose proof (drop_rel (policy c) (mask c) s k it r s1 Hr Hk DS) as R1.
  assert (N1 : lookup s1 (policy c) k = None).
  { apply lke_none. rewrite (ds_view _ _ _ _ _ _ _ DS), Z.eqb_refl. reflexivity. }
  split; [|split; [exact Ok|split; [exact Dd|]]].
  - destruct ad.
    + pose proof (sh_adapts (policy c) (mask c) (env_of c) eq_refl s1 (tsh_inv _ _ _ T1)) as TA.
      apply (CStep_put _ c sh s); auto.
      * constructor; [exact (ts_inv _ _ _ _ TA)|rewrite pend_adapts; exact (tsh_pend _ _ _ T1)|eapply touch_lastw; eauto; exact (tsh_last _ _ _ T1)].
      * eapply SRel_trans; [exact R1|]. eapply touch_rel; eauto.
    + apply (CStep_put _ c sh s); auto.
  - destruct ad; [|exact N1].
    pose proof (sh_adapts (policy c) (mask c) (env_of c) eq_refl s1 (tsh_inv _ _ _ T1)) as TA.
    apply lke_none. rewrite (ts_view _ _ _ _ TA). apply lke_none. exact N1.
Qed.

Definition exp_drop (nw k : Z) (x : Z * Z * Z) : Prop := gkey x = k /\ expired_entry nw x.

Lemma exp_drop_intro nw k it : key it = k -> expired it nw = true -> exp_drop nw k (10 + reasonExpired, k, val it).
Proof.
  intros Hk E. split; [reflexivity|]. split; [reflexivity|]. exists it. apply expired_spec in E. auto.
Qed.

(** ** Get / GetWithTTL *)
Theorem op_get_step c k sh c' ok v r : TInv c -> op_get c k sh = (c', ok, v, r) ->
  CStep (at_shard sh (fun x => (policy c = policySieve /\ wentry c x) \/ exp_drop (now c) k x)) c c'.
Proof.
  intros T. unfold op_get. destruct (closed c); [intros H; injection H as <- _ _ _; apply CStep_refl; exact T|].
  destruct (get_shard c sh) as [s0|] eqn:G0; [|intros H; injection H as <- _ _ _; apply CStep_refl; exact T].
  cbv zeta.
  set (c0 := if is_sieve s0 (policy c) && negb (memz (tabk s0) k) then drain_shard c sh else c).
  assert (S0 : CStep (at_shard sh (fun x => (policy c = policySieve /\ wentry c x) \/ exp_drop (now c) k x)) c c0).
  { unfold c0. destruct (is_sieve s0 (policy c)) eqn:HS; cbn [andb]; [|apply CStep_refl; exact T].
    destruct (negb (memz (tabk s0) k)); [|apply CStep_refl; exact T].
    eapply CStep_weaken; [|apply drain_shard_step; exact T]. intros i x [A B]. split; [exact A|left].
    split; [exact (is_sieve_pol _ _ HS)|exact B]. }
  assert (SC : SameCfg c c0).
  { unfold c0. destruct (is_sieve s0 (policy c) && negb (memz (tabk s0) k)); [apply SameCfg_drain_shard|apply SameCfg_refl]. }
  pose proof (CStep_TInv _ _ _ S0) as T0.
  destruct (CStep_get _ _ _ _ _ S0 G0) as (s & G & _ & (_ & _ & _ & _ & _ & CAP & _)).
  clearbody c0. rewrite G.
  pose proof (TInv_get _ _ _ T0 G) as TS.
  assert (P0 : policy c0 = policy c) by apply SC. assert (N0 : now c0 = now c) by apply SC.
  assert (EQ : forall Q : Z * Z * Z -> Prop, (forall x, Q x -> exp_drop (now c) k x) -> CStep (at_shard sh Q) c0 c' ->
               CStep (at_shard sh (fun x => (policy c = policySieve /\ wentry c x) \/ exp_drop (now c) k x)) c c').
  { intros Q HQ H. eapply CStep_trans; [exact S0|]. eapply CStep_weaken; [|exact H].
    intros i x [A B]. split; [exact A|right; exact (HQ x B)]. }
  destruct (lookup s (policy c0) k) as [it|] eqn:LK.
  - destruct (sh_lookup_some (policy c0) (mask c0) (env_of c0) eq_refl s k it (tsh_inv _ _ _ TS) LK) as (Hk & _).
    destruct (expired it (now c0)) eqn:EX.
    + destruct (drop_item (env_of c0) s it reasonExpired) as [[s1 o] d] eqn:DI. intros H. injection H as <- _ _ _.
      assert (Hr : 0 <= reasonExpired) by (unfold reasonExpired; lia).
      destruct (drop_put_step c0 sh s k it reasonExpired s1 o d true (hits c0)
                  (if statsOn c0 then misses c0 + 1 else misses c0) (evictions c0 + d)
                  (if statsOn c0 then expirations c0 + 1 else expirations c0) T0 G LK Hr DI) as (S1 & _).
      eapply EQ; [|exact S1]. intros x ->. rewrite <- N0. apply exp_drop_intro; assumption.
    + match goal with |- context [adapts ?x] => replace x with (hit_upd (policy c0) s it k) end.
      2:{ unfold hit_upd, SP.get_touch, get_hit_upd. rewrite (is_sieve_cap s0 s (policy c0) CAP), P0. reflexivity. }
      intros H. injection H as <- _ _ _.
      pose proof (sh_get_touch (policy c0) (mask c0) (env_of c0) eq_refl eq_refl s k it (tsh_inv _ _ _ TS) LK) as TT.
      eapply (EQ (fun _ => False)); [intros x []|]. apply (CStep_put _ c0 sh s); auto.
      * constructor; [exact (ts_inv _ _ _ _ TT)| |eapply touch_lastw; eauto; exact (tsh_last _ _ _ TS)].
        rewrite pend_adapts. unfold hit_upd, SP.get_touch, get_hit_upd.
        destruct (is_sieve s (policy c0)).
        -- destruct (warmup s); [exact (tsh_pend _ _ _ TS)|]. destruct (has_key (prob s) k); exact (tsh_pend _ _ _ TS).
        -- destruct (policy c0 =? policyLRU); [exact (tsh_pend _ _ _ TS)|].
           destruct (policy c0 =? policyLFU); exact (tsh_pend _ _ _ TS).
      * eapply touch_rel; eauto.
  - intros H. injection H as <- _ _ _. eapply (EQ (fun _ => False)); [intros x []|].
    apply (CStep_put _ c0 sh s); auto. apply SRel_refl.
Qed.

(** ** Exists / Delete *)
Theorem op_exists_step c k sh c' b : TInv c -> op_exists c k sh = (c', b) ->
  CStep (at_shard sh (exp_drop (now c) k)) c c'.
Proof.
  intros T. unfold op_exists. destruct (closed c); [intros H; injection H as <- _; apply CStep_refl; exact T|].
  destruct (get_shard c sh) as [s|] eqn:G; [|intros H; injection H as <- _; apply CStep_refl; exact T].
  destruct (lookup s (policy c) k) as [it|] eqn:LK; [|intros H; injection H as <- _; apply CStep_refl; exact T].
  destruct (expired it (now c)) eqn:EX; [|intros H; injection H as <- _; apply CStep_refl; exact T].
  destruct (drop_item (env_of c) s it reasonExpired) as [[s1 o] d] eqn:DI. intros H. injection H as <- _.
  pose proof (TInv_get _ _ _ T G) as TS.
  destruct (sh_lookup_some (policy c) (mask c) (env_of c) eq_refl s k it (tsh_inv _ _ _ TS) LK) as (Hk & _).
  assert (Hr : 0 <= reasonExpired) by (unfold reasonExpired; lia).
  destruct (drop_put_step c sh s k it reasonExpired s1 o d false (hits c) (misses c) (evictions c + d)
              (if statsOn c then expirations c + 1 else expirations c) T G LK Hr DI) as (S1 & _).
  eapply CStep_weaken; [|exact S1]. intros i x [A ->]. split; [exact A|]. apply exp_drop_intro; assumption.
Qed.

Theorem op_delete_step c k sh c' b : TInv c -> op_delete c k sh = (c', b) ->
  CStep (at_shard sh (fun x => wentry c x \/ drop_entry_of reasonDeleted k x)) c c'.
Proof.
  intros T. unfold op_delete. destruct (closed c); [intros H; injection H as <- _; apply CStep_refl; exact T|].
  cbv zeta. pose proof (drain_shard_step c sh T) as S0. pose proof (CStep_TInv _ _ _ S0) as T0.
  pose proof (SameCfg_drain_shard c sh) as SC. set (c0 := drain_shard c sh) in *. clearbody c0.
  assert (S0' : CStep (at_shard sh (fun x => wentry c x \/ drop_entry_of reasonDeleted k x)) c c0).
  { eapply CStep_weaken; [|exact S0]. intros i x [A B]. split; [exact A|left; exact B]. }
  destruct (get_shard c0 sh) as [s|] eqn:G; [|intros H; injection H as <- _; exact S0'].
  destruct (lookup s (policy c0) k) as [it|] eqn:LK; [|intros H; injection H as <- _; exact S0'].
  destruct (drop_item (env_of c0) s it reasonDeleted) as [[s1 o] d] eqn:DI. intros H. injection H as <- _.
  assert (Hr : 0 <= reasonDeleted) by (unfold reasonDeleted; lia).
  destruct (drop_put_step c0 sh s k it reasonDeleted s1 o d false (hits c0) (misses c0) (evictions c0 + d)
              (expirations c0) T0 G LK Hr DI) as (S1 & _).
  eapply CStep_trans; [exact S0'|]. eapply CStep_weaken; [|exact S1].
  intros i x [A ->]. split; [exact A|right]. split; reflexivity.
Qed.

(** ** Cleanup *)
Lemma pend_cleanup_fold e nw ks : forall s ev ex, pend (fst (fst (fold_left (cleanup_shard e nw) ks (s, ev, ex)))) = pend s.
Proof.
  induction ks as [|k r IH]; intros s ev ex; cbn [fold_left]; [reflexivity|].
  assert (P1 : pend (fst (fst (cleanup_shard e nw (s, ev, ex) k))) = pend s).
  { unfold cleanup_shard. destruct (lookup s (e_pol e) k) as [it|]; [|reflexivity].
    destruct (expired it nw); [|reflexivity].
    pose proof (pend_drop_item e s it reasonExpired) as PE.
    destruct (drop_item e s it reasonExpired) as [[s1 ok] d]. exact PE. }
  destruct (cleanup_shard e nw (s, ev, ex) k) as [[s1 ev1] ex1]. cbn [fst] in P1. rewrite IH. exact P1.
Qed.

Lemma op_cleanup_cfg c : policy (op_cleanup c) = policy c /\ mask (op_cleanup c) = mask c /\
  now (op_cleanup c) = now c /\ closed (op_cleanup c) = closed c /\ statsOn (op_cleanup c) = statsOn c.
Proof.
  unfold op_cleanup. destruct (closed c) eqn:E; [auto|].
  match goal with |- context [fold_left ?f (shards c) ?a] => destruct (fold_left f (shards c) a) as [[l ev] ex] end.
  cbn. auto.
Qed.

Theorem op_cleanup_step c : TInv c -> CStep (fun _ => expired_entry (now c)) c (op_cleanup c).
Proof.
  intros T. destruct (closed c) eqn:Hc.
  { unfold op_cleanup. rewrite Hc. apply CStep_refl; exact T. }
  destruct (op_cleanup_cfg c) as (P & M & _).
  pose proof (op_cleanup_shards c Hc) as SH.
  split; [exact P|]. split; [exact M|]. split; [rewrite SH; apply map_length|].
  intros i s H. rewrite SH, nth_error_map, H. cbn [option_map]. eexists. split; [reflexivity|].
  pose proof (TInv_nth _ _ _ T H) as TS. unfold cleanup_of.
  destruct (fold_left (cleanup_shard (env_of c) (now c)) (tabk s) (s, 0, 0)) as [[s1 ev1] ex1] eqn:F.
  destruct (sh_cleanup_fold (policy c) (mask c) (env_of c) eq_refl eq_refl (now c) (tabk s) s 0 0 s1 ev1 ex1
              (tsh_inv _ _ _ TS) F) as (rl & CS & _).
  pose proof (pend_cleanup_fold (env_of c) (now c) (tabk s) s 0 0) as PE. rewrite F in PE. cbn [fst] in *.
  split.
  - constructor; [exact (cs_inv _ _ _ _ _ _ _ CS)|rewrite PE; exact (tsh_pend _ _ _ TS)|eapply clean_lastw; eauto; exact (tsh_last _ _ _ TS)].
  - eapply clean_rel; eauto.
Qed.

(** ** Clear / Close *)
Lemma notifs_of_cleared_tags m g : Forall (fun x : Z * Z * Z => fst (fst x) = 2) g -> notifs_of m g = [].
Proof.
  unfold notifs_of. induction 1 as [|x g Hx _ IH]; cbn [flat_map]; [reflexivity|]. rewrite IH.
  destruct x as [[t k] v]. cbn [fst] in Hx. subst t. reflexivity.
Qed.

Lemma clear_all_step c cl t : TInv c ->
  CStep (fun _ => cleared_entry) c (with_shards c (map (clear_shard (policy c)) (shards c)) cl t).
Proof.
  intros T. split; [reflexivity|]. split; [reflexivity|]. split; [cbn; apply map_length|].
  intros i s H. cbn [with_shards shards]. rewrite nth_error_map, H. cbn [option_map]. eexists. split; [reflexivity|].
  pose proof (TInv_nth _ _ _ T H) as TS.
  destruct (sh_clear (policy c) (mask c) (env_of c) eq_refl s (tsh_inv _ _ _ TS)) as (A & B & C & D & _ & _ & E & (g & G1 & G2) & _).
  split.
  - constructor; [exact A|rewrite E; exact (tsh_pend _ _ _ TS)|]. intros k it LK. rewrite B in LK. discriminate.
  - exists g. rewrite (notifs_of_cleared_tags _ _ G2), !app_nil_r. repeat split; auto.
Qed.

Theorem op_clear_step c : TInv c -> CStep (fun _ x => wentry c x \/ cleared_entry x) c (op_clear c).
Proof.
  intros T. unfold op_clear. destruct (closed c); [apply CStep_refl; exact T|]. cbv zeta.
  pose proof (drain_all_step c T) as S0. eapply CStep_trans.
  - eapply CStep_weaken; [|exact S0]. intros i x H. left; exact H.
  - eapply CStep_weaken; [|apply clear_all_step; eapply CStep_TInv; eauto]. intros i x H. right; exact H.
Qed.

Theorem op_close_step c : TInv c -> CStep (fun _ x => wentry c x \/ cleared_entry x) c (op_close c).
Proof.
  intros T. unfold op_close. destruct (closed c); [apply CStep_refl; exact T|]. cbv zeta.
  pose proof (drain_all_step c T) as S0. eapply CStep_trans.
  - eapply CStep_weaken; [|exact S0]. intros i x H. left; exact H.
  - eapply CStep_weaken; [|apply clear_all_step; eapply CStep_TInv; eauto]. intros i x H. right; exact H.
Qed.

(** ** clock advance, oracle events *)
Lemma with_same_shards_step Q c cl t : TInv c -> CStep Q c (with_shards c (shards c) cl t).
Proof.
  intros T. repeat split; auto. intros i s H. exists s. split; [exact H|]. split; [eapply TInv_nth; eauto|apply SRel_refl].
Qed.

Lemma attach_events_step Q : forall n l c, (length l <= n)%nat -> TInv c -> CStep Q c (attach_events c l).
Proof.
  induction n as [|n IH]; intros l c Hl T.
  - destruct l; [|cbn in Hl; lia]. apply CStep_refl; exact T.
  - destruct l as [|kind [|sh [|a r]]]; cbn [attach_events]; try (apply CStep_refl; exact T).
    destruct (get_shard c sh) as [s|] eqn:G; [|apply IH; [cbn in Hl; lia|exact T]].
    pose proof (TInv_get _ _ _ T G) as TS.
    assert (S1 : CStep Q c (put_shard c sh (sh_evs s (evs s ++ [(kind, a)]) (pend s)) (hits c) (misses c) (evictions c) (expirations c))).
    { eapply CStep_weaken; [|apply (CStep_put (fun _ => False) c sh s); eauto].
      - intros i x [_ []].
      - apply TShard_sh_evs; [exact TS|exact (tsh_pend _ _ _ TS)].
      - apply SRel_eq; auto. }
    eapply CStep_trans; [exact S1|]. apply IH; [cbn in Hl; lia|eapply CStep_TInv; eauto].
Qed.

(* ================================================================== *)
(** * F. The typed machine (CacheProofs.cop / cstep / settle / crun): every step, every history *)
(* ================================================================== *)
Require KV.CacheProofs.
Module CA := KV.CacheProofs.

Lemma attach_events_same : forall n l c, (length l <= n)%nat -> SameCfg c (attach_events c l).
Proof.
  induction n as [|n IH]; intros l c Hl.
  - destruct l; [|cbn in Hl; lia]. apply SameCfg_refl.
  - destruct l as [|kind [|sh [|a r]]]; cbn [attach_events]; try apply SameCfg_refl.
    destruct (get_shard c sh) as [s|]; [|apply IH; cbn in Hl; lia].
    eapply SameCfg_trans; [apply SameCfg_put|apply IH; cbn in Hl; lia].
Qed.

(* which ghost-log entries operation [op] may append to shard i, at clock nw under policy pol *)
Definition entry_just (pol nw : Z) (op : CA.cop) (i : nat) (x : Z * Z * Z) : Prop :=
  match op with
  | CA.CSet k v ttl cst sh => i = Z.to_nat sh /\ write_entry pol x
  | CA.CGet k sh | CA.CGetTTL k sh =>
      i = Z.to_nat sh /\ ((pol = policySieve /\ write_entry pol x) \/ exp_drop nw k x)
  | CA.CExists k sh => i = Z.to_nat sh /\ exp_drop nw k x
  | CA.CDelete k sh => i = Z.to_nat sh /\ (write_entry pol x \/ drop_entry_of reasonDeleted k x)
  | CA.CClear | CA.CClose => write_entry pol x \/ cleared_entry x
  | CA.CCleanup => expired_entry nw x
  | CA.CSync => write_entry pol x
  | _ => False
  end.

Theorem cstep_step c op ev : TInv c -> CStep (entry_just (policy c) (now c) op) c (fst (CA.cstep c op ev)).
Proof.
  intros T.
  pose proof (attach_events_same (length ev) ev c (le_n _)) as SC.
  assert (S0 : forall Q, CStep Q c (attach_events c ev)) by (intros Q; apply (attach_events_step Q (length ev)); auto).
  pose proof (CStep_TInv _ _ _ (S0 (fun _ _ => False))) as T0.
  unfold CA.cstep. set (c0 := attach_events c ev) in *. clearbody c0.
  assert (P0 : policy c0 = policy c) by apply SC. assert (N0 : now c0 = now c) by apply SC.
  assert (W0 : wentry c0 = write_entry (policy c)) by (unfold wentry; rewrite P0; reflexivity).
  destruct op; cbn [entry_just fst]; try exact (S0 _).
  - destruct (op_set c0 k v ttl cst sh) as [c1 r] eqn:E. cbn [fst].
    destruct (op_set_step _ _ _ _ _ _ _ _ T0 E) as [[_ ->]|[_ S1]]; [exact (S0 _)|].
    eapply CStep_trans; [exact (S0 _)|]. rewrite W0 in S1. exact S1.
  - destruct (op_get c0 k sh) as [[[c1 ok] v] t] eqn:E. cbn [fst].
    pose proof (op_get_step _ _ _ _ _ _ _ T0 E) as S1. rewrite W0, P0, N0 in S1.
    eapply CStep_trans; [exact (S0 _)|exact S1].
  - destruct (op_get c0 k sh) as [[[c1 ok] v] t] eqn:E. cbn [fst].
    pose proof (op_get_step _ _ _ _ _ _ _ T0 E) as S1. rewrite W0, P0, N0 in S1.
    eapply CStep_trans; [exact (S0 _)|exact S1].
  - destruct (op_exists c0 k sh) as [c1 b] eqn:E. cbn [fst].
    pose proof (op_exists_step _ _ _ _ _ T0 E) as S1. rewrite N0 in S1.
    eapply CStep_trans; [exact (S0 _)|exact S1].
  - destruct (op_delete c0 k sh) as [c1 b] eqn:E. cbn [fst].
    pose proof (op_delete_step _ _ _ _ _ T0 E) as S1. rewrite W0 in S1.
    eapply CStep_trans; [exact (S0 _)|exact S1].
  - pose proof (op_clear_step _ T0) as S1. rewrite W0 in S1. eapply CStep_trans; [exact (S0 _)|exact S1].
  - pose proof (op_cleanup_step _ T0) as S1. rewrite N0 in S1. eapply CStep_trans; [exact (S0 _)|exact S1].
  - destruct (op_set_async c0 k v ttl cst sh) as [c1 r] eqn:E. cbn [fst].
    destruct (op_set_async_step _ _ _ _ _ _ _ _ T0 E) as [[_ ->]|[_ S1]]; [exact (S0 _)|].
    eapply CStep_trans; [exact (S0 _)|exact S1].
  - destruct (closed c0); cbn [fst]; [exact (S0 _)|].
    pose proof (drain_all_step _ T0) as S1. rewrite W0 in S1. eapply CStep_trans; [exact (S0 _)|exact S1].
  - pose proof (op_close_step _ T0) as S1. rewrite W0 in S1. eapply CStep_trans; [exact (S0 _)|exact S1].
Qed.

(** settle (the end of every stream step: adapts everywhere, staged notifications handed to the driver)
    changes neither a ghost log, nor a notification log, nor what a reader sees *)
Definition Settled (c c' : cache) : Prop :=
  policy c' = policy c /\ mask c' = mask c /\ now c' = now c /\ closed c' = closed c /\
  length (shards c') = length (shards c) /\
  forall i s, nth_error (shards c) i = Some s ->
    exists s', nth_error (shards c') i = Some s' /\ TShard (policy c) (mask c) s' /\
               glog s' = glog s /\ nlog s' = nlog s /\ (forall k, lke (policy c) s' k = lke (policy c) s k).

Lemma Settled_refl c : TInv c -> Settled c c.
Proof.
  intros T. repeat split; auto. intros i s H. exists s. split; [exact H|]. split; [eapply TInv_nth; eauto|auto].
Qed.

Lemma Settled_TInv c c' : Settled c c' -> TInv c'.
Proof.
  intros (A1 & A2 & _ & _ & A3 & A4). unfold TInv. rewrite A1, A2. apply Forall_forall. intros s' Hs'.
  apply In_nth_error in Hs'. destruct Hs' as [i Hi].
  assert (Hlt : (i < length (shards c))%nat) by (rewrite <- A3; apply nth_error_Some; congruence).
  destruct (nth_error (shards c) i) as [s|] eqn:E; [|apply nth_error_None in E; lia].
  destruct (A4 i s E) as (s1 & H1 & T1 & _). congruence.
Qed.

Theorem settle_settled c : TInv c -> Settled c (CA.settle c).
Proof.
  intros T. unfold CA.settle. destruct (quiescent c); [|apply Settled_refl; exact T].
  unfold take_staged. cbn [fst with_shards shards closed now].
  split; [reflexivity|]. split; [reflexivity|]. split; [reflexivity|]. split; [reflexivity|].
  split; [cbn; rewrite !map_length; reflexivity|].
  intros i s H. cbn [with_shards shards]. rewrite !nth_error_map, H. cbn [option_map]. eexists. split; [reflexivity|].
  pose proof (TInv_nth _ _ _ T H) as TS.
  pose proof (sh_adapts (policy c) (mask c) (env_of c) eq_refl s (tsh_inv _ _ _ TS)) as TA.
  set (sa := adapts s) in *.
  assert (LK : forall k, lookup (sh_set sa (tabk sa) (lst sa) (lfu sa) (prob sa) (main sa) (hand sa) (size sa) (scost sa) []) (policy c) k
                         = lookup sa (policy c) k) by reflexivity.
  split; [|split; [exact (ts_glog _ _ _ _ TA)|split; [exact (ts_nlog _ _ _ _ TA)|]]].
  - constructor.
    + apply ShInv_unstage. exact (ts_inv _ _ _ _ TA).
    + cbn [pend sh_set]. unfold sa. rewrite pend_adapts. exact (tsh_pend _ _ _ TS).
    + intros k it L. rewrite LK in L. exact (touch_lastw _ _ _ _ TA (tsh_last _ _ _ TS) k it L).
  - intros k. unfold lke at 1. rewrite LK. exact (ts_view _ _ _ _ TA k).
Qed.

Theorem cstep_full_TInv c op ev : TInv c -> TInv (fst (CA.cstep_full c op ev)).
Proof.
  intros T. pose proof (CStep_TInv _ _ _ (cstep_step c op ev T)) as T1. unfold CA.cstep_full.
  destruct (CA.cstep c op ev) as [c1 r]. cbn [fst] in *. exact (Settled_TInv _ _ (settle_settled c1 T1)).
Qed.

Theorem crun_TInv ops : forall c, TInv c -> TInv (CA.crun c ops).
Proof.
  induction ops as [|[op ev] r IH]; intros c T; cbn [CA.crun]; [exact T|]. apply IH. apply cstep_full_TInv. exact T.
Qed.

(** the initial cache *)
Lemma PolicyOK_ShInv pol m s : CA.PolicyOK pol m s -> ShInv pol m s.
Proof.
  unfold CA.PolicyOK. intros (_ & _ & H). destruct (is_sieve s pol) eqn:HS.
  - right. destruct H as (A & B & C & D & _). auto.
  - left. destruct H as (A & _). auto.
Qed.

Theorem TInv_init l cfg ncpu msk weigher t0 :
  decode_config (firstn 13 l) = Some (cfg, ncpu) -> skipn 13 l = [msk; weigher; t0] ->
  validate cfg = None -> 1 <= ncpu -> ShardCount cfg <= 2 ^ 62 ->
  TInv (cache_init l).
Proof.
  intros D S V Hc Hs.
  destruct (CA.cache_init_inv (fun _ => 0) l cfg ncpu msk weigher t0 D S V Hc Hs) as ((_ & OK & _) & _ & _ & _ & _ & _ & EM & _).
  unfold TInv. apply Forall_forall. intros s Hs'. destruct (EM s Hs') as (E1 & E2 & E3 & _).
  apply In_nth_error in Hs'. destruct Hs' as [i Hi]. destruct (OK i s Hi) as (P & _).
  constructor; [exact (PolicyOK_ShInv _ _ _ P)|rewrite E2; constructor|].
  intros k it LK. apply lookup_some_memz in LK. rewrite E1 in LK. discriminate.
Qed.

(* CacheProofs' invariant supplies everything in TInv except the ghost-log characterisation LastW *)
Lemma CacheInv_shards (shard_of : Z -> Z) c : CA.CacheInv shard_of c ->
  forall i s, nth_error (shards c) i = Some s -> ShInv (policy c) (mask c) s /\ Forall cmd_ok (pend s).
Proof.
  intros (_ & OK & _) i s H. destruct (OK i s H) as (P & Q & _). split; [exact (PolicyOK_ShInv _ _ _ P)|].
  eapply Forall_impl; [|exact Q]. intros cmd (k & v & ttl & cst & -> & Hc & _). exact Hc.
Qed.

(* ================================================================== *)
(** * G. C05 at cache level: the stored deadline, rewrite, Keys, Cleanup *)
(* ================================================================== *)

Lemma resident_put_same c sh s s1 h mi ev ex k :
  get_shard c sh = Some s -> resident (put_shard c sh s1 h mi ev ex) sh k = lookup s1 (policy c) k.
Proof. intros G. unfold resident. rewrite (get_put_same c sh s s1 h mi ev ex G). reflexivity. Qed.

Lemma lke_ess_fields pol s k it kk v ex c b :
  lookup s pol k = Some it -> lke pol s k = Some (kk, v, ex, c, b) -> val it = v /\ exp it = ex /\ cost it = c.
Proof. intros L H. unfold lke in H. rewrite L in H. cbn [option_map] in H. unfold SP.ess in H. injection H as _ A B C _. auto. Qed.

(** C05 items 8 and 11: whatever entry of k is resident after a successful Set(k, v, ttl, cost) is the
    one just written, and its deadline is the stamp of the resolved TTL at the clock of the write;
    a previous deadline never survives a rewrite. *)
Theorem c05_rewrite_replaces_deadline c k v ttl cst sh c' it :
  TInv c -> op_set c k v ttl cst sh = (c', 0) -> resident c' sh k = Some it ->
  val it = v /\ cost it = cst /\ exp it = stamp (norm_ttl c ttl) (now c).
Proof.
  intros T. unfold op_set. destruct (Z.eqb_spec (set_check c sh cst) 0) as [E|E]; cbn [negb]; [|intros H; injection H as _ H; lia].
  intros H. injection H as <-.
  pose proof (CStep_TInv _ _ _ (drain_shard_step c sh T)) as T0. pose proof (SameCfg_drain_shard c sh) as SC.
  set (c0 := drain_shard c sh) in *. clearbody c0.
  unfold apply_cmd. destruct (get_shard c0 sh) as [s|] eqn:G.
  2:{ unfold resident. rewrite G. discriminate. }
  destruct (apply_set (env_of c0) s k v (stamp (norm_ttl c ttl) (now c0)) cst) as [[s1 cm] d] eqn:AS.
  rewrite (resident_put_same c0 sh s s1 _ _ _ _ k G). intros LK.
  destruct (sh_apply_set (policy c0) (mask c0) (env_of c0) eq_refl eq_refl s k v _ cst s1 cm d
              (tsh_inv _ _ _ (TInv_get _ _ _ T0 G)) (set_check_cost _ _ _ E) AS) as [dl SS].
  pose proof (ss_view _ _ _ _ _ _ _ _ _ _ _ SS k) as V. rewrite Z.eqb_refl in V.
  destruct (memz (map dkey dl) k).
  - apply lke_none in V. congruence.
  - destruct (lke_ess_fields _ _ _ _ _ _ _ _ _ LK V) as (A & B & C). rewrite (sc_now _ _ SC) in B. auto.
Qed.

(** C05 item 8: the stored deadline *)
Theorem c05_stamp c k v ttl cst sh c' it :
  TInv c -> op_set c k v ttl cst sh = (c', 0) -> resident c' sh k = Some it ->
  let t := norm_ttl c ttl in
  (0 < t -> t <= max_int64 -> exp it = Z.min (now c + t) max_int64) /\
  (0 < t -> 0 < now c -> exp it = Z.min (now c + t) max_int64) /\
  (t = 0 -> exp it = 0) /\
  (* t = 0 exactly for NoExpiration, any other negative TTL, and DefaultExpiration under a DefaultTTL <= 0 *)
  (t = 0 <-> (ttl < 0 \/ (ttl = defaultExpiration /\ defttl c <= 0))) /\
  (ttl = defaultExpiration -> 0 < defttl c -> t = defttl c) /\ (0 < ttl -> t = ttl).
Proof.
  intros T H R. destruct (c05_rewrite_replaces_deadline _ _ _ _ _ _ _ _ T H R) as (_ & _ & E). cbv zeta.
  split; [intros A B; rewrite E; apply stamp_pos; lia|].
  split; [intros A B; rewrite E; apply stamp_pos_clock; lia|].
  split; [intros A; rewrite E, A; reflexivity|].
  split; [apply norm_ttl_zero_iff|].
  split; [intros -> A; apply norm_ttl_default_pos; exact A|apply norm_ttl_positive].
Qed.

(* the positive half of item 11: rewriting a resident key on a quiescent shard that is not over
   capacity, with a cost that does not grow (or no cost cap), leaves it resident with the new stamp
   and drops / stages nothing *)
Theorem c05_rewrite_in_place c k v ttl cst sh c' s old :
  TInv c -> get_shard c sh = Some s -> pend s = [] -> lookup s (policy c) k = Some old ->
  over_capacity s = false -> (costcap s <= 0 \/ cst <= cost old) ->
  op_set c k v ttl cst sh = (c', 0) ->
  exists it s', get_shard c' sh = Some s' /\ resident c' sh k = Some it /\
    val it = v /\ cost it = cst /\ exp it = stamp (norm_ttl c ttl) (now c) /\
    staged s' = staged s /\ nlog s' = nlog s /\ glog s' = glog s ++ [(1, k, val old); (0, k, v)].
Proof.
  intros T G P LK O HC. unfold op_set.
  destruct (Z.eqb_spec (set_check c sh cst) 0) as [E|E]; cbn [negb]; [|intros H; injection H as _ H; lia].
  intros H. injection H as <-. rewrite (drain_shard_quiescent c sh s G P). unfold apply_cmd. rewrite G.
  destruct (apply_set (env_of c) s k v (stamp (norm_ttl c ttl) (now c)) cst) as [[s1 cm] d] eqn:AS.
  destruct (sh_apply_set (policy c) (mask c) (env_of c) eq_refl eq_refl s k v _ cst s1 cm d
              (tsh_inv _ _ _ (TInv_get _ _ _ T G)) (set_check_cost _ _ _ E) AS) as [dl SS].
  pose proof (ss_update _ _ _ _ _ _ _ _ _ _ _ SS old LK O HC) as ->.
  pose proof (ss_view _ _ _ _ _ _ _ _ _ _ _ SS k) as V. cbn [map memz] in V. rewrite Z.eqb_refl in V.
  apply lke_some in V. destruct V as (it & L1 & E1).
  exists it, s1. rewrite (get_put_same c sh s s1 _ _ _ _ G), (resident_put_same c sh s s1 _ _ _ _ k G).
  split; [reflexivity|]. split; [exact L1|]. unfold SP.ess in E1. injection E1 as _ A B C _.
  split; [exact A|]. split; [exact C|]. split; [exact B|].
  split; [rewrite (ss_staged _ _ _ _ _ _ _ _ _ _ _ SS); apply app_nil_r|].
  split; [rewrite (ss_nlog _ _ _ _ _ _ _ _ _ _ _ SS); apply app_nil_r|].
  destruct (ss_glog _ _ _ _ _ _ _ _ _ _ _ SS) as [GL|[GL _]]; rewrite GL, LK; cbn [map wlog app]; rewrite ?app_nil_r; reflexivity.
Qed.

(** C05 item 9, Keys: every listed key is backed by a resident entry whose deadline has not passed,
    no shard lists a key twice, and an entry past its deadline is not listed by its shard *)
Lemma shard_items_lookup pol m s it : ShInv pol m s ->
  In it (shard_items s pol) -> In (key it) (tabk s) -> lookup s pol (key it) = Some it.
Proof.
  intros [[HS (C & _)]|(HS & I & Q & _)] Hi Hk; unfold shard_items in Hi; rewrite HS in Hi.
  - rewrite (lookup_find _ _ _ C). apply find_item_NoDup; [apply (ci_lst_nodup _ _ C)|exact Hi].
  - apply filter_In in Hi. destruct Hi as [Hi U].
    pose proof (SP.lookup_of_in {| e_pol := pol; e_stats := false; e_mask := m |} (is_sieve_pol _ _ HS) s it I Hi) as L.
    cbn [e_pol] in L. apply L. destruct (unpub it); [discriminate|reflexivity].
Qed.

Lemma lookup_shard_items pol m s k it : ShInv pol m s -> lookup s pol k = Some it -> In it (shard_items s pol).
Proof.
  intros [[HS (C & _)]|(HS & I & Q & _)] LK; unfold shard_items; rewrite HS.
  - exact (proj1 (proj2 (proj2 (proj2 (lookup_resident _ _ _ _ C LK))))).
  - pose proof (SP.lookup_some {| e_pol := pol; e_stats := false; e_mask := m |} (is_sieve_pol _ _ HS) s k it I LK) as (A & _ & U & _).
    apply filter_In. split; [exact A|]. rewrite U. reflexivity.
Qed.

Lemma shard_items_nodup pol m s : ShInv pol m s -> NoDup (map key (shard_items s pol)).
Proof.
  intros [[HS (C & _)]|(HS & I & Q & _)]; unfold shard_items; rewrite HS.
  - apply (ci_lst_nodup _ _ C).
  - apply SP.nodup_keys_filter. exact (SP.SInv_items_nodup s I).
Qed.

Lemma NoDup_map_filter {A B} (f : A -> B) (p : A -> bool) l : NoDup (map f l) -> NoDup (map f (filter p l)).
Proof.
  induction l as [|x l IH]; cbn [map filter]; intros ND; [constructor|]. inversion ND as [|y l' Hy ND']; subst.
  destruct (p x); cbn [map]; [|apply IH; exact ND']. constructor; [|apply IH; exact ND'].
  intros H. apply Hy. apply in_map_iff in H. destruct H as (z & Ez & Hz). apply filter_In in Hz. rewrite <- Ez.
  apply in_map. apply Hz.
Qed.

Theorem shard_keys_spec pol m nw s k : ShInv pol m s ->
  (In k (shard_keys pol nw s) <-> exists it, lookup s pol k = Some it /\ (exp it = 0 \/ nw <= exp it)) /\
  NoDup (shard_keys pol nw s).
Proof.
  intros HI. split; [|unfold shard_keys; apply NoDup_map_filter; eapply shard_items_nodup; eauto].
  rewrite in_shard_keys. split.
  - intros (it & Hi & K & M & E). exists it. split; [|exact E]. rewrite <- K. eapply shard_items_lookup; eauto. rewrite K. exact M.
  - intros (it & LK & E). exists it.
    destruct (sh_lookup_some pol m {| e_pol := pol; e_stats := false; e_mask := m |} eq_refl s k it HI LK) as (K & _ & M & _).
    repeat split; auto. eapply lookup_shard_items; eauto.
Qed.

Theorem c05_never_after_deadline_keys c k : TInv c -> In k (op_keys c) ->
  closed c = false /\ exists sh it, resident c sh k = Some it /\ expired it (now c) = false /\ (exp it = 0 \/ now c <= exp it).
Proof.
  intros T H. destruct (closed c) eqn:Hc; [rewrite (op_keys_closed _ Hc) in H; destruct H|]. split; [reflexivity|].
  rewrite (op_keys_eq _ Hc), in_flat_map in H. destruct H as (s & Hs & Hk).
  apply In_nth_error in Hs. destruct Hs as [i Hi]. pose proof (TInv_nth _ _ _ T Hi) as TS.
  apply (shard_keys_spec _ _ _ _ _ (tsh_inv _ _ _ TS)) in Hk. destruct Hk as (it & LK & E).
  exists (Z.of_nat i), it. unfold resident, get_shard. rewrite Nat2Z.id, Hi. split; [exact LK|]. split; [|exact E].
  apply expired_false. lia.
Qed.

(* the shard of an entry past its deadline does not list it; one that is live (with a sane, non-negative
   deadline) is listed *)
Theorem c05_keys_of_shard c sh s k it : TInv c -> get_shard c sh = Some s -> lookup s (policy c) k = Some it ->
  (0 < exp it < now c -> ~ In k (shard_keys (policy c) (now c) s)) /\
  (0 <= exp it -> expired it (now c) = false -> closed c = false -> In k (op_keys c)).
Proof.
  intros T G LK. pose proof (TInv_get _ _ _ T G) as TS.
  pose proof (shard_keys_spec (policy c) (mask c) (now c) s k (tsh_inv _ _ _ TS)) as [SK _]. split.
  - intros E H. apply SK in H. destruct H as (it' & L' & E'). rewrite LK in L'. injection L' as <-. lia.
  - intros E0 E Hc. rewrite (op_keys_eq _ Hc), in_flat_map. exists s. split; [eapply nth_error_In; exact G|].
    apply SK. exists it. split; [exact LK|]. apply expired_false in E. lia.
Qed.

(** after an expired entry has been met by Get or Exists it is gone (and logged, see c06_reasons) *)
Theorem c05_expired_get_removes c k sh it c' ok v r :
  TInv c -> closed c = false -> resident c sh k = Some it -> 0 < exp it < now c ->
  op_get c k sh = (c', ok, v, r) -> ok = false /\ resident c' sh k = None.
Proof.
  intros T Hc R E. unfold resident in R. destruct (get_shard c sh) as [s|] eqn:G; [|discriminate].
  unfold op_get. rewrite Hc, G. cbv zeta. rewrite (lookup_some_memz _ _ _ _ R). cbn [negb]. rewrite andb_false_r, G, R.
  rewrite (proj2 (expired_spec it (now c)) E).
  destruct (drop_item (env_of c) s it reasonExpired) as [[s1 o] d] eqn:DI. intros H. injection H as <- <- _ _.
  split; [reflexivity|]. rewrite (resident_put_same c sh s _ _ _ _ _ k G).
  assert (Hr : 0 <= reasonExpired) by (unfold reasonExpired; lia).
  exact (proj2 (proj2 (proj2 (drop_put_step c sh s k it reasonExpired s1 o d true 0 0 0 0 T G R Hr DI)))).
Qed.

Theorem c05_expired_exists_removes c k sh it c' b :
  TInv c -> closed c = false -> resident c sh k = Some it -> 0 < exp it < now c ->
  op_exists c k sh = (c', b) -> b = false /\ resident c' sh k = None.
Proof.
  intros T Hc R E. unfold resident in R. destruct (get_shard c sh) as [s|] eqn:G; [|discriminate].
  unfold op_exists. rewrite Hc, G, R. rewrite (proj2 (expired_spec it (now c)) E).
  destruct (drop_item (env_of c) s it reasonExpired) as [[s1 o] d] eqn:DI. intros H. injection H as <- <-.
  split; [reflexivity|]. rewrite (resident_put_same c sh s _ _ _ _ _ k G).
  assert (Hr : 0 <= reasonExpired) by (unfold reasonExpired; lia).
  exact (proj2 (proj2 (proj2 (drop_put_step c sh s k it reasonExpired s1 o d false 0 0 0 0 T G R Hr DI)))).
Qed.

(** ** C05 item 12: Cleanup *)

(* the sweep of all shards threads the two statistics counters through the per-shard folds *)
Lemma cleanup_outer_fold c ss : Forall (TShard (policy c) (mask c)) ss ->
  forall l ev ex,
  fold_left (fun (acc : list shard * Z * Z) (s : shard) =>
               let '(l, ev, ex) := acc in
               let '(s1, ev1, ex1) := fold_left (cleanup_shard (env_of c) (now c)) (tabk s) (s, ev, ex) in
               (l ++ [s1], ev1, ex1)) ss (l, ev, ex)
  = (l ++ map (cleanup_of (env_of c) (now c)) ss, ev,
     ex + (if statsOn c then sumZ (map (fun s => zlen (glog (cleanup_of (env_of c) (now c) s)) - zlen (glog s)) ss) else 0)).
Proof.
  induction 1 as [|s ss TS _ IH]; intros l ev ex; cbn [fold_left map sumZ].
  - rewrite app_nil_r. f_equal. destruct (statsOn c); lia.
  - pose proof (cleanup_fold_indep (env_of c) (now c) (tabk s) s ev ex 0 0) as EI.
    destruct (fold_left (cleanup_shard (env_of c) (now c)) (tabk s) (s, ev, ex)) as [[s1 ev1] ex1] eqn:F.
    destruct (sh_cleanup_fold (policy c) (mask c) (env_of c) eq_refl eq_refl (now c) (tabk s) s ev ex s1 ev1 ex1
                (tsh_inv _ _ _ TS) F) as (rl & CS & -> & ->).
    cbn [fst] in EI. fold (cleanup_of (env_of c) (now c) s) in EI. subst s1.
    rewrite IH, <- app_assoc. cbn [app]. f_equal.
    rewrite (cs_glog _ _ _ _ _ _ _ CS). unfold zlen. rewrite app_length, map_length. cbn [e_stats env_of].
    destruct (statsOn c); lia.
Qed.

Theorem c05_cleanup c : TInv c -> closed c = false ->
  let c' := op_cleanup c in
  (* 1. nothing resident is past its deadline any more *)
  (forall sh s' k it, get_shard c' sh = Some s' -> lookup s' (policy c) k = Some it -> expired it (now c) = false) /\
  (* 2. per shard: exactly the expired entries were removed, each logged once (and notified once when masked) *)
  (forall i s, nth_error (shards c) i = Some s ->
     exists s' rl, nth_error (shards c') i = Some s' /\
       glog s' = glog s ++ map exp_entry rl /\
       nlog s' = nlog s ++ exp_notes (mask c) rl /\ staged s' = staged s ++ exp_notes (mask c) rl /\
       NoDup (map key rl) /\
       Forall (fun it => lke (policy c) s (key it) = Some (SP.ess it) /\ 0 < exp it < now c) rl /\
       (forall k, lke (policy c) s' k = if memz (map key rl) k then None else lke (policy c) s k)) /\
  (* 3. the counters *)
  evictions c' = evictions c /\
  expirations c' = expirations c +
    (if statsOn c then sumZ (map (fun s => zlen (glog (cleanup_of (env_of c) (now c) s)) - zlen (glog s)) (shards c)) else 0) /\
  shards c' = map (cleanup_of (env_of c) (now c)) (shards c).
Proof.
  intros T Hc. cbv zeta. pose proof (op_cleanup_shards c Hc) as SH.
  assert (P2 : forall i s, nth_error (shards c) i = Some s ->
     exists s' rl, nth_error (shards (op_cleanup c)) i = Some s' /\ CleanSpec (policy c) (mask c) (now c) (tabk s) s s' rl).
  { intros i s H. rewrite SH, nth_error_map, H. cbn [option_map]. unfold cleanup_of.
    destruct (fold_left (cleanup_shard (env_of c) (now c)) (tabk s) (s, 0, 0)) as [[s1 ev1] ex1] eqn:F.
    destruct (sh_cleanup_fold (policy c) (mask c) (env_of c) eq_refl eq_refl (now c) (tabk s) s 0 0 s1 ev1 ex1
                (tsh_inv _ _ _ (TInv_nth _ _ _ T H)) F) as (rl & CS & _).
    exists s1, rl. split; [reflexivity|exact CS]. }
  split; [|split].
  - intros sh s' k it G LK. unfold get_shard in G.
    assert (Hlt : (Z.to_nat sh < length (shards c))%nat).
    { rewrite <- (map_length (cleanup_of (env_of c) (now c))), <- SH. apply nth_error_Some. congruence. }
    destruct (nth_error (shards c) (Z.to_nat sh)) as [s|] eqn:E; [|apply nth_error_None in E; lia].
    destruct (P2 _ _ E) as (s1 & rl & G1 & CS). rewrite G in G1. injection G1 as <-.
    apply (cs_swept _ _ _ _ _ _ _ CS k); [|exact LK].
    assert (V : lke (policy c) s' k = Some (SP.ess it)) by (unfold lke; rewrite LK; reflexivity).
    rewrite (cs_view _ _ _ _ _ _ _ CS) in V. destruct (memz (map key rl) k); [discriminate|].
    apply lke_some in V. destruct V as (it0 & L0 & _).
    exact (proj1 (proj2 (proj2 (sh_lookup_some (policy c) (mask c) (env_of c) eq_refl s k it0 (tsh_inv _ _ _ (TInv_nth _ _ _ T E)) L0)))).
  - intros i s H. destruct (P2 i s H) as (s1 & rl & G1 & CS). exists s1, rl. split; [exact G1|].
    destruct CS as [C1 C2 C3 C4 C5 C6 C7 C8 C9 C10]. repeat split; auto.
    eapply Forall_impl; [|exact C5]. intros it [A B]. split; [exact A|apply expired_spec; exact B].
  - unfold op_cleanup. rewrite Hc. rewrite (cleanup_outer_fold c (shards c) T [] (evictions c) (expirations c)).
    cbn [evictions expirations shards app]. auto.
Qed.

(* ================================================================== *)
(** * H. C06: conservation, notification log, what stages nothing *)
(* ================================================================== *)

Definition all_items (s : shard) : list item := lst s ++ prob s ++ main s.

(* the policy-independent ledger: every (k, v) ever written into this shard is resident, or was replaced
   by a later write, cleared, or dropped (for exactly one recorded reason) *)
Definition ULedger (s : shard) : Prop := forall k v,
  cnt (is_tag 0 k v) (glog s) =
  cnt (is_kv k v) (all_items s) + cnt (is_tag 1 k v) (glog s) + cnt (is_tag 2 k v) (glog s) + cnt (is_drop k v) (glog s).

Lemma cnt_filter {A} (f : A -> bool) l : cnt f l = Z.of_nat (length (filter f l)).
Proof. induction l as [|x l IH]; cbn [cnt filter length]; [reflexivity|]. destruct (f x); cbn [length]; lia. Qed.

Lemma cnt_ext {A} (f g : A -> bool) l : (forall x, f x = g x) -> cnt f l = cnt g l.
Proof. intros H. induction l as [|x l IH]; cbn [cnt]; [reflexivity|]. rewrite H, IH. reflexivity. Qed.

Lemma gcount_tag t k v g : Z.of_nat (SP.gcount (SP.tag_is t) k v g) = cnt (is_tag t k v) g.
Proof.
  unfold SP.gcount. rewrite <- cnt_filter. apply cnt_ext. intros [[t' k'] v']. reflexivity.
Qed.
Lemma gcount_drop k v g : Z.of_nat (SP.gcount SP.tag_drop k v g) = cnt (is_drop k v) g.
Proof.
  unfold SP.gcount. rewrite <- cnt_filter. apply cnt_ext. intros [[t' k'] v']. reflexivity.
Qed.
Lemma icount_kv k v l : Z.of_nat (SP.icount k v l) = cnt (is_kv k v) l.
Proof. unfold SP.icount. rewrite <- cnt_filter. reflexivity. Qed.

Theorem ShInv_ULedger pol m s : ShInv pol m s -> ULedger s.
Proof.
  intros [[HS (C & L & _)]|(HS & I & _ & L & _)] k v; unfold all_items.
  - rewrite (ci_prob _ _ C), (ci_main _ _ C), app_nil_r. apply L.
  - destruct (SP.iv_classic _ _ _ _ _ _ _ _ _ _ _ _ _ I) as [E _]. rewrite E. cbn [app]. fold (SP.items s).
    specialize (L k v). rewrite <- !gcount_tag, <- gcount_drop, <- icount_kv. rewrite L, !Nat2Z.inj_add. reflexivity.
Qed.

Theorem ShInv_UNotifLog pol m s : ShInv pol m s -> nlog s = notifs_of m (glog s).
Proof.
  intros [[HS (_ & _ & N)]|(HS & _ & _ & _ & N)]; [exact N|].
  unfold SP.NotifLog in N. rewrite N. unfold notifs_of. apply flat_map_ext. intros [[t k] v]. reflexivity.
Qed.

Definition sum_shards (f : shard -> Z) (c : cache) : Z := sumZ (map f (shards c)).

Lemma sumZ_map4 {A} (f a b d e : A -> Z) l : (forall x, In x l -> f x = a x + b x + d x + e x) ->
  sumZ (map f l) = sumZ (map a l) + sumZ (map b l) + sumZ (map d l) + sumZ (map e l).
Proof.
  induction l as [|x l IH]; intros H; cbn [map sumZ]; [reflexivity|].
  rewrite (H x (or_introl eq_refl)), IH by (intros y Hy; apply H; right; exact Hy). lia.
Qed.

(** C06 item 13: conservation, summed over all shards *)
Theorem c06_conservation c k v : TInv c ->
  sum_shards (fun s => cnt (is_tag 0 k v) (glog s)) c =
  sum_shards (fun s => cnt (is_kv k v) (all_items s)) c + sum_shards (fun s => cnt (is_tag 1 k v) (glog s)) c +
  sum_shards (fun s => cnt (is_tag 2 k v) (glog s)) c + sum_shards (fun s => cnt (is_drop k v) (glog s)) c.
Proof.
  intros T. unfold sum_shards. apply sumZ_map4. intros s Hs. unfold TInv in T. rewrite Forall_forall in T.
  exact (ShInv_ULedger _ _ _ (tsh_inv _ _ _ (T s Hs)) k v).
Qed.

(* ... after every history of the typed machine, from every validated configuration *)
Theorem c06_conservation_run l cfg ncpu msk weigher t0 ops k v :
  decode_config (firstn 13 l) = Some (cfg, ncpu) -> skipn 13 l = [msk; weigher; t0] ->
  validate cfg = None -> 1 <= ncpu -> ShardCount cfg <= 2 ^ 62 ->
  let c := CA.crun (cache_init l) ops in
  sum_shards (fun s => cnt (is_tag 0 k v) (glog s)) c =
  sum_shards (fun s => cnt (is_kv k v) (all_items s)) c + sum_shards (fun s => cnt (is_tag 1 k v) (glog s)) c +
  sum_shards (fun s => cnt (is_tag 2 k v) (glog s)) c + sum_shards (fun s => cnt (is_drop k v) (glog s)) c.
Proof.
  intros D S V Hc Hs. cbv zeta. apply c06_conservation. apply crun_TInv. eapply TInv_init; eauto.
Qed.

(** the notification log of every shard is exactly the masked dropped entries of its ghost log, in order:
    every notification is a dropped entry whose reason bit is in the mask, none is sent twice *)
Lemma notifs_of_in m g n : In n (notifs_of m g) ->
  In (10 + nreason n, nkey n, nval n) g /\ mask_has m (nreason n) = true /\ 0 <= nreason n.
Proof.
  unfold notifs_of. rewrite in_flat_map. intros ([[t k] v] & Hx & Hn). unfold notif_of in Hn.
  destruct ((10 <=? t) && mask_has m (t - 10)) eqn:E; [|destruct Hn]. destruct Hn as [<-|[]]. cbn [nreason nkey nval].
  apply andb_true_iff in E. destruct E as [E1 E2]. replace (10 + (t - 10)) with t by lia. repeat split; auto. lia.
Qed.

Lemma notifs_of_length m g : Z.of_nat (length (notifs_of m g)) <= cnt is_dropped g.
Proof.
  unfold notifs_of. induction g as [|[[t k] v] g IH]; cbn [flat_map cnt length]; [lia|]. rewrite app_length, Nat2Z.inj_add.
  set (A := length (flat_map (notif_of m) g)) in *. set (B := cnt is_dropped g) in *. clearbody A B.
  unfold notif_of, is_dropped. destruct (10 <=? t); cbn [andb]; [destruct (mask_has m (t - 10))|]; cbn [length]; lia.
Qed.

Theorem c06_notifications c sh s : TInv c -> get_shard c sh = Some s ->
  nlog s = notifs_of (mask c) (glog s) /\
  (forall n, In n (nlog s) -> In (10 + nreason n, nkey n, nval n) (glog s) /\ mask_has (mask c) (nreason n) = true) /\
  Z.of_nat (length (nlog s)) <= cnt is_dropped (glog s).
Proof.
  intros T G. pose proof (ShInv_UNotifLog _ _ _ (tsh_inv _ _ _ (TInv_get _ _ _ T G))) as N.
  split; [exact N|]. split.
  - intros n Hn. rewrite N in Hn. destruct (notifs_of_in _ _ _ Hn) as (A & B & _). auto.
  - rewrite N. apply notifs_of_length.
Qed.

(** Clear and Close (after their drain) stage nothing and notify nothing *)
Theorem c06_clear_stages_nothing c :
  closed c = false ->
  shards (op_clear c) = map (clear_shard (policy c)) (shards (drain_all c)) /\
  shards (op_close c) = map (clear_shard (policy c)) (shards (drain_all c)) /\
  (forall s, staged (clear_shard (policy c) s) = staged s /\ nlog (clear_shard (policy c) s) = nlog s).
Proof.
  intros Hc. unfold op_clear, op_close. rewrite Hc. cbv zeta.
  assert (P : policy (drain_all c) = policy c).
  { unfold drain_all. generalize (zseq 0 (length (shards c))). intros l. revert c Hc.
    induction l as [|i l IH]; intros c Hc; cbn [fold_left]; [reflexivity|].
    pose proof (SameCfg_drain_shard c i) as SC. rewrite IH; [apply SC|]. rewrite (sc_closed _ _ SC). exact Hc. }
  rewrite P. repeat split. unfold clear_shard. sfld. apply app_nil_r.
Qed.

(** C06 item 14: when the most recent ghost-log event about k in its shard is a drop (for whatever reason:
    the entry was notified if the reason is masked) or a clear, k is not readable: not resident, Exists is
    false, Get misses (on a quiescent shard: otherwise a queued SetAsync may write it again first), and
    the shard does not list it.  It becomes readable again only through a new write (a later tag-0 entry). *)
Theorem c06_not_readable c sh s k t v :
  TInv c -> get_shard c sh = Some s -> lastev (glog s) k = Some (t, v) -> t <> 0 ->
  resident c sh k = None /\
  (forall c' b, op_exists c k sh = (c', b) -> b = false) /\
  (pend s = [] -> forall c' ok v' r, op_get c k sh = (c', ok, v', r) -> ok = false) /\
  ~ In k (shard_keys (policy c) (now c) s).
Proof.
  intros T G LE Ht. pose proof (TInv_get _ _ _ T G) as TS.
  assert (NR : lookup s (policy c) k = None).
  { destruct (lookup s (policy c) k) as [it|] eqn:LK; [|reflexivity].
    rewrite (tsh_last _ _ _ TS k it LK) in LE. congruence. }
  assert (R : resident c sh k = None) by (unfold resident; rewrite G; exact NR).
  split; [exact R|]. split; [|split].
  - intros c' [|] H; [|reflexivity]. destruct (op_exists_true_sound _ _ _ _ H) as (_ & _ & it & R' & _). congruence.
  - intros P c' [|] v' r H; [|reflexivity].
    destruct (op_get_hit_sound _ _ _ _ _ _ H) as (_ & c0 & it & [->| ->] & R' & _); [congruence|].
    rewrite (drain_shard_quiescent c sh s G P) in R'. congruence.
  - intros H. apply (shard_keys_spec _ _ _ _ _ (tsh_inv _ _ _ TS)) in H. destruct H as (it & L & _). congruence.
Qed.

(* and conversely a resident entry is the subject of the last event about its key, which is its own write *)
Theorem c06_resident_last_written c sh k it s :
  TInv c -> get_shard c sh = Some s -> resident c sh k = Some it -> lastev (glog s) k = Some (0, val it).
Proof.
  intros T G R. unfold resident in R. rewrite G in R. exact (tsh_last _ _ _ (TInv_get _ _ _ T G) k it R).
Qed.

(* a successful Delete leaves the key unreadable *)
Theorem c06_delete_not_resident c k sh c' : TInv c -> op_delete c k sh = (c', true) -> resident c' sh k = None.
Proof.
  intros T. unfold op_delete. destruct (closed c); [discriminate|]. cbv zeta.
  pose proof (CStep_TInv _ _ _ (drain_shard_step c sh T)) as T0. set (c0 := drain_shard c sh) in *. clearbody c0.
  destruct (get_shard c0 sh) as [s|] eqn:G; [|discriminate].
  destruct (lookup s (policy c0) k) as [it|] eqn:LK; [|discriminate].
  destruct (drop_item (env_of c0) s it reasonDeleted) as [[s1 o] d] eqn:DI. intros H. injection H as <- _.
  rewrite (resident_put_same c0 sh s _ _ _ _ _ k G).
  assert (Hr : 0 <= reasonDeleted) by (unfold reasonDeleted; lia).
  exact (proj2 (proj2 (proj2 (drop_put_step c0 sh s k it reasonDeleted s1 o d false 0 0 0 0 T0 G LK Hr DI)))).
Qed.

(** C06 item 15 (and the per-step half of 13): what one step of the typed machine appends *)
Theorem c06_step_delta c op ev i s : TInv c -> nth_error (shards c) i = Some s ->
  exists s' delta, nth_error (shards (fst (CA.cstep c op ev))) i = Some s' /\
    glog s' = glog s ++ delta /\
    nlog s' = nlog s ++ notifs_of (mask c) delta /\ staged s' = staged s ++ notifs_of (mask c) delta /\
    Forall (entry_just (policy c) (now c) op i) delta.
Proof.
  intros T H. destruct (cstep_step c op ev T) as (_ & _ & _ & A). destruct (A i s H) as (s' & H' & _ & (d & D1 & D2 & D3 & D4 & _)).
  exists s', d. auto.
Qed.

(* operations during which queued or synchronous writes are applied to shard i *)
Definition applies_writes (pol : Z) (op : CA.cop) (i : nat) : Prop :=
  match op with
  | CA.CSet _ _ _ _ sh | CA.CDelete _ sh => i = Z.to_nat sh
  | CA.CGet _ sh | CA.CGetTTL _ sh => i = Z.to_nat sh /\ pol = policySieve
  | CA.CClear | CA.CClose | CA.CSync => True
  | _ => False
  end.

Theorem c06_reasons pol nw op i x : entry_just pol nw op i x ->
  (* deleted: only Delete of that key, in its shard *)
  (gtag x = 10 + reasonDeleted -> exists sh, op = CA.CDelete (gkey x) sh /\ i = Z.to_nat sh) /\
  (* expired: only an entry with 0 < deadline < now, met by Get / GetWithTTL / Exists of that key or by Cleanup *)
  (gtag x = 10 + reasonExpired ->
     (exists it, key it = gkey x /\ val it = gval x /\ 0 < exp it < nw) /\
     (op = CA.CCleanup \/ exists sh, i = Z.to_nat sh /\
        (op = CA.CGet (gkey x) sh \/ op = CA.CGetTTL (gkey x) sh \/ op = CA.CExists (gkey x) sh))) /\
  (* capacity: only while a write is applied to that shard *)
  (gtag x = 10 + reasonCapacity -> applies_writes pol op i) /\
  (* rejected: only under SieveTinyLFU, while a write is applied to that shard *)
  (gtag x = 10 + reasonRejected -> pol = policySieve /\ applies_writes pol op i) /\
  (* written / replaced markers only from writes, cleared markers only from Clear / Close *)
  (gtag x = 0 \/ gtag x = 1 -> applies_writes pol op i) /\
  (gtag x = 2 -> op = CA.CClear \/ op = CA.CClose) /\
  (* and nothing else is ever logged *)
  (gtag x = 0 \/ gtag x = 1 \/ gtag x = 2 \/ gtag x = 10 + reasonCapacity \/ gtag x = 10 + reasonRejected \/
   gtag x = 10 + reasonExpired \/ gtag x = 10 + reasonDeleted).
Proof.
  destruct x as [[t k0] v0].
  unfold entry_just, write_entry, exp_drop, expired_entry, drop_entry_of, cleared_entry, applies_writes,
    reasonCapacity, reasonRejected, reasonExpired, reasonDeleted, gtag, gkey, gval. cbn [fst snd].
  intros H.
  assert (BRK : True) by exact I.
  destruct op;
    repeat match goal with
           | H : _ /\ _ |- _ => destruct H
           | H : _ \/ _ |- _ => destruct H
           | H : exists _, _ |- _ => destruct H
           | H : False |- _ => destruct H
           end; subst;
    (split; [intros; try (exfalso; lia); eauto|]);
    (split; [intros; try (exfalso; lia); (split; [eauto|eauto 8])|]);
    (split; [intros; try (exfalso; lia); auto|]);
    (split; [intros; try (exfalso; lia); auto|]);
    (split; [intros; try (exfalso; lia); auto|]);
    (split; [intros; try (exfalso; lia); auto|]); lia.
Qed.

(** C06 item 15, the write path, exactly as ClassicProofs / SieveProofs give it: the entries dropped by one
    applied Set(k, v) have pairwise different keys, are gone afterwards, and each is
    - dropped for reason capacity and published, or dropped for reason rejected on a SieveTinyLFU shard;
    - unpublished only if it is the write's own candidate (k, v), and then the reason is rejected;
    - otherwise an entry that was resident (published) before the write, or the write's own entry. *)
Theorem c06_write_drops pol m e s k v ex c s' cm d :
  e_pol e = pol -> e_mask e = m -> ShInv pol m s -> 0 <= c -> apply_set e s k v ex c = (s', cm, d) ->
  exists dl : list (item * Z),
    (glog s' = glog s ++ wlog (lookup s pol k) k v ++ map SP.dent dl \/
     (glog s' = glog s ++ map SP.dent dl ++ wlog (lookup s pol k) k v /\ ~ In k (map dkey dl))) /\
    nlog s' = nlog s ++ dnotes m dl /\ staged s' = staged s ++ dnotes m dl /\
    NoDup (map dkey dl) /\
    Forall (fun p =>
      lookup s' pol (dkey p) = None /\
      ((snd p = reasonCapacity /\ unpub (fst p) = false) \/ (snd p = reasonRejected /\ is_sieve s pol = true)) /\
      (unpub (fst p) = true -> snd p = reasonRejected /\ dkey p = k /\ val (fst p) = v) /\
      ((dkey p = k /\ val (fst p) = v) \/ (dkey p <> k /\ lke pol s (dkey p) = Some (SP.ess (fst p))))) dl /\
    d = (if e_stats e then Z.of_nat (length (filter (fun p => snd p =? reasonCapacity) dl)) else 0) /\
    (* an in-place update that fits drops and stages nothing *)
    (forall old, lookup s pol k = Some old -> over_capacity s = false -> (costcap s <= 0 \/ c <= cost old) -> dl = []).
Proof.
  intros Hp Hm HI Hc H. destruct (sh_apply_set pol m e Hp Hm s k v ex c s' cm d HI Hc H) as [dl SS].
  exists dl. destruct SS as [S1 S2 S3 S4 S5 S6 S7 S8 S9 S10 S11 S12].
  repeat split; auto. apply Forall_forall. intros p Hp'.
  rewrite Forall_forall in S7, S8. specialize (S7 p Hp'). specialize (S8 p Hp').
  split; [|split; [exact S8|split; [|exact S7]]].
  - apply lke_none. rewrite S6. assert (M : memz (map dkey dl) (dkey p) = true) by (apply memz_In; apply in_map; exact Hp').
    rewrite M. reflexivity.
  - intros U. destruct S8 as [[_ U']|[R _]]; [congruence|]. split; [exact R|].
    destruct S7 as [A|[_ V]]; [exact A|]. exfalso. apply lke_some in V. destruct V as (it0 & L0 & E0).
    destruct (sh_lookup_some pol m e Hp s _ it0 HI L0) as (_ & U0 & _). unfold SP.ess in E0. congruence.
Qed.

(** a read hit keeps the entry (only recency / frequency / visited bookkeeping moves) *)
Theorem c05_hit_keeps_entry c k sh it c' v r :
  TInv c -> closed c = false -> resident c sh k = Some it -> expired it (now c) = false ->
  op_get c k sh = (c', true, v, r) ->
  exists it', resident c' sh k = Some it' /\ SP.ess it' = SP.ess it /\ now c' = now c.
Proof.
  intros T Hc R E. unfold resident in R. destruct (get_shard c sh) as [s|] eqn:G; [|discriminate].
  unfold op_get. rewrite Hc, G. cbv zeta. rewrite (lookup_some_memz _ _ _ _ R). cbn [negb]. rewrite andb_false_r, G, R, E.
  match goal with |- context [adapts ?x] => replace x with (hit_upd (policy c) s it k) by reflexivity end.
  intros H. injection H as <- _ _. rewrite (resident_put_same c sh s _ _ _ _ _ k G).
  pose proof (sh_get_touch (policy c) (mask c) (env_of c) eq_refl eq_refl s k it (tsh_inv _ _ _ (TInv_get _ _ _ T G)) R) as TT.
  pose proof (ts_view _ _ _ _ TT k) as V. unfold lke at 2 in V. rewrite R in V. cbn [option_map] in V.
  apply lke_some in V. destruct V as (it' & L' & E'). exists it'. auto.
Qed.

(** ** histories *)
Theorem run_TInv l cfg ncpu msk weigher t0 ops :
  decode_config (firstn 13 l) = Some (cfg, ncpu) -> skipn 13 l = [msk; weigher; t0] ->
  validate cfg = None -> 1 <= ncpu -> ShardCount cfg <= 2 ^ 62 ->
  TInv (CA.crun (cache_init l) ops).
Proof. intros D S V Hc Hs. apply crun_TInv. eapply TInv_init; eauto. Qed.

(* the integer-encoded stream machine of CacheModel continues from the same states *)
Theorem cache_step_TInv c op ev : TInv c -> TInv (fst (cache_step c (CA.encode_op op ev))).
Proof. intros T. rewrite CA.cache_step_state. apply cstep_full_TInv. exact T. Qed.

(* the ghost logs only ever grow, one step at a time, by justified entries; settle adds nothing *)
Theorem c06_full_step_delta c op ev i s : TInv c -> nth_error (shards c) i = Some s ->
  exists s' delta, nth_error (shards (fst (CA.cstep_full c op ev))) i = Some s' /\
    glog s' = glog s ++ delta /\ nlog s' = nlog s ++ notifs_of (mask c) delta /\
    Forall (entry_just (policy c) (now c) op i) delta.
Proof.
  intros T H. destruct (c06_step_delta c op ev i s T H) as (s1 & delta & H1 & G1 & N1 & _ & F1).
  pose proof (CStep_TInv _ _ _ (cstep_step c op ev T)) as T1. unfold CA.cstep_full.
  destruct (CA.cstep c op ev) as [c1 r]. cbn [fst] in *.
  destruct (settle_settled c1 T1) as (_ & _ & _ & _ & _ & A). destruct (A i s1 H1) as (s2 & H2 & _ & G2 & N2 & _).
  exists s2, delta. rewrite G2, N2. auto.
Qed.

(* ================================================================== *)
(** * I. Concrete runs (non-vacuity) and the literal statements that are false *)
(* ================================================================== *)

(* one LRU shard of capacity 4, statistics on, every reason notified (mask 15), clock 100 *)
Definition ex_lru : cache := cache_init [4; 0; 1; 0; 0; 1; 1; 0; 0; 0; 0; 0; 1; 15; 0; 100].
Definition advance (c : cache) (d : Z) : cache := with_shards c (shards c) (closed c) (now c + d).
Definition ex_cfg0 : config :=
  {| MaxSize := 0; MaxCost := 0; ShardCount := 0; CleanupInterval := 0; DefaultTTL := 0; Policy := 0; StatsEnabled := 0;
     ProbationRatio := 0; GhostRatio := 0; CostAdmission := 0; WriteBufferSize := 0; WriteBatchSize := 0 |}.
Definition shard0 (c : cache) : shard := hd (new_shard ex_cfg0 1 0) (shards c).
Definition nview (n : notif) : Z * Z * Z := (nkey n, nval n, nreason n).
Definition gres (x : cache * bool * Z * Z) : bool * Z * Z := (snd (fst (fst x)), snd (fst x), snd x).

(* Set(1, 10, ttl 5) at clock 100; read at 105 (deadline reached, not passed); read at 106 *)
Example ex_ttl_expiry :
  let c1 := fst (op_set ex_lru 1 10 5 1 0) in
  let c2 := advance c1 5 in
  let g2 := op_get c2 1 0 in
  let c3 := advance (fst (fst (fst g2))) 1 in
  let g3 := op_get c3 1 0 in
  let c4 := fst (fst (fst g3)) in
  (map (fun it => (key it, val it, exp it)) (lst (shard0 c1)), gres g2, gres g3,
   glog (shard0 c4), map nview (nlog (shard0 c4)), (hits c4, misses c4, expirations c4, evictions c4),
   op_keys c2, op_keys c3, lastev (glog (shard0 c4)) 1)
  = ([(1, 10, 105)], (true, 10, 0), (false, 0, 0),
     [(0, 1, 10); (12, 1, 10)], [(1, 10, 2)], (1, 1, 1, 0), [1], [], Some (12, 10)).
Proof. vm_compute. reflexivity. Qed.

(* NoExpiration, a negative TTL and DefaultExpiration under DefaultTTL 0 all store "never expires";
   a rewrite with a TTL replaces the deadline; Cleanup at a later clock removes exactly the expired one *)
Example ex_ttl_stamps_cleanup :
  let c1 := fst (op_set ex_lru 1 10 (-1) 1 0) in
  let c2 := fst (op_set c1 2 20 (-7) 1 0) in
  let c3 := fst (op_set c2 3 30 0 1 0) in
  let c4 := fst (op_set c3 2 21 50 1 0) in
  let c5 := op_cleanup (advance c4 51) in
  (map (fun it => (key it, val it, exp it)) (lst (shard0 c4)),
   map (fun it => (key it, val it, exp it)) (lst (shard0 c5)),
   glog (shard0 c5), map nview (nlog (shard0 c5)), expirations c5)
  = ([(2, 21, 150); (3, 30, 0); (1, 10, 0)], [(3, 30, 0); (1, 10, 0)],
     [(0, 1, 10); (0, 2, 20); (0, 3, 30); (1, 2, 20); (0, 2, 21); (12, 2, 21)], [(2, 21, 2)], 1).
Proof. vm_compute. reflexivity. Qed.

(* the saturating stamp: a TTL of max_int64 at clock 100 stores max_int64 (no wrap-around), and the
   entry is served and listed consistently *)
Example ex_ttl_saturates :
  let c1 := fst (op_set ex_lru 1 10 max_int64 1 0) in
  (map exp (lst (shard0 c1)), gres (op_get c1 1 0), op_keys c1)
  = ([max_int64], (true, 10, max_int64 - 100), [1]).
Proof. vm_compute. reflexivity. Qed.

(** "GetWithTTL reports -1 iff the deadline is 0" needs a non-negative clock: at a negative clock a positive
    TTL can stamp a negative deadline, which is never expired, and deadline - now can then be -1.
    (Clocks are Unix nanoseconds in the implementation; c05_remaining assumes 0 <= deadline.) *)
Definition ex_lru_neg : cache := cache_init [4; 0; 1; 0; 0; 1; 1; 0; 0; 0; 0; 0; 1; 15; 0; -10].
Example c05_remaining_minus_one_iff_no_deadline_refuted :
  let c1 := fst (op_set ex_lru_neg 1 10 9 1 0) in
  (map exp (lst (shard0 c1)), gres (op_get (advance c1 10) 1 0)) = ([-1], (true, 10, -1)).
Proof. vm_compute. reflexivity. Qed.

(** "an update stages nothing" is false when the cost grows on a cost-bounded cache: MaxCost 10,
    Set(1, cost 5); Set(2, cost 5); Set(1, cost 6) displaces key 2 with reason capacity, which is
    staged and notified.  (True variant: c05_rewrite_in_place / c06_write_drops, last clause.) *)
Definition ex_weighted_lru : cache := cache_init [0; 10; 1; 0; 0; 1; 1; 0; 0; 0; 0; 0; 1; 15; 1; 100].
Example c06_update_stages_nothing_refuted :
  let c1 := fst (op_set ex_weighted_lru 1 10 0 5 0) in
  let c2 := fst (op_set c1 2 20 0 5 0) in
  let c3 := fst (op_set c2 1 11 0 6 0) in
  (map nview (staged (shard0 c2)), map nview (staged (shard0 c3)), glog (shard0 c3), evictions c3,
   map (fun it => (key it, val it, cost it)) (lst (shard0 c3)))
  = ([], [(2, 20, 0)], [(0, 1, 10); (0, 2, 20); (1, 1, 10); (0, 1, 11); (10, 2, 20)], 1, [(1, 11, 6)]).
Proof. vm_compute. reflexivity. Qed.

(** Clear on a cache with queued SetAsync commands first applies them, and those writes may stage
    (here: capacity 4, five queued inserts): "Clear stages nothing" holds for the clear step itself
    (c06_clear_stages_nothing), not for the drain that precedes it. *)
Example c06_clear_stages_nothing_refuted :
  let q := fun c k => fst (op_set_async c k (k * 10) 0 1 0) in
  let c5 := q (q (q (q (q ex_lru 1) 2) 3) 4) 5 in
  let c6 := op_clear c5 in
  (map nview (staged (shard0 c5)), map nview (staged (shard0 c6)), op_keys c6, size (shard0 c6))
  = ([], [(1, 10, 0)], [], 0).
Proof. vm_compute. reflexivity. Qed.

(* one SieveTinyLFU shard of capacity 4: the same TTL behaviour on the Sieve read / write paths
   (each insert consumes one recorded ghost-hit event (1, shard 0, 0)) *)
Definition ex_sieve : cache := cache_init [4; 0; 1; 0; 0; 4; 1; 0; 0; 0; 0; 0; 1; 15; 0; 100].
Example ex_ttl_sieve :
  let c1 := fst (op_set (attach_events ex_sieve [1; 0; 0]) 1 10 5 1 0) in
  let c2 := fst (op_set (attach_events c1 [1; 0; 0]) 2 20 0 1 0) in
  let g1 := op_get (advance c2 5) 1 0 in
  let e2 := op_exists (advance c2 6) 1 0 in
  let c3 := fst e2 in
  (is_sieve (shard0 c2) (policy c2), errs c2, map (fun it => (key it, val it, exp it)) (prob (shard0 c2) ++ main (shard0 c2)),
   gres g1, snd e2, glog (shard0 c3), map nview (nlog (shard0 c3)), expirations c3, op_keys c3,
   gres (op_get c3 1 0), lastev (glog (shard0 c3)) 1)
  = (true, 0, [(2, 20, 0); (1, 10, 105)], (true, 10, 0), false,
     [(0, 1, 10); (0, 2, 20); (12, 1, 10)], [(1, 10, 2)], 1, [2], (false, 0, 0), Some (12, 10)).
Proof. vm_compute. reflexivity. Qed.

(** C05 item 9 in one statement: an entry whose deadline has passed is returned by no read path *)
Theorem c05_never_after_deadline c k sh s it :
  TInv c -> get_shard c sh = Some s -> lookup s (policy c) k = Some it -> 0 < exp it < now c ->
  (forall c' ok v r, op_get c k sh = (c', ok, v, r) -> ok = false /\ v = 0 /\ r = 0) /\
  (forall c' b, op_exists c k sh = (c', b) -> b = false) /\
  ~ In k (shard_keys (policy c) (now c) s).
Proof.
  intros T G LK E. assert (R : resident c sh k = Some it) by (unfold resident; rewrite G; exact LK).
  split; [|split].
  - intros c' ok v r H. destruct (closed c) eqn:Hc.
    + unfold op_get in H. rewrite Hc in H. injection H as _ <- <- <-. auto.
    + eapply c05_never_after_deadline_get; eauto.
  - intros c' b H. eapply c05_never_after_deadline_exists; eauto.
  - exact (proj1 (c05_keys_of_shard c sh s k it T G LK) E).
Qed.
