(* ConfigProofs.v — theorems about ConfigModel (property C16). *)
Require Import KV.Base KV.Gen.Consts KV.ConfigModel.
Ltac Zify.zify_post_hook ::= Z.div_mod_to_equations.

Definition is_pow2 (z : Z) : Prop := exists k, 0 <= k /\ z = 2 ^ k.

(* ---- side conditions on the generated constants (re-checked whenever they change) ---- *)

Lemma maxShard_pow2 : exists k, 0 <= k <= 62 /\ maxShardCount = 2 ^ k.
Proof. exists (Z.log2 maxShardCount). vm_compute. intuition congruence. Qed.

Lemma shardMultiplier_pos : 1 <= shardMultiplier. Proof. vm_compute; congruence. Qed.
Lemma defaults_positive :
  1 <= defaultWriteBufferSize <= 2 ^ 62 /\ 1 <= defaultWriteBatchSize /\
  1 <= defaultProbationRatio <= 100 /\ 1 <= defaultGhostRatio <= 100 /\
  policyDefault <= defaultPolicy <= policySieve /\ defaultPolicy <> policyDefault.
Proof. vm_compute. intuition congruence. Qed.

(* ---- rounding helpers ---- *)

Lemma bits_len_pos n : 0 < n -> bits_len n = Z.log2 n + 1.
Proof. intros H; unfold bits_len. destruct (n <=? 0) eqn:E; [lia|reflexivity]. Qed.

Lemma prev_pow2_spec n : 1 <= n ->
  is_pow2 (prev_pow2 n) /\ 1 <= prev_pow2 n <= n.
Proof.
  intros H. unfold prev_pow2. rewrite bits_len_pos by lia.
  replace (Z.log2 n + 1 - 1) with (Z.log2 n) by lia.
  pose proof (Z.log2_nonneg n) as Hl.
  pose proof (Z.log2_spec n ltac:(lia)) as [Hlo _].
  split; [exists (Z.log2 n); split; [lia|reflexivity]|].
  split; [|lia].
  pose proof (Z.pow_pos_nonneg 2 (Z.log2 n) ltac:(lia) Hl). lia.
Qed.

Lemma pow2_le_mono a b : 0 <= a <= b -> 2 ^ a <= 2 ^ b.
Proof. intros H; apply Z.pow_le_mono_r; lia. Qed.

Lemma next_pow2_spec n : 1 <= n <= 2 ^ 62 ->
  is_pow2 (next_pow2 n) /\ n <= next_pow2 n <= 2 ^ 62.
Proof.
  intros [H1 H2]. unfold next_pow2.
  destruct (n <=? 1) eqn:E.
  - assert (n = 1) by lia; subst. split; [exists 0; split; [lia|reflexivity]|].
    change (2 ^ 62) with 4611686018427387904. lia.
  - assert (Hm : 0 < n - 1) by lia.
    rewrite bits_len_pos by lia.
    pose proof (Z.log2_nonneg (n - 1)) as Hl.
    pose proof (Z.log2_spec (n - 1) Hm) as [Hlo Hhi].
    assert (Hlt : Z.log2 (n - 1) < 62).
    { apply Z.log2_lt_pow2; lia. }
    replace (Z.succ (Z.log2 (n - 1))) with (Z.log2 (n - 1) + 1) in Hhi by lia.
    assert (Hb : 2 ^ (Z.log2 (n - 1) + 1) <= 2 ^ 62) by (apply pow2_le_mono; lia).
    rewrite wrap64_small.
    + split; [exists (Z.log2 (n - 1) + 1); split; [lia|reflexivity]|]. lia.
    + change (2 ^ 62) with 4611686018427387904 in Hb. unfold two63. lia.
Qed.

Lemma next_pow2_le_pow2 n k : 0 <= k <= 62 -> 1 <= n <= 2 ^ k -> next_pow2 n <= 2 ^ k.
Proof.
  intros Hk [H1 H2]. unfold next_pow2.
  destruct (n <=? 1) eqn:E.
  - pose proof (Z.pow_pos_nonneg 2 k ltac:(lia) ltac:(lia)). lia.
  - assert (Hm : 0 < n - 1) by lia.
    rewrite bits_len_pos by lia.
    assert (Hlt : Z.log2 (n - 1) < k) by (apply Z.log2_lt_pow2; lia).
    assert (Hb : 2 ^ (Z.log2 (n - 1) + 1) <= 2 ^ k).
    { apply pow2_le_mono. pose proof (Z.log2_nonneg (n - 1)). lia. }
    assert (Hk62 : 2 ^ k <= 2 ^ 62) by (apply pow2_le_mono; lia).
    pose proof (Z.pow_pos_nonneg 2 (Z.log2 (n - 1) + 1) ltac:(lia)
                  ltac:(pose proof (Z.log2_nonneg (n - 1)); lia)).
    rewrite wrap64_small; [exact Hb|].
    change (2 ^ 62) with 4611686018427387904 in Hk62. unfold two63. lia.
Qed.

(* ---- Validate ---- *)

Definition ranges_ok (c : config) : Prop :=
  0 <= MaxSize c /\ 0 <= MaxCost c /\ 0 <= ShardCount c /\ 0 <= CleanupInterval c /\
  (0 <= DefaultTTL c \/ DefaultTTL c = noExpiration) /\
  policyDefault <= Policy c <= policySieve /\
  ~ (effective_policy c = policySieve /\ MaxSize c <= 0 /\ 0 < MaxCost c) /\
  0 <= CostAdmission c <= 2 /\ ProbationRatio c <= 100 /\ GhostRatio c <= 100 /\
  0 <= WriteBufferSize c /\ 0 <= WriteBatchSize c.

Lemma validate_exact c : validate c = None <-> ranges_ok c.
Proof.
  unfold validate, ranges_ok.
  destruct (MaxSize c <? 0) eqn:E1; [split; [discriminate|lia]|].
  destruct (MaxCost c <? 0) eqn:E2; [split; [discriminate|lia]|].
  destruct (ShardCount c <? 0) eqn:E3; [split; [discriminate|lia]|].
  destruct (CleanupInterval c <? 0) eqn:E4; [split; [discriminate|lia]|].
  destruct ((DefaultTTL c <? 0) && negb (DefaultTTL c =? noExpiration)) eqn:E5;
    [split; [discriminate|lia]|].
  destruct ((Policy c <? policyDefault) || (policySieve <? Policy c)) eqn:E6;
    [split; [discriminate|lia]|].
  destruct ((effective_policy c =? policySieve) && (MaxSize c <=? 0) && (0 <? MaxCost c)) eqn:E7;
    [split; [discriminate|lia]|].
  destruct ((CostAdmission c <? 0) || (2 <? CostAdmission c)) eqn:E8; [split; [discriminate|lia]|].
  destruct (100 <? ProbationRatio c) eqn:E9; [split; [discriminate|lia]|].
  destruct (100 <? GhostRatio c) eqn:E10; [split; [discriminate|lia]|].
  destruct (WriteBufferSize c <? 0) eqn:E11; [split; [discriminate|lia]|].
  destruct (WriteBatchSize c <? 0) eqn:E12; [split; [discriminate|lia]|].
  split; [intros _; lia | reflexivity].
Qed.

(* ---- shard count ---- *)

Section ShardCount.
  Variables (c : config) (ncpu : Z).
  Hypothesis Hok : validate c = None.
  Hypothesis Hcpu : 1 <= ncpu.
  Hypothesis Hsc : ShardCount c <= 2 ^ 62.

  Let sc0 := if ShardCount c <=? 0 then Z.min (ncpu * shardMultiplier) maxShardCount else ShardCount c.
  Let sc1 := if 0 <? MaxSize c then Z.min sc0 (prev_pow2 (Z.min (MaxSize c) maxShardCount)) else sc0.
  Let sc2 := if 0 <? MaxCost c then Z.min sc1 (prev_pow2 (Z.min (MaxCost c) maxShardCount)) else sc1.

  Lemma maxShard_bounds : 1 <= maxShardCount <= 2 ^ 62.
  Proof.
    destruct maxShard_pow2 as [k [Hk Hm]]. rewrite Hm. split.
    - pose proof (Z.pow_pos_nonneg 2 k ltac:(lia) ltac:(lia)). lia.
    - apply pow2_le_mono; lia.
  Qed.

  Lemma sc0_range : 1 <= sc0 <= 2 ^ 62.
  Proof.
    pose proof maxShard_bounds. pose proof shardMultiplier_pos.
    apply validate_exact in Hok. unfold ranges_ok in Hok. subst sc0.
    destruct (ShardCount c <=? 0) eqn:E; [|lia].
    assert (1 <= ncpu * shardMultiplier) by nia. lia.
  Qed.

  Lemma sc1_range : 1 <= sc1 <= sc0.
  Proof.
    pose proof sc0_range. pose proof maxShard_bounds. subst sc1.
    destruct (0 <? MaxSize c) eqn:E; [|lia].
    pose proof (prev_pow2_spec (Z.min (MaxSize c) maxShardCount) ltac:(lia)). lia.
  Qed.

  Lemma sc2_range : 1 <= sc2 <= sc1.
  Proof.
    pose proof sc1_range. pose proof maxShard_bounds. subst sc2.
    destruct (0 <? MaxCost c) eqn:E; [|lia].
    pose proof (prev_pow2_spec (Z.min (MaxCost c) maxShardCount) ltac:(lia)). lia.
  Qed.

  Lemma shard_count_eq : shard_count c ncpu = next_pow2 sc2.
  Proof. reflexivity. Qed.

  Theorem shard_count_pow2 : is_pow2 (shard_count c ncpu) /\ 1 <= shard_count c ncpu.
  Proof.
    rewrite shard_count_eq. pose proof sc2_range. pose proof sc1_range. pose proof sc0_range.
    pose proof (next_pow2_spec sc2 ltac:(lia)). intuition lia.
  Qed.

  (* rounding a value that is at most a power of two never exceeds that power *)
  Lemma round_le_prev b : 1 <= b -> sc2 <= prev_pow2 (Z.min b maxShardCount) ->
    shard_count c ncpu <= Z.min b maxShardCount.
  Proof.
    intros Hb Hle. rewrite shard_count_eq.
    pose proof maxShard_bounds.
    destruct (prev_pow2_spec (Z.min b maxShardCount) ltac:(lia)) as [[k [Hk Hp]] Hr].
    assert (k <= 62).
    { destruct (Z.le_gt_cases k 62) as [|Hgt]; [assumption|].
      assert (2 ^ 63 <= 2 ^ k) by (apply pow2_le_mono; lia).
      assert (2 ^ 62 < 2 ^ 63) by (apply Z.pow_lt_mono_r; lia). lia. }
    pose proof sc2_range.
    pose proof (next_pow2_le_pow2 sc2 k ltac:(lia) ltac:(lia)). lia.
  Qed.

  Theorem shard_count_le_maxsize : 0 < MaxSize c ->
    shard_count c ncpu <= MaxSize c /\ shard_count c ncpu <= maxShardCount.
  Proof.
    intros H. pose proof sc2_range.
    assert (sc1 <= prev_pow2 (Z.min (MaxSize c) maxShardCount)).
    { subst sc1. destruct (0 <? MaxSize c) eqn:E; lia. }
    pose proof (round_le_prev (MaxSize c) ltac:(lia) ltac:(lia)). lia.
  Qed.

  Theorem shard_count_le_maxcost : 0 < MaxCost c ->
    shard_count c ncpu <= MaxCost c /\ shard_count c ncpu <= maxShardCount.
  Proof.
    intros H.
    assert (sc2 <= prev_pow2 (Z.min (MaxCost c) maxShardCount)).
    { subst sc2. destruct (0 <? MaxCost c) eqn:E; lia. }
    pose proof (round_le_prev (MaxCost c) ltac:(lia) ltac:(lia)). lia.
  Qed.

  Theorem shard_count_auto_le_max : ShardCount c = 0 -> shard_count c ncpu <= maxShardCount.
  Proof.
    intros H. rewrite shard_count_eq.
    destruct maxShard_pow2 as [k [Hk Hm]].
    pose proof sc2_range. pose proof sc1_range.
    assert (sc0 <= maxShardCount).
    { subst sc0. rewrite H. cbn. lia. }
    rewrite Hm in *. apply next_pow2_le_pow2; lia.
  Qed.
End ShardCount.

(* ---- budgets ---- *)

Lemma zseq_length s n : length (zseq s n) = n.
Proof. revert s; induction n as [|n IH]; intros s; cbn; [reflexivity|now rewrite IH]. Qed.

Lemma zseq_In s n x : In x (zseq s n) <-> s <= x < s + Z.of_nat n.
Proof.
  revert s; induction n as [|n IH]; intros s; cbn [zseq In].
  - lia.
  - rewrite IH. lia.
Qed.

Lemma sum_indicator r s n : 0 <= r ->
  sumZ (map (fun i => if i <? r then 1 else 0) (zseq s n)) =
  Z.max 0 (Z.min (s + Z.of_nat n) r - Z.min s r).
Proof.
  intros Hr. revert s; induction n as [|n IH]; intros s; cbn [zseq map sumZ].
  - lia.
  - rewrite IH. destruct (s <? r) eqn:E; lia.
Qed.

Lemma sum_const k s n : sumZ (map (fun _ => k) (zseq s n)) = k * Z.of_nat n.
Proof. revert s; induction n as [|n IH]; intros s; cbn [zseq map sumZ]; [lia|rewrite IH; lia]. Qed.

Lemma sumZ_map_add (f g : Z -> Z) l :
  sumZ (map (fun i => f i + g i) l) = sumZ (map f l) + sumZ (map g l).
Proof. induction l as [|x l IH]; cbn [map sumZ]; lia. Qed.

Theorem share_sum budget n : 0 < budget -> 1 <= n ->
  sumZ (map (share budget n) (zseq 0 (Z.to_nat n))) = budget.
Proof.
  intros Hb Hn. unfold share.
  replace (0 <? budget) with true by lia.
  rewrite (sumZ_map_add (fun _ => budget / n) (fun i => if i <? budget mod n then 1 else 0)).
  rewrite sum_const, sum_indicator by (apply Z.mod_pos_bound; lia).
  rewrite Z2Nat.id by lia.
  pose proof (Z.mod_pos_bound budget n ltac:(lia)).
  pose proof (Z.div_mod budget n ltac:(lia)). lia.
Qed.

Theorem share_ge_1 budget n i : 1 <= n <= budget -> 1 <= share budget n i.
Proof.
  intros H. unfold share. replace (0 <? budget) with true by lia.
  assert (1 <= budget / n) by (apply Z.div_le_lower_bound; lia).
  destruct (i <? budget mod n); lia.
Qed.

Theorem share_zero_when_unset n i : share 0 n i = 0.
Proof. reflexivity. Qed.

(* ---- Sieve segments ---- *)

Theorem sieve_segs_wf cap pr gr :
  1 <= cap -> 0 <= pr <= 100 -> 0 <= gr <= 100 ->
  let s := sieve_segs cap pr gr in
  1 <= lo s <= pc s /\ pc s <= hi s /\ hi s <= cap /\ mc s = cap - pc s /\
  (2 <= cap -> 1 <= mc s) /\ (0 < mc s -> 1 <= gc s) /\ 0 <= gc s /\ 1 <= astep s.
Proof.
  intros Hc Hp Hg.
  pose proof defaults_positive as [_ [_ [Hdp [Hdg _]]]].
  unfold sieve_segs. cbn [lo hi pc mc gc astep].
  set (pr' := if pr =? 0 then defaultProbationRatio else pr).
  set (gr' := if gr =? 0 then defaultGhostRatio else gr).
  assert (1 <= pr' <= 100) by (subst pr'; destruct (pr =? 0) eqn:E; lia).
  assert (1 <= gr' <= 100) by (subst gr'; destruct (gr =? 0) eqn:E; lia).
  set (l := Z.max 1 (cap / 100)).
  set (h0 := Z.max l (cap * 60 / 100)).
  assert (Hl : 1 <= l <= cap) by (subst l; lia).
  assert (Hl2 : 2 <= cap -> l <= cap - 1) by (subst l; lia).
  assert (Hh0 : l <= h0 /\ (2 <= cap -> h0 <= cap - 1) /\ h0 <= cap) by (subst h0; lia).
  destruct ((cap <=? h0) && (1 <? cap)) eqn:E.
  - (* unreachable for cap >= 2, and cap = 1 fails 1 <? cap *) lia.
  - set (p := Z.min (Z.max (cap * pr' / 100) l) h0).
    assert (l <= p <= h0) by (subst p; lia).
    assert (Hm : 0 <= cap - p) by lia.
    assert (0 <= (cap - p) * gr' / 100) by (apply Z.div_pos; nia).
    repeat split; try lia.
    + intros Hmc. destruct ((0 <? cap - p) && ((cap - p) * gr' / 100 <? 1)) eqn:E2; lia.
    + destruct ((0 <? cap - p) && ((cap - p) * gr' / 100 <? 1)) eqn:E2; lia.
Qed.

(* ---- zero-valued optional fields behave as their documented defaults ---- *)

Definition with_defaults (c : config) : config :=
  {| MaxSize := MaxSize c; MaxCost := MaxCost c; ShardCount := ShardCount c;
     CleanupInterval := CleanupInterval c; DefaultTTL := DefaultTTL c;
     Policy := effective_policy c; StatsEnabled := StatsEnabled c;
     ProbationRatio := if ProbationRatio c =? 0 then defaultProbationRatio else ProbationRatio c;
     GhostRatio := if GhostRatio c =? 0 then defaultGhostRatio else GhostRatio c;
     CostAdmission := CostAdmission c;
     WriteBufferSize := if WriteBufferSize c =? 0 then defaultWriteBufferSize else WriteBufferSize c;
     WriteBatchSize := if WriteBatchSize c =? 0 then defaultWriteBatchSize else WriteBatchSize c |}.

Lemma effective_policy_idem c : effective_policy (with_defaults c) = effective_policy c.
Proof.
  pose proof defaults_positive as [_ [_ [_ [_ [_ Hne]]]]].
  unfold effective_policy at 1. cbn [Policy with_defaults].
  destruct (effective_policy c =? policyDefault) eqn:E; [|reflexivity].
  unfold effective_policy in *. destruct (Policy c =? policyDefault) eqn:E2; lia.
Qed.

Lemma sieve_segs_defaults cap pr gr :
  sieve_segs cap (if pr =? 0 then defaultProbationRatio else pr)
                 (if gr =? 0 then defaultGhostRatio else gr) = sieve_segs cap pr gr.
Proof.
  pose proof defaults_positive as [_ [_ [Hdp [Hdg _]]]].
  unfold sieve_segs.
  replace (defaultProbationRatio =? 0) with false by lia.
  replace (defaultGhostRatio =? 0) with false by lia.
  destruct (pr =? 0) eqn:E1, (gr =? 0) eqn:E2; rewrite ?E1, ?E2; reflexivity.
Qed.

Theorem defaults_equivalent c ncpu :
  validate c = None -> new_obs (with_defaults c) ncpu = new_obs c ncpu.
Proof.
  intros Hok.
  pose proof defaults_positive as [Hwb [Hwbt [Hdp [Hdg [Hpol Hne]]]]].
  assert (Hok' : validate (with_defaults c) = None).
  { apply validate_exact. apply validate_exact in Hok. unfold ranges_ok in *.
    rewrite effective_policy_idem. cbn [MaxSize MaxCost ShardCount CleanupInterval DefaultTTL Policy
      ProbationRatio GhostRatio CostAdmission WriteBufferSize WriteBatchSize with_defaults].
    assert (policyDefault <= effective_policy c <= policySieve).
    { unfold effective_policy. destruct (Policy c =? policyDefault); lia. }
    destruct (ProbationRatio c =? 0), (GhostRatio c =? 0), (WriteBufferSize c =? 0), (WriteBatchSize c =? 0); lia. }
  unfold new_obs. rewrite Hok, Hok'.
  assert (Hq : queue_cap (with_defaults c) = queue_cap c).
  { unfold queue_cap. cbn [WriteBufferSize with_defaults].
    destruct (WriteBufferSize c =? 0) eqn:E; [|rewrite E; reflexivity].
    replace (defaultWriteBufferSize =? 0) with false by lia. reflexivity. }
  assert (Hb : batch_cap (with_defaults c) = batch_cap c).
  { unfold batch_cap. cbn [WriteBatchSize with_defaults].
    destruct (WriteBatchSize c =? 0) eqn:E; [|rewrite E; reflexivity].
    replace (defaultWriteBatchSize =? 0) with false by lia. reflexivity. }
  assert (Hs : shard_count (with_defaults c) ncpu = shard_count c ncpu) by reflexivity.
  rewrite Hq, Hb, Hs. f_equal.
  apply flat_map_ext. intros i. unfold shard_obs.
  rewrite effective_policy_idem.
  change (shard_cap (with_defaults c)) with (shard_cap c).
  change (shard_cost_cap (with_defaults c)) with (shard_cost_cap c).
  cbn [ProbationRatio GhostRatio with_defaults]. rewrite sieve_segs_defaults. reflexivity.
Qed.

(* ---- the wrap in NextPowerOf2 (finding F9) ---- *)

Definition f9_config : config :=
  {| MaxSize := 0; MaxCost := 0; ShardCount := 2 ^ 62 + 1; CleanupInterval := 0; DefaultTTL := 0;
     Policy := 0; StatsEnabled := 0; ProbationRatio := 0; GhostRatio := 0; CostAdmission := 0;
     WriteBufferSize := 0; WriteBatchSize := 0 |}.

Lemma shard_count_wrap_witness :
  validate f9_config = None /\ shard_count f9_config 1 < 0.
Proof. vm_compute. split; reflexivity. Qed.

(* non-vacuity: a concrete accepted configuration with remainders in both budgets *)
Definition ex_config : config :=
  {| MaxSize := 1003; MaxCost := 77; ShardCount := 12; CleanupInterval := 0; DefaultTTL := (-1);
     Policy := 0; StatsEnabled := 1; ProbationRatio := 0; GhostRatio := 0; CostAdmission := 1;
     WriteBufferSize := 3; WriteBatchSize := 0 |}.

Example ex_config_ok :
  validate ex_config = None /\ shard_count ex_config 4 = 16 /\
  shard_cap ex_config 16 0 = 63 /\ shard_cap ex_config 16 15 = 62 /\
  shard_cost_cap ex_config 16 12 = 5 /\ shard_cost_cap ex_config 16 13 = 4 /\ queue_cap ex_config = 4.
Proof. vm_compute. repeat split; reflexivity. Qed.
