(* CallbackStream.v — stream wrapper of CallbackLts for the correspondence stream "cb" (sid 20). Model only, no proofs.
   The harness runs each API call to completion before the next (no concurrency among callers) under a frozen virtual
   clock, and lets the real timers elapse only at the end of a scenario. The wrapper replays that schedule on the LTS:
   every call thread is stepped to completion, timer threads created by scheduleCallback stay at their select until
   Close (they take the closeCh case: the real timers have not elapsed yet) or until the final observation (they take
   the timer case at the final clock). Output of the observation: the callbacks that ran, as sorted (key, value) pairs. *)
Require Import List ZArith Bool Arith. Import ListNotations.
Require Import KV.CallbackLts.
Local Open Scope nat_scope.

Definition is_timer (p : pc) : bool :=
  match p with
  | TStart _ _ | TSelect _ _ | TRLock _ _ | TValidate _ _ | TRUnlock _ _ _ | TCall _ _ _ | TFired _ | TQuiet _ => true
  | _ => false
  end.

(* step thread t with choice ch until it is disabled *)
Fixpoint run_thread (fuel : nat) (ch : nat) (t : tid) (s : state) : state :=
  match fuel with
  | O => s
  | S f => match step s (LStep t ch) with Some s1 => run_thread f ch t s1 | None => s end
  end.

(* one pass over the threads 1..n-1 selected by `sel` *)
Fixpoint passf (fuel : nat) (n : nat) (ch : nat) (sel : pc -> bool) (s : state) : state :=
  match n with
  | O => s
  | S j => let s1 := passf fuel j ch sel s in
           if (0 <? j) && sel (thr s1 j) then run_thread fuel ch j s1 else s1
  end.

Definition pass := passf 60.

Fixpoint passes (k : nat) (ch : nat) (sel : pc -> bool) (s : state) : state :=
  match k with O => s | S j => passes j ch sel (pass (nthr s) ch sel s) end.

Definition not_timer (p : pc) : bool := negb (is_timer p).

(* the worker (thread 0) only has to run when Close waits for it *)
Definition is_tstart (p : pc) : bool := match p with TStart _ _ => true | _ => false end.

(* time.NewTimer runs as soon as the goroutine is started: one step for every timer thread still at TStart *)
Definition start_timers (s : state) : state := passf 1 (nthr s) 0 is_tstart s.

Definition run_calls (s : state) : state :=
  let s1 := passes 3 0 not_timer s in
  let s2 := if closeCh s1 then passes 3 0 not_timer (run_thread 60 0 0 s1) else s1 in
  start_timers s2.

Definition spawn_call (s : state) (c : call) : state :=
  match step s (LSpawn c) with Some s1 => run_calls s1 | None => s end.

Fixpoint insert_pair (p : Z * Z) (l : list (Z * Z)) : list (Z * Z) :=
  match l with
  | [] => [p]
  | q :: r => if (fst p <? fst q)%Z || ((fst p =? fst q)%Z && (snd p <=? snd q)%Z) then p :: l else q :: insert_pair p r
  end.

Definition fired_pairs (s : state) : list Z :=
  flat_map (fun p => [fst p; snd p])
    (fold_right insert_pair [] (map (fun x => match x with (_, k, v, _) => (Z.of_nat k, Z.of_nat v) end) (fired s))).

Definition cb_init (cfg : list Z) : state :=
  match cfg with
  | dflt :: t0 :: _ => match step (init dflt) (LTick t0) with Some s => s | None => init dflt end
  | _ => init 0%Z
  end.

Definition cb_step (s : state) (o : list Z) : state * list Z :=
  match o with
  | [1%Z; k; v; ttl] => (spawn_call s (CSet (Z.to_nat k) (Z.to_nat v) ttl (Some 1) true false), [])
  | [3%Z; k; v; ttl] => (spawn_call s (CSet (Z.to_nat k) (Z.to_nat v) ttl None true false), [])
  | [2%Z; k] => (spawn_call s (CDelete (Z.to_nat k)), [])
  | [4%Z] => (spawn_call s CClear, [])
  | [5%Z] =>
      let s1 := spawn_call s CClose in
      (passes 2 1 is_timer s1, [])
  | [6%Z; d] => (match step s (LTick d) with Some s1 => s1 | None => s end, [])
  | [7%Z] => let s1 := passes 3 0 is_timer s in (s1, fired_pairs s1)
  | _ => (s, [(-9)%Z])
  end.
