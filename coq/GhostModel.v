(* GhostModel.v — ghostQueue (ghost.go): FIFO ring of fingerprints plus an open-addressed
   index (probe position -> ring slot + 1, 0 = empty) with backward-shift deletion by
   cluster re-insertion. Every loop carries explicit fuel = number of index slots; running
   out of fuel yields the error state (gerr = true), which the theorems rule out. *)
Require Import KV.Base KV.EstimatorModel.
Open Scope N_scope.

Record ghost := {
  entries : list N;   (* ring, length n *)
  gslots : list N;    (* index, length m (power of two >= 2n, >= 8), 0 = empty, v = ring idx + 1 *)
  gmask : N;
  gnext : N;
  glive : N;
  gerr : bool
}.

Definition ghost_disabled (g : ghost) : bool := match entries g with [] => true | _ => false end.

Definition probe_start (g : ghost) (h : N) : N := N.land (avalanche h) (gmask g).

(* idxFind: (position, found, ran out of fuel) *)
Fixpoint idx_find_from (fuel : nat) (ents sl : list N) (mask pos h : N) : N * bool * bool :=
  match fuel with
  | O => (pos, false, true)
  | S f =>
    let v := getw sl pos in
    if v =? 0 then (pos, false, false)
    else if getw ents (v - 1) =? h then (pos, true, false)
    else idx_find_from f ents sl mask (N.land (pos + 1) mask) h
  end.
Definition idx_find (g : ghost) (h : N) : N * bool * bool :=
  idx_find_from (length (gslots g)) (entries g) (gslots g) (gmask g) (probe_start g h) h.

(* idxInsert: first empty slot from the probe start *)
Fixpoint idx_insert_from (fuel : nat) (sl : list N) (mask pos v : N) : list N * bool :=
  match fuel with
  | O => (sl, true)
  | S f => if getw sl pos =? 0 then (setw sl pos v, false)
           else idx_insert_from f sl mask (N.land (pos + 1) mask) v
  end.
Definition idx_insert (ents sl : list N) (mask h ringIdx : N) : list N * bool :=
  idx_insert_from (length sl) sl mask (N.land (avalanche h) mask) (ringIdx + 1).

(* idxDeleteAt: empty pos, then re-insert the rest of the cluster *)
Fixpoint reinsert_cluster (fuel : nat) (ents sl : list N) (mask next : N) : list N * bool :=
  match fuel with
  | O => (sl, true)
  | S f =>
    let v := getw sl next in
    if v =? 0 then (sl, false)
    else
      let sl1 := setw sl next 0 in
      let '(sl2, e) := idx_insert ents sl1 mask (getw ents (v - 1)) (v - 1) in
      if e then (sl2, true) else reinsert_cluster f ents sl2 mask (N.land (next + 1) mask)
  end.
Definition idx_delete_at (ents sl : list N) (mask pos : N) : list N * bool :=
  reinsert_cluster (length sl) ents (setw sl pos 0) mask (N.land (pos + 1) mask).

Definition g_contains (g : ghost) (h : N) : bool :=
  if ghost_disabled g then false else let '(_, found, _) := idx_find g h in found.

Definition g_add (g : ghost) (h : N) : ghost :=
  if ghost_disabled g then g else
  let '(_, found, e0) := idx_find g h in
  if found then g else
  let old := getw (entries g) (gnext g) in
  let '(pos, okold, e1) := idx_find g old in
  let '(sl1, live1, e2) :=
    if okold && (getw (gslots g) pos =? gnext g + 1)
    then let '(s, e) := idx_delete_at (entries g) (gslots g) (gmask g) pos in (s, glive g - 1, e)
    else (gslots g, glive g, false) in
  let ents1 := setw (entries g) (gnext g) h in
  let '(sl2, e3) := idx_insert ents1 sl1 (gmask g) h (gnext g) in
  let nx := gnext g + 1 in
  {| entries := ents1; gslots := sl2; gmask := gmask g;
     gnext := if nx =? N.of_nat (length (entries g)) then 0 else nx;
     glive := live1 + 1; gerr := gerr g || e0 || e1 || e2 || e3 |}.

Definition g_remove (g : ghost) (h : N) : ghost * bool :=
  if ghost_disabled g then (g, false) else
  let '(pos, found, e0) := idx_find g h in
  if negb found then ({| entries := entries g; gslots := gslots g; gmask := gmask g; gnext := gnext g;
                         glive := glive g; gerr := gerr g || e0 |}, false) else
  let ringIdx := getw (gslots g) pos - 1 in
  let '(sl1, e1) := idx_delete_at (entries g) (gslots g) (gmask g) pos in
  ({| entries := setw (entries g) ringIdx 0; gslots := sl1; gmask := gmask g; gnext := gnext g;
      glive := glive g - 1; gerr := gerr g || e0 || e1 |}, true).

Definition g_clear (g : ghost) : ghost :=
  {| entries := map (fun _ => 0) (entries g); gslots := map (fun _ => 0) (gslots g); gmask := gmask g;
     gnext := 0; glive := 0; gerr := gerr g |}.

Definition new_ghost (n m : N) : ghost :=
  {| entries := repeat 0 (N.to_nat n); gslots := repeat 0 (N.to_nat m); gmask := m - 1;
     gnext := 0; glive := 0; gerr := false |}.

(* ---- stream "ghost": 1 h = add, 2 h = remove, 3 h = contains, 4 = clear; every op also reports count *)
Open Scope Z_scope.
Definition ghost_step (g : ghost) (op : list Z) : ghost * list Z :=
  match op with
  | [1; h] => let g1 := g_add g (Z.to_N h) in (g1, [Z.of_N (glive g1); b2z (gerr g1)])
  | [2; h] => let '(g1, ok) := g_remove g (Z.to_N h) in (g1, [b2z ok; Z.of_N (glive g1); b2z (gerr g1)])
  | [3; h] => (g, [b2z (g_contains g (Z.to_N h)); Z.of_N (glive g)])
  | [4] => (g_clear g, [0])
  | _ => (g, [-1])
  end.

Definition ghost_init (cfg : list Z) : ghost :=
  match cfg with
  | [n; m] => new_ghost (Z.to_N n) (Z.to_N m)
  | _ => new_ghost 0 0
  end.
