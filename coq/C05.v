(* C05 — TTL: never served after expiry, lifetime as given. TtlProofs.v over CacheModel (virtual clock `now`). Only `exact` + Print Assumptions. *)
Require Import KV.Base KV.Gen.Consts KV.ConfigModel KV.CacheModel KV.ClassicProofs KV.SieveProofs KV.CacheProofs KV.TtlProofs KV.MutexAtomicity.
Open Scope Z_scope.

(* TInv (shard invariants + 'a resident entry is the last event about its key') after every history from every validated configuration *)
Theorem c05_invariant_all_histories :
  forall (l : list Z) (cfg : config) (ncpu msk weigher t0 : Z) (ops : list (CA.cop * list Z)),
         decode_config (firstn 13 l) = Some (cfg, ncpu) ->
         skipn 13 l = [msk; weigher; t0] ->
         validate cfg = None ->
         1 <= ncpu -> ShardCount cfg <= 2 ^ 62 -> TInv (CA.crun (cache_init l) ops).
Proof. exact TtlProofs.run_TInv. Qed.

(* DefaultExpiration/NoExpiration/negatives resolve exactly as documented *)
Theorem c05_ttl_normalisation :
  forall (c : cache) (ttl : Z),
         norm_ttl c ttl = (if ttl =? defaultExpiration then Z.max 0 (defttl c) else Z.max 0 ttl).
Proof. exact TtlProofs.norm_ttl_spec. Qed.

(* a committed write with resolved TTL t>0 at clock n stores min(n+t, MaxInt64); t<=0 stores 0 (never expires) *)
Theorem c05_stamp :
  forall (c : cache) (k v ttl cst sh : Z) (c' : cache) (it : item),
         TInv c ->
         op_set c k v ttl cst sh = (c', 0) ->
         resident c' sh k = Some it ->
         let t := norm_ttl c ttl in
         (0 < t -> t <= max_int64 -> exp it = Z.min (now c + t) max_int64) /\
         (0 < t -> 0 < now c -> exp it = Z.min (now c + t) max_int64) /\
         (t = 0 -> exp it = 0) /\
         (t = 0 <-> ttl < 0 \/ ttl = defaultExpiration /\ defttl c <= 0) /\
         (ttl = defaultExpiration -> 0 < defttl c -> t = defttl c) /\ (0 < ttl -> t = ttl).
Proof. exact TtlProofs.c05_stamp. Qed.

(* the deadline never wraps *)
Theorem c05_stamp_no_wrap :
  forall t n : Z,
         0 < t <= max_int64 ->
         0 <= n <= max_int64 -> n <= stamp t n <= max_int64 /\ (n < max_int64 -> n < stamp t n).
Proof. exact TtlProofs.stamp_bounds. Qed.

(* an entry with 0 < deadline < now is not returned by Get/GetWithTTL/Exists and not listed by Keys *)
Theorem c05_never_after_deadline :
  forall (c : cache) (k sh : Z) (s : shard) (it : item),
         TInv c ->
         get_shard c sh = Some s ->
         lookup s (policy c) k = Some it ->
         0 < exp it < now c ->
         (forall (c' : cache) (ok : bool) (v r : Z),
          op_get c k sh = (c', ok, v, r) -> ok = false /\ v = 0 /\ r = 0) /\
         (forall (c' : cache) (b : bool), op_exists c k sh = (c', b) -> b = false) /\
         ~ In k (shard_keys (policy c) (now c) s).
Proof. exact TtlProofs.c05_never_after_deadline. Qed.

(* every key Keys lists has a resident unexpired entry *)
Theorem c05_keys_sound :
  forall (c : cache) (k : Z),
         In k (op_keys c) ->
         closed c = false /\
         (exists (s : shard) (it : item),
            In s (shards c) /\
            In it (shard_items s (policy c)) /\
            key it = k /\
            In k (tabk s) /\ (exp it = 0 \/ now c <= exp it) /\ expired it (now c) = false).
Proof. exact TtlProofs.op_keys_sound. Qed.

(* a resident entry with deadline 0 or now <= deadline is returned with its value and remaining time *)
Theorem c05_served_until_deadline :
  forall (c : cache) (k sh : Z) (it : item) (c' : cache) (ok : bool) (v r : Z),
         closed c = false ->
         resident c sh k = Some it ->
         exp it = 0 \/ now c <= exp it ->
         op_get c k sh = (c', ok, v, r) ->
         ok = true /\ v = val it /\ r = (if exp it =? 0 then -1 else exp it - now c).
Proof. exact TtlProofs.c05_served_until_deadline. Qed.

(* GetWithTTL's remaining time: -1 iff no deadline, else deadline-now, within [0, ttl given] *)
Theorem c05_remaining :
  forall (c : cache) (k sh : Z) (c' : cache) (v r : Z),
         op_get c k sh = (c', true, v, r) ->
         exists (c0 : cache) (it : item),
           (c0 = c \/ c0 = drain_shard c sh) /\
           resident c0 sh k = Some it /\
           (exp it = 0 -> r = -1) /\
           (exp it <> 0 -> r = exp it - now c) /\
           (0 <= exp it -> (r = -1 <-> exp it = 0) /\ (exp it <> 0 -> 0 <= r)) /\
           (forall t n : Z, 0 < t -> n <= now c -> exp it = stamp t n -> 0 <= n -> 0 <= r <= t).
Proof. exact TtlProofs.c05_remaining. Qed.

(* strictly decreasing as the clock advances *)
Theorem c05_remaining_decreasing :
  forall (c1 c2 : cache) (k sh : Z) (it : item) (c1' c2' : cache) (v1 v2 r1 r2 : Z),
         closed c1 = false ->
         closed c2 = false ->
         resident c1 sh k = Some it ->
         resident c2 sh k = Some it ->
         exp it <> 0 ->
         now c1 < now c2 ->
         op_get c1 k sh = (c1', true, v1, r1) -> op_get c2 k sh = (c2', true, v2, r2) -> r2 < r1.
Proof. exact TtlProofs.c05_remaining_decreasing. Qed.

(* after a successful Set any resident entry of k carries the new value and the new stamp *)
Theorem c05_rewrite_replaces_deadline :
  forall (c : cache) (k v ttl cst sh : Z) (c' : cache) (it : item),
         TInv c ->
         op_set c k v ttl cst sh = (c', 0) ->
         resident c' sh k = Some it ->
         val it = v /\ cost it = cst /\ exp it = stamp (norm_ttl c ttl) (now c).
Proof. exact TtlProofs.c05_rewrite_replaces_deadline. Qed.

(* an update that fits stays resident with the new stamp and notifies nothing *)
Theorem c05_rewrite_in_place :
  forall (c : cache) (k v ttl cst sh : Z) (c' : cache) (s : shard) (old : item),
         TInv c ->
         get_shard c sh = Some s ->
         pend s = [] ->
         lookup s (policy c) k = Some old ->
         over_capacity s = false ->
         costcap s <= 0 \/ cst <= cost old ->
         op_set c k v ttl cst sh = (c', 0) ->
         exists (it : item) (s' : shard),
           get_shard c' sh = Some s' /\
           resident c' sh k = Some it /\
           val it = v /\
           cost it = cst /\
           exp it = stamp (norm_ttl c ttl) (now c) /\
           staged s' = staged s /\
           nlog s' = nlog s /\ glog s' = glog s ++ [(1, k, val old); (0, k, v)].
Proof. exact TtlProofs.c05_rewrite_in_place. Qed.

(* Get meeting an expired entry removes it *)
Theorem c05_expired_get_removes :
  forall (c : cache) (k sh : Z) (it : item) (c' : cache) (ok : bool) (v r : Z),
         TInv c ->
         closed c = false ->
         resident c sh k = Some it ->
         0 < exp it < now c ->
         op_get c k sh = (c', ok, v, r) -> ok = false /\ resident c' sh k = None.
Proof. exact TtlProofs.c05_expired_get_removes. Qed.

(* after Cleanup nothing expired is resident; each removed entry was expired and is logged/notified/counted exactly once *)
Theorem c05_cleanup :
  forall c : cache,
         TInv c ->
         closed c = false ->
         let c' := op_cleanup c in
         (forall (sh : Z) (s' : shard) (k : Z) (it : item),
          get_shard c' sh = Some s' -> lookup s' (policy c) k = Some it -> expired it (now c) = false) /\
         (forall (i : nat) (s : shard),
          nth_error (shards c) i = Some s ->
          exists (s' : shard) (rl : list item),
            nth_error (shards c') i = Some s' /\
            glog s' = glog s ++ map exp_entry rl /\
            nlog s' = nlog s ++ exp_notes (mask c) rl /\
            staged s' = staged s ++ exp_notes (mask c) rl /\
            NoDup (map key rl) /\
            Forall
              (fun it : item => lke (policy c) s (key it) = Some (SP.ess it) /\ 0 < exp it < now c)
              rl /\
            (forall k : Z,
             lke (policy c) s' k = (if memz (map key rl) k then None else lke (policy c) s k))) /\
         evictions c' = evictions c /\
         expirations c' =
         expirations c +
         (if statsOn c
          then
           sumZ
             (map (fun s : shard => zlen (glog (cleanup_of (env_of c) (now c) s)) - zlen (glog s))
                (shards c))
          else 0) /\ shards c' = map (cleanup_of (env_of c) (now c)) (shards c).
Proof. exact TtlProofs.c05_cleanup. Qed.

(* '-1 iff deadline 0' needs clock >= 0 (always true of the implementation's monotonic clock) *)
Theorem c05_literal_refuted_negative_clock :
  let c1 := fst (op_set ex_lru_neg 1 10 9 1 0) in
         (map exp (lst (shard0 c1)), gres (op_get (advance c1 10) 1 0)) = ([-1], (true, 10, -1)).
Proof. exact TtlProofs.c05_remaining_minus_one_iff_no_deadline_refuted. Qed.

(* non-vacuity: TTL MaxInt64 saturates *)
Theorem c05_example_saturation :
  let c1 := fst (op_set ex_lru 1 10 max_int64 1 0) in
         (map exp (lst (shard0 c1)), gres (op_get c1 1 0), op_keys c1) =
         ([max_int64], (true, 10, max_int64 - 100), [1]).
Proof. exact TtlProofs.ex_ttl_saturates. Qed.

(* non-vacuity: expiry through Get after a clock advance *)
Theorem c05_example_expiry :
  let c1 := fst (op_set ex_lru 1 10 5 1 0) in
         let c2 := advance c1 5 in
         let g2 := op_get c2 1 0 in
         let c3 := advance (fst (fst (fst g2))) 1 in
         let g3 := op_get c3 1 0 in
         let c4 := fst (fst (fst g3)) in
         (map (fun it : item => (key it, val it, exp it)) (lst (shard0 c1)), 
          gres g2, gres g3, glog (shard0 c4), map nview (nlog (shard0 c4)),
          (hits c4, misses c4, expirations c4, evictions c4), op_keys c2, 
          op_keys c3, lastev (glog (shard0 c4)) 1) =
         ([(1, 10, 105)], (true, 10, 0), (false, 0, 0), [(0, 1, 10); (12, 1, 10)], [(
          1, 10, 2)], (1, 1, 1, 0), [1], [], Some (12, 10)).
Proof. exact TtlProofs.ex_ttl_expiry. Qed.

Print Assumptions c05_invariant_all_histories.
Print Assumptions c05_ttl_normalisation.
Print Assumptions c05_stamp.
Print Assumptions c05_stamp_no_wrap.
Print Assumptions c05_never_after_deadline.
Print Assumptions c05_keys_sound.
Print Assumptions c05_served_until_deadline.
Print Assumptions c05_remaining.
Print Assumptions c05_remaining_decreasing.
Print Assumptions c05_rewrite_replaces_deadline.
Print Assumptions c05_rewrite_in_place.
Print Assumptions c05_expired_get_removes.
Print Assumptions c05_cleanup.
Print Assumptions c05_literal_refuted_negative_clock.
Print Assumptions c05_example_saturation.
Print Assumptions c05_example_expiry.
