(* C12 — the shard table never loses a resident key and never resurrects a removed one.
   Sequential part: the table refines a map for every hash function (so colliding and
   sentinel-valued hashes are inside the quantifier), every table size, every operation.
   Only statements closed by `exact`, plus Print Assumptions. Definitions of WF / WFpin /
   amap / consistent / iid_ok are in HtableProofs.v. *)
Require Import KV.Base KV.HtableModel KV.HtableProofs KV.HtableTrace.

(* lookup = the abstract map; the fuel (one pass over the slots) always suffices: lookups terminate *)
Theorem c12_lookup_is_map : forall (hashf : Z -> Z) t k, WF hashf t -> lookup t (hashf k) k = amap t k.
Proof. exact lookup_spec. Qed.

Theorem c12_lookup_terminates : forall (hashf : Z -> Z) t k, WF hashf t ->
  lookup_from (nslots t) (slots t) (nslots t) (home_in (nslots t) (hashf k)) (hashf k) k <> None.
Proof. exact lookup_fuel_ok. Qed.

Theorem c12_lookup_is_map_during_probe : forall (hashf : Z -> Z) t kc q k,
  WFpin hashf t kc q -> lookup t (hashf k) k = amap t k.
Proof. exact lookup_spec_pin. Qed.

(* store = map update (including tombstone reuse, growth and same-size rebuild) *)
Theorem c12_store : forall (hashf : Z -> Z) t it, WF hashf t -> consistent hashf it ->
  let (t', prev) := store t it in
  WF hashf t' /\ prev = amap t (ikey it) /\
  (forall k, amap t' k = if k =? ikey it then Some it else amap t k).
Proof. exact store_spec. Qed.

(* removeExact removes exactly the identified item, or nothing (stale pointers are rejected) *)
Theorem c12_remove_exact : forall (hashf : Z -> Z) t it, WF hashf t -> consistent hashf it -> iid_ok t it ->
  let (t', ok) := remove_exact t it in
  WF hashf t' /\
  (ok = true <-> exists cur, amap t (ikey it) = Some cur /\ iid cur = iid it) /\
  (forall k, amap t' k = if ok && (k =? ikey it) then None else amap t k).
Proof. exact remove_exact_spec. Qed.

Theorem c12_clear : forall (hashf : Z -> Z) t, WF hashf t ->
  WF hashf (clear t) /\ forall k, amap (clear t) k = None.
Proof. exact clear_spec. Qed.

(* deferred insert: probe parks a cursor; evictions in between keep it valid (the pin barrier
   of reclaimTombs); publish completes the insert; unpin abandons it; swap replaces in place *)
Theorem c12_probe : forall (hashf : Z -> Z) t k, WF hashf t ->
  let (p, cur) := probe t (hashf k) k in
  let (t', o) := p in
  match o with
  | Some (s, it) => t' = t /\ amap t k = Some it /\ getc (slots t) s = Live it
  | None => WFpin hashf t' k (cslot cur) /\ cgen cur = gen t' /\ gen t' = gen t /\
            ctomb cur = is_tomb (getc (slots t') (cslot cur)) /\ (forall k', amap t' k' = amap t k')
  end.
Proof. exact probe_spec. Qed.

Theorem c12_remove_between_probe_and_publish : forall (hashf : Z -> Z) t kc q it,
  WFpin hashf t kc q -> consistent hashf it -> iid_ok t it ->
  let (t', ok) := remove_exact t it in
  WFpin hashf t' kc q /\ getc (slots t') q = getc (slots t) q /\ gen t' = gen t /\
  (ok = true <-> exists cur, amap t (ikey it) = Some cur /\ iid cur = iid it) /\
  (forall k, amap t' k = if ok && (k =? ikey it) then None else amap t k).
Proof. exact remove_exact_pin. Qed.

Theorem c12_publish : forall (hashf : Z -> Z) t kc cur it,
  WFpin hashf t kc (cslot cur) -> cgen cur = gen t ->
  (getc (slots t) (cslot cur) = Tomb -> ctomb cur = true) ->
  consistent hashf it -> ikey it = kc ->
  WF hashf (publish t it cur) /\
  (forall k, amap (publish t it cur) k = if k =? kc then Some it else amap t k).
Proof. exact publish_spec. Qed.

Theorem c12_publish_stale_cursor : forall (hashf : Z -> Z) t it cur,
  WF hashf t -> cgen cur <> gen t -> consistent hashf it ->
  WF hashf (publish t it cur) /\
  (forall k, amap (publish t it cur) k = if k =? ikey it then Some it else amap t k).
Proof. exact publish_stale_spec. Qed.

Theorem c12_clear_during_probe : forall (hashf : Z -> Z) t kc q, WFpin hashf t kc q ->
  WF hashf (clear t) /\ (forall k, amap (clear t) k = None) /\ gen (clear t) <> gen t.
Proof. exact clear_spec_pin. Qed.

Theorem c12_unpin : forall (hashf : Z -> Z) t kc q, WFpin hashf t kc q ->
  WF hashf (unpin t) /\ forall k, amap (unpin t) k = amap t k.
Proof. exact unpin_spec. Qed.

Theorem c12_swap : forall (hashf : Z -> Z) t s old it,
  WF hashf t -> getc (slots t) s = Live old -> ikey it = ikey old -> consistent hashf it ->
  WF hashf (swap_at t s it) /\
  (forall k, amap (swap_at t s it) k = if k =? ikey it then Some it else amap t k).
Proof. exact swap_at_spec. Qed.

(* the table's own count matches its contents *)
Theorem c12_counts_match : forall (hashf : Z -> Z) t, WF hashf t -> live t = Z.of_nat (length (contents t)).
Proof. exact counts_match_WF. Qed.

Theorem c12_new_table : forall (hashf : Z -> Z) c, WF hashf (new_table c) /\ forall k, amap (new_table c) k = None.
Proof. exact new_table_WF. Qed.


(* ---- whole histories: every protocol-respecting operation list (arun accepts it) ----
   The concrete table run from new_table produces exactly the outputs of the abstract map
   machine, refines it after every step, never runs out of fuel, and keeps WF / WFpin. *)
Theorem c12_trace_refines : forall (hashf : Z -> Z) cap ops a' outs,
  arun hashf ainit ops = Some (a', outs) ->
  snd (crun hashf (cinit cap) ops) = outs /\ refined hashf (fst (crun hashf (cinit cap) ops)) a'.
Proof. exact trace_refines. Qed.

Theorem c12_trace_refines_every_step : forall (hashf : Z -> Z) cap ops1 ops2 a' outs,
  arun hashf ainit (ops1 ++ ops2) = Some (a', outs) ->
  exists a1 o1 o2, arun hashf ainit ops1 = Some (a1, o1) /\ outs = o1 ++ o2 /\
    snd (crun hashf (cinit cap) ops1) = o1 /\ refined hashf (fst (crun hashf (cinit cap) ops1)) a1.
Proof. exact trace_refines_every_step. Qed.

(* a resident key is found after any suffix of operations on other keys (stores, probes,
   publishes, abandons, replacements, removals of colliding keys, growth) *)
Theorem c12_key_never_lost : forall (hashf : Z -> Z) cap ops1 ops2 a1 o1 a2 o2 k x,
  arun hashf ainit ops1 = Some (a1, o1) -> aget (am a1) k = Some x ->
  arun hashf a1 ops2 = Some (a2, o2) -> Forall (fun op => touches op k = false) ops2 ->
  snd (crun hashf (cinit cap) (ops1 ++ ops2 ++ [TLookup k])) = o1 ++ o2 ++ [OLookup (Some x)].
Proof. exact key_never_lost_output. Qed.

(* a removed or never admitted key is never found again *)
Theorem c12_no_resurrection : forall (hashf : Z -> Z) cap ops1 ops2 a1 o1 a2 o2 k,
  arun hashf ainit ops1 = Some (a1, o1) -> aget (am a1) k = None ->
  arun hashf a1 ops2 = Some (a2, o2) -> Forall (fun op => touches op k = false) ops2 ->
  lookup (ctab (fst (crun hashf (cinit cap) (ops1 ++ ops2)))) (hashf k) k = None.
Proof. exact no_resurrection. Qed.

Theorem c12_live_is_count : forall (hashf : Z -> Z) cap ops a outs,
  arun hashf ainit ops = Some (a, outs) ->
  live (ctab (fst (crun hashf (cinit cap) ops))) = Z.of_nat (length (am a)) /\
  live (ctab (fst (crun hashf (cinit cap) ops))) =
    Z.of_nat (length (contents (ctab (fst (crun hashf (cinit cap) ops))))).
Proof. exact live_is_count. Qed.

Theorem c12_fuel_always_suffices : forall (hashf : Z -> Z) cap ops a outs,
  arun hashf ainit ops = Some (a, outs) -> herr (ctab (fst (crun hashf (cinit cap) ops))) = false.
Proof. exact herr_never. Qed.

(* ---- concurrent readers (HtableLtsProofs.v: atomic-step LTS of one writer under the shard lock and any number of
   lock-free readers; every interleaving) ---- *)
Require Import KV.HtableLts KV.HtableLtsProofs.

(* a key published throughout a lookup is found with that item *)
Theorem c12_concurrent_resident_found :
  forall hashf : Z -> Z,
         (forall k : Z, 0 <= hashf k) ->
         forall (g0 : gstate) (r : nat) (k h : Z) (rest : list rop) (sch : list nat) 
           (g2 : gstate) (o : list Z) (x : item),
         reachable hashf g0 ->
         rpcof (rth g0 r) = RB ->
         rscript (rth g0 r) = RLookup k h :: rest ->
         rpcof (rth (lfinal g0 sch) r) <> RB ->
         rscript (rth (lfinal g0 sch) r) = rest ->
         HtableLts.lstep (lfinal g0 sch) (S r) = Some (g2, o) ->
         rpcof (rth g2 r) = RB ->
         ikey x = k ->
         (forall gj : gstate,
          In gj (ltrace g0 sch) -> exists p : nat, published (cur_arr (gmem gj)) p x) ->
         o = [0; 1; ival x].
Proof. exact resident_key_found. Qed.

(* a key absent throughout is not found *)
Theorem c12_concurrent_absent_not_found :
  forall hashf : Z -> Z,
         (forall k : Z, 0 <= hashf k) ->
         forall (g0 : gstate) (r : nat) (k h : Z) (rest : list rop) (sch : list nat) 
           (g2 : gstate) (o : list Z),
         reachable hashf g0 ->
         rpcof (rth g0 r) = RB ->
         rscript (rth g0 r) = RLookup k h :: rest ->
         rpcof (rth (lfinal g0 sch) r) <> RB ->
         rscript (rth (lfinal g0 sch) r) = rest ->
         HtableLts.lstep (lfinal g0 sch) (S r) = Some (g2, o) ->
         rpcof (rth g2 r) = RB ->
         (forall (gj : gstate) (it : item), In gj (ltrace g0 sch) -> alive_in it gj -> ikey it <> k) ->
         o = [0; 0; 0].
Proof. exact absent_key_not_found. Qed.

(* never another key's value, even when tags collide *)
Theorem c12_concurrent_never_wrong_key :
  forall hashf : Z -> Z,
         (forall k : Z, 0 <= hashf k) ->
         forall (g0 : gstate) (r : nat) (k h : Z) (rest : list rop) (sch : list nat) 
           (g2 : gstate) (v : Z),
         reachable hashf g0 ->
         rpcof (rth g0 r) = RB ->
         rscript (rth g0 r) = RLookup k h :: rest ->
         rpcof (rth (lfinal g0 sch) r) <> RB ->
         rscript (rth (lfinal g0 sch) r) = rest ->
         HtableLts.lstep (lfinal g0 sch) (S r) = Some (g2, [0; 1; v]) ->
         exists it : item, ikey it = k /\ ival it = v.
Proof. exact never_wrong_key. Qed.

(* per-instant structural invariant in every reachable state *)
Theorem c12_concurrent_structure_every_instant :
  forall hashf : Z -> Z,
         (forall k : Z, 0 <= hashf k) ->
         forall g : gstate, HtableLtsProofs.reachable hashf g -> WFc hashf g.
Proof. exact wfc_invariant. Qed.

(* a lookup takes at most n * (w + 1) tag loads, w = writer stores during it *)
Theorem c12_concurrent_reader_terminates :
  forall hashf : Z -> Z,
         (forall k : Z, 0 <= hashf k) ->
         forall (g1 : gstate) (r : nat) (k h : Z) (sch : list nat) (d i : nat) (k' h' : Z),
         HtableLtsProofs.reachable hashf g1 ->
         rpcof (rth g1 r) = R201 k h ->
         (forall gj : gstate, In gj (ltrace g1 sch) -> rpcof (rth gj r) <> RB) ->
         rpcof (rth (lfinal g1 sch) r) = R202 d i k' h' \/
         rpcof (rth (lfinal g1 sch) r) = R203 d i k' h' ->
         (tagloads r g1 sch + 1 <= length (getarr (gmem (lfinal g1 sch)) d) * (wstores g1 sch + 1))%nat.
Proof. exact reader_terminates. Qed.

Print Assumptions c12_lookup_is_map.
Print Assumptions c12_lookup_terminates.
Print Assumptions c12_lookup_is_map_during_probe.
Print Assumptions c12_store.
Print Assumptions c12_remove_exact.
Print Assumptions c12_clear.
Print Assumptions c12_probe.
Print Assumptions c12_remove_between_probe_and_publish.
Print Assumptions c12_publish.
Print Assumptions c12_publish_stale_cursor.
Print Assumptions c12_clear_during_probe.
Print Assumptions c12_unpin.
Print Assumptions c12_swap.
Print Assumptions c12_counts_match.
Print Assumptions c12_new_table.
Print Assumptions c12_trace_refines.
Print Assumptions c12_trace_refines_every_step.
Print Assumptions c12_key_never_lost.
Print Assumptions c12_no_resurrection.
Print Assumptions c12_live_is_count.
Print Assumptions c12_fuel_always_suffices.
Print Assumptions c12_concurrent_resident_found.
Print Assumptions c12_concurrent_absent_not_found.
Print Assumptions c12_concurrent_never_wrong_key.
Print Assumptions c12_concurrent_structure_every_instant.
Print Assumptions c12_concurrent_reader_terminates.
