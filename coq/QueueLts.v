(* QueueLts.v — executable labelled transition system of the asynchronous write pipeline of one
   shard: the bounded Vyukov MPSC ring (mpsc.go), the write worker, inline / synchronous /
   barrier / close / miss-helper paths (writes.go, cache.go).  One `lstep` runs one thread from
   the yield point it is parked at to its next yield point (verifYield numbers), blocking point
   or operation boundary.  Positions are unbounded Z (64-bit wrap not modelled).
   No proofs in this file; the theorems are in QueueLtsProofs.v. *)
Require Import KV.Base.
Open Scope Z_scope.

Inductive cmd := Write (id : Z) | Barrier (ack : Z) | ClearCmd (ack : Z).

Record cell := mkCell { cseq : Z; ccmd : option cmd }.

(* operations of thread scripts; the thread "kind" is the kind of ops its script holds *)
Inductive op :=
| OSetAsync (id : Z)      (* Producer: tryApplyInline, then enqueue *)
| OEnqueue (id : Z)       (* RawProducer: mpscQueue.enqueue only *)
| OWorker                 (* Worker: the writeWorker loop *)
| OSet (id : Z)           (* SyncWriter: Set/Delete via syncMutate *)
| OSync (ack : Z)         (* Syncer: Sync = barrier + help-drain + wait *)
| OClear (ack : Z)        (* Syncer: Clear = clear command + help-drain + wait *)
| OClose (ack : Z)        (* Closer: Close *)
| OMiss                   (* MissHelper: drainMissAndLookup *)
| OTryDequeue (max : Z)   (* RawConsumer ... *)
| OTakeWake | OClearWS | OReady | ORearm | OCloseCh
| OHoldMu.                (* Reader: a Get/Exists/Keys holding the shard lock for a while *)

(* park points: the verifYield numbers (340 top of awaitResult, 339 before close(closeCh), 341 before
   workers.Wait, 343 before clearDirect in Close), plus 350/351 for the model-only reader thread
   (before mu.Lock / before mu.Unlock).  P0 = operation boundary. *)
Inductive pcT :=
| P0
| P101 | P102 | P103 | P104 | P105 | P106 | P108
| P121 | P122 | P123 | P124 | P125 | P126
| P301 | P302 | P303 | P304 | P305 | P308
| P311 | P312 | P313
| P321 | P322 | P323
| P331 | P332 | P333
| P339 | P340 | P341 | P343
| P350 | P351.

Definition pc_num (p : pcT) : Z :=
  match p with
  | P0 => 0
  | P101 => 101 | P102 => 102 | P103 => 103 | P104 => 104 | P105 => 105 | P106 => 106 | P108 => 108
  | P121 => 121 | P122 => 122 | P123 => 123 | P124 => 124 | P125 => 125 | P126 => 126
  | P301 => 301 | P302 => 302 | P303 => 303 | P304 => 304 | P305 => 305 | P308 => 308
  | P311 => 311 | P312 => 312 | P313 => 313
  | P321 => 321 | P322 => 322 | P323 => 323
  | P331 => 331 | P332 => 332 | P333 => 333
  | P339 => 339 | P340 => 340 | P341 => 341 | P343 => 343
  | P350 => 350 | P351 => 351
  end.

(* ghost events (for the real-time order theorem) *)
Inductive event :=
| EInv (id : Z)     (* a write operation (SetAsync / Set / raw Enqueue) was invoked *)
| ERet (id : Z)     (* it returned nil *)
| EApp (id : Z).    (* the write was applied to the shard *)

Record thread := mkThread {
  script : list op;
  cur : option op;
  pc : pcT;
  epos : Z;
  dpos : Z;
  dbuf : list cmd;
  dacks : list Z;
  wclosing : bool;
  starget : Z
}.
Definition set_script (x : thread) (v : list op) : thread := mkThread v (cur x) (pc x) (epos x) (dpos x) (dbuf x) (dacks x) (wclosing x) (starget x).
Definition set_cur (x : thread) (v : option op) : thread := mkThread (script x) v (pc x) (epos x) (dpos x) (dbuf x) (dacks x) (wclosing x) (starget x).
Definition set_pc (x : thread) (v : pcT) : thread := mkThread (script x) (cur x) v (epos x) (dpos x) (dbuf x) (dacks x) (wclosing x) (starget x).
Definition set_epos (x : thread) (v : Z) : thread := mkThread (script x) (cur x) (pc x) v (dpos x) (dbuf x) (dacks x) (wclosing x) (starget x).
Definition set_dpos (x : thread) (v : Z) : thread := mkThread (script x) (cur x) (pc x) (epos x) v (dbuf x) (dacks x) (wclosing x) (starget x).
Definition set_dbuf (x : thread) (v : list cmd) : thread := mkThread (script x) (cur x) (pc x) (epos x) (dpos x) v (dacks x) (wclosing x) (starget x).
Definition set_dacks (x : thread) (v : list Z) : thread := mkThread (script x) (cur x) (pc x) (epos x) (dpos x) (dbuf x) v (wclosing x) (starget x).
Definition set_wclosing (x : thread) (v : bool) : thread := mkThread (script x) (cur x) (pc x) (epos x) (dpos x) (dbuf x) (dacks x) v (starget x).
Definition set_starget (x : thread) (v : Z) : thread := mkThread (script x) (cur x) (pc x) (epos x) (dpos x) (dbuf x) (dacks x) (wclosing x) v.

Record gstate := mkG {
  gn : Z;
  gB : Z;
  gfixed : bool;
  ring : list cell;
  head : Z;
  tail : Z;
  wakeState : Z;
  wakeTok : bool;
  spaceTok : bool;
  closeCh : bool;
  closedFlag : bool;
  drainMu : option nat;
  mu : option nat;
  onceHeld : option nat;
  onceDone : bool;
  ackTok : list Z;
  applied : list Z;
  threads : list thread;
  resv : list cmd;
  qlog : list cmd;
  dlog : list Z;
  accd : list Z;
  gtail : Z;
  overwrote : bool;
  trace : list event
}.
Definition set_gn (x : gstate) (v : Z) : gstate := mkG v (gB x) (gfixed x) (ring x) (head x) (tail x) (wakeState x) (wakeTok x) (spaceTok x) (closeCh x) (closedFlag x) (drainMu x) (mu x) (onceHeld x) (onceDone x) (ackTok x) (applied x) (threads x) (resv x) (qlog x) (dlog x) (accd x) (gtail x) (overwrote x) (trace x).
Definition set_gB (x : gstate) (v : Z) : gstate := mkG (gn x) v (gfixed x) (ring x) (head x) (tail x) (wakeState x) (wakeTok x) (spaceTok x) (closeCh x) (closedFlag x) (drainMu x) (mu x) (onceHeld x) (onceDone x) (ackTok x) (applied x) (threads x) (resv x) (qlog x) (dlog x) (accd x) (gtail x) (overwrote x) (trace x).
Definition set_gfixed (x : gstate) (v : bool) : gstate := mkG (gn x) (gB x) v (ring x) (head x) (tail x) (wakeState x) (wakeTok x) (spaceTok x) (closeCh x) (closedFlag x) (drainMu x) (mu x) (onceHeld x) (onceDone x) (ackTok x) (applied x) (threads x) (resv x) (qlog x) (dlog x) (accd x) (gtail x) (overwrote x) (trace x).
Definition set_ring (x : gstate) (v : list cell) : gstate := mkG (gn x) (gB x) (gfixed x) v (head x) (tail x) (wakeState x) (wakeTok x) (spaceTok x) (closeCh x) (closedFlag x) (drainMu x) (mu x) (onceHeld x) (onceDone x) (ackTok x) (applied x) (threads x) (resv x) (qlog x) (dlog x) (accd x) (gtail x) (overwrote x) (trace x).
Definition set_head (x : gstate) (v : Z) : gstate := mkG (gn x) (gB x) (gfixed x) (ring x) v (tail x) (wakeState x) (wakeTok x) (spaceTok x) (closeCh x) (closedFlag x) (drainMu x) (mu x) (onceHeld x) (onceDone x) (ackTok x) (applied x) (threads x) (resv x) (qlog x) (dlog x) (accd x) (gtail x) (overwrote x) (trace x).
Definition set_tail (x : gstate) (v : Z) : gstate := mkG (gn x) (gB x) (gfixed x) (ring x) (head x) v (wakeState x) (wakeTok x) (spaceTok x) (closeCh x) (closedFlag x) (drainMu x) (mu x) (onceHeld x) (onceDone x) (ackTok x) (applied x) (threads x) (resv x) (qlog x) (dlog x) (accd x) (gtail x) (overwrote x) (trace x).
Definition set_wakeState (x : gstate) (v : Z) : gstate := mkG (gn x) (gB x) (gfixed x) (ring x) (head x) (tail x) v (wakeTok x) (spaceTok x) (closeCh x) (closedFlag x) (drainMu x) (mu x) (onceHeld x) (onceDone x) (ackTok x) (applied x) (threads x) (resv x) (qlog x) (dlog x) (accd x) (gtail x) (overwrote x) (trace x).
Definition set_wakeTok (x : gstate) (v : bool) : gstate := mkG (gn x) (gB x) (gfixed x) (ring x) (head x) (tail x) (wakeState x) v (spaceTok x) (closeCh x) (closedFlag x) (drainMu x) (mu x) (onceHeld x) (onceDone x) (ackTok x) (applied x) (threads x) (resv x) (qlog x) (dlog x) (accd x) (gtail x) (overwrote x) (trace x).
Definition set_spaceTok (x : gstate) (v : bool) : gstate := mkG (gn x) (gB x) (gfixed x) (ring x) (head x) (tail x) (wakeState x) (wakeTok x) v (closeCh x) (closedFlag x) (drainMu x) (mu x) (onceHeld x) (onceDone x) (ackTok x) (applied x) (threads x) (resv x) (qlog x) (dlog x) (accd x) (gtail x) (overwrote x) (trace x).
Definition set_closeCh (x : gstate) (v : bool) : gstate := mkG (gn x) (gB x) (gfixed x) (ring x) (head x) (tail x) (wakeState x) (wakeTok x) (spaceTok x) v (closedFlag x) (drainMu x) (mu x) (onceHeld x) (onceDone x) (ackTok x) (applied x) (threads x) (resv x) (qlog x) (dlog x) (accd x) (gtail x) (overwrote x) (trace x).
Definition set_closedFlag (x : gstate) (v : bool) : gstate := mkG (gn x) (gB x) (gfixed x) (ring x) (head x) (tail x) (wakeState x) (wakeTok x) (spaceTok x) (closeCh x) v (drainMu x) (mu x) (onceHeld x) (onceDone x) (ackTok x) (applied x) (threads x) (resv x) (qlog x) (dlog x) (accd x) (gtail x) (overwrote x) (trace x).
Definition set_drainMu (x : gstate) (v : option nat) : gstate := mkG (gn x) (gB x) (gfixed x) (ring x) (head x) (tail x) (wakeState x) (wakeTok x) (spaceTok x) (closeCh x) (closedFlag x) v (mu x) (onceHeld x) (onceDone x) (ackTok x) (applied x) (threads x) (resv x) (qlog x) (dlog x) (accd x) (gtail x) (overwrote x) (trace x).
Definition set_mu (x : gstate) (v : option nat) : gstate := mkG (gn x) (gB x) (gfixed x) (ring x) (head x) (tail x) (wakeState x) (wakeTok x) (spaceTok x) (closeCh x) (closedFlag x) (drainMu x) v (onceHeld x) (onceDone x) (ackTok x) (applied x) (threads x) (resv x) (qlog x) (dlog x) (accd x) (gtail x) (overwrote x) (trace x).
Definition set_onceHeld (x : gstate) (v : option nat) : gstate := mkG (gn x) (gB x) (gfixed x) (ring x) (head x) (tail x) (wakeState x) (wakeTok x) (spaceTok x) (closeCh x) (closedFlag x) (drainMu x) (mu x) v (onceDone x) (ackTok x) (applied x) (threads x) (resv x) (qlog x) (dlog x) (accd x) (gtail x) (overwrote x) (trace x).
Definition set_onceDone (x : gstate) (v : bool) : gstate := mkG (gn x) (gB x) (gfixed x) (ring x) (head x) (tail x) (wakeState x) (wakeTok x) (spaceTok x) (closeCh x) (closedFlag x) (drainMu x) (mu x) (onceHeld x) v (ackTok x) (applied x) (threads x) (resv x) (qlog x) (dlog x) (accd x) (gtail x) (overwrote x) (trace x).
Definition set_ackTok (x : gstate) (v : list Z) : gstate := mkG (gn x) (gB x) (gfixed x) (ring x) (head x) (tail x) (wakeState x) (wakeTok x) (spaceTok x) (closeCh x) (closedFlag x) (drainMu x) (mu x) (onceHeld x) (onceDone x) v (applied x) (threads x) (resv x) (qlog x) (dlog x) (accd x) (gtail x) (overwrote x) (trace x).
Definition set_applied (x : gstate) (v : list Z) : gstate := mkG (gn x) (gB x) (gfixed x) (ring x) (head x) (tail x) (wakeState x) (wakeTok x) (spaceTok x) (closeCh x) (closedFlag x) (drainMu x) (mu x) (onceHeld x) (onceDone x) (ackTok x) v (threads x) (resv x) (qlog x) (dlog x) (accd x) (gtail x) (overwrote x) (trace x).
Definition set_threads (x : gstate) (v : list thread) : gstate := mkG (gn x) (gB x) (gfixed x) (ring x) (head x) (tail x) (wakeState x) (wakeTok x) (spaceTok x) (closeCh x) (closedFlag x) (drainMu x) (mu x) (onceHeld x) (onceDone x) (ackTok x) (applied x) v (resv x) (qlog x) (dlog x) (accd x) (gtail x) (overwrote x) (trace x).
Definition set_resv (x : gstate) (v : list cmd) : gstate := mkG (gn x) (gB x) (gfixed x) (ring x) (head x) (tail x) (wakeState x) (wakeTok x) (spaceTok x) (closeCh x) (closedFlag x) (drainMu x) (mu x) (onceHeld x) (onceDone x) (ackTok x) (applied x) (threads x) v (qlog x) (dlog x) (accd x) (gtail x) (overwrote x) (trace x).
Definition set_qlog (x : gstate) (v : list cmd) : gstate := mkG (gn x) (gB x) (gfixed x) (ring x) (head x) (tail x) (wakeState x) (wakeTok x) (spaceTok x) (closeCh x) (closedFlag x) (drainMu x) (mu x) (onceHeld x) (onceDone x) (ackTok x) (applied x) (threads x) (resv x) v (dlog x) (accd x) (gtail x) (overwrote x) (trace x).
Definition set_dlog (x : gstate) (v : list Z) : gstate := mkG (gn x) (gB x) (gfixed x) (ring x) (head x) (tail x) (wakeState x) (wakeTok x) (spaceTok x) (closeCh x) (closedFlag x) (drainMu x) (mu x) (onceHeld x) (onceDone x) (ackTok x) (applied x) (threads x) (resv x) (qlog x) v (accd x) (gtail x) (overwrote x) (trace x).
Definition set_accd (x : gstate) (v : list Z) : gstate := mkG (gn x) (gB x) (gfixed x) (ring x) (head x) (tail x) (wakeState x) (wakeTok x) (spaceTok x) (closeCh x) (closedFlag x) (drainMu x) (mu x) (onceHeld x) (onceDone x) (ackTok x) (applied x) (threads x) (resv x) (qlog x) (dlog x) v (gtail x) (overwrote x) (trace x).
Definition set_gtail (x : gstate) (v : Z) : gstate := mkG (gn x) (gB x) (gfixed x) (ring x) (head x) (tail x) (wakeState x) (wakeTok x) (spaceTok x) (closeCh x) (closedFlag x) (drainMu x) (mu x) (onceHeld x) (onceDone x) (ackTok x) (applied x) (threads x) (resv x) (qlog x) (dlog x) (accd x) v (overwrote x) (trace x).
Definition set_overwrote (x : gstate) (v : bool) : gstate := mkG (gn x) (gB x) (gfixed x) (ring x) (head x) (tail x) (wakeState x) (wakeTok x) (spaceTok x) (closeCh x) (closedFlag x) (drainMu x) (mu x) (onceHeld x) (onceDone x) (ackTok x) (applied x) (threads x) (resv x) (qlog x) (dlog x) (accd x) (gtail x) v (trace x).
Definition set_trace (x : gstate) (v : list event) : gstate := mkG (gn x) (gB x) (gfixed x) (ring x) (head x) (tail x) (wakeState x) (wakeTok x) (spaceTok x) (closeCh x) (closedFlag x) (drainMu x) (mu x) (onceHeld x) (onceDone x) (ackTok x) (applied x) (threads x) (resv x) (qlog x) (dlog x) (accd x) (gtail x) (overwrote x) v.

(* ---------------------------------------------------------------- helpers *)

Fixpoint upd {A : Type} (l : list A) (i : nat) (x : A) : list A :=
  match l, i with
  | [], _ => []
  | _ :: r, O => x :: r
  | y :: r, S j => y :: upd r j x
  end.

Definition dcell : cell := mkCell 0 None.
Definition idx (s : gstate) (pos : Z) : nat := Z.to_nat (pos mod gn s).
Definition cell_at (s : gstate) (pos : Z) : cell := nth (idx s pos) (ring s) dcell.
Definition set_cell (s : gstate) (pos : Z) (c : cell) : gstate := set_ring s (upd (ring s) (idx s pos) c).

Definition memZ (x : Z) (l : list Z) : bool := existsb (Z.eqb x) l.
Fixpoint removeZ (x : Z) (l : list Z) : list Z :=
  match l with [] => [] | y :: r => if x =? y then r else y :: removeZ x r end.

Definition is_none {A : Type} (o : option A) : bool := match o with None => true | Some _ => false end.

Definition cmd_of (o : op) : cmd :=
  match o with
  | OSetAsync id | OEnqueue id => Write id
  | OSync a | OClose a => Barrier a
  | OClear a => ClearCmd a
  | _ => Write 0
  end.

Definition wid (c : cmd) : list Z := match c with Write id => [id] | _ => [] end.
Definition wids (l : list cmd) : list Z := flat_map wid l.
Definition cack (c : cmd) : list Z := match c with Write _ => [] | Barrier a | ClearCmd a => [a] end.
Definition cacks (l : list cmd) : list Z := flat_map cack l.
Definition first_id (l : list cmd) : Z := match l with Write id :: _ => id | _ => 0 end.

Definition op_eqb_worker (o : op) : bool := match o with OWorker => true | _ => false end.
Definition thread_is_worker (th : thread) : bool :=
  existsb op_eqb_worker (script th) || match cur th with Some OWorker => true | _ => false end.
Definition workers_done (s : gstate) : bool := negb (existsb thread_is_worker (threads s)).

Definition new_thread : thread := mkThread [] None P0 0 0 [] [] false 0.

(* batch limit of the consumer code the thread is running *)
Definition max_of (s : gstate) (th : thread) : Z :=
  match cur th with Some (OTryDequeue m) => m | _ => gB s end.

(* ---------------------------------------------------------------- step results *)

Definition res := option (gstate * thread * list Z).

Definition park (s : gstate) (th : thread) (p : pcT) : res := Some (s, set_pc th p, [pc_num p; 0; 0]).

(* end of the current operation with results r1 r2 *)
Definition finish (s : gstate) (th : thread) (r1 r2 : Z) : res :=
  Some (s, set_dbuf (set_pc (set_cur th None) P0) [], [0; r1; r2]).

(* end of a write operation: records the ghost return event when it returned nil *)
Definition finish_w (s : gstate) (th : thread) (id r : Z) : res :=
  finish (if r =? 0 then set_trace s (trace s ++ [ERet id]) else s) th r 0.

Definition apply_direct (s : gstate) (id : Z) : gstate :=
  set_trace (set_dlog (set_applied s (applied s ++ [id])) (dlog s ++ [id])) (trace s ++ [EApp id]).

Definition apply_batch (s : gstate) (b : list cmd) : gstate :=
  set_trace (set_qlog (set_applied s (applied s ++ wids b)) (qlog s ++ b)) (trace s ++ map EApp (wids b)).

(* signal(ch): non-blocking send on a size-1 channel *)
Definition signal_wake (s : gstate) : gstate := set_wakeTok s true.
Definition signal_space (s : gstate) : gstate := set_spaceTok s true.

(* ---------------------------------------------------------------- consumer side *)

(* drainShardQueue returned (tryDequeue gave 0): continuation by operation *)
Definition drain_ret (s : gstate) (tid : nat) (th : thread) : res :=
  match cur th with
  | Some OWorker =>
      let s1 := set_drainMu s None in
      if wclosing th then Some (s1, set_pc (set_cur th None) P0, [-1; 0; 0])   (* worker exits *)
      else park s1 th P303
  | Some (OSet _) =>                                      (* keeps drainMu (deferred unlock) *)
      (* repaired syncMutate: leave the drain loop only once the consumer has passed every
         position reserved before the call (target); the old code never waited *)
      if gfixed s && (tail s - starget th <? 0) then park s th P333 else park s th P332
  | Some (OSync _) | Some (OClear _) | Some (OClose _) => park (set_drainMu s None) th P340
  | Some OMiss => finish (set_drainMu s None) th 0 0
  | _ => finish s th 0 0
  end.

(* tryDequeue returned 0 *)
Definition deq_ret0 (s : gstate) (tid : nat) (th : thread) : res :=
  match cur th with
  | Some (OTryDequeue _) => finish s th 0 0
  | _ => drain_ret s tid th
  end.

(* tryDequeue returned n > 0 with the batch in dbuf *)
Definition deq_retn (s : gstate) (tid : nat) (th : thread) : res :=
  match cur th with
  | Some (OTryDequeue _) => finish s th (Z.of_nat (length (dbuf th))) (first_id (dbuf th))
  | _ => park s th P312
  end.

(* start of drainShardQueue / of one tryDequeue call *)
Definition drain_start (s : gstate) (th : thread) : res := park s (set_dbuf th []) P121.

(* tryDrainShard followed by awaitResult (Sync / Clear / flush) *)
Definition try_drain (s : gstate) (tid : nat) (th : thread) : res :=
  if is_none (drainMu s) then drain_start (set_drainMu s (Some tid)) th
  else park s th P340.

(* ---------------------------------------------------------------- producer side *)

(* mpscQueue.enqueue returned r (0 nil, 3 ErrCacheClosed) *)
Definition enq_ret (s : gstate) (tid : nat) (th : thread) (r : Z) : res :=
  match cur th with
  | Some (OSetAsync id) | Some (OEnqueue id) =>
      finish_w (if r =? 0 then set_accd s (accd s ++ [epos th]) else s) th id r
  | Some (OSync _) | Some (OClear _) =>
      if r =? 0 then try_drain s tid th else finish s th r 0
  | Some (OClose _) =>
      if r =? 0 then try_drain s tid th
      else park s th P339                                (* flush ignores the error *)
  | _ => finish s th r 0
  end.

(* Cache.enqueue: isClosed check, then the ring *)
Definition cenqueue (s : gstate) (th : thread) : res :=
  match cur th with
  | Some (OSetAsync id) => if closedFlag s then finish_w s th id 3 else park s th P101
  | _ => if closedFlag s then finish s th 3 0 else park s th P101
  end.

(* ---------------------------------------------------------------- starting an operation *)

Definition start_op (s : gstate) (tid : nat) (th : thread) (o : op) : res :=
  let th := set_cur th (Some o) in
  match o with
  | OSetAsync id => park (set_trace s (trace s ++ [EInv id])) th P321
  | OEnqueue id => park (set_trace s (trace s ++ [EInv id])) th P101
  | OWorker => park s (set_wclosing th false) P301
  | OSet id =>
      let s := set_trace s (trace s ++ [EInv id]) in
      if closedFlag s then finish_w s th id 3 else park s th P331
  | OSync _ | OClear _ => if closedFlag s then finish s th 3 0 else park s th P101
  | OClose _ =>
      if onceDone s then finish s th 0 0
      else if is_none (onceHeld s) then park (set_closedFlag (set_onceHeld s (Some tid)) true) th P101
      else None                                            (* blocked in closeOnce.Do *)
  | OMiss =>
      (* Cache.get returns at once when the cache is closed *)
      if closedFlag s || (head s =? tail s) || negb (is_none (drainMu s)) then finish s th 0 0
      else drain_start (set_drainMu s (Some tid)) th
  | OTryDequeue _ => drain_start s th
  | OTakeWake => finish (set_wakeTok s false) th (b2z (wakeTok s)) 0
  | OClearWS => finish (set_wakeState s 0) th 0 0
  | OReady => finish s th (b2z (cseq (cell_at s (tail s)) =? tail s + 1)) 0
  | ORearm =>
      if wakeState s =? 0 then finish (set_wakeState s 1) th 1 0 else finish s th 0 0
  | OCloseCh => finish (set_closeCh s true) th 0 0
  | OHoldMu => park s th P350
  end.

(* ---------------------------------------------------------------- one thread step *)

(* c resolves a select with both cases ready: true prefers closeCh *)
Definition tstep (c : bool) (s : gstate) (tid : nat) (th : thread) : res :=
  match pc th with
  | P0 =>
      match cur th, script th with
      | None, o :: r => start_op s tid (set_script th r) o
      | _, _ => None
      end
  (* ---- mpscQueue.enqueue ---- *)
  | P101 => park s (set_epos th (head s)) P102
  | P102 =>
      let dif := cseq (cell_at s (epos th)) - epos th in
      if dif =? 0 then park s th P103
      else if dif <? 0 then park s th P108
      else park s th P101
  | P103 =>
      if head s =? epos th then
        match cur th with
        | Some o => park (set_resv (set_head s (epos th + 1)) (resv s ++ [cmd_of o])) th P104
        | None => None
        end
      else park s th P101
  | P104 =>
      match cur th with
      | Some o =>
          let old := cell_at s (epos th) in
          let s1 := if is_none (ccmd old) then s else set_overwrote s true in
          park (set_cell s1 (epos th) (mkCell (cseq old) (Some (cmd_of o)))) th P105
      | None => None
      end
  | P105 =>
      park (set_cell s (epos th) (mkCell (epos th + 1) (ccmd (cell_at s (epos th))))) th P106
  | P106 =>
      let s1 := if (tail s =? epos th) && (wakeState s =? 0)
                then signal_wake (set_wakeState s 1) else s in
      enq_ret s1 tid th 0
  | P108 =>
      if spaceTok s && negb (c && closeCh s) then park (set_spaceTok s false) th P101
      else if closeCh s then enq_ret s tid th 3
      else None
  (* ---- mpscQueue.tryDequeue ---- *)
  | P121 =>
      let th1 := set_dpos th (tail s) in
      if 0 <? max_of s th then park s th1 P122 else deq_ret0 s tid th1
  | P122 =>
      if cseq (cell_at s (dpos th)) =? dpos th + 1 then park s th P123
      else match dbuf th with
           | [] => deq_ret0 s tid th
           | _ => park s th P126
           end
  | P123 =>
      match ccmd (cell_at s (dpos th)) with
      | Some cm => park s (set_dbuf th (dbuf th ++ [cm])) P124
      | None => park s (set_dbuf th (dbuf th ++ [Write 0])) P124     (* zero command; never happens *)
      end
  | P124 =>
      park (set_gtail (set_cell s (dpos th) (mkCell (dpos th + gn s) None)) (dpos th + 1))
           (set_dpos th (dpos th + 1)) P125
  | P125 =>
      let s1 := set_tail s (dpos th) in
      if Z.of_nat (length (dbuf th)) <? max_of s th then park s1 th P122 else park s1 th P126
  | P126 => deq_retn (signal_space s) tid th
  (* ---- writeWorker ---- *)
  | P301 =>
      if wakeTok s && negb (c && closeCh s) then park (set_wakeTok s false) th P302
      else if closeCh s then park s th P308
      else None
  | P302 => park s th P311
  | P303 => park (set_wakeState s 0) th P304
  | P304 =>
      if cseq (cell_at s (tail s)) =? tail s + 1 then park s th P305 else park s th P301
  | P305 =>
      if wakeState s =? 0 then park (set_wakeState s 1) th P302 else park s th P301
  | P308 => park s (set_wclosing th true) P311
  (* ---- drainShard / applyWriteBatch ---- *)
  | P311 =>
      if is_none (drainMu s) then drain_start (set_drainMu s (Some tid)) th else None
  | P312 =>
      if is_none (mu s) then
        park (apply_batch s (dbuf th)) (set_dbuf (set_dacks th (cacks (dbuf th))) []) P313
      else None
  | P313 =>
      (* each ack channel has capacity 1 and belongs to one command, so the sends never block *)
      drain_start (set_ackTok s (ackTok s ++ dacks th)) (set_dacks th [])
  (* ---- tryApplyInline ---- *)
  | P321 => if head s =? tail s then park s th P322 else cenqueue s th
  | P322 =>
      if is_none (drainMu s) then park (set_drainMu s (Some tid)) th P323 else cenqueue s th
  | P323 =>
      if closedFlag s || negb (head s =? tail s) || negb (is_none (mu s))
      then cenqueue (set_drainMu s None) th
      else match cur th with
           | Some (OSetAsync id) => finish_w (set_drainMu (apply_direct s id) None) th id 0
           | _ => None
           end
  (* ---- syncMutate ---- *)
  | P331 =>
      if is_none (drainMu s) then
        if closedFlag s then
          match cur th with Some (OSet id) => finish_w s th id 3 | _ => None end
        else drain_start (set_drainMu s (Some tid)) (set_starget th (head s))
      else None
  | P333 => drain_start s th                              (* after Gosched: drain again *)
  | P332 =>
      if is_none (mu s) then
        match cur th with
        | Some (OSet id) => finish_w (set_drainMu (apply_direct s id) None) th id 0
        | _ => None
        end
      else None
  (* ---- awaitResult / Close ---- *)
  | P340 =>
      match cur th with
      | Some (OSync a) | Some (OClear a) =>
          if memZ a (ackTok s) && negb (c && closeCh s) then finish (set_ackTok s (removeZ a (ackTok s))) th 0 0
          else if closeCh s then finish s th 3 0
          else None
      | Some (OClose a) =>
          if memZ a (ackTok s) && negb (c && closeCh s)
          then park (set_ackTok s (removeZ a (ackTok s))) th P339
          else if closeCh s then park s th P339
          else None
      | _ => None
      end
  | P339 => park (set_closeCh s true) th P341
  | P341 => if workers_done s then park s th P343 else None
  | P343 =>
      if is_none (mu s) then finish (set_onceDone (set_onceHeld s None) true) th 0 0 else None
  (* ---- reader holding the shard lock ---- *)
  | P350 => if is_none (mu s) then park (set_mu s (Some tid)) th P351 else None
  | P351 => finish (set_mu s None) th 0 0
  end.

Definition lstepc (c : bool) (s : gstate) (tid : nat) : option (gstate * list Z) :=
  match nth_error (threads s) tid with
  | None => None
  | Some th =>
      match tstep c s tid th with
      | None => None
      | Some (s1, th1, o) => Some (set_threads s1 (upd (threads s1) tid th1), o)
      end
  end.

Definition lstep (s : gstate) (tid : nat) : option (gstate * list Z) := lstepc false s tid.

(* ---------------------------------------------------------------- initial states *)

Definition init_ring (n : Z) : list cell := map (fun i => mkCell i None) (zseq 0 (Z.to_nat n)).

(* fixed = true: the repaired syncMutate (waits at 333 for earlier reservations);
   fixed = false: the original one *)
Definition init_state (fixed : bool) (n B : Z) (ths : list thread) : gstate :=
  mkG n B fixed (init_ring n) 0 0 0 false false false false None None None false [] [] ths [] [] [] [] 0 false [].

Definition thread_of (ops : list op) : thread := set_script new_thread ops.

(* cache-level configurations: one script per thread *)
Definition init_scripts (fixed : bool) (n B : Z) (scripts : list (list op)) : gstate :=
  init_state fixed n B (map thread_of scripts).

(* run a schedule (list of thread ids, with select choice bits); stops at the first disabled step *)
Fixpoint run_sched (s : gstate) (sched : list nat) : gstate :=
  match sched with
  | [] => s
  | t :: r => match lstep s t with Some (s1, _) => run_sched s1 r | None => run_sched s r end
  end.

Fixpoint run_sched_obs (s : gstate) (sched : list nat) : gstate * list (list Z) :=
  match sched with
  | [] => (s, [])
  | t :: r => match lstep s t with
              | Some (s1, o) => let '(s2, os) := run_sched_obs s1 r in (s2, o :: os)
              | None => let '(s2, os) := run_sched_obs s r in (s2, [-2] :: os)
              end
  end.

(* ---------------------------------------------------------------- stream interface *)

Definition ql_init (cfg : list Z) : gstate :=
  match cfg with
  | n :: B :: f :: _ => init_state (negb (f =? 0)) n B []     (* third entry 0 = the old syncMutate *)
  | [n; B] => init_state true n B []
  | [n] => init_state true n 1 []
  | [] => init_state true 2 1 []
  end.

Fixpoint ensure_thread (l : list thread) (tid : nat) : list thread :=
  match tid, l with
  | O, [] => [new_thread]
  | O, _ => l
  | S j, [] => new_thread :: ensure_thread [] j
  | S j, x :: r => x :: ensure_thread r j
  end.

Definition op_of_kind (kind arg : Z) : option op :=
  if kind =? 1 then Some (OEnqueue arg)
  else if kind =? 2 then Some (OTryDequeue arg)
  else if kind =? 3 then Some OTakeWake
  else if kind =? 4 then Some OClearWS
  else if kind =? 5 then Some OReady
  else if kind =? 6 then Some ORearm
  else if kind =? 7 then Some OCloseCh
  else if kind =? 11 then Some (OSetAsync arg)
  else if kind =? 12 then Some (OSet arg)
  else if kind =? 13 then Some (OSync arg)
  else if kind =? 14 then Some (OClose arg)
  else if kind =? 15 then Some OWorker
  else if kind =? 16 then Some OMiss
  else if kind =? 17 then Some (OClear arg)
  else if kind =? 18 then Some OHoldMu
  else None.

Definition add_op (s : gstate) (tid : nat) (o : op) : gstate :=
  let l := ensure_thread (threads s) tid in
  match nth_error l tid with
  | Some th => set_threads s (upd l tid (set_script th (script th ++ [o])))
  | None => s
  end.

Definition ql_step (s : gstate) (o : list Z) : gstate * list Z :=
  match o with
  | [1; tid; kind; arg] =>
      match op_of_kind kind arg with
      | Some p => (add_op s (Z.to_nat tid) p, [])
      | None => (s, [])
      end
  | [2; tid] =>
      match lstep s (Z.to_nat tid) with
      | Some (s1, out) => (s1, out)
      | None => (s, [-2])
      end
  | _ => (s, [])
  end.
