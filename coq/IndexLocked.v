(* IndexLocked.v — the REPAIRED middleware store: clearMu (RWMutex) + 64 striped store mutexes, on top of IndexLts.

   Go code modelled (httpcache/middleware.go, after the repair of defect family F5):
     store(key,resp):  clearMu.RLock(); storeMu[stripe(key)].Lock();  A: addKey;  B: cache.Set(..) (/B': removeKeyByIdentity);
                       storeMu[stripe(key)].Unlock(); clearMu.RUnlock()
     Clear():          clearMu.Lock();  1: cache.Clear();  2: patternIdx.clear();  clearMu.Unlock()
     Delete / Invalidate / Close / eviction / notifier delivery: no locks (unchanged).

   Result: the locked system ENFORCES hypothesis H of IndexLts by itself (locked_enforces_H), so the theorems of
   IndexLtsProofs hold for it without assuming H (quiescent_agreement_locked, invalidate_complete_locked);
   the lock order is deadlock free (deadlock_free) and all locks are released at quiescence (locks_released).

   The stripe function is a Section variable: every theorem holds for EVERY `stripe : Z -> nat`
   (in particular for the 64-stripe hash of the Go code, and also for a single global stripe). *)
From KV Require Import Base IndexLts IndexLtsProofs.

Definition tid := nat.

(* position of a thread in the lock protocol (its position in the index/cache protocol is IndexLts.t_pc) *)
Inductive lphase :=
| LIdle                 (* holds nothing *)
| LWaitS (k : Z)        (* store: holds clearMu (read), next: acquire stripe k's mutex *)
| LHold (k : Z)         (* store: holds clearMu (read) + the stripe of k; steps A, B, B' happen here *)
| LDone (k : Z)         (* store: A and B (/B') done, still holds both; next: release the stripe *)
| LRelR                 (* store: stripe released; next: release clearMu (read) *)
| LHoldW                (* Clear: holds clearMu (write); the two Clear steps happen here *)
| LDoneW.               (* Clear: both steps done; next: release clearMu (write) *)

Record lstate := mkL {
  base : state;                        (* the IndexLts state: this is the projection *)
  clearW : option tid;                 (* clearMu: the writer *)
  clearR : list tid;                   (* clearMu: the readers *)
  stripeOwner : nat -> option tid;     (* storeMu[n]: the owner *)
  lph : nat -> lphase                  (* per-thread lock phase (ghost program counter of the lock protocol) *)
}.

Inductive llabel :=
| LLock (i : tid)      (* thread i performs its next lock operation (acquire or release); None when blocked *)
| LBase (l : label).   (* a step of IndexLts: thread step A/B/B'/Delete/..., eviction, delivery *)

Definition updf {A} (f : nat -> A) (i : nat) (x : A) : nat -> A := fun j => if Nat.eqb j i then x else f j.
Definition drop (i : tid) (l : list tid) : list tid := filter (fun j => negb (Nat.eqb j i)) l.

(* the next operation of an idle thread is one that must take a lock first *)
Definition needs_lock (t : thread) : bool :=
  match t_pc t, t_script t with
  | PIdle, OStore _ _ :: _ => true
  | PIdle, OClear :: _ => true
  | _, _ => false
  end.

Section Locked.
Variable stripe : Z -> nat.

(* lock operations of thread i (whose IndexLts-local state is t) *)
Definition lock_step (s : lstate) (i : tid) (t : thread) : option lstate :=
  match lph s i with
  | LIdle =>
      match t_pc t, t_script t with
      | PIdle, OStore k _ :: _ =>                                   (* clearMu.RLock: blocked while a writer holds it *)
          match clearW s with
          | None => Some (mkL (base s) None (i :: clearR s) (stripeOwner s) (updf (lph s) i (LWaitS k)))
          | Some _ => None
          end
      | PIdle, OClear :: _ =>                                       (* clearMu.Lock: blocked while any reader or writer *)
          match clearW s, clearR s with
          | None, [] => Some (mkL (base s) (Some i) [] (stripeOwner s) (updf (lph s) i LHoldW))
          | _, _ => None
          end
      | _, _ => None
      end
  | LWaitS k =>                                                     (* storeMu[stripe k].Lock: blocked while owned *)
      match stripeOwner s (stripe k) with
      | None => Some (mkL (base s) (clearW s) (clearR s) (updf (stripeOwner s) (stripe k) (Some i))
                          (updf (lph s) i (LHold k)))
      | Some _ => None
      end
  | LDone k =>                                                      (* storeMu[stripe k].Unlock *)
      Some (mkL (base s) (clearW s) (clearR s) (updf (stripeOwner s) (stripe k) None) (updf (lph s) i LRelR))
  | LRelR =>                                                        (* clearMu.RUnlock *)
      Some (mkL (base s) (clearW s) (drop i (clearR s)) (stripeOwner s) (updf (lph s) i LIdle))
  | LDoneW =>                                                       (* clearMu.Unlock *)
      Some (mkL (base s) None (clearR s) (stripeOwner s) (updf (lph s) i LIdle))
  | LHold _ | LHoldW => None                                        (* next step is an IndexLts step *)
  end.

(* IndexLts steps of thread i: allowed only in the phases where the Go code performs them *)
Definition thread_step (s : lstate) (i : tid) (t : thread) (o : outcome) : option lstate :=
  let go (f : pc -> lphase) :=
    match tstep (base s) t o with
    | None => None
    | Some (b1, t1) =>
        Some (mkL (set_threads b1 (upd i t1 (threads (base s)))) (clearW s) (clearR s) (stripeOwner s)
                  (updf (lph s) i (f (t_pc t1))))
    end in
  match lph s i with
  | LIdle => if needs_lock t then None else go (fun _ => LIdle)            (* Delete, Invalidate, Close: no locks *)
  | LHold k => go (fun p => if idle_pc p then LDone k else LHold k)        (* steps A, B, B' *)
  | LHoldW => go (fun p => if idle_pc p then LDoneW else LHoldW)           (* Clear steps 1, 2 *)
  | _ => None
  end.

Definition lstep (s : lstate) (l : llabel) : option lstate :=
  match l with
  | LLock i =>
      match nth_error (threads (base s)) i with
      | None => None
      | Some t => lock_step s i t
      end
  | LBase (LT i o) =>
      match nth_error (threads (base s)) i with
      | None => None
      | Some t => thread_step s i t o
      end
  | LBase l' =>                                                            (* eviction, delivery: environment *)
      match step (base s) l' with
      | None => None
      | Some b => Some (mkL b (clearW s) (clearR s) (stripeOwner s) (lph s))
      end
  end.

Definition linit (scripts : list (list op)) : lstate :=
  mkL (init scripts) None [] (fun _ => None) (fun _ => LIdle).

Inductive lreachable (s0 : lstate) : lstate -> Prop :=
| LR_init : lreachable s0 s0
| LR_step s l s' : lreachable s0 s -> lstep s l = Some s' -> lreachable s0 s'.

Fixpoint lexec (s : lstate) (ls : list llabel) : option lstate :=
  match ls with
  | [] => Some s
  | l :: r => match lstep s l with Some s' => lexec s' r | None => None end
  end.

(* erase the lock steps *)
Definition erase (ls : list llabel) : list label :=
  flat_map (fun l => match l with LBase b => [b] | LLock _ => [] end) ls.

Lemma lexec_lreachable s0 ls : forall s s', lreachable s0 s -> lexec s ls = Some s' -> lreachable s0 s'.
Proof.
  induction ls as [|l r IH]; intros s s' Hr He; cbn in He.
  - inversion He; subst; exact Hr.
  - destruct (lstep s l) as [s1|] eqn:Es; [|discriminate].
    apply (IH s1); [|exact He]. eapply LR_step; [exact Hr|exact Es].
Qed.

Lemma lexec_app a : forall s b,
  lexec s (a ++ b) = match lexec s a with Some s1 => lexec s1 b | None => None end.
Proof.
  induction a as [|l a IH]; intros s b; cbn; [reflexivity|].
  destruct (lstep s l); [apply IH|reflexivity].
Qed.

(* ------------------------------------------------------------------ *)
(* 2. refinement: erasing lock fields and lock steps gives an IndexLts execution *)

Lemma lock_step_base s i t s' : lock_step s i t = Some s' -> base s' = base s.
Proof.
  unfold lock_step. intros E.
  destruct (lph s i); try discriminate.
  - destruct (t_pc t); try discriminate. destruct (t_script t) as [|[k id|k|ks| |] r]; try discriminate.
    + destruct (clearW s); inversion E; reflexivity.
    + destruct (clearW s); [discriminate|]. destruct (clearR s); inversion E; reflexivity.
  - destruct (stripeOwner s (stripe k)); inversion E; reflexivity.
  - inversion E; reflexivity.
  - inversion E; reflexivity.
  - inversion E; reflexivity.
Qed.

Lemma thread_step_base s i t o s' :
  nth_error (threads (base s)) i = Some t -> thread_step s i t o = Some s' ->
  step (base s) (LT i o) = Some (base s').
Proof.
  intros Hn E. cbn [step]. rewrite Hn. unfold thread_step in E.
  destruct (tstep (base s) t o) as [[b1 t1]|].
  - destruct (lph s i); try discriminate; [destruct (needs_lock t); [discriminate|]| |]; inversion E; reflexivity.
  - destruct (lph s i); try discriminate. destruct (needs_lock t); discriminate.
Qed.

Lemma lstep_lock_base s i s' : lstep s (LLock i) = Some s' -> base s' = base s.
Proof.
  cbn. destruct (nth_error (threads (base s)) i) as [t|]; [|discriminate]. apply lock_step_base.
Qed.

Lemma lstep_base_step s l s' : lstep s (LBase l) = Some s' -> step (base s) l = Some (base s').
Proof.
  destruct l as [i o|k|]; cbn [lstep].
  - destruct (nth_error (threads (base s)) i) as [t|] eqn:Hn; [|discriminate]. apply thread_step_base; exact Hn.
  - destruct (step (base s) (LEvict k)) as [b|]; [|discriminate]. intros E; inversion E; reflexivity.
  - destruct (step (base s) LDeliver) as [b|]; [|discriminate]. intros E; inversion E; reflexivity.
Qed.

Theorem locked_refines ls : forall s s',
  lexec s ls = Some s' -> exec (base s) (erase ls) = Some (base s').
Proof.
  induction ls as [|l r IH]; intros s s' He; cbn in He.
  - inversion He; reflexivity.
  - destruct (lstep s l) as [s1|] eqn:Es; [|discriminate]. destruct l as [i|b].
    + cbn [erase flat_map app]. rewrite <- (lstep_lock_base _ _ _ Es). apply IH; exact He.
    + cbn [erase flat_map app]. change (exec (base s) (b :: erase r) = Some (base s')).
      cbn [exec]. rewrite (lstep_base_step _ _ _ Es). apply IH; exact He.
Qed.

Corollary locked_refines_reachable scripts s :
  lreachable (linit scripts) s -> reachable (init scripts) (base s).
Proof.
  intros Hr. induction Hr as [|s l s' Hr IH Hs]; [constructor|].
  destruct l as [i|b].
  - rewrite (lstep_lock_base _ _ _ Hs). exact IH.
  - eapply R_step; [exact IH|apply lstep_base_step; exact Hs].
Qed.


(* ------------------------------------------------------------------ *)
(* 3. the lock invariant *)

Definition reader (p : lphase) : bool :=
  match p with LWaitS _ | LHold _ | LDone _ | LRelR => true | _ => false end.
Definition writer (p : lphase) : bool :=
  match p with LHoldW | LDoneW => true | _ => false end.
Definition held (p : lphase) : option nat :=
  match p with LHold k | LDone k => Some (stripe k) | _ => None end.

(* the lock phase of a thread agrees with its IndexLts-local state *)
Definition ph_ok (p : lphase) (ot : option thread) : Prop :=
  match p with
  | LIdle => forall t, ot = Some t -> store_key (t_pc t) = None /\ is_clear2 (t_pc t) = false
  | LWaitS k => exists t, ot = Some t /\ t_pc t = PIdle /\ exists id r, t_script t = OStore k id :: r
  | LHold k => exists t, ot = Some t /\
      ((t_pc t = PIdle /\ exists id r, t_script t = OStore k id :: r) \/
       (exists id, t_pc t = PStoreB k id) \/ (exists id, t_pc t = PStoreB' k id))
  | LDone _ | LRelR | LDoneW => exists t, ot = Some t /\ t_pc t = PIdle
  | LHoldW => exists t, ot = Some t /\
      ((t_pc t = PIdle /\ exists r, t_script t = OClear :: r) \/ t_pc t = PClear2)
  end.

Record LInv (s : lstate) : Prop := {
  L_ph : forall i, ph_ok (lph s i) (nth_error (threads (base s)) i);
  L_R : forall i, In i (clearR s) <-> reader (lph s i) = true;          (* the readers are exactly the store threads past RLock *)
  L_W : forall i, clearW s = Some i <-> writer (lph s i) = true;        (* the writer is exactly the Clear thread past Lock *)
  L_S : forall n i, stripeOwner s n = Some i <-> held (lph s i) = Some n; (* stripe owners are exactly the threads in LHold/LDone *)
  L_RW : clearW s <> None -> clearR s = []                              (* RWMutex: a writer excludes readers *)
}.

Lemma updf_same {A} (f : nat -> A) i x : updf f i x i = x.
Proof. unfold updf. rewrite Nat.eqb_refl. reflexivity. Qed.
Lemma updf_other {A} (f : nat -> A) i j x : j <> i -> updf f i x j = f j.
Proof. unfold updf. intros Hne. destruct (Nat.eqb_spec j i); [contradiction|reflexivity]. Qed.

Lemma in_drop i j l : In j (drop i l) <-> In j l /\ j <> i.
Proof.
  unfold drop. rewrite filter_In. destruct (Nat.eqb_spec j i); cbn; intuition congruence.
Qed.

Lemma linv_init scripts : LInv (linit scripts).
Proof.
  constructor; cbn.
  - intros i t Hn. apply nth_error_In in Hn. apply in_map_iff in Hn. destruct Hn as (sc & <- & _). cbn. auto.
  - intros i. split; [intros []|discriminate].
  - intros i. split; discriminate.
  - intros n i. split; discriminate.
  - reflexivity.
Qed.

(* the invariant gives H *)
Lemma linv_H s : LInv s -> IndexLts.H (base s).
Proof.
  intros [Jp JR JW JS JRW] i j ti tj Hne Hi Hj. unfold conflict.
  destruct (store_key (t_pc ti)) as [k|] eqn:Ek; [|reflexivity].
  (* thread i is inside a store of k: its phase is LHold k *)
  assert (Pi : lph s i = LHold k).
  { pose proof (Jp i) as P. rewrite Hi in P. destruct (lph s i) as [|k0|k0|k0| | |]; cbn in P.
    - destruct (P ti eq_refl) as [P1 _]. congruence.
    - destruct P as (t & Et & Ep & _). inversion Et; subst t. rewrite Ep in Ek; discriminate.
    - destruct P as (t & Et & [[Ep _]|[[id Ep]|[id Ep]]]); inversion Et; subst t; rewrite Ep in Ek; cbn in Ek;
        [discriminate|congruence|congruence].
    - destruct P as (t & Et & Ep). inversion Et; subst t. rewrite Ep in Ek; discriminate.
    - destruct P as (t & Et & Ep). inversion Et; subst t. rewrite Ep in Ek; discriminate.
    - destruct P as (t & Et & [[Ep _]|Ep]); inversion Et; subst t; rewrite Ep in Ek; discriminate.
    - destruct P as (t & Et & Ep). inversion Et; subst t. rewrite Ep in Ek; discriminate. }
  destruct (store_key (t_pc tj)) as [k'|] eqn:Ek'.
  - (* two stores: the same key means the same stripe, which has one owner *)
    assert (Pj : lph s j = LHold k').
    { pose proof (Jp j) as P. rewrite Hj in P. destruct (lph s j) as [|k0|k0|k0| | |]; cbn in P.
      - destruct (P tj eq_refl) as [P1 _]. congruence.
      - destruct P as (t & Et & Ep & _). inversion Et; subst t. rewrite Ep in Ek'; discriminate.
      - destruct P as (t & Et & [[Ep _]|[[id Ep]|[id Ep]]]); inversion Et; subst t; rewrite Ep in Ek'; cbn in Ek';
          [discriminate|congruence|congruence].
      - destruct P as (t & Et & Ep). inversion Et; subst t. rewrite Ep in Ek'; discriminate.
      - destruct P as (t & Et & Ep). inversion Et; subst t. rewrite Ep in Ek'; discriminate.
      - destruct P as (t & Et & [[Ep _]|Ep]); inversion Et; subst t; rewrite Ep in Ek'; discriminate.
      - destruct P as (t & Et & Ep). inversion Et; subst t. rewrite Ep in Ek'; discriminate. }
    destruct (Z.eqb_spec k k') as [<-|]; [|reflexivity]. exfalso.
    assert (Oi : stripeOwner s (stripe k) = Some i) by (apply JS; rewrite Pi; reflexivity).
    assert (Oj : stripeOwner s (stripe k) = Some j) by (apply JS; rewrite Pj; reflexivity).
    congruence.
  - (* a store and a Clear between its two steps: reader and writer of clearMu at once *)
    destruct (is_clear2 (t_pc tj)) eqn:Ec; [|reflexivity]. exfalso.
    assert (Pj : writer (lph s j) = true).
    { pose proof (Jp j) as P. rewrite Hj in P. destruct (lph s j) as [|k0|k0|k0| | |]; cbn in P; try reflexivity.
      - destruct (P tj eq_refl) as [_ P2]. congruence.
      - destruct P as (t & Et & Ep & _). inversion Et; subst t. rewrite Ep in Ec; discriminate.
      - destruct P as (t & Et & [[Ep _]|[[id Ep]|[id Ep]]]); inversion Et; subst t; rewrite Ep in Ec; discriminate.
      - destruct P as (t & Et & Ep). inversion Et; subst t. rewrite Ep in Ec; discriminate.
      - destruct P as (t & Et & Ep). inversion Et; subst t. rewrite Ep in Ec; discriminate. }
    apply JW in Pj. assert (Ri : In i (clearR s)) by (apply JR; rewrite Pi; reflexivity).
    rewrite JRW in Ri by congruence. exact Ri.
Qed.

(* lock fields unchanged, phases changed without changing what they hold *)
Lemma linv_same_locks s b' ph' :
  LInv s ->
  (forall j, reader (ph' j) = reader (lph s j)) ->
  (forall j, writer (ph' j) = writer (lph s j)) ->
  (forall j, held (ph' j) = held (lph s j)) ->
  (forall j, ph_ok (ph' j) (nth_error (threads b') j)) ->
  LInv (mkL b' (clearW s) (clearR s) (stripeOwner s) ph').
Proof.
  intros [Jp JR JW JS JRW] Hr Hw Hh Hp. constructor; cbn.
  - exact Hp.
  - intros i. rewrite Hr. apply JR.
  - intros i. rewrite Hw. apply JW.
  - intros n i. rewrite Hh. apply JS.
  - exact JRW.
Qed.

Lemma linv_lock s i t s' :
  LInv s -> nth_error (threads (base s)) i = Some t -> lock_step s i t = Some s' -> LInv s'.
Proof.
  intros [Jp JR JW JS JRW] Hn E. unfold lock_step in E.
  pose proof (Jp i) as Pi. rewrite Hn in Pi.
  destruct (lph s i) as [|k|k|k| | |] eqn:Ep; try discriminate.
  - (* acquire clearMu *)
    destruct (t_pc t) eqn:Epc; try discriminate.
    destruct (t_script t) as [|[k id|k|ks| |] r] eqn:Esc; try discriminate.
    + (* RLock *)
      destruct (clearW s) eqn:Ew; [discriminate|]. inversion E; subst s'; clear E. constructor; cbn.
      * intros j. destruct (Nat.eq_dec j i) as [->|Hne].
        -- rewrite updf_same, Hn. cbn. exists t. split; [reflexivity|]. split; [exact Epc|]. eauto.
        -- rewrite updf_other by exact Hne. apply Jp.
      * intros j. destruct (Nat.eq_dec j i) as [->|Hne].
        -- rewrite updf_same. cbn. intuition.
        -- rewrite updf_other by exact Hne. rewrite <- JR. cbn. intuition congruence.
      * intros j. destruct (Nat.eq_dec j i) as [->|Hne].
        -- rewrite updf_same. cbn. intuition discriminate.
        -- rewrite updf_other by exact Hne. rewrite <- JW. intuition discriminate.
      * intros n j. destruct (Nat.eq_dec j i) as [->|Hne].
        -- rewrite updf_same. rewrite JS, Ep. cbn. tauto.
        -- rewrite updf_other by exact Hne. apply JS.
      * intros Hc; congruence.
    + (* Lock *)
      destruct (clearW s) eqn:Ew; [discriminate|]. destruct (clearR s) eqn:ER; [|discriminate].
      inversion E; subst s'; clear E. constructor; cbn.
      * intros j. destruct (Nat.eq_dec j i) as [->|Hne].
        -- rewrite updf_same, Hn. cbn. exists t. split; [reflexivity|]. left. split; [exact Epc|]. eauto.
        -- rewrite updf_other by exact Hne. apply Jp.
      * intros j. destruct (Nat.eq_dec j i) as [->|Hne].
        -- rewrite updf_same. cbn. intuition discriminate.
        -- rewrite updf_other by exact Hne. rewrite <- JR. tauto.
      * intros j. destruct (Nat.eq_dec j i) as [->|Hne].
        -- rewrite updf_same. cbn. tauto.
        -- rewrite updf_other by exact Hne. rewrite <- JW. intuition congruence.
      * intros n j. destruct (Nat.eq_dec j i) as [->|Hne].
        -- rewrite updf_same. rewrite JS, Ep. cbn. tauto.
        -- rewrite updf_other by exact Hne. apply JS.
      * reflexivity.
  - (* acquire the stripe *)
    destruct (stripeOwner s (stripe k)) eqn:Eo; [discriminate|]. inversion E; subst s'; clear E.
    constructor; cbn.
    + intros j. destruct (Nat.eq_dec j i) as [->|Hne].
      * rewrite updf_same, Hn. cbn. cbn in Pi. destruct Pi as (t0 & Et & P1 & P2). inversion Et; subst t0.
        exists t. split; [reflexivity|]. left. split; assumption.
      * rewrite updf_other by exact Hne. apply Jp.
    + intros j. destruct (Nat.eq_dec j i) as [->|Hne].
      * rewrite updf_same. rewrite JR, Ep. cbn. tauto.
      * rewrite updf_other by exact Hne. apply JR.
    + intros j. destruct (Nat.eq_dec j i) as [->|Hne].
      * rewrite updf_same. rewrite JW, Ep. cbn. tauto.
      * rewrite updf_other by exact Hne. apply JW.
    + intros n j. destruct (Nat.eq_dec n (stripe k)) as [->|Hnn]; destruct (Nat.eq_dec j i) as [->|Hne].
      * rewrite !updf_same. cbn. tauto.
      * rewrite updf_same, updf_other by exact Hne. rewrite <- JS, Eo. intuition congruence.
      * rewrite updf_same, updf_other by exact Hnn. rewrite JS, Ep. cbn. intuition congruence.
      * rewrite !updf_other by assumption. apply JS.
    + exact JRW.
  - (* release the stripe *)
    inversion E; subst s'; clear E. constructor; cbn.
    + intros j. destruct (Nat.eq_dec j i) as [->|Hne].
      * rewrite updf_same, Hn. cbn. cbn in Pi. exact Pi.
      * rewrite updf_other by exact Hne. apply Jp.
    + intros j. destruct (Nat.eq_dec j i) as [->|Hne].
      * rewrite updf_same. rewrite JR, Ep. cbn. tauto.
      * rewrite updf_other by exact Hne. apply JR.
    + intros j. destruct (Nat.eq_dec j i) as [->|Hne].
      * rewrite updf_same. rewrite JW, Ep. cbn. tauto.
      * rewrite updf_other by exact Hne. apply JW.
    + assert (Oi : stripeOwner s (stripe k) = Some i) by (apply JS; rewrite Ep; reflexivity).
      intros n j. destruct (Nat.eq_dec n (stripe k)) as [->|Hnn]; destruct (Nat.eq_dec j i) as [->|Hne].
      * rewrite !updf_same. cbn. intuition discriminate.
      * rewrite updf_same, updf_other by exact Hne. rewrite <- JS, Oi. intuition congruence.
      * rewrite updf_same, updf_other by exact Hnn. rewrite JS, Ep. cbn. intuition congruence.
      * rewrite !updf_other by assumption. apply JS.
    + exact JRW.
  - (* release clearMu (read) *)
    inversion E; subst s'; clear E. constructor; cbn.
    + intros j. destruct (Nat.eq_dec j i) as [->|Hne].
      * rewrite updf_same, Hn. cbn. cbn in Pi. destruct Pi as (t0 & Et & P1). inversion Et; subst t0.
        intros t1 Et1. inversion Et1; subst t1. rewrite P1. cbn. auto.
      * rewrite updf_other by exact Hne. apply Jp.
    + intros j. rewrite in_drop. destruct (Nat.eq_dec j i) as [->|Hne].
      * rewrite updf_same. cbn. intuition discriminate.
      * rewrite updf_other by exact Hne. rewrite <- JR. tauto.
    + intros j. destruct (Nat.eq_dec j i) as [->|Hne].
      * rewrite updf_same. rewrite JW, Ep. cbn. tauto.
      * rewrite updf_other by exact Hne. apply JW.
    + intros n j. destruct (Nat.eq_dec j i) as [->|Hne].
      * rewrite updf_same. rewrite JS, Ep. cbn. tauto.
      * rewrite updf_other by exact Hne. apply JS.
    + intros Hc. rewrite (JRW Hc). reflexivity.
  - (* release clearMu (write) *)
    inversion E; subst s'; clear E.
    assert (Wi : clearW s = Some i) by (apply JW; rewrite Ep; reflexivity).
    constructor; cbn.
    + intros j. destruct (Nat.eq_dec j i) as [->|Hne].
      * rewrite updf_same, Hn. cbn. cbn in Pi. destruct Pi as (t0 & Et & P1). inversion Et; subst t0.
        intros t1 Et1. inversion Et1; subst t1. rewrite P1. cbn. auto.
      * rewrite updf_other by exact Hne. apply Jp.
    + intros j. destruct (Nat.eq_dec j i) as [->|Hne].
      * rewrite updf_same. rewrite JR, Ep. cbn. tauto.
      * rewrite updf_other by exact Hne. apply JR.
    + intros j. destruct (Nat.eq_dec j i) as [->|Hne].
      * rewrite updf_same. cbn. intuition discriminate.
      * rewrite updf_other by exact Hne. rewrite <- JW, Wi. intuition congruence.
    + intros n j. destruct (Nat.eq_dec j i) as [->|Hne].
      * rewrite updf_same. rewrite JS, Ep. cbn. tauto.
      * rewrite updf_other by exact Hne. apply JS.
    + intros Hc; congruence.
Qed.

(* IndexLts steps of a thread *)
Lemma linv_thread s i t o s' :
  LInv s -> nth_error (threads (base s)) i = Some t -> thread_step s i t o = Some s' -> LInv s'.
Proof.
  intros J Hn E. pose proof (L_ph s J i) as Pi. rewrite Hn in Pi.
  unfold thread_step in E.
  destruct (tstep (base s) t o) as [[b1 t1]|] eqn:Et;
    [|destruct (lph s i); try discriminate; destruct (needs_lock t); discriminate].
  assert (Hoth : forall p j, j <> i ->
            ph_ok (updf (lph s) i p j) (nth_error (threads (set_threads b1 (upd i t1 (threads (base s))))) j)).
  { intros p j Hne. rewrite updf_other by exact Hne. cbn [threads set_threads].
    rewrite nth_error_upd_other by exact Hne. apply (L_ph s J). }
  assert (Hsame : nth_error (threads (set_threads b1 (upd i t1 (threads (base s))))) i = Some t1).
  { cbn [threads set_threads]. eapply nth_error_upd_same; exact Hn. }
  destruct (lph s i) as [|k|k|k| | |] eqn:Ep; try discriminate.
  - (* no locks: Delete / Invalidate / Close *)
    destruct (needs_lock t) eqn:En; [discriminate|]. inversion E; subst s'; clear E.
    apply linv_same_locks; [exact J| | | |].
    + intros j. destruct (Nat.eq_dec j i) as [->|Hne]; [rewrite updf_same, Ep|rewrite updf_other by exact Hne]; reflexivity.
    + intros j. destruct (Nat.eq_dec j i) as [->|Hne]; [rewrite updf_same, Ep|rewrite updf_other by exact Hne]; reflexivity.
    + intros j. destruct (Nat.eq_dec j i) as [->|Hne]; [rewrite updf_same, Ep|rewrite updf_other by exact Hne]; reflexivity.
    + intros j. destruct (Nat.eq_dec j i) as [->|Hne]; [|apply Hoth; exact Hne].
      rewrite updf_same, Hsame. cbn. intros t2 E2. inversion E2; subst t2; clear E2.
      cbn in Pi. destruct (Pi t eq_refl) as [P1 P2].
      unfold needs_lock in En. unfold tstep in Et.
      destruct (t_pc t) as [| k id | k id | [|v r] | ]; try discriminate.
      * destruct (t_script t) as [|[k id|v|ks| |] r]; try discriminate; inversion Et; subst; cbn; auto.
      * inversion Et; subst; cbn; auto.
      * inversion Et; subst; cbn; auto.
  - (* inside a store *)
    inversion E; subst s'; clear E.
    apply linv_same_locks; [exact J| | | |].
    + intros j. destruct (Nat.eq_dec j i) as [->|Hne]; [rewrite updf_same, Ep|rewrite updf_other by exact Hne; reflexivity].
      destruct (idle_pc (t_pc t1)); reflexivity.
    + intros j. destruct (Nat.eq_dec j i) as [->|Hne]; [rewrite updf_same, Ep|rewrite updf_other by exact Hne; reflexivity].
      destruct (idle_pc (t_pc t1)); reflexivity.
    + intros j. destruct (Nat.eq_dec j i) as [->|Hne]; [rewrite updf_same, Ep|rewrite updf_other by exact Hne; reflexivity].
      destruct (idle_pc (t_pc t1)); reflexivity.
    + intros j. destruct (Nat.eq_dec j i) as [->|Hne]; [|apply Hoth; exact Hne].
      rewrite updf_same, Hsame. cbn in Pi. destruct Pi as (t0 & E0 & P). inversion E0; subst t0; clear E0.
      unfold tstep in Et. destruct P as [[P1 (id & r & P2)]|[[id P1]|[id P1]]]; rewrite P1 in Et.
      * rewrite P2 in Et. inversion Et; subst; cbn. exists (mkT (PStoreB k id) r). split; [reflexivity|].
        right; left. exists id; reflexivity.
      * destruct (closed (base s)).
        -- inversion Et; subst; cbn. eexists. split; [reflexivity|]. right; right. exists id; reflexivity.
        -- destruct o as [vs|]; inversion Et; subst; cbn; eexists; split; reflexivity.
      * inversion Et; subst; cbn. eexists; split; reflexivity.
  - (* inside a Clear *)
    inversion E; subst s'; clear E.
    apply linv_same_locks; [exact J| | | |].
    + intros j. destruct (Nat.eq_dec j i) as [->|Hne]; [rewrite updf_same, Ep|rewrite updf_other by exact Hne; reflexivity].
      destruct (idle_pc (t_pc t1)); reflexivity.
    + intros j. destruct (Nat.eq_dec j i) as [->|Hne]; [rewrite updf_same, Ep|rewrite updf_other by exact Hne; reflexivity].
      destruct (idle_pc (t_pc t1)); reflexivity.
    + intros j. destruct (Nat.eq_dec j i) as [->|Hne]; [rewrite updf_same, Ep|rewrite updf_other by exact Hne; reflexivity].
      destruct (idle_pc (t_pc t1)); reflexivity.
    + intros j. destruct (Nat.eq_dec j i) as [->|Hne]; [|apply Hoth; exact Hne].
      rewrite updf_same, Hsame. cbn in Pi. destruct Pi as (t0 & E0 & P). inversion E0; subst t0; clear E0.
      unfold tstep in Et. destruct P as [[P1 (r & P2)]|P1]; rewrite P1 in Et.
      * rewrite P2 in Et. inversion Et; subst; cbn. eexists. split; [reflexivity|]. right; reflexivity.
      * inversion Et; subst; cbn. eexists; split; reflexivity.
Qed.

(* environment steps do not touch the threads *)
Lemma env_step_threads b l b' :
  (forall i o, l <> LT i o) -> step b l = Some b' -> threads b' = threads b.
Proof.
  intros Hl Hs. destruct l as [i o|k|]; [exfalso; eapply Hl; reflexivity| |]; cbn in Hs.
  - destruct (resident k b); inversion Hs; subst. apply do_remove_threads.
  - unfold do_deliver in Hs. destruct (notes b) as [|[k id] r]; inversion Hs; subst; reflexivity.
Qed.

Lemma linv_env s l b' :
  LInv s -> (forall i o, l <> LT i o) -> step (base s) l = Some b' ->
  LInv (mkL b' (clearW s) (clearR s) (stripeOwner s) (lph s)).
Proof.
  intros J Hl Hs. apply linv_same_locks; try reflexivity; [exact J|].
  intros j. rewrite (env_step_threads _ _ _ Hl Hs). apply (L_ph s J).
Qed.

Lemma linv_step s l s' : LInv s -> lstep s l = Some s' -> LInv s'.
Proof.
  intros J Hs. destruct l as [i|[i o|k|]]; cbn [lstep] in Hs.
  - destruct (nth_error (threads (base s)) i) as [t|] eqn:Hn; [|discriminate]. eapply linv_lock; eassumption.
  - destruct (nth_error (threads (base s)) i) as [t|] eqn:Hn; [|discriminate]. eapply linv_thread; eassumption.
  - destruct (step (base s) (LEvict k)) as [b|] eqn:Eb; [|discriminate]. inversion Hs; subst s'.
    apply (linv_env s (LEvict k)); [exact J|discriminate|exact Eb].
  - destruct (step (base s) LDeliver) as [b|] eqn:Eb; [|discriminate]. inversion Hs; subst s'.
    apply (linv_env s LDeliver); [exact J|discriminate|exact Eb].
Qed.

Theorem linv_reachable scripts s : lreachable (linit scripts) s -> LInv s.
Proof.
  intros Hr. induction Hr as [|s l s' Hr IH Hs]; [apply linv_init|eapply linv_step; eassumption].
Qed.

(* 3. the locked system enforces hypothesis H *)
Theorem locked_enforces_H scripts s : lreachable (linit scripts) s -> IndexLts.H (base s).
Proof. intros Hr. apply linv_H. apply (linv_reachable scripts); exact Hr. Qed.

(* ... hence every reachable locked state projects to a state reachable THROUGH H-states *)
Theorem lreachable_reachableH scripts s : lreachable (linit scripts) s -> reachableH (init scripts) (base s).
Proof.
  intros Hr. induction Hr as [|s l s' Hr IH Hs]; [constructor|].
  destruct l as [i|b].
  - rewrite (lstep_lock_base _ _ _ Hs). exact IH.
  - eapply RH_step; [exact IH|apply lstep_base_step; exact Hs|].
    apply (locked_enforces_H scripts). eapply LR_step; [exact Hr|exact Hs].
Qed.

(* the executable form: a locked run projects to a run accepted by execH (the H-checking executor) *)
Lemma Hb_complete b : IndexLts.H b -> Hb b = true.
Proof.
  intros HH. unfold Hb. apply forallb_forall. intros i Hi. apply forallb_forall. intros j Hj.
  destruct (Nat.eqb_spec i j) as [->|Hne]; [reflexivity|]. cbn.
  apply in_seq in Hi. apply in_seq in Hj. unfold pc_at.
  destruct (nth_error (threads b) i) as [ti|] eqn:Ei; [|apply nth_error_None in Ei; lia].
  destruct (nth_error (threads b) j) as [tj|] eqn:Ej; [|apply nth_error_None in Ej; lia].
  rewrite (HH i j ti tj Hne Ei Ej). reflexivity.
Qed.

Theorem locked_refines_execH ls : forall s s',
  LInv s -> lexec s ls = Some s' -> execH (base s) (erase ls) = Some (base s').
Proof.
  induction ls as [|l r IH]; intros s s' J He; cbn in He.
  - inversion He; reflexivity.
  - destruct (lstep s l) as [s1|] eqn:Es; [|discriminate].
    pose proof (linv_step _ _ _ J Es) as J1. destruct l as [i|b].
    + cbn [erase flat_map app]. rewrite <- (lstep_lock_base _ _ _ Es). apply IH; assumption.
    + change (execH (base s) (b :: erase r) = Some (base s')).
      cbn [execH]. rewrite (lstep_base_step _ _ _ Es). rewrite (Hb_complete _ (linv_H _ J1)). apply IH; assumption.
Qed.

(* ------------------------------------------------------------------ *)
(* 4. the theorems of IndexLtsProofs, WITHOUT hypothesis H *)

(* no thread is mid-operation, in either protocol, and the notification queue is drained *)
Definition lquiescent (s : lstate) : Prop :=
  quiescent (base s) /\ forall i, (i < length (threads (base s)))%nat -> lph s i = LIdle.

Theorem invariant_locked scripts s :
  wf_scripts scripts -> lreachable (linit scripts) s -> closed (base s) = false ->
  forall k,
    (forall id, get k (cache (base s)) = Some id -> get k (idx (base s)) = Some id \/ inflight_key k (base s)) /\
    (forall id, get k (idx (base s)) = Some id ->
       get k (cache (base s)) = Some id \/ In (k, id) (notes (base s)) \/ inflight k id (base s) \/ clearing (base s)).
Proof.
  intros Hwf Hr Hcl. apply (invariant scripts); [exact Hwf| |exact Hcl]. apply lreachable_reachableH; exact Hr.
Qed.

(* only the IndexLts part of quiescence is needed (lquiescent implies it) *)
Theorem quiescent_agreement_locked scripts s :
  wf_scripts scripts -> lreachable (linit scripts) s -> closed (base s) = false -> quiescent (base s) ->
  forall k, get k (idx (base s)) = get k (cache (base s)).
Proof.
  intros Hwf Hr Hcl Hq. apply (quiescent_agreement scripts); [exact Hwf| |exact Hcl|exact Hq].
  apply lreachable_reachableH; exact Hr.
Qed.

Corollary quiescent_agreement_lquiescent scripts s :
  wf_scripts scripts -> lreachable (linit scripts) s -> closed (base s) = false -> lquiescent s ->
  forall k, get k (idx (base s)) = get k (cache (base s)).
Proof. intros Hwf Hr Hcl [Hq _]. apply (quiescent_agreement_locked scripts); assumption. Qed.

Corollary quiescent_same_keys_locked scripts s :
  wf_scripts scripts -> lreachable (linit scripts) s -> closed (base s) = false -> quiescent (base s) ->
  forall k, resident k (base s) = match get k (idx (base s)) with Some _ => true | None => false end.
Proof.
  intros Hwf Hr Hcl Hq. apply (quiescent_same_keys scripts); [exact Hwf| |exact Hcl|exact Hq].
  apply lreachable_reachableH; exact Hr.
Qed.

Lemma in_erase b ls : In b (erase ls) <-> In (LBase b) ls.
Proof.
  unfold erase. rewrite in_flat_map. split.
  - intros ([i|b'] & Hin & Hb); cbn in Hb; [destruct Hb|]. destruct Hb as [->|[]]. exact Hin.
  - intros Hin. exists (LBase b). split; [exact Hin|left; reflexivity].
Qed.

(* draining the queue is a locked run too *)
Lemma deliver_n_lexec n : forall s,
  exists s', lexec s (repeat (LBase LDeliver) (Nat.min n (length (notes (base s))))) = Some s' /\
             base s' = deliver_n n (base s) /\
             clearW s' = clearW s /\ clearR s' = clearR s /\ stripeOwner s' = stripeOwner s /\ lph s' = lph s.
Proof.
  induction n as [|n IH]; intros s; cbn [deliver_n Nat.min repeat].
  - exists s. cbn. repeat split; reflexivity.
  - destruct (do_deliver (base s)) as [b|] eqn:Ed.
    + unfold do_deliver in Ed. destruct (notes (base s)) as [|[k id] r] eqn:En; [discriminate|].
      inversion Ed; subst b; clear Ed. cbn [length Nat.min repeat lexec lstep step].
      unfold do_deliver. rewrite En.
      set (s1 := mkL _ _ _ _ _). destruct (IH s1) as (s' & He & Hb & H1 & H2 & H3 & H4).
      exists s'. subst s1; cbn in *. repeat split; assumption.
    + unfold do_deliver in Ed. destruct (notes (base s)) as [|[k id] r] eqn:En; [|discriminate].
      cbn. exists s. repeat split; reflexivity.
Qed.

(* an Invalidate running alone (only evictions, deliveries and lock operations of ANY thread interleave) is
   complete, in the locked system, with no assumption on the schedule before it *)
Theorem invalidate_complete_locked scripts s0 i ks rest ls s1 :
  wf_scripts scripts -> lreachable (linit scripts) s0 -> closed (base s0) = false -> quiescent (base s0) ->
  nth_error (threads (base s0)) i = Some (mkT PIdle (OInvalidate ks :: rest)) ->
  (forall l, In l ls -> (exists j, l = LLock j) \/ l = LBase LDeliver \/ (exists k, l = LBase (LEvict k)) \/
                        (exists o, l = LBase (LT i o))) ->
  lexec s0 ls = Some s1 ->
  nth_error (threads (base s1)) i = Some (mkT PIdle rest) ->
  let sd := deliver_all (base s1) in
  (forall k, memZ k ks = true -> get k (cache (base s1)) = None) /\
  (forall k id, memZ k ks = false -> get k (cache (base s0)) = Some id -> ~ In (LBase (LEvict k)) ls ->
                get k (cache (base s1)) = Some id) /\
  (forall k id, get k (cache (base s1)) = Some id -> get k (cache (base s0)) = Some id) /\
  cache sd = cache (base s1) /\ quiescent sd /\
  (exists s', lreachable (linit scripts) s' /\ base s' = sd /\ clearW s' = clearW s1 /\ clearR s' = clearR s1 /\
              stripeOwner s' = stripeOwner s1 /\ lph s' = lph s1) /\
  (forall k, get k (idx sd) = get k (cache sd)) /\
  (notes (base s1) = [] -> forall k, get k (idx (base s1)) = get k (cache (base s1))).
Proof.
  intros Hwf Hr Hcl Hq Hn Hal He Hfin sd.
  pose proof (lreachable_reachableH _ _ Hr) as HrH.
  pose proof (locked_refines _ _ _ He) as Hex.
  assert (Hal' : forall l, In l (erase ls) -> l = LDeliver \/ (exists k, l = LEvict k) \/ (exists o, l = LT i o)).
  { intros l Hl. apply in_erase in Hl. destruct (Hal _ Hl) as [(j & Hj)|[Hd|[(k & Hk)|(o & Ho)]]].
    - discriminate.
    - inversion Hd; auto.
    - inversion Hk; eauto.
    - inversion Ho; eauto. }
  destruct (invalidate_complete scripts (base s0) i ks rest (erase ls) (base s1) Hwf HrH Hcl Hq Hn Hal' Hex Hfin)
    as (C1 & C2 & C3 & C4 & C5 & C6 & C7 & C8).
  fold sd in C4, C5, C6, C7.
  split; [exact C1|]. split.
  { intros k id Hk Hg Hne. apply (C2 k id Hk Hg). intros Hin. apply Hne. apply in_erase. exact Hin. }
  split; [exact C3|]. split; [exact C4|]. split; [exact C5|]. split.
  { destruct (deliver_n_lexec (length (notes (base s1))) s1) as (s' & He' & Hb & H1 & H2 & H3 & H4).
    exists s'. split; [|repeat split; assumption].
    eapply lexec_lreachable; [|exact He']. eapply lexec_lreachable; [exact Hr|exact He]. }
  split; [exact C7|exact C8].
Qed.

(* ------------------------------------------------------------------ *)
(* 6a. non-vacuity, for EVERY stripe function: no locked run — whatever lock steps are inserted, wherever — projects
   to the F5 schedule  A r1; A r2; B r2; evict; deliver; B r1   (nor to the store-over-Clear schedule) *)

Definition f5_scripts : list (list op) := [[OStore 7 1]; [OStore 7 2]].
Definition f5_schedule : list label :=
  [LT 0%nat acc; LT 1%nat acc; LT 1%nat acc; LEvict 7; LDeliver; LT 0%nat acc].

Theorem f5_not_executable ls :
  erase ls = f5_schedule -> lexec (linit f5_scripts) ls = None.
Proof.
  intros He. destruct (lexec (linit f5_scripts) ls) as [s'|] eqn:E; [|reflexivity]. exfalso.
  apply (locked_refines_execH ls _ _ (linv_init f5_scripts)) in E. rewrite He in E.
  vm_compute in E. discriminate.
Qed.

(* more generally: the F5 schedule is executable in IndexLts, so it is the locks that exclude it *)
Example f5_executable_unlocked :
  exec (init f5_scripts) f5_schedule = Some (mkS [] [(7, 1)] [] false [mkT PIdle []; mkT PIdle []]).
Proof. vm_compute. reflexivity. Qed.

Definition f5clear_scripts : list (list op) := [[OStore 7 1]; [OClear]].
Definition f5clear_schedule : list label := [LT 0%nat acc; LT 1%nat acc; LT 1%nat acc; LT 0%nat acc].

Theorem f5clear_not_executable ls :
  erase ls = f5clear_schedule -> lexec (linit f5clear_scripts) ls = None.
Proof.
  intros He. destruct (lexec (linit f5clear_scripts) ls) as [s'|] eqn:E; [|reflexivity]. exfalso.
  apply (locked_refines_execH ls _ _ (linv_init f5clear_scripts)) in E. rewrite He in E.
  vm_compute in E. discriminate.
Qed.

(* ------------------------------------------------------------------ *)
(* 5. locks are released at quiescence; the lock order is deadlock free *)

Definition lock_free (s : lstate) : Prop :=
  clearW s = None /\ clearR s = [] /\ forall n, stripeOwner s n = None.

Definition holds_lock (s : lstate) (i : tid) : Prop :=
  clearW s = Some i \/ In i (clearR s) \/ exists n, stripeOwner s n = Some i.

Lemma linv_phase_thread s i :
  LInv s -> lph s i <> LIdle -> exists t, nth_error (threads (base s)) i = Some t.
Proof.
  intros J Hp. pose proof (L_ph s J i) as P. destruct (lph s i); cbn in P; [contradiction| | | | | |];
    destruct P as (t & Et & _); exists t; exact Et.
Qed.

Lemma linv_idle_lock_free s : LInv s -> (forall i, lph s i = LIdle) -> lock_free s.
Proof.
  intros J Hall. split; [|split].
  - destruct (clearW s) as [w|] eqn:Ew; [|reflexivity]. apply (L_W s J) in Ew. rewrite Hall in Ew. discriminate.
  - destruct (clearR s) as [|i r] eqn:Er; [reflexivity|].
    assert (Hin : In i (clearR s)) by (rewrite Er; left; reflexivity). apply (L_R s J) in Hin. rewrite Hall in Hin. discriminate.
  - intros n. destruct (stripeOwner s n) as [i|] eqn:Eo; [|reflexivity]. apply (L_S s J) in Eo. rewrite Hall in Eo. discriminate.
Qed.

(* who holds what, in every reachable state: exactly the threads inside the corresponding critical section *)
Theorem lock_holders scripts s :
  lreachable (linit scripts) s ->
  (forall i, clearW s = Some i <-> lph s i = LHoldW \/ lph s i = LDoneW) /\
  (forall i, In i (clearR s) <-> (exists k, lph s i = LWaitS k \/ lph s i = LHold k \/ lph s i = LDone k) \/ lph s i = LRelR) /\
  (forall n i, stripeOwner s n = Some i <-> exists k, stripe k = n /\ (lph s i = LHold k \/ lph s i = LDone k)) /\
  (clearW s <> None -> clearR s = []) /\
  (* a thread waiting for a stripe holds clearMu in read mode and nothing else *)
  (forall i k, lph s i = LWaitS k -> In i (clearR s) /\ clearW s <> Some i /\ forall n, stripeOwner s n <> Some i).
Proof.
  intros Hr. destruct (linv_reachable _ _ Hr) as [Jp JR JW JS JRW]. split; [|split; [|split; [|split]]].
  - intros i. rewrite JW. destruct (lph s i); cbn; intuition discriminate.
  - intros i. rewrite JR. destruct (lph s i); cbn; split; try discriminate; eauto 6.
    + intros [(k & [Hx|[Hx|Hx]])|Hx]; discriminate.
    + intros [(k & [Hx|[Hx|Hx]])|Hx]; discriminate.
    + intros [(k & [Hx|[Hx|Hx]])|Hx]; discriminate.
  - intros n i. rewrite JS. destruct (lph s i); cbn; split; try discriminate.
    + intros (k & _ & [Hx|Hx]); discriminate.
    + intros (k0 & _ & [Hx|Hx]); discriminate.
    + intros Hx; inversion Hx; eauto.
    + intros (k0 & <- & [Hx|Hx]); inversion Hx; reflexivity.
    + intros Hx; inversion Hx; eauto.
    + intros (k0 & <- & [Hx|Hx]); inversion Hx; reflexivity.
    + intros (k & _ & [Hx|Hx]); discriminate.
    + intros (k & _ & [Hx|Hx]); discriminate.
    + intros (k & _ & [Hx|Hx]); discriminate.
  - exact JRW.
  - intros i k Ep. split; [apply JR; rewrite Ep; reflexivity|]. split.
    + intros Hw. apply JW in Hw. rewrite Ep in Hw. discriminate.
    + intros n Ho. apply JS in Ho. rewrite Ep in Ho. discriminate.
Qed.

Theorem locks_released scripts s :
  lreachable (linit scripts) s -> lquiescent s -> lock_free s.
Proof.
  intros Hr [_ Hq]. pose proof (linv_reachable _ _ Hr) as J. apply linv_idle_lock_free; [exact J|].
  intros i. destruct (lph s i) eqn:Ep; try reflexivity;
    (assert (Hne : lph s i <> LIdle) by (rewrite Ep; discriminate);
     destruct (linv_phase_thread s i J Hne) as (t & Et);
     assert (Hlt : (i < length (threads (base s)))%nat) by (apply nth_error_Some; rewrite Et; discriminate);
     rewrite (Hq i Hlt) in Ep; discriminate).
Qed.

(* thread i can take a step (its next lock operation, or its next IndexLts step whatever the outcome o) *)
Definition enabled (s : lstate) (i : tid) : Prop :=
  lstep s (LLock i) <> None \/ forall o, lstep s (LBase (LT i o)) <> None.

Definition unfinished (s : lstate) (i : tid) : Prop :=
  exists t, nth_error (threads (base s)) i = Some t /\ (t_pc t <> PIdle \/ t_script t <> []).

(* a thread inside a critical section, or releasing, is never blocked *)
Lemma enabled_inside s i :
  LInv s -> (exists k, lph s i = LHold k \/ lph s i = LDone k) \/ lph s i = LRelR \/ lph s i = LHoldW \/ lph s i = LDoneW ->
  enabled s i.
Proof.
  intros J Hp. pose proof (L_ph s J i) as P. unfold enabled. cbn [lstep].
  destruct Hp as [(k & [Ep|Ep])|[Ep|[Ep|Ep]]]; rewrite Ep in P; cbn in P.
  - destruct P as (t & Et & P). rewrite Et. right. intros o. unfold thread_step. rewrite Ep. unfold tstep.
    destruct P as [[P1 (id & r & P2)]|[[id P1]|[id P1]]]; rewrite P1.
    + rewrite P2. discriminate.
    + destruct (closed (base s)); [discriminate|]. destruct o; discriminate.
    + discriminate.
  - destruct P as (t & Et & P). rewrite Et. left. unfold lock_step. rewrite Ep. discriminate.
  - destruct P as (t & Et & P). rewrite Et. left. unfold lock_step. rewrite Ep. discriminate.
  - destruct P as (t & Et & P). rewrite Et. right. intros o. unfold thread_step. rewrite Ep. unfold tstep.
    destruct P as [[P1 (r & P2)]|P1]; rewrite P1; [rewrite P2|]; discriminate.
  - destruct P as (t & Et & P). rewrite Et. left. unfold lock_step. rewrite Ep. discriminate.
Qed.

(* (a) if some lock is held, some lock HOLDER can move *)
Theorem deadlock_free_holder scripts s :
  lreachable (linit scripts) s ->
  (exists i, holds_lock s i) -> exists j, holds_lock s j /\ enabled s j.
Proof.
  intros Hr (i & Hh). pose proof (linv_reachable _ _ Hr) as J. destruct J as [Jp JR JW JS JRW].
  assert (J : LInv s) by (constructor; assumption).
  assert (Hrd : clearW s = Some i \/ reader (lph s i) = true).
  { destruct Hh as [Hw|[Hin|(n & Ho)]]; [left; exact Hw|right; apply JR; exact Hin|].
    right. apply JS in Ho. destruct (lph s i); cbn in Ho; try discriminate; reflexivity. }
  destruct Hrd as [Hw|Hrd].
  - (* the Clear thread holds clearMu(W): it is never blocked *)
    exists i. split; [left; exact Hw|]. apply JW in Hw. apply enabled_inside; [exact J|].
    destruct (lph s i); cbn in Hw; try discriminate; auto.
  - assert (HR : In i (clearR s)) by (apply JR; exact Hrd).
    destruct (lph s i) as [|k|k|k| | |] eqn:Ep; cbn in Hrd; try discriminate.
    + (* waiting for a stripe: either it is free, or its owner can move *)
      destruct (stripeOwner s (stripe k)) as [j|] eqn:Eo.
      * exists j. split; [right; right; exists (stripe k); exact Eo|].
        apply JS in Eo. apply enabled_inside; [exact J|]. left.
        destruct (lph s j) as [|k0|k0|k0| | |]; cbn in Eo; try discriminate; exists k0; auto.
      * exists i. split; [right; left; exact HR|]. left. cbn [lstep].
        pose proof (Jp i) as P. rewrite Ep in P. cbn in P. destruct P as (t & Et & _). rewrite Et.
        unfold lock_step. rewrite Ep, Eo. discriminate.
    + exists i. split; [right; left; exact HR|]. apply enabled_inside; [exact J|]. left. exists k. left; exact Ep.
    + exists i. split; [right; left; exact HR|]. apply enabled_inside; [exact J|]. left. exists k. right; exact Ep.
    + exists i. split; [right; left; exact HR|]. apply enabled_inside; [exact J|]. right; left; exact Ep.
Qed.

(* (b) if no lock is held, EVERY unfinished thread can move *)
Theorem deadlock_free_no_lock scripts s :
  lreachable (linit scripts) s ->
  (forall i, ~ holds_lock s i) -> forall i, unfinished s i -> enabled s i.
Proof.
  intros Hr Hno i (t & Et & Hu). pose proof (linv_reachable _ _ Hr) as J. destruct J as [Jp JR JW JS JRW].
  assert (Ew : clearW s = None).
  { destruct (clearW s) as [w|] eqn:Ew; [|reflexivity]. exfalso. apply (Hno w). left; exact Ew. }
  assert (Er : clearR s = []).
  { destruct (clearR s) as [|j r] eqn:Er; [reflexivity|]. exfalso. apply (Hno j). right; left. rewrite Er. left; reflexivity. }
  assert (Ep : lph s i = LIdle).
  { destruct (lph s i) eqn:Ep; try reflexivity; exfalso; apply (Hno i).
    1-4: right; left; apply JR; rewrite Ep; reflexivity.
    1-2: left; apply JW; rewrite Ep; reflexivity. }
  pose proof (Jp i) as P. rewrite Ep, Et in P. cbn in P. destruct (P t eq_refl) as [P1 P2].
  unfold enabled. cbn [lstep]. rewrite Et. unfold lock_step, thread_step, needs_lock, tstep. rewrite Ep.
  destruct (t_pc t) as [| k id | k id | [|v r] | ]; try discriminate.
  - destruct (t_script t) as [|[k id|v|ks| |] r].
    + exfalso. destruct Hu as [Hu|Hu]; apply Hu; reflexivity.
    + left. rewrite Ew. discriminate.
    + right. intros o. discriminate.
    + right. intros o. discriminate.
    + left. rewrite Ew, Er. discriminate.
    + right. intros o. discriminate.
  - right. intros o. discriminate.
  - right. intros o. discriminate.
Qed.

(* hence: as long as some thread is not finished (in either protocol), some thread can move *)
Corollary progress scripts s :
  lreachable (linit scripts) s ->
  (exists i, unfinished s i \/ lph s i <> LIdle) -> exists j, enabled s j.
Proof.
  intros Hr (i & Hi). pose proof (linv_reachable _ _ Hr) as J.
  destruct (clearW s) as [w|] eqn:Ew.
  { destruct (deadlock_free_holder scripts s Hr) as (j & _ & Hj); [exists w; left; exact Ew|]. exists j; exact Hj. }
  destruct (clearR s) as [|r rs] eqn:Er.
  2:{ destruct (deadlock_free_holder scripts s Hr) as (j & _ & Hj); [|exists j; exact Hj].
      exists r. right; left. rewrite Er. left; reflexivity. }
  assert (Hidle : forall j, lph s j = LIdle).
  { intros j. destruct (lph s j) eqn:Ep; try reflexivity; exfalso.
    1-4: assert (Hin : In j (clearR s)) by (apply (L_R s J); rewrite Ep; reflexivity); rewrite Er in Hin; exact Hin.
    1-2: assert (Hw : clearW s = Some j) by (apply (L_W s J); rewrite Ep; reflexivity); congruence. }
  destruct Hi as [Hu|Hp]; [|exfalso; apply Hp; apply Hidle].
  exists i. apply (deadlock_free_no_lock scripts s Hr); [|exact Hu].
  intros j [Hw|[Hin|(n & Ho)]].
  - congruence.
  - rewrite Er in Hin. exact Hin.
  - apply (L_S s J) in Ho. rewrite Hidle in Ho. discriminate.
Qed.
End Locked.

(* ================================================================== *)
(* 6b. non-vacuity with the 64-stripe function of the Go code *)

Definition stripe64 (k : Z) : nat := Z.to_nat (k mod 64).

(* observation of a locked state (the lock fields contain functions): projection, clearMu writer and readers,
   the owned stripes among the 64, the lock phases of the threads *)
Definition owners (s : lstate) : list (nat * tid) :=
  flat_map (fun n => match stripeOwner s n with Some i => [(n, i)] | None => [] end) (seq 0 64).
Definition observe (s : lstate) :=
  (base s, clearW s, clearR s, owners s, map (lph s) (seq 0 (length (threads (base s))))).
Definition lrun (scripts : list (list op)) (ls : list llabel) :=
  option_map observe (lexec stripe64 (linit scripts) ls).

Definition TB (i : nat) : llabel := LBase (LT i acc).

(* the F5 schedule with the lock operations the Go code performs: store r1 takes clearMu(R) and stripe 7 and does A;
   store r2 takes clearMu(R) — and its stripe acquisition is BLOCKED, so A r2 cannot happen before B r1 *)
Example f5_blocked_at_stripe :
  let s0 := linit f5_scripts in
  let pre := [LLock 0; LLock 0; TB 0; LLock 1]%nat in
  lrun f5_scripts pre =
    Some (mkS [(7, 1)] [] [] false [mkT (PStoreB 7 1) []; mkT PIdle [OStore 7 2]],
          None, [1; 0]%nat, [(7, 0)]%nat, [LHold 7; LWaitS 7]) /\
  lexec stripe64 s0 (pre ++ [LLock 1%nat]) = None /\                          (* the stripe is owned by thread 0 *)
  lexec stripe64 s0 (pre ++ [TB 1]) = None /\                                 (* and step A is not enabled without it *)
  lexec stripe64 s0 (pre ++ [LLock 1%nat; TB 1; TB 1; LBase (LEvict 7); LBase LDeliver; TB 0]) = None /\
  lexec stripe64 s0 (map LBase f5_schedule) = None /\                         (* the bare schedule: no lock taken *)
  (forall ls, erase ls = f5_schedule -> lexec stripe64 s0 ls = None).         (* any placement of lock steps *)
Proof.
  cbv zeta. split; [vm_compute; reflexivity|]. split; [vm_compute; reflexivity|].
  split; [vm_compute; reflexivity|]. split; [vm_compute; reflexivity|]. split; [vm_compute; reflexivity|].
  apply f5_not_executable.
Qed.

(* a complete locked run: two stores of key 7 one after the other (the second waits for the stripe), a concurrent
   store of key 8 on another stripe, an eviction and its late notification (harmless: identity mismatch), a Clear
   that waits for the readers, and a store after the Clear *)
Definition ex_lscripts : list (list op) := [[OStore 7 1; OStore 9 4]; [OStore 7 2]; [OStore 8 3]; [OClear]].

Definition ex_l1 : list llabel :=      (* store(7,1): RLock, stripe 7, A;  store(8,3): RLock, stripe 8;  store(7,2): RLock *)
  [LLock 0; LLock 0; TB 0; LLock 2; LLock 2; LLock 1]%nat.
Definition ex_l2 : list llabel :=      (* A(8,3); B(7,1); evict 7; B(8,3); unlock stripe 7; store(7,2) gets it; ...; all released but thread 1's RLock *)
  [TB 2; TB 0; LBase (LEvict 7); TB 2; LLock 0; LLock 1; LLock 0; TB 1; LBase LDeliver; LLock 2; LLock 2; TB 1; LLock 1]%nat.
Definition ex_l3 : list llabel := [LLock 1]%nat.                    (* store(7,2): RUnlock *)
Definition ex_l4 : list llabel := [LLock 3]%nat.                    (* Clear: Lock *)
Definition ex_l5 : list llabel :=      (* Clear steps 1, 2, Unlock; store(9,4): RLock, stripe 9, A, B, Unlock, RUnlock *)
  [TB 3; TB 3; LLock 3; LLock 0; LLock 0; TB 0; TB 0; LLock 0; LLock 0]%nat.

Lemma ex_lwf : wf_scripts ex_lscripts.
Proof.
  unfold wf_scripts; cbn. repeat constructor; cbn; intuition discriminate.
Qed.

Example locked_run_midway :
  (* store(7,1) and store(8,3) overlap (different stripes), store(7,2) waits *)
  lrun ex_lscripts ex_l1 =
    Some (mkS [(7, 1)] [] [] false
              [mkT (PStoreB 7 1) [OStore 9 4]; mkT PIdle [OStore 7 2]; mkT PIdle [OStore 8 3]; mkT PIdle [OClear]],
          None, [1; 2; 0]%nat, [(7, 0); (8, 2)]%nat, [LHold 7; LWaitS 7; LHold 8; LIdle]) /\
  lrun ex_lscripts (ex_l1 ++ [LLock 1%nat]) = None /\               (* store(7,2): stripe 7 is owned *)
  lrun ex_lscripts (ex_l1 ++ [LLock 3%nat]) = None /\               (* Clear: readers present *)
  (* the three stores are done; thread 1 still holds clearMu(R): Clear is still blocked *)
  lrun ex_lscripts (ex_l1 ++ ex_l2) =
    Some (mkS [(7, 2); (8, 3)] [(7, 2); (8, 3)] [] false
              [mkT PIdle [OStore 9 4]; mkT PIdle []; mkT PIdle []; mkT PIdle [OClear]],
          None, [1]%nat, [], [LIdle; LRelR; LIdle; LIdle]) /\
  lrun ex_lscripts (ex_l1 ++ ex_l2 ++ [LLock 3%nat]) = None /\
  (* quiescent checkpoint: no lock held, index = cache *)
  lrun ex_lscripts (ex_l1 ++ ex_l2 ++ ex_l3) =
    Some (mkS [(7, 2); (8, 3)] [(7, 2); (8, 3)] [] false
              [mkT PIdle [OStore 9 4]; mkT PIdle []; mkT PIdle []; mkT PIdle [OClear]],
          None, [], [], [LIdle; LIdle; LIdle; LIdle]) /\
  (* Clear holds clearMu(W): the next store's RLock is blocked *)
  lrun ex_lscripts (ex_l1 ++ ex_l2 ++ ex_l3 ++ ex_l4) =
    Some (mkS [(7, 2); (8, 3)] [(7, 2); (8, 3)] [] false
              [mkT PIdle [OStore 9 4]; mkT PIdle []; mkT PIdle []; mkT PIdle [OClear]],
          Some 3%nat, [], [], [LIdle; LIdle; LIdle; LHoldW]) /\
  lrun ex_lscripts (ex_l1 ++ ex_l2 ++ ex_l3 ++ ex_l4 ++ [LLock 0%nat]) = None.
Proof. repeat split; vm_compute; reflexivity. Qed.

Definition ex_lrun : list llabel := ex_l1 ++ ex_l2 ++ ex_l3 ++ ex_l4 ++ ex_l5.

Example locked_run :
  lrun ex_lscripts ex_lrun =
    Some (mkS [(9, 4)] [(9, 4)] [] false [mkT PIdle []; mkT PIdle []; mkT PIdle []; mkT PIdle []],
          None, [], [], [LIdle; LIdle; LIdle; LIdle]).
Proof. vm_compute. reflexivity. Qed.

(* the hypotheses of the H-free theorems are met by this run, at the checkpoint and at the end *)
Example locked_run_hypotheses :
  wf_scripts ex_lscripts /\
  (exists s, lexec stripe64 (linit ex_lscripts) (ex_l1 ++ ex_l2 ++ ex_l3) = Some s /\
             lreachable stripe64 (linit ex_lscripts) s /\ closed (base s) = false /\ lquiescent s /\
             idx (base s) = cache (base s) /\ idx (base s) = [(7, 2); (8, 3)]) /\
  (exists s, lexec stripe64 (linit ex_lscripts) ex_lrun = Some s /\
             lreachable stripe64 (linit ex_lscripts) s /\ closed (base s) = false /\ lquiescent s /\
             idx (base s) = cache (base s) /\ idx (base s) = [(9, 4)]).
Proof.
  split; [exact ex_lwf|]. split.
  - destruct (lexec stripe64 (linit ex_lscripts) (ex_l1 ++ ex_l2 ++ ex_l3)) as [s|] eqn:E; [|vm_compute in E; discriminate].
    assert (Hr : lreachable stripe64 (linit ex_lscripts) s) by (eapply lexec_lreachable; [constructor|exact E]).
    vm_compute in E. injection E as <-.
    eexists. split; [reflexivity|]. split; [exact Hr|]. split; [reflexivity|]. split; [|split; reflexivity].
    split; [split; reflexivity|]. cbn. intros i Hi.
    destruct i as [|[|[|[|i]]]]; reflexivity.
  - destruct (lexec stripe64 (linit ex_lscripts) ex_lrun) as [s|] eqn:E; [|vm_compute in E; discriminate].
    assert (Hr : lreachable stripe64 (linit ex_lscripts) s) by (eapply lexec_lreachable; [constructor|exact E]).
    vm_compute in E. injection E as <-.
    eexists. split; [reflexivity|]. split; [exact Hr|]. split; [reflexivity|]. split; [|split; reflexivity].
    split; [split; reflexivity|]. cbn. intros i Hi.
    destruct i as [|[|[|[|i]]]]; reflexivity.
Qed.

(* locks_released needs quiescence of the LOCK protocol too: IndexLts-quiescence alone (all pcs idle, queue empty) is
   reached right after step B, when the store still holds both locks (its deferred unlocks have not run) *)
Example locks_released_base_quiescent_refuted :
  exists s, lreachable stripe64 (linit [[OStore 7 1]]) s /\ quiescent (base s) /\
            clearR s = [0%nat] /\ stripeOwner s 7%nat = Some 0%nat /\ lph s 0%nat = LDone 7 /\ ~ lock_free s.
Proof.
  destruct (lexec stripe64 (linit [[OStore 7 1]]) [LLock 0; LLock 0; TB 0; TB 0]%nat) as [s|] eqn:E;
    [|vm_compute in E; discriminate].
  assert (Hr : lreachable stripe64 (linit [[OStore 7 1]]) s) by (eapply lexec_lreachable; [constructor|exact E]).
  vm_compute in E. injection E as <-.
  eexists. split; [exact Hr|]. split; [split; reflexivity|]. split; [reflexivity|]. split; [reflexivity|].
  split; [reflexivity|]. intros (_ & Hx & _). discriminate.
Qed.
