(* CallbackProofs.v — invariants and theorems B1..B8 for the expiry-callback transition system of CallbackLts.v. *)
From KV Require Import Base CallbackLts.
Open Scope Z_scope.

Lemma upd_eq {A} (f : nat -> A) k v : upd f k v k = v.
Proof. unfold upd. now rewrite Nat.eqb_refl. Qed.
Lemma upd_neq {A} (f : nat -> A) k v x : x <> k -> upd f k v x = f x.
Proof. unfold upd. intros H. destruct (Nat.eqb_spec x k); [contradiction|reflexivity]. Qed.
Lemma In_rem x n l : In x (rem n l) <-> In x l /\ x <> n.
Proof. unfold rem. rewrite filter_In. destruct (Nat.eqb_spec x n); cbn; intuition congruence. Qed.

(* ------------------------------------------------------------------ *)
(** * Classification of program counters                                 *)
(* ------------------------------------------------------------------ *)
Definition holds_d (p : pc) : bool :=
  match p with
  | MCheck2 _ | MUnlockDErr | MLockS _ | MApply _ | MUnlockS _ _ _ | MUnlockD _ _ _
  | WkHold _ | WkLockS _ | WkApply _ _ => true
  | _ => false
  end.
Definition holds_sw (p : pc) : bool :=
  match p with
  | MApply _ | MUnlockS _ _ _ | EApply _ | EUnlock | XApply _ _ | XUnlock | KClear | KUnlockS | WkApply _ _ => true
  | _ => false
  end.
Definition holds_sr (p : pc) : bool :=
  match p with TValidate _ _ | TRUnlock _ _ _ => true | _ => false end.
(* a syncMutate caller that passed the isClosed check under drainMu and has not yet applied its mutation *)
Definition precommit (p : pc) : bool :=
  match p with MLockS _ | MApply _ => true | _ => false end.
Definition is_wk (p : pc) : bool :=
  match p with WkIdle | WkLockD _ | WkHold _ | WkLockS _ | WkApply _ _ | WkExited => true | _ => false end.
(* the worker has taken the closeCh branch *)
Definition wk_final (p : pc) : bool :=
  match p with WkLockD true | WkHold true | WkLockS true | WkApply true _ | WkExited => true | _ => false end.
Definition k_closed (p : pc) : bool :=
  match p with KCloseCh | KWait | KLockS | KClear | KUnlockS => true | _ => false end.
Definition k_waited (p : pc) : bool :=
  match p with KLockS | KClear | KUnlockS => true | _ => false end.
Definition k_running (p : pc) : bool :=
  match p with KSetClosed | KCloseCh | KWait | KLockS | KClear | KUnlockS => true | _ => false end.
Definition timer_task (p : pc) : option task :=
  match p with
  | TStart tk _ | TSelect tk _ | TRLock tk _ | TValidate tk _ | TRUnlock tk _ _ | TCall tk _ _
  | TFired tk | TQuiet tk => Some tk
  | _ => None
  end.
Definition post_sel (p : pc) : option (task * tg) :=
  match p with
  | TRLock tk g | TValidate tk g | TRUnlock tk g _ | TCall tk g _ => Some (tk, g)
  | _ => None
  end.
(* the validation succeeded: the entry seen was written by w *)
Definition validated (p : pc) : option (task * tg * tid) :=
  match p with TRUnlock tk g (Some w) | TCall tk g w => Some (tk, g, w) | _ => None end.
Definition m_op (p : pc) : option (mop * bool) :=
  match p with
  | MStart op pe => Some (op, pe)
  | MLockD op | MCheck2 op | MLockS op | MApply op => Some (op, false)
  | _ => None
  end.
Definition m_tk (p : pc) : option (bool * Z * task) :=
  match p with
  | MUnlockS c dl (Some tk) | MUnlockD c dl (Some tk) | MSched c dl tk => Some (c, dl, tk)
  | _ => None
  end.
Definition ev_owner (e : event) : tid := match e with ECb tk _ _ _ => tk_owner tk end.

(* ------------------------------------------------------------------ *)
(** * The invariant                                                      *)
(* ------------------------------------------------------------------ *)
Section InvDef.
  Variable s : state.

  (* the call of thread c is a SetWithCallback matching task tk, whose TTL resolves to a positive duration *)
  Definition own_call (tk : task) : Prop :=
    exists ttl accept, calls s (tk_owner tk) = Some (CSet (tk_key tk) (tk_val tk) ttl (Some (tk_cb tk)) accept false) /\
                      0 < resolve_ttl (cfg_ttl s) ttl.
  Definition logged (w : tid) (k : key) (dl : Z) : Prop := exists v, In (w, k, v, dl) (wlog s).
  Definition tab_empty : Prop := forall k, tab s k = None.

  Record Inv : Prop := {
    b_idle : forall t, (nthr s <= t)%nat -> thr s t = Idle;
    b_wk0 : is_wk (thr s 0%nat) = true;
    (* locks *)
    l_d1 : forall t, holds_d (thr s t) = true -> dmu s = Some t;
    l_d2 : forall t, dmu s = Some t -> holds_d (thr s t) = true;
    l_sw1 : forall t, holds_sw (thr s t) = true -> rw_w (smu s) = Some t;
    l_sw2 : forall t, rw_w (smu s) = Some t -> holds_sw (thr s t) = true;
    l_sr1 : forall t, holds_sr (thr s t) = true -> In t (rw_r (smu s));
    l_sr2 : forall t, In t (rw_r (smu s)) -> holds_sr (thr s t) = true;
    l_mutex : rw_w (smu s) <> None -> rw_r (smu s) = [];
    (* shutdown *)
    k_ch : closeCh s = true -> closed s = true;
    k_thr : forall t, k_closed (thr s t) = true -> closed s = true;
    k_fin : wk_final (thr s 0%nat) = true -> closeCh s = true;
    k_pre : forall t, precommit (thr s t) = true -> thr s 0%nat <> WkExited;
    k_wait : forall t, k_waited (thr s t) = true -> thr s 0%nat = WkExited;
    k_done : once s = ODone -> thr s 0%nat = WkExited /\ tab_empty;
    k_unl : forall t, thr s t = KUnlockS -> tab_empty;
    k_at1 : forall tau, close_at s = Some tau -> once s = ODone /\ tau <= now s;
    k_at2 : once s = ODone -> close_at s <> None;
    (* calls, tasks, timers *)
    t_mop : forall t op pe, m_op (thr s t) = Some (op, pe) ->
              match op with
              | OSet k v exp cb accept => exists ttl, calls s t = Some (CSet k v ttl cb accept pe) /\
                                                     exp = resolve_ttl (cfg_ttl s) ttl
              | ODel k => calls s t = Some (CDelete k)
              end;
    t_mtk : forall t c dl tk, m_tk (thr s t) = Some (c, dl, tk) ->
              tk_owner tk = t /\ c = true /\ tk_dl tk = dl /\ 0 < dl /\
              In (t, tk_key tk, tk_val tk, dl) (wlog s) /\ own_call tk;
    t_own : forall t tk, timer_task (thr s t) = Some tk ->
              thr s (tk_owner tk) = MDone ROk true (tk_dl tk) true /\ 0 < tk_dl tk /\
              In (tk_owner tk, tk_key tk, tk_val tk, tk_dl tk) (wlog s) /\ own_call tk;
    t_uniq : forall t1 t2 tk1 tk2, timer_task (thr s t1) = Some tk1 -> timer_task (thr s t2) = Some tk2 ->
              tk_owner tk1 = tk_owner tk2 -> t1 = t2;
    t_sched : forall t r c dl, thr s t = MDone r c dl true -> r = ROk /\ c = true /\ 0 < dl;
    (* ghost of a timer past its select *)
    g_sel1 : forall t tk g, post_sel (thr s t) = Some (tk, g) ->
              g_fire g <= g_sel g /\ g_sel g <= now s /\ (g_sac g = true -> once s = ODone) /\
              (g_sac g = false -> forall tau, close_at s = Some tau -> g_sel g <= tau);
    g_val : forall t tk g w, validated (thr s t) = Some (tk, g, w) ->
              g_sac g = false /\ tk_dl tk < now s /\ logged w (tk_key tk) (tk_dl tk);
    tab_log : forall k e, tab s k = Some e -> In (e_writer e, k, e_val e, e_dl e) (wlog s);
    (* events *)
    e_thr : forall tk g w a, In (ECb tk g w a) (events s) -> exists t, thr s t = TFired tk;
    e_nodup : NoDup (map ev_owner (events s));
    e_facts : forall tk g w a, In (ECb tk g w a) (events s) ->
              g_sac g = false /\ tk_dl tk < a /\ a <= now s /\ logged w (tk_key tk) (tk_dl tk) /\
              g_fire g <= g_sel g /\ g_sel g <= a /\ (forall tau, close_at s = Some tau -> g_sel g <= tau)
  }.
End InvDef.

(* ------------------------------------------------------------------ *)
(** * Tactics                                                            *)
(* ------------------------------------------------------------------ *)
Ltac simp_state :=
  cbn [now cfg_ttl tab closed closeCh once close_at smu dmu thr nthr calls wlog events
       set_now set_tab set_closed set_closeCh set_once set_close_at set_smu set_dmu set_thr add_thr log_write emit
       goto lock_w unlock_w apply_set rw_w rw_r] in *.

Lemma smu_free_true s : smu_free s = true -> rw_w (smu s) = None /\ rw_r (smu s) = [].
Proof. unfold smu_free. destruct (rw_w (smu s)); [discriminate|]. destruct (rw_r (smu s)); [auto|discriminate]. Qed.

Ltac inv_thread H :=
  match type of H with step_thread ?s ?t ?ch ?p = Some _ => destruct p eqn:Epc end;
  cbn [step_thread] in H;
  repeat match type of H with
    | context [match ?x with _ => _ end] => destruct x eqn:?
    end; try discriminate H; injection H as <-.

Ltac split_eqb :=
  repeat match goal with
  | |- context [Nat.eqb ?a ?b] => destruct (Nat.eqb_spec a b); subst
  | H : context [Nat.eqb ?a ?b] |- _ => destruct (Nat.eqb_spec a b); subst
  end.
Ltac injs :=
  repeat match goal with
  | H : Some _ = Some _ |- _ => injection H; clear H; intros; subst
  | H : (_, _) = (_, _) |- _ => injection H; clear H; intros; subst
  | H : Some _ = None |- _ => discriminate H
  | H : None = Some _ |- _ => discriminate H
  end.
Create HintDb cinv.
#[export] Hint Extern 2 (_ < _) => lia : cinv.
#[export] Hint Extern 2 (_ <= _) => lia : cinv.
#[export] Hint Extern 2 (_ <> _) => congruence : cinv.
#[export] Hint Extern 2 (_ = _) => congruence : cinv.
#[export] Hint Extern 2 (_ < _)%nat => lia : cinv.
#[export] Hint Extern 2 (_ <= _)%nat => lia : cinv.
#[export] Hint Resolve in_eq in_cons : cinv.
Ltac fin := try solve [eauto with cinv | congruence | lia | intuition (eauto with cinv; (congruence || lia))].

Ltac spec0 F := first [specialize (F eq_refl) | clear F].
Ltac spec2 F := first [specialize (F _ _ eq_refl) | clear F].
Ltac spec3 F := first [specialize (F _ _ _ eq_refl) | clear F].
Ltac facts I t :=
  let s := match type of I with Inv ?s => s end in
  pose proof (l_d1 s I t) as Fd; pose proof (l_sw1 s I t) as Fsw; pose proof (l_sr1 s I t) as Fsr;
  pose proof (k_thr s I t) as Fkc; pose proof (k_wait s I t) as Fkw; pose proof (k_pre s I t) as Fpre;
  pose proof (t_mop s I t) as Fop; pose proof (t_mtk s I t) as Ftk; pose proof (t_own s I t) as Fown;
  pose proof (g_sel1 s I t) as Fg; pose proof (g_val s I t) as Fv;
  match goal with E : thr s t = _ |- _ => rewrite E in Fd, Fsw, Fsr, Fkc, Fkw, Fpre, Fop, Ftk, Fown, Fg, Fv end;
  cbn [holds_d holds_sw holds_sr k_closed k_waited precommit m_op m_tk timer_task post_sel validated]
    in Fd, Fsw, Fsr, Fkc, Fkw, Fpre, Fop, Ftk, Fown, Fg, Fv;
  spec0 Fd; spec0 Fsw; spec0 Fsr; spec0 Fkc; spec0 Fkw; spec0 Fpre;
  spec2 Fop; spec3 Ftk; first [specialize (Fown _ eq_refl) | clear Fown]; spec2 Fg; spec3 Fv.

Ltac unf := unfold own_call, logged, tab_empty in *.
Ltac pre I H t :=
  let s := match type of I with Inv ?s => s end in
  pose proof (b_idle s I (nthr s) (le_n _)) as Fidle;
  revert H; intros H; inv_thread H;
  try match goal with E : smu_free _ = true |- _ => apply smu_free_true in E; destruct E as [Efw Efr] end;
  simp_state; facts I t.
Ltac norm := unf; simp_state; unfold upd in *.

Lemma thr_lt s t : Inv s -> thr s t <> Idle -> (t < nthr s)%nat.
Proof.
  intros I N. destruct (Nat.lt_ge_cases t (nthr s)) as [L|L]; [exact L|]. elim N. apply (b_idle s I t L).
Qed.

Lemma nthr_pos s : Inv s -> (0 < nthr s)%nat.
Proof.
  intros I. apply (thr_lt s 0%nat I). pose proof (b_wk0 s I) as M. intros E. rewrite E in M. discriminate.
Qed.

Section Pres.
  Variables (s s' : state) (t : tid) (ch : nat).
  Hypothesis I : Inv s.
  Hypothesis H : step_thread s t ch (thr s t) = Some s'.

  Lemma p_idle : forall t0, (nthr s' <= t0)%nat -> thr s' t0 = Idle.
  Proof.
    pre I H t; intros xt L; pose proof (b_idle s I xt) as M;
      assert (M' : (t < nthr s)%nat) by (apply (thr_lt s t I); congruence); norm;
      split_eqb; simp_state; fin.
  Qed.

  Lemma p_wk0 : is_wk (thr s' 0%nat) = true.
  Proof.
    pose proof (b_wk0 s I) as M. pose proof (nthr_pos s I) as N0. pre I H t; norm; split_eqb; simp_state; fin; try rewrite Epc in M; try rewrite Fidle in M;
      try discriminate M; try reflexivity.
  Qed.

  Lemma p_d1 : forall t0, holds_d (thr s' t0) = true -> dmu s' = Some t0.
  Proof.
    pre I H t; intros xt O; pose proof (l_d1 s I xt) as M; norm; split_eqb; simp_state; cbn [holds_d] in *;
      try discriminate O; fin.
  Qed.


  Lemma p_d2 : forall t0, dmu s' = Some t0 -> holds_d (thr s' t0) = true.
  Proof.
    pre I H t; intros xt O; pose proof (l_d2 s I xt) as M; norm; split_eqb; simp_state; try rewrite Epc in M; try rewrite Fidle in M; cbn [holds_d] in *;
      try discriminate O; injs; fin.
  Qed.

  Lemma p_sw1 : forall t0, holds_sw (thr s' t0) = true -> rw_w (smu s') = Some t0.
  Proof.
    pre I H t; intros xt O; pose proof (l_sw1 s I xt) as M; norm; split_eqb; simp_state; cbn [holds_sw] in *;
      try discriminate O; fin.
  Qed.

  Lemma p_sw2 : forall t0, rw_w (smu s') = Some t0 -> holds_sw (thr s' t0) = true.
  Proof.
    pre I H t; intros xt O; pose proof (l_sw2 s I xt) as M; norm; split_eqb; simp_state; try rewrite Epc in M; try rewrite Fidle in M; cbn [holds_sw] in *;
      try discriminate O; injs; fin.
  Qed.

  Lemma p_sr1 : forall t0, holds_sr (thr s' t0) = true -> In t0 (rw_r (smu s')).
  Proof.
    pre I H t; intros xt O; pose proof (l_sr1 s I xt) as M; norm; rewrite ?In_rem; split_eqb; simp_state;
      try rewrite Efr in *;
      cbn [holds_sr In] in *; try discriminate O; fin.
  Qed.

  Lemma p_sr2 : forall t0, In t0 (rw_r (smu s')) -> holds_sr (thr s' t0) = true.
  Proof.
    pre I H t; intros xt O; pose proof (l_sr2 s I xt) as M; norm; rewrite ?In_rem in *; split_eqb; simp_state;
      try rewrite Efr in *; try rewrite Epc in M; try rewrite Fidle in M;
      cbn [holds_sr In] in *; fin.
  Qed.

  Lemma p_mutex : rw_w (smu s') <> None -> rw_r (smu s') = [].
  Proof.
    pre I H t; intros O; pose proof (l_mutex s I) as M; norm; simp_state; fin;
      try (rewrite M by fin; reflexivity).
  Qed.
End Pres.


Lemma precommit_holds_d p : precommit p = true -> holds_d p = true.
Proof. destruct p; cbn; congruence. Qed.

Section Pres.
  Variables (s s' : state) (t : tid) (ch : nat).
  Hypothesis I : Inv s.
  Hypothesis H : step_thread s t ch (thr s t) = Some s'.

  Lemma p_kch : closeCh s' = true -> closed s' = true.
  Proof. pre I H t; intros O; pose proof (k_ch s I) as M; norm; fin. Qed.

  Lemma p_kthr : forall t0, k_closed (thr s' t0) = true -> closed s' = true.
  Proof.
    pre I H t; intros xt O; pose proof (k_thr s I xt) as M; norm; split_eqb; simp_state; cbn [k_closed] in *;
      try discriminate O; fin.
  Qed.

  Lemma p_kfin : wk_final (thr s' 0%nat) = true -> closeCh s' = true.
  Proof.
    pose proof (nthr_pos s I) as N0.
    pre I H t; intros O; pose proof (k_fin s I) as M; norm; split_eqb; simp_state; try rewrite Epc in M;
      cbn [wk_final] in *; try discriminate O; fin.
  Qed.

  Lemma p_kpre : forall t0, precommit (thr s' t0) = true -> thr s' 0%nat <> WkExited.
  Proof.
    pose proof (nthr_pos s I) as N0.
    pre I H t; intros xt O; pose proof (k_pre s I xt) as M; pose proof (k_fin s I) as M1; pose proof (k_ch s I) as M2;
      norm; split_eqb; simp_state; cbn [precommit] in *; try discriminate O;
      try (pose proof (l_d1 s I xt (precommit_holds_d _ O)) as D);
      try (intros E; rewrite E in M1; cbn [wk_final] in M1); try destruct fin; fin.
  Qed.

  Lemma p_kwait : forall t0, k_waited (thr s' t0) = true -> thr s' 0%nat = WkExited.
  Proof.
    pose proof (nthr_pos s I) as N0.
    pre I H t; intros xt O; pose proof (k_wait s I xt) as M; norm; split_eqb; simp_state; cbn [k_waited] in *;
      try discriminate O; fin.
  Qed.

  Lemma p_kdone : once s' = ODone -> thr s' 0%nat = WkExited /\ tab_empty s'.
  Proof.
    pose proof (nthr_pos s I) as N0.
    pre I H t; intros O; pose proof (k_done s I) as M; pose proof (k_unl s I t) as M1; norm; unfold expire_entry;
      try discriminate O; split_eqb; simp_state; fin.
    all: destruct (M O) as [Mw Mt]; split; [exact Mw|]; intros xk; rewrite ?Mt; split_eqb; auto.
  Qed.

  Lemma p_kunl : forall t0, thr s' t0 = KUnlockS -> tab_empty s'.
  Proof.
    pre I H t; intros xt O; pose proof (k_unl s I xt) as M; pose proof (k_wait s I xt) as M1; norm; unfold expire_entry;
      split_eqb; simp_state; try discriminate O; try (rewrite O in M1; cbn [k_waited] in M1); fin.
    all: try (intros xk; rewrite ?(M O); split_eqb; auto).
  Qed.

  Lemma p_kat1 : forall tau, close_at s' = Some tau -> once s' = ODone /\ tau <= now s'.
  Proof.
    pre I H t; intros xtau O; pose proof (k_at1 s I xtau) as M; norm; injs; fin.
  Qed.

  Lemma p_kat2 : once s' = ODone -> close_at s' <> None.
  Proof.
    pre I H t; intros O; pose proof (k_at2 s I) as M; norm; try discriminate O; fin.
  Qed.

  (* ---- calls, tasks, timers ---- *)
  Lemma p_mop : forall t0 op pe, m_op (thr s' t0) = Some (op, pe) ->
      match op with
      | OSet k v exp cb accept => exists ttl, calls s' t0 = Some (CSet k v ttl cb accept pe) /\
                                             exp = resolve_ttl (cfg_ttl s') ttl
      | ODel k => calls s' t0 = Some (CDelete k)
      end.
  Proof.
    pre I H t; intros xt xop xpe O; pose proof (t_mop s I xt xop xpe) as M;
      assert (M' : (t < nthr s)%nat) by (apply (thr_lt s t I); congruence);
      norm; split_eqb; simp_state; cbn [m_op] in *; try rewrite Fidle in M; cbn [m_op] in *; injs;
      try lia; fin.
  Qed.
End Pres.


Lemma stamp_pos exp n : 0 < stamp exp n -> 0 < exp.
Proof. unfold stamp. destruct (Z.ltb_spec 0 exp); lia. Qed.

Section Pres.
  Variables (s s' : state) (t : tid) (ch : nat).
  Hypothesis I : Inv s.
  Hypothesis H : step_thread s t ch (thr s t) = Some s'.

  Lemma p_mtk : forall t0 c dl tk, m_tk (thr s' t0) = Some (c, dl, tk) ->
      tk_owner tk = t0 /\ c = true /\ tk_dl tk = dl /\ 0 < dl /\
      In (t0, tk_key tk, tk_val tk, dl) (wlog s') /\ own_call s' tk.
  Proof.
    pose proof (eq_refl : m_tk Idle = None) as Z0.
    pre I H t; intros xt xc xdl xtk O; pose proof (t_mtk s I xt xc xdl xtk) as M;
      norm; split_eqb; simp_state; cbn [m_tk] in *; injs; cbn [In tk_owner tk_key tk_val tk_dl tk_cb]; fin.
    all: try (clear M; destruct Fop as (ttl & Fc & Fe); apply Z.ltb_lt in Heqb0; pose proof (stamp_pos _ _ Heqb0);
              subst exp; repeat split; auto; eauto).
    all: destruct tk; [|discriminate O]; injs; apply M; rewrite Epc; reflexivity.
  Qed.

  Lemma p_sched : forall t0 r c dl, thr s' t0 = MDone r c dl true -> r = ROk /\ c = true /\ 0 < dl.
  Proof.
    pre I H t; intros xt xr xc xdl O; pose proof (t_sched s I xt xr xc xdl) as M;
      norm; split_eqb; simp_state; try discriminate O; try (injection O as <- <- <-); fin.
  Qed.

  Lemma p_own : forall t0 tk, timer_task (thr s' t0) = Some tk ->
      thr s' (tk_owner tk) = MDone ROk true (tk_dl tk) true /\ 0 < tk_dl tk /\
      In (tk_owner tk, tk_key tk, tk_val tk, tk_dl tk) (wlog s') /\ own_call s' tk.
  Proof.
    pre I H t; intros xt xtk O; pose proof (t_own s I xt xtk) as M;
      assert (M' : (t < nthr s)%nat) by (apply (thr_lt s t I); congruence);
      norm; split_eqb; simp_state; cbn [timer_task] in *; try rewrite Fidle in *; cbn [timer_task] in *; injs;
      cbn [In tk_owner tk_key tk_val tk_dl tk_cb]; try lia; fin.
  Qed.

  Lemma p_uniq : forall t1 t2 tk1 tk2, timer_task (thr s' t1) = Some tk1 -> timer_task (thr s' t2) = Some tk2 ->
      tk_owner tk1 = tk_owner tk2 -> t1 = t2.
  Proof.
    pre I H t; intros xt1 xt2 xk1 xk2 O1 O2 E; pose proof (t_uniq s I xt1 xt2 xk1 xk2) as M;
      pose proof (t_own s I xt1 xk1) as M1; pose proof (t_own s I xt2 xk2) as M2;
      norm; split_eqb; simp_state; try rewrite Epc in *; cbn [timer_task] in *; try rewrite Fidle in *;
      cbn [timer_task] in *; injs; try discriminate; fin.
  Qed.
End Pres.


Lemma validate_some s tk w : validate s tk = Some w ->
  exists e, tab s (tk_key tk) = Some e /\ e_dl e = tk_dl tk /\ tk_dl tk < now s /\ e_writer e = w.
Proof.
  unfold validate. destruct (tab s (tk_key tk)) as [e|]; [|discriminate].
  destruct (Z.eqb_spec (e_dl e) (tk_dl tk)) as [E|E]; cbn [andb]; [|discriminate].
  destruct (Z.ltb_spec (e_dl e) (now s)) as [L|L]; [|discriminate].
  intros K. injection K as <-. exists e. repeat split; auto. lia.
Qed.

Section Pres.
  Variables (s s' : state) (t : tid) (ch : nat).
  Hypothesis I : Inv s.
  Hypothesis H : step_thread s t ch (thr s t) = Some s'.

  Lemma p_gsel : forall t0 tk g, post_sel (thr s' t0) = Some (tk, g) ->
      g_fire g <= g_sel g /\ g_sel g <= now s' /\ (g_sac g = true -> once s' = ODone) /\
      (g_sac g = false -> forall tau, close_at s' = Some tau -> g_sel g <= tau).
  Proof.
    pre I H t; intros xt xtk xg O; pose proof (g_sel1 s I xt xtk xg) as M; pose proof (k_at1 s I) as M1;
      norm; split_eqb; simp_state; cbn [post_sel] in *; try rewrite Fidle in *; cbn [post_sel] in *; injs;
      cbn [g_fire g_sel g_sac]; try discriminate O; fin.
    clear M. apply Z.leb_le in Heqb. repeat split; try lia.
    - destruct (once s); cbn; congruence.
    - intros D tau C. destruct (M1 tau C) as [C1 _]. rewrite C1 in D. discriminate D.
  Qed.

  Lemma p_tablog : forall k e, tab s' k = Some e -> In (e_writer e, k, e_val e, e_dl e) (wlog s').
  Proof.
    pre I H t; intros xk xe O; pose proof (tab_log s I xk xe) as M; norm; unfold expire_entry in *; split_eqb;
      simp_state; injs; cbn [In e_writer e_val e_dl]; try discriminate O; fin.
    all: apply M; match type of O with match ?x with _ => _ end = _ => destruct x as [e0|]; [|discriminate O] end;
      destruct (expired_at n0 e0); [discriminate O|exact O].
  Qed.

  Lemma p_gval : forall t0 tk g w, validated (thr s' t0) = Some (tk, g, w) ->
      g_sac g = false /\ tk_dl tk < now s' /\ logged s' w (tk_key tk) (tk_dl tk).
  Proof.
    pre I H t; intros xt xtk xg xw O; pose proof (g_val s I xt xtk xg xw) as M;
      norm; split_eqb; simp_state; cbn [validated] in *; try rewrite Fidle in *; cbn [validated] in *; injs;
      try discriminate O; fin.
    all: try (destruct (M O) as (A & B & v0 & C); repeat split; auto; exists v0; right; exact C).
    clear M. destruct (validate s tk) as [w|] eqn:V; [|discriminate O]. injs.
    apply validate_some in V. destruct V as (e & Te & De & Ln & We).
    split; [|split; [exact Ln|]].
    - destruct (g_sac xg) eqn:Sg; [|reflexivity]. exfalso.
      destruct Fg as (_ & _ & Fo & _). destruct (k_done s I (Fo eq_refl)) as [_ Emp].
      rewrite (Emp (tk_key xtk)) in Te. discriminate Te.
    - exists (e_val e). pose proof (tab_log s I _ _ Te) as L. rewrite De, We in L. exact L.
  Qed.

  Lemma p_ethr : forall tk g w a, In (ECb tk g w a) (events s') -> exists t0, thr s' t0 = TFired tk.
  Proof.
    pre I H t; intros xtk xg xw xa O; pose proof (e_thr s I xtk xg xw xa) as M; norm; cbn [In] in *;
      try (destruct O as [O|O]; [injection O as <- <- <- <-; exists t; split_eqb; congruence|]);
      destruct (M O) as [wt Hwt]; exists wt; split_eqb; congruence.
  Qed.

  Lemma p_enodup : NoDup (map ev_owner (events s')).
  Proof.
    pose proof (e_nodup s I) as M. pre I H t; norm; try exact M.
    cbn [map ev_owner]. constructor; [|exact M]. intros K. apply in_map_iff in K. destruct K as ([tk' g' w' a'] & Eo & Ki).
    cbn [ev_owner] in Eo. destruct (e_thr s I _ _ _ _ Ki) as [t0 Ht0].
    assert (t = t0).
    { eapply (t_uniq s I t t0 tk tk'); [rewrite Epc; reflexivity|rewrite Ht0; reflexivity|congruence]. }
    subst t0. congruence.
  Qed.

  Lemma p_efacts : forall tk g w a, In (ECb tk g w a) (events s') ->
      g_sac g = false /\ tk_dl tk < a /\ a <= now s' /\ logged s' w (tk_key tk) (tk_dl tk) /\
      g_fire g <= g_sel g /\ g_sel g <= a /\ (forall tau, close_at s' = Some tau -> g_sel g <= tau).
  Proof.
    pre I H t; intros xtk xg xw xa O; pose proof (e_facts s I xtk xg xw xa) as M; norm; cbn [In] in *; fin.
    all: try (destruct (M O) as (A & B & C & (v0 & D) & E & F & G); repeat split; auto;
              [exists v0; right; exact D]).
    all: try (destruct (M O) as (A & B & C & (v0 & D) & E & F & G); repeat split; eauto;
              intros tau K; injection K as <-; lia).
    destruct O as [O|O]; [|exact (M O)]. injection O as <- <- <- <-.
    destruct Fv as (A & B & C). destruct Fg as (D & E & _ & F). repeat split; auto; lia.
  Qed.

  Theorem inv_thread_step : Inv s'.
  Proof.
    constructor.
    - exact (p_idle s s' t ch I H). - exact (p_wk0 s s' t ch I H).
    - exact (p_d1 s s' t ch I H). - exact (p_d2 s s' t ch I H). - exact (p_sw1 s s' t ch I H).
    - exact (p_sw2 s s' t ch I H). - exact (p_sr1 s s' t ch I H). - exact (p_sr2 s s' t ch I H).
    - exact (p_mutex s s' t ch I H).
    - exact (p_kch s s' t ch I H). - exact (p_kthr s s' t ch I H). - exact (p_kfin s s' t ch I H).
    - exact (p_kpre s s' t ch I H). - exact (p_kwait s s' t ch I H). - exact (p_kdone s s' t ch I H).
    - exact (p_kunl s s' t ch I H). - exact (p_kat1 s s' t ch I H). - exact (p_kat2 s s' t ch I H).
    - exact (p_mop s s' t ch I H). - exact (p_mtk s s' t ch I H). - exact (p_own s s' t ch I H).
    - exact (p_uniq s s' t ch I H). - exact (p_sched s s' t ch I H).
    - exact p_gsel. - exact p_gval. - exact p_tablog. - exact p_ethr. - exact p_enodup. - exact p_efacts.
  Qed.
End Pres.


Lemma inv_tick s d : Inv s -> 0 <= d -> Inv (set_now s (now s + d)).
Proof.
  intros I D. constructor; unf; simp_state.
  - exact (b_idle s I). - exact (b_wk0 s I).
  - exact (l_d1 s I). - exact (l_d2 s I). - exact (l_sw1 s I). - exact (l_sw2 s I). - exact (l_sr1 s I).
  - exact (l_sr2 s I). - exact (l_mutex s I).
  - exact (k_ch s I). - exact (k_thr s I). - exact (k_fin s I). - exact (k_pre s I). - exact (k_wait s I).
  - exact (k_done s I). - exact (k_unl s I).
  - intros tau C. destruct (k_at1 s I tau C). split; [assumption|lia].
  - exact (k_at2 s I).
  - exact (t_mop s I). - exact (t_mtk s I). - exact (t_own s I). - exact (t_uniq s I). - exact (t_sched s I).
  - intros t tk g O. destruct (g_sel1 s I t tk g O) as (A & B & C & E). repeat split; auto; lia.
  - intros t tk g w O. destruct (g_val s I t tk g w O) as (A & B & C). repeat split; auto; lia.
  - exact (tab_log s I). - exact (e_thr s I). - exact (e_nodup s I).
  - intros tk g w a O. destruct (e_facts s I tk g w a O) as (A & B & C & E & F & G & K). repeat split; auto; lia.
Qed.

Lemma inv_wk s k v dl : Inv s -> (exists f b, thr s 0%nat = WkApply f b) -> Inv (apply_set s 0%nat k v dl).
Proof.
  intros I (f & b & W). constructor; unf; simp_state.
  - exact (b_idle s I). - exact (b_wk0 s I).
  - exact (l_d1 s I). - exact (l_d2 s I). - exact (l_sw1 s I). - exact (l_sw2 s I). - exact (l_sr1 s I).
  - exact (l_sr2 s I). - exact (l_mutex s I).
  - exact (k_ch s I). - exact (k_thr s I). - exact (k_fin s I). - exact (k_pre s I). - exact (k_wait s I).
  - intros O. destruct (k_done s I O) as [E _]. congruence.
  - intros t O. pose proof (k_wait s I t) as E. rewrite O in E. specialize (E eq_refl). congruence.
  - exact (k_at1 s I). - exact (k_at2 s I).
  - exact (t_mop s I).
  - intros t c dl0 tk O. destruct (t_mtk s I t c dl0 tk O) as (A & B & C & D & E & F). repeat split; auto. right; exact E.
  - intros t tk O. destruct (t_own s I t tk O) as (A & B & C & D). repeat split; auto. right; exact C.
  - exact (t_uniq s I). - exact (t_sched s I). - exact (g_sel1 s I).
  - intros t tk g w O. destruct (g_val s I t tk g w O) as (A & B & v0 & C). repeat split; auto. exists v0. right; exact C.
  - intros xk xe. unfold upd. destruct (Nat.eqb_spec xk k) as [->|N].
    + intros E. injection E as <-. left. reflexivity.
    + intros E. right. exact (tab_log s I xk xe E).
  - exact (e_thr s I). - exact (e_nodup s I).
  - intros tk g w a O. destruct (e_facts s I tk g w a O) as (A & B & C & (v0 & E) & F & G & K).
    repeat split; auto. exists v0. right; exact E.
Qed.

Lemma inv_spawn s c : Inv s -> Inv (add_thr s (init_pc s c) (Some c)).
Proof.
  intros I. pose proof (b_idle s I (nthr s) (le_n _)) as Idl. pose proof (nthr_pos s I) as N0.
  assert (NI : forall t, thr s t <> Idle -> t <> nthr s) by (intros t A B; subst t; contradiction).
  constructor; unf; simp_state.
  - intros xt L. pose proof (b_idle s I xt). unfold upd. split_eqb; fin.
  - pose proof (b_wk0 s I). unfold upd. split_eqb; fin.
  - intros xt. pose proof (l_d1 s I xt). unfold upd; split_eqb; fin. destruct c; discriminate.
  - intros xt O. pose proof (l_d2 s I xt O) as E. unfold upd; split_eqb; fin. rewrite Idl in E. discriminate.
  - intros xt. pose proof (l_sw1 s I xt). unfold upd; split_eqb; fin. destruct c; discriminate.
  - intros xt O. pose proof (l_sw2 s I xt O) as E. unfold upd; split_eqb; fin. rewrite Idl in E. discriminate.
  - intros xt. pose proof (l_sr1 s I xt). unfold upd; split_eqb; fin. destruct c; discriminate.
  - intros xt O. pose proof (l_sr2 s I xt O) as E. unfold upd; split_eqb; fin. rewrite Idl in E. discriminate.
  - exact (l_mutex s I).
  - exact (k_ch s I).
  - intros xt. pose proof (k_thr s I xt). unfold upd; split_eqb; fin. destruct c; discriminate.
  - pose proof (k_fin s I). unfold upd; split_eqb; fin.
  - intros xt. pose proof (k_pre s I xt). unfold upd; split_eqb; fin; destruct c; discriminate.
  - intros xt. pose proof (k_wait s I xt). unfold upd; split_eqb; fin; destruct c; discriminate.
  - pose proof (k_done s I). unfold upd; split_eqb; fin.
  - intros xt. pose proof (k_unl s I xt). unfold upd; split_eqb; fin. destruct c; discriminate.
  - exact (k_at1 s I). - exact (k_at2 s I).
  - intros xt xop xpe. pose proof (t_mop s I xt xop xpe) as M. unfold upd; split_eqb; fin.
    destruct c; cbn; intros E; try discriminate E; injection E as <- <-; eauto.
  - intros xt xc xdl xtk O. assert (O' : m_tk (thr s xt) = Some (xc, xdl, xtk)).
    { revert O. unfold upd; split_eqb; [destruct c; discriminate|auto]. }
    destruct (t_mtk s I xt xc xdl xtk O') as (A & B & C & D & E & (ttl & adm & F & G)).
    repeat split; auto. exists ttl, adm. split; [|exact G]. rewrite upd_neq; [exact F|].
    apply NI. rewrite A. intros Z. rewrite Z in O'. discriminate.
  - intros xt xtk O. assert (O' : timer_task (thr s xt) = Some xtk).
    { revert O. unfold upd; split_eqb; [destruct c; discriminate|auto]. }
    destruct (t_own s I xt xtk O') as (A & B & C & (ttl & adm & F & G)).
    assert (tk_owner xtk <> nthr s) by (apply NI; congruence).
    rewrite !upd_neq by assumption. repeat split; auto. exists ttl, adm. auto.
  - intros xt1 xt2 xk1 xk2 O1 O2. apply (t_uniq s I xt1 xt2 xk1 xk2).
    + revert O1. unfold upd; split_eqb; [destruct c; discriminate|auto].
    + revert O2. unfold upd; split_eqb; [destruct c; discriminate|auto].
  - intros xt xr xc xdl. pose proof (t_sched s I xt xr xc xdl). unfold upd; split_eqb; fin. destruct c; discriminate.
  - intros xt xtk xg. pose proof (g_sel1 s I xt xtk xg). unfold upd; split_eqb; fin. destruct c; discriminate.
  - intros xt xtk xg xw. pose proof (g_val s I xt xtk xg xw). unfold upd; split_eqb; fin. destruct c; discriminate.
  - exact (tab_log s I).
  - intros tk g w a O. destruct (e_thr s I tk g w a O) as [t0 E]. exists t0. rewrite upd_neq; [exact E|].
    apply NI. congruence.
  - exact (e_nodup s I).
  - exact (e_facts s I).
Qed.

Lemma init_thr d t : thr (init d) t = WkIdle \/ thr (init d) t = Idle.
Proof. cbn. unfold upd. destruct (Nat.eqb t 0); auto. Qed.

Lemma inv_init dflt : Inv (init dflt).
Proof.
  constructor; unf.
  - intros t L. cbn. unfold upd. destruct (Nat.eqb_spec t 0); [cbn in L; lia|reflexivity].
  - reflexivity.
  - intros t. destruct (init_thr dflt t) as [E|E]; rewrite E; discriminate.
  - discriminate.
  - intros t. destruct (init_thr dflt t) as [E|E]; rewrite E; discriminate.
  - discriminate.
  - intros t. destruct (init_thr dflt t) as [E|E]; rewrite E; discriminate.
  - intros t [].
  - reflexivity.
  - discriminate.
  - intros t. destruct (init_thr dflt t) as [E|E]; rewrite E; discriminate.
  - discriminate.
  - intros t. destruct (init_thr dflt t) as [E|E]; rewrite E; discriminate.
  - intros t. destruct (init_thr dflt t) as [E|E]; rewrite E; discriminate.
  - discriminate.
  - intros t. destruct (init_thr dflt t) as [E|E]; rewrite E; discriminate.
  - discriminate.
  - discriminate.
  - intros t op pe. destruct (init_thr dflt t) as [E|E]; rewrite E; discriminate.
  - intros t c dl tk. destruct (init_thr dflt t) as [E|E]; rewrite E; discriminate.
  - intros t tk. destruct (init_thr dflt t) as [E|E]; rewrite E; discriminate.
  - intros t1 t2 tk1 tk2. destruct (init_thr dflt t1) as [E|E]; rewrite E; discriminate.
  - intros t r c dl. destruct (init_thr dflt t) as [E|E]; rewrite E; discriminate.
  - intros t tk g. destruct (init_thr dflt t) as [E|E]; rewrite E; discriminate.
  - intros t tk g w. destruct (init_thr dflt t) as [E|E]; rewrite E; discriminate.
  - discriminate.
  - intros tk g w a [].
  - constructor.
  - intros tk g w a [].
Qed.

Theorem inv_step s l s' : Inv s -> step s l = Some s' -> Inv s'.
Proof.
  intros I H. destruct l as [c|t ch|d|k v exp accept]; cbn [step] in H.
  - injection H as <-. apply inv_spawn. exact I.
  - eapply inv_thread_step; eauto.
  - destruct (Z.leb_spec 0 d); [|discriminate]. injection H as <-. apply inv_tick; assumption.
  - destruct (thr s 0%nat) eqn:W; try discriminate H.
    destruct (commits s k accept); injection H as <-; [|exact I]. apply inv_wk; eauto.
Qed.

Theorem inv_reachable dflt s : reachable dflt s -> Inv s.
Proof. induction 1; [apply inv_init | eapply inv_step; eauto]. Qed.


(* ================================================================== *)
(** * Theorems                                                           *)
(* ================================================================== *)
(* Reading guide.  A callback invocation is an event [ECb tk g w a]: task [tk] (key, value, callback id, deadline,
   owner = the thread that executed the SetWithCallback call), timer ghost [g], [w] = writer of the entry the timer
   saw at validation, [a] = clock at the call.  [calls s c] is the call thread [c] was started for. *)

Definition owner_is_call (s : state) (tk : task) : Prop :=
  exists ttl accept, calls s (tk_owner tk) = Some (CSet (tk_key tk) (tk_val tk) ttl (Some (tk_cb tk)) accept false) /\
                    0 < resolve_ttl (cfg_ttl s) ttl.

Lemma event_timer dflt s tk g w a : reachable dflt s -> In (ECb tk g w a) (events s) ->
  exists t, thr s t = TFired tk /\
            thr s (tk_owner tk) = MDone ROk true (tk_dl tk) true /\ 0 < tk_dl tk /\
            In (tk_owner tk, tk_key tk, tk_val tk, tk_dl tk) (wlog s) /\ owner_is_call s tk.
Proof.
  intros R E. pose proof (inv_reachable dflt s R) as I. destruct (e_thr s I tk g w a E) as [t Ht].
  exists t. split; [exact Ht|]. apply (t_own s I t tk). rewrite Ht. reflexivity.
Qed.

(* ------------------------------------------------------------------ *)
(** ** B1 at_most_once                                                   *)
(* ------------------------------------------------------------------ *)
Theorem B1_at_most_once dflt s : reachable dflt s -> NoDup (map ev_owner (events s)).
Proof. intros R. exact (e_nodup s (inv_reachable dflt s R)). Qed.

Corollary B1_count dflt s c : reachable dflt s ->
  (count_occ Nat.eq_dec (map ev_owner (events s)) c <= 1)%nat.
Proof. intros R. apply (proj1 (NoDup_count_occ Nat.eq_dec _) (B1_at_most_once dflt s R)). Qed.

(* at most one timer goroutine per SetWithCallback call, too *)
Theorem B1_one_timer dflt s t1 t2 tk1 tk2 : reachable dflt s ->
  timer_task (thr s t1) = Some tk1 -> timer_task (thr s t2) = Some tk2 -> tk_owner tk1 = tk_owner tk2 -> t1 = t2.
Proof. intros R. exact (t_uniq s (inv_reachable dflt s R) t1 t2 tk1 tk2). Qed.

(* ------------------------------------------------------------------ *)
(** ** B2 not_early                                                      *)
(* ------------------------------------------------------------------ *)
Theorem B2_not_early dflt s tk g w a : reachable dflt s -> In (ECb tk g w a) (events s) -> tk_dl tk < a.
Proof. intros R E. apply (e_facts s (inv_reachable dflt s R) tk g w a E). Qed.

(* the thread about to invoke the callback already sees now > deadline, however long it is delayed *)
Theorem B2_not_early_pc dflt s t tk g w : reachable dflt s -> thr s t = TCall tk g w -> tk_dl tk < now s.
Proof.
  intros R P. destruct (g_val s (inv_reachable dflt s R) t tk g w) as (_ & L & _); [rewrite P; reflexivity|exact L].
Qed.

(* ------------------------------------------------------------------ *)
(** ** B3 not_after_close_returned                                       *)
(* ------------------------------------------------------------------ *)
(* (i) Once Close has returned the table is empty for ever, the worker has exited, and no Set can commit:
       every syncMutate caller that got past the isClosed check under drainMu finished before workers.Wait()
       returned, because the worker's final drain needs drainMu. *)
Theorem B3_closed_cache_is_empty dflt s : reachable dflt s -> once s = ODone ->
  (forall k, tab s k = None) /\ thr s 0%nat = WkExited /\ closed s = true /\ closeCh s = true /\
  (forall t, precommit (thr s t) = false).
Proof.
  intros R O. pose proof (inv_reachable dflt s R) as I. destruct (k_done s I O) as [W E].
  assert (C : closeCh s = true) by (apply (k_fin s I); rewrite W; reflexivity).
  repeat split; auto.
  - apply (k_ch s I C).
  - intros t. destruct (precommit (thr s t)) eqn:P; [|reflexivity]. elim (k_pre s I t P). exact W.
Qed.

(* (ii) Every callback was invoked by a timer goroutine that passed its select BEFORE Close returned
        ([g_sac = false]); if Close has returned at clock value tau, the timer of every invoked callback had
        elapsed by then: g_fire <= g_sel <= tau.  Contrapositive: a timer that elapses after Close returned
        (tau < g_fire) never invokes its callback. *)
Theorem B3_not_after_close_returned dflt s tk g w a tau : reachable dflt s ->
  In (ECb tk g w a) (events s) -> close_at s = Some tau ->
  g_sac g = false /\ g_fire g <= g_sel g /\ g_sel g <= tau.
Proof.
  intros R E C. destruct (e_facts s (inv_reachable dflt s R) tk g w a E) as (A & _ & _ & _ & F & _ & G).
  repeat split; auto.
Qed.

(* (iii) thread-level form: a timer goroutine that passes its select after Close returned validates against the
         empty table and does not call *)
Theorem B3_select_after_close_no_call dflt s t tk g : reachable dflt s -> g_sac g = true ->
  (forall w, thr s t <> TCall tk g w) /\ (forall r, thr s t = TRUnlock tk g r -> r = None) /\
  (post_sel (thr s t) = Some (tk, g) -> once s = ODone).
Proof.
  intros R S. pose proof (inv_reachable dflt s R) as I. repeat split.
  - intros w P. destruct (g_val s I t tk g w) as (A & _); [rewrite P; reflexivity|congruence].
  - intros [w|] P; [|reflexivity]. destruct (g_val s I t tk g w) as (A & _); [rewrite P; reflexivity|congruence].
  - intros P. destruct (g_sel1 s I t tk g P) as (_ & _ & A & _). exact (A S).
Qed.

(* (iv) the closeCh branch of the select never calls; both branches are offered when both are ready *)
Theorem B3_close_branch_never_calls s t ch tk fire s' :
  thr s t = TSelect tk fire -> ch <> 0%nat -> step s (LStep t ch) = Some s' ->
  closeCh s = true /\ thr s' t = TQuiet tk /\ events s' = events s.
Proof.
  intros P N H. cbn [step] in H. rewrite P in H. cbn [step_thread] in H. destruct ch as [|ch]; [contradiction|].
  destruct (closeCh s); [|discriminate]. injection H as <-. simp_state. rewrite upd_eq. auto.
Qed.
Theorem B3_quiet_is_final s t ch tk : thr s t = TQuiet tk -> step s (LStep t ch) = None.
Proof. intros P. cbn [step]. rewrite P. reflexivity. Qed.

(* ------------------------------------------------------------------ *)
(** ** B4 own_key_value                                                  *)
(* ------------------------------------------------------------------ *)
Theorem B4_own_key_value dflt s tk g w a : reachable dflt s -> In (ECb tk g w a) (events s) ->
  exists ttl accept,
    calls s (tk_owner tk) = Some (CSet (tk_key tk) (tk_val tk) ttl (Some (tk_cb tk)) accept false).
Proof.
  intros R E. destruct (event_timer dflt s tk g w a R E) as (_ & _ & _ & _ & _ & ttl & accept & C & _). eauto.
Qed.

(* ------------------------------------------------------------------ *)
(** ** B5 nothing_scheduled                                              *)
(* ------------------------------------------------------------------ *)
(* a timer / a callback exists only for a call that returned nil, committed, and stamped a positive deadline from a
   TTL that resolves (DefaultExpiration -> config.DefaultTTL) to a positive duration *)
Theorem B5_scheduled_only_if dflt s t tk : reachable dflt s -> timer_task (thr s t) = Some tk ->
  thr s (tk_owner tk) = MDone ROk true (tk_dl tk) true /\ 0 < tk_dl tk /\ owner_is_call s tk.
Proof.
  intros R P. destruct (t_own s (inv_reachable dflt s R) t tk P) as (A & B & _ & C). auto.
Qed.

Definition nothing_for (s : state) (c : tid) : Prop :=
  (forall t tk, timer_task (thr s t) = Some tk -> tk_owner tk <> c) /\
  (forall e, In e (events s) -> ev_owner e <> c).

(* by outcome: error (ErrCacheClosed, cost error), rejected by admission, or no expiry -> sched = false and nothing
   exists for the call *)
Theorem B5_nothing_scheduled dflt s c r com dl sched : reachable dflt s ->
  thr s c = MDone r com dl sched -> (r <> ROk \/ com = false \/ dl <= 0) ->
  sched = false /\ nothing_for s c.
Proof.
  intros R P Q. pose proof (inv_reachable dflt s R) as I.
  assert (S : sched = false).
  { destruct sched; [|reflexivity]. destruct (t_sched s I c r com dl P) as (A & B & C). destruct Q as [Q|[Q|Q]]; [congruence|congruence|lia]. }
  split; [exact S|]. subst sched. split.
  - intros t tk T E. destruct (t_own s I t tk T) as (A & _). rewrite E, P in A. discriminate.
  - intros [tk g w a] E Eo. cbn [ev_owner] in Eo. destruct (e_thr s I tk g w a E) as [t Ht].
    destruct (t_own s I t tk) as (A & _); [rewrite Ht; reflexivity|]. rewrite Eo, P in A. discriminate.
Qed.

(* by the call's arguments: failing setCommand, no callback, or TTL resolving to "never expires" *)
Theorem B5_nothing_scheduled_by_call dflt s c k v ttl cb accept pe : reachable dflt s ->
  calls s c = Some (CSet k v ttl cb accept pe) ->
  (pe = true \/ cb = None \/ resolve_ttl (cfg_ttl s) ttl <= 0) -> nothing_for s c.
Proof.
  intros R C Q. pose proof (inv_reachable dflt s R) as I.
  assert (K : forall tk, owner_is_call s tk -> tk_owner tk <> c).
  { intros tk (ttl' & adm' & C' & P') E. rewrite E, C in C'. injection C' as -> -> -> -> -> ->.
    destruct Q as [Q|[Q|Q]]; [discriminate|discriminate|lia]. }
  split.
  - intros t tk T. apply K. apply (t_own s I t tk T).
  - intros [tk g w a] E. cbn [ev_owner]. apply K. destruct (event_timer dflt s tk g w a R E) as (_ & _ & _ & _ & _ & O). exact O.
Qed.

(* a finished call stays finished, so "nothing" is for ever *)
Lemma mdone_stable dflt s l s' c r com dl sched : reachable dflt s -> step s l = Some s' ->
  thr s c = MDone r com dl sched -> thr s' c = MDone r com dl sched.
Proof.
  intros R H P. pose proof (inv_reachable dflt s R) as I.
  assert (L : (c < nthr s)%nat) by (apply (thr_lt s c I); congruence).
  destruct l as [c0|t ch|d|k v exp accept]; cbn [step] in H.
  - injection H as <-. simp_state. rewrite upd_neq by lia. exact P.
  - destruct (Nat.eq_dec t c) as [->|N]; [rewrite P in H; discriminate H|].
    inv_thread H; simp_state; rewrite ?upd_neq by (auto; lia); exact P.
  - destruct (0 <=? d); [|discriminate]. injection H as <-. exact P.
  - destruct (thr s 0%nat); try discriminate H. destruct (commits s k accept); injection H as <-; exact P.
Qed.

Theorem B5_nothing_scheduled_for_ever dflt s c r com dl : reachable dflt s ->
  thr s c = MDone r com dl false -> forall ls s', exec s ls = Some s' -> nothing_for s' c.
Proof.
  intros R P ls. revert s R P. induction ls as [|l ls IH]; cbn [exec]; intros s R P s' E.
  - injection E as <-. pose proof (inv_reachable dflt s R) as I. split.
    + intros t tk T Eo. destruct (t_own s I t tk T) as (A & _). rewrite Eo, P in A. discriminate.
    + intros [tk g w a] Ev Eo. cbn [ev_owner] in Eo. destruct (e_thr s I tk g w a Ev) as [t Ht].
      destruct (t_own s I t tk) as (A & _); [rewrite Ht; reflexivity|]. rewrite Eo, P in A. discriminate.
  - destruct (step s l) as [s1|] eqn:S1; [|discriminate].
    eapply (IH s1); [econstructor; eauto| |exact E]. eapply mdone_stable; eauto.
Qed.

(* ------------------------------------------------------------------ *)
(** ** B6 not_for_refreshed                                              *)
(* ------------------------------------------------------------------ *)
(* at its validation step the key is gone (Delete, Clear, eviction, expiry removal, Close) or carries another
   deadline (re-Set, in-place update, or no expiry: deadline 0 <> the task's positive deadline): the timer
   goroutine releases the lock and exits without calling *)
Theorem B6_not_for_refreshed s t ch tk g :
  thr s t = TValidate tk g ->
  (tab s (tk_key tk) = None \/ exists e, tab s (tk_key tk) = Some e /\ e_dl e <> tk_dl tk) ->
  exists s1, step s (LStep t ch) = Some s1 /\ thr s1 t = TRUnlock tk g None /\ events s1 = events s.
Proof.
  intros P Q. cbn [step]. rewrite P. cbn [step_thread]. eexists; split; [reflexivity|]. simp_state. rewrite upd_eq.
  split; [|reflexivity]. f_equal. unfold validate. destruct Q as [Q|(e & Q & D)]; rewrite Q; [reflexivity|].
  destruct (Z.eqb_spec (e_dl e) (tk_dl tk)); [contradiction|reflexivity].
Qed.
Theorem B6_failed_validation_exits s t ch tk g :
  thr s t = TRUnlock tk g None ->
  exists s1, step s (LStep t ch) = Some s1 /\ thr s1 t = TQuiet tk /\ events s1 = events s.
Proof.
  intros P. cbn [step]. rewrite P. cbn [step_thread]. eexists; split; [reflexivity|]. simp_state. rewrite upd_eq. auto.
Qed.

(* conversely every invocation saw, under the read lock, an entry for its key carrying exactly its own deadline,
   already passed, written by [w] *)
Theorem B6_validated dflt s tk g w a : reachable dflt s -> In (ECb tk g w a) (events s) ->
  exists v, In (w, tk_key tk, v, tk_dl tk) (wlog s).
Proof. intros R E. apply (e_facts s (inv_reachable dflt s R) tk g w a E). Qed.

(* the residual case as an explicit hypothesis: committed writes of DIFFERENT calls to the same key never carry the
   same positive deadline.  Then the entry seen at validation is the call's own write - never a later one. *)
Definition distinct_deadlines (s : state) : Prop :=
  forall w1 w2 k v1 v2 dl, 0 < dl -> In (w1, k, v1, dl) (wlog s) -> In (w2, k, v2, dl) (wlog s) -> w1 = w2.

Theorem B6_own_write dflt s tk g w a : reachable dflt s -> distinct_deadlines s ->
  In (ECb tk g w a) (events s) -> w = tk_owner tk.
Proof.
  intros R D E. destruct (B6_validated dflt s tk g w a R E) as [v L].
  destruct (event_timer dflt s tk g w a R E) as (_ & _ & _ & P & L' & _).
  exact (D w (tk_owner tk) (tk_key tk) v (tk_val tk) (tk_dl tk) P L L').
Qed.

(* ------------------------------------------------------------------ *)
(** ** B7 no_lock_held                                                   *)
(* ------------------------------------------------------------------ *)
Theorem B7_no_lock_held dflt s t tk g w : reachable dflt s -> thr s t = TCall tk g w ->
  rw_w (smu s) <> Some t /\ ~ In t (rw_r (smu s)) /\ dmu s <> Some t.
Proof.
  intros R P. pose proof (inv_reachable dflt s R) as I. repeat split.
  - intros E. pose proof (l_sw2 s I t E) as K. rewrite P in K. discriminate.
  - intros E. pose proof (l_sr2 s I t E) as K. rewrite P in K. discriminate.
  - intros E. pose proof (l_d2 s I t E) as K. rewrite P in K. discriminate.
Qed.

(* the event is emitted exactly by a step of a thread at [TCall] *)
Theorem B7_call_step s l s' e : step s l = Some s' -> events s' = e :: events s ->
  exists t ch tk g w, l = LStep t ch /\ thr s t = TCall tk g w /\ e = ECb tk g w (now s).
Proof.
  intros H E. destruct l as [c0|t ch|d|k v exp accept]; cbn [step] in H.
  - injection H as <-. simp_state. exfalso. revert E. clear. intros E.
    assert (L : length (events s) = length (e :: events s)) by (rewrite <- E; reflexivity). cbn in L. lia.
  - assert (L : forall x, events s = x :: events s -> False).
    { intros x K. assert (L : length (events s) = length (x :: events s)) by (rewrite <- K; reflexivity). cbn in L. lia. }
    inv_thread H; simp_state; try (exfalso; eapply L; eauto; fail).
    injection E as <-. eauto 10.
  - destruct (0 <=? d); [|discriminate]. injection H as <-. simp_state. exfalso.
    assert (L : length (events s) = length (e :: events s)) by (rewrite <- E; reflexivity). cbn in L. lia.
  - destruct (thr s 0%nat); try discriminate H. destruct (commits s k accept); injection H as <-; simp_state; exfalso;
      assert (L : length (events s) = length (e :: events s)) by (rewrite <- E; reflexivity); cbn in L; lia.
Qed.

(* the locks do exclude each other *)
Theorem B7_mutual_exclusion dflt s : reachable dflt s ->
  (forall t, holds_d (thr s t) = true <-> dmu s = Some t) /\
  (forall t, holds_sw (thr s t) = true <-> rw_w (smu s) = Some t) /\
  (forall t, holds_sr (thr s t) = true <-> In t (rw_r (smu s))) /\
  (rw_w (smu s) <> None -> rw_r (smu s) = []).
Proof.
  intros R. pose proof (inv_reachable dflt s R) as I. repeat split.
  - apply (l_d1 s I). - apply (l_d2 s I). - apply (l_sw1 s I). - apply (l_sw2 s I).
  - apply (l_sr1 s I). - apply (l_sr2 s I). - apply (l_mutex s I).
Qed.


(* ================================================================== *)
(** * Concrete schedules (vm_compute)                                    *)
(* ================================================================== *)
(* thread 0 is the worker; the first spawned call is thread 1; a SetWithCallback call takes 8 steps
   (isClosed, drainMu.Lock, isClosed, s.mu.Lock, apply, s.mu.Unlock, drainMu.Unlock, scheduleCallback), a Set
   without callback or a Delete 7; the timer goroutine: NewTimer, select, RLock, validate, RUnlock, (call). *)
Definition s0 := init 0.
Definition swc := CSet 1 10 100 (Some 7%nat) true false.     (* SetWithCallback(key 1, value 10, ttl 100, cb 7) *)

(** ** B8: SetWithCallback(ttl 100); Delete; Set(ttl 10); time passes: no callback (the entry now present carries
    deadline 10, not the task's 100). *)
Definition sched_B8 : list label :=
  [LSpawn swc] ++ steps 1 8 ++ steps 2 1          (* thread 1 commits deadline 100, timer = thread 2 armed for 100 *)
  ++ [LSpawn (CDelete 1)] ++ steps 3 7
  ++ [LSpawn (CSet 1 11 10 None true false)] ++ steps 4 7
  ++ [LTick 101] ++ steps 2 4.                    (* select(timer), RLock, validate, RUnlock -> exits *)
Example B8_delete_reset_no_callback :
  option_map (fun s => (fired s, entry_of s 1%nat, thr s 2%nat, now s)) (exec s0 sched_B8) =
  Some ([], Some (11%nat, 10), TQuiet (mkTask 1 10 100 7 1), 101).
Proof. vm_compute. reflexivity. Qed.

(** ** the callback does fire when nothing interferes (the model is not vacuous) *)
Definition sched_fire : list label := [LSpawn swc] ++ steps 1 8 ++ steps 2 1 ++ [LTick 101] ++ steps 2 5.
Example callback_fires :
  option_map (fun s => (fired s, thr s 2%nat)) (exec s0 sched_fire) =
  Some ([(7%nat, 1%nat, 10%nat, 101)], TFired (mkTask 1 10 100 7 1)).
Proof. vm_compute. reflexivity. Qed.

(** ** B6 residual: Delete, then at time 50 a Set with ttl 50 stamps the SAME deadline 100.  The timer cannot tell
    the two writes apart and invokes cb(1, 10) although the live entry is (11, written by thread 4).  The
    hypothesis [distinct_deadlines] of [B6_own_write] fails here. *)
Definition sched_same : list label :=
  [LSpawn swc] ++ steps 1 8 ++ steps 2 1
  ++ [LSpawn (CDelete 1)] ++ steps 3 7
  ++ [LTick 50; LSpawn (CSet 1 11 50 None true false)] ++ steps 4 7
  ++ [LTick 51] ++ steps 2 5.
Example B6_same_deadline_residual :
  option_map (fun s => (fired s, entry_of s 1%nat,
                        map (fun e => match e with ECb tk _ w _ => (tk_owner tk, w) end) (events s), wlog s))
             (exec s0 sched_same) =
  Some ([(7%nat, 1%nat, 10%nat, 101)], Some (11%nat, 100), [(1%nat, 4%nat)],
        [(4%nat, 1%nat, 11%nat, 100); (1%nat, 1%nat, 10%nat, 100)]).
Proof. vm_compute. reflexivity. Qed.

(** ** B3, what is NOT true: "no callback starts after Close returned".  The timer goroutine validates (entry
    present, expired) and releases the read lock; then Close runs to completion (closed, closeCh, worker exits,
    clearDirect, return); then the goroutine invokes the callback.  Close does not wait for timer goroutines. *)
Definition close_all (c : tid) : list label :=
  steps c 3                                              (* closeOnce, closed=true, close(closeCh) *)
  ++ [LStep 0 1; LStep 0 0; LStep 0 0]                   (* worker: closeCh branch, final drain, exit *)
  ++ steps c 4.                                          (* workers.Wait, clearDirect (3 steps), return *)
Definition sched_late_call : list label :=
  [LSpawn swc] ++ steps 1 8 ++ steps 2 1 ++ [LTick 101] ++ steps 2 4   (* ... RUnlock: about to call *)
  ++ [LSpawn CClose] ++ close_all 3
  ++ steps 2 1.                                                         (* the callback runs now *)
Example B3_callback_after_close_returned :
  option_map (fun s => (fired s, once s, close_at s, entry_of s 1%nat)) (exec s0 sched_late_call) =
  Some ([(7%nat, 1%nat, 10%nat, 101)], ODone, Some 101, None).
Proof. vm_compute. reflexivity. Qed.

(** ** B3: after close(closeCh) a goroutine that has NOT yet passed its select may still take the timer branch when
    its timer has elapsed too (Go picks a ready case at random); before clearDirect the entry is still there, so it
    calls. *)
Definition sched_select_after_closeCh : list label :=
  [LSpawn swc] ++ steps 1 8 ++ steps 2 1 ++ [LTick 101]
  ++ [LSpawn CClose] ++ steps 3 3                        (* closeCh is closed, Close still running *)
  ++ steps 2 5.                                          (* select takes timer.C; validate ok; call *)
Example B3_select_after_closeCh_may_call :
  option_map (fun s => (fired s, closeCh s, once s)) (exec s0 sched_select_after_closeCh) =
  Some ([(7%nat, 1%nat, 10%nat, 101)], true, ORunning).
Proof. vm_compute. reflexivity. Qed.

(** ** B3, what IS true: the timer elapses after Close returned -> even on the timer branch nothing is called *)
Definition sched_timer_after_close : list label :=
  [LSpawn swc] ++ steps 1 8 ++ steps 2 1
  ++ [LSpawn CClose] ++ close_all 3
  ++ [LTick 101] ++ steps 2 4.
Example B3_timer_after_close_quiet :
  option_map (fun s => (fired s, thr s 2%nat, close_at s)) (exec s0 sched_timer_after_close) =
  Some ([], TQuiet (mkTask 1 10 100 7 1), Some 0).
Proof. vm_compute. reflexivity. Qed.

(** ** B5: a rejected insert, a never-expiring write, a failing setCommand, a Set on a closed cache: no goroutine *)
Example B5_rejected :
  option_map (fun s => (thr s 1%nat, nthr s)) (exec s0 ([LSpawn (CSet 1 10 100 (Some 7%nat) false false)] ++ steps 1 7)) =
  Some (MDone ROk false 100 false, 2%nat).
Proof. vm_compute. reflexivity. Qed.
Example B5_no_expiration :
  option_map (fun s => (thr s 1%nat, nthr s)) (exec s0 ([LSpawn (CSet 1 10 (-1) (Some 7%nat) true false)] ++ steps 1 7)) =
  Some (MDone ROk true 0 false, 2%nat).
Proof. vm_compute. reflexivity. Qed.
Example B5_default_ttl_used :
  option_map (fun s => (thr s 1%nat, nthr s)) (exec (init 30) ([LSpawn (CSet 1 10 0 (Some 7%nat) true false)] ++ steps 1 8)) =
  Some (MDone ROk true 30 true, 3%nat).
Proof. vm_compute. reflexivity. Qed.
Example B5_failed :
  option_map (fun s => (thr s 1%nat, nthr s)) (exec s0 ([LSpawn (CSet 1 10 100 (Some 7%nat) true true)] ++ steps 1 1)) =
  Some (MDone EErr false 0 false, 2%nat).
Proof. vm_compute. reflexivity. Qed.
Example B5_closed :
  option_map (fun s => (thr s 2%nat, nthr s)) (exec s0 ([LSpawn CClose] ++ close_all 1 ++ [LSpawn swc] ++ steps 2 1)) =
  Some (MDone EClosed false 0 false, 3%nat).
Proof. vm_compute. reflexivity. Qed.
