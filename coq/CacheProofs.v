(* CacheProofs.v — cache-level theorems over CacheModel.v, on top of the shard-level libraries
   ClassicProofs.v (LRU / LFU / FIFO, CInv/Good) and SieveProofs.v (SieveTinyLFU, SInv/Quiet/Ledger/NotifLog).
   Contents: structural facts (Stat), the policy-independent shard invariant PolicyOK and the reader's
   view of a shard, ShardOK / CacheInv for an arbitrary fixed placement function shard_of, preservation of
   CacheInv by every operation, the typed machine cop / cstep and its agreement with cache_step, the
   initial cache, and the cache-level theorems C01 / C03 / C10 (see the index at the end).  Stdlib only. *)
Require Import KV.Base KV.Gen.Consts KV.ConfigModel KV.ConfigProofs KV.CacheModel.
Require KV.ClassicProofs KV.SieveProofs.
From Coq Require Import Permutation.
Module CP := KV.ClassicProofs.
Module SP := KV.SieveProofs.
Open Scope Z_scope.


Ltac sf :=
  cbn [cap costcap tabk lst lfu prob main hand pcap mcap pmin pmax size scost staged evs pend
       admits rejects ghosthits promos pevicts mevicts serr glog nlog
       sh_set sh_ghost sh_err sh_evs sh_stats sh_caps sh_lists set_hand bump].
Ltac sf_in H :=
  cbn [cap costcap tabk lst lfu prob main hand pcap mcap pmin pmax size scost staged evs pend
       admits rejects ghosthits promos pevicts mevicts serr glog nlog
       sh_set sh_ghost sh_err sh_evs sh_stats sh_caps sh_lists set_hand bump] in H.

(* ================================================================== *)
(** * 1. Structural facts: no shard function touches cap / costcap / pend; serr is sticky *)
(* ================================================================== *)

Definition Stat (s s' : shard) : Prop :=
  cap s' = cap s /\ costcap s' = costcap s /\ pend s' = pend s /\ (serr s' = 0 -> serr s = 0).

Lemma Stat_refl s : Stat s s.
Proof. unfold Stat. tauto. Qed.
Lemma Stat_trans a b c : Stat a b -> Stat b c -> Stat a c.
Proof. unfold Stat. intros (A1 & A2 & A3 & A4) (B1 & B2 & B3 & B4). repeat split; try congruence. tauto. Qed.

Lemma Stat_err s c : c <> 0 -> Stat s (sh_err s c).
Proof.
  intros Hc. unfold Stat. sf. repeat split. destruct (serr s =? 0) eqn:E; [intros; contradiction|tauto].
Qed.
Lemma Stat_easy s s' : cap s' = cap s -> costcap s' = costcap s -> pend s' = pend s -> serr s' = serr s -> Stat s s'.
Proof. unfold Stat. intros -> -> -> ->. tauto. Qed.

Ltac stat_easy := apply Stat_easy; reflexivity.

Lemma Stat_sieve_unlink s k : Stat s (sieve_unlink s k).
Proof.
  unfold sieve_unlink. destruct (has_key (main s) k); [stat_easy|].
  destruct (has_key (prob s) k); [stat_easy|apply Stat_refl].
Qed.

Lemma Stat_drop_item e s it r s' ok d : drop_item e s it r = (s', ok, d) -> Stat s s'.
Proof.
  unfold drop_item. destruct (negb (unpub it) && negb (memz (tabk s) (key it))).
  - intros H; injection H as <- _ _. apply Stat_refl.
  - intros H; injection H as <- _ _.
    destruct (is_sieve s (e_pol e)).
    + pose proof (Stat_sieve_unlink s (key it)) as (A & B & C & D).
      unfold Stat. sf. repeat split; assumption.
    + stat_easy.
Qed.

Lemma Stat_pop_ev s kind s' a : 0 <= kind -> pop_ev s kind = (s', a) -> Stat s s'.
Proof.
  intros Hk. assert (H2 : 200 + kind <> 0) by lia. assert (H1 : 100 + kind <> 0) by lia.
  unfold pop_ev. destruct (evs s) as [|[k x] r].
  - intros H; injection H as <- _. apply Stat_err. exact H2.
  - destruct (k =? kind); intros H; injection H as <- _; [stat_easy|apply Stat_err; exact H1].
Qed.

Lemma Stat_apply_adapts fuel : forall s, Stat s (apply_adapts fuel s).
Proof.
  induction fuel as [|f IH]; intros s; cbn [apply_adapts]; [apply Stat_refl|].
  destruct (evs s) as [|[k a] r]; [apply Stat_refl|].
  destruct (k =? evAdapt); [|apply Stat_refl].
  destruct ((pmin s <=? a) && (a <=? pmax s)).
  - eapply Stat_trans; [|apply IH]. stat_easy.
  - eapply Stat_trans; [|apply Stat_err; lia]. stat_easy.
Qed.
Lemma Stat_adapts s : Stat s (adapts s).
Proof. apply Stat_apply_adapts. Qed.

Lemma Stat_evict_one e s s' d : evict_one e s = (s', d) -> Stat s s'.
Proof.
  unfold evict_one. destruct (e_pol e =? policyLFU).
  - destruct (lfu s) as [|b r] eqn:EL; [intros H; injection H as <- _; apply Stat_refl|].
    destruct (pop_ev s evLfu) as [s1 v] eqn:EP.
    assert (K0 : 0 <= evLfu) by (unfold evLfu; lia).
    pose proof (Stat_pop_ev _ _ _ _ K0 EP) as S1.
    destruct v as [vk|]; [|intros H; injection H as <- _; exact S1].
    destruct (negb (memz (lfu_min_bucket (lfu s1)) vk)).
    + intros H; injection H as <- _. eapply Stat_trans; [exact S1|apply Stat_err; lia].
    + cbv zeta. sf.
      match goal with |- context [find_item ?l vk] => destruct (find_item l vk) as [it|] end.
      * match goal with |- context [drop_item ?e0 ?s0 it reasonCapacity] =>
          destruct (drop_item e0 s0 it reasonCapacity) as [[s3 ok] dd] eqn:ED end.
        intros H; injection H as <- _. apply Stat_drop_item in ED.
        eapply Stat_trans; [exact S1|]. eapply Stat_trans; [|exact ED]. stat_easy.
      * intros H; injection H as <- _. eapply Stat_trans; [exact S1|].
        eapply Stat_trans; [|apply Stat_err; lia]. stat_easy.
  - destruct (last_item (lst s)) as [it|]; [|intros H; injection H as <- _; apply Stat_refl].
    match goal with |- context [drop_item ?e0 ?s0 it reasonCapacity] =>
      destruct (drop_item e0 s0 it reasonCapacity) as [[s3 ok] dd] eqn:ED end.
    intros H; injection H as <- _. eapply Stat_drop_item; eauto.
Qed.

Lemma Stat_evict_while fuel e pre add : forall s acc s' acc', evict_while fuel e s pre add acc = (s', acc') -> Stat s s'.
Proof.
  induction fuel as [|f IH]; intros s acc s' acc'; cbn [evict_while].
  - intros H; injection H as <- _. apply Stat_err; lia.
  - destruct ((if pre then would_over s add else over_capacity s) && (0 <? zlen (tabk s))).
    + destruct (evict_one e s) as [s1 d] eqn:E1. intros H. eapply Stat_trans; [eapply Stat_evict_one; eauto|eapply IH; eauto].
    + intros H; injection H as <- _. apply Stat_refl.
Qed.

Lemma Stat_apply_classic e s k v ex c s' cm d : apply_classic e s k v ex c = (s', cm, d) -> Stat s s'.
Proof.
  unfold apply_classic. destruct (lookup s (e_pol e) k) as [old|].
  - cbv zeta.
    match goal with |- context [over_capacity ?s1] => set (s1' := s1) end.
    assert (S1 : Stat s s1') by stat_easy.
    destruct (over_capacity s1').
    + destruct (evict_while (S (length (tabk s1'))) e s1' false 0 0) as [s2 d2] eqn:EW.
      intros H; injection H as <- _ _. eapply Stat_trans; [exact S1|eapply Stat_evict_while; eauto].
    + intros H; injection H as <- _ _. exact S1.
  - destruct (evict_while (S (length (tabk s))) e s true c 0) as [s1 d1] eqn:EW.
    intros H; injection H as <- _ _. eapply Stat_trans; [eapply Stat_evict_while; eauto|stat_easy].
Qed.

(* ---- Sieve write path ---- *)
Lemma Stat_promote s it : Stat s (promote s it).
Proof. unfold promote. destruct (has_key (prob s) (key it) && (0 <? mcap s)); [stat_easy|apply Stat_refl]. Qed.

Lemma Stat_find_victim n : forall s c force s' v, find_victim n s c force = (s', v) -> Stat s s'.
Proof.
  induction n as [|n IH]; intros s c force s' v; cbn [find_victim].
  - destruct force.
    + destruct (main_candidate s c) as [it|]; intros H; injection H as <- _; [stat_easy|apply Stat_refl].
    + intros H; injection H as <- _. stat_easy.
  - destruct (main_candidate s c) as [it|]; [|intros H; injection H as <- _; apply Stat_refl].
    destruct (visited it).
    + cbv zeta. intros H. apply IH in H. eapply Stat_trans; [|exact H]. stat_easy.
    + intros H; injection H as <- _. stat_easy.
Qed.

Lemma Stat_find_main_victim s scan force s' v : find_main_victim s scan force = (s', v) -> Stat s s'.
Proof.
  unfold find_main_victim. destruct (main s); [intros H; injection H as <- _; apply Stat_refl|].
  apply Stat_find_victim.
Qed.

Lemma Stat_bump s a b c d : Stat s (bump s a b c d).
Proof. stat_easy. Qed.

Lemma Stat_drop_prob_victim e s it s' ok d : drop_prob_victim e s it = (s', ok, d) -> Stat s s'.
Proof.
  unfold drop_prob_victim. destruct (drop_item e s it reasonCapacity) as [[s1 ok1] d1] eqn:ED.
  apply Stat_drop_item in ED. destruct ok1; intros H; injection H as <- _ _; [|exact ED].
  eapply Stat_trans; [exact ED|apply Stat_bump].
Qed.

Lemma Stat_evict_probation e s s' p d : evict_probation e s = (s', p, d) -> Stat s s'.
Proof.
  unfold evict_probation. destruct (last_item (prob s)) as [it|]; [|intros H; injection H as <- _ _; apply Stat_refl].
  destruct ((probationPromotionReuse <=? reuse it) || visited it).
  - intros H; injection H as <- _ _. apply Stat_promote.
  - destruct (drop_prob_victim e s it) as [[s1 ok] d1] eqn:ED. intros H; injection H as <- _ _.
    eapply Stat_drop_prob_victim; eauto.
Qed.

Lemma Stat_evict_main e s inn tie scan force s' ok d : evict_main e s inn tie scan force = (s', ok, d) -> Stat s s'.
Proof.
  unfold evict_main.
  set (inn' := match inn with Some k => if owns s k then Some k else None | None => None end). clearbody inn'.
  destruct (find_main_victim s scan force) as [s1 v] eqn:EF. apply Stat_find_main_victim in EF.
  destruct v as [vk|].
  - assert (D : forall s2 s3 it r ok3 d3, Stat s s2 -> drop_item e s2 it r = (s3, ok3, d3) -> Stat s s3).
    { intros s2 s3 it r ok3 d3 S2 ED. eapply Stat_trans; [exact S2|eapply Stat_drop_item; eauto]. }
    set (decide := match inn' with
      | Some k => if k =? vk then (s1, true) else
                    let '(s2, a) := pop_ev s1 evAdmit in
                    (s2, match a with Some x => negb (x =? 0) | None => true end)
      | None => (s1, true) end).
    assert (SD : Stat s (fst decide)).
    { unfold decide. destruct inn' as [k|]; [|exact EF]. destruct (k =? vk); [exact EF|].
      destruct (pop_ev s1 evAdmit) as [s2 a] eqn:EP. cbn [fst].
      eapply Stat_trans; [exact EF|]. eapply Stat_pop_ev; [|exact EP]. unfold evAdmit; lia. }
    destruct decide as [s2 adm]. cbn [fst] in SD.
    destruct (negb adm).
    + destruct inn' as [k|]; [|intros H; injection H as <- _ _; exact SD].
      destruct (find_q s2 k) as [it|]; [|intros H; injection H as <- _ _; exact SD].
      destruct (drop_item e s2 it reasonRejected) as [[s3 ok3] d3] eqn:ED. intros H; injection H as <- _ _.
      eapply D; eauto.
    + destruct (find_q s2 vk) as [it|]; [|intros H; injection H as <- _ _; exact SD].
      destruct (drop_item e s2 it reasonCapacity) as [[s3 ok3] d3] eqn:ED.
      pose proof (D _ _ _ _ _ _ SD ED) as S3.
      destruct ok3; intros H; injection H as <- _ _; [|exact S3].
      eapply Stat_trans; [exact S3|apply Stat_bump].
  - destruct inn' as [k|]; [|intros H; injection H as <- _ _; exact EF].
    destruct force; [|intros H; injection H as <- _ _; exact EF].
    destruct (find_q s1 k) as [it|]; [|intros H; injection H as <- _ _; exact EF].
    destruct (drop_item e s1 it reasonRejected) as [[s2 ok2] d2] eqn:ED. intros H; injection H as <- _ _.
    eapply Stat_trans; [exact EF|eapply Stat_drop_item; eauto].
Qed.

Lemma Stat_force_evict e s s' ok d : force_evict e s = (s', ok, d) -> Stat s s'.
Proof.
  unfold force_evict. destruct (last_item (prob s)) as [it|]; [apply Stat_drop_prob_victim|].
  destruct (main s) eqn:EM; [intros H; injection H as <- _ _; apply Stat_refl|].
  destruct (find_main_victim s 1 true) as [s1 v] eqn:EF. apply Stat_find_main_victim in EF.
  destruct v as [vk|]; [|intros H; injection H as <- _ _; exact EF].
  destruct (find_q s1 vk) as [it|]; [|intros H; injection H as <- _ _; exact EF].
  destruct (drop_item e s1 it reasonCapacity) as [[s2 ok2] d2] eqn:ED. apply Stat_drop_item in ED.
  destruct ok2; intros H; injection H as <- _ _.
  - eapply Stat_trans; [exact EF|]. eapply Stat_trans; [exact ED|apply Stat_bump].
  - eapply Stat_trans; eauto.
Qed.

Lemma Stat_enforce_loop w e : forall s inn tie acc s' inn' tie' a',
  enforce_loop w e s inn tie acc = (s', inn', tie', a') -> Stat s s'.
Proof.
  induction w as [|w IH]; intros s inn tie acc s' inn' tie' a'; cbn [enforce_loop].
  - intros H; injection H as <- _ _ _. apply Stat_refl.
  - destruct (negb (over_capacity s)); [intros H; injection H as <- _ _ _; apply Stat_refl|].
    assert (EPR : forall s' inn' tie' a',
      (let '(s1, p, d) := evict_probation e s in
       match p with
       | Some k => enforce_loop w e s1 (Some k) true (acc + d)
       | None => enforce_loop w e s1 inn tie (acc + d)
       end) = (s', inn', tie', a') -> Stat s s').
    { intros s2 inn2 tie2 a2. destruct (evict_probation e s) as [[s1 p] d] eqn:EP. apply Stat_evict_probation in EP.
      destruct p as [k|]; intros H; apply IH in H; eapply Stat_trans; eauto. }
    destruct ((pcap s <? zlen (prob s)) && negb (zlen (prob s) =? 0)); [apply EPR|].
    destruct (negb (zlen (main s) =? 0)).
    + set (pk := if in_probation_below_cap s inn
        then let '(s', a) := pop_ev s evKeep in (s', match a with Some x => negb (x =? 0) | None => false end)
        else let '(s', a) := pop_ev s evKeep in (s', false)).
      assert (SK : Stat s (fst pk)).
      { unfold pk. destruct (pop_ev s evKeep) as [s0 a] eqn:EP.
        assert (Stat s s0) by (eapply Stat_pop_ev; [|exact EP]; unfold evKeep; lia).
        destruct (in_probation_below_cap s inn); exact H. }
      destruct pk as [s0 keep]. cbn [fst] in SK.
      destruct (evict_main e s0 (if keep then None else inn) (if keep then false else tie) defaultMainVictimScan false)
        as [[s1 ok] d] eqn:EM. apply Stat_evict_main in EM.
      destruct ok; intros H; apply IH in H; (eapply Stat_trans; [exact SK|]; eapply Stat_trans; eauto).
    + destruct (negb (zlen (prob s) =? 0)); [apply EPR|]. intros H; injection H as <- _ _ _; apply Stat_refl.
Qed.

Lemma Stat_force_loop fuel e : forall s acc s' a', force_loop fuel e s acc = (s', a') -> Stat s s'.
Proof.
  induction fuel as [|f IH]; intros s acc s' a'; cbn [force_loop].
  - intros H; injection H as <- _. apply Stat_err; lia.
  - destruct (over_capacity s && (0 <? zlen (tabk s))); [|intros H; injection H as <- _; apply Stat_refl].
    destruct (force_evict e s) as [[s1 ok] d] eqn:EF. apply Stat_force_evict in EF.
    destruct ok; intros H; [apply IH in H; eapply Stat_trans; eauto|injection H as <- _; exact EF].
Qed.

Lemma Stat_enforce e s inn tie s' d : enforce e s inn tie = (s', d) -> Stat s s'.
Proof.
  unfold enforce.
  destruct (enforce_loop (Z.to_nat maxEvictionWork) e s inn tie 0) as [[[s1 inn1] tie1] a1] eqn:EL.
  apply Stat_enforce_loop in EL.
  destruct (negb (over_capacity s1)); [intros H; injection H as <- _; exact EL|].
  set (st2 := if negb (zlen (prob s1) =? 0) then
        let '(s', p, d) := evict_probation e s1 in
        match p with Some k => (s', Some k, true, a1 + d) | None => (s', inn1, tie1, a1 + d) end
      else (s1, inn1, tie1, a1)).
  assert (S2 : Stat s (fst (fst (fst st2)))).
  { unfold st2. destruct (negb (zlen (prob s1) =? 0)); [|exact EL].
    destruct (evict_probation e s1) as [[s2 p] d2] eqn:EP. apply Stat_evict_probation in EP.
    destruct p; cbn [fst]; eapply Stat_trans; eauto. }
  destruct st2 as [[[s2 inn2] tie2] a2]. cbn [fst] in S2.
  destruct (negb (over_capacity s2)); [intros H; injection H as <- _; exact S2|].
  set (st3 := if negb (zlen (main s2) =? 0) then
          let '(s', _, d) := evict_main e s2 inn2 tie2 defaultMainVictimScan true in (s', a2 + d)
        else (s2, a2)).
  assert (S3 : Stat s (fst st3)).
  { unfold st3. destruct (negb (zlen (main s2) =? 0)); [|exact S2].
    destruct (evict_main e s2 inn2 tie2 defaultMainVictimScan true) as [[s3 ok3] d3] eqn:EM.
    apply Stat_evict_main in EM. cbn [fst]. eapply Stat_trans; eauto. }
  destruct st3 as [s3 a3]. cbn [fst] in S3.
  intros H. apply Stat_force_loop in H. eapply Stat_trans; eauto.
Qed.

Lemma Stat_record_update s k : Stat s (record_update s k).
Proof.
  unfold record_update. destruct (find_item (main s) k) as [it|]; [stat_easy|].
  destruct (find_item (prob s) k) as [it|]; [|apply Stat_refl]. cbv zeta.
  match goal with |- context [if ?b then _ else _] => destruct b end.
  - eapply Stat_trans; [|apply Stat_promote]. stat_easy.
  - stat_easy.
Qed.

Lemma Stat_apply_sieve e s k v ex c s' cm d : apply_sieve e s k v ex c = (s', cm, d) -> Stat s s'.
Proof.
  unfold apply_sieve. destruct (lookup s (e_pol e) k) as [prev|].
  - cbv zeta.
    match goal with |- context [over_capacity ?x] => set (s3 := x) end.
    assert (S3 : Stat s s3).
    { unfold s3. destruct (warmup s).
      - destruct (has_key (prob s) k); stat_easy.
      - eapply Stat_trans; [|apply Stat_record_update]. destruct (has_key (prob s) k); stat_easy. }
    clearbody s3. destruct (over_capacity s3).
    + destruct (enforce e s3 None false) as [s4 d4] eqn:EE. apply Stat_enforce in EE.
      intros H; injection H as <- _ _. eapply Stat_trans; eauto.
    + intros H; injection H as <- _ _. exact S3.
  - destruct (pop_ev s evGhost) as [sp a] eqn:EP.
    assert (SP0 : Stat s sp) by (eapply Stat_pop_ev; [|exact EP]; unfold evGhost; lia).
    cbv zeta.
    set (s0 := adapts sp). assert (S0 : Stat s s0) by (eapply Stat_trans; [exact SP0|apply Stat_adapts]).
    clearbody s0.
    set (gh := negb (warmup s) && match a with Some x => negb (x =? 0) | None => false end). clearbody gh.
    match goal with |- context [if negb (warmup s) || over_capacity ?x then _ else _] => set (s1 := x) end.
    assert (S1 : Stat s s1).
    { eapply Stat_trans; [exact S0|]. unfold s1. destruct (gh && (0 <? mcap s0)); stat_easy. }
    clearbody s1.
    set (r := if negb (warmup s) || over_capacity s1 then enforce e s1 (Some k) gh else (s1, 0)).
    assert (S2 : Stat s (fst r)).
    { unfold r. destruct (negb (warmup s) || over_capacity s1); [|exact S1].
      destruct (enforce e s1 (Some k) gh) as [s2 d2] eqn:EE. apply Stat_enforce in EE. cbn [fst]. eapply Stat_trans; eauto. }
    destruct r as [s2 d2]. cbn [fst] in S2.
    destruct (owns s2 k); intros H; injection H as <- _ _; (eapply Stat_trans; [exact S2|stat_easy]).
Qed.

Lemma Stat_apply_set e s k v ex c s' cm d : apply_set e s k v ex c = (s', cm, d) -> Stat s s'.
Proof.
  unfold apply_set. destruct (is_sieve s (e_pol e)).
  - intros H. apply Stat_apply_sieve in H. eapply Stat_trans; [apply Stat_adapts|exact H].
  - apply Stat_apply_classic.
Qed.


(* ================================================================== *)
(** * 2. The policy-independent shard invariant and the shard "view"   *)
(* ================================================================== *)

(* what a reader can see of key k: (value, deadline, cost) *)
Definition view (pol : Z) (s : shard) (k : Z) : option (Z * Z * Z) :=
  match lookup s pol k with Some it => Some (val it, exp it, cost it) | None => None end.

Definition PolicyOK (pol m : Z) (s : shard) : Prop :=
  0 <= cap s /\ 0 <= costcap s /\
  if is_sieve s pol
  then SP.SInv s /\ SP.Quiet s /\ SP.Ledger s /\ SP.NotifLog m s /\ over_capacity s = false
  else CP.Good pol m s /\ (pol <> policyLFU \/ serr s = 0 -> over_capacity s = false).

Definition senv (pol : Z) (st : bool) (m : Z) : env := {| e_pol := pol; e_stats := st; e_mask := m |}.

Lemma is_sieve_true_inv s pol : is_sieve s pol = true -> pol = policySieve /\ 1 <= cap s.
Proof. unfold is_sieve. lia. Qed.

Lemma is_sieve_stat s s' pol : cap s' = cap s -> is_sieve s' pol = is_sieve s pol.
Proof. unfold is_sieve. intros ->. reflexivity. Qed.

Lemma lookup_frame pol s s' k : CP.Frame s s' -> lookup s' pol k = lookup s pol k.
Proof.
  intros [F1 F2 F3 F4 F5 F6 F7 F8 F9 F10 F11 F12 F13]. unfold lookup.
  rewrite F3, F4, F6, F7, (is_sieve_stat s s' pol F1). reflexivity.
Qed.
Lemma view_frame pol s s' k : CP.Frame s s' -> view pol s' k = view pol s k.
Proof. intros F. unfold view. rewrite (lookup_frame pol s s' k F). reflexivity. Qed.

Lemma over_frame s s' : CP.Frame s s' -> over_capacity s' = over_capacity s.
Proof. intros F. apply CP.over_capacity_frame; apply F. Qed.

(* table domain = visible keys *)
Lemma tab_view pol m s k : PolicyOK pol m s -> (In k (tabk s) <-> view pol s k <> None).
Proof.
  intros (_ & _ & H). unfold view. destruct (is_sieve s pol) eqn:IS.
  - destruct (is_sieve_true_inv _ _ IS) as [-> _]. destruct H as (I & Q & _).
    pose proof (SP.lookup_spec (senv policySieve false 0) eq_refl s k I Q) as [_ E]. cbn [e_pol senv] in E.
    rewrite <- E. destruct (lookup s policySieve k); split; congruence.
  - destruct H as ((C & _) & _). pose proof (CP.lookup_spec pol s k C) as [_ E]. rewrite <- E.
    destruct (lookup s pol k) as [it|]; split; try congruence; [intros _; exists it; reflexivity|intros [x Hx]; discriminate].
Qed.

(* ---- Sieve helper: a state whose items all come (up to flags) from s sees a sub-map of s ---- *)
Lemma sieve_sub s s' :
  SP.SInv s -> SP.Quiet s -> SP.SInv s' ->
  (forall y, In y (SP.items s') -> exists y0, In y0 (SP.items s) /\ SP.ess y0 = SP.ess y) ->
  forall k x, view policySieve s' k = Some x -> view policySieve s k = Some x.
Proof.
  intros I Q I' SUB k x. unfold view.
  destruct (lookup s' policySieve k) as [it'|] eqn:L'; [|discriminate]. intros X.
  destruct (SP.lookup_some (senv policySieve false 0) eq_refl s' k it' I' L') as (Hin & K' & _).
  destruct (SUB _ Hin) as [y0 [H0 E0]].
  assert (K0 : key y0 = k) by (unfold SP.ess in E0; congruence).
  pose proof (SP.lookup_of_in (senv policySieve false 0) eq_refl s y0 I H0 (Q _ H0)) as L0. cbn [e_pol senv] in L0.
  rewrite K0 in L0. rewrite L0. rewrite <- X. unfold SP.ess in E0. injection E0 as _ -> -> -> _. reflexivity.
Qed.

(* ================================================================== *)
(** * 3. Shard-level preservation of PolicyOK                           *)
(* ================================================================== *)

Lemma PolicyOK_sh_evs pol m s ev pe : PolicyOK pol m s -> PolicyOK pol m (sh_evs s ev pe).
Proof.
  intros (A & B & H). split; [exact A|]. split; [exact B|].
  change (is_sieve (sh_evs s ev pe) pol) with (is_sieve s pol).
  destruct (is_sieve s pol); [exact H|].
  destruct H as [G O]. split; [eapply CP.Good_frame; [apply CP.Frame_sh_evs|exact G]|exact O].
Qed.

Lemma PolicyOK_unstage pol m s :
  PolicyOK pol m s ->
  PolicyOK pol m (sh_set s (tabk s) (lst s) (lfu s) (prob s) (main s) (hand s) (size s) (scost s) []).
Proof.
  intros (A & B & H). split; [exact A|]. split; [exact B|].
  match goal with |- if is_sieve ?x pol then _ else _ => change (is_sieve x pol) with (is_sieve s pol) end.
  destruct (is_sieve s pol) eqn:IS; [exact H|].
  destruct H as [(C & L & N) O]. split; [|exact O]. split; [|split; [exact L|exact N]].
  destruct C as [C1 C2 C3 C4 C5 C6 C7 C8 C9 C10 C11]. constructor; sf; assumption.
Qed.

Lemma PolicyOK_adapts pol m s : PolicyOK pol m s -> PolicyOK pol m (adapts s).
Proof.
  intros (A & B & H). pose proof (CP.apply_adapts_frame (length (evs s)) s) as F. fold (adapts s) in F.
  pose proof (Stat_adapts s) as (S1 & S2 & S3 & S4).
  split; [rewrite S1; exact A|]. split; [rewrite S2; exact B|].
  rewrite (is_sieve_stat s (adapts s) pol S1). destruct (is_sieve s pol) eqn:IS.
  - destruct H as (I & Q & L & N & O).
    destruct (SP.adapts_preserves (senv policySieve false m) s I) as (I' & Q' & _ & L' & N').
    rewrite (over_frame _ _ F). refine (conj I' (conj (Q' Q) (conj (L' L) (conj (N' N) O)))).
  - destruct H as [G O]. split; [apply CP.adapts_good; exact G|].
    rewrite (over_frame _ _ F). intros [P|P]; apply O; [left; exact P|right; auto].
Qed.

Lemma view_adapts pol s k : view pol (adapts s) k = view pol s k.
Proof. apply view_frame. apply CP.apply_adapts_frame. Qed.
Lemma lookup_adapts pol s k : lookup (adapts s) pol k = lookup s pol k.
Proof. apply lookup_frame. apply CP.apply_adapts_frame. Qed.

(* ---- apply_set ---- *)
Lemma sieve_set_view e s k v ex c s' cm d fl :
  e_pol e = policySieve -> SP.SInv s -> SP.Quiet s -> SP.ASum e fl s k v ex c s' cm d ->
  forall k' x, view policySieve s' k' = Some x ->
    (k' = k /\ x = (v, ex, c)) \/ (k' <> k /\ view policySieve s k' = Some x).
Proof.
  intros Hp I Q AS k' x. unfold SP.ASum in AS. rewrite Hp in AS. cbv zeta in AS.
  destruct AS as (I' & Q' & _ & dl & _ & _ & _ & _ & _ & _ & _ & _ & _ & _ & P & _).
  unfold view. destruct (lookup s' policySieve k') as [it'|] eqn:L'; [|discriminate]. intros X.
  destruct (SP.lookup_some (senv policySieve false 0) eq_refl s' k' it' I' L') as (Hin & K' & U' & _).
  set (ins := SP.is_none (lookup s policySieve k)) in *.
  assert (A : In (SP.ess_as k ins it') ((k, v, ex, c, ins) :: map SP.ess (SP.others k (SP.items s)))).
  { apply (Permutation_in _ (Permutation_sym P)). apply in_or_app. right. apply in_map. exact Hin. }
  destruct A as [A|A].
  - left. pose proof (SP.ess_as_key k ins it') as EK. rewrite <- A in EK. cbn in EK.
    split; [congruence|]. unfold SP.ess_as in A. replace (key it' =? k) with true in A by lia.
    injection X as <-. congruence.
  - right. apply in_map_iff in A. destruct A as [it [Ei Hi]]. unfold SP.others in Hi. apply filter_In in Hi.
    destruct Hi as [Hi NK].
    assert (Ki : key it = key it').
    { pose proof (SP.ess_as_key k ins it') as EK. rewrite <- Ei in EK. exact EK. }
    assert (NK' : k' <> k) by lia. split; [exact NK'|].
    unfold SP.ess_as in Ei. replace (key it' =? k) with false in Ei by lia.
    pose proof (SP.lookup_of_in (senv policySieve false 0) eq_refl s it I Hi (Q _ Hi)) as L0. cbn [e_pol senv] in L0.
    rewrite Ki, K' in L0. rewrite L0. rewrite <- X. unfold SP.ess in Ei. injection Ei as _ -> -> -> _. reflexivity.
Qed.

Lemma apply_set_ok pol m e s k v ex c s' cm d :
  e_pol e = pol -> e_mask e = m -> PolicyOK pol m s -> 0 <= c -> (costcap s = 0 \/ c <= costcap s) ->
  apply_set e s k v ex c = (s', cm, d) ->
  PolicyOK pol m s' /\
  (forall k' x, view pol s' k' = Some x -> (k' = k /\ x = (v, ex, c)) \/ (k' <> k /\ view pol s k' = Some x)).
Proof.
  intros Hp Hm (A & B & H) Hc Hcc HS.
  pose proof (Stat_apply_set _ _ _ _ _ _ _ _ _ HS) as (S1 & S2 & S3 & S4).
  unfold apply_set in HS. rewrite Hp in HS.
  assert (IS' : is_sieve s' pol = is_sieve s pol) by (apply is_sieve_stat; exact S1).
  unfold PolicyOK. rewrite S1, S2, IS'.
  destruct (is_sieve s pol) eqn:IS.
  - destruct (is_sieve_true_inv _ _ IS) as [-> _]. destruct H as (I & Q & L & N & O).
    pose proof (CP.apply_adapts_frame (length (evs s)) s) as F. fold (adapts s) in F.
    destruct (SP.adapts_preserves e s I) as (Ia & Qa & _ & La & Na).
    specialize (Qa Q). specialize (La L). rewrite Hm in Na. specialize (Na N).
    assert (Oa : over_capacity (adapts s) = false) by (rewrite (over_frame _ _ F); exact O).
    assert (Hcca : costcap (adapts s) = 0 \/ c <= costcap (adapts s)) by (rewrite (CP.fr_costcap _ _ F); exact Hcc).
    destruct (SP.apply_sieve_budget_strong e Hp _ _ _ _ _ _ _ _ Ia Qa Oa Hc Hcca HS) as (I' & Q' & O' & _).
    pose proof (SP.apply_sieve_ledger e Hp _ _ _ _ _ _ _ _ Ia Qa Hc La HS) as L'.
    rewrite <- Hm in Na. pose proof (SP.apply_sieve_notiflog e Hp _ _ _ _ _ _ _ _ Ia Qa Hc Na HS) as N'. rewrite Hm in N'.
    split; [refine (conj A (conj B (conj I' (conj Q' (conj L' (conj N' O'))))))|].
    intros k' x X.
    pose proof (SP.apply_sieve_sum e Hp true _ _ _ _ _ _ _ _ Ia Qa Hc (SP.FuelHyp_true _ _) HS) as AS.
    destruct (sieve_set_view e _ _ _ _ _ _ _ _ true Hp Ia Qa AS k' x X) as [Y|[Y1 Y2]]; [left; exact Y|right].
    split; [exact Y1|]. rewrite view_adapts in Y2. exact Y2.
  - destruct H as [G O]. pose proof G as (C & _).
    pose proof (CP.apply_classic_good pol m e s k v ex c s' cm d Hp Hm Hc G HS) as G'.
    split.
    + split; [exact A|]. split; [exact B|]. split; [exact G'|]. intros P.
      assert (Hcc' : costcap s <= 0 \/ c <= costcap s) by lia.
      apply (CP.apply_classic_budget_strong pol e s k v ex c s' cm d Hp C Hc Hcc' A HS P).
    + intros k' x. unfold view. destruct (Z.eq_dec k' k) as [->|NK].
      * destruct (lookup s' pol k) as [it'|] eqn:L'; [|discriminate]. intros X. left. split; [reflexivity|].
        assert (E : it' = CP.new_item k v ex c).
        { destruct (lookup s pol k) as [old|] eqn:L0.
          - destruct (CP.update_effective pol e s k v ex c s' cm d old Hp C Hc L0 HS) as [[U|U] _]; congruence.
          - destruct (CP.apply_classic_spec pol e s k v ex c s' cm d Hp C Hc HS) as (_ & SPC).
            rewrite (CP.lookup_find _ _ _ C) in L0. rewrite L0 in SPC. destruct SPC as (l & s1 & _ & E1 & _).
            rewrite (CP.lookup_find _ _ _ (proj1 G')) in L'. rewrite E1, CP.find_ins_state, Z.eqb_refl in L'. congruence. }
        injection X as <-. rewrite E. reflexivity.
      * destruct (CP.others_unchanged_or_lost pol e s k v ex c s' cm d k' Hp C Hc NK HS) as [U|U]; rewrite U; [|discriminate].
        intros X. right. split; assumption.
Qed.


Definition Sub (pol : Z) (s s' : shard) : Prop := forall k x, view pol s' k = Some x -> view pol s k = Some x.
Lemma Sub_refl pol s : Sub pol s s. Proof. intros k x H; exact H. Qed.
Lemma Sub_trans pol a b c : Sub pol a b -> Sub pol b c -> Sub pol a c.
Proof. intros H1 H2 k x H. apply H1, H2, H. Qed.

Definition notif1 (m k v r : Z) : list notif :=
  if mask_has m r then [{| nkey := k; nval := v; nreason := r |}] else [].

(* ---- dropping the item found by lookup (expired in Get/Exists/Cleanup, Delete) ---- *)
Lemma lookup_drop_ok pol m e s k it r s' ok d :
  e_pol e = pol -> e_mask e = m -> PolicyOK pol m s -> 0 <= r -> lookup s pol k = Some it ->
  drop_item e s it r = (s', ok, d) ->
  PolicyOK pol m s' /\ ok = true /\ d = (if e_stats e && (r =? reasonCapacity) then 1 else 0) /\ key it = k /\
  view pol s' k = None /\ Sub pol s s' /\
  tabk s' = remz (tabk s) k /\ size s' = size s - 1 /\ scost s' = scost s - cost it /\ 0 <= cost it /\ serr s' = serr s /\
  glog s' = glog s ++ [(10 + r, k, val it)] /\
  nlog s' = nlog s ++ notif1 m k (val it) r /\ staged s' = staged s ++ notif1 m k (val it) r.
Proof.
  intros Hp Hm POK Hr LK HD. pose proof POK as (A & B & H).
  pose proof (Stat_drop_item _ _ _ _ _ _ _ HD) as (S1 & S2 & S3 & S4).
  assert (IS' : is_sieve s' pol = is_sieve s pol) by (apply is_sieve_stat; exact S1).
  destruct (is_sieve s pol) eqn:IS.
  - destruct (is_sieve_true_inv _ _ IS) as [-> _]. destruct H as (I & Q & L & N & O).
    rewrite <- Hp in LK.
    destruct (SP.lookup_some e Hp s k it I LK) as (Hin & K & U & Hkt & _).
    destruct (SP.drop_item_spec e Hp s it r I Hin) as [s2 (D' & F & P & T & Z1 & C & HO & G & NL & SG & SE & _)].
    rewrite HD in D'. injection D' as <- -> ->.
    assert (FR : SP.final_reason it r = r) by (unfold SP.final_reason; rewrite U; reflexivity).
    rewrite FR in *.
    destruct (SP.drop_item_preserves e Hp s it r s' _ _ I Hin Hr HD) as (_ & I' & Q' & _ & L' & N').
    specialize (Q' Q). specialize (L' L). rewrite Hm in N'. specialize (N' N).
    assert (C0 : 0 <= cost it).
    { destruct I as [_ _ _ _ _ Cn _ _ _ _ _]. apply Cn. exact Hin. }
    assert (O' : over_capacity s' = false).
    { unfold over_capacity in *. rewrite S1, S2, Z1, C. lia. }
    assert (POK' : PolicyOK policySieve m s').
    { unfold PolicyOK. rewrite S1, S2, IS'. refine (conj A (conj B (conj I' (conj Q' (conj L' (conj N' O')))))). }
    rewrite U in T. rewrite K in *.
    assert (ND : NoDup (tabk s)) by (destruct I; assumption).
    split; [exact POK'|]. split; [reflexivity|]. split; [reflexivity|]. split; [reflexivity|].
    split.
    { destruct (view policySieve s' k) eqn:V; [|reflexivity]. exfalso.
      assert (In k (tabk s')) by (apply (tab_view _ _ _ _ POK'); congruence).
      rewrite T in H. exact (CP.remz_not_self _ _ ND H). }
    split.
    { unfold Sub. apply sieve_sub; try assumption. intros y Hy.
      assert (X : In (SP.ess y) (map SP.ess (SP.items s))).
      { apply (Permutation_in _ (Permutation_sym P)). right. apply in_map. exact Hy. }
      apply in_map_iff in X. destruct X as [y0 [E0 H0]]. exists y0. split; assumption. }
    unfold SP.notif_of in *. rewrite Hm, K in *. unfold notif1.
    repeat split; assumption.
  - destruct H as [G O]. pose proof G as (CI & _). rewrite <- Hp in LK, G. rewrite <- Hm in G.
    destruct (CP.lookup_drop_good e s k it r s' ok d Hr G LK HD) as (G' & -> & ->).
    rewrite Hp in LK, G', G. rewrite Hm in G', G.
    destruct (CP.lookup_resident pol s k it CI LK) as (Hf & K & Hkt & Hin & C0 & U).
    rewrite <- Hp in IS. rewrite <- K in Hkt.
    destruct (CP.drop_item_rel e s it r s' true _ IS U Hkt HD) as (DR & _ & _ & SE & _).
    destruct DR as [D1 D2 D3 D4 D5 D6 D7 D8 D9 D10 D11 D12 D13]. rewrite Hp in IS. rewrite K in *.
    assert (POK' : PolicyOK pol m s').
    { unfold PolicyOK. rewrite S1, S2, IS'. split; [exact A|]. split; [exact B|]. split; [exact G'|].
      rewrite SE. intros PP. specialize (O PP). unfold over_capacity in *. rewrite D1, D2, D9, D10. lia. }
    split; [exact POK'|]. split; [reflexivity|]. split; [reflexivity|]. split; [reflexivity|].
    pose proof G' as (CI' & _).
    assert (LK' : forall k', lookup s' pol k' = if k' =? k then None else lookup s pol k').
    { intros k'. rewrite (CP.lookup_find _ _ _ CI'), (CP.lookup_find _ _ _ CI), D4.
      destruct (Z.eqb_spec k' k) as [->|NK].
      - apply CP.find_remove_same. apply (CP.ci_lst_nodup _ _ CI).
      - apply CP.find_remove_other. exact NK. }
    split; [unfold view; rewrite LK', Z.eqb_refl; reflexivity|].
    split.
    { intros k' x. unfold view. rewrite LK'. destruct (k' =? k); [discriminate|tauto]. }
    unfold CP.mk_notif in D11, D13. rewrite Hm, K in D11, D13. unfold notif1. repeat split; assumption.
Qed.

Lemma sub_tabk pol m s s' : PolicyOK pol m s -> PolicyOK pol m s' -> Sub pol s s' ->
  forall k, In k (tabk s') -> In k (tabk s).
Proof.
  intros P P' S k H. apply (tab_view _ _ _ _ P') in H. apply (tab_view _ _ _ _ P).
  destruct (view pol s' k) as [x|] eqn:V; [|congruence]. rewrite (S _ _ V). discriminate.
Qed.

(* ---- the read-hit update of op_get ---- *)
Definition touch (pol : Z) (s : shard) (k : Z) (it : item) : shard :=
  if is_sieve s pol then SP.get_touch s k it else CP.get_hit_upd pol s it k.

Lemma In_replace_item l n y : In y (replace_item l n) -> y = n \/ In y l.
Proof.
  induction l as [|a l IH]; cbn [replace_item]; [tauto|].
  destruct (key a =? key n); cbn [In]; intuition.
Qed.

Lemma touch_fields pol s k it :
  let s' := touch pol s k it in
  CP.Frame (sh_lists (sh_set s (tabk s) [] [] (prob s) (main s) (hand s) (size s) (scost s) (staged s)) [] [] None)
           (sh_lists (sh_set s' (tabk s') [] [] (prob s') (main s') (hand s') (size s') (scost s') (staged s')) [] [] None) /\
  Stat s s' /\ evs s' = evs s.
Proof.
  cbv zeta. unfold touch, SP.get_touch, CP.get_hit_upd.
  destruct (is_sieve s pol).
  - destruct (warmup s); [split; [apply CP.Frame_refl|split; [apply Stat_refl|reflexivity]]|].
    cbv zeta. destruct (has_key (prob s) k); (split; [constructor; reflexivity|split; [stat_easy|reflexivity]]).
  - destruct (pol =? policyLRU); [split; [constructor; reflexivity|split; [stat_easy|reflexivity]]|].
    destruct (pol =? policyLFU); [split; [constructor; reflexivity|split; [stat_easy|reflexivity]]|].
    split; [apply CP.Frame_refl|split; [apply Stat_refl|reflexivity]].
Qed.

Lemma touch_ok pol m s k it :
  PolicyOK pol m s -> lookup s pol k = Some it ->
  PolicyOK pol m (touch pol s k it) /\ Sub pol s (touch pol s k it).
Proof.
  intros (A & B & H) LK.
  destruct (touch_fields pol s k it) as (F & (S1 & S2 & S3 & S4) & _). cbv zeta in F.
  destruct F as [_ _ F3 _ _ _ _ _ F9 F10 _ _ _]. sf_in F3. sf_in F9. sf_in F10.
  assert (IS' : is_sieve (touch pol s k it) pol = is_sieve s pol) by (apply is_sieve_stat; exact S1).
  assert (OV : over_capacity (touch pol s k it) = over_capacity s).
  { apply CP.over_capacity_frame; assumption. }
  unfold PolicyOK. rewrite S1, S2, IS', OV. unfold touch in *.
  destruct (is_sieve s pol) eqn:IS.
  - destruct (is_sieve_true_inv _ _ IS) as [-> _]. destruct H as (I & Q & L & N & O).
    destruct (SP.get_touch_preserves (senv policySieve false m) eq_refl s k it I LK) as (I' & Q' & _ & L' & N').
    split; [refine (conj A (conj B (conj I' (conj (Q' Q) (conj (L' L) (conj (N' N) O))))))|].
    unfold Sub. apply sieve_sub; try assumption. intros y Hy.
    destruct (SP.lookup_some (senv policySieve false 0) eq_refl s k it I LK) as (Hin & _).
    assert (E : forall n, SP.ess n = SP.ess it -> forall l, (forall z, In z l -> In z (SP.items s)) ->
                In y (replace_item l n) -> exists y0, In y0 (SP.items s) /\ SP.ess y0 = SP.ess y).
    { intros n En l Hl Hy'. apply In_replace_item in Hy'. destruct Hy' as [->|Hy'].
      - exists it. split; [exact Hin|symmetry; exact En].
      - exists y. split; [apply Hl; exact Hy'|reflexivity]. }
    unfold SP.get_touch in Hy. destruct (warmup s); [exists y; split; [exact Hy|reflexivity]|].
    cbv zeta in Hy. unfold SP.items in *. destruct (has_key (prob s) k); sf_in Hy; apply in_app_or in Hy.
    + destruct Hy as [Hy|Hy]; [|exists y; split; [apply in_or_app; right; exact Hy|reflexivity]].
      eapply E; [|intros z Hz; apply in_or_app; left; exact Hz|exact Hy]. reflexivity.
    + destruct Hy as [Hy|Hy]; [exists y; split; [apply in_or_app; left; exact Hy|reflexivity]|].
      eapply E; [|intros z Hz; apply in_or_app; right; exact Hz|exact Hy]. reflexivity.
  - destruct H as [G O]. pose proof (CP.get_hit_good pol m s k it G LK) as G'.
    split.
    + split; [exact A|]. split; [exact B|]. split; [exact G'|].
      intros [P|P]; apply O; [left; exact P|right; auto].
    + intros k' x. unfold view. pose proof G as (C & _). pose proof G' as (C' & _).
      rewrite (CP.lookup_find _ _ _ C'), (CP.lookup_find _ _ _ C).
      rewrite (CP.lookup_find _ _ _ C) in LK. destruct (CP.find_item_Some _ _ _ LK) as [_ K].
      unfold CP.get_hit_upd. destruct (pol =? policyLRU); [|destruct (pol =? policyLFU); sf; tauto].
      sf. cbn [find_item]. rewrite K. destruct (Z.eqb_spec k k') as [<-|NK].
      * rewrite LK. tauto.
      * rewrite CP.find_remove_other by congruence. tauto.
Qed.

(* ---- Cleanup of one shard ---- *)
Lemma cleanup_fold_ok pol m e nw : e_pol e = pol -> e_mask e = m ->
  forall ks s ev ex s' ev' ex', PolicyOK pol m s ->
  fold_left (cleanup_shard e nw) ks (s, ev, ex) = (s', ev', ex') ->
  PolicyOK pol m s' /\ Sub pol s s' /\ Stat s s' /\ evs s' = evs s.
Proof.
  intros Hp Hm. induction ks as [|k ks IH]; intros s ev ex s' ev' ex' POK H; cbn [fold_left] in H.
  - injection H as <- _ _. split; [exact POK|]. split; [apply Sub_refl|]. split; [apply Stat_refl|reflexivity].
  - destruct (cleanup_shard e nw (s, ev, ex) k) as [[s1 ev1] ex1] eqn:E.
    assert (X : PolicyOK pol m s1 /\ Sub pol s s1 /\ Stat s s1 /\ evs s1 = evs s).
    { unfold cleanup_shard in E. rewrite Hp in E. destruct (lookup s pol k) as [it|] eqn:LK.
      - destruct (expired it nw).
        + destruct (drop_item e s it reasonExpired) as [[s2 ok] d] eqn:DI. injection E as <- _ _.
          assert (R : 0 <= reasonExpired) by (unfold reasonExpired; lia).
          destruct (lookup_drop_ok pol m e s k it _ _ _ _ Hp Hm POK R LK DI) as (P1 & _ & _ & _ & _ & P2 & _).
          split; [exact P1|]. split; [exact P2|]. split; [eapply Stat_drop_item; eauto|].
          unfold drop_item in DI. destruct (negb (unpub it) && negb (memz (tabk s) (key it))); injection DI as <- _ _; [reflexivity|].
          sf. destruct (is_sieve s (e_pol e)); [|reflexivity].
          unfold sieve_unlink. destruct (has_key (main s) (key it)); [reflexivity|]. destruct (has_key (prob s) (key it)); reflexivity.
        + injection E as <- _ _. split; [exact POK|]. split; [apply Sub_refl|]. split; [apply Stat_refl|reflexivity].
      - injection E as <- _ _. split; [exact POK|]. split; [apply Sub_refl|]. split; [apply Stat_refl|reflexivity]. }
    destruct X as (X1 & X2 & X3 & X4).
    destruct (IH _ _ _ _ _ _ X1 H) as (Y1 & Y2 & Y3 & Y4).
    split; [exact Y1|]. split; [eapply Sub_trans; eauto|]. split; [eapply Stat_trans; eauto|congruence].
Qed.

(* ---- Clear / Close ---- *)
Lemma clear_shard_ok pol m s : PolicyOK pol m s ->
  let s' := clear_shard pol s in
  PolicyOK pol m s' /\ tabk s' = [] /\ size s' = 0 /\ scost s' = 0 /\ Stat s s' /\ evs s' = evs s /\
  staged s' = staged s /\ nlog s' = nlog s /\ (forall k, view pol s' k = None).
Proof.
  intros (A & B & H). cbv zeta.
  assert (ST : Stat s (clear_shard pol s)) by stat_easy.
  assert (O' : over_capacity (clear_shard pol s) = false).
  { unfold over_capacity, clear_shard. sf. lia. }
  assert (V : forall k, view pol (clear_shard pol s) k = None).
  { intros k. unfold view, lookup, clear_shard. sf. reflexivity. }
  unfold PolicyOK. change (is_sieve (clear_shard pol s) pol) with (is_sieve s pol).
  change (cap (clear_shard pol s)) with (cap s). change (costcap (clear_shard pol s)) with (costcap s).
  rewrite O'. destruct (is_sieve s pol) eqn:IS.
  - destruct (is_sieve_true_inv _ _ IS) as [-> _]. destruct H as (I & Q & L & N & O).
    destruct (SP.clear_shard_preserves (senv policySieve false m) eq_refl m s I Q) as (I' & Q' & L' & N' & Z1 & Z2 & T & SG).
    cbn [e_pol senv] in *.
    split; [refine (conj A (conj B (conj I' (conj Q' (conj (L' L) (conj (N' N) eq_refl))))))|].
    assert (NL : nlog (clear_shard policySieve s) = nlog s) by (unfold clear_shard; sf; rewrite app_nil_r; reflexivity).
    refine (conj eq_refl (conj eq_refl (conj eq_refl (conj ST (conj eq_refl (conj eq_refl (conj NL V))))))).
  - destruct H as [G O]. pose proof (CP.clear_shard_good pol m s G) as G'.
    split; [split; [exact A|]; split; [exact B|]; split; [exact G'|intros _; reflexivity]|].
    assert (NL : nlog (clear_shard pol s) = nlog s) by (unfold clear_shard; sf; rewrite app_nil_r; reflexivity).
    refine (conj eq_refl (conj eq_refl (conj eq_refl (conj ST (conj eq_refl (conj eq_refl (conj NL V))))))).
Qed.


(* ================================================================== *)
(** * 4. Lists of shards: set_nth                                       *)
(* ================================================================== *)

Lemma length_set_nth {A} (l : list A) i x : length (set_nth l i x) = length l.
Proof. revert i; induction l as [|a l IH]; intros [|i]; cbn [set_nth length]; auto. Qed.

Lemma nth_error_set_nth_eq {A} (l : list A) i x y : nth_error l i = Some y -> nth_error (set_nth l i x) i = Some x.
Proof. apply CP.nth_error_set_nth_same. Qed.

Lemma nth_error_set_nth_neq {A} (l : list A) i j x : i <> j -> nth_error (set_nth l i x) j = nth_error l j.
Proof.
  revert i j; induction l as [|a l IH]; intros [|i] [|j] N; cbn [set_nth nth_error]; try reflexivity; try congruence.
  apply IH. congruence.
Qed.

Lemma In_set_nth {A} (l : list A) i x y : In y (set_nth l i x) -> y = x \/ In y l.
Proof.
  revert i; induction l as [|a l IH]; intros [|i]; cbn [set_nth In]; try tauto.
  - intuition.
  - intros [H|H]; [tauto|]. destruct (IH _ H); tauto.
Qed.

Lemma map_set_nth {A B} (f : A -> B) (l : list A) i x y :
  nth_error l i = Some y -> f x = f y -> map f (set_nth l i x) = map f l.
Proof.
  revert i; induction l as [|a l IH]; intros [|i]; cbn [set_nth nth_error map]; try discriminate.
  - intros H E; injection H as ->. rewrite E. reflexivity.
  - intros H E. rewrite (IH _ H E). reflexivity.
Qed.

Lemma set_nth_same {A} (l : list A) i y : nth_error l i = Some y -> set_nth l i y = l.
Proof.
  revert i; induction l as [|a l IH]; intros [|i]; cbn [set_nth nth_error]; try discriminate.
  - intros H; injection H as ->. reflexivity.
  - intros H. rewrite (IH _ H). reflexivity.
Qed.

(* configuration fields that no operation changes *)
Record Cfg (c c' : cache) : Prop := {
  cf_policy : policy c' = policy c; cf_nshards : nshards c' = nshards c; cf_defttl : defttl c' = defttl c;
  cf_stats : statsOn c' = statsOn c; cf_mask : mask c' = mask c; cf_track : trackCost c' = trackCost c;
  cf_len : length (shards c') = length (shards c);
  cf_caps : map cap (shards c') = map cap (shards c);
  cf_costcaps : map costcap (shards c') = map costcap (shards c) }.

Lemma Cfg_refl c : Cfg c c.
Proof. constructor; reflexivity. Qed.
Lemma Cfg_trans a b c : Cfg a b -> Cfg b c -> Cfg a c.
Proof. intros [] []. constructor; congruence. Qed.

Lemma Cfg_put c sh s s1 h m ev ex :
  get_shard c sh = Some s -> cap s1 = cap s -> costcap s1 = costcap s -> Cfg c (put_shard c sh s1 h m ev ex).
Proof.
  intros G C1 C2. unfold get_shard in G. constructor; cbn [put_shard policy nshards defttl statsOn mask trackCost shards]; try reflexivity.
  - apply length_set_nth.
  - eapply map_set_nth; eauto.
  - eapply map_set_nth; eauto.
Qed.

Lemma Cfg_with_shards c l cl t :
  length l = length (shards c) -> map cap l = map cap (shards c) -> map costcap l = map costcap (shards c) ->
  Cfg c (with_shards c l cl t).
Proof. intros. constructor; cbn; auto. Qed.

Lemma get_put_other c sh s1 h m ev ex j : Z.to_nat sh <> j ->
  nth_error (shards (put_shard c sh s1 h m ev ex)) j = nth_error (shards c) j.
Proof. intros N. cbn [put_shard shards]. apply nth_error_set_nth_neq. exact N. Qed.

Lemma get_put_eq c sh s s1 h m ev ex : get_shard c sh = Some s ->
  nth_error (shards (put_shard c sh s1 h m ev ex)) (Z.to_nat sh) = Some s1.
Proof. intros G. cbn [put_shard shards]. eapply nth_error_set_nth_eq. exact G. Qed.

(* ================================================================== *)
(** * 5. ShardOK, CacheInv                                              *)
(* ================================================================== *)
Section Placement.
Variable shard_of : Z -> Z.

Definition cmd_ok (i : Z) (s : shard) (cmd : list Z) : Prop :=
  exists k v ttl cst, cmd = [k; v; ttl; cst] /\ 0 <= cst /\ (costcap s = 0 \/ cst <= costcap s) /\ shard_of k = i.

Definition ShardOK (pol m i : Z) (s : shard) : Prop :=
  PolicyOK pol m s /\ Forall (cmd_ok i s) (pend s) /\ (forall k, In k (tabk s) -> shard_of k = i).

Definition CacheInv (c : cache) : Prop :=
  Z.of_nat (length (shards c)) = nshards c /\
  (forall i s, nth_error (shards c) i = Some s -> ShardOK (policy c) (mask c) (Z.of_nat i) s) /\
  (closed c = true -> forall s, In s (shards c) -> tabk s = [] /\ pend s = []).

Lemma cmd_ok_costcap i s s' cmd : costcap s' = costcap s -> cmd_ok i s cmd -> cmd_ok i s' cmd.
Proof. unfold cmd_ok. intros ->. tauto. Qed.

Lemma ShardOK_step pol m i s s' :
  ShardOK pol m i s -> PolicyOK pol m s' -> costcap s' = costcap s -> pend s' = pend s ->
  (forall k, In k (tabk s') -> In k (tabk s)) -> ShardOK pol m i s'.
Proof.
  intros (P & F & T) P' C PE TS. split; [exact P'|]. split.
  - rewrite PE. eapply Forall_impl; [|exact F]. intros cmd. apply cmd_ok_costcap. exact C.
  - intros k H. apply T, TS, H.
Qed.

Lemma ShardOK_pend pol m i s ev pe :
  ShardOK pol m i s -> Forall (cmd_ok i s) pe -> ShardOK pol m i (sh_evs s ev pe).
Proof.
  intros (P & F & T) F'. split; [apply PolicyOK_sh_evs; exact P|]. split; [exact F'|exact T].
Qed.

Lemma CacheInv_get c i s : CacheInv c -> get_shard c i = Some s ->
  ShardOK (policy c) (mask c) (Z.of_nat (Z.to_nat i)) s.
Proof. intros (_ & H & _) G. apply H. exact G. Qed.

Lemma CacheInv_put c sh s s1 h m ev ex :
  CacheInv c -> get_shard c sh = Some s ->
  ShardOK (policy c) (mask c) (Z.of_nat (Z.to_nat sh)) s1 ->
  (closed c = true -> tabk s1 = [] /\ pend s1 = []) ->
  CacheInv (put_shard c sh s1 h m ev ex).
Proof.
  intros (L & H & CL) G OK1 CL1. split; [|split].
  - cbn [put_shard shards nshards]. rewrite length_set_nth. exact L.
  - intros i s2 N. change (policy (put_shard c sh s1 h m ev ex)) with (policy c).
    change (mask (put_shard c sh s1 h m ev ex)) with (mask c).
    destruct (Nat.eq_dec (Z.to_nat sh) i) as [<-|NE].
    + rewrite (get_put_eq _ _ _ _ _ _ _ _ G) in N. injection N as <-. exact OK1.
    + rewrite get_put_other in N by exact NE. apply H. exact N.
  - change (closed (put_shard c sh s1 h m ev ex)) with (closed c). intros E s2 I2.
    cbn [put_shard shards] in I2. apply In_set_nth in I2. destruct I2 as [->|I2]; [apply CL1; exact E|apply CL; assumption].
Qed.

(* replacing every shard by f(shard) *)
Lemma CacheInv_map c f cl t :
  CacheInv c ->
  (forall i s, ShardOK (policy c) (mask c) i s -> ShardOK (policy c) (mask c) i (f s)) ->
  (cl = true -> forall s, In s (shards c) -> tabk (f s) = [] /\ pend (f s) = []) ->
  CacheInv (with_shards c (map f (shards c)) cl t).
Proof.
  intros (L & H & CL) HF HC. split; [|split].
  - cbn. rewrite map_length. exact L.
  - intros i s N. cbn in N |- *. rewrite nth_error_map in N. destruct (nth_error (shards c) i) as [s0|] eqn:E; [|discriminate].
    injection N as <-. apply HF. apply H. exact E.
  - cbn. intros E s I. apply in_map_iff in I. destruct I as [s0 [<- I0]]. apply HC; assumption.
Qed.

(* ------------------------------------------------------------------ attach_events *)
Lemma attach_events_inv : forall n l c, (length l <= n)%nat -> CacheInv c ->
  CacheInv (attach_events c l) /\ Cfg c (attach_events c l) /\
  now (attach_events c l) = now c /\ closed (attach_events c l) = closed c /\
  hits (attach_events c l) = hits c /\ misses (attach_events c l) = misses c /\
  evictions (attach_events c l) = evictions c /\ expirations (attach_events c l) = expirations c.
Proof.
  induction n as [|n IH]; intros l c Hl I.
  - destruct l; [|cbn in Hl; lia]. cbn [attach_events].
    refine (conj I (conj (Cfg_refl c) (conj eq_refl (conj eq_refl (conj eq_refl (conj eq_refl (conj eq_refl eq_refl))))))).
  - destruct l as [|kind [|sh [|a r]]]; cbn [attach_events];
      try refine (conj I (conj (Cfg_refl c) (conj eq_refl (conj eq_refl (conj eq_refl (conj eq_refl (conj eq_refl eq_refl))))))).
    destruct (get_shard c sh) as [s|] eqn:G.
    + assert (I1 : CacheInv (put_shard c sh (sh_evs s (evs s ++ [(kind, a)]) (pend s)) (hits c) (misses c) (evictions c) (expirations c))).
      { apply (CacheInv_put c sh s _ _ _ _ _ I G).
        - pose proof (CacheInv_get _ _ _ I G) as OK. apply ShardOK_pend; [exact OK|apply OK].
        - intros E. destruct I as (_ & _ & CL). unfold get_shard in G. exact (CL E s (nth_error_In _ _ G)). }
      destruct (IH r _ ltac:(cbn in Hl; lia) I1) as (A1 & A2 & A3 & A4 & A5 & A6 & A7 & A8).
      split; [exact A1|]. split; [refine (Cfg_trans _ _ _ _ A2); apply (Cfg_put c sh s _ _ _ _ _ G); reflexivity|].
      cbn [put_shard now closed hits misses evictions expirations] in A3, A4, A5, A6, A7, A8.
      exact (conj A3 (conj A4 (conj A5 (conj A6 (conj A7 A8))))).
    + apply IH; [cbn in Hl; lia|exact I].
Qed.
End Placement.

(* ================================================================== *)
(** * 6. Canonical forms: every shard-local operation is one put_shard *)
(* ================================================================== *)

Lemma put_shard_id c sh s : get_shard c sh = Some s ->
  put_shard c sh s (hits c) (misses c) (evictions c) (expirations c) = c.
Proof. intros G. unfold put_shard. rewrite (set_nth_same _ _ _ G). destruct c; reflexivity. Qed.

Lemma set_nth_set_nth {A} (l : list A) i x y : set_nth (set_nth l i x) i y = set_nth l i y.
Proof. revert i; induction l as [|a l IH]; intros [|i]; cbn [set_nth]; try reflexivity. rewrite IH. reflexivity. Qed.

Lemma put_put c sh s1 s2 h1 m1 e1 x1 h2 m2 e2 x2 :
  put_shard (put_shard c sh s1 h1 m1 e1 x1) sh s2 h2 m2 e2 x2 = put_shard c sh s2 h2 m2 e2 x2.
Proof. unfold put_shard. cbn. rewrite set_nth_set_nth. reflexivity. Qed.

Lemma sh_evs_id s : pend s = [] -> sh_evs s (evs s) [] = s.
Proof. intros E. destruct s; cbn in *. subst. reflexivity. Qed.

(* the queued commands of one shard, applied to the shard itself *)
Fixpoint drain_sh (e : env) (nw : Z) (s : shard) (cmds : list (list Z)) : shard * Z :=
  match cmds with
  | [] => (s, 0)
  | [k; v; ttl; cst] :: r =>
      let '(s1, _, d) := apply_set e s k v (stamp ttl nw) cst in
      let '(s2, d2) := drain_sh e nw s1 r in (s2, d + d2)
  | _ :: r => drain_sh e nw s r
  end.

Lemma apply_cmd_eq c sh k v ttl cst s : get_shard c sh = Some s ->
  apply_cmd c sh k v ttl cst =
  put_shard c sh (fst (fst (apply_set (env_of c) s k v (stamp ttl (now c)) cst))) (hits c) (misses c)
            (evictions c + snd (apply_set (env_of c) s k v (stamp ttl (now c)) cst)) (expirations c).
Proof.
  intros G. unfold apply_cmd. rewrite G.
  destruct (apply_set (env_of c) s k v (stamp ttl (now c)) cst) as [[s1 cm] d]. reflexivity.
Qed.

Lemma drain_cmds_eq : forall cmds c sh s, get_shard c sh = Some s ->
  drain_cmds c sh cmds =
  put_shard c sh (fst (drain_sh (env_of c) (now c) s cmds)) (hits c) (misses c)
            (evictions c + snd (drain_sh (env_of c) (now c) s cmds)) (expirations c).
Proof.
  induction cmds as [|cmd r IH]; intros c sh s G.
  - cbn [drain_cmds drain_sh fst snd]. rewrite Z.add_0_r. symmetry. apply put_shard_id. exact G.
  - assert (SKIP : drain_cmds c sh r = put_shard c sh (fst (drain_sh (env_of c) (now c) s r)) (hits c) (misses c)
            (evictions c + snd (drain_sh (env_of c) (now c) s r)) (expirations c)) by (apply IH; exact G).
    destruct cmd as [|k [|v [|ttl [|cst [|x y]]]]]; cbn [drain_cmds drain_sh]; try exact SKIP.
    rewrite (apply_cmd_eq c sh k v ttl cst s G).
    destruct (apply_set (env_of c) s k v (stamp ttl (now c)) cst) as [[s1 cm] d] eqn:E. cbn [fst snd].
    rewrite (IH _ sh s1) by (eapply CP.get_put_same; exact G).
    rewrite put_put. unfold env_of. cbn [put_shard policy statsOn mask now hits misses evictions expirations].
    destruct (drain_sh {| e_pol := policy c; e_stats := statsOn c; e_mask := mask c |} (now c) s1 r) as [s2 d2].
    cbn [fst snd]. rewrite Z.add_assoc. reflexivity.
Qed.

Definition drained (c : cache) (s : shard) : shard * Z :=
  drain_sh (env_of c) (now c) (sh_evs s (evs s) []) (pend s).

Lemma drain_shard_eq c sh s : get_shard c sh = Some s ->
  drain_shard c sh = put_shard c sh (fst (drained c s)) (hits c) (misses c) (evictions c + snd (drained c s)) (expirations c).
Proof.
  intros G. unfold drain_shard, drained. rewrite G. destruct (pend s) as [|cmd r] eqn:E.
  - cbn [drain_sh fst snd]. rewrite Z.add_0_r. rewrite sh_evs_id by exact E. symmetry. apply put_shard_id. exact G.
  - rewrite (drain_cmds_eq _ _ sh (sh_evs s (evs s) [])) by (eapply CP.get_put_same; exact G).
    rewrite put_put. reflexivity.
Qed.

Lemma Stat_drain_sh e nw : forall cmds s, Stat s (fst (drain_sh e nw s cmds)).
Proof.
  induction cmds as [|cmd r IH]; intros s; [apply Stat_refl|].
  destruct cmd as [|k [|v [|ttl [|cst [|x y]]]]]; cbn [drain_sh]; try apply IH.
  destruct (apply_set e s k v (stamp ttl nw) cst) as [[s1 cm] d] eqn:E.
  pose proof (IH s1) as S2. destruct (drain_sh e nw s1 r) as [s2 d2]. cbn [fst] in *.
  eapply Stat_trans; [eapply Stat_apply_set; eauto|exact S2].
Qed.

Lemma Stat_drained c s : cap (fst (drained c s)) = cap s /\ costcap (fst (drained c s)) = costcap s /\
  pend (fst (drained c s)) = [] /\ (serr (fst (drained c s)) = 0 -> serr s = 0).
Proof. destruct (Stat_drain_sh (env_of c) (now c) (pend s) (sh_evs s (evs s) [])) as (A & B & C & D). auto. Qed.


(* ================================================================== *)
(** * 7. CacheInv is preserved by every operation (C03, item 6)         *)
(* ================================================================== *)
Section Preservation.
Variable shard_of : Z -> Z.
Notation ShardOK := (ShardOK shard_of).
Notation CacheInv := (CacheInv shard_of).
Notation cmd_ok := (cmd_ok shard_of).

Lemma CacheInv_ext c c' :
  shards c' = shards c -> nshards c' = nshards c -> policy c' = policy c -> mask c' = mask c -> closed c' = closed c ->
  CacheInv c -> CacheInv c'.
Proof. unfold CacheInv, CacheProofs.CacheInv. intros -> -> -> -> ->. tauto. Qed.

Lemma apply_set_shardok pol m i e s k v ex c s' cm d :
  e_pol e = pol -> e_mask e = m -> ShardOK pol m i s -> 0 <= c -> (costcap s = 0 \/ c <= costcap s) -> shard_of k = i ->
  apply_set e s k v ex c = (s', cm, d) -> ShardOK pol m i s'.
Proof.
  intros Hp Hm OK Hc Hcc Hk HS. pose proof OK as (P & F & T).
  destruct (apply_set_ok pol m e s k v ex c s' cm d Hp Hm P Hc Hcc HS) as (P' & V).
  pose proof (Stat_apply_set _ _ _ _ _ _ _ _ _ HS) as (S1 & S2 & S3 & S4).
  split; [exact P'|]. split.
  - rewrite S3. eapply Forall_impl; [|exact F]. intros cmd. apply cmd_ok_costcap. exact S2.
  - intros k' H. apply (tab_view _ _ _ _ P') in H. destruct (view pol s' k') as [x|] eqn:E; [|congruence].
    destruct (V _ _ E) as [[-> _]|[_ V0]]; [exact Hk|]. apply T. apply (tab_view _ _ _ _ P). congruence.
Qed.

Lemma drain_sh_ok pol m i e nw : e_pol e = pol -> e_mask e = m ->
  forall cmds s, ShardOK pol m i s -> Forall (cmd_ok i s) cmds -> ShardOK pol m i (fst (drain_sh e nw s cmds)).
Proof.
  intros Hp Hm. induction cmds as [|cmd r IH]; intros s OK F; [exact OK|].
  apply Forall_cons_iff in F. destruct F as [F1 F2]. destruct F1 as (k & v & ttl & cst & -> & Hc & Hcc & Hk).
  cbn [drain_sh]. destruct (apply_set e s k v (stamp ttl nw) cst) as [[s1 cm] d] eqn:E.
  pose proof (apply_set_shardok pol m i e s k v _ cst s1 cm d Hp Hm OK Hc Hcc Hk E) as OK1.
  pose proof (Stat_apply_set _ _ _ _ _ _ _ _ _ E) as (_ & S2 & _).
  assert (F2' : Forall (cmd_ok i s1) r) by (eapply Forall_impl; [|exact F2]; intros cmd; apply cmd_ok_costcap; exact S2).
  specialize (IH s1 OK1 F2'). destruct (drain_sh e nw s1 r) as [s2 d2]. exact IH.
Qed.

Lemma drained_ok c i s : ShardOK (policy c) (mask c) i s -> ShardOK (policy c) (mask c) i (fst (drained c s)).
Proof.
  intros OK. unfold drained. apply drain_sh_ok; try reflexivity.
  - apply ShardOK_pend; [exact OK|constructor].
  - apply OK.
Qed.

Lemma drained_quiet c s : pend s = [] -> drained c s = (s, 0).
Proof. intros E. unfold drained. rewrite E. cbn [drain_sh]. rewrite sh_evs_id by exact E. reflexivity. Qed.

Lemma closed_shard c s sh : CacheInv c -> closed c = true -> get_shard c sh = Some s -> tabk s = [] /\ pend s = [].
Proof. intros (_ & _ & CL) E G. apply (CL E). unfold get_shard in G. eapply nth_error_In; eauto. Qed.

Lemma drain_shard_inv c sh : CacheInv c ->
  CacheInv (drain_shard c sh) /\ Cfg c (drain_shard c sh) /\ now (drain_shard c sh) = now c /\ closed (drain_shard c sh) = closed c.
Proof.
  intros I. destruct (get_shard c sh) as [s|] eqn:G.
  - rewrite (drain_shard_eq c sh s G). destruct (Stat_drained c s) as (S1 & S2 & S3 & S4).
    split; [|split; [apply (Cfg_put c sh s _ _ _ _ _ G); assumption|split; reflexivity]].
    apply (CacheInv_put shard_of c sh s _ _ _ _ _ I G).
    + apply drained_ok. apply (CacheInv_get _ _ _ _ I G).
    + intros E. destruct (closed_shard c s sh I E G) as [T PE]. rewrite (drained_quiet c s PE). auto.
  - unfold drain_shard. rewrite G. split; [exact I|]. split; [apply Cfg_refl|split; reflexivity].
Qed.

Lemma drain_fold_inv l : forall c, CacheInv c ->
  CacheInv (fold_left drain_shard l c) /\ Cfg c (fold_left drain_shard l c) /\
  now (fold_left drain_shard l c) = now c /\ closed (fold_left drain_shard l c) = closed c.
Proof.
  induction l as [|a l IH]; intros c I; cbn [fold_left].
  - split; [exact I|]. split; [apply Cfg_refl|split; reflexivity].
  - destruct (drain_shard_inv c a I) as (I1 & C1 & N1 & L1). destruct (IH _ I1) as (I2 & C2 & N2 & L2).
    split; [exact I2|]. split; [eapply Cfg_trans; eauto|split; congruence].
Qed.

Lemma drain_shard_nth c sh j s' : nth_error (shards (drain_shard c sh)) j = Some s' ->
  (j = Z.to_nat sh /\ pend s' = [] /\ exists s, nth_error (shards c) j = Some s) \/
  (j <> Z.to_nat sh /\ nth_error (shards c) j = Some s').
Proof.
  destruct (get_shard c sh) as [s|] eqn:G.
  - rewrite (drain_shard_eq c sh s G). destruct (Nat.eq_dec (Z.to_nat sh) j) as [<-|NE].
    + rewrite (get_put_eq _ _ _ _ _ _ _ _ G). intros H; injection H as <-. left.
      split; [reflexivity|]. split; [apply Stat_drained|exists s; exact G].
    + rewrite get_put_other by exact NE. intros H. right. split; [congruence|exact H].
  - unfold drain_shard. rewrite G. intros H. destruct (Nat.eq_dec (Z.to_nat sh) j) as [<-|NE].
    + unfold get_shard in G. congruence.
    + right. split; [congruence|exact H].
Qed.

Lemma drain_fold_pend l : (forall x, In x l -> 0 <= x) -> forall c j s',
  nth_error (shards (fold_left drain_shard l c)) j = Some s' ->
  (exists s, nth_error (shards c) j = Some s /\ (pend s = [] -> pend s' = [])) /\
  (In (Z.of_nat j) l -> pend s' = []).
Proof.
  induction l as [|a l IH]; intros Hl c j s' H; cbn [fold_left] in H.
  - split; [exists s'; tauto|intros []].
  - assert (Hl' : forall x, In x l -> 0 <= x) by (intros x Hx; apply Hl; right; exact Hx).
    destruct (IH Hl' _ _ _ H) as ((s1 & N1 & P1) & Q1).
    destruct (drain_shard_nth _ _ _ _ N1) as [(E & PE & (s & Ns))|(NE & Ns)].
    + split; [exists s; split; [exact Ns|intros _; exact (P1 PE)]|intros _; exact (P1 PE)].
    + split; [exists s1; tauto|]. intros [Ha|Hi]; [|exact (Q1 Hi)]. exfalso. apply NE. subst a. lia.
Qed.

Lemma drain_all_inv c : CacheInv c ->
  CacheInv (drain_all c) /\ Cfg c (drain_all c) /\ now (drain_all c) = now c /\ closed (drain_all c) = closed c /\
  (forall s, In s (shards (drain_all c)) -> pend s = []).
Proof.
  intros I. unfold drain_all. destruct (drain_fold_inv (zseq 0 (length (shards c))) c I) as (A & B & C & D).
  split; [exact A|]. split; [exact B|]. split; [exact C|]. split; [exact D|].
  intros s Hs. apply In_nth_error in Hs. destruct Hs as [j Hj].
  assert (Hlt : (j < length (shards c))%nat).
  { rewrite <- (cf_len _ _ B). apply nth_error_Some. congruence. }
  refine (proj2 (drain_fold_pend _ _ c j s Hj) _).
  - intros x Hx. apply zseq_In in Hx. lia.
  - apply zseq_In. lia.
Qed.

(* ------------------------------------------------------------------ Set / SetAsync *)
Lemma set_check_ok c sh cst : CacheInv c -> set_check c sh cst = 0 ->
  exists s, get_shard c sh = Some s /\ 0 <= cst /\ (costcap s = 0 \/ cst <= costcap s) /\ closed c = false.
Proof.
  intros I. unfold set_check. destruct (Z.ltb_spec cst 0); [discriminate|].
  destruct (get_shard c sh) as [s|] eqn:G; [|discriminate].
  destruct ((0 <? costcap s) && (costcap s <? cst)) eqn:E; [discriminate|].
  destruct (closed c); [discriminate|]. intros _. exists s.
  destruct (CacheInv_get _ _ _ _ I G) as ((_ & B & _) & _). repeat split; try assumption; lia.
Qed.

Lemma set_check_static c c' sh cst : Cfg c c' -> closed c' = closed c -> set_check c' sh cst = set_check c sh cst.
Proof.
  intros CF CL. unfold set_check. rewrite CL. unfold get_shard.
  pose proof (cf_costcaps _ _ CF) as CC.
  assert (E : option_map costcap (nth_error (shards c') (Z.to_nat sh)) = option_map costcap (nth_error (shards c) (Z.to_nat sh))).
  { rewrite <- !nth_error_map, CC. reflexivity. }
  destruct (nth_error (shards c') (Z.to_nat sh)) as [s'|], (nth_error (shards c) (Z.to_nat sh)) as [s|]; cbn in E; try discriminate; [|reflexivity].
  injection E as ->. reflexivity.
Qed.

Lemma op_set_inv c k v ttl cst sh : CacheInv c ->
  (set_check c sh cst = 0 -> shard_of k = Z.of_nat (Z.to_nat sh)) ->
  let c' := fst (op_set c k v ttl cst sh) in
  CacheInv c' /\ Cfg c c' /\ now c' = now c /\ closed c' = closed c.
Proof.
  intros I WF. cbv zeta. unfold op_set. destruct (negb (set_check c sh cst =? 0)) eqn:R; cbn [fst].
  - split; [exact I|]. split; [apply Cfg_refl|split; reflexivity].
  - assert (R0 : set_check c sh cst = 0) by lia. specialize (WF R0).
    destruct (set_check_ok c sh cst I R0) as (s & G & Hc & Hcc & CL).
    destruct (drain_shard_inv c sh I) as (I1 & C1 & N1 & L1).
    rewrite (drain_shard_eq c sh s G) in *.
    set (c1 := put_shard c sh (fst (drained c s)) (hits c) (misses c) (evictions c + snd (drained c s)) (expirations c)) in *.
    assert (G1 : get_shard c1 sh = Some (fst (drained c s))) by (eapply CP.get_put_same; exact G).
    rewrite (apply_cmd_eq c1 sh k v _ cst _ G1).
    destruct (apply_set (env_of c1) (fst (drained c s)) k v (stamp (norm_ttl c ttl) (now c1)) cst) as [[s2 cm] d] eqn:E.
    cbn [fst snd]. pose proof (Stat_apply_set _ _ _ _ _ _ _ _ _ E) as (S1 & S2 & S3 & S4).
    destruct (Stat_drained c s) as (D1 & D2 & D3 & D4).
    split; [|split; [eapply Cfg_trans; [exact C1|apply (Cfg_put c1 sh _ _ _ _ _ _ G1); assumption]|split; [exact N1|exact L1]]].
    apply (CacheInv_put shard_of c1 sh _ _ _ _ _ _ I1 G1).
    + refine (apply_set_shardok (policy c1) (mask c1) _ (env_of c1) _ k v _ cst s2 cm d eq_refl eq_refl _ Hc _ WF E).
      * apply (CacheInv_get _ _ _ _ I1 G1).
      * rewrite D2. exact Hcc.
    + rewrite L1, CL. discriminate.
Qed.

Lemma op_set_async_inv c k v ttl cst sh : CacheInv c ->
  (set_check c sh cst = 0 -> shard_of k = Z.of_nat (Z.to_nat sh)) ->
  let c' := fst (op_set_async c k v ttl cst sh) in
  CacheInv c' /\ Cfg c c' /\ now c' = now c /\ closed c' = closed c.
Proof.
  intros I WF. cbv zeta. unfold op_set_async. destruct (negb (set_check c sh cst =? 0)) eqn:R; cbn [fst].
  - split; [exact I|]. split; [apply Cfg_refl|split; reflexivity].
  - assert (R0 : set_check c sh cst = 0) by lia. specialize (WF R0).
    destruct (set_check_ok c sh cst I R0) as (s & G & Hc & Hcc & CL). rewrite G. cbn [fst].
    split; [|split; [apply (Cfg_put c sh s _ _ _ _ _ G); reflexivity|split; reflexivity]].
    apply (CacheInv_put shard_of c sh s _ _ _ _ _ I G); [|rewrite CL; discriminate].
    pose proof (CacheInv_get _ _ _ _ I G) as OK. apply ShardOK_pend; [exact OK|].
    apply Forall_app. split; [apply OK|]. constructor; [|constructor].
    exists k, v, (norm_ttl c ttl), cst. repeat split; assumption.
Qed.
End Preservation.


(* the part of op_get after the (optional) drain: c0 is the cache, s the key's shard *)
Definition get_at (c0 : cache) (sieve : bool) (k sh : Z) (s : shard) : cache * bool * Z * Z :=
  let st := statsOn c0 in
  match lookup s (policy c0) k with
  | None => (put_shard c0 sh s (hits c0) (if st then misses c0 + 1 else misses c0) (evictions c0) (expirations c0), false, 0, 0)
  | Some it =>
    if expired it (now c0) then
      let '(s1, _, d) := drop_item (env_of c0) s it reasonExpired in
      (put_shard c0 sh (adapts s1) (hits c0) (if st then misses c0 + 1 else misses c0) (evictions c0 + d)
                 (if st then expirations c0 + 1 else expirations c0), false, 0, 0)
    else
      let s1 :=
        if sieve then
          (if warmup s then s
           else let it' := set_flags it (reuse it) true (unpub it) in
                if has_key (prob s) k then sh_lists s (replace_item (prob s) it') (main s) (hand s)
                else sh_lists s (prob s) (replace_item (main s) it') (hand s))
        else if policy c0 =? policyLRU then
          sh_set s (tabk s) (it :: remove_key (lst s) k) (lfu s) (prob s) (main s) (hand s) (size s) (scost s) (staged s)
        else if policy c0 =? policyLFU then
          sh_set s (tabk s) (lst s) (lfu_increment (lfu s) k) (prob s) (main s) (hand s) (size s) (scost s) (staged s)
        else s in
      (put_shard c0 sh (adapts s1) (if st then hits c0 + 1 else hits c0) (misses c0) (evictions c0) (expirations c0),
       true, val it, if exp it =? 0 then -1 else exp it - now c0)
  end.

Definition get_c0 (c : cache) (k sh : Z) (s0 : shard) : cache :=
  if is_sieve s0 (policy c) && negb (memz (tabk s0) k) then drain_shard c sh else c.

Lemma op_get_eq c k sh s0 : closed c = false -> get_shard c sh = Some s0 ->
  op_get c k sh = match get_shard (get_c0 c k sh s0) sh with
                  | None => (c, false, 0, 0)
                  | Some s => get_at (get_c0 c k sh s0) (is_sieve s0 (policy c)) k sh s
                  end.
Proof. intros CL G. unfold op_get. rewrite CL, G. reflexivity. Qed.

Lemma get_at_touch c0 k sh s it : lookup s (policy c0) k = Some it -> expired it (now c0) = false ->
  get_at c0 (is_sieve s (policy c0)) k sh s =
  (put_shard c0 sh (adapts (touch (policy c0) s k it)) (if statsOn c0 then hits c0 + 1 else hits c0) (misses c0)
             (evictions c0) (expirations c0), true, val it, if exp it =? 0 then -1 else exp it - now c0).
Proof. intros L E. unfold get_at. rewrite L, E. reflexivity. Qed.

Lemma tabk_adapts s : tabk (adapts s) = tabk s.
Proof. exact (CP.fr_tabk _ _ (CP.apply_adapts_frame (length (evs s)) s)). Qed.

Ltac triv I CL := cbn [fst]; split; [exact I|split; [apply Cfg_refl|split; [reflexivity|first [exact CL|reflexivity]]]].

Section Preservation2.
Variable shard_of : Z -> Z.
Notation ShardOK := (ShardOK shard_of).
Notation CacheInv := (CacheInv shard_of).
Notation cmd_ok := (cmd_ok shard_of).

Lemma lookup_drop_shardok pol m i e s k it r s' ok d :
  e_pol e = pol -> e_mask e = m -> ShardOK pol m i s -> 0 <= r -> lookup s pol k = Some it ->
  drop_item e s it r = (s', ok, d) -> ShardOK pol m i s' /\ tabk s' = remz (tabk s) k.
Proof.
  intros Hp Hm OK Hr LK HD. pose proof OK as (P & F & T).
  destruct (lookup_drop_ok pol m e s k it r s' ok d Hp Hm P Hr LK HD) as (P' & _ & _ & _ & _ & _ & TB & _).
  pose proof (Stat_drop_item _ _ _ _ _ _ _ HD) as (S1 & S2 & S3 & S4).
  split; [|exact TB]. apply (ShardOK_step shard_of pol m i s s' OK P' S2 S3).
  intros k'. rewrite TB. apply CP.remz_In_weak.
Qed.

Lemma adapts_shardok pol m i s : ShardOK pol m i s -> ShardOK pol m i (adapts s).
Proof.
  intros OK. pose proof OK as (P & _). pose proof (Stat_adapts s) as (S1 & S2 & S3 & S4).
  apply (ShardOK_step shard_of pol m i s _ OK (PolicyOK_adapts _ _ _ P) S2 S3).
  intros k. rewrite tabk_adapts. tauto.
Qed.

Lemma touch_shardok pol m i s k it : ShardOK pol m i s -> lookup s pol k = Some it -> ShardOK pol m i (touch pol s k it).
Proof.
  intros OK LK. pose proof OK as (P & _). destruct (touch_ok pol m s k it P LK) as (P' & SB).
  destruct (touch_fields pol s k it) as (_ & (S1 & S2 & S3 & S4) & _).
  apply (ShardOK_step shard_of pol m i s _ OK P' S2 S3). apply (sub_tabk pol m s _ P P' SB).
Qed.

Lemma get_at_inv c0 k sh s : CacheInv c0 -> get_shard c0 sh = Some s -> closed c0 = false ->
  let c' := fst (fst (fst (get_at c0 (is_sieve s (policy c0)) k sh s))) in
  CacheInv c' /\ Cfg c0 c' /\ now c' = now c0 /\ closed c' = closed c0.
Proof.
  intros I G CL. cbv zeta. pose proof (CacheInv_get _ _ _ _ I G) as OK.
  assert (NC : forall s1 : shard, closed c0 = true -> tabk s1 = [] /\ pend s1 = []) by (intros s1 E; congruence).
  destruct (lookup s (policy c0) k) as [it|] eqn:LK.
  - destruct (expired it (now c0)) eqn:EX.
    + unfold get_at. rewrite LK, EX. destruct (drop_item (env_of c0) s it reasonExpired) as [[s1 ok] d] eqn:DI. cbn [fst].
      assert (R : 0 <= reasonExpired) by (unfold reasonExpired; lia).
      destruct (lookup_drop_shardok _ _ _ (env_of c0) s k it _ s1 ok d eq_refl eq_refl OK R LK DI) as (OK1 & _).
      pose proof (Stat_drop_item _ _ _ _ _ _ _ DI) as (S1 & S2 & _). pose proof (Stat_adapts s1) as (A1 & A2 & _).
      split; [apply (CacheInv_put shard_of c0 sh s _ _ _ _ _ I G); [apply adapts_shardok; exact OK1|apply NC]|].
      split; [apply (Cfg_put c0 sh s _ _ _ _ _ G); congruence|split; reflexivity].
    + rewrite (get_at_touch c0 k sh s it LK EX). cbn [fst].
      destruct (touch_fields (policy c0) s k it) as (_ & (S1 & S2 & _) & _).
      pose proof (Stat_adapts (touch (policy c0) s k it)) as (A1 & A2 & _).
      split; [apply (CacheInv_put shard_of c0 sh s _ _ _ _ _ I G); [apply adapts_shardok, touch_shardok; assumption|apply NC]|].
      split; [apply (Cfg_put c0 sh s _ _ _ _ _ G); congruence|split; reflexivity].
  - unfold get_at. rewrite LK. cbn [fst].
    split; [apply (CacheInv_put shard_of c0 sh s _ _ _ _ _ I G); [exact OK|apply NC]|].
    split; [apply (Cfg_put c0 sh s _ _ _ _ _ G); reflexivity|split; reflexivity].
Qed.

Lemma Cfg_get c c' sh s : Cfg c c' -> get_shard c sh = Some s ->
  exists s', get_shard c' sh = Some s' /\ cap s' = cap s /\ costcap s' = costcap s.
Proof.
  intros CF G. unfold get_shard in *.
  pose proof (f_equal (fun l => nth_error l (Z.to_nat sh)) (cf_caps _ _ CF)) as E1.
  pose proof (f_equal (fun l => nth_error l (Z.to_nat sh)) (cf_costcaps _ _ CF)) as E2.
  cbn beta in E1, E2. rewrite !nth_error_map, G in E1, E2.
  destruct (nth_error (shards c') (Z.to_nat sh)) as [s'|]; [|discriminate]. cbn in E1, E2.
  exists s'. split; [reflexivity|]. split; congruence.
Qed.

Lemma op_get_inv c k sh : CacheInv c ->
  let c' := fst (fst (fst (op_get c k sh))) in
  CacheInv c' /\ Cfg c c' /\ now c' = now c /\ closed c' = closed c.
Proof.
  intros I. cbv zeta.
  destruct (closed c) eqn:CL; [unfold op_get; rewrite CL; triv I CL|].
  destruct (get_shard c sh) as [s0|] eqn:G; [|unfold op_get; rewrite CL, G; triv I CL].
  rewrite (op_get_eq c k sh s0 CL G).
  assert (X : CacheInv (get_c0 c k sh s0) /\ Cfg c (get_c0 c k sh s0) /\ now (get_c0 c k sh s0) = now c /\ closed (get_c0 c k sh s0) = closed c).
  { unfold get_c0. destruct (is_sieve s0 (policy c) && negb (memz (tabk s0) k)); [apply drain_shard_inv; exact I|].
    triv I CL. }
  destruct X as (I0 & C0 & N0 & L0). set (c0 := get_c0 c k sh s0) in *.
  destruct (Cfg_get c c0 sh s0 C0 G) as (s & G0 & CP0 & _). rewrite G0.
  assert (ES : is_sieve s0 (policy c) = is_sieve s (policy c0)).
  { rewrite (cf_policy _ _ C0). symmetry. apply is_sieve_stat. exact CP0. }
  rewrite ES. rewrite CL in L0.
  destruct (get_at_inv c0 k sh s I0 G0 L0) as (I1 & C1 & N1 & L1).
  split; [exact I1|]. split; [eapply Cfg_trans; eauto|split; congruence].
Qed.

Lemma op_exists_inv c k sh : CacheInv c ->
  let c' := fst (op_exists c k sh) in
  CacheInv c' /\ Cfg c c' /\ now c' = now c /\ closed c' = closed c.
Proof.
  intros I. cbv zeta.
  unfold op_exists. destruct (closed c) eqn:CL; [triv I CL|].
  destruct (get_shard c sh) as [s|] eqn:G; [|triv I CL].
  destruct (lookup s (policy c) k) as [it|] eqn:LK; [|triv I CL].
  destruct (expired it (now c)); [|triv I CL].
  destruct (drop_item (env_of c) s it reasonExpired) as [[s1 ok] d] eqn:DI. cbn [fst].
  assert (R : 0 <= reasonExpired) by (unfold reasonExpired; lia).
  pose proof (CacheInv_get _ _ _ _ I G) as OK.
  destruct (lookup_drop_shardok _ _ _ (env_of c) s k it _ s1 ok d eq_refl eq_refl OK R LK DI) as (OK1 & _).
  pose proof (Stat_drop_item _ _ _ _ _ _ _ DI) as (S1 & S2 & _).
  split; [apply (CacheInv_put shard_of c sh s _ _ _ _ _ I G); [exact OK1|intros E; congruence]|].
  split; [apply (Cfg_put c sh s _ _ _ _ _ G); assumption|split; [reflexivity|exact CL]].
Qed.

Lemma op_delete_inv c k sh : CacheInv c ->
  let c' := fst (op_delete c k sh) in
  CacheInv c' /\ Cfg c c' /\ now c' = now c /\ closed c' = closed c.
Proof.
  intros I. cbv zeta.
  unfold op_delete. destruct (closed c) eqn:CL.
  { split; [exact I|]. split; [apply Cfg_refl|split; [reflexivity|exact CL]]. }
  destruct (drain_shard_inv shard_of c sh I) as (I0 & C0 & N0 & L0). set (c0 := drain_shard c sh) in *.
  assert (TRIV : CacheInv c0 /\ Cfg c c0 /\ now c0 = now c /\ closed c0 = false) by (rewrite <- CL; auto).
  destruct (get_shard c0 sh) as [s|] eqn:G; [|exact TRIV].
  destruct (lookup s (policy c0) k) as [it|] eqn:LK; [|exact TRIV].
  destruct (drop_item (env_of c0) s it reasonDeleted) as [[s1 ok] d] eqn:DI. cbn [fst].
  assert (R : 0 <= reasonDeleted) by (unfold reasonDeleted; lia).
  pose proof (CacheInv_get _ _ _ _ I0 G) as OK.
  destruct (lookup_drop_shardok _ _ _ (env_of c0) s k it _ s1 ok d eq_refl eq_refl OK R LK DI) as (OK1 & _).
  pose proof (Stat_drop_item _ _ _ _ _ _ _ DI) as (S1 & S2 & _).
  split; [apply (CacheInv_put shard_of c0 sh s _ _ _ _ _ I0 G); [exact OK1|intros E; congruence]|].
  split; [eapply Cfg_trans; [exact C0|apply (Cfg_put c0 sh s _ _ _ _ _ G); assumption]|split; [exact N0|exact (proj2 (proj2 (proj2 TRIV)))]].
Qed.

(* ------------------------------------------------------------------ Clear / Close / Cleanup / clock / finish *)
Lemma clear_shardok pol m i s : ShardOK pol m i s -> ShardOK pol m i (clear_shard pol s).
Proof.
  intros OK. pose proof OK as (P & _). destruct (clear_shard_ok pol m s P) as (P' & T & _ & _ & (S1 & S2 & S3 & S4) & _).
  apply (ShardOK_step shard_of pol m i s _ OK P' S2 S3). rewrite T. intros k [].
Qed.

Lemma Cfg_map c f cl t : (forall s, cap (f s) = cap s /\ costcap (f s) = costcap s) ->
  Cfg c (with_shards c (map f (shards c)) cl t).
Proof.
  intros H. apply Cfg_with_shards; [apply map_length| |]; rewrite map_map; apply map_ext; intros s; apply H.
Qed.

Lemma clear_all_inv c cl : CacheInv c -> (forall s, In s (shards c) -> pend s = []) ->
  let c' := with_shards c (map (clear_shard (policy c)) (shards c)) cl (now c) in
  CacheInv c' /\ Cfg c c'.
Proof.
  intros I Q. cbv zeta. split.
  - apply CacheInv_map; [exact I|intros i s; apply clear_shardok|].
    intros _ s Hs. split; [reflexivity|]. exact (Q s Hs).
  - apply Cfg_map. intros s. split; reflexivity.
Qed.

Lemma op_clear_inv c : CacheInv c ->
  CacheInv (op_clear c) /\ Cfg c (op_clear c) /\ now (op_clear c) = now c /\ closed (op_clear c) = closed c.
Proof.
  intros I. unfold op_clear. destruct (closed c) eqn:CL.
  { split; [exact I|]. split; [apply Cfg_refl|split; [reflexivity|exact CL]]. }
  destruct (drain_all_inv shard_of c I) as (I0 & C0 & N0 & L0 & Q0).
  destruct (clear_all_inv (drain_all c) (closed (drain_all c)) I0 Q0) as (I1 & C1).
  split; [exact I1|]. split; [eapply Cfg_trans; eauto|]. cbn. split; [exact N0|congruence].
Qed.

Lemma op_close_inv c : CacheInv c ->
  CacheInv (op_close c) /\ Cfg c (op_close c) /\ now (op_close c) = now c /\ closed (op_close c) = true.
Proof.
  intros I. unfold op_close. destruct (closed c) eqn:CL.
  { split; [exact I|]. split; [apply Cfg_refl|split; [reflexivity|exact CL]]. }
  destruct (drain_all_inv shard_of c I) as (I0 & C0 & N0 & L0 & Q0).
  destruct (clear_all_inv (drain_all c) true I0 Q0) as (I1 & C1).
  split; [exact I1|]. split; [eapply Cfg_trans; eauto|]. cbn. split; [exact N0|reflexivity].
Qed.

Lemma cleanup_of_shardok pol m i e nw s : e_pol e = pol -> e_mask e = m ->
  ShardOK pol m i s -> ShardOK pol m i (CP.cleanup_of e nw s) /\ Stat s (CP.cleanup_of e nw s).
Proof.
  intros Hp Hm OK. pose proof OK as (P & _). unfold CP.cleanup_of.
  destruct (fold_left (cleanup_shard e nw) (tabk s) (s, 0, 0)) as [[s' ev'] ex'] eqn:E. cbn [fst].
  destruct (cleanup_fold_ok pol m e nw Hp Hm _ _ _ _ _ _ _ P E) as (P' & SB & ST & _).
  split; [|exact ST]. destruct ST as (S1 & S2 & S3 & S4).
  apply (ShardOK_step shard_of pol m i s _ OK P' S2 S3). apply (sub_tabk pol m s _ P P' SB).
Qed.

Lemma op_cleanup_fields c : policy (op_cleanup c) = policy c /\ nshards (op_cleanup c) = nshards c /\
  defttl (op_cleanup c) = defttl c /\ statsOn (op_cleanup c) = statsOn c /\ mask (op_cleanup c) = mask c /\
  trackCost (op_cleanup c) = trackCost c /\ now (op_cleanup c) = now c /\ closed (op_cleanup c) = closed c /\
  hits (op_cleanup c) = hits c /\ misses (op_cleanup c) = misses c.
Proof.
  unfold op_cleanup. destruct (closed c) eqn:CL; [rewrite CL; repeat split; reflexivity|].
  match goal with |- context [fold_left ?f ?l ?a] => destruct (fold_left f l a) as [[l' ev] ex] end.
  cbn. repeat split; try reflexivity.
Qed.

Lemma op_cleanup_inv c : CacheInv c ->
  CacheInv (op_cleanup c) /\ Cfg c (op_cleanup c) /\ now (op_cleanup c) = now c /\ closed (op_cleanup c) = closed c.
Proof.
  intros I. destruct (closed c) eqn:CL.
  { unfold op_cleanup. rewrite CL. split; [exact I|]. split; [apply Cfg_refl|split; [reflexivity|exact CL]]. }
  destruct (op_cleanup_fields c) as (F1 & F2 & F3 & F4 & F5 & F6 & F7 & F8 & _).
  pose proof (CP.op_cleanup_shards c CL) as SH.
  assert (ST : forall s, cap (CP.cleanup_of (env_of c) (now c) s) = cap s /\ costcap (CP.cleanup_of (env_of c) (now c) s) = costcap s /\
                         pend (CP.cleanup_of (env_of c) (now c) s) = pend s).
  { intros s. unfold CP.cleanup_of.
    assert (X : forall ks s0 ev ex, Stat s0 (fst (fst (fold_left (cleanup_shard (env_of c) (now c)) ks (s0, ev, ex))))).
    { induction ks as [|k ks IH]; intros s0 ev ex; cbn [fold_left]; [apply Stat_refl|].
      destruct (cleanup_shard (env_of c) (now c) (s0, ev, ex) k) as [[s1 ev1] ex1] eqn:E.
      eapply Stat_trans; [|apply IH]. unfold cleanup_shard in E.
      destruct (lookup s0 (e_pol (env_of c)) k) as [it|]; [|injection E as <- _ _; apply Stat_refl].
      destruct (expired it (now c)); [|injection E as <- _ _; apply Stat_refl].
      destruct (drop_item (env_of c) s0 it reasonExpired) as [[s2 ok] d] eqn:DI. injection E as <- _ _.
      eapply Stat_drop_item; eauto. }
    destruct (X (tabk s) s 0 0) as (A & B & C & _). auto. }
  split; [|split; [|split; [exact F7|rewrite F8; exact CL]]].
  - apply (CacheInv_ext shard_of (with_shards c (map (CP.cleanup_of (env_of c) (now c)) (shards c)) (closed c) (now c)));
      try (cbn; congruence).
    apply CacheInv_map; [exact I| |intros E; congruence].
    intros i s OK. apply cleanup_of_shardok; [reflexivity|reflexivity|exact OK].
  - constructor; try assumption; rewrite SH.
    + apply map_length.
    + rewrite map_map. apply map_ext. intros s. apply ST.
    + rewrite map_map. apply map_ext. intros s. apply ST.
Qed.

Lemma advance_inv c d : CacheInv c ->
  let c' := with_shards c (shards c) (closed c) (now c + d) in CacheInv c' /\ Cfg c c'.
Proof.
  intros I. cbv zeta. split; [apply (CacheInv_ext shard_of c); try reflexivity; exact I|].
  apply Cfg_with_shards; reflexivity.
Qed.

Definition unstage (s : shard) : shard :=
  sh_set s (tabk s) (lst s) (lfu s) (prob s) (main s) (hand s) (size s) (scost s) [].

Lemma unstage_shardok pol m i s : ShardOK pol m i s -> ShardOK pol m i (unstage s).
Proof.
  intros OK. pose proof OK as (P & _).
  apply (ShardOK_step shard_of pol m i s _ OK (PolicyOK_unstage _ _ _ P)); try reflexivity. intros k H; exact H.
Qed.

(* the state after [finish]: adapts on every shard, staged notifications taken (only at quiescent points) *)
Definition settle (c : cache) : cache :=
  if quiescent c then fst (take_staged (with_shards c (map adapts (shards c)) (closed c) (now c))) else c.

Lemma finish_state c res : fst (finish c res) = settle c.
Proof.
  unfold finish, settle. destruct (quiescent c); [|reflexivity].
  destruct (take_staged (with_shards c (map adapts (shards c)) (closed c) (now c))) as [c1 ns]. reflexivity.
Qed.

Lemma settle_inv c : CacheInv c ->
  CacheInv (settle c) /\ Cfg c (settle c) /\ now (settle c) = now c /\ closed (settle c) = closed c.
Proof.
  intros I. unfold settle. destruct (quiescent c).
  2:{ split; [exact I|]. split; [apply Cfg_refl|split; reflexivity]. }
  unfold take_staged. cbn [fst with_shards shards closed now]. fold unstage.
  set (c1 := with_shards c (map adapts (shards c)) (closed c) (now c)).
  assert (I1 : CacheInv c1).
  { apply CacheInv_map; [exact I|intros i s; apply adapts_shardok|].
    intros E s Hs. destruct I as (_ & _ & CLI). destruct (CLI E s Hs) as [T PE].
    pose proof (Stat_adapts s) as (_ & _ & S3 & _). rewrite S3.
    rewrite tabk_adapts. auto. }
  assert (C1 : Cfg c c1).
  { apply Cfg_map. intros s. pose proof (Stat_adapts s) as (A & B & _). auto. }
  change (with_shards c1 (map unstage (map adapts (shards c))) (closed c) (now c))
    with (with_shards c1 (map unstage (shards c1)) (closed c1) (now c1)).
  split; [|split; [eapply Cfg_trans; [exact C1|apply Cfg_map; intros s; split; reflexivity]|split; reflexivity]].
  apply CacheInv_map; [exact I1|intros i s; apply unstage_shardok|].
  intros E s Hs. destruct I1 as (_ & _ & CLI). exact (CLI E s Hs).
Qed.
End Preservation2.


(* ================================================================== *)
(** * 8. The typed machine                                              *)
(* ================================================================== *)
Inductive cop :=
| CSet (k v ttl cst sh : Z) | CGet (k sh : Z) | CGetTTL (k sh : Z) | CExists (k sh : Z) | CDelete (k sh : Z)
| CKeys | CClear | CCleanup | CAdvance (d : Z) | CStats | CSetAsync (k v ttl cst sh : Z) | CSync | CClose
| CSieveStats | CShardSizes.

Inductive cres :=
| RCode (r : Z) | RGet (ok : bool) (v : Z) | RGetTTL (ok : bool) (v t : Z) | RBool (b : bool)
| RKeys (l : list Z) | RUnit | RNow (t : Z) | RNums (l : list Z).

(* one operation, preceded by the oracle events recorded for it *)
Definition cstep (c : cache) (op : cop) (ev : list Z) : cache * cres :=
  let c0 := attach_events c ev in
  match op with
  | CSet k v ttl cst sh => let '(c1, r) := op_set c0 k v ttl cst sh in (c1, RCode r)
  | CGet k sh => let '(c1, ok, v, _) := op_get c0 k sh in (c1, RGet ok v)
  | CGetTTL k sh => let '(c1, ok, v, t) := op_get c0 k sh in (c1, RGetTTL ok v (if ok then t else 0))
  | CExists k sh => let '(c1, b) := op_exists c0 k sh in (c1, RBool b)
  | CDelete k sh => let '(c1, b) := op_delete c0 k sh in (c1, RBool b)
  | CKeys => (c0, RKeys (sort_z (op_keys c0)))
  | CClear => (op_clear c0, RUnit)
  | CCleanup => (op_cleanup c0, RUnit)
  | CAdvance d => let c2 := with_shards c0 (shards c0) (closed c0) (now c0 + d) in (c2, RNow (now c2))
  | CStats => (c0, RNums [total_size c0; total_cost c0; hits c0; misses c0; evictions c0; expirations c0])
  | CSetAsync k v ttl cst sh => let '(c1, r) := op_set_async c0 k v ttl cst sh in (c1, RCode r)
  | CSync => if closed c0 then (c0, RCode 3) else (drain_all c0, RCode 0)
  | CClose => (op_close c0, RUnit)
  | CSieveStats => (c0, RNums [sumZ (map admits (shards c0)); sumZ (map rejects (shards c0)); sumZ (map ghosthits (shards c0));
                               sumZ (map promos (shards c0)); sumZ (map pevicts (shards c0)); sumZ (map mevicts (shards c0))])
  | CShardSizes => (c0, RNums (flat_map (fun s => [size s; scost s]) (shards c0)))
  end.

Definition encode_op (op : cop) (ev : list Z) : list Z :=
  match op with
  | CSet k v ttl cst sh => 1 :: k :: v :: ttl :: cst :: sh :: ev
  | CGet k sh => 2 :: k :: sh :: ev
  | CGetTTL k sh => 3 :: k :: sh :: ev
  | CExists k sh => 4 :: k :: sh :: ev
  | CDelete k sh => 5 :: k :: sh :: ev
  | CKeys => 6 :: ev
  | CClear => 7 :: ev
  | CCleanup => 8 :: ev
  | CAdvance d => 9 :: d :: ev
  | CStats => 10 :: ev
  | CSetAsync k v ttl cst sh => 11 :: k :: v :: ttl :: cst :: sh :: ev
  | CSync => 12 :: ev
  | CClose => 13 :: ev
  | CSieveStats => 15 :: ev
  | CShardSizes => 16 :: ev
  end.

Definition encode_res (r : cres) : list Z :=
  match r with
  | RCode r => [r] | RGet ok v => [b2z ok; v] | RGetTTL ok v t => [b2z ok; v; t] | RBool b => [b2z b]
  | RKeys l => l | RUnit => [] | RNow t => [t] | RNums l => l
  end.

(* the typed machine is the integer-encoded stream machine *)
Theorem cache_step_cstep c op ev :
  cache_step c (encode_op op ev) = let '(c1, r) := cstep c op ev in finish c1 (encode_res r).
Proof.
  destruct op; cbn [encode_op]; unfold cache_step, cstep; cbn [split_args firstn skipn].
  - destruct (op_set (attach_events c ev) k v ttl cst sh) as [c1 r]. reflexivity.
  - destruct (op_get (attach_events c ev) k sh) as [[[c1 ok] v] t]. reflexivity.
  - destruct (op_get (attach_events c ev) k sh) as [[[c1 ok] v] t]. reflexivity.
  - destruct (op_exists (attach_events c ev) k sh) as [c1 b]. reflexivity.
  - destruct (op_delete (attach_events c ev) k sh) as [c1 b]. reflexivity.
  - reflexivity.
  - reflexivity.
  - reflexivity.
  - reflexivity.
  - reflexivity.
  - destruct (op_set_async (attach_events c ev) k v ttl cst sh) as [c1 r]. reflexivity.
  - destruct (closed (attach_events c ev)); reflexivity.
  - reflexivity.
  - reflexivity.
  - reflexivity.
Qed.

(* the state the driver continues from: adapts everywhere, staged notifications collected *)
Definition cstep_full (c : cache) (op : cop) (ev : list Z) : cache * cres :=
  let '(c1, r) := cstep c op ev in (settle c1, r).

Corollary cache_step_state c op ev : fst (cache_step c (encode_op op ev)) = fst (cstep_full c op ev).
Proof.
  rewrite cache_step_cstep. unfold cstep_full. destruct (cstep c op ev) as [c1 r]. rewrite finish_state. reflexivity.
Qed.

Section Machine.
Variable shard_of : Z -> Z.
Notation CacheInv := (CacheInv shard_of).

(* well-sharded: every key operation is routed to the shard of its key *)
Definition wf_op (n : Z) (op : cop) : Prop :=
  match op with
  | CSet k _ _ _ sh | CSetAsync k _ _ _ sh | CGet k sh | CGetTTL k sh | CExists k sh | CDelete k sh =>
      sh = shard_of k /\ 0 <= sh < n
  | _ => True
  end.

Lemma wf_idx k sh n : sh = shard_of k /\ 0 <= sh < n -> shard_of k = Z.of_nat (Z.to_nat sh).
Proof. intros [-> H]. lia. Qed.

Theorem cstep_inv c op ev : CacheInv c -> wf_op (nshards c) op ->
  CacheInv (fst (cstep c op ev)) /\ Cfg c (fst (cstep c op ev)).
Proof.
  intros I WF. destruct (attach_events_inv shard_of (length ev) ev c (le_n _) I) as (I0 & C0 & _).
  unfold cstep. set (c0 := attach_events c ev) in *.
  destruct op; cbn [wf_op] in WF.
  - pose proof (op_set_inv shard_of c0 k v ttl cst sh I0 (fun _ => wf_idx _ _ _ WF)) as (A & B & _).
    destruct (op_set c0 k v ttl cst sh) as [c1 r]. cbn [fst] in *. split; [exact A|eapply Cfg_trans; eauto].
  - pose proof (op_get_inv shard_of c0 k sh I0) as (A & B & _).
    destruct (op_get c0 k sh) as [[[c1 ok] v] t]. cbn [fst] in *. split; [exact A|eapply Cfg_trans; eauto].
  - pose proof (op_get_inv shard_of c0 k sh I0) as (A & B & _).
    destruct (op_get c0 k sh) as [[[c1 ok] v] t]. cbn [fst] in *. split; [exact A|eapply Cfg_trans; eauto].
  - pose proof (op_exists_inv shard_of c0 k sh I0) as (A & B & _).
    destruct (op_exists c0 k sh) as [c1 b]. cbn [fst] in *. split; [exact A|eapply Cfg_trans; eauto].
  - pose proof (op_delete_inv shard_of c0 k sh I0) as (A & B & _).
    destruct (op_delete c0 k sh) as [c1 b]. cbn [fst] in *. split; [exact A|eapply Cfg_trans; eauto].
  - split; assumption.
  - destruct (op_clear_inv shard_of c0 I0) as (A & B & _). split; [exact A|eapply Cfg_trans; eauto].
  - destruct (op_cleanup_inv shard_of c0 I0) as (A & B & _). split; [exact A|eapply Cfg_trans; eauto].
  - destruct (advance_inv shard_of c0 d I0) as (A & B). split; [exact A|eapply Cfg_trans; eauto].
  - split; assumption.
  - pose proof (op_set_async_inv shard_of c0 k v ttl cst sh I0 (fun _ => wf_idx _ _ _ WF)) as (A & B & _).
    destruct (op_set_async c0 k v ttl cst sh) as [c1 r]. cbn [fst] in *. split; [exact A|eapply Cfg_trans; eauto].
  - destruct (closed c0); [split; assumption|].
    destruct (drain_all_inv shard_of c0 I0) as (A & B & _). split; [exact A|eapply Cfg_trans; eauto].
  - destruct (op_close_inv shard_of c0 I0) as (A & B & _). split; [exact A|eapply Cfg_trans; eauto].
  - split; assumption.
  - split; assumption.
Qed.

Theorem cstep_full_inv c op ev : CacheInv c -> wf_op (nshards c) op ->
  CacheInv (fst (cstep_full c op ev)) /\ Cfg c (fst (cstep_full c op ev)).
Proof.
  intros I WF. destruct (cstep_inv c op ev I WF) as (A & B). unfold cstep_full.
  destruct (cstep c op ev) as [c1 r]. cbn [fst] in *.
  destruct (settle_inv shard_of c1 A) as (A1 & B1 & _). split; [exact A1|eapply Cfg_trans; eauto].
Qed.

(* runs of the typed machine *)
Fixpoint crun (c : cache) (ops : list (cop * list Z)) : cache :=
  match ops with [] => c | (op, ev) :: r => crun (fst (cstep_full c op ev)) r end.

Theorem crun_inv ops : forall c, CacheInv c -> Forall (fun p => wf_op (nshards c) (fst p)) ops ->
  CacheInv (crun c ops) /\ Cfg c (crun c ops).
Proof.
  induction ops as [|[op ev] r IH]; intros c I WF; cbn [crun].
  - split; [exact I|apply Cfg_refl].
  - apply Forall_cons_iff in WF. destruct WF as [W1 W2]. cbn [fst] in W1.
    destruct (cstep_full_inv c op ev I W1) as (A & B).
    destruct (IH _ A) as (A2 & B2).
    + rewrite (cf_nshards _ _ B). exact W2.
    + split; [exact A2|eapply Cfg_trans; eauto].
Qed.
End Machine.


(* ================================================================== *)
(** * 9. The initial cache                                              *)
(* ================================================================== *)
Lemma segs_bounds cp pr gr : 1 <= cp ->
  let sg := sieve_segs cp pr gr in
  1 <= lo sg /\ lo sg <= pc sg /\ pc sg <= hi sg /\ hi sg <= cp /\ pc sg + mc sg = cp.
Proof.
  intros H. unfold sieve_segs. cbn [lo hi pc mc].
  generalize (cp * (if pr =? 0 then defaultProbationRatio else pr) / 100). intros q.
  destruct ((cp <=? Z.max (Z.max 1 (cp / 100)) (cp * 60 / 100)) && (1 <? cp)) eqn:E; lia.
Qed.

Lemma share_nonneg b n i : 1 <= n -> 0 <= share b n i.
Proof.
  intros Hn. unfold share. destruct (0 <? b) eqn:E; [|lia].
  assert (0 <= b / n) by (apply Z.div_pos; lia). destruct (i <? b mod n); lia.
Qed.

Lemma new_shard_ok shard_of cfg n i pol m : 1 <= n ->
  ShardOK shard_of pol m i (new_shard cfg n i).
Proof.
  intros Hn.
  assert (A : 0 <= shard_cap cfg n i) by (apply share_nonneg; exact Hn).
  assert (B : 0 <= shard_cost_cap cfg n i) by (apply share_nonneg; exact Hn).
  split; [|split; [constructor|intros k []]].
  split; [exact A|]. split; [exact B|].
  assert (O : over_capacity (new_shard cfg n i) = false).
  { unfold over_capacity, new_shard. cbn [cap costcap size scost]. lia. }
  destruct (is_sieve (new_shard cfg n i) pol) eqn:IS.
  - destruct (is_sieve_true_inv _ _ IS) as [_ C1]. cbn [new_shard cap] in C1.
    split; [|split; [intros it []|split; [intros k v; reflexivity|split; [reflexivity|exact O]]]].
    unfold SP.SInv, new_shard. cbn [cap pcap mcap pmin pmax tabk lst lfu prob main hand size scost].
    replace (Z.max (shard_cap cfg n i) 1) with (shard_cap cfg n i) by lia.
    destruct (segs_bounds (shard_cap cfg n i) (ProbationRatio cfg) (GhostRatio cfg) C1) as (S1 & S2 & S3 & S4 & S5).
    constructor; cbn [app map]; try lia.
    + constructor.
    + constructor.
    + intros k. split; [intros []|intros [it [[] _]]].
    + reflexivity.
    + reflexivity.
    + intros it [].
    + discriminate.
    + split; reflexivity.
  - split; [|intros _; exact O]. apply CP.Good_intro.
    + assert (LE : CP.LfuOK [] []).
      { constructor; cbn; try (constructor; fail). intros k; tauto. }
      constructor; cbn [new_shard tabk lst lfu prob main hand size scost map];
        try reflexivity; try (constructor; fail); try (intros _; exact LE); try (intros k; cbn; tauto).
      exact IS.
    + intros k v. reflexivity.
    + reflexivity.
Qed.

Lemma nth_error_zseq s n i : (i < n)%nat -> nth_error (zseq s n) i = Some (s + Z.of_nat i).
Proof.
  revert s i; induction n as [|n IH]; intros s i H; [lia|].
  destruct i as [|i]; cbn [zseq nth_error]; [f_equal; lia|]. rewrite IH by lia. f_equal. lia.
Qed.

(* every configuration accepted by Validate (with a sane CPU count and an explicit shard count below 2^62,
   see ConfigProofs.shard_count_wrap_witness) starts in a state satisfying the invariant *)
Theorem cache_init_inv shard_of l cfg ncpu msk weigher t0 :
  decode_config (firstn 13 l) = Some (cfg, ncpu) -> skipn 13 l = [msk; weigher; t0] ->
  validate cfg = None -> 1 <= ncpu -> ShardCount cfg <= 2 ^ 62 ->
  CacheInv shard_of (cache_init l) /\ closed (cache_init l) = false /\
  nshards (cache_init l) = shard_count cfg ncpu /\ policy (cache_init l) = effective_policy cfg /\
  map cap (shards (cache_init l)) = map (shard_cap cfg (shard_count cfg ncpu)) (zseq 0 (Z.to_nat (shard_count cfg ncpu))) /\
  map costcap (shards (cache_init l)) = map (shard_cost_cap cfg (shard_count cfg ncpu)) (zseq 0 (Z.to_nat (shard_count cfg ncpu))) /\
  (forall s, In s (shards (cache_init l)) -> tabk s = [] /\ pend s = [] /\ glog s = [] /\ serr s = 0) /\
  hits (cache_init l) = 0 /\ misses (cache_init l) = 0 /\ evictions (cache_init l) = 0 /\ expirations (cache_init l) = 0.
Proof.
  intros D S V Hcpu Hsc. unfold cache_init. rewrite D, S.
  destruct (shard_count_pow2 cfg ncpu V Hcpu Hsc) as [_ Hn]. set (n := shard_count cfg ncpu) in *.
  cbn [closed nshards policy shards hits misses evictions expirations].
  split; [|split; [reflexivity|split; [reflexivity|split; [reflexivity|split; [|split; [|split]]]]]].
  - split; [|split].
    + cbn [shards nshards]. rewrite map_length, zseq_length. lia.
    + cbn [shards policy mask]. intros i s H. rewrite nth_error_map in H.
      destruct (nth_error (zseq 0 (Z.to_nat n)) i) as [z|] eqn:E; [|discriminate]. injection H as <-.
      assert (Hi : (i < Z.to_nat n)%nat).
      { rewrite <- (zseq_length 0 (Z.to_nat n)). apply nth_error_Some. congruence. }
      rewrite nth_error_zseq in E by exact Hi. injection E as <-. cbn [Z.add]. apply new_shard_ok. exact Hn.
    + cbn [closed]. discriminate.
  - rewrite map_map. reflexivity.
  - rewrite map_map. reflexivity.
  - intros s Hs. apply in_map_iff in Hs. destruct Hs as [i [<- _]]. repeat split; reflexivity.
  - repeat split; reflexivity.
Qed.

(* ================================================================== *)
(** * 9b. Canonical forms of the single-shard operations                *)
(* ================================================================== *)

Lemma env_of_put c sh s h m ev ex : env_of (put_shard c sh s h m ev ex) = env_of c.
Proof. reflexivity. Qed.

Lemma op_set_form c k v ttl cst sh s : get_shard c sh = Some s -> set_check c sh cst = 0 ->
  let AS := apply_set (env_of c) (fst (drained c s)) k v (stamp (norm_ttl c ttl) (now c)) cst in
  op_set c k v ttl cst sh =
  (put_shard c sh (fst (fst AS)) (hits c) (misses c) (evictions c + snd (drained c s) + snd AS) (expirations c), 0).
Proof.
  intros G R. cbv zeta. unfold op_set. rewrite R. cbn [Z.eqb negb].
  rewrite (drain_shard_eq c sh s G).
  rewrite (apply_cmd_eq _ sh k v _ cst (fst (drained c s))) by (eapply CP.get_put_same; exact G).
  rewrite put_put, env_of_put. reflexivity.
Qed.

Lemma op_set_fail c k v ttl cst sh : set_check c sh cst <> 0 -> op_set c k v ttl cst sh = (c, set_check c sh cst).
Proof. intros R. unfold op_set. destruct (set_check c sh cst =? 0) eqn:E; [lia|reflexivity]. Qed.

Lemma op_set_async_form c k v ttl cst sh s : get_shard c sh = Some s -> set_check c sh cst = 0 ->
  op_set_async c k v ttl cst sh =
  (put_shard c sh (sh_evs s (evs s) (pend s ++ [[k; v; norm_ttl c ttl; cst]])) (hits c) (misses c) (evictions c) (expirations c), 0).
Proof. intros G R. unfold op_set_async. rewrite R, G. reflexivity. Qed.

Lemma op_set_async_fail c k v ttl cst sh : set_check c sh cst <> 0 -> op_set_async c k v ttl cst sh = (c, set_check c sh cst).
Proof. intros R. unfold op_set_async. destruct (set_check c sh cst =? 0) eqn:E; [lia|reflexivity]. Qed.

(* ---- Get ---- *)
Inductive gout := GMiss | GExpired (it : item) | GHit (it : item).

Definition get_out (pol nw : Z) (s : shard) (k : Z) : gout :=
  match lookup s pol k with None => GMiss | Some it => if expired it nw then GExpired it else GHit it end.

Definition get_sh (e : env) (nw : Z) (s : shard) (k : Z) : shard * Z :=
  match get_out (e_pol e) nw s k with
  | GMiss => (s, 0)
  | GExpired it => let '(s1, _, d) := drop_item e s it reasonExpired in (adapts s1, d)
  | GHit it => (adapts (touch (e_pol e) s k it), 0)
  end.

Lemma get_at_form c0 k sh s :
  let o := get_out (policy c0) (now c0) s k in
  let st := statsOn c0 in
  get_at c0 (is_sieve s (policy c0)) k sh s =
  (put_shard c0 sh (fst (get_sh (env_of c0) (now c0) s k))
     (match o with GHit _ => if st then hits c0 + 1 else hits c0 | _ => hits c0 end)
     (match o with GHit _ => misses c0 | _ => if st then misses c0 + 1 else misses c0 end)
     (evictions c0 + snd (get_sh (env_of c0) (now c0) s k))
     (match o with GExpired _ => if st then expirations c0 + 1 else expirations c0 | _ => expirations c0 end),
   match o with GHit _ => true | _ => false end,
   match o with GHit it => val it | _ => 0 end,
   match o with GHit it => if exp it =? 0 then -1 else exp it - now c0 | _ => 0 end).
Proof.
  cbv zeta. unfold get_sh, get_out. cbn [e_pol env_of].
  destruct (lookup s (policy c0) k) as [it|] eqn:LK.
  - destruct (expired it (now c0)) eqn:EX.
    + unfold get_at. rewrite LK, EX. destruct (drop_item (env_of c0) s it reasonExpired) as [[s1 ok] d]. reflexivity.
    + rewrite (get_at_touch c0 k sh s it LK EX). cbn [fst snd]. rewrite Z.add_0_r. reflexivity.
  - unfold get_at. rewrite LK. cbn [fst snd]. rewrite Z.add_0_r. reflexivity.
Qed.

(* the shard Get works on: Sieve misses drain the queue first *)
Definition get_pre (c : cache) (k : Z) (s0 : shard) : shard * Z :=
  if is_sieve s0 (policy c) && negb (memz (tabk s0) k) then drained c s0 else (s0, 0).

Lemma get_c0_eq c k sh s0 : get_shard c sh = Some s0 ->
  get_c0 c k sh s0 = put_shard c sh (fst (get_pre c k s0)) (hits c) (misses c) (evictions c + snd (get_pre c k s0)) (expirations c).
Proof.
  intros G. unfold get_c0, get_pre. destruct (is_sieve s0 (policy c) && negb (memz (tabk s0) k)).
  - apply drain_shard_eq. exact G.
  - cbn [fst snd]. rewrite Z.add_0_r. symmetry. apply put_shard_id. exact G.
Qed.

Lemma get_pre_stat c k s0 : cap (fst (get_pre c k s0)) = cap s0 /\ costcap (fst (get_pre c k s0)) = costcap s0 /\
  (serr (fst (get_pre c k s0)) = 0 -> serr s0 = 0).
Proof.
  unfold get_pre. destruct (is_sieve s0 (policy c) && negb (memz (tabk s0) k)); [|cbn; auto].
  destruct (Stat_drained c s0) as (A & B & _ & D). auto.
Qed.

Lemma op_get_form c k sh s0 : closed c = false -> get_shard c sh = Some s0 ->
  let s := fst (get_pre c k s0) in
  let D := snd (get_pre c k s0) in
  let o := get_out (policy c) (now c) s k in
  let st := statsOn c in
  let G := get_sh (env_of c) (now c) s k in
  op_get c k sh =
  (put_shard c sh (fst G)
     (match o with GHit _ => if st then hits c + 1 else hits c | _ => hits c end)
     (match o with GHit _ => misses c | _ => if st then misses c + 1 else misses c end)
     (evictions c + D + snd G)
     (match o with GExpired _ => if st then expirations c + 1 else expirations c | _ => expirations c end),
   match o with GHit _ => true | _ => false end,
   match o with GHit it => val it | _ => 0 end,
   match o with GHit it => if exp it =? 0 then -1 else exp it - now c | _ => 0 end).
Proof.
  intros CL G. cbv zeta. rewrite (op_get_eq c k sh s0 CL G), (get_c0_eq c k sh s0 G).
  set (c0 := put_shard c sh (fst (get_pre c k s0)) (hits c) (misses c) (evictions c + snd (get_pre c k s0)) (expirations c)).
  assert (G0 : get_shard c0 sh = Some (fst (get_pre c k s0))) by (eapply CP.get_put_same; exact G).
  rewrite G0.
  assert (ES : is_sieve s0 (policy c) = is_sieve (fst (get_pre c k s0)) (policy c0)).
  { symmetry. apply is_sieve_stat. apply get_pre_stat. }
  rewrite ES, (get_at_form c0 k sh (fst (get_pre c k s0))). unfold c0. rewrite put_put, env_of_put. reflexivity.
Qed.

(* ---- Exists ---- *)
Lemma op_exists_form c k sh s : closed c = false -> get_shard c sh = Some s ->
  op_exists c k sh =
  match get_out (policy c) (now c) s k with
  | GMiss => (c, false)
  | GHit _ => (c, true)
  | GExpired it =>
     (put_shard c sh (fst (fst (drop_item (env_of c) s it reasonExpired))) (hits c) (misses c)
                (evictions c + snd (drop_item (env_of c) s it reasonExpired))
                (if statsOn c then expirations c + 1 else expirations c), false)
  end.
Proof.
  intros CL G. unfold op_exists, get_out. rewrite CL, G. destruct (lookup s (policy c) k) as [it|]; [|reflexivity].
  destruct (expired it (now c)); [|reflexivity].
  destruct (drop_item (env_of c) s it reasonExpired) as [[s1 ok] d]. reflexivity.
Qed.

(* ---- Delete ---- *)
Lemma op_delete_form c k sh s0 : closed c = false -> get_shard c sh = Some s0 ->
  let s := fst (drained c s0) in
  let D := snd (drained c s0) in
  op_delete c k sh =
  match lookup s (policy c) k with
  | None => (put_shard c sh s (hits c) (misses c) (evictions c + D) (expirations c), false)
  | Some it =>
     (put_shard c sh (fst (fst (drop_item (env_of c) s it reasonDeleted))) (hits c) (misses c)
                (evictions c + D + snd (drop_item (env_of c) s it reasonDeleted)) (expirations c),
      snd (fst (drop_item (env_of c) s it reasonDeleted)))
  end.
Proof.
  intros CL G. cbv zeta. unfold op_delete. rewrite CL, (drain_shard_eq c sh s0 G).
  rewrite (CP.get_put_same c sh s0 _ _ _ _ _ G). cbn [policy put_shard].
  destruct (lookup (fst (drained c s0)) (policy c) k) as [it|]; [|reflexivity].
  rewrite env_of_put. destruct (drop_item (env_of c) (fst (drained c s0)) it reasonDeleted) as [[s1 ok] d].
  cbn [fst snd]. rewrite put_put. reflexivity.
Qed.

(* ================================================================== *)
(** * 10. C01: the lossy-map reference [latest]                          *)
(* ================================================================== *)

(* the value a queued command list will eventually write for k (last matching command) *)
Fixpoint pend_last (q : list (list Z)) (k : Z) : option Z :=
  match q with
  | [] => None
  | cmd :: r =>
    match pend_last r k with
    | Some v => Some v
    | None => match cmd with [k'; v; _; _] => if k' =? k then Some v else None | _ => None end
    end
  end.

Definition vmap (pol : Z) (s : shard) (k : Z) : option Z :=
  match view pol s k with Some x => Some (fst (fst x)) | None => None end.

(* what the shard will show for k once its queue is drained, if nothing is lost *)
Definition amap (pol : Z) (s : shard) (k : Z) : option Z :=
  match pend_last (pend s) k with Some v => Some v | None => vmap pol s k end.

Definition ASub (pol : Z) (s s' : shard) : Prop := forall k v, amap pol s' k = Some v -> amap pol s k = Some v.

Lemma ASub_refl pol s : ASub pol s s. Proof. intros k v H; exact H. Qed.
Lemma ASub_trans pol a b c : ASub pol a b -> ASub pol b c -> ASub pol a c.
Proof. intros H1 H2 k v H. apply H1, H2, H. Qed.

Lemma ASub_of_Sub pol s s' : pend s' = pend s -> Sub pol s s' -> ASub pol s s'.
Proof.
  intros PE SB k v. unfold amap, vmap. rewrite PE. destruct (pend_last (pend s) k); [tauto|].
  destruct (view pol s' k) as [x|] eqn:V; [|discriminate]. rewrite (SB _ _ V). tauto.
Qed.

Lemma pend_last_app q cmd k :
  pend_last (q ++ [cmd]) k =
  match (match cmd with [k'; v; _; _] => if k' =? k then Some v else None | _ => None end) with
  | Some v => Some v | None => pend_last q k end.
Proof.
  induction q as [|c q IH]; cbn [app pend_last].
  - destruct cmd as [|k' [|v [|t [|cs [|x y]]]]]; try reflexivity. destruct (k' =? k); reflexivity.
  - rewrite IH. destruct cmd as [|k' [|v [|t [|cs [|x y]]]]]; try reflexivity. destruct (k' =? k); [reflexivity|].
    reflexivity.
Qed.

Section Latest.
Variable shard_of : Z -> Z.
Notation ShardOK := (ShardOK shard_of).
Notation CacheInv := (CacheInv shard_of).
Notation cmd_ok := (cmd_ok shard_of).

(* draining: the drained shard shows, for each key, the last queued value or the old visible value — or nothing *)
Lemma drain_sh_amap pol m i e nw : e_pol e = pol -> e_mask e = m ->
  forall cmds s, ShardOK pol m i s -> Forall (cmd_ok i s) cmds ->
  forall k v, vmap pol (fst (drain_sh e nw s cmds)) k = Some v ->
              match pend_last cmds k with Some v' => Some v' | None => vmap pol s k end = Some v.
Proof.
  intros Hp Hm. induction cmds as [|cmd r IH]; intros s OK F k v H; [exact H|].
  apply Forall_cons_iff in F. destruct F as [F1 F2]. destruct F1 as (k0 & v0 & ttl & cst & -> & Hc & Hcc & Hk).
  cbn [drain_sh] in H. destruct (apply_set e s k0 v0 (stamp ttl nw) cst) as [[s1 cm] d] eqn:E.
  pose proof (apply_set_shardok shard_of pol m i e s k0 v0 _ cst s1 cm d Hp Hm OK Hc Hcc Hk E) as OK1.
  pose proof (Stat_apply_set _ _ _ _ _ _ _ _ _ E) as (_ & S2 & _).
  assert (F2' : Forall (cmd_ok i s1) r) by (eapply Forall_impl; [|exact F2]; intros cmd; apply cmd_ok_costcap; exact S2).
  specialize (IH s1 OK1 F2' k v). destruct (drain_sh e nw s1 r) as [s2 d2]. cbn [fst] in *. specialize (IH H).
  cbn [pend_last]. destruct (pend_last r k) as [v'|]; [exact IH|].
  destruct OK as (P & _).
  destruct (apply_set_ok pol m e s k0 v0 _ cst s1 cm d Hp Hm P Hc Hcc E) as (_ & V).
  unfold vmap in IH. destruct (view pol s1 k) as [x|] eqn:V1; [|discriminate].
  destruct (V _ _ V1) as [[-> ->]|[NK V0]].
  - rewrite Z.eqb_refl. cbn in IH. exact IH.
  - replace (k0 =? k) with false by lia. unfold vmap. rewrite V0. exact IH.
Qed.

Lemma drained_ASub c i s : ShardOK (policy c) (mask c) i s -> ASub (policy c) s (fst (drained c s)).
Proof.
  intros OK k v. unfold amap. destruct (Stat_drained c s) as (_ & _ & PE & _). rewrite PE. cbn [pend_last].
  intros H. unfold drained in H.
  pose proof (drain_sh_amap (policy c) (mask c) i (env_of c) (now c) eq_refl eq_refl (pend s) (sh_evs s (evs s) [])
               (ShardOK_pend shard_of _ _ _ _ _ _ OK (Forall_nil _)) (proj1 (proj2 OK)) k v H) as X.
  exact X.
Qed.
End Latest.

(* attach_events: a generic induction principle *)
Lemma attach_events_ind (P : cache -> Prop) :
  (forall c sh s kind a, get_shard c sh = Some s -> P c ->
     P (put_shard c sh (sh_evs s (evs s ++ [(kind, a)]) (pend s)) (hits c) (misses c) (evictions c) (expirations c))) ->
  forall l c, P c -> P (attach_events c l).
Proof.
  intros H. assert (K : forall n l c, (length l <= n)%nat -> P c -> P (attach_events c l)).
  { induction n as [|n IH]; intros l c Hl Pc.
    - destruct l; [exact Pc|cbn in Hl; lia].
    - destruct l as [|kind [|sh [|a r]]]; cbn [attach_events]; try exact Pc.
      destruct (get_shard c sh) as [s|] eqn:G.
      + apply IH; [cbn in Hl; lia|]. apply H; assumption.
      + apply IH; [cbn in Hl; lia|exact Pc]. }
  intros l c. apply (K (length l)). apply le_n.
Qed.

(* the shard-level effect of Get *)
Lemma get_sh_ok pol m e nw s k : e_pol e = pol -> e_mask e = m -> PolicyOK pol m s ->
  let s' := fst (get_sh e nw s k) in
  PolicyOK pol m s' /\ Sub pol s s' /\ Stat s s'.
Proof.
  intros Hp Hm P. cbv zeta. unfold get_sh, get_out. rewrite Hp.
  destruct (lookup s pol k) as [it|] eqn:LK.
  - destruct (expired it nw).
    + destruct (drop_item e s it reasonExpired) as [[s1 ok] d] eqn:DI. cbn [fst].
      assert (R : 0 <= reasonExpired) by (unfold reasonExpired; lia).
      destruct (lookup_drop_ok pol m e s k it _ s1 ok d Hp Hm P R LK DI) as (P1 & _ & _ & _ & _ & SB & _).
      split; [apply PolicyOK_adapts; exact P1|]. split.
      * intros k' x. rewrite view_adapts. apply SB.
      * eapply Stat_trans; [eapply Stat_drop_item; eauto|apply Stat_adapts].
    + cbn [fst]. destruct (touch_ok pol m s k it P LK) as (P1 & SB).
      split; [apply PolicyOK_adapts; exact P1|]. split.
      * intros k' x. rewrite view_adapts. apply SB.
      * eapply Stat_trans; [apply (touch_fields pol s k it)|apply Stat_adapts].
  - cbn [fst]. split; [exact P|]. split; [apply Sub_refl|apply Stat_refl].
Qed.

(* ================================================================== *)
(** * 10b. C01: Agree — every resident or queued value is the latest written one *)
(* ================================================================== *)
Section Latest2.
Variable shard_of : Z -> Z.
Notation ShardOK := (ShardOK shard_of).
Notation CacheInv := (CacheInv shard_of).

Definition Agree (L : Z -> option Z) (c : cache) : Prop :=
  forall k s v, get_shard c (shard_of k) = Some s -> amap (policy c) s k = Some v -> L k = Some v.

Lemma Agree_ext L c c' : shards c' = shards c -> policy c' = policy c -> Agree L c -> Agree L c'.
Proof. intros E1 E2 A k s v G. unfold get_shard in G. rewrite E1 in G. rewrite E2. apply A. exact G. Qed.

Lemma Agree_put L L' c sh s s1 h m e x :
  Agree L c -> get_shard c sh = Some s ->
  (forall k v, Z.to_nat (shard_of k) = Z.to_nat sh -> amap (policy c) s1 k = Some v -> L' k = Some v) ->
  (forall k v, Z.to_nat (shard_of k) <> Z.to_nat sh -> L k = Some v -> L' k = Some v) ->
  Agree L' (put_shard c sh s1 h m e x).
Proof.
  intros A G H1 H2 k s2 v G2 AM. unfold get_shard in G, G2. cbn [put_shard shards policy] in *.
  destruct (Nat.eq_dec (Z.to_nat sh) (Z.to_nat (shard_of k))) as [E|NE].
  - rewrite <- E in G2. rewrite (nth_error_set_nth_eq _ _ _ _ G) in G2. injection G2 as <-. apply H1; auto.
  - rewrite nth_error_set_nth_neq in G2 by exact NE. apply H2; [auto|]. eapply A; eauto.
Qed.

Lemma Agree_put_sub L c sh s s1 h m e x :
  Agree L c -> get_shard c sh = Some s -> ASub (policy c) s s1 -> Agree L (put_shard c sh s1 h m e x).
Proof.
  intros A G SB. apply (Agree_put L L c sh s s1 h m e x A G); [|auto].
  intros k v E AM. apply (A k s v); [|apply SB; exact AM]. unfold get_shard in *. rewrite E. exact G.
Qed.

Lemma Agree_map L c f cl t : (forall s, In s (shards c) -> ASub (policy c) s (f s)) -> Agree L c ->
  Agree L (with_shards c (map f (shards c)) cl t).
Proof.
  intros H A k s v G AM. unfold get_shard in G. cbn [with_shards shards policy] in *.
  rewrite nth_error_map in G. destruct (nth_error (shards c) (Z.to_nat (shard_of k))) as [s0|] eqn:E; [|discriminate].
  injection G as <-. apply (A k s0 v E). apply H; [eapply nth_error_In; eauto|exact AM].
Qed.

Lemma Agree_attach L c ev : Agree L c -> Agree L (attach_events c ev).
Proof.
  revert c. apply attach_events_ind. intros c sh s kind a G A.
  apply (Agree_put_sub L c sh s _ _ _ _ _ A G). intros k v H; exact H.
Qed.

Lemma Agree_drain_shard L c sh : CacheInv c -> Agree L c -> Agree L (drain_shard c sh).
Proof.
  intros I A. destruct (get_shard c sh) as [s|] eqn:G; [|unfold drain_shard; rewrite G; exact A].
  rewrite (drain_shard_eq c sh s G). apply (Agree_put_sub L c sh s _ _ _ _ _ A G).
  eapply drained_ASub. apply (CacheInv_get _ _ _ _ I G).
Qed.

Lemma Agree_drain_all L c : CacheInv c -> Agree L c -> Agree L (drain_all c).
Proof.
  intros I A. unfold drain_all. generalize (zseq 0 (length (shards c))). intros l. revert c I A.
  induction l as [|a l IH]; intros c I A; cbn [fold_left]; [exact A|].
  apply IH; [apply (drain_shard_inv shard_of c a I)|apply Agree_drain_shard; assumption].
Qed.

Lemma Agree_empty L c : (forall s, In s (shards c) -> tabk s = [] /\ pend s = []) -> CacheInv c -> Agree L c.
Proof.
  intros H I k s v G AM. exfalso. pose proof (CacheInv_get _ _ _ _ I G) as (P & _).
  unfold get_shard in G. destruct (H s (nth_error_In _ _ G)) as [T PE].
  unfold amap, vmap in AM. rewrite PE in AM. cbn [pend_last] in AM.
  destruct (view (policy c) s k) eqn:V; [|discriminate].
  assert (In k (tabk s)) by (apply (tab_view _ _ _ _ P); congruence). rewrite T in H0. destruct H0.
Qed.

(* ---- the history and its lossy-map reference ---- *)
Definition upd (L : Z -> option Z) (k : Z) (x : option Z) : Z -> option Z := fun k' => if k' =? k then x else L k'.

Definition lat_step (L : Z -> option Z) (e : cop * cres) : Z -> option Z :=
  match e with
  | (CSet k v _ _ _, RCode r) | (CSetAsync k v _ _ _, RCode r) => if r =? 0 then upd L k (Some v) else L
  | (CDelete k _, _) => upd L k None
  | (CClear, _) | (CClose, _) => fun _ => None
  | _ => L
  end.

(* value of the most recent successful Set/SetAsync of the key; erased by Delete, Clear, Close *)
Definition latest (h : list (cop * cres)) : Z -> option Z := fold_left lat_step h (fun _ => None).

Lemma latest_snoc h e : latest (h ++ [e]) = lat_step (latest h) e.
Proof. unfold latest. rewrite fold_left_app. reflexivity. Qed.

Lemma wf_get c k sh : CacheInv c -> sh = shard_of k /\ 0 <= sh < nshards c -> exists s, get_shard c sh = Some s.
Proof.
  intros (L & _) [_ H]. unfold get_shard. destruct (nth_error (shards c) (Z.to_nat sh)) eqn:E; [eauto|].
  apply nth_error_None in E. lia.
Qed.

(* ---- one operation (before settle) ---- *)
Lemma Agree_op_set L c k v ttl cst sh : CacheInv c -> Agree L c -> sh = shard_of k /\ 0 <= sh < nshards c ->
  let '(c', r) := op_set c k v ttl cst sh in Agree (if r =? 0 then upd L k (Some v) else L) c'.
Proof.
  intros I A WF. destruct (set_check c sh cst =? 0) eqn:R.
  - assert (R0 : set_check c sh cst = 0) by lia.
    destruct (set_check_ok shard_of c sh cst I R0) as (s & G & Hc & Hcc & CL).
    rewrite (op_set_form c k v ttl cst sh s G R0). cbn [Z.eqb].
    pose proof (CacheInv_get _ _ _ _ I G) as OK. pose proof (drained_ok shard_of c _ s OK) as OKd.
    destruct (Stat_drained c s) as (D1 & D2 & D3 & D4).
    destruct (apply_set (env_of c) (fst (drained c s)) k v (stamp (norm_ttl c ttl) (now c)) cst) as [[s2 cm] d] eqn:E.
    cbn [fst snd]. pose proof (Stat_apply_set _ _ _ _ _ _ _ _ _ E) as (_ & _ & S3 & _).
    assert (Hcc' : costcap (fst (drained c s)) = 0 \/ cst <= costcap (fst (drained c s))) by (rewrite D2; exact Hcc).
    destruct (apply_set_ok (policy c) (mask c) (env_of c) _ k v _ cst s2 cm d eq_refl eq_refl (proj1 OKd) Hc Hcc' E) as (_ & V).
    apply (Agree_put L _ c sh s s2 _ _ _ _ A G).
    + intros k' v' E' AM. unfold upd. unfold amap in AM. rewrite S3, D3 in AM. cbn [pend_last] in AM.
      unfold vmap in AM. destruct (view (policy c) s2 k') as [x|] eqn:VX; [|discriminate].
      destruct (V _ _ VX) as [[-> ->]|[NK V0]].
      * rewrite Z.eqb_refl. exact AM.
      * replace (k' =? k) with false by lia. apply (A k' s v'); [unfold get_shard in *; rewrite E'; exact G|].
        apply (drained_ASub shard_of c _ s OK). unfold amap. rewrite D3. cbn [pend_last]. unfold vmap. rewrite V0. exact AM.
    + intros k' v' NE H. unfold upd. destruct (Z.eqb_spec k' k) as [->|_]; [|exact H].
      exfalso. apply NE. destruct WF as [-> _]. reflexivity.
  - rewrite op_set_fail by lia. rewrite R. exact A.
Qed.

Lemma Agree_op_set_async L c k v ttl cst sh : CacheInv c -> Agree L c -> sh = shard_of k /\ 0 <= sh < nshards c ->
  let '(c', r) := op_set_async c k v ttl cst sh in Agree (if r =? 0 then upd L k (Some v) else L) c'.
Proof.
  intros I A WF. destruct (set_check c sh cst =? 0) eqn:R.
  - assert (R0 : set_check c sh cst = 0) by lia.
    destruct (set_check_ok shard_of c sh cst I R0) as (s & G & Hc & Hcc & CL).
    rewrite (op_set_async_form c k v ttl cst sh s G R0). cbn [Z.eqb].
    apply (Agree_put L _ c sh s _ _ _ _ _ A G).
    + intros k' v' E' AM. unfold upd. unfold amap in AM. cbn [sh_evs pend] in AM. rewrite pend_last_app in AM.
      destruct (Z.eqb_spec k' k) as [->|NK].
      * rewrite Z.eqb_refl in AM. exact AM.
      * replace (k =? k') with false in AM by lia. apply (A k' s v'); [unfold get_shard in *; rewrite E'; exact G|].
        exact AM.
    + intros k' v' NE H. unfold upd. destruct (Z.eqb_spec k' k) as [->|_]; [|exact H].
      exfalso. apply NE. destruct WF as [-> _]. reflexivity.
  - rewrite op_set_async_fail by lia. rewrite R. exact A.
Qed.

Lemma get_pre_ok c k i s0 : ShardOK (policy c) (mask c) i s0 ->
  ShardOK (policy c) (mask c) i (fst (get_pre c k s0)) /\ ASub (policy c) s0 (fst (get_pre c k s0)).
Proof.
  intros OK. unfold get_pre. destruct (is_sieve s0 (policy c) && negb (memz (tabk s0) k)).
  - split; [apply drained_ok; exact OK|eapply drained_ASub; exact OK].
  - cbn [fst]. split; [exact OK|apply ASub_refl].
Qed.

Lemma Agree_op_get L c k sh : CacheInv c -> Agree L c -> Agree L (fst (fst (fst (op_get c k sh)))).
Proof.
  intros I A. destruct (closed c) eqn:CL; [unfold op_get; rewrite CL; exact A|].
  destruct (get_shard c sh) as [s0|] eqn:G; [|unfold op_get; rewrite CL, G; exact A].
  rewrite (op_get_form c k sh s0 CL G). cbn [fst].
  pose proof (CacheInv_get _ _ _ _ I G) as OK. destruct (get_pre_ok c k _ s0 OK) as (OK1 & AS1).
  destruct (get_sh_ok (policy c) (mask c) (env_of c) (now c) (fst (get_pre c k s0)) k eq_refl eq_refl (proj1 OK1)) as (_ & SB & (_ & _ & S3 & _)).
  apply (Agree_put_sub L c sh s0 _ _ _ _ _ A G). eapply ASub_trans; [exact AS1|].
  apply ASub_of_Sub; assumption.
Qed.

Lemma Agree_op_exists L c k sh : CacheInv c -> Agree L c -> Agree L (fst (op_exists c k sh)).
Proof.
  intros I A. destruct (closed c) eqn:CL; [unfold op_exists; rewrite CL; exact A|].
  destruct (get_shard c sh) as [s|] eqn:G; [|unfold op_exists; rewrite CL, G; exact A].
  rewrite (op_exists_form c k sh s CL G). unfold get_out.
  destruct (lookup s (policy c) k) as [it|] eqn:LK; [|exact A]. destruct (expired it (now c)); [|exact A].
  destruct (drop_item (env_of c) s it reasonExpired) as [[s1 ok] d] eqn:DI. cbn [fst snd].
  pose proof (CacheInv_get _ _ _ _ I G) as (P & _).
  assert (R : 0 <= reasonExpired) by (unfold reasonExpired; lia).
  destruct (lookup_drop_ok (policy c) (mask c) (env_of c) s k it _ s1 ok d eq_refl eq_refl P R LK DI) as (_ & _ & _ & _ & _ & SB & _).
  pose proof (Stat_drop_item _ _ _ _ _ _ _ DI) as (_ & _ & S3 & _).
  apply (Agree_put_sub L c sh s _ _ _ _ _ A G). apply ASub_of_Sub; assumption.
Qed.

Lemma Agree_op_delete L c k sh : CacheInv c -> Agree L c -> sh = shard_of k /\ 0 <= sh < nshards c ->
  Agree (upd L k None) (fst (op_delete c k sh)).
Proof.
  intros I A WF. destruct (wf_get c k sh I WF) as [s0 G].
  pose proof (CacheInv_get _ _ _ _ I G) as OK.
  destruct (closed c) eqn:CL.
  { unfold op_delete. rewrite CL. cbn [fst]. apply Agree_empty; [|exact I].
    destruct I as (_ & _ & CLI). exact (CLI CL). }
  rewrite (op_delete_form c k sh s0 CL G).
  pose proof (drained_ok shard_of c _ s0 OK) as OKd. pose proof (drained_ASub shard_of c _ s0 OK) as ASd.
  destruct (Stat_drained c s0) as (D1 & D2 & D3 & D4).
  assert (KEY : forall s1, pend s1 = [] -> view (policy c) s1 k = None -> Sub (policy c) (fst (drained c s0)) s1 ->
                forall h m e x, Agree (upd L k None) (put_shard c sh s1 h m e x)).
  { intros s1 PE VN SB h m e x. apply (Agree_put L _ c sh s0 s1 _ _ _ _ A G).
    - intros k' v' E' AM. unfold upd. unfold amap in AM. rewrite PE in AM. cbn [pend_last] in AM. unfold vmap in AM.
      destruct (Z.eqb_spec k' k) as [->|NK]; [rewrite VN in AM; discriminate|].
      apply (A k' s0 v'); [unfold get_shard in *; rewrite E'; exact G|]. apply ASd.
      unfold amap. rewrite D3. cbn [pend_last]. unfold vmap.
      destruct (view (policy c) s1 k') as [x0|] eqn:VX; [|discriminate]. rewrite (SB _ _ VX). exact AM.
    - intros k' v' NE H. unfold upd. destruct (Z.eqb_spec k' k) as [->|_]; [|exact H].
      exfalso. apply NE. destruct WF as [-> _]. reflexivity. }
  destruct (lookup (fst (drained c s0)) (policy c) k) as [it|] eqn:LK.
  - destruct (drop_item (env_of c) (fst (drained c s0)) it reasonDeleted) as [[s1 ok] d] eqn:DI. cbn [fst snd].
    assert (R : 0 <= reasonDeleted) by (unfold reasonDeleted; lia).
    destruct (lookup_drop_ok (policy c) (mask c) (env_of c) _ k it _ s1 ok d eq_refl eq_refl (proj1 OKd) R LK DI) as (_ & _ & _ & _ & VN & SB & _).
    pose proof (Stat_drop_item _ _ _ _ _ _ _ DI) as (_ & _ & S3 & _).
    apply KEY; [congruence|exact VN|exact SB].
  - cbn [fst]. apply KEY; [exact D3| |apply Sub_refl]. unfold view. rewrite LK. reflexivity.
Qed.

Lemma Agree_cleared L c cl : CacheInv c -> (forall s, In s (shards c) -> pend s = []) ->
  Agree L (with_shards c (map (clear_shard (policy c)) (shards c)) cl (now c)).
Proof.
  intros I Q k s v G AM. exfalso. unfold get_shard in G. cbn [with_shards shards policy] in *.
  rewrite nth_error_map in G. destruct (nth_error (shards c) (Z.to_nat (shard_of k))) as [s0|] eqn:E; [|discriminate].
  injection G as <-. destruct I as (_ & OKS & _). destruct (OKS _ _ E) as (P & _).
  destruct (clear_shard_ok (policy c) (mask c) s0 P) as (_ & _ & _ & _ & (_ & _ & S3 & _) & _ & _ & _ & VN).
  unfold amap, vmap in AM. rewrite S3, (Q s0 (nth_error_In _ _ E)), VN in AM. discriminate.
Qed.

Lemma Agree_op_clear c : CacheInv c -> Agree (fun _ => None) (op_clear c).
Proof.
  intros I. unfold op_clear. destruct (closed c) eqn:CL.
  - apply Agree_empty; [|exact I]. destruct I as (_ & _ & CLI). exact (CLI CL).
  - destruct (drain_all_inv shard_of c I) as (I0 & _ & _ & _ & Q0). apply Agree_cleared; assumption.
Qed.

Lemma Agree_op_close c : CacheInv c -> Agree (fun _ => None) (op_close c).
Proof.
  intros I. unfold op_close. destruct (closed c) eqn:CL.
  - apply Agree_empty; [|exact I]. destruct I as (_ & _ & CLI). exact (CLI CL).
  - destruct (drain_all_inv shard_of c I) as (I0 & _ & _ & _ & Q0). apply Agree_cleared; assumption.
Qed.

Lemma Agree_op_cleanup L c : CacheInv c -> Agree L c -> Agree L (op_cleanup c).
Proof.
  intros I A. destruct (closed c) eqn:CL; [unfold op_cleanup; rewrite CL; exact A|].
  destruct (op_cleanup_fields c) as (F1 & _).
  apply (Agree_ext L (with_shards c (map (CP.cleanup_of (env_of c) (now c)) (shards c)) (closed c) (now c)));
    [rewrite (CP.op_cleanup_shards c CL); reflexivity|exact F1|].
  apply Agree_map; [|exact A]. intros s Hs. apply In_nth_error in Hs. destruct Hs as [i Hi].
  destruct I as (_ & OKS & _). destruct (OKS _ _ Hi) as (P & _). unfold CP.cleanup_of.
  destruct (fold_left (cleanup_shard (env_of c) (now c)) (tabk s) (s, 0, 0)) as [[s' ev'] ex'] eqn:E. cbn [fst].
  destruct (cleanup_fold_ok (policy c) (mask c) (env_of c) (now c) eq_refl eq_refl _ _ _ _ _ _ _ P E) as (_ & SB & (_ & _ & S3 & _) & _).
  apply ASub_of_Sub; assumption.
Qed.

Lemma Agree_settle L c : Agree L c -> Agree L (settle c).
Proof.
  intros A. unfold settle. destruct (quiescent c); [|exact A]. unfold take_staged. cbn [fst with_shards shards closed now].
  set (c1 := with_shards c (map adapts (shards c)) (closed c) (now c)).
  assert (A1 : Agree L c1).
  { apply Agree_map; [|exact A]. intros s _. apply ASub_of_Sub; [apply Stat_adapts|].
    intros k x. rewrite view_adapts. tauto. }
  change (map adapts (shards c)) with (shards c1).
  apply (Agree_map L c1 _ (closed c) (now c)); [|exact A1]. intros s _ k v H. exact H.
Qed.
End Latest2.

(* ================================================================== *)
(** * 11. The shard's structures agree (C10 item 18, shard level)        *)
(* ================================================================== *)
Lemma shard_items_facts pol m s : PolicyOK pol m s ->
  let l := shard_items s pol in
  NoDup (map key l) /\ NoDup (tabk s) /\ (forall k, In k (tabk s) <-> In k (map key l)) /\
  size s = zlen l /\ scost s = sumZ (map cost l) /\
  (forall it, In it l -> lookup s pol (key it) = Some it /\ 0 <= cost it /\ unpub it = false) /\
  (forall k it, lookup s pol k = Some it -> In it l /\ key it = k).
Proof.
  intros (_ & _ & H). cbv zeta. unfold shard_items. destruct (is_sieve s pol) eqn:IS.
  - destruct (is_sieve_true_inv _ _ IS) as [-> _]. destruct H as (I & Q & _).
    assert (E : filter (fun it => negb (unpub it)) (prob s ++ main s) = prob s ++ main s).
    { apply CP.filter_all. intros x Hx. rewrite (Q x Hx). reflexivity. }
    rewrite E. pose proof I as [N1 N2 T SZ SC CN _ _ _ _ _].
    split; [exact N1|]. split; [exact N2|]. split.
    { intros k. rewrite T. split.
      - intros [it [Hi [K _]]]. rewrite <- K. apply in_map. exact Hi.
      - intros Hk. apply in_map_iff in Hk. destruct Hk as [it [K Hi]]. exists it. split; [exact Hi|split; [exact K|apply Q; exact Hi]]. }
    split; [rewrite SZ; unfold zlen; rewrite app_length; lia|]. split; [exact SC|]. split.
    + intros it Hi. split; [|split; [apply CN; exact Hi|apply Q; exact Hi]].
      apply (SP.lookup_of_in (senv policySieve false 0) eq_refl s it I Hi (Q _ Hi)).
    + intros k it LK. destruct (SP.lookup_some (senv policySieve false 0) eq_refl s k it I LK) as (A & B & _). auto.
  - destruct H as ((C & _) & _). pose proof C as [C1 C2 C3 C4 C5 C6 C7 C8 C9 C10 C11].
    split; [exact C3|]. split; [exact C2|]. split; [exact C4|]. split; [exact C5|]. split; [exact C6|]. split.
    + intros it Hi. rewrite Forall_forall in C7. destruct (C7 it Hi) as [X Y]. split; [|split; assumption].
      rewrite (CP.lookup_find _ _ _ C). apply CP.find_item_NoDup; assumption.
    + intros k it LK. destruct (CP.lookup_resident _ _ _ _ C LK) as (_ & K & _ & Hi & _). auto.
Qed.

Lemma NoDup_map_filter {A} (g : A -> Z) (f : A -> bool) l : NoDup (map g l) -> NoDup (map g (filter f l)).
Proof.
  induction l as [|x l IH]; cbn [filter map]; intros ND; [constructor|].
  inversion ND as [|y r Hy ND']; subst. destruct (f x); [|exact (IH ND')].
  cbn [map]. constructor; [|exact (IH ND')]. intros H. apply Hy.
  apply in_map_iff in H. destruct H as [z [E Hz]]. apply filter_In in Hz. rewrite <- E. apply in_map. tauto.
Qed.

Lemma NoDup_flat_map_idx {A} (g : A -> list Z) (F : Z -> Z) : forall (l : list A) (n : nat),
  (forall i s, nth_error l i = Some s -> NoDup (g s) /\ forall k, In k (g s) -> F k = Z.of_nat (n + i)) ->
  NoDup (flat_map g l).
Proof.
  induction l as [|a l IH]; intros n H; cbn [flat_map]; [constructor|].
  apply CP.nodup_app_iff. destruct (H O a eq_refl) as [ND0 F0]. split; [exact ND0|]. split.
  - apply (IH (S n)). intros i s Hi. destruct (H (S i) s Hi) as [A1 A2]. split; [exact A1|].
    intros k Hk. rewrite (A2 k Hk). f_equal. lia.
  - intros x Hx Hx'. apply in_flat_map in Hx'. destruct Hx' as [s [Hs Hxs]].
    apply In_nth_error in Hs. destruct Hs as [i Hi]. destruct (H (S i) s Hi) as [_ A2].
    pose proof (F0 x Hx). pose proof (A2 x Hxs). lia.
Qed.

Lemma insert_z_perm x l : Permutation (insert_z x l) (x :: l).
Proof.
  induction l as [|y l IH]; cbn [insert_z]; [apply Permutation_refl|].
  destruct (x <=? y); [apply Permutation_refl|].
  eapply Permutation_trans; [apply perm_skip; exact IH|apply perm_swap].
Qed.
Lemma sort_z_perm l : Permutation (sort_z l) l.
Proof.
  induction l as [|x l IH]; cbn [sort_z fold_right]; [apply Permutation_refl|].
  eapply Permutation_trans; [apply insert_z_perm|apply perm_skip; exact IH].
Qed.

Section C01.
Variable shard_of : Z -> Z.
Notation ShardOK := (ShardOK shard_of).
Notation CacheInv := (CacheInv shard_of).
Notation Agree := (Agree shard_of).

(* ---- Get / GetWithTTL ---- *)
Theorem get_hit_latest L c k sh s0 c' v t :
  CacheInv c -> Agree L c -> sh = shard_of k -> get_shard c sh = Some s0 ->
  op_get c k sh = (c', true, v, t) ->
  (exists v', L k = Some v') /\
  (pend_last (pend s0) k = None \/ (is_sieve s0 (policy c) = true /\ ~ In k (tabk s0)) -> L k = Some v).
Proof.
  intros I A WF G H. destruct (closed c) eqn:CL; [unfold op_get in H; rewrite CL in H; discriminate|].
  rewrite (op_get_form c k sh s0 CL G) in H. cbv zeta in H.
  pose proof (CacheInv_get _ _ _ _ I G) as OK. destruct (get_pre_ok shard_of c k _ s0 OK) as (OK1 & AS1).
  set (s := fst (get_pre c k s0)) in *.
  unfold get_out in H. destruct (lookup s (policy c) k) as [it|] eqn:LK; [|discriminate].
  destruct (expired it (now c)); [discriminate|]. injection H as _ <- _.
  assert (VM : vmap (policy c) s k = Some (val it)) by (unfold vmap, view; rewrite LK; reflexivity).
  assert (AM : exists v', amap (policy c) s k = Some v' /\ (pend_last (pend s) k = None -> v' = val it)).
  { unfold amap. destruct (pend_last (pend s) k) as [v'|]; [exists v'; split; [reflexivity|discriminate]|].
    exists (val it). split; [exact VM|reflexivity]. }
  destruct AM as (v' & AM & EQ). subst sh.
  assert (LV : L k = Some v') by (apply (A k s0 v' G); apply AS1; exact AM).
  split; [exists v'; exact LV|]. intros C. rewrite LV. f_equal. apply EQ.
  unfold s, get_pre. destruct C as [C|[C1 C2]].
  - destruct (is_sieve s0 (policy c) && negb (memz (tabk s0) k)); [|exact C].
    destruct (Stat_drained c s0) as (_ & _ & PE & _). rewrite PE. reflexivity.
  - apply CP.memz_false in C2. rewrite C1, C2. cbn [andb negb fst].
    destruct (Stat_drained c s0) as (_ & _ & PE & _). rewrite PE. reflexivity.
Qed.

(* ---- Exists ---- *)
Theorem exists_true_latest L c k sh :
  CacheInv c -> Agree L c -> sh = shard_of k -> snd (op_exists c k sh) = true -> exists v, L k = Some v.
Proof.
  intros I A WF H. destruct (closed c) eqn:CL; [unfold op_exists in H; rewrite CL in H; discriminate|].
  destruct (get_shard c sh) as [s|] eqn:G; [|unfold op_exists in H; rewrite CL, G in H; discriminate].
  rewrite (op_exists_form c k sh s CL G) in H. unfold get_out in H.
  destruct (lookup s (policy c) k) as [it|] eqn:LK; [|discriminate].
  assert (AM : exists v, amap (policy c) s k = Some v).
  { unfold amap. destruct (pend_last (pend s) k) as [v'|]; [eauto|]. unfold vmap, view. rewrite LK. eauto. }
  destruct AM as [v AM]. exists v. subst sh. exact (A k s v G AM).
Qed.

(* ---- Keys ---- *)
Lemma op_keys_in c k : CacheInv c -> In k (op_keys c) ->
  exists i s it, nth_error (shards c) i = Some s /\ In k (tabk s) /\ shard_of k = Z.of_nat i /\
                 lookup s (policy c) k = Some it /\ ((exp it =? 0) || (now c <=? exp it)) = true.
Proof.
  intros I H. unfold op_keys in H. destruct (closed c); [destruct H|].
  apply in_flat_map in H. destruct H as [s [Hs Hk]]. apply In_nth_error in Hs. destruct Hs as [i Hi].
  apply in_map_iff in Hk. destruct Hk as [it [K Hit]]. apply filter_In in Hit. destruct Hit as [Hit F].
  apply andb_prop in F. destruct F as [F1 F2]. apply CP.memz_In in F1. rewrite K in F1.
  destruct I as (_ & OKS & _). destruct (OKS _ _ Hi) as (P & _ & T).
  destruct (shard_items_facts _ _ _ P) as (_ & _ & _ & _ & _ & LI & _). destruct (LI it Hit) as (LK & _).
  rewrite K in LK. exists i, s, it. repeat split; auto.
Qed.

Theorem keys_latest L c k : CacheInv c -> Agree L c -> In k (op_keys c) -> exists v, L k = Some v.
Proof.
  intros I A H. destruct (op_keys_in c k I H) as (i & s & it & Hi & Hk & Sk & LK & _).
  assert (G : get_shard c (shard_of k) = Some s) by (unfold get_shard; rewrite Sk, Nat2Z.id; exact Hi).
  assert (AM : exists v, amap (policy c) s k = Some v).
  { unfold amap. destruct (pend_last (pend s) k) as [v'|]; [eauto|]. unfold vmap, view. rewrite LK. eauto. }
  destruct AM as [v AM]. exists v. exact (A k s v G AM).
Qed.

Theorem op_keys_nodup c : CacheInv c -> NoDup (op_keys c).
Proof.
  intros I. unfold op_keys. destruct (closed c); [constructor|].
  apply (NoDup_flat_map_idx _ shard_of (shards c) 0). intros i s Hi.
  destruct I as (_ & OKS & _). destruct (OKS _ _ Hi) as (P & _ & T).
  destruct (shard_items_facts _ _ _ P) as (ND & _). split.
  - apply NoDup_map_filter. exact ND.
  - intros k Hk. apply in_map_iff in Hk. destruct Hk as [it [K Hit]]. apply filter_In in Hit. destruct Hit as [_ F].
    apply andb_prop in F. destruct F as [F1 _]. apply CP.memz_In in F1. rewrite K in F1. cbn [Nat.add]. apply T. exact F1.
Qed.

(* ---- C01.3: Delete reports true exactly when the key was resident (after draining its shard) and the cache open ---- *)
Theorem c01_delete_iff_resident c k sh : CacheInv c ->
  (snd (op_delete c k sh) = true <->
   closed c = false /\ exists s0, get_shard c sh = Some s0 /\ view (policy c) (fst (drained c s0)) k <> None).
Proof.
  intros I. destruct (closed c) eqn:CL.
  { unfold op_delete. rewrite CL. cbn [snd]. split; [discriminate|intros [X _]; discriminate]. }
  destruct (get_shard c sh) as [s0|] eqn:G.
  - rewrite (op_delete_form c k sh s0 CL G). unfold view.
    destruct (lookup (fst (drained c s0)) (policy c) k) as [it|] eqn:LK.
    + destruct (drop_item (env_of c) (fst (drained c s0)) it reasonDeleted) as [[s1 ok] d] eqn:DI. cbn [fst snd].
      pose proof (drained_ok shard_of c _ s0 (CacheInv_get _ _ _ _ I G)) as (P & _).
      assert (R : 0 <= reasonDeleted) by (unfold reasonDeleted; lia).
      destruct (lookup_drop_ok (policy c) (mask c) (env_of c) _ k it _ s1 ok d eq_refl eq_refl P R LK DI) as (_ & -> & _).
      split; [intros _; split; [reflexivity|exists s0; split; [reflexivity|rewrite LK; discriminate]]|reflexivity].
    + cbn [snd]. split; [discriminate|]. intros [_ [s1 [E X]]]. injection E as <-. rewrite LK in X. congruence.
  - unfold op_delete, drain_shard. rewrite CL, G. cbn beta iota zeta. rewrite G. cbn [snd].
    split; [discriminate|]. intros [_ [s1 [E _]]]. discriminate.
Qed.

(* ---- C01.4: a failed Set / SetAsync is a no-op ---- *)
Theorem c01_failed_set_noop c k v ttl cst sh :
  (snd (op_set c k v ttl cst sh) <> 0 -> fst (op_set c k v ttl cst sh) = c) /\
  (snd (op_set_async c k v ttl cst sh) <> 0 -> fst (op_set_async c k v ttl cst sh) = c).
Proof.
  unfold op_set, op_set_async. destruct (set_check c sh cst =? 0) eqn:R; cbn [negb fst snd].
  - split; [intros H; congruence|]. destruct (get_shard c sh); cbn [fst snd]; intros H; congruence.
  - split; reflexivity.
Qed.

(* ---- the run-level statement ---- *)
Definition res_ok (c : cache) (L : Z -> option Z) (op : cop) (ev : list Z) (r : cres) : Prop :=
  let c0 := attach_events c ev in
  match op, r with
  | CGet k sh, RGet true v | CGetTTL k sh, RGetTTL true v _ =>
      (exists v', L k = Some v') /\
      (forall s0, get_shard c0 sh = Some s0 ->
         pend_last (pend s0) k = None \/ (is_sieve s0 (policy c0) = true /\ ~ In k (tabk s0)) -> L k = Some v)
  | CExists k sh, RBool true => exists v', L k = Some v'
  | CKeys, RKeys l => NoDup l /\ forall k, In k l -> exists v', L k = Some v'
  | _, _ => True
  end.

(* every result of the run is justified by the reference map of the history so far *)
Fixpoint run_ok (c : cache) (L : Z -> option Z) (ops : list (cop * list Z)) : Prop :=
  match ops with
  | [] => True
  | (op, ev) :: r =>
      res_ok c L op ev (snd (cstep_full c op ev)) /\
      run_ok (fst (cstep_full c op ev)) (lat_step L (op, snd (cstep_full c op ev))) r
  end.

Lemma c01_step L c op ev : CacheInv c -> Agree L c -> wf_op shard_of (nshards c) op ->
  res_ok c L op ev (snd (cstep_full c op ev)) /\
  Agree (lat_step L (op, snd (cstep_full c op ev))) (fst (cstep_full c op ev)).
Proof.
  intros I A WF. unfold cstep_full, res_ok.
  destruct (attach_events_inv shard_of (length ev) ev c (le_n _) I) as (I0 & C0 & _).
  pose proof (Agree_attach shard_of L c ev A) as A0. rewrite <- (cf_nshards _ _ C0) in WF.
  unfold cstep. set (c0 := attach_events c ev) in *.
  destruct op; cbn [wf_op] in WF; cbn [lat_step].
  - pose proof (Agree_op_set shard_of L c0 k v ttl cst sh I0 A0 WF) as X.
    destruct (op_set c0 k v ttl cst sh) as [c1 r]. cbn [fst snd]. split; [exact Logic.I|apply Agree_settle; exact X].
  - pose proof (Agree_op_get shard_of L c0 k sh I0 A0) as X.
    destruct (op_get c0 k sh) as [[[c1 ok] v] t] eqn:E. cbn [fst snd] in *. split; [|apply Agree_settle; exact X].
    destruct ok; [|exact Logic.I]. destruct (wf_get shard_of c0 k sh I0 WF) as [s0 G].
    destruct (get_hit_latest L c0 k sh s0 c1 v t I0 A0 (proj1 WF) G E) as (X1 & X2).
    split; [exact X1|]. intros s1 G1. rewrite G in G1. injection G1 as <-. exact X2.
  - pose proof (Agree_op_get shard_of L c0 k sh I0 A0) as X.
    destruct (op_get c0 k sh) as [[[c1 ok] v] t] eqn:E. cbn [fst snd] in *. split; [|apply Agree_settle; exact X].
    destruct ok; [|exact Logic.I]. destruct (wf_get shard_of c0 k sh I0 WF) as [s0 G].
    destruct (get_hit_latest L c0 k sh s0 c1 v t I0 A0 (proj1 WF) G E) as (X1 & X2).
    split; [exact X1|]. intros s1 G1. rewrite G in G1. injection G1 as <-. exact X2.
  - pose proof (Agree_op_exists shard_of L c0 k sh I0 A0) as X.
    pose proof (exists_true_latest L c0 k sh I0 A0 (proj1 WF)) as Y.
    destruct (op_exists c0 k sh) as [c1 b]. cbn [fst snd] in *. split; [|apply Agree_settle; exact X].
    destruct b; [apply Y; reflexivity|exact Logic.I].
  - pose proof (Agree_op_delete shard_of L c0 k sh I0 A0 WF) as X.
    destruct (op_delete c0 k sh) as [c1 b]. cbn [fst snd] in *. split; [exact Logic.I|apply Agree_settle; exact X].
  - cbn [fst snd]. split; [|apply Agree_settle; exact A0]. split.
    + apply (Permutation_NoDup (Permutation_sym (sort_z_perm _))). apply op_keys_nodup. exact I0.
    + intros k Hk. apply (keys_latest L c0 k I0 A0). apply (Permutation_in _ (sort_z_perm _)). exact Hk.
  - cbn [fst snd]. split; [exact Logic.I|apply Agree_settle, Agree_op_clear; exact I0].
  - cbn [fst snd]. split; [exact Logic.I|apply Agree_settle, Agree_op_cleanup; assumption].
  - cbn [fst snd]. split; [exact Logic.I|apply Agree_settle]. apply (Agree_ext shard_of L c0); [reflexivity|reflexivity|exact A0].
  - cbn [fst snd]. split; [exact Logic.I|apply Agree_settle; exact A0].
  - pose proof (Agree_op_set_async shard_of L c0 k v ttl cst sh I0 A0 WF) as X.
    destruct (op_set_async c0 k v ttl cst sh) as [c1 r]. cbn [fst snd]. split; [exact Logic.I|apply Agree_settle; exact X].
  - destruct (closed c0); cbn [fst snd]; (split; [exact Logic.I|apply Agree_settle]); [exact A0|apply Agree_drain_all; assumption].
  - cbn [fst snd]. split; [exact Logic.I|apply Agree_settle, Agree_op_close; exact I0].
  - cbn [fst snd]. split; [exact Logic.I|apply Agree_settle; exact A0].
  - cbn [fst snd]. split; [exact Logic.I|apply Agree_settle; exact A0].
Qed.

(** C01.1 *)
Theorem c01_lookup_latest_or_miss ops : forall c L,
  CacheInv c -> Agree L c -> Forall (fun p => wf_op shard_of (nshards c) (fst p)) ops -> run_ok c L ops.
Proof.
  induction ops as [|[op ev] r IH]; intros c L I A WF; cbn [run_ok]; [exact Logic.I|].
  apply Forall_cons_iff in WF. destruct WF as [W1 W2]. cbn [fst] in W1.
  destruct (c01_step L c op ev I A W1) as (R & A').
  destruct (cstep_full_inv shard_of c op ev I W1) as (I' & C').
  split; [exact R|]. apply IH; [exact I'|exact A'|]. rewrite (cf_nshards _ _ C'). exact W2.
Qed.

(* the history of a run, and the theorem from the empty cache *)
Fixpoint chist (c : cache) (ops : list (cop * list Z)) : list (cop * cres) :=
  match ops with [] => [] | (op, ev) :: r => (op, snd (cstep_full c op ev)) :: chist (fst (cstep_full c op ev)) r end.

Lemma Agree_init c : CacheInv c -> (forall s, In s (shards c) -> tabk s = [] /\ pend s = []) -> Agree (latest []) c.
Proof. intros I H. apply Agree_empty; assumption. Qed.
End C01.

(* ================================================================== *)
(** * 12. C03 budget and C10 size / cost / structures at cache level    *)
(* ================================================================== *)
Lemma zlen_flat_map {A B} (f : A -> list B) l : zlen (flat_map f l) = sumZ (map (fun s => zlen (f s)) l).
Proof.
  unfold zlen. induction l as [|a l IH]; cbn [flat_map map sumZ length]; [reflexivity|].
  rewrite app_length, Nat2Z.inj_add, IH. reflexivity.
Qed.

Lemma sumZ_map_ext {A} (f g : A -> Z) l : (forall x, In x l -> f x = g x) -> sumZ (map f l) = sumZ (map g l).
Proof.
  induction l as [|a l IH]; intros H; cbn [map sumZ]; [reflexivity|].
  rewrite (H a (or_introl eq_refl)), IH; [reflexivity|]. intros x Hx. apply H. right. exact Hx.
Qed.

Lemma sumZ_map_le {A} (f g : A -> Z) l : (forall x, In x l -> f x <= g x) -> sumZ (map f l) <= sumZ (map g l).
Proof.
  induction l as [|a l IH]; intros H; cbn [map sumZ]; [lia|].
  pose proof (H a (or_introl eq_refl)). assert (sumZ (map f l) <= sumZ (map g l)); [|lia].
  apply IH. intros x Hx. apply H. right. exact Hx.
Qed.

Lemma sumZ_flat_map {A} (f : A -> list Z) l : sumZ (flat_map f l) = sumZ (map (fun s => sumZ (f s)) l).
Proof. induction l as [|a l IH]; cbn [flat_map map sumZ]; [reflexivity|]. rewrite sumZ_app, IH. reflexivity. Qed.

Lemma filter_length_le {A} (f : A -> bool) l : (length (filter f l) <= length l)%nat.
Proof. induction l as [|a l IH]; cbn [filter length]; [lia|]. destruct (f a); cbn [length]; lia. Qed.

Lemma map_flat_map {A B C} (g : B -> C) (f : A -> list B) l : map g (flat_map f l) = flat_map (fun x => map g (f x)) l.
Proof. induction l as [|a l IH]; cbn [flat_map map]; [reflexivity|]. rewrite map_app, IH. reflexivity. Qed.

(* every entry physically held by the cache, including expired entries not yet swept *)
Definition all_items (c : cache) : list item := flat_map (fun s => shard_items s (policy c)) (shards c).

Section C10.
Variable shard_of : Z -> Z.
Notation CacheInv := (CacheInv shard_of).

Lemma CacheInv_In c s : CacheInv c -> In s (shards c) -> PolicyOK (policy c) (mask c) s.
Proof. intros (_ & OKS & _) H. apply In_nth_error in H. destruct H as [i Hi]. apply (OKS _ _ Hi). Qed.

(** C10.16 (holds at every state, in particular at the quiescent ones) *)
Theorem c10_size_cost c : CacheInv c ->
  total_size c = zlen (all_items c) /\
  total_size c = zlen (flat_map tabk (shards c)) /\
  total_cost c = (if trackCost c then sumZ (map cost (all_items c)) else total_size c) /\
  NoDup (map key (all_items c)) /\
  (forall k, In k (map key (all_items c)) <-> In k (flat_map tabk (shards c))) /\
  zlen (op_keys c) <= total_size c.
Proof.
  intros I.
  assert (F : forall s, In s (shards c) ->
     let l := shard_items s (policy c) in
     NoDup (map key l) /\ NoDup (tabk s) /\ (forall k, In k (tabk s) <-> In k (map key l)) /\
     size s = zlen l /\ scost s = sumZ (map cost l)).
  { intros s Hs. destruct (shard_items_facts _ _ _ (CacheInv_In c s I Hs)) as (A & B & C & D & E & _). auto. }
  assert (E1 : total_size c = zlen (all_items c)).
  { unfold total_size, all_items. rewrite zlen_flat_map. apply sumZ_map_ext. intros s Hs. apply (F s Hs). }
  split; [exact E1|]. split.
  { unfold total_size. rewrite zlen_flat_map. apply sumZ_map_ext. intros s Hs. destruct (F s Hs) as (A & B & C & D & _).
    rewrite D. unfold zlen. f_equal. rewrite <- (map_length key).
    apply Nat.le_antisymm; apply NoDup_incl_length; try assumption; intros k Hk; apply C; exact Hk. }
  split.
  { unfold total_cost. destruct (trackCost c); [|reflexivity]. unfold all_items.
    rewrite map_flat_map, sumZ_flat_map. apply sumZ_map_ext. intros s Hs. apply (F s Hs). }
  assert (KK : map key (all_items c) = flat_map (fun s => map key (shard_items s (policy c))) (shards c)).
  { unfold all_items. apply map_flat_map. }
  split.
  { rewrite KK. apply (NoDup_flat_map_idx _ shard_of (shards c) 0). intros i s Hi.
    destruct I as (_ & OKS & _). destruct (OKS _ _ Hi) as (P & _ & T).
    destruct (shard_items_facts _ _ _ P) as (A & _ & C & _). split; [exact A|].
    intros k Hk. cbn [Nat.add]. apply T. apply C. exact Hk. }
  split.
  { intros k. rewrite KK, !in_flat_map. split; intros [s [Hs Hk]]; exists s; (split; [exact Hs|]); apply (F s Hs); exact Hk. }
  rewrite E1. unfold op_keys, all_items. destruct (closed c); [unfold zlen; cbn; lia|].
  rewrite !zlen_flat_map. apply sumZ_map_le. intros s _. unfold zlen. rewrite map_length.
  apply inj_le. apply filter_length_le.
Qed.
End C10.

Section C03.
Variable shard_of : Z -> Z.
Notation CacheInv := (CacheInv shard_of).

(** C10.18: the invariant projected on one shard: table domain = list members, no duplicates, counters = sizes *)
Theorem c10_structures_agree c i s : CacheInv c -> nth_error (shards c) i = Some s ->
  let l := shard_items s (policy c) in
  NoDup (map key l) /\ NoDup (tabk s) /\ (forall k, In k (tabk s) <-> In k (map key l)) /\
  (forall k, In k (tabk s) <-> lookup s (policy c) k <> None) /\
  size s = zlen l /\ size s = zlen (tabk s) /\ scost s = sumZ (map cost l) /\
  (forall it, In it l -> 0 <= cost it /\ unpub it = false /\ lookup s (policy c) (key it) = Some it) /\
  (forall k, In k (tabk s) -> shard_of k = Z.of_nat i) /\
  (if is_sieve s (policy c)
   then l = prob s ++ main s /\ lst s = [] /\ lfu s = [] /\ pcap s + mcap s = cap s /\
        (forall h, hand s = Some h -> In h (map key (main s)))
   else l = lst s /\ prob s = [] /\ main s = [] /\ hand s = None /\
        (policy c = policyLFU -> CP.LfuOK (lfu s) (tabk s))).
Proof.
  intros (_ & OKS & _) Hi. cbv zeta. destruct (OKS _ _ Hi) as (P & _ & T).
  destruct (shard_items_facts _ _ _ P) as (A & B & C & D & E & F & _).
  split; [exact A|]. split; [exact B|]. split; [exact C|]. split.
  { intros k. rewrite (tab_view _ _ _ _ P). unfold view. destruct (lookup s (policy c) k); split; congruence. }
  split; [exact D|]. split.
  { rewrite D. unfold zlen. f_equal. rewrite <- (map_length key).
    apply Nat.le_antisymm; apply NoDup_incl_length; try assumption; intros k Hk; apply C; exact Hk. }
  split; [exact E|]. split; [intros it Hit; destruct (F it Hit) as (X & Y & Z0); auto|]. split; [exact T|].
  destruct P as (_ & _ & H). unfold shard_items. destruct (is_sieve s (policy c)) eqn:IS.
  - destruct H as (I & Q & _). pose proof I as [_ _ _ _ _ _ HH CC _ CL _]. destruct CL as [CL1 CL2].
    split; [apply CP.filter_all; intros x Hx; rewrite (Q x Hx); reflexivity|]. auto.
  - destruct H as ((CI & _) & _). destruct CI as [C1 C2 C3 C4 C5 C6 C7 C8 C9 C10 C11]. auto.
Qed.

(** C03.6: within budget.  Unconditional for LRU / FIFO / Sieve; for LFU under serr = 0 (a refused oracle event
    stops the LFU eviction loop, see ClassicProofs.budget_needs_serr_zero_refuted). *)
Theorem c03_within_budget c i s : CacheInv c -> nth_error (shards c) i = Some s ->
  (policy c <> policyLFU \/ serr s = 0) ->
  (0 < cap s -> size s <= cap s) /\ (0 < costcap s -> scost s <= costcap s).
Proof.
  intros (_ & OKS & _) Hi E. destruct (OKS _ _ Hi) as ((_ & _ & H) & _).
  assert (O : over_capacity s = false).
  { destruct (is_sieve s (policy c)); [apply H|]. destruct H as [_ O]. apply O. exact E. }
  unfold over_capacity in O. lia.
Qed.

(* the sum of the shard capacities is MaxSize, every shard capacity is at least 1 *)
Lemma caps_sum cfg ncpu : validate cfg = None -> 1 <= ncpu -> ShardCount cfg <= 2 ^ 62 -> 0 < MaxSize cfg ->
  let n := shard_count cfg ncpu in
  sumZ (map (shard_cap cfg n) (zseq 0 (Z.to_nat n))) = MaxSize cfg /\
  Forall (fun x => 1 <= x) (map (shard_cap cfg n) (zseq 0 (Z.to_nat n))).
Proof.
  intros V Hc Hs Hm. cbv zeta. destruct (shard_count_pow2 cfg ncpu V Hc Hs) as [_ Hn].
  destruct (shard_count_le_maxsize cfg ncpu V Hc Hs Hm) as [Hle _].
  split; [apply share_sum; assumption|]. apply Forall_forall. intros x Hx. apply in_map_iff in Hx.
  destruct Hx as [i [<- _]]. apply share_ge_1. lia.
Qed.

(** C03.6, the global form: in every state reachable from a valid configuration with MaxSize > 0, Keys lists at most
    MaxSize keys, and the cache holds at most MaxSize entries (for LFU: on shards that raised no error) *)
Theorem c03_keys_le_maxsize c0 c cfg ncpu :
  map cap (shards c0) = map (shard_cap cfg (shard_count cfg ncpu)) (zseq 0 (Z.to_nat (shard_count cfg ncpu))) ->
  validate cfg = None -> 1 <= ncpu -> ShardCount cfg <= 2 ^ 62 -> 0 < MaxSize cfg ->
  Cfg c0 c -> CacheInv c -> (policy c <> policyLFU \/ errs c = 0) ->
  zlen (op_keys c) <= total_size c /\ total_size c <= MaxSize cfg.
Proof.
  intros E0 V Hc Hs Hm CF I ER.
  destruct (caps_sum cfg ncpu V Hc Hs Hm) as [SUM GE]. cbv zeta in SUM, GE. rewrite <- E0 in SUM, GE.
  rewrite <- (cf_caps _ _ CF) in SUM, GE.
  split; [apply (c10_size_cost shard_of c I)|]. rewrite <- SUM. unfold total_size. apply sumZ_map_le.
  intros s Hs'. rewrite Forall_forall in GE. pose proof (GE (cap s) (in_map cap _ _ Hs')) as C1.
  apply In_nth_error in Hs'. destruct Hs' as [i Hi].
  assert (SE : policy c <> policyLFU \/ serr s = 0).
  { destruct ER as [ER|ER]; [left; exact ER|right].
    unfold errs in ER. apply nth_error_In in Hi. revert ER Hi. generalize (shards c). intros l.
    assert (K : forall l a, fold_left (fun a s => if a =? 0 then serr s else a) l a = 0 -> a = 0 /\ forall s, In s l -> serr s = 0).
    { induction l0 as [|x l0 IH]; intros a H; cbn [fold_left] in H; [split; [exact H|intros s0 []]|].
      destruct (IH _ H) as [A B]. destruct (a =? 0) eqn:Ea; [|lia].
      split; [lia|]. intros s0 [<-|H0]; [exact A|apply B; exact H0]. }
    intros ER Hi. apply (proj2 (K l 0 ER)). exact Hi. }
  destruct (c03_within_budget c i s I Hi SE) as [B _]. apply B. lia.
Qed.
End C03.

(* ================================================================== *)
(** * 13. C10.17: the stats counters against the ghost logs              *)
(* ================================================================== *)
Definition gtag (r : Z) (x : Z * Z * Z) : bool := fst (fst x) =? 10 + r.
Definition gcnt (r : Z) (s : shard) : Z := CP.cnt (gtag r) (glog s).

(* ---- shard level: what each step appends to the ghost log ---- *)
Lemma apply_set_counts pol m e s k v ex c s' cm d :
  e_pol e = pol -> e_mask e = m -> PolicyOK pol m s -> 0 <= c ->
  apply_set e s k v ex c = (s', cm, d) ->
  d = (if e_stats e then gcnt reasonCapacity s' - gcnt reasonCapacity s else 0) /\
  gcnt reasonExpired s' = gcnt reasonExpired s.
Proof.
  intros Hp Hm (A & B & H) Hc HS. unfold apply_set in HS. rewrite Hp in HS. unfold gcnt.
  destruct (is_sieve s pol) eqn:IS.
  - destruct (is_sieve_true_inv _ _ IS) as [-> _]. destruct H as (I & Q & _).
    destruct (SP.adapts_preserves e s I) as (Ia & Qa & _). specialize (Qa Q).
    destruct (SP.apply_sieve_reasons e Hp _ _ _ _ _ _ _ _ Ia Qa Hc HS) as (dl & G & _ & _ & R & D).
    assert (GA : glog (adapts s) = glog s) by exact (CP.fr_glog _ _ (CP.apply_adapts_frame (length (evs s)) s)).
    rewrite GA in G. rewrite G, !CP.cnt_app.
    assert (W0 : forall r, CP.cnt (gtag r) (match lookup (adapts s) (e_pol e) k with
                   | Some prev => [(1, k, val prev); (0, k, v)] | None => [(0, k, v)] end) = 0 \/ r < -8).
    { intros r. destruct (Z_lt_le_dec r (-8)); [right; assumption|left].
      destruct (lookup (adapts s) (e_pol e) k); unfold gtag; cbn [CP.cnt fst]; repeat (match goal with |- context [?a =? ?b] => replace (a =? b) with false by lia end); reflexivity. }
    assert (DL : CP.cnt (gtag reasonCapacity) (map SP.dent dl) = Z.of_nat (length (filter (fun p : item * Z => snd p =? reasonCapacity) dl)) /\
                 CP.cnt (gtag reasonExpired) (map SP.dent dl) = 0).
    { clear G D. induction dl as [|p dl IH]; [split; reflexivity|].
      apply Forall_cons_iff in R. destruct R as [(R1 & _) R2]. destruct (IH R2) as [IH1 IH2].
      cbn [map CP.cnt filter]. unfold SP.dent at 1 3. unfold gtag at 1 3. cbn [fst snd].
      unfold reasonCapacity, reasonRejected, reasonExpired in *. split.
      - destruct R1 as [E|E]; rewrite E.
        + change (10 + 0 =? 10 + 0) with true. change (0 =? 0) with true. cbn [length]. rewrite IH1, Nat2Z.inj_succ. lia.
        + change (10 + 1 =? 10 + 0) with false. change (1 =? 0) with false. rewrite IH1. lia.
      - destruct R1 as [E|E]; rewrite E.
        + change (10 + 0 =? 10 + 2) with false. rewrite IH2. reflexivity.
        + change (10 + 1 =? 10 + 2) with false. rewrite IH2. reflexivity. }
    destruct DL as [DL1 DL2]. split.
    + rewrite D. destruct (e_stats e); [|reflexivity].
      destruct (W0 reasonCapacity) as [W|W]; [rewrite W; lia|unfold reasonCapacity in W; lia].
    + destruct (W0 reasonExpired) as [W|W]; [rewrite W; lia|unfold reasonExpired in W; lia].
  - destruct H as ((CI & _) & _).
    destruct (CP.apply_classic_counters pol e s k v ex c s' cm d Hp CI Hc HS) as (delta & G & D & F & _).
    rewrite G, !CP.cnt_app.
    assert (DL : CP.cnt (gtag reasonCapacity) delta = CP.cnt CP.is_dropped delta /\ CP.cnt (gtag reasonExpired) delta = 0).
    { clear G D. induction delta as [|x delta IH]; [split; reflexivity|].
      apply Forall_cons_iff in F. destruct F as [F1 F2]. destruct (IH F2) as [IH1 IH2].
      cbn [CP.cnt]. rewrite IH1, IH2. destruct x as [[t k0] v0]. unfold gtag, CP.is_dropped in *. cbn [fst] in *.
      unfold reasonCapacity, reasonExpired in *.
      destruct (Z.leb_spec 10 t) as [L|L]; [specialize (F1 eq_refl); subst t; cbn; split; reflexivity|].
      replace (t =? 10 + 0) with false by lia. replace (t =? 10 + 2) with false by lia. split; reflexivity. }
    destruct DL as [DL1 DL2]. split; [rewrite D; destruct (e_stats e); lia|lia].
Qed.

Lemma gcnt_snoc r s s' t k v : glog s' = glog s ++ [(t, k, v)] -> gcnt r s' = gcnt r s + (if t =? 10 + r then 1 else 0).
Proof. intros G. unfold gcnt. rewrite G, CP.cnt_app. cbn [CP.cnt]. unfold gtag. cbn [fst]. lia. Qed.

Lemma drop_counts pol m e s k it r s' ok d :
  e_pol e = pol -> e_mask e = m -> PolicyOK pol m s -> 0 < r -> lookup s pol k = Some it ->
  drop_item e s it r = (s', ok, d) ->
  d = 0 /\ gcnt reasonCapacity s' = gcnt reasonCapacity s /\
  gcnt reasonExpired s' = gcnt reasonExpired s + (if r =? reasonExpired then 1 else 0).
Proof.
  intros Hp Hm P Hr LK HD.
  destruct (lookup_drop_ok pol m e s k it r s' ok d Hp Hm P (Z.lt_le_incl _ _ Hr) LK HD) as (_ & _ & D & _ & _ & _ & _ & _ & _ & _ & _ & G & _).
  split; [rewrite D; unfold reasonCapacity; replace (r =? 0) with false by lia; rewrite andb_false_r; reflexivity|].
  rewrite !(gcnt_snoc _ s s' _ _ _ G). unfold reasonCapacity, reasonExpired.
  replace (10 + r =? 10 + 0) with false by lia. split; [lia|].
  destruct (Z.eqb_spec r 2) as [->|NE]; [reflexivity|]. replace (10 + r =? 10 + 2) with false by lia. reflexivity.
Qed.

Lemma gcnt_adapts r s : gcnt r (adapts s) = gcnt r s.
Proof. unfold gcnt, adapts. rewrite (CP.fr_glog _ _ (CP.apply_adapts_frame (length (evs s)) s)). reflexivity. Qed.

Lemma gcnt_touch r pol s k it : gcnt r (touch pol s k it) = gcnt r s.
Proof.
  unfold gcnt. destruct (touch_fields pol s k it) as (F & _). cbv zeta in F.
  pose proof (CP.fr_glog _ _ F) as G. cbn in G. rewrite G. reflexivity.
Qed.

Lemma get_sh_counts pol m e nw s k : e_pol e = pol -> e_mask e = m -> PolicyOK pol m s ->
  snd (get_sh e nw s k) = 0 /\
  gcnt reasonCapacity (fst (get_sh e nw s k)) = gcnt reasonCapacity s /\
  gcnt reasonExpired (fst (get_sh e nw s k)) =
    gcnt reasonExpired s + (match get_out pol nw s k with GExpired _ => 1 | _ => 0 end).
Proof.
  intros Hp Hm P. unfold get_sh, get_out. rewrite Hp. destruct (lookup s pol k) as [it|] eqn:LK.
  - destruct (expired it nw).
    + destruct (drop_item e s it reasonExpired) as [[s1 ok] d] eqn:DI. cbn [fst snd].
      assert (R : 0 < reasonExpired) by (unfold reasonExpired; lia).
      destruct (drop_counts pol m e s k it _ s1 ok d Hp Hm P R LK DI) as (A & B & C).
      rewrite !gcnt_adapts, Z.eqb_refl in *. auto.
    + cbn [fst snd]. rewrite !gcnt_adapts, !gcnt_touch. repeat split; lia.
  - cbn [fst snd]. repeat split; lia.
Qed.

Lemma cleanup_counts pol m e nw : e_pol e = pol -> e_mask e = m ->
  forall ks s ev ex s' ev' ex', PolicyOK pol m s ->
  fold_left (cleanup_shard e nw) ks (s, ev, ex) = (s', ev', ex') ->
  ev' = ev /\ gcnt reasonCapacity s' = gcnt reasonCapacity s /\
  ex' = ex + (if e_stats e then gcnt reasonExpired s' - gcnt reasonExpired s else 0).
Proof.
  intros Hp Hm. induction ks as [|k ks IH]; intros s ev ex s' ev' ex' P H; cbn [fold_left] in H.
  - injection H as <- <- <-. repeat split; try reflexivity. destruct (e_stats e); lia.
  - destruct (cleanup_shard e nw (s, ev, ex) k) as [[s1 ev1] ex1] eqn:E.
    assert (X : PolicyOK pol m s1 /\ ev1 = ev /\ gcnt reasonCapacity s1 = gcnt reasonCapacity s /\
                ex1 = ex + (if e_stats e then gcnt reasonExpired s1 - gcnt reasonExpired s else 0)).
    { unfold cleanup_shard in E. rewrite Hp in E. destruct (lookup s pol k) as [it|] eqn:LK.
      - destruct (expired it nw).
        + destruct (drop_item e s it reasonExpired) as [[s2 ok] d] eqn:DI. injection E as <- <- <-.
          assert (R : 0 < reasonExpired) by (unfold reasonExpired; lia).
          destruct (drop_counts pol m e s k it _ s2 ok d Hp Hm P R LK DI) as (A & B & C). rewrite Z.eqb_refl in C.
          destruct (lookup_drop_ok pol m e s k it _ s2 ok d Hp Hm P (Z.lt_le_incl _ _ R) LK DI) as (P2 & -> & _).
          split; [exact P2|]. split; [lia|]. split; [exact B|]. cbn [andb]. destruct (e_stats e); lia.
        + injection E as <- <- <-. split; [exact P|]. repeat split; try reflexivity. destruct (e_stats e); lia.
      - injection E as <- <- <-. split; [exact P|]. repeat split; try reflexivity. destruct (e_stats e); lia. }
    destruct X as (P1 & X1 & X2 & X3). destruct (IH _ _ _ _ _ _ P1 H) as (Y1 & Y2 & Y3).
    split; [congruence|]. split; [congruence|]. rewrite Y3, X3. destruct (e_stats e); lia.
Qed.

Lemma gcnt_clear r pol s : r >= 0 -> gcnt r (clear_shard pol s) = gcnt r s.
Proof.
  intros Hr. unfold gcnt, clear_shard. cbn [glog sh_ghost sh_stats sh_set]. rewrite CP.cnt_app.
  match goal with |- _ + CP.cnt _ (map _ ?l) = _ => generalize l end. intros l.
  assert (E : CP.cnt (gtag r) (map (fun it : item => (2, key it, val it)) l) = 0).
  { induction l as [|x l IH]; cbn [map CP.cnt]; [reflexivity|]. unfold gtag at 1. cbn [fst].
    replace (2 =? 10 + r) with false by lia. exact IH. }
  lia.
Qed.

(* ---- cache level ---- *)
Definition gsum (r : Z) (c : cache) : Z := sumZ (map (gcnt r) (shards c)).

Lemma sumZ_set_nth (f : shard -> Z) l i s s1 : nth_error l i = Some s ->
  sumZ (map f (set_nth l i s1)) = sumZ (map f l) - f s + f s1.
Proof.
  revert i; induction l as [|a l IH]; intros [|i]; cbn [nth_error set_nth map sumZ]; try discriminate.
  - intros H; injection H as ->. lia.
  - intros H. rewrite (IH _ H). lia.
Qed.

Lemma gsum_put r c sh s s1 h m ev ex : get_shard c sh = Some s ->
  gsum r (put_shard c sh s1 h m ev ex) = gsum r c - gcnt r s + gcnt r s1.
Proof. intros G. unfold gsum. cbn [put_shard shards]. apply sumZ_set_nth. exact G. Qed.

(* statsOn: evictions / expirations count the capacity / expired drops of the ghost logs; stats off: all four stay 0 *)
Definition StatInv (c : cache) : Prop :=
  if statsOn c then evictions c = gsum reasonCapacity c /\ expirations c = gsum reasonExpired c
  else hits c = 0 /\ misses c = 0 /\ evictions c = 0 /\ expirations c = 0.

Lemma StatInv_put c sh s s1 h m ev ex : get_shard c sh = Some s -> StatInv c ->
  (statsOn c = true -> ev = evictions c + (gcnt reasonCapacity s1 - gcnt reasonCapacity s) /\
                       ex = expirations c + (gcnt reasonExpired s1 - gcnt reasonExpired s)) ->
  (statsOn c = false -> h = hits c /\ m = misses c /\ ev = evictions c /\ ex = expirations c) ->
  StatInv (put_shard c sh s1 h m ev ex).
Proof.
  intros G SI H1 H2. unfold StatInv in *. cbn [put_shard statsOn hits misses evictions expirations].
  fold (put_shard c sh s1 h m ev ex). rewrite !(gsum_put _ c sh s s1 h m ev ex G).
  destruct (statsOn c).
  - destruct (H1 eq_refl). lia.
  - destruct (H2 eq_refl) as (-> & -> & -> & ->). exact SI.
Qed.

Lemma op_cleanup_counts c : closed c = false -> (forall s, In s (shards c) -> PolicyOK (policy c) (mask c) s) ->
  evictions (op_cleanup c) = evictions c /\
  expirations (op_cleanup c) = expirations c + (if statsOn c then gsum reasonExpired (op_cleanup c) - gsum reasonExpired c else 0) /\
  gsum reasonCapacity (op_cleanup c) = gsum reasonCapacity c.
Proof.
  intros CL POK. pose proof (CP.op_cleanup_shards c CL) as SH. unfold gsum. rewrite SH. clear SH.
  unfold op_cleanup. rewrite CL.
  set (step := fun (acc : list shard * Z * Z) (s : shard) =>
    let '(l, ev, ex) := acc in
    let '(s1, ev1, ex1) := fold_left (cleanup_shard (env_of c) (now c)) (tabk s) (s, ev, ex) in
    (l ++ [s1], ev1, ex1)).
  set (f := CP.cleanup_of (env_of c) (now c)).
  assert (K : forall ss l ev ex, (forall s, In s ss -> PolicyOK (policy c) (mask c) s) ->
     snd (fst (fold_left step ss (l, ev, ex))) = ev /\
     snd (fold_left step ss (l, ev, ex)) =
       ex + (if statsOn c then sumZ (map (gcnt reasonExpired) (map f ss)) - sumZ (map (gcnt reasonExpired) ss) else 0) /\
     sumZ (map (gcnt reasonCapacity) (map f ss)) = sumZ (map (gcnt reasonCapacity) ss)).
  { induction ss as [|s ss IH]; intros l ev ex HP; cbn [fold_left map sumZ fst snd].
    - repeat split; try reflexivity. destruct (statsOn c); lia.
    - unfold step at 2 4.
      pose proof (CP.cleanup_fold_indep (env_of c) (now c) (tabk s) s ev ex 0 0) as E.
      destruct (fold_left (cleanup_shard (env_of c) (now c)) (tabk s) (s, ev, ex)) as [[s1 ev1] ex1] eqn:F1.
      cbn [fst] in E.
      assert (FS : f s = s1) by (unfold f, CP.cleanup_of; rewrite <- E; reflexivity).
      destruct (cleanup_counts (policy c) (mask c) (env_of c) (now c) eq_refl eq_refl _ _ _ _ _ _ _ (HP s (or_introl eq_refl)) F1) as (A & B & C).
      destruct (IH (l ++ [s1]) ev1 ex1 (fun x Hx => HP x (or_intror Hx))) as (A2 & B2 & C2).
      rewrite A2, B2, C2, FS, A, B, C. cbn [e_stats env_of]. repeat split; try reflexivity. destruct (statsOn c); lia. }
  specialize (K (shards c) [] (evictions c) (expirations c) POK).
  destruct (fold_left step (shards c) ([], evictions c, expirations c)) as [[l ev] ex]. cbn [fst snd] in K.
  cbn [evictions expirations]. exact K.
Qed.

Section Stats.
Variable shard_of : Z -> Z.
Notation ShardOK := (ShardOK shard_of).
Notation CacheInv := (CacheInv shard_of).
Notation cmd_ok := (cmd_ok shard_of).

Lemma drain_sh_counts pol m i e nw : e_pol e = pol -> e_mask e = m ->
  forall cmds s, ShardOK pol m i s -> Forall (cmd_ok i s) cmds ->
  snd (drain_sh e nw s cmds) = (if e_stats e then gcnt reasonCapacity (fst (drain_sh e nw s cmds)) - gcnt reasonCapacity s else 0) /\
  gcnt reasonExpired (fst (drain_sh e nw s cmds)) = gcnt reasonExpired s.
Proof.
  intros Hp Hm. induction cmds as [|cmd r IH]; intros s OK F.
  - cbn [drain_sh fst snd]. split; [destruct (e_stats e); lia|reflexivity].
  - apply Forall_cons_iff in F. destruct F as [F1 F2]. destruct F1 as (k & v & ttl & cst & -> & Hc & Hcc & Hk).
    cbn [drain_sh]. destruct (apply_set e s k v (stamp ttl nw) cst) as [[s1 cm] d] eqn:E.
    pose proof (apply_set_shardok shard_of pol m i e s k v _ cst s1 cm d Hp Hm OK Hc Hcc Hk E) as OK1.
    pose proof (Stat_apply_set _ _ _ _ _ _ _ _ _ E) as (_ & S2 & _).
    assert (F2' : Forall (cmd_ok i s1) r) by (eapply Forall_impl; [|exact F2]; intros cmd; apply cmd_ok_costcap; exact S2).
    destruct (apply_set_counts pol m e s k v _ cst s1 cm d Hp Hm (proj1 OK) Hc E) as (A & B).
    destruct (IH s1 OK1 F2') as (A2 & B2). destruct (drain_sh e nw s1 r) as [s2 d2]. cbn [fst snd] in *.
    split; [rewrite A, A2; destruct (e_stats e); lia|congruence].
Qed.

Lemma drained_counts c i s : ShardOK (policy c) (mask c) i s ->
  snd (drained c s) = (if statsOn c then gcnt reasonCapacity (fst (drained c s)) - gcnt reasonCapacity s else 0) /\
  gcnt reasonExpired (fst (drained c s)) = gcnt reasonExpired s.
Proof.
  intros OK. unfold drained.
  exact (drain_sh_counts (policy c) (mask c) i (env_of c) (now c) eq_refl eq_refl (pend s) (sh_evs s (evs s) [])
           (ShardOK_pend shard_of _ _ _ _ _ _ OK (Forall_nil _)) (proj1 (proj2 OK))).
Qed.

Lemma StatInv_drain_shard c sh : CacheInv c -> StatInv c ->
  StatInv (drain_shard c sh) /\ hits (drain_shard c sh) = hits c /\ misses (drain_shard c sh) = misses c.
Proof.
  intros I SI. destruct (get_shard c sh) as [s|] eqn:G; [|unfold drain_shard; rewrite G; auto].
  rewrite (drain_shard_eq c sh s G). split; [|split; reflexivity].
  destruct (drained_counts c _ s (CacheInv_get _ _ _ _ I G)) as (A & B).
  apply (StatInv_put c sh s _ _ _ _ _ G SI).
  - intros ST. rewrite ST in A. lia.
  - intros ST. rewrite ST in A. repeat split; lia.
Qed.

Lemma StatInv_drain_all c : CacheInv c -> StatInv c ->
  StatInv (drain_all c) /\ hits (drain_all c) = hits c /\ misses (drain_all c) = misses c.
Proof.
  intros I SI. unfold drain_all. generalize (zseq 0 (length (shards c))). intros l. revert c I SI.
  induction l as [|a l IH]; intros c I SI; cbn [fold_left]; [auto|].
  destruct (StatInv_drain_shard c a I SI) as (S1 & H1 & M1).
  destruct (IH _ (proj1 (drain_shard_inv shard_of c a I)) S1) as (S2 & H2 & M2).
  split; [exact S2|split; congruence].
Qed.

Lemma StatInv_attach c ev : StatInv c -> StatInv (attach_events c ev).
Proof.
  revert c. apply attach_events_ind. intros c sh s kind a G SI.
  apply (StatInv_put c sh s _ _ _ _ _ G SI); intros _; repeat split; unfold gcnt; cbn [sh_evs glog]; lia.
Qed.

Lemma StatInv_map c f cl t : (forall s r, r >= 0 -> gcnt r (f s) = gcnt r s) -> StatInv c ->
  StatInv (with_shards c (map f (shards c)) cl t).
Proof.
  intros H SI. unfold StatInv, gsum in *. cbn [with_shards statsOn hits misses evictions expirations shards].
  rewrite !map_map. rewrite (map_ext (fun x => gcnt reasonCapacity (f x)) (gcnt reasonCapacity)) by (intros s; apply H; unfold reasonCapacity; lia).
  rewrite (map_ext (fun x => gcnt reasonExpired (f x)) (gcnt reasonExpired)) by (intros s; apply H; unfold reasonExpired; lia).
  exact SI.
Qed.

Lemma StatInv_settle c : StatInv c -> StatInv (settle c) /\ hits (settle c) = hits c /\ misses (settle c) = misses c.
Proof.
  intros SI. unfold settle. destruct (quiescent c); [|auto]. unfold take_staged. cbn [fst].
  split; [|split; reflexivity].
  set (c1 := with_shards c (map adapts (shards c)) (closed c) (now c)).
  assert (S1 : StatInv c1) by (apply StatInv_map; [intros s r _; apply gcnt_adapts|exact SI]).
  change (StatInv (with_shards c1 (map unstage (shards c1)) (closed c1) (now c1))).
  apply StatInv_map; [|exact S1]. intros s r _. reflexivity.
Qed.

Definition is_close (op : cop) : bool := match op with CClose => true | _ => false end.
Definition hit1 (cl : bool) (op : cop) (r : cres) : Z :=
  if cl then 0 else match op, r with CGet _ _, RGet true _ | CGetTTL _ _, RGetTTL true _ _ => 1 | _, _ => 0 end.
Definition miss1 (cl : bool) (op : cop) (r : cres) : Z :=
  if cl then 0 else match op, r with CGet _ _, RGet false _ | CGetTTL _ _, RGetTTL false _ _ => 1 | _, _ => 0 end.

Lemma StatInv_op_get c k sh s0 : CacheInv c -> StatInv c -> closed c = false -> get_shard c sh = Some s0 ->
  let c' := fst (fst (fst (op_get c k sh))) in
  let ok := snd (fst (fst (op_get c k sh))) in
  StatInv c' /\ (statsOn c = true -> hits c' = hits c + (if ok then 1 else 0) /\ misses c' = misses c + (if ok then 0 else 1)).
Proof.
  intros I SI CL G. cbv zeta. rewrite (op_get_form c k sh s0 CL G). cbn [fst snd].
  pose proof (CacheInv_get _ _ _ _ I G) as OK.
  assert (PRE : ShardOK (policy c) (mask c) (Z.of_nat (Z.to_nat sh)) (fst (get_pre c k s0)) /\
                snd (get_pre c k s0) = (if statsOn c then gcnt reasonCapacity (fst (get_pre c k s0)) - gcnt reasonCapacity s0 else 0) /\
                gcnt reasonExpired (fst (get_pre c k s0)) = gcnt reasonExpired s0).
  { unfold get_pre. destruct (is_sieve s0 (policy c) && negb (memz (tabk s0) k)).
    - split; [apply drained_ok; exact OK|exact (drained_counts c _ s0 OK)].
    - cbn [fst snd]. split; [exact OK|]. split; [destruct (statsOn c); lia|reflexivity]. }
  destruct PRE as (OK1 & D1 & D2). set (s := fst (get_pre c k s0)) in *.
  destruct (get_sh_counts (policy c) (mask c) (env_of c) (now c) s k eq_refl eq_refl (proj1 OK1)) as (A & B & C).
  split.
  - apply (StatInv_put c sh s0 _ _ _ _ _ G SI).
    + intros ST. rewrite ST in *. rewrite A, B, C. destruct (get_out (policy c) (now c) s k); lia.
    + intros ST. rewrite ST in *. rewrite A. destruct (get_out (policy c) (now c) s k); repeat split; lia.
  - intros ST. rewrite ST. destruct (get_out (policy c) (now c) s k); cbn [put_shard hits misses]; lia.
Qed.

(* one operation *)
Theorem stat_step c op ev : CacheInv c -> StatInv c -> wf_op shard_of (nshards c) op ->
  let c' := fst (cstep_full c op ev) in
  let r := snd (cstep_full c op ev) in
  StatInv c' /\ closed c' = closed c || is_close op /\
  (statsOn c = true -> hits c' = hits c + hit1 (closed c) op r /\ misses c' = misses c + miss1 (closed c) op r).
Proof.
  intros I SI WF. cbv zeta. unfold cstep_full.
  destruct (attach_events_inv shard_of (length ev) ev c (le_n _) I) as (I0 & C0 & _ & L0 & H0 & M0 & _).
  pose proof (StatInv_attach c ev SI) as S0. rewrite <- (cf_nshards _ _ C0) in WF. rewrite <- (cf_stats _ _ C0), <- L0, <- H0, <- M0.
  unfold cstep. set (c0 := attach_events c ev) in *. clearbody c0. clear I SI C0 L0 H0 M0 c.
  assert (FIN : forall c1 d1 d2, StatInv c1 -> closed c1 = closed c0 || is_close op ->
            (statsOn c0 = true -> hits c1 = hits c0 + d1 /\ misses c1 = misses c0 + d2) ->
            StatInv (settle c1) /\ closed (settle c1) = closed c0 || is_close op /\
            (statsOn c0 = true -> hits (settle c1) = hits c0 + d1 /\ misses (settle c1) = misses c0 + d2)).
  { intros c1 d1 d2 S1 CL1 HM. destruct (StatInv_settle c1 S1) as (S2 & H2 & M2).
    split; [exact S2|]. split; [|rewrite H2, M2; exact HM].
    unfold settle. destruct (quiescent c1); [|exact CL1]. unfold take_staged. cbn [fst with_shards closed]. exact CL1. }
  assert (Z0 : forall x : Z, x = x + 0) by (intros; lia).
  destruct op; cbn [wf_op is_close] in *; rewrite ?orb_false_r.
  - (* Set *)
    assert (X : StatInv (fst (op_set c0 k v ttl cst sh)) /\ closed (fst (op_set c0 k v ttl cst sh)) = closed c0 /\
                hits (fst (op_set c0 k v ttl cst sh)) = hits c0 /\ misses (fst (op_set c0 k v ttl cst sh)) = misses c0).
    { destruct (set_check c0 sh cst =? 0) eqn:R; [|rewrite op_set_fail by lia; cbn [fst]; auto].
      assert (R0 : set_check c0 sh cst = 0) by lia.
      destruct (set_check_ok shard_of c0 sh cst I0 R0) as (s & G & Hc & Hcc & CL).
      rewrite (op_set_form c0 k v ttl cst sh s G R0). cbn [fst]. split; [|repeat split; reflexivity].
      pose proof (CacheInv_get _ _ _ _ I0 G) as OK. pose proof (drained_ok shard_of c0 _ s OK) as OKd.
      destruct (drained_counts c0 _ s OK) as (A & B).
      destruct (apply_set (env_of c0) (fst (drained c0 s)) k v (stamp (norm_ttl c0 ttl) (now c0)) cst) as [[s2 cm] d] eqn:E.
      destruct (apply_set_counts (policy c0) (mask c0) (env_of c0) _ k v _ cst s2 cm d eq_refl eq_refl (proj1 OKd) Hc E) as (A2 & B2).
      cbn [fst snd e_stats env_of] in *.
      apply (StatInv_put c0 sh s _ _ _ _ _ G S0); intros ST; rewrite ST in *; repeat split; lia. }
    destruct X as (X1 & X2 & X3 & X4). destruct (op_set c0 k v ttl cst sh) as [c1 r]. cbn [fst] in *.
    unfold hit1, miss1. destruct (closed c0); (cbn [fst snd]; apply FIN; [exact X1|exact X2|intros _; split; lia]).
  - (* Get *)
    destruct (closed c0) eqn:CL.
    { unfold op_get. rewrite CL. unfold hit1, miss1. cbn [fst snd]; apply FIN; [exact S0|exact CL|intros _; split; lia]. }
    destruct (wf_get shard_of c0 k sh I0 WF) as [s0 G].
    pose proof (StatInv_op_get c0 k sh s0 I0 S0 CL G) as (X1 & X2).
    pose proof (op_get_inv shard_of c0 k sh I0) as (_ & _ & _ & X3). rewrite CL in X3.
    destruct (op_get c0 k sh) as [[[c1 ok] v] t]. cbn [fst snd] in *. unfold hit1, miss1.
    cbn [fst snd]; apply FIN; [exact X1|exact X3|]. intros ST. destruct (X2 ST) as [A B]. destruct ok; split; lia.
  - (* GetWithTTL *)
    destruct (closed c0) eqn:CL.
    { unfold op_get. rewrite CL. unfold hit1, miss1. cbn [fst snd]; apply FIN; [exact S0|exact CL|intros _; split; lia]. }
    destruct (wf_get shard_of c0 k sh I0 WF) as [s0 G].
    pose proof (StatInv_op_get c0 k sh s0 I0 S0 CL G) as (X1 & X2).
    pose proof (op_get_inv shard_of c0 k sh I0) as (_ & _ & _ & X3). rewrite CL in X3.
    destruct (op_get c0 k sh) as [[[c1 ok] v] t]. cbn [fst snd] in *. unfold hit1, miss1.
    cbn [fst snd]; apply FIN; [exact X1|exact X3|]. intros ST. destruct (X2 ST) as [A B]. destruct ok; split; lia.
  - (* Exists *)
    assert (X : StatInv (fst (op_exists c0 k sh)) /\ closed (fst (op_exists c0 k sh)) = closed c0 /\
                hits (fst (op_exists c0 k sh)) = hits c0 /\ misses (fst (op_exists c0 k sh)) = misses c0).
    { destruct (closed c0) eqn:CL; [unfold op_exists; rewrite CL; cbn [fst]; auto|].
      destruct (get_shard c0 sh) as [s|] eqn:G; [|unfold op_exists; rewrite CL, G; cbn [fst]; auto].
      rewrite (op_exists_form c0 k sh s CL G). unfold get_out.
      destruct (lookup s (policy c0) k) as [it|] eqn:LK; [|cbn [fst]; auto].
      destruct (expired it (now c0)); [|cbn [fst]; auto].
      destruct (drop_item (env_of c0) s it reasonExpired) as [[s1 ok] d] eqn:DI. cbn [fst snd].
      split; [|repeat split; [exact CL]].
      assert (R : 0 < reasonExpired) by (unfold reasonExpired; lia).
      destruct (drop_counts (policy c0) (mask c0) (env_of c0) s k it _ s1 ok d eq_refl eq_refl (proj1 (CacheInv_get _ _ _ _ I0 G)) R LK DI) as (A & B & C).
      rewrite Z.eqb_refl in C.
      apply (StatInv_put c0 sh s _ _ _ _ _ G S0); intros ST; rewrite ST in *; repeat split; lia. }
    destruct X as (X1 & X2 & X3 & X4). destruct (op_exists c0 k sh) as [c1 r]. cbn [fst] in *.
    unfold hit1, miss1. destruct (closed c0); (cbn [fst snd]; apply FIN; [exact X1|exact X2|intros _; split; lia]).
  - (* Delete *)
    assert (X : StatInv (fst (op_delete c0 k sh)) /\ closed (fst (op_delete c0 k sh)) = closed c0 /\
                hits (fst (op_delete c0 k sh)) = hits c0 /\ misses (fst (op_delete c0 k sh)) = misses c0).
    { destruct (closed c0) eqn:CL; [unfold op_delete; rewrite CL; cbn [fst]; auto|].
      destruct (get_shard c0 sh) as [s0|] eqn:G.
      2:{ unfold op_delete, drain_shard. rewrite CL, G. cbn beta iota zeta. rewrite G. cbn [fst]. auto. }
      rewrite (op_delete_form c0 k sh s0 CL G).
      pose proof (CacheInv_get _ _ _ _ I0 G) as OK. pose proof (drained_ok shard_of c0 _ s0 OK) as OKd.
      destruct (drained_counts c0 _ s0 OK) as (A & B).
      destruct (lookup (fst (drained c0 s0)) (policy c0) k) as [it|] eqn:LK.
      - destruct (drop_item (env_of c0) (fst (drained c0 s0)) it reasonDeleted) as [[s1 ok] d] eqn:DI. cbn [fst snd].
        split; [|repeat split; exact CL].
        assert (R : 0 < reasonDeleted) by (unfold reasonDeleted; lia).
        destruct (drop_counts (policy c0) (mask c0) (env_of c0) _ k it _ s1 ok d eq_refl eq_refl (proj1 OKd) R LK DI) as (A2 & B2 & C2).
        change (reasonDeleted =? reasonExpired) with false in C2. cbn iota in C2.
        apply (StatInv_put c0 sh s0 _ _ _ _ _ G S0); intros ST; rewrite ST in *; repeat split; lia.
      - cbn [fst]. split; [|repeat split; exact CL].
        apply (StatInv_put c0 sh s0 _ _ _ _ _ G S0); intros ST; rewrite ST in *; repeat split; lia. }
    destruct X as (X1 & X2 & X3 & X4). destruct (op_delete c0 k sh) as [c1 r]. cbn [fst] in *.
    unfold hit1, miss1. destruct (closed c0); (cbn [fst snd]; apply FIN; [exact X1|exact X2|intros _; split; lia]).
  - (* Keys *) unfold hit1, miss1. destruct (closed c0) eqn:CL; (cbn [fst snd]; apply FIN; [exact S0|exact CL|intros _; split; lia]).
  - (* Clear *)
    assert (X : StatInv (op_clear c0) /\ closed (op_clear c0) = closed c0 /\ hits (op_clear c0) = hits c0 /\ misses (op_clear c0) = misses c0).
    { unfold op_clear. destruct (closed c0) eqn:CL; [auto|].
      destruct (StatInv_drain_all c0 I0 S0) as (S1 & H1 & M1). destruct (drain_all_inv shard_of c0 I0) as (_ & _ & _ & L1 & _).
      split; [apply StatInv_map; [intros s r Hr; apply gcnt_clear; exact Hr|exact S1]|]. cbn. rewrite L1. auto. }
    destruct X as (X1 & X2 & X3 & X4). unfold hit1, miss1.
    destruct (closed c0); (cbn [fst snd]; apply FIN; [exact X1|exact X2|intros _; split; lia]).
  - (* Cleanup *)
    assert (X : StatInv (op_cleanup c0) /\ closed (op_cleanup c0) = closed c0 /\ hits (op_cleanup c0) = hits c0 /\ misses (op_cleanup c0) = misses c0).
    { destruct (op_cleanup_fields c0) as (_ & _ & _ & F4 & _ & _ & _ & F8 & F9 & F10).
      split; [|auto]. destruct (closed c0) eqn:CL; [unfold op_cleanup; rewrite CL; exact S0|].
      destruct (op_cleanup_counts c0 CL (fun s Hs => CacheInv_In shard_of c0 s I0 Hs)) as (A & B & C).
      unfold StatInv in *. rewrite F4, F9, F10. destruct (statsOn c0); [|rewrite A, B; lia]. lia. }
    destruct X as (X1 & X2 & X3 & X4). unfold hit1, miss1.
    destruct (closed c0); (cbn [fst snd]; apply FIN; [exact X1|exact X2|intros _; split; lia]).
  - (* Advance *) unfold hit1, miss1. destruct (closed c0) eqn:CL; (cbn [fst snd]; apply FIN; [exact S0|reflexivity|intros _; split; cbn; lia]).
  - (* Stats *) unfold hit1, miss1. destruct (closed c0) eqn:CL; (cbn [fst snd]; apply FIN; [exact S0|exact CL|intros _; split; lia]).
  - (* SetAsync *)
    assert (X : StatInv (fst (op_set_async c0 k v ttl cst sh)) /\ closed (fst (op_set_async c0 k v ttl cst sh)) = closed c0 /\
                hits (fst (op_set_async c0 k v ttl cst sh)) = hits c0 /\ misses (fst (op_set_async c0 k v ttl cst sh)) = misses c0).
    { destruct (set_check c0 sh cst =? 0) eqn:R; [|rewrite op_set_async_fail by lia; cbn [fst]; auto].
      assert (R0 : set_check c0 sh cst = 0) by lia.
      destruct (set_check_ok shard_of c0 sh cst I0 R0) as (s & G & Hc & Hcc & CL).
      rewrite (op_set_async_form c0 k v ttl cst sh s G R0). cbn [fst]. split; [|repeat split; reflexivity].
      apply (StatInv_put c0 sh s _ _ _ _ _ G S0); intros _; repeat split; unfold gcnt; cbn [sh_evs glog]; lia. }
    destruct X as (X1 & X2 & X3 & X4). destruct (op_set_async c0 k v ttl cst sh) as [c1 r]. cbn [fst] in *.
    unfold hit1, miss1. destruct (closed c0); (cbn [fst snd]; apply FIN; [exact X1|exact X2|intros _; split; lia]).
  - (* Sync *)
    unfold hit1, miss1. destruct (closed c0) eqn:CL; [cbn [fst snd]; apply FIN; [exact S0|exact CL|intros _; split; lia]|].
    destruct (StatInv_drain_all c0 I0 S0) as (S1 & H1 & M1). destruct (drain_all_inv shard_of c0 I0) as (_ & _ & _ & L1 & _).
    cbn [fst snd]; apply FIN; [exact S1|rewrite L1, CL; reflexivity|intros _; split; lia].
  - (* Close *)
    assert (X : StatInv (op_close c0) /\ closed (op_close c0) = true /\ hits (op_close c0) = hits c0 /\ misses (op_close c0) = misses c0).
    { unfold op_close. destruct (closed c0) eqn:CL; [auto|].
      destruct (StatInv_drain_all c0 I0 S0) as (S1 & H1 & M1).
      split; [apply StatInv_map; [intros s r Hr; apply gcnt_clear; exact Hr|exact S1]|]. cbn. auto. }
    destruct X as (X1 & X2 & X3 & X4). unfold hit1, miss1. rewrite orb_true_r.
    destruct (closed c0); (cbn [fst snd]; apply FIN; [exact X1|exact X2|intros _; split; lia]).
  - unfold hit1, miss1. destruct (closed c0) eqn:CL; (cbn [fst snd]; apply FIN; [exact S0|exact CL|intros _; split; lia]).
  - unfold hit1, miss1. destruct (closed c0) eqn:CL; (cbn [fst snd]; apply FIN; [exact S0|exact CL|intros _; split; lia]).
Qed.
End Stats.

(* ghost counters read off the history: Get / GetWithTTL calls on an open cache that returned a value / did not *)
Fixpoint ghost_hm (cl : bool) (h : list (cop * cres)) : Z * Z :=
  match h with
  | [] => (0, 0)
  | (op, r) :: t => (hit1 cl op r + fst (ghost_hm (cl || is_close op) t), miss1 cl op r + snd (ghost_hm (cl || is_close op) t))
  end.

Section Stats2.
Variable shard_of : Z -> Z.
Notation CacheInv := (CacheInv shard_of).

(** C10.17 *)
Theorem c10_hits_misses ops : forall c, CacheInv c -> StatInv c ->
  Forall (fun p => wf_op shard_of (nshards c) (fst p)) ops ->
  let c' := crun c ops in
  StatInv c' /\ statsOn c' = statsOn c /\
  (statsOn c = true ->
     hits c' = hits c + fst (ghost_hm (closed c) (chist c ops)) /\
     misses c' = misses c + snd (ghost_hm (closed c) (chist c ops)) /\
     evictions c' = gsum reasonCapacity c' /\ expirations c' = gsum reasonExpired c') /\
  (statsOn c = false -> hits c' = 0 /\ misses c' = 0 /\ evictions c' = 0 /\ expirations c' = 0).
Proof.
  induction ops as [|[op ev] r IH]; intros c I SI WF; cbv zeta; cbn [crun chist ghost_hm fst snd].
  - split; [exact SI|]. split; [reflexivity|]. unfold StatInv in SI. split; intros ST; rewrite ST in SI; [|exact SI].
    repeat split; try lia; apply SI.
  - apply Forall_cons_iff in WF. destruct WF as [W1 W2]. cbn [fst] in W1.
    destruct (stat_step shard_of c op ev I SI W1) as (S1 & CL1 & HM1).
    destruct (cstep_full_inv shard_of c op ev I W1) as (I1 & C1).
    rewrite <- (cf_nshards _ _ C1) in W2.
    destruct (IH _ I1 S1 W2) as (S2 & ST2 & HM2 & Z2). cbv zeta in *.
    rewrite (cf_stats _ _ C1) in *. split; [exact S2|]. split; [exact ST2|]. split; [|exact Z2].
    intros ST. destruct (HM1 ST) as [A B]. destruct (HM2 ST) as (A2 & B2 & C2 & D2). rewrite CL1 in *.
    repeat split; try assumption; lia.
Qed.

Lemma StatInv_init l : (forall s, In s (shards (cache_init l)) -> glog s = []) ->
  hits (cache_init l) = 0 -> misses (cache_init l) = 0 -> evictions (cache_init l) = 0 -> expirations (cache_init l) = 0 ->
  StatInv (cache_init l).
Proof.
  intros G H1 H2 H3 H4. unfold StatInv.
  assert (Z0 : forall r, gsum r (cache_init l) = 0).
  { intros r. unfold gsum. induction (shards (cache_init l)) as [|s ss IH]; [reflexivity|]. cbn [map sumZ].
    rewrite IH by (intros x Hx; apply G; right; exact Hx). unfold gcnt. rewrite (G s (or_introl eq_refl)). reflexivity. }
  rewrite !Z0. destruct (statsOn (cache_init l)); auto.
Qed.
End Stats2.

(* ================================================================== *)
(** * 14. Set lifted: update_effective, room_no_drop, at_most_one, unbounded (C01.2, C03.7) *)
(* ================================================================== *)
Definition gdrops (s : shard) : Z := CP.cnt CP.is_dropped (glog s).

Lemma view_of_lookup pol s k it : lookup s pol k = Some it -> view pol s k = Some (val it, exp it, cost it).
Proof. intros H. unfold view. rewrite H. reflexivity. Qed.

Lemma view_ess pol s k it k0 v0 e0 c0 b : lookup s pol k = Some it -> SP.ess it = (k0, v0, e0, c0, b) ->
  view pol s k = Some (v0, e0, c0).
Proof. intros H E. unfold view. rewrite H. unfold SP.ess in E. injection E as _ -> -> -> _. reflexivity. Qed.

Lemma glog_adapts s : glog (adapts s) = glog s.
Proof. exact (CP.fr_glog _ _ (CP.apply_adapts_frame (length (evs s)) s)). Qed.
Lemma nlog_adapts s : nlog (adapts s) = nlog s.
Proof. exact (CP.fr_nlog _ _ (CP.apply_adapts_frame (length (evs s)) s)). Qed.
Lemma staged_adapts s : staged (adapts s) = staged s.
Proof. exact (CP.fr_staged _ _ (CP.apply_adapts_frame (length (evs s)) s)). Qed.

Lemma cnt_dropped_dent dl : CP.cnt CP.is_dropped (map SP.dent dl) = Z.of_nat (length dl) \/ exists p, In p dl /\ snd p < 0.
Proof.
  induction dl as [|p dl IH]; [left; reflexivity|]. cbn [map CP.cnt length].
  destruct (Z_lt_le_dec (snd p) 0) as [N|N]; [right; exists p; split; [left; reflexivity|exact N]|].
  destruct IH as [IH|[q [Hq Nq]]]; [|right; exists q; split; [right; exact Hq|exact Nq]].
  left. rewrite IH. unfold SP.dent, CP.is_dropped. replace (10 <=? 10 + snd p) with true by lia. lia.
Qed.

(** C01.2 at shard level *)
Theorem set_update_effective pol m e s k v ex c s' cm d x0 :
  e_pol e = pol -> e_mask e = m -> PolicyOK pol m s -> 0 <= c -> (costcap s = 0 \/ c <= costcap s) ->
  view pol s k = Some x0 -> apply_set e s k v ex c = (s', cm, d) ->
  cm = true /\ (view pol s' k = None \/ view pol s' k = Some (v, ex, c)) /\
  ((pol <> policyLFU \/ serr s = 0) -> (costcap s = 0 \/ c <= snd x0) -> view pol s' k = Some (v, ex, c)).
Proof.
  intros Hp Hm P Hc Hcc V0 HS.
  destruct (apply_set_ok pol m e s k v ex c s' cm d Hp Hm P Hc Hcc HS) as (_ & VR).
  assert (V1 : view pol s' k = None \/ view pol s' k = Some (v, ex, c)).
  { destruct (view pol s' k) as [x|] eqn:E; [|left; reflexivity]. right.
    destruct (VR _ _ E) as [[_ ->]|[N _]]; [reflexivity|congruence]. }
  destruct P as (A & B & H). unfold apply_set in HS. rewrite Hp in HS. unfold view in V0.
  destruct (lookup s pol k) as [old|] eqn:LK; [|discriminate]. injection V0 as <-. cbn [snd].
  destruct (is_sieve s pol) eqn:IS.
  - destruct (is_sieve_true_inv _ _ IS) as [-> _]. destruct H as (I & Q & _ & _ & O).
    destruct (SP.adapts_preserves e s I) as (Ia & Qa & _). specialize (Qa Q).
    rewrite <- (lookup_adapts policySieve s k) in LK. rewrite <- Hp in LK.
    destruct (SP.update_effective e Hp _ _ _ _ _ old _ _ _ Ia Qa LK Hc HS) as (CM & _ & EFF).
    split; [exact CM|]. split; [exact V1|]. intros _ HC.
    pose proof (CP.apply_adapts_frame (length (evs s)) s) as F. fold (adapts s) in F.
    destruct EFF as [it' [L' E']]; [rewrite (over_frame _ _ F); exact O|rewrite (CP.fr_costcap _ _ F); lia|].
    rewrite Hp in L'. exact (view_ess _ _ _ _ _ _ _ _ _ L' E').
  - destruct H as ((CI & _) & O).
    destruct (CP.update_effective pol e s k v ex c s' cm d old Hp CI Hc LK HS) as (_ & EFF).
    destruct (CP.apply_classic_spec pol e s k v ex c s' cm d Hp CI Hc HS) as (CM & _).
    split; [exact CM|]. split; [exact V1|]. intros E HC.
    destruct (EFF (O E) ltac:(lia)) as [L' _]. rewrite (view_of_lookup _ _ _ _ L'). reflexivity.
Qed.

(** C03.7a at shard level: an insert into a shard that still has room stages nothing and drops nothing *)
Theorem set_room_no_drop pol m e s k v ex c s' cm d :
  e_pol e = pol -> e_mask e = m -> PolicyOK pol m s -> 0 <= c ->
  view pol s k = None -> would_over s c = false -> apply_set e s k v ex c = (s', cm, d) ->
  cm = true /\ d = 0 /\ staged s' = staged s /\ nlog s' = nlog s /\ glog s' = glog s ++ [(0, k, v)] /\
  view pol s' k = Some (v, ex, c) /\ (forall k', k' <> k -> view pol s' k' = view pol s k').
Proof.
  intros Hp Hm P Hc V0 WO HS. destruct P as (A & B & H). unfold apply_set in HS. rewrite Hp in HS.
  assert (LK : lookup s pol k = None) by (unfold view in V0; destruct (lookup s pol k); [discriminate|reflexivity]).
  destruct (is_sieve s pol) eqn:IS.
  - destruct (is_sieve_true_inv _ _ IS) as [-> C1]. destruct H as (I & Q & _).
    destruct (SP.adapts_preserves e s I) as (Ia & Qa & _). specialize (Qa Q).
    pose proof (CP.apply_adapts_frame (length (evs s)) s) as F. fold (adapts s) in F.
    rewrite <- (lookup_adapts policySieve s k) in LK. rewrite <- Hp in LK.
    assert (R1 : size (adapts s) + 1 <= cap (adapts s)).
    { rewrite (CP.fr_size _ _ F), (CP.fr_cap _ _ F). unfold would_over in WO. lia. }
    assert (R2 : costcap (adapts s) <= 0 \/ scost (adapts s) + c <= costcap (adapts s)).
    { rewrite (CP.fr_scost _ _ F), (CP.fr_costcap _ _ F). unfold would_over in WO. lia. }
    destruct (SP.room_no_drop e Hp _ _ _ _ _ _ _ _ Ia Qa LK Hc R1 R2 HS) as (CM & D & G & SG & NL & (it' & L' & E') & OTH).
    rewrite glog_adapts in G. rewrite staged_adapts in SG. rewrite nlog_adapts in NL. rewrite Hp in *.
    split; [exact CM|]. split; [exact D|]. split; [exact SG|]. split; [exact NL|]. split; [exact G|].
    split; [exact (view_ess _ _ _ _ _ _ _ _ _ L' E')|].
    intros k' NK. destruct (view policySieve s k') as [x|] eqn:VX.
    + unfold view in VX. destruct (lookup s policySieve k') as [it|] eqn:L0; [|discriminate]. injection VX as <-.
      rewrite <- (lookup_adapts policySieve s k') in L0. destruct (OTH _ _ L0) as (it2 & L2 & E2).
      unfold view. rewrite L2. unfold SP.ess in E2. injection E2 as _ -> -> -> _. reflexivity.
    + destruct (view policySieve s' k') as [x|] eqn:VX'; [|reflexivity]. exfalso.
      pose proof (SP.apply_sieve_sum e Hp true _ _ _ _ _ _ _ _ Ia Qa Hc (SP.FuelHyp_true _ _) HS) as AS.
      destruct (sieve_set_view e _ _ _ _ _ _ _ _ true Hp Ia Qa AS k' x VX') as [[Y _]|[_ Y]]; [contradiction|].
      rewrite view_adapts in Y. congruence.
  - destruct H as ((CI & _) & O).
    destruct (CP.room_no_drop pol e s k v ex c s' cm d Hp CI Hc LK WO HS) as (SG & NL & G & D & _ & _ & OTH & LN).
    destruct (CP.apply_classic_spec pol e s k v ex c s' cm d Hp CI Hc HS) as (CM & _).
    split; [exact CM|]. split; [exact D|]. split; [exact SG|]. split; [exact NL|]. split; [exact G|].
    split; [rewrite (view_of_lookup _ _ _ _ LN); reflexivity|].
    intros k' NK. unfold view. rewrite (OTH k' NK). reflexivity.
Qed.

(** C03.7b at shard level: an unweighted insert drops at most one entry (the rejected candidate counts) *)
Theorem set_unweighted_at_most_one pol m e s k v ex c s' cm d :
  e_pol e = pol -> e_mask e = m -> PolicyOK pol m s -> 0 <= c -> costcap s = 0 ->
  (pol <> policyLFU \/ serr s = 0) ->
  view pol s k = None -> apply_set e s k v ex c = (s', cm, d) ->
  gdrops s' <= gdrops s + 1.
Proof.
  intros Hp Hm P Hc CC ER V0 HS. destruct P as (A & B & H). unfold apply_set in HS. rewrite Hp in HS.
  assert (LK : lookup s pol k = None) by (unfold view in V0; destruct (lookup s pol k); [discriminate|reflexivity]).
  unfold gdrops. destruct (is_sieve s pol) eqn:IS.
  - destruct (is_sieve_true_inv _ _ IS) as [-> C1]. destruct H as (I & Q & _ & _ & O).
    destruct (SP.adapts_preserves e s I) as (Ia & Qa & _). specialize (Qa Q).
    pose proof (CP.apply_adapts_frame (length (evs s)) s) as F. fold (adapts s) in F.
    rewrite <- (lookup_adapts policySieve s k) in LK. rewrite <- Hp in LK.
    assert (CCa : costcap (adapts s) = 0) by (rewrite (CP.fr_costcap _ _ F); exact CC).
    assert (Oa : over_capacity (adapts s) = false) by (rewrite (over_frame _ _ F); exact O).
    destruct (SP.unweighted_at_most_one e Hp _ _ _ _ _ _ _ _ Ia Qa LK Hc CCa Oa HS) as (dl & G & LN).
    destruct (SP.apply_sieve_reasons e Hp _ _ _ _ _ _ _ _ Ia Qa Hc HS) as (dl2 & G2 & _ & _ & R & _).
    rewrite LK in G2. rewrite G in G2. apply app_inv_head in G2. apply app_inv_head in G2.
    rewrite glog_adapts in G. rewrite G, !CP.cnt_app. cbn [CP.cnt CP.is_dropped]. change (10 <=? 0) with false. cbn beta iota.
    destruct (cnt_dropped_dent dl) as [E|[p [Hp' Np]]]; [rewrite E; lia|]. exfalso.
    assert (M : map SP.dent dl = map SP.dent dl2) by exact G2.
    assert (In (SP.dent p) (map SP.dent dl2)) by (rewrite <- M; apply in_map; exact Hp').
    apply in_map_iff in H. destruct H as [q [Eq Hq]]. rewrite Forall_forall in R.
    assert (Eq1 : fst (fst (SP.dent q)) = fst (fst (SP.dent p))) by (rewrite Eq; reflexivity).
    unfold SP.dent in Eq1. cbn [fst] in Eq1.
    destruct (R q Hq) as ([R1|R1] & _); unfold reasonCapacity, reasonRejected in R1; lia.
  - destruct H as ((CI & _) & O).
    destruct (CP.unweighted_at_most_one pol e s k v ex c s' cm d Hp CI Hc ltac:(lia) (O ER) LK HS) as (l & LN & G & _).
    rewrite G, !CP.cnt_app, CP.cnt_dropped_entries. cbn [CP.cnt CP.is_dropped]. change (10 <=? 0) with false. cbn beta iota. unfold zlen. lia.
Qed.

(** C03.7c at shard level: a shard without limits never drops *)
Theorem set_unbounded_never_drops pol m e s k v ex c s' cm d :
  e_pol e = pol -> e_mask e = m -> PolicyOK pol m s -> 0 <= c -> cap s = 0 -> costcap s = 0 ->
  apply_set e s k v ex c = (s', cm, d) ->
  d = 0 /\ staged s' = staged s /\ nlog s' = nlog s /\ gdrops s' = gdrops s /\
  view pol s' k = Some (v, ex, c) /\ (forall k', k' <> k -> view pol s' k' = view pol s k').
Proof.
  intros Hp Hm P Hc C0 CC HS. destruct P as (A & B & H). unfold apply_set in HS. rewrite Hp in HS.
  assert (IS : is_sieve s pol = false) by (unfold is_sieve; rewrite C0; apply andb_false_r).
  rewrite IS in *. destruct H as ((CI & _) & O).
  destruct (CP.unbounded_never_drops pol e s k v ex c s' cm d Hp CI Hc C0 CC HS) as (D & SG & NL & G & OTH & LN).
  split; [exact D|]. split; [exact SG|]. split; [exact NL|]. split.
  { unfold gdrops. rewrite G, CP.cnt_app. destruct (lookup s pol k); cbn [CP.cnt CP.is_dropped]; try change (10 <=? 1) with false; change (10 <=? 0) with false; cbn beta iota; lia. }
  split; [rewrite (view_of_lookup _ _ _ _ LN); reflexivity|].
  intros k' NK. unfold view. rewrite (OTH k' NK). reflexivity.
Qed.

Section SetLifted.
Variable shard_of : Z -> Z.
Notation ShardOK := (ShardOK shard_of).
Notation CacheInv := (CacheInv shard_of).
Notation cmd_ok := (cmd_ok shard_of).

(* the shard a successful Set leaves behind *)
Lemma op_set_shard c k v ttl cst sh s0 : CacheInv c -> get_shard c sh = Some s0 -> set_check c sh cst = 0 ->
  let sd := fst (drained c s0) in
  let AS := apply_set (env_of c) sd k v (stamp (norm_ttl c ttl) (now c)) cst in
  snd (op_set c k v ttl cst sh) = 0 /\
  get_shard (fst (op_set c k v ttl cst sh)) sh = Some (fst (fst AS)) /\
  evictions (fst (op_set c k v ttl cst sh)) = evictions c + snd (drained c s0) + snd AS /\
  PolicyOK (policy c) (mask c) sd /\ 0 <= cst /\ (costcap sd = 0 \/ cst <= costcap sd) /\
  cap sd = cap s0 /\ costcap sd = costcap s0 /\ Stat sd (fst (fst AS)).
Proof.
  intros I G R. cbv zeta. rewrite (op_set_form c k v ttl cst sh s0 G R). cbn [fst snd].
  destruct (set_check_ok shard_of c sh cst I R) as (s & G' & Hc & Hcc & CL). rewrite G in G'. injection G' as <-.
  destruct (Stat_drained c s0) as (D1 & D2 & D3 & D4).
  split; [reflexivity|]. split; [eapply CP.get_put_same; exact G|]. split; [reflexivity|].
  split; [apply (drained_ok shard_of c _ s0 (CacheInv_get _ _ _ _ I G))|]. split; [exact Hc|]. split; [rewrite D2; exact Hcc|].
  split; [exact D1|]. split; [exact D2|].
  destruct (apply_set (env_of c) (fst (drained c s0)) k v (stamp (norm_ttl c ttl) (now c)) cst) as [[s2 cm] d] eqn:E.
  cbn [fst]. eapply Stat_apply_set; eauto.
Qed.

(** C01.2 *)
Theorem c01_update_effective c k v ttl cst sh s0 x0 :
  CacheInv c -> get_shard c sh = Some s0 -> set_check c sh cst = 0 ->
  view (policy c) (fst (drained c s0)) k = Some x0 ->
  exists s', get_shard (fst (op_set c k v ttl cst sh)) sh = Some s' /\ snd (op_set c k v ttl cst sh) = 0 /\
    (view (policy c) s' k = None \/ view (policy c) s' k = Some (v, stamp (norm_ttl c ttl) (now c), cst)) /\
    ((policy c <> policyLFU \/ serr s' = 0) -> (costcap s0 = 0 \/ cst <= snd x0) ->
     view (policy c) s' k = Some (v, stamp (norm_ttl c ttl) (now c), cst)).
Proof.
  intros I G R V0. destruct (op_set_shard c k v ttl cst sh s0 I G R) as (A & B & _ & P & Hc & Hcc & _ & D2 & ST).
  cbv zeta in *.
  destruct (apply_set (env_of c) (fst (drained c s0)) k v (stamp (norm_ttl c ttl) (now c)) cst) as [[s2 cm] d] eqn:E.
  cbn [fst] in *. exists s2. split; [exact B|]. split; [exact A|].
  destruct (set_update_effective (policy c) (mask c) (env_of c) _ k v _ cst s2 cm d x0 eq_refl eq_refl P Hc Hcc V0 E) as (_ & X1 & X2).
  split; [exact X1|]. intros ER HC. apply X2; [|rewrite D2; exact HC].
  destruct ER as [ER|ER]; [left; exact ER|right; apply ST; exact ER].
Qed.

(** C03.7a *)
Theorem c03_room_no_drop c k v ttl cst sh s0 :
  CacheInv c -> get_shard c sh = Some s0 -> set_check c sh cst = 0 ->
  let sd := fst (drained c s0) in
  view (policy c) sd k = None -> would_over sd cst = false ->
  exists s', get_shard (fst (op_set c k v ttl cst sh)) sh = Some s' /\
    staged s' = staged sd /\ nlog s' = nlog sd /\ glog s' = glog sd ++ [(0, k, v)] /\
    evictions (fst (op_set c k v ttl cst sh)) = evictions (drain_shard c sh) /\
    view (policy c) s' k = Some (v, stamp (norm_ttl c ttl) (now c), cst) /\
    (forall k', k' <> k -> view (policy c) s' k' = view (policy c) sd k').
Proof.
  intros I G R. cbv zeta. intros V0 WO.
  destruct (op_set_shard c k v ttl cst sh s0 I G R) as (A & B & EV & P & Hc & Hcc & _ & D2 & ST). cbv zeta in *.
  destruct (apply_set (env_of c) (fst (drained c s0)) k v (stamp (norm_ttl c ttl) (now c)) cst) as [[s2 cm] d] eqn:E.
  cbn [fst snd] in *. exists s2. split; [exact B|].
  destruct (set_room_no_drop (policy c) (mask c) (env_of c) _ k v _ cst s2 cm d eq_refl eq_refl P Hc V0 WO E) as (_ & D0 & X1 & X2 & X3 & X4 & X5).
  split; [exact X1|]. split; [exact X2|]. split; [exact X3|]. split; [|split; [exact X4|exact X5]].
  rewrite EV, D0, (drain_shard_eq c sh s0 G). cbn. lia.
Qed.

(** C03.7b *)
Theorem c03_unweighted_at_most_one c k v ttl cst sh s0 :
  CacheInv c -> get_shard c sh = Some s0 -> set_check c sh cst = 0 -> costcap s0 = 0 ->
  view (policy c) (fst (drained c s0)) k = None ->
  exists s', get_shard (fst (op_set c k v ttl cst sh)) sh = Some s' /\
    ((policy c <> policyLFU \/ serr s' = 0) -> gdrops s' <= gdrops (fst (drained c s0)) + 1).
Proof.
  intros I G R CC V0.
  destruct (op_set_shard c k v ttl cst sh s0 I G R) as (A & B & EV & P & Hc & Hcc & _ & D2 & ST). cbv zeta in *.
  destruct (apply_set (env_of c) (fst (drained c s0)) k v (stamp (norm_ttl c ttl) (now c)) cst) as [[s2 cm] d] eqn:E.
  cbn [fst snd] in *. exists s2. split; [exact B|]. intros ER.
  refine (set_unweighted_at_most_one (policy c) (mask c) (env_of c) _ k v _ cst s2 cm d eq_refl eq_refl P Hc _ _ V0 E).
  - congruence.
  - destruct ER as [ER|ER]; [left; exact ER|right; apply ST; exact ER].
Qed.

Lemma drain_sh_unbounded pol m i e nw : e_pol e = pol -> e_mask e = m ->
  forall cmds s, ShardOK pol m i s -> Forall (cmd_ok i s) cmds -> cap s = 0 -> costcap s = 0 ->
  gdrops (fst (drain_sh e nw s cmds)) = gdrops s /\ snd (drain_sh e nw s cmds) = 0 /\
  staged (fst (drain_sh e nw s cmds)) = staged s /\ nlog (fst (drain_sh e nw s cmds)) = nlog s.
Proof.
  intros Hp Hm. induction cmds as [|cmd r IH]; intros s OK F C0 CC; [cbn; auto|].
  apply Forall_cons_iff in F. destruct F as [F1 F2]. destruct F1 as (k & v & ttl & cst & -> & Hc & Hcc & Hk).
  cbn [drain_sh]. destruct (apply_set e s k v (stamp ttl nw) cst) as [[s1 cm] d] eqn:E.
  pose proof (apply_set_shardok shard_of pol m i e s k v _ cst s1 cm d Hp Hm OK Hc Hcc Hk E) as OK1.
  pose proof (Stat_apply_set _ _ _ _ _ _ _ _ _ E) as (S1 & S2 & _).
  assert (F2' : Forall (cmd_ok i s1) r) by (eapply Forall_impl; [|exact F2]; intros cmd; apply cmd_ok_costcap; exact S2).
  destruct (set_unbounded_never_drops pol m e s k v _ cst s1 cm d Hp Hm (proj1 OK) Hc C0 CC E) as (D0 & X1 & X2 & X3 & _).
  destruct (IH s1 OK1 F2' ltac:(congruence) ltac:(congruence)) as (Y1 & Y2 & Y3 & Y4).
  destruct (drain_sh e nw s1 r) as [s2 d2]. cbn [fst snd] in *. repeat split; try congruence. lia.
Qed.

(** C03.7c: a shard without limits never drops, queued commands included *)
Theorem c03_unbounded_never_drops c k v ttl cst sh s0 :
  CacheInv c -> get_shard c sh = Some s0 -> set_check c sh cst = 0 -> cap s0 = 0 -> costcap s0 = 0 ->
  exists s', get_shard (fst (op_set c k v ttl cst sh)) sh = Some s' /\
    gdrops s' = gdrops s0 /\ staged s' = staged s0 /\ nlog s' = nlog s0 /\
    evictions (fst (op_set c k v ttl cst sh)) = evictions c /\
    view (policy c) s' k = Some (v, stamp (norm_ttl c ttl) (now c), cst) /\
    (forall k', k' <> k -> view (policy c) s' k' = view (policy c) (fst (drained c s0)) k').
Proof.
  intros I G R C0 CC.
  destruct (op_set_shard c k v ttl cst sh s0 I G R) as (A & B & EV & P & Hc & Hcc & D1 & D2 & ST). cbv zeta in *.
  pose proof (CacheInv_get _ _ _ _ I G) as OK.
  destruct (drain_sh_unbounded (policy c) (mask c) _ (env_of c) (now c) eq_refl eq_refl (pend s0) (sh_evs s0 (evs s0) [])
              (ShardOK_pend shard_of _ _ _ _ _ _ OK (Forall_nil _)) (proj1 (proj2 OK)) C0 CC) as (Y1 & Y2 & Y3 & Y4).
  fold (drained c s0) in Y1, Y2, Y3, Y4.
  destruct (apply_set (env_of c) (fst (drained c s0)) k v (stamp (norm_ttl c ttl) (now c)) cst) as [[s2 cm] d] eqn:E.
  cbn [fst snd] in *. exists s2. split; [exact B|].
  destruct (set_unbounded_never_drops (policy c) (mask c) (env_of c) _ k v _ cst s2 cm d eq_refl eq_refl P Hc
              ltac:(congruence) ltac:(congruence) E) as (D0 & X1 & X2 & X3 & X4 & X5).
  split; [rewrite X3; exact Y1|]. split; [rewrite X1; exact Y3|]. split; [rewrite X2; exact Y4|].
  split; [rewrite EV, Y2, D0; lia|]. split; [exact X4|exact X5].
Qed.
End SetLifted.

(* ================================================================== *)
(** * 15. The closed cache (item 19)                                     *)
(* ================================================================== *)
Theorem closed_after_close c : closed (op_close c) = true.
Proof. unfold op_close. destruct (closed c) eqn:E; [exact E|reflexivity]. Qed.

Theorem closed_cache c k v ttl cst sh : closed c = true ->
  fst (op_set c k v ttl cst sh) = c /\ snd (op_set c k v ttl cst sh) <> 0 /\
  (0 <= cst -> (forall s, get_shard c sh = Some s -> ~ (0 < costcap s < cst)) -> get_shard c sh <> None ->
   snd (op_set c k v ttl cst sh) = 3 /\ snd (op_set_async c k v ttl cst sh) = 3) /\
  fst (op_set_async c k v ttl cst sh) = c /\ snd (op_set_async c k v ttl cst sh) <> 0 /\
  op_get c k sh = (c, false, 0, 0) /\ op_exists c k sh = (c, false) /\ op_delete c k sh = (c, false) /\
  op_keys c = [] /\ op_clear c = c /\ op_cleanup c = c /\ op_close c = c.
Proof.
  intros CL.
  assert (R : set_check c sh cst <> 0).
  { unfold set_check. destruct (cst <? 0); [lia|]. destruct (get_shard c sh) as [s|]; [|lia].
    destruct ((0 <? costcap s) && (costcap s <? cst)); [lia|]. rewrite CL. lia. }
  rewrite (op_set_fail _ _ _ _ _ _ R), (op_set_async_fail _ _ _ _ _ _ R). cbn [fst snd].
  split; [reflexivity|]. split; [exact R|]. split.
  { intros Hc Hcc HG. unfold set_check. replace (cst <? 0) with false by lia.
    destruct (get_shard c sh) as [s|] eqn:G; [|congruence]. specialize (Hcc s eq_refl).
    replace ((0 <? costcap s) && (costcap s <? cst)) with false by lia. rewrite CL. split; reflexivity. }
  split; [reflexivity|]. split; [exact R|].
  unfold op_get, op_exists, op_delete, op_keys, op_clear, op_cleanup, op_close. rewrite CL. repeat split; reflexivity.
Qed.

Corollary op_close_idempotent c : op_close (op_close c) = op_close c.
Proof. apply (closed_cache (op_close c) 0 0 0 0 0 (closed_after_close c)). Qed.

(* ================================================================== *)
(** * 16. C01.5: SetAsync ... Sync = the same Sets applied synchronously *)
(* ================================================================== *)

Lemma set_nth_comm {A} (l : list A) i j x y : i <> j -> set_nth (set_nth l i x) j y = set_nth (set_nth l j y) i x.
Proof.
  revert i j; induction l as [|a l IH]; intros [|i] [|j] N; cbn [set_nth]; try reflexivity; try congruence.
  rewrite IH by congruence. reflexivity.
Qed.

Lemma put_shard_comm c a b s1 s2 h m e1 e2 e1' e2' x : Z.to_nat a <> Z.to_nat b -> e2 = e1' ->
  put_shard (put_shard c a s1 h m e1 x) b s2 h m e2 x = put_shard (put_shard c b s2 h m e2' x) a s1 h m e1' x.
Proof. intros N ->. unfold put_shard. cbn. rewrite set_nth_comm by exact N. reflexivity. Qed.

Lemma get_put_other_sh c a b s1 h m e x : Z.to_nat a <> Z.to_nat b -> get_shard (put_shard c a s1 h m e x) b = get_shard c b.
Proof. intros N. unfold get_shard. apply get_put_other. exact N. Qed.

Lemma get_shard_idx c a b : Z.to_nat a = Z.to_nat b -> get_shard c a = get_shard c b.
Proof. unfold get_shard. intros ->. reflexivity. Qed.
Lemma put_shard_idx c a b s h m e x : Z.to_nat a = Z.to_nat b -> put_shard c a s h m e x = put_shard c b s h m e x.
Proof. unfold put_shard. intros ->. reflexivity. Qed.

Lemma drain_shard_idx c a b : Z.to_nat a = Z.to_nat b -> drain_shard c a = drain_shard c b.
Proof.
  intros E. destruct (get_shard c a) as [s|] eqn:G.
  - rewrite (drain_shard_eq c a s G). rewrite (get_shard_idx c a b E) in G. rewrite (drain_shard_eq c b s G).
    apply put_shard_idx. exact E.
  - unfold drain_shard. rewrite G. rewrite (get_shard_idx c a b E) in G. rewrite G. reflexivity.
Qed.

Lemma drain_sh_app e nw : forall q s k v ttl cst,
  drain_sh e nw s (q ++ [[k; v; ttl; cst]]) =
  (fst (fst (apply_set e (fst (drain_sh e nw s q)) k v (stamp ttl nw) cst)),
   snd (drain_sh e nw s q) + snd (apply_set e (fst (drain_sh e nw s q)) k v (stamp ttl nw) cst)).
Proof.
  induction q as [|cmd q IH]; intros s k v ttl cst.
  - cbn [app drain_sh fst snd]. destruct (apply_set e s k v (stamp ttl nw) cst) as [[s1 cm] d]. cbn. f_equal. lia.
  - destruct cmd as [|k0 [|v0 [|t0 [|c0 [|x y]]]]]; cbn [app drain_sh]; try apply IH.
    destruct (apply_set e s k0 v0 (stamp t0 nw) c0) as [[s1 cm] d]. rewrite IH.
    destruct (drain_sh e nw s1 q) as [s2 d2]. cbn [fst snd]. f_equal. lia.
Qed.

(* enqueue one command on shard sh *)
Definition enq (c : cache) (sh : Z) (cmd : list Z) : cache :=
  match get_shard c sh with
  | Some s => put_shard c sh (sh_evs s (evs s) (pend s ++ [cmd])) (hits c) (misses c) (evictions c) (expirations c)
  | None => c
  end.

Lemma drained_put c sh s1 h m e x s : drained (put_shard c sh s1 h m e x) s = drained c s.
Proof. reflexivity. Qed.

(* draining another shard commutes with enqueueing *)
Lemma drain_enq_other c i sh cmd : Z.to_nat i <> Z.to_nat sh ->
  drain_shard (enq c sh cmd) i = enq (drain_shard c i) sh cmd.
Proof.
  intros N. unfold enq. destruct (get_shard c sh) as [s|] eqn:G.
  - destruct (get_shard c i) as [si|] eqn:Gi.
    + rewrite (drain_shard_eq _ i si) by (rewrite get_put_other_sh by congruence; exact Gi).
      rewrite (drain_shard_eq c i si Gi). rewrite get_put_other_sh by exact N. rewrite G.
      cbn [put_shard hits misses evictions expirations]. fold (put_shard c sh (sh_evs s (evs s) (pend s ++ [cmd])) (hits c) (misses c) (evictions c) (expirations c)).
      rewrite drained_put.
      apply put_shard_comm; [congruence|reflexivity].
    + unfold drain_shard. rewrite get_put_other_sh by congruence. rewrite Gi, G. reflexivity.
  - destruct (get_shard c i) as [si|] eqn:Gi.
    + rewrite (drain_shard_eq c i si Gi). rewrite get_put_other_sh by exact N. rewrite G. reflexivity.
    + unfold drain_shard. rewrite Gi, G. reflexivity.
Qed.

(* draining the shard itself applies the enqueued command last *)
Lemma drain_enq_same c sh s k v ttl cst : get_shard c sh = Some s ->
  drain_shard (enq c sh [k; v; ttl; cst]) sh = apply_cmd (drain_shard c sh) sh k v ttl cst.
Proof.
  intros G. unfold enq. rewrite G.
  set (s' := sh_evs s (evs s) (pend s ++ [[k; v; ttl; cst]])).
  rewrite (drain_shard_eq _ sh s') by (eapply CP.get_put_same; exact G).
  rewrite (drain_shard_eq c sh s G), put_put.
  rewrite (apply_cmd_eq _ sh k v ttl cst (fst (drained c s))) by (eapply CP.get_put_same; exact G).
  rewrite put_put. rewrite drained_put.
  unfold drained at 1 2. change (sh_evs s' (evs s') []) with (sh_evs s (evs s) []). change (pend s') with (pend s ++ [[k; v; ttl; cst]]).
  rewrite drain_sh_app. cbn [fst snd]. fold (drained c s).
  change (env_of (put_shard c sh (fst (drained c s)) (hits c) (misses c) (evictions c + snd (drained c s)) (expirations c))) with (env_of c).
  cbn [put_shard now hits misses evictions expirations].
  unfold put_shard. f_equal. lia.
Qed.

(* applying a command commutes with draining another shard *)
Lemma drain_apply_other c i sh k v ttl cst : Z.to_nat i <> Z.to_nat sh ->
  drain_shard (apply_cmd c sh k v ttl cst) i = apply_cmd (drain_shard c i) sh k v ttl cst.
Proof.
  intros N. destruct (get_shard c sh) as [s|] eqn:G.
  - rewrite (apply_cmd_eq c sh k v ttl cst s G).
    destruct (get_shard c i) as [si|] eqn:Gi.
    + rewrite (drain_shard_eq _ i si) by (rewrite get_put_other_sh by congruence; exact Gi).
      rewrite (drain_shard_eq c i si Gi).
      rewrite (apply_cmd_eq _ sh k v ttl cst s) by (rewrite get_put_other_sh by exact N; exact G).
      rewrite drained_put.
      cbn [put_shard hits misses evictions expirations now]. unfold env_of. cbn [policy statsOn mask].
      unfold put_shard. cbn [shards policy nshards defttl statsOn mask trackCost now closed hits misses evictions expirations].
      rewrite set_nth_comm by congruence. f_equal. lia.
    + unfold drain_shard at 1. rewrite get_put_other_sh by congruence. rewrite Gi.
      unfold drain_shard. rewrite Gi. rewrite (apply_cmd_eq c sh k v ttl cst s G). reflexivity.
  - unfold apply_cmd at 1. rewrite G.
    destruct (get_shard c i) as [si|] eqn:Gi.
    + rewrite (drain_shard_eq c i si Gi). unfold apply_cmd. rewrite get_put_other_sh by exact N. rewrite G. reflexivity.
    + unfold drain_shard. rewrite Gi. unfold apply_cmd. rewrite G. reflexivity.
Qed.

Lemma fold_drain_enq l : forall c sh cmd, (forall i, In i l -> Z.to_nat i <> Z.to_nat sh) ->
  fold_left drain_shard l (enq c sh cmd) = enq (fold_left drain_shard l c) sh cmd.
Proof.
  induction l as [|i l IH]; intros c sh cmd H; cbn [fold_left]; [reflexivity|].
  rewrite drain_enq_other by (apply H; left; reflexivity). apply IH. intros j Hj. apply H. right. exact Hj.
Qed.

Lemma fold_drain_apply l : forall c sh k v ttl cst, (forall i, In i l -> Z.to_nat i <> Z.to_nat sh) ->
  fold_left drain_shard l (apply_cmd c sh k v ttl cst) = apply_cmd (fold_left drain_shard l c) sh k v ttl cst.
Proof.
  induction l as [|i l IH]; intros c sh k v ttl cst H; cbn [fold_left]; [reflexivity|].
  rewrite drain_apply_other by (apply H; left; reflexivity). apply IH. intros j Hj. apply H. right. exact Hj.
Qed.

Lemma fold_drain_get_other l : forall c sh, (forall i, In i l -> Z.to_nat i <> Z.to_nat sh) ->
  get_shard (fold_left drain_shard l c) sh = get_shard c sh.
Proof.
  induction l as [|i l IH]; intros c sh H; cbn [fold_left]; [reflexivity|].
  rewrite IH by (intros j Hj; apply H; right; exact Hj).
  assert (N : Z.to_nat i <> Z.to_nat sh) by (apply H; left; reflexivity).
  destruct (get_shard c i) as [si|] eqn:Gi.
  - rewrite (drain_shard_eq c i si Gi). apply get_put_other_sh. exact N.
  - unfold drain_shard. rewrite Gi. reflexivity.
Qed.

Lemma zseq_split : forall n z j, (j < n)%nat ->
  zseq z n = zseq z j ++ (z + Z.of_nat j) :: zseq (z + Z.of_nat j + 1) (n - S j).
Proof.
  induction n as [|n IH]; intros z j J; [lia|]. destruct j as [|j].
  - replace (S n - 1)%nat with n by lia. cbn [zseq app Z.of_nat]. f_equal; [lia|f_equal; lia].
  - replace (S n - S (S j))%nat with (n - S j)%nat by lia. cbn [zseq app]. f_equal.
    rewrite (IH (z + 1) j ltac:(lia)). f_equal. f_equal; [lia|]. f_equal; lia.
Qed.

(* the key step: Sync after one more SetAsync = Sync, then the Set *)
Lemma drain_all_enq c sh s k v ttl cst : get_shard c sh = Some s ->
  drain_all (enq c sh [k; v; ttl; cst]) = apply_cmd (drain_all c) sh k v ttl cst.
Proof.
  intros G. unfold drain_all.
  assert (LEN : length (shards (enq c sh [k; v; ttl; cst])) = length (shards c)).
  { unfold enq. rewrite G. cbn [put_shard shards]. apply length_set_nth. }
  rewrite LEN. set (n := length (shards c)).
  assert (J : (Z.to_nat sh < n)%nat) by (unfold n; apply nth_error_Some; unfold get_shard in G; congruence).
  assert (SPLIT : zseq 0 n = zseq 0 (Z.to_nat sh) ++ Z.of_nat (Z.to_nat sh) :: zseq (Z.of_nat (Z.to_nat sh) + 1) (n - S (Z.to_nat sh))).
  { rewrite (zseq_split n 0 (Z.to_nat sh) J). reflexivity. }
  rewrite SPLIT, !fold_left_app. cbn [fold_left].
  rewrite fold_drain_enq by (intros i Hi; apply zseq_In in Hi; lia).
  set (c1 := fold_left drain_shard (zseq 0 (Z.to_nat sh)) c).
  assert (G1 : get_shard c1 sh = Some s).
  { unfold c1. rewrite fold_drain_get_other by (intros i Hi; apply zseq_In in Hi; lia). exact G. }
  rewrite (drain_shard_idx _ (Z.of_nat (Z.to_nat sh)) sh) by lia.
  rewrite (drain_enq_same c1 sh s k v ttl cst G1).
  rewrite (drain_shard_idx c1 (Z.of_nat (Z.to_nat sh)) sh) by lia.
  apply fold_drain_apply. intros i Hi. apply zseq_In in Hi. lia.
Qed.

Definition req := (Z * Z * Z * Z * Z)%type.   (* key, value, ttl, cost, shard *)
Definition async_all (c : cache) (reqs : list req) : cache :=
  fold_left (fun c r => let '(k, v, ttl, cst, sh) := r in fst (op_set_async c k v ttl cst sh)) reqs c.
Definition sync_all (c : cache) (reqs : list req) : cache :=
  fold_left (fun c r => let '(k, v, ttl, cst, sh) := r in fst (op_set c k v ttl cst sh)) reqs c.

Section AsyncSync.
Variable shard_of : Z -> Z.
Notation CacheInv := (CacheInv shard_of).

Lemma drain_all_async1 c k v ttl cst sh : CacheInv c ->
  (set_check c sh cst = 0 -> shard_of k = Z.of_nat (Z.to_nat sh)) ->
  drain_all (fst (op_set_async c k v ttl cst sh)) = fst (op_set (drain_all c) k v ttl cst sh).
Proof.
  intros I WF. destruct (drain_all_inv shard_of c I) as (I1 & C1 & N1 & L1 & Q1).
  pose proof (set_check_static c (drain_all c) sh cst C1 L1) as SC.
  destruct (set_check c sh cst =? 0) eqn:R.
  - assert (R0 : set_check c sh cst = 0) by lia.
    destruct (set_check_ok shard_of c sh cst I R0) as (s & G & _).
    rewrite (op_set_async_form c k v ttl cst sh s G R0). cbn [fst].
    change (put_shard c sh (sh_evs s (evs s) (pend s ++ [[k; v; norm_ttl c ttl; cst]])) (hits c) (misses c) (evictions c) (expirations c))
      with (match Some s with Some s => put_shard c sh (sh_evs s (evs s) (pend s ++ [[k; v; norm_ttl c ttl; cst]])) (hits c) (misses c) (evictions c) (expirations c) | None => c end).
    rewrite <- G. fold (enq c sh [k; v; norm_ttl c ttl; cst]).
    rewrite (drain_all_enq c sh s k v _ cst G).
    unfold op_set. rewrite SC, R0. cbn [Z.eqb negb fst].
    destruct (get_shard (drain_all c) sh) as [sd|] eqn:Gd.
    + rewrite (CP.drain_shard_quiescent (drain_all c) sh sd Gd) by (apply Q1; unfold get_shard in Gd; eapply nth_error_In; eauto).
      unfold norm_ttl. rewrite (cf_defttl _ _ C1). reflexivity.
    + unfold drain_shard. rewrite Gd. unfold norm_ttl. rewrite (cf_defttl _ _ C1). reflexivity.
  - rewrite op_set_async_fail by lia. rewrite op_set_fail by lia. reflexivity.
Qed.

Definition wf_req (n : Z) (r : req) : Prop := let '(k, v, ttl, cst, sh) := r in sh = shard_of k /\ 0 <= sh < n.

(** C01.5 *)
Theorem c01_async_then_sync reqs : forall c, CacheInv c -> Forall (wf_req (nshards c)) reqs ->
  drain_all (async_all c reqs) = sync_all (drain_all c) reqs.
Proof.
  induction reqs as [|[[[[k v] ttl] cst] sh] r IH]; intros c I WF; [reflexivity|].
  apply Forall_cons_iff in WF. destruct WF as [W1 W2]. cbn [wf_req] in W1.
  assert (WI : set_check c sh cst = 0 -> shard_of k = Z.of_nat (Z.to_nat sh)) by (intros _; destruct W1 as [-> ?]; lia).
  unfold async_all, sync_all. cbn [fold_left]. fold (async_all (fst (op_set_async c k v ttl cst sh)) r).
  fold (sync_all (fst (op_set (drain_all c) k v ttl cst sh)) r).
  destruct (op_set_async_inv shard_of c k v ttl cst sh I WI) as (I1 & C1 & _).
  rewrite IH; [|exact I1|rewrite (cf_nshards _ _ C1); exact W2].
  rewrite drain_all_async1 by assumption. reflexivity.
Qed.

Corollary c01_async_then_sync_quiescent reqs c : CacheInv c -> Forall (wf_req (nshards c)) reqs ->
  (forall s, In s (shards c) -> pend s = []) ->
  drain_all (async_all c reqs) = sync_all c reqs.
Proof. intros I WF Q. rewrite (c01_async_then_sync reqs c I WF), (CP.drain_all_quiescent c Q). reflexivity. Qed.
End AsyncSync.

(* Sets on different shards commute *)
Theorem apply_cmd_commute c sh1 k1 v1 t1 c1 sh2 k2 v2 t2 c2 : Z.to_nat sh1 <> Z.to_nat sh2 ->
  apply_cmd (apply_cmd c sh1 k1 v1 t1 c1) sh2 k2 v2 t2 c2 = apply_cmd (apply_cmd c sh2 k2 v2 t2 c2) sh1 k1 v1 t1 c1.
Proof.
  intros N. destruct (get_shard c sh1) as [s1|] eqn:G1; destruct (get_shard c sh2) as [s2|] eqn:G2.
  - rewrite (apply_cmd_eq c sh1 _ _ _ _ s1 G1), (apply_cmd_eq c sh2 _ _ _ _ s2 G2).
    rewrite (apply_cmd_eq _ sh2 _ _ _ _ s2) by (rewrite get_put_other_sh by exact N; exact G2).
    rewrite (apply_cmd_eq _ sh1 _ _ _ _ s1) by (rewrite get_put_other_sh by congruence; exact G1).
    unfold env_of. cbn [put_shard policy statsOn mask now hits misses evictions expirations]. fold (env_of c).
    unfold put_shard. cbn [shards policy nshards defttl statsOn mask trackCost now closed hits misses evictions expirations].
    rewrite set_nth_comm by exact N. f_equal. lia.
  - rewrite (apply_cmd_eq c sh1 _ _ _ _ s1 G1). unfold apply_cmd at 1 3. rewrite get_put_other_sh by exact N. rewrite G2.
    rewrite (apply_cmd_eq c sh1 _ _ _ _ s1 G1). reflexivity.
  - unfold apply_cmd at 2. rewrite G1. rewrite (apply_cmd_eq c sh2 _ _ _ _ s2 G2).
    unfold apply_cmd. rewrite get_put_other_sh by congruence. rewrite G1. reflexivity.
  - unfold apply_cmd. rewrite G1, G2, G1. reflexivity.
Qed.

(* ================================================================== *)
(** * 17. Non-vacuity: two concrete caches run through the typed machine (item 20), and the refuted statements *)
(* ================================================================== *)

(* ---- a 2-shard LRU cache: MaxSize 4 (2 per shard), stats on, all removal reasons notified, clock starts at 100 ---- *)
Definition ex_shard_of (k : Z) : Z := k mod 2.
Definition ex_lru_cfg : list Z := [4;0;2;0;0;1;1;0;0;0;0;0;1; 15;0;100].
Definition ex_lru_ops : list (cop * list Z) :=
  [(CSet 2 20 0 1 0, []); (CSet 4 40 50 1 0, []); (CSet 6 60 0 1 0, []);     (* the third Set evicts key 2 *)
   (CGet 2 0, []); (CGetTTL 4 0, []);
   (CAdvance 100, []); (CGet 4 0, []);                                         (* key 4 expired at 150: dropped by Get *)
   (CSet 1 10 10 1 1, []); (CAdvance 100, []); (CCleanup, []);                 (* key 1 expired at 210: swept by Cleanup *)
   (CSetAsync 3 30 0 1 1, []); (CSetAsync 5 50 0 1 1, []); (CSetAsync 3 31 0 1 1, []); (CSync, []);
   (CGet 3 1, []); (CExists 5 1, []); (CDelete 5 1, []); (CKeys, []); (CStats, []);
   (CClear, []); (CKeys, []); (CClose, []); (CSet 2 1 0 1 0, []); (CGet 6 0, [])].
Definition ex_lru_init : cache := cache_init ex_lru_cfg.
Definition ex_lru_fin : cache := crun ex_lru_init ex_lru_ops.

Example ex_lru_results :
  map snd (chist ex_lru_init ex_lru_ops) =
  [RCode 0; RCode 0; RCode 0; RGet false 0; RGetTTL true 40 50; RNow 200; RGet false 0; RCode 0; RNow 300; RUnit;
   RCode 0; RCode 0; RCode 0; RCode 0; RGet true 31; RBool true; RBool true; RKeys [3; 6]; RNums [2; 2; 2; 2; 1; 2];
   RUnit; RKeys []; RUnit; RCode 3; RGet false 0].
Proof. vm_compute. reflexivity. Qed.

Example ex_lru_state :
  (hits ex_lru_fin, misses ex_lru_fin, evictions ex_lru_fin, expirations ex_lru_fin, errs ex_lru_fin, closed ex_lru_fin,
   total_size ex_lru_fin, map glog (shards ex_lru_fin)) =
  (2, 2, 1, 2, 0, true, 0,
   [[(0, 2, 20); (0, 4, 40); (10, 2, 20); (0, 6, 60); (12, 4, 40); (2, 6, 60)];
    [(0, 1, 10); (12, 1, 10); (0, 3, 30); (0, 5, 50); (1, 3, 30); (0, 3, 31); (13, 5, 50); (2, 3, 31)]]) /\
  ghost_hm false (chist ex_lru_init ex_lru_ops) = (2, 2) /\
  gsum reasonCapacity ex_lru_fin = 1 /\ gsum reasonExpired ex_lru_fin = 2 /\
  map nkey (flat_map nlog (shards ex_lru_fin)) = [2; 4; 1; 5] /\ map nreason (flat_map nlog (shards ex_lru_fin)) = [0; 2; 2; 3].
Proof. vm_compute. repeat split; reflexivity. Qed.

Lemma ex_lru_init_ok :
  CacheInv ex_shard_of ex_lru_init /\ StatInv ex_lru_init /\ Agree ex_shard_of (latest []) ex_lru_init /\
  nshards ex_lru_init = 2 /\ closed ex_lru_init = false.
Proof.
  destruct (cache_init_inv ex_shard_of ex_lru_cfg
             {| MaxSize := 4; MaxCost := 0; ShardCount := 2; CleanupInterval := 0; DefaultTTL := 0; Policy := 1;
                StatsEnabled := 1; ProbationRatio := 0; GhostRatio := 0; CostAdmission := 0; WriteBufferSize := 0; WriteBatchSize := 0 |}
             1 15 0 100 eq_refl eq_refl) as (I & CL & N & _ & _ & _ & E & H1 & H2 & H3 & H4);
    [vm_compute; reflexivity|lia|vm_compute; discriminate|].
  split; [exact I|]. split; [apply StatInv_init; try assumption; intros s Hs; apply (E s Hs)|].
  split; [apply Agree_init; [exact I|intros s Hs; split; apply (E s Hs)]|]. split; [exact N|exact CL].
Qed.

Lemma ex_lru_wf : Forall (fun p => wf_op ex_shard_of 2 (fst p)) ex_lru_ops.
Proof. repeat constructor; vm_compute; intuition congruence. Qed.

(* the theorems apply to this run: invariant, budget, counters, and the latest-reference justification of every result *)
Example ex_lru_theorems :
  CacheInv ex_shard_of (crun ex_lru_init ex_lru_ops) /\ StatInv (crun ex_lru_init ex_lru_ops) /\
  run_ok ex_lru_init (latest []) ex_lru_ops.
Proof.
  destruct ex_lru_init_ok as (I & S & A & N & CL).
  pose proof ex_lru_wf as WF. rewrite <- N in WF.
  split; [exact (proj1 (crun_inv ex_shard_of ex_lru_ops ex_lru_init I WF))|].
  split; [exact (proj1 (c10_hits_misses ex_shard_of ex_lru_ops ex_lru_init I S WF))|].
  exact (c01_lookup_latest_or_miss ex_shard_of ex_lru_ops ex_lru_init (latest []) I A WF).
Qed.

(* ---- a 1-shard SieveTinyLFU cache of capacity 3 (probation 1, main 2); oracle events: B1 ghost miss for every insert ---- *)
Definition ex_sv_cfg : list Z := [3;0;1;0;0;4;1;0;0;0;0;0;1; 15;0;100].
Definition ex_gh : list Z := [1;0;0].
Definition ex_sv_ops : list (cop * list Z) :=
  [(CSet 1 10 0 1 0, ex_gh); (CSet 2 20 0 1 0, ex_gh); (CSet 3 30 0 1 0, ex_gh); (CGet 1 0, []);
   (CSet 4 40 50 1 0, ex_gh);                                                   (* probation overflows: key 2 is evicted *)
   (CAdvance 100, []); (CGetTTL 4 0, []);                                        (* key 4 expired at 150: dropped by Get *)
   (CSet 5 50 10 1 0, ex_gh); (CAdvance 100, []); (CCleanup, []);                (* key 5 expired at 210: swept by Cleanup *)
   (CSetAsync 6 60 0 1 0, []); (CSetAsync 6 61 0 1 0, []); (CSync, ex_gh);
   (CGet 6 0, []); (CStats, []); (CClear, []); (CKeys, []); (CClose, []); (CSetAsync 2 1 0 1 0, [])].
Definition ex_sv_init : cache := cache_init ex_sv_cfg.
Definition ex_sv_fin : cache := crun ex_sv_init ex_sv_ops.

Example ex_sv_results :
  map snd (chist ex_sv_init ex_sv_ops) =
  [RCode 0; RCode 0; RCode 0; RGet true 10; RCode 0; RNow 200; RGetTTL false 0 0; RCode 0; RNow 300; RUnit;
   RCode 0; RCode 0; RCode 0; RGet true 61; RNums [3; 3; 2; 1; 1; 2]; RUnit; RKeys []; RUnit; RCode 3].
Proof. vm_compute. reflexivity. Qed.

Example ex_sv_state :
  (hits ex_sv_fin, misses ex_sv_fin, evictions ex_sv_fin, expirations ex_sv_fin, errs ex_sv_fin, leftover ex_sv_fin,
   closed ex_sv_fin, total_size ex_sv_fin, map glog (shards ex_sv_fin)) =
  (2, 1, 1, 2, 0, 0, true, 0,
   [[(0, 1, 10); (0, 2, 20); (0, 3, 30); (0, 4, 40); (10, 2, 20); (12, 4, 40); (0, 5, 50); (12, 5, 50);
     (0, 6, 60); (1, 6, 60); (0, 6, 61); (2, 3, 30); (2, 6, 61); (2, 1, 10)]]) /\
  ghost_hm false (chist ex_sv_init ex_sv_ops) = (2, 1) /\
  gsum reasonCapacity ex_sv_fin = 1 /\ gsum reasonExpired ex_sv_fin = 2.
Proof. vm_compute. repeat split; reflexivity. Qed.

Lemma ex_sv_init_ok :
  CacheInv (fun _ => 0) ex_sv_init /\ StatInv ex_sv_init /\ Agree (fun _ => 0) (latest []) ex_sv_init /\
  nshards ex_sv_init = 1 /\ policy ex_sv_init = policySieve.
Proof.
  destruct (cache_init_inv (fun _ => 0) ex_sv_cfg
             {| MaxSize := 3; MaxCost := 0; ShardCount := 1; CleanupInterval := 0; DefaultTTL := 0; Policy := 4;
                StatsEnabled := 1; ProbationRatio := 0; GhostRatio := 0; CostAdmission := 0; WriteBufferSize := 0; WriteBatchSize := 0 |}
             1 15 0 100 eq_refl eq_refl) as (I & CL & N & P & _ & _ & E & H1 & H2 & H3 & H4);
    [vm_compute; reflexivity|lia|vm_compute; discriminate|].
  split; [exact I|]. split; [apply StatInv_init; try assumption; intros s Hs; apply (E s Hs)|].
  split; [apply Agree_init; [exact I|intros s Hs; split; apply (E s Hs)]|]. split; [exact N|exact P].
Qed.

Lemma ex_sv_wf : Forall (fun p => wf_op (fun _ => 0) 1 (fst p)) ex_sv_ops.
Proof. repeat constructor; vm_compute; intuition congruence. Qed.

Example ex_sv_theorems :
  CacheInv (fun _ => 0) (crun ex_sv_init ex_sv_ops) /\ StatInv (crun ex_sv_init ex_sv_ops) /\
  run_ok ex_sv_init (latest []) ex_sv_ops.
Proof.
  destruct ex_sv_init_ok as (I & S & A & N & _).
  pose proof ex_sv_wf as WF. rewrite <- N in WF.
  split; [exact (proj1 (crun_inv (fun _ => 0) ex_sv_ops ex_sv_init I WF))|].
  split; [exact (proj1 (c10_hits_misses (fun _ => 0) ex_sv_ops ex_sv_init I S WF))|].
  exact (c01_lookup_latest_or_miss (fun _ => 0) ex_sv_ops ex_sv_init (latest []) I A WF).
Qed.

(* ---- refuted: "every Get hit returns latest k", literally ----
   Set(k=1, v=10); SetAsync(k=1, v=20) -> accepted (code 0), so latest 1 = 20; Get(1) before Sync hits and returns 10.
   The queued write is invisible until the shard is drained (Sync, or any later Set/Delete on that shard, or a
   SieveTinyLFU miss); [get_hit_latest] is the true variant: the hit returns [latest k] whenever no command for k is
   queued on its shard (always at quiescent points), and [latest k] is always defined. *)
Definition ex_stale_cfg : list Z := [4;0;1;0;0;1;1;0;0;0;0;0;1; 15;0;100].
Definition ex_stale_ops : list (cop * list Z) := [(CSet 1 10 0 1 0, []); (CSetAsync 1 20 0 1 0, []); (CGet 1 0, [])].
Example c01_get_returns_latest_refuted :
  map snd (chist (cache_init ex_stale_cfg) ex_stale_ops) = [RCode 0; RCode 0; RGet true 10] /\
  latest (chist (cache_init ex_stale_cfg) (firstn 2 ex_stale_ops)) 1 = Some 20.
Proof. vm_compute. split; reflexivity. Qed.

(* ---- refuted: "on a closed cache Set returns code 3": validation comes first, a negative cost still yields 1
   (and an oversized cost 2); [closed_cache] states the true variant. ---- *)
Example closed_set_code_3_refuted :
  let c := op_close (cache_init ex_stale_cfg) in
  closed c = true /\ snd (op_set c 1 10 0 (-1) 0) = 1 /\ snd (op_set c 1 10 0 1 0) = 3.
Proof. vm_compute. repeat split; reflexivity. Qed.

(* errs c = 0 (what the correspondence check verifies on real traces) means: no shard refused an oracle event *)
Lemma errs_zero c : errs c = 0 <-> forall s, In s (shards c) -> serr s = 0.
Proof.
  unfold errs. generalize (shards c). intros l.
  assert (K : forall l a, fold_left (fun a s => if a =? 0 then serr s else a) l a = 0 <-> a = 0 /\ forall s, In s l -> serr s = 0).
  { induction l0 as [|x l0 IH]; intros a; cbn [fold_left]; [split; [intros H; split; [exact H|intros s []]|tauto]|].
    rewrite IH. destruct (Z.eqb_spec a 0) as [->|NE].
    - split; [intros [A B]; split; [reflexivity|intros s [<-|H]; auto]|intros [_ B]; split; [apply B; left; reflexivity|intros s H; apply B; right; exact H]].
    - split; [intros [A _]; contradiction|intros [A _]; contradiction]. }
  rewrite K. tauto.
Qed.

(* INDEX of the cache-level results in this file (A's share of the task; C05/C06 are in TtlProofs.v)
   definitions      : Stat, view, PolicyOK, Sub, touch, cmd_ok / ShardOK / CacheInv (Section Placement, over shard_of),
                      Cfg, drain_sh / drained, get_at / get_out / get_sh / get_pre, cop / cres / cstep / cstep_full / settle /
                      crun / chist / encode_op / encode_res, wf_op, pend_last / vmap / amap / Agree, lat_step / latest,
                      res_ok / run_ok, all_items, gtag / gcnt / gsum / StatInv, hit1 / miss1 / ghost_hm, gdrops, enq / async_all / sync_all
   typed machine    : cache_step_cstep, cache_step_state
   item 6  (C03)    : op_set_inv, op_set_async_inv, op_get_inv, op_exists_inv, op_delete_inv, op_clear_inv, op_close_inv,
                      op_cleanup_inv, advance_inv, drain_shard_inv, drain_all_inv, settle_inv, attach_events_inv, cstep_inv,
                      cstep_full_inv, crun_inv, cache_init_inv, c03_within_budget, c03_keys_le_maxsize
   item 1  (C01)    : get_hit_latest, exists_true_latest, keys_latest, op_keys_nodup, c01_step, c01_lookup_latest_or_miss,
                      c01_get_returns_latest_refuted
   item 2           : set_update_effective, c01_update_effective
   item 3           : c01_delete_iff_resident
   item 4           : c01_failed_set_noop
   item 5           : drain_all_enq, c01_async_then_sync, c01_async_then_sync_quiescent, apply_cmd_commute
   item 7  (C03)    : set_room_no_drop / c03_room_no_drop, set_unweighted_at_most_one / c03_unweighted_at_most_one,
                      set_unbounded_never_drops / c03_unbounded_never_drops
   item 16 (C10)    : c10_size_cost
   item 17          : apply_set_counts, drop_counts, get_sh_counts, cleanup_counts, op_cleanup_counts, stat_step, c10_hits_misses
   item 18          : shard_items_facts, c10_structures_agree
   item 19          : closed_after_close, closed_cache, op_close_idempotent, closed_set_code_3_refuted
   item 20          : ex_lru_results, ex_lru_state, ex_lru_theorems, ex_sv_results, ex_sv_state, ex_sv_theorems *)
