(* Nibble.v — arithmetic of 4-bit counters packed into machine words.
   A word is viewed as its little-endian base-16 digit list; the three facts the sketch
   needs (read a nibble, bump a nibble without carry, halve every nibble with one
   shift-and-mask) are proved once for every word by induction on the digit list. *)
Require Import KV.Base.
Open Scope N_scope.
Ltac Zify.zify_post_hook ::= Z.div_mod_to_equations.

Fixpoint to_word (l : list N) : N :=
  match l with [] => 0 | c :: r => c + 16 * to_word r end.

Definition nibs_ok (l : list N) : Prop := Forall (fun c => c < 16) l.

Fixpoint upd (l : list N) (j : nat) (v : N) : list N :=
  match l, j with
  | [], _ => []
  | _ :: r, O => v :: r
  | c :: r, S j' => c :: upd r j' v
  end.

Definition nib (w sh : N) : N := N.land (N.shiftr w sh) 15.

(* ---- bits of x + 16*y ---- *)

Lemma testbit_split x y i : x < 16 ->
  N.testbit (x + 16 * y) i = if i <? 4 then N.testbit x i else N.testbit y (i - 4).
Proof.
  intros Hx. replace (x + 16 * y) with (x + y * 2 ^ 4) by (change (2 ^ 4) with 16; lia).
  destruct (i <? 4) eqn:E.
  - assert (Hi : i < 4) by lia.
    rewrite <- (N.mod_pow2_bits_low (x + y * 2 ^ 4) 4 i Hi).
    rewrite N.mod_add by (change (2 ^ 4) with 16; lia).
    rewrite N.mod_small by (change (2 ^ 4) with 16; lia). reflexivity.
  - assert (Hi : 4 <= i) by lia.
    replace i with ((i - 4) + 4) at 1 by lia.
    rewrite <- N.div_pow2_bits.
    rewrite N.div_add by (change (2 ^ 4) with 16; lia).
    rewrite N.div_small by (change (2 ^ 4) with 16; lia). reflexivity.
Qed.

Lemma land_lt16 a b : a < 16 -> N.land a b < 16.
Proof.
  intros Ha.
  assert (H : N.land a b = N.land (N.land a b) (N.ones 4)).
  { rewrite <- N.land_assoc, (N.land_comm b), N.land_assoc.
    rewrite (N.land_ones a 4). change (2 ^ 4) with 16. rewrite (N.mod_small a 16 Ha). reflexivity. }
  rewrite H, N.land_ones. change (2 ^ 4) with 16. apply N.mod_lt. lia.
Qed.

Lemma land_split a b a' b' : a < 16 -> a' < 16 ->
  N.land (a + 16 * b) (a' + 16 * b') = N.land a a' + 16 * N.land b b'.
Proof.
  intros Ha Ha'. apply N.bits_inj. intros i.
  rewrite N.land_spec, !testbit_split by (try assumption; apply land_lt16; assumption).
  destruct (i <? 4); rewrite N.land_spec; reflexivity.
Qed.

(* ---- bounds ---- *)

Lemma to_word_bound l : nibs_ok l -> to_word l < 16 ^ N.of_nat (length l).
Proof.
  induction 1 as [|c r Hc Hr IH]; cbn [to_word length].
  - cbn. lia.
  - rewrite Nat2N.inj_succ, N.pow_succ_r'. lia.
Qed.

Lemma digits_exist n w : w < 16 ^ N.of_nat n ->
  exists l, length l = n /\ nibs_ok l /\ to_word l = w.
Proof.
  revert w; induction n as [|n IH]; intros w Hw.
  - exists []. cbn in *. repeat split; [constructor|lia].
  - rewrite Nat2N.inj_succ, N.pow_succ_r' in Hw.
    destruct (IH (w / 16)) as [r [Hl [Hok Hv]]].
    { apply N.div_lt_upper_bound; lia. }
    exists (w mod 16 :: r). cbn [length to_word]. rewrite Hl, Hv.
    repeat split; [constructor; [apply N.mod_lt; lia|assumption]|].
    pose proof (N.div_mod w 16 ltac:(lia)). lia.
Qed.

(* ---- read ---- *)

Lemma shiftr4_cons c r : c < 16 -> N.shiftr (c + 16 * to_word r) 4 = to_word r.
Proof.
  intros Hc. rewrite N.shiftr_div_pow2. change (2 ^ 4) with 16.
  replace (c + 16 * to_word r) with (c + to_word r * 16) by lia.
  rewrite N.div_add by lia. rewrite N.div_small by lia. lia.
Qed.

Lemma land15_cons c x : c < 16 -> N.land (c + 16 * x) 15 = c.
Proof.
  intros Hc. change 15 with (N.ones 4). rewrite N.land_ones. change (2 ^ 4) with 16.
  replace (c + 16 * x) with (c + x * 16) by lia. rewrite N.mod_add by lia. apply N.mod_small; lia.
Qed.

Lemma nib_read l j : nibs_ok l -> nib (to_word l) (4 * N.of_nat j) = nth j l 0.
Proof.
  intros Hok. revert j; induction Hok as [|c r Hc Hr IH]; intros j.
  - destruct j; cbn [to_word nth]; unfold nib; rewrite N.shiftr_0_l; reflexivity.
  - destruct j as [|j]; cbn [to_word nth].
    + unfold nib. cbn [N.of_nat]. rewrite N.mul_0_r, N.shiftr_0_r. apply land15_cons; assumption.
    + unfold nib in *. rewrite Nat2N.inj_succ.
      replace (4 * N.succ (N.of_nat j)) with (4 + 4 * N.of_nat j) by lia.
      rewrite <- N.shiftr_shiftr, shiftr4_cons by assumption. apply IH.
Qed.

(* ---- bump without carry ---- *)

Lemma nib_incr l j : nibs_ok l -> (j < length l)%nat -> nth j l 0 < 15 ->
  to_word l + N.shiftl 1 (4 * N.of_nat j) = to_word (upd l j (nth j l 0 + 1)) /\
  nibs_ok (upd l j (nth j l 0 + 1)).
Proof.
  intros Hok. revert j; induction Hok as [|c r Hc Hr IH]; intros j Hj Hlt.
  - cbn in Hj. lia.
  - destruct j as [|j]; cbn [to_word nth upd] in *.
    + cbn [N.of_nat]. rewrite N.mul_0_r, N.shiftl_0_r. split; [lia|]. constructor; [lia|assumption].
    + cbn [length] in Hj. destruct (IH j ltac:(lia) Hlt) as [IH1 IH2].
      rewrite Nat2N.inj_succ.
      replace (4 * N.succ (N.of_nat j)) with (4 * N.of_nat j + 4) by lia.
      rewrite <- N.shiftl_shiftl, (N.shiftl_mul_pow2 _ 4). change (2 ^ 4) with 16.
      split; [rewrite <- IH1; lia|]. constructor; assumption.
Qed.

Lemma nth_upd_same l j v : (j < length l)%nat -> nth j (upd l j v) 0 = v.
Proof.
  revert j; induction l as [|c r IH]; intros j Hj; cbn in Hj; [lia|].
  destruct j; cbn [upd nth]; [reflexivity|apply IH; lia].
Qed.

Lemma nth_upd_other l j k v : j <> k -> nth k (upd l j v) 0 = nth k l 0.
Proof.
  revert j k; induction l as [|c r IH]; intros j k Hne; [destruct j, k; reflexivity|].
  destruct j, k; cbn [upd nth]; try reflexivity; [lia|apply IH; lia].
Qed.

Lemma upd_length l j v : length (upd l j v) = length l.
Proof. revert j; induction l as [|c r IH]; intros j; destruct j; cbn; auto. Qed.

(* ---- halve every nibble: (w >> 1) & 0x7777... ---- *)

Lemma shiftr1_cons c R : c < 16 ->
  N.shiftr (c + 16 * R) 1 = (c / 2 + 8 * (R mod 2)) + 16 * (R / 2).
Proof.
  intros Hc. rewrite N.shiftr_div_pow2. change (2 ^ 1) with 2. lia.
Qed.

Lemma land_low7 x b : x < 8 -> b < 2 -> N.land (x + 8 * b) 7 = x.
Proof.
  intros Hx Hb. change 7 with (N.ones 3). rewrite N.land_ones. change (2 ^ 3) with 8.
  replace (x + 8 * b) with (x + b * 8) by lia. rewrite N.mod_add by lia. apply N.mod_small; lia.
Qed.

Lemma age_digits l k : nibs_ok l -> (length l <= k)%nat ->
  N.land (N.shiftr (to_word l) 1) (to_word (repeat 7 k)) = to_word (map (fun c => c / 2) l).
Proof.
  intros Hok. revert k; induction Hok as [|c r Hc Hr IH]; intros k Hk.
  - cbn [to_word map]. rewrite N.shiftr_0_l. apply N.land_0_l.
  - destruct k as [|k]; [cbn in Hk; lia|]. cbn [length] in Hk.
    cbn [to_word map repeat].
    rewrite shiftr1_cons by assumption.
    assert (Hm : to_word r mod 2 < 2) by (apply N.mod_lt; lia).
    assert (Hc2 : c / 2 < 8) by (apply N.div_lt_upper_bound; lia).
    rewrite land_split by lia.
    rewrite land_low7 by assumption.
    rewrite <- (N.shiftr_div_pow2 (to_word r) 1) at 1.
    replace (to_word r / 2) with (N.shiftr (to_word r) 1) by (rewrite N.shiftr_div_pow2; reflexivity).
    rewrite IH by lia. reflexivity.
Qed.

Lemma agingMask_digits : 8608480567731124087 = to_word (repeat 7 16).
Proof. vm_compute. reflexivity. Qed.

Lemma nibs_ok_half l : nibs_ok l -> nibs_ok (map (fun c => c / 2) l).
Proof.
  induction 1 as [|c r Hc Hr IH]; cbn [map]; constructor; [|assumption].
  apply N.div_lt_upper_bound; lia.
Qed.

Lemma nth_map_half l j : nth j (map (fun c => c / 2) l) 0 = nth j l 0 / 2.
Proof.
  revert j; induction l as [|c r IH]; intros j; destruct j; cbn [map nth]; try reflexivity; apply IH.
Qed.

(* ---- the three word-level facts, for every 64-bit word and every nibble position ---- *)

Lemma word_digits w : w < 18446744073709551616 ->
  exists l, length l = 16%nat /\ nibs_ok l /\ to_word l = w.
Proof. intros H. apply (digits_exist 16). exact H. Qed.

Theorem nib_bump w j : w < 18446744073709551616 -> (j < 16)%nat -> nib w (4 * N.of_nat j) < 15 ->
  let w' := w + N.shiftl 1 (4 * N.of_nat j) in
  w' < 18446744073709551616 /\
  nib w' (4 * N.of_nat j) = nib w (4 * N.of_nat j) + 1 /\
  (forall k, (k < 16)%nat -> k <> j -> nib w' (4 * N.of_nat k) = nib w (4 * N.of_nat k)).
Proof.
  intros Hw Hj Hlt. destruct (word_digits w Hw) as [l [Hl [Hok Hv]]]. subst w.
  rewrite nib_read in Hlt by assumption.
  destruct (nib_incr l j Hok ltac:(lia) Hlt) as [He Hok'].
  cbv zeta. rewrite He. split; [|split].
  - pose proof (to_word_bound _ Hok') as Hb. rewrite upd_length, Hl in Hb. exact Hb.
  - rewrite !nib_read by assumption. apply nth_upd_same. lia.
  - intros k Hk Hne. rewrite !nib_read by assumption. apply nth_upd_other. lia.
Qed.

Theorem nib_age w j : w < 18446744073709551616 -> (j < 16)%nat ->
  let w' := N.land (N.shiftr w 1) 8608480567731124087 in
  w' < 18446744073709551616 /\ nib w' (4 * N.of_nat j) = nib w (4 * N.of_nat j) / 2.
Proof.
  intros Hw Hj. destruct (word_digits w Hw) as [l [Hl [Hok Hv]]]. subst w.
  cbv zeta. rewrite agingMask_digits, age_digits by (try assumption; lia).
  pose proof (nibs_ok_half l Hok) as Hok'. split.
  - pose proof (to_word_bound _ Hok') as Hb. rewrite map_length, Hl in Hb. exact Hb.
  - rewrite !nib_read by assumption. apply nth_map_half.
Qed.

Lemma nib_le15 w sh : nib w sh <= 15.
Proof.
  unfold nib. change (N.land (N.shiftr w sh) 15) with (N.land (N.shiftr w sh) (N.ones 4)).
  rewrite N.land_ones. change (2 ^ 4) with 16.
  pose proof (N.mod_lt (N.shiftr w sh) 16 ltac:(lia)). lia.
Qed.
