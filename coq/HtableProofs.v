(* HtableProofs.v — machine-checked functional correctness of the open-addressing table model
   (HtableModel.v): lookup / store / removeExact+reclaim / clear / probe / publish / unpin / swapAt /
   rehash, for every table size, every hash function and every key set.  Stdlib only. *)
Require Import KV.Base KV.Gen.Consts KV.HtableModel.
Require Import Lia List Arith ZArith Bool.
Import ListNotations.
Local Open Scope nat_scope.

(* ------------------------------------------------------------------ *)
(** * Ring walking: next_in / prev_in / iter_next                       *)
(* ------------------------------------------------------------------ *)

Lemma next_in_lt n i : i < n -> next_in n i < n.
Proof. unfold next_in. intros H. destruct (Nat.eqb_spec (S i) n); lia. Qed.

Lemma prev_in_lt n i : i < n -> prev_in n i < n.
Proof. unfold prev_in. intros H. destruct i as [|j]; lia. Qed.

Lemma next_prev n i : i < n -> next_in n (prev_in n i) = i.
Proof.
  unfold prev_in, next_in. intros H. destruct i as [|j].
  - destruct (Nat.eqb_spec (S (Nat.pred n)) n); lia.
  - destruct (Nat.eqb_spec (S j) n); lia.
Qed.

Fixpoint iter_next (n d i : nat) : nat :=
  match d with O => i | S d' => iter_next n d' (next_in n i) end.

Lemma iter_next_S n d : forall i, iter_next n (S d) i = next_in n (iter_next n d i).
Proof.
  induction d as [|d IH]; intros i; [reflexivity|].
  change (iter_next n (S (S d)) i) with (iter_next n (S d) (next_in n i)).
  rewrite IH. reflexivity.
Qed.

Lemma iter_next_lt n d : forall i, i < n -> iter_next n d i < n.
Proof.
  induction d as [|d IH]; intros i H; cbn [iter_next]; [exact H|].
  apply IH. apply next_in_lt. exact H.
Qed.

Lemma iter_next_small n d : forall i, i + d < n -> iter_next n d i = i + d.
Proof.
  induction d as [|d IH]; intros i H; cbn [iter_next]; [lia|].
  assert (E : next_in n i = S i).
  { unfold next_in. destruct (Nat.eqb_spec (S i) n); lia. }
  rewrite E. rewrite IH by lia. lia.
Qed.

Lemma iter_next_add n a : forall b i, iter_next n (a + b) i = iter_next n b (iter_next n a i).
Proof.
  induction a as [|a IH]; intros b i; [reflexivity|].
  cbn [Nat.add iter_next]. apply IH.
Qed.

Lemma iter_next_covers n i e : i < n -> e < n -> exists d, d < n /\ iter_next n d i = e.
Proof.
  intros Hi He. destruct (le_lt_dec i e) as [L|L].
  - exists (e - i). split; [lia|]. rewrite iter_next_small by lia. lia.
  - exists ((n - i) + e). split; [lia|].
    rewrite iter_next_add.
    replace (n - i) with (S (n - 1 - i)) by lia.
    rewrite iter_next_S. rewrite (iter_next_small n (n - 1 - i) i) by lia.
    replace (i + (n - 1 - i)) with (n - 1) by lia.
    assert (E : next_in n (n - 1) = 0).
    { unfold next_in. destruct (Nat.eqb_spec (S (n - 1)) n); lia. }
    rewrite E. rewrite iter_next_small by lia. lia.
Qed.

(* ------------------------------------------------------------------ *)
(** * getc / setc                                                        *)
(* ------------------------------------------------------------------ *)

Lemma length_setc l : forall p c, length (setc l p c) = length l.
Proof.
  induction l as [|x l IH]; intros p c; [reflexivity|].
  destruct p as [|p]; cbn [setc length]; [reflexivity|]. rewrite IH. reflexivity.
Qed.

Lemma getc_setc_same l : forall p c, p < length l -> getc (setc l p c) p = c.
Proof.
  unfold getc. induction l as [|x l IH]; intros p c H; cbn [length] in H; [lia|].
  destruct p as [|p]; cbn [setc nth]; [reflexivity|]. apply IH. lia.
Qed.

Lemma getc_setc_other l : forall p q c, p <> q -> getc (setc l p c) q = getc l q.
Proof.
  unfold getc. induction l as [|x l IH]; intros p q c H; [reflexivity|].
  destruct p as [|p]; destruct q as [|q]; cbn [setc nth]; try reflexivity; try lia.
  apply IH. lia.
Qed.

Lemma getc_oob l p : length l <= p -> getc l p = Empty.
Proof. unfold getc. intros H. apply nth_overflow. exact H. Qed.

Lemma getc_lt l p : getc l p <> Empty -> p < length l.
Proof.
  intros H. destruct (le_lt_dec (length l) p) as [L|L]; [|exact L].
  exfalso. apply H. apply getc_oob. exact L.
Qed.

Lemma getc_live_lt l p it : getc l p = Live it -> p < length l.
Proof. intros H. apply getc_lt. rewrite H. discriminate. Qed.

Lemma getc_tomb_lt l p : getc l p = Tomb -> p < length l.
Proof. intros H. apply getc_lt. rewrite H. discriminate. Qed.

(* value read after a write, in all cases *)
Lemma getc_setc_cases l p q c :
  (p = q /\ p < length l /\ getc (setc l p c) q = c) \/ (getc (setc l p c) q = getc l q).
Proof.
  destruct (Nat.eq_dec p q) as [E|E].
  - destruct (le_lt_dec (length l) p) as [L|L].
    + right. subst q. rewrite (getc_oob l p L). apply getc_oob. rewrite length_setc. exact L.
    + left. subst q. repeat split; [exact L|]. apply getc_setc_same. exact L.
  - right. apply getc_setc_other. exact E.
Qed.

Lemma getc_repeat n p : getc (repeat Empty n) p = Empty.
Proof.
  unfold getc. revert p. induction n as [|n IH]; intros p; cbn [repeat].
  - destruct p; reflexivity.
  - destruct p as [|p]; cbn [nth]; [reflexivity|]. apply IH.
Qed.

(* ------------------------------------------------------------------ *)
(** * Non-empty walks                                                    *)
(* ------------------------------------------------------------------ *)

Fixpoint walkne (l : list cell) (n i d : nat) : Prop :=
  match d with
  | O => True
  | S d' => getc l i <> Empty /\ walkne l n (next_in n i) d'
  end.

Lemma walkne_iff l n d : forall i,
  walkne l n i d <-> (forall j, j < d -> getc l (iter_next n j i) <> Empty).
Proof.
  induction d as [|d IH]; intros i; cbn [walkne].
  - split; [intros _ j Hj; lia|trivial].
  - split.
    + intros [H0 H1] j Hj. destruct j as [|j]; cbn [iter_next]; [exact H0|].
      apply (proj1 (IH _) H1). lia.
    + intros H. split.
      * apply (H 0). lia.
      * apply (proj2 (IH _)). intros j Hj. apply (H (S j)). lia.
Qed.

Lemma walkne_prefix l n i d d' : walkne l n i d -> d' <= d -> walkne l n i d'.
Proof.
  intros H L. apply walkne_iff. intros j Hj.
  apply (proj1 (walkne_iff l n d i) H). lia.
Qed.

Lemma walkne_nth l n i d j : walkne l n i d -> j < d -> getc l (iter_next n j i) <> Empty.
Proof. intros H. apply (proj1 (walkne_iff l n d i) H). Qed.

(* overwriting any slot with a non-Empty cell preserves every walk *)
Lemma walkne_setc_nonempty l n i d p c :
  c <> Empty -> walkne l n i d -> walkne (setc l p c) n i d.
Proof.
  intros Hc H. apply walkne_iff. intros j Hj.
  destruct (getc_setc_cases l p (iter_next n j i) c) as [(_ & _ & E)|E]; rewrite E.
  - exact Hc.
  - apply (walkne_nth l n i d j H Hj).
Qed.

(* emptying a slot p whose successor is Empty preserves every walk whose terminal slot is
   either non-Empty or different from the successor of p  (reclaim safety, single walk) *)
Lemma walkne_setc_empty l n i d p :
  getc l (next_in n p) = Empty ->
  walkne l n i d ->
  (getc l (iter_next n d i) <> Empty \/ iter_next n d i <> next_in n p) ->
  walkne (setc l p Empty) n i d.
Proof.
  intros Hnx H HT. apply walkne_iff. intros j Hj.
  destruct (Nat.eq_dec (iter_next n j i) p) as [E|E].
  - exfalso.
    assert (N : iter_next n (S j) i = next_in n p) by (rewrite iter_next_S, E; reflexivity).
    destruct (Nat.eq_dec (S j) d) as [D|D].
    + subst d. rewrite N in HT. destruct HT as [HT|HT]; [apply HT; exact Hnx|apply HT; reflexivity].
    + apply (walkne_nth l n i d (S j) H); [lia|]. rewrite N. exact Hnx.
  - rewrite getc_setc_other by (intros Q; apply E; symmetry; exact Q).
    apply (walkne_nth l n i d j H Hj).
Qed.

(* a full turn of non-empty cells contradicts the existence of an Empty slot *)
Lemma walkne_full_absurd l n i e :
  i < n -> e < n -> getc l e = Empty -> walkne l n i n -> False.
Proof.
  intros Hi He HE H.
  destruct (iter_next_covers n i e Hi He) as (d & Hd & Ed).
  apply (walkne_nth l n i n d H Hd). rewrite Ed. exact HE.
Qed.

(* ------------------------------------------------------------------ *)
(** * Counting cells                                                     *)
(* ------------------------------------------------------------------ *)

Definition is_live (c : cell) : bool := match c with Live _ => true | _ => false end.
Definition is_tomb (c : cell) : bool := match c with Tomb => true | _ => false end.
Definition is_empty (c : cell) : bool := match c with Empty => true | _ => false end.

Fixpoint cnt (f : cell -> bool) (l : list cell) : nat :=
  match l with [] => 0 | c :: r => (if f c then 1 else 0) + cnt f r end.

Definition nlive (l : list cell) : nat := cnt is_live l.
Definition ntomb (l : list cell) : nat := cnt is_tomb l.
Definition nempty (l : list cell) : nat := cnt is_empty l.

Lemma cnt_setc f l : forall p c, p < length l ->
  cnt f (setc l p c) + (if f (getc l p) then 1 else 0) = cnt f l + (if f c then 1 else 0).
Proof.
  unfold getc. induction l as [|x l IH]; intros p c H; cbn [length] in H; [lia|].
  destruct p as [|p]; cbn [setc cnt nth].
  - lia.
  - pose proof (IH p c ltac:(lia)) as E. lia.
Qed.

Lemma cnt_total l : nlive l + ntomb l + nempty l = length l.
Proof.
  unfold nlive, ntomb, nempty. induction l as [|x l IH]; [reflexivity|].
  cbn [cnt length]. destruct x; cbn [is_live is_tomb is_empty]; lia.
Qed.

Lemma cnt_pos_ex f l : 0 < cnt f l -> exists p, p < length l /\ f (getc l p) = true.
Proof.
  unfold getc. induction l as [|x l IH]; cbn [cnt length]; intros H; [lia|].
  destruct (f x) eqn:E.
  - exists 0. split; [lia|exact E].
  - destruct (IH ltac:(lia)) as (p & Hp & Fp). exists (S p). split; [lia|exact Fp].
Qed.

Lemma cnt_repeat_empty f n : f Empty = false -> cnt f (repeat Empty n) = 0.
Proof. intros H. induction n as [|n IH]; cbn [repeat cnt]; [reflexivity|]. rewrite H, IH. reflexivity. Qed.

Lemma count_live_nlive l : count_live l = Z.of_nat (nlive l).
Proof.
  unfold count_live, nlive.
  assert (G : forall a, fold_left (fun a c => match c with Live _ => (a + 1)%Z | _ => a end) l a
                        = (a + Z.of_nat (cnt is_live l))%Z).
  { induction l as [|x l IH]; intros a; cbn [fold_left cnt]; [lia|].
    rewrite IH. destruct x; cbn [is_live]; lia. }
  rewrite G. lia.
Qed.

(* an Empty slot exists whenever live + tombs < length *)
Lemma empty_exists l : nlive l + ntomb l < length l -> exists e, e < length l /\ getc l e = Empty.
Proof.
  intros H. pose proof (cnt_total l) as T.
  destruct (cnt_pos_ex is_empty l) as (p & Hp & Fp); [unfold nempty in T; lia|].
  exists p. split; [exact Hp|]. destruct (getc l p); cbn [is_empty] in Fp; try discriminate. reflexivity.
Qed.

(* ------------------------------------------------------------------ *)
(** * Resident items, key uniqueness, the abstract map                   *)
(* ------------------------------------------------------------------ *)

Definition lives (l : list cell) : list item :=
  flat_map (fun c => match c with Live it => [it] | _ => [] end) l.

Lemma contents_lives t : contents t = lives (slots t).
Proof. reflexivity. Qed.

Lemma lives_cons c l : lives (c :: l) = match c with Live it => it :: lives l | _ => lives l end.
Proof. unfold lives. cbn [flat_map]. destruct c; reflexivity. Qed.

Lemma length_lives l : length (lives l) = nlive l.
Proof.
  unfold nlive. induction l as [|x l IH]; [reflexivity|].
  rewrite lives_cons. cbn [cnt]. destruct x; cbn [is_live length]; lia.
Qed.

Definition resident (l : list cell) (x : item) : Prop := exists p, getc l p = Live x.

Lemma resident_lives l x : resident l x <-> In x (lives l).
Proof.
  unfold resident, getc. induction l as [|c l IH].
  - split; [intros [p H]; destruct p; discriminate H|intros []].
  - rewrite lives_cons. split.
    + intros [p H]. destruct p as [|p]; cbn [nth] in H.
      * subst c. left. reflexivity.
      * assert (I : In x (lives l)) by (apply IH; exists p; exact H).
        destruct c; [exact I|exact I|right; exact I].
    + intros H.
      assert (C : c = Live x \/ In x (lives l)).
      { destruct c as [| |it]; [right; exact H|right; exact H|].
        destruct H as [H|H]; [left; subst it; reflexivity|right; exact H]. }
      destruct C as [C|C].
      * exists 0. exact C.
      * destruct (proj2 IH C) as [p Hp]. exists (S p). exact Hp.
Qed.

Definition uniq (l : list cell) : Prop :=
  forall p q a b, getc l p = Live a -> getc l q = Live b -> ikey a = ikey b -> p = q.

Lemma uniq_tail c l : uniq (c :: l) -> uniq l.
Proof.
  intros U p q a b Ha Hb K.
  assert (E : S p = S q) by (apply (U (S p) (S q) a b); assumption). lia.
Qed.

Lemma uniq_NoDup l : uniq l -> NoDup (map ikey (lives l)).
Proof.
  induction l as [|c l IH]; intros U; [constructor|].
  rewrite lives_cons. pose proof (IH (uniq_tail c l U)) as N.
  destruct c as [| |it]; [exact N|exact N|].
  cbn [map]. constructor; [|exact N].
  intros I. apply in_map_iff in I. destruct I as (x & Kx & Ix).
  apply resident_lives in Ix. destruct Ix as [p Hp].
  assert (E : 0 = S p).
  { apply (U 0 (S p) it x); [reflexivity|exact Hp|symmetry; exact Kx]. }
  discriminate E.
Qed.

Lemma uniq_same l p q a b :
  uniq l -> getc l p = Live a -> getc l q = Live b -> ikey a = ikey b -> a = b.
Proof.
  intros U Ha Hb K. assert (E : p = q) by (apply (U p q a b); assumption).
  subst q. rewrite Ha in Hb. injection Hb as Hb. exact Hb.
Qed.

Definition amapl (l : list cell) (k : Z) : option item :=
  find (fun it => (ikey it =? k)%Z) (lives l).
Definition amap (t : htable) (k : Z) : option item := amapl (slots t) k.

Lemma amap_contents t k : amap t k = find (fun it => (ikey it =? k)%Z) (contents t).
Proof. reflexivity. Qed.

Lemma amapl_some l k x : amapl l k = Some x -> resident l x /\ ikey x = k.
Proof.
  unfold amapl. intros H. apply find_some in H. destruct H as [I K].
  split; [apply resident_lives; exact I|]. apply Z.eqb_eq. exact K.
Qed.

Lemma amapl_none l k x : amapl l k = None -> resident l x -> ikey x <> k.
Proof.
  unfold amapl. intros H R. apply resident_lives in R.
  pose proof (find_none _ _ H x R) as K. cbn beta in K. apply Z.eqb_neq. exact K.
Qed.

Lemma amapl_present l x : uniq l -> resident l x -> amapl l (ikey x) = Some x.
Proof.
  intros U R. destruct (amapl l (ikey x)) as [y|] eqn:E.
  - apply amapl_some in E. destruct E as [[q Hq] K]. destruct R as [p Hp].
    f_equal. apply (uniq_same l q p y x U Hq Hp K).
  - exfalso. apply (amapl_none l (ikey x) x E R). reflexivity.
Qed.

Lemma amapl_absent l k : (forall x, resident l x -> ikey x <> k) -> amapl l k = None.
Proof.
  intros H. destruct (amapl l k) as [y|] eqn:E; [|reflexivity].
  apply amapl_some in E. destruct E as [R K]. exfalso. apply (H y R K).
Qed.

Lemma amapl_ext l l' k :
  uniq l -> uniq l' ->
  (forall x, ikey x = k -> (resident l x <-> resident l' x)) ->
  amapl l' k = amapl l k.
Proof.
  intros U U' H. destruct (amapl l k) as [y|] eqn:E.
  - apply amapl_some in E. destruct E as [R K]. subst k.
    apply amapl_present; [exact U'|]. apply (H y eq_refl). exact R.
  - apply amapl_absent. intros x R' K. apply (amapl_none l k x E); [|exact K].
    apply (H x K). exact R'.
Qed.

(* removing or emptying cells keeps keys unique *)
Lemma uniq_setc_nonlive l p c : is_live c = false -> uniq l -> uniq (setc l p c).
Proof.
  intros Hc U a b x y Hx Hy K.
  destruct (getc_setc_cases l p a c) as [(_ & _ & E)|E]; rewrite E in Hx.
  { subst c. discriminate Hc. }
  destruct (getc_setc_cases l p b c) as [(_ & _ & E')|E']; rewrite E' in Hy.
  { subst c. discriminate Hc. }
  apply (U a b x y Hx Hy K).
Qed.

(* writing an item whose key occurs nowhere else keeps keys unique *)
Lemma uniq_setc_live l p it :
  uniq l ->
  (forall q x, q <> p -> getc l q = Live x -> ikey x <> ikey it) ->
  uniq (setc l p (Live it)).
Proof.
  intros U F a b x y Hx Hy K.
  destruct (getc_setc_cases l p a (Live it)) as [(Ea & _ & E)|E]; rewrite E in Hx;
  destruct (getc_setc_cases l p b (Live it)) as [(Eb & _ & E')|E']; rewrite E' in Hy.
  - lia.
  - injection Hx as Hx. subst x. destruct (Nat.eq_dec b p) as [D|D]; [lia|].
    exfalso. apply (F b y D Hy). symmetry. exact K.
  - injection Hy as Hy. subst y. destruct (Nat.eq_dec a p) as [D|D]; [lia|].
    exfalso. apply (F a x D Hx). exact K.
  - apply (U a b x y Hx Hy K).
Qed.

(* ------------------------------------------------------------------ *)
(** * The fuelled probe loops                                            *)
(* ------------------------------------------------------------------ *)

(* a walk cannot extend beyond an Empty slot *)
Lemma walkne_stops l n i d d' :
  walkne l n i d' -> getc l (iter_next n d i) = Empty -> d' <= d.
Proof.
  intros H E. destruct (le_lt_dec d' d) as [L|L]; [exact L|].
  exfalso. apply (walkne_nth l n i d' d H L). exact E.
Qed.

Lemma lookup_from_none l n h k : forall fuel i,
  lookup_from fuel l n i h k = None -> walkne l n i fuel.
Proof.
  induction fuel as [|f IH]; intros i H; cbn [walkne]; [trivial|].
  cbn [lookup_from] in H. destruct (getc l i) as [| |x] eqn:G.
  - discriminate H.
  - split; [discriminate|]. apply IH. exact H.
  - destruct (matches x h k); [discriminate H|].
    split; [discriminate|]. apply IH. exact H.
Qed.

Lemma lookup_from_some_none l n h k : forall fuel i,
  lookup_from fuel l n i h k = Some None ->
  exists d, d < fuel /\ walkne l n i d /\ getc l (iter_next n d i) = Empty /\
    (forall j x, j < d -> getc l (iter_next n j i) = Live x -> matches x h k = false).
Proof.
  induction fuel as [|f IH]; intros i H; cbn [lookup_from] in H; [discriminate H|].
  destruct (getc l i) as [| |x] eqn:G.
  - exists 0. cbn [iter_next walkne]. repeat split; [lia|exact G|]. intros j y Hj. lia.
  - destruct (IH _ H) as (d & Hd & W & E & NM). exists (S d). cbn [iter_next walkne].
    repeat split; [lia|rewrite G; discriminate|exact W|exact E|].
    intros j y Hj Gy. destruct j as [|j]; cbn [iter_next] in Gy.
    + rewrite G in Gy. discriminate Gy.
    + apply (NM j y); [lia|exact Gy].
  - destruct (matches x h k) eqn:M; [discriminate H|].
    destruct (IH _ H) as (d & Hd & W & E & NM). exists (S d). cbn [iter_next walkne].
    repeat split; [lia|rewrite G; discriminate|exact W|exact E|].
    intros j y Hj Gy. destruct j as [|j]; cbn [iter_next] in Gy.
    + rewrite G in Gy. injection Gy as Gy. subst y. exact M.
    + apply (NM j y); [lia|exact Gy].
Qed.

Lemma lookup_from_some_some l n h k x : forall fuel i,
  lookup_from fuel l n i h k = Some (Some x) ->
  exists d, d < fuel /\ getc l (iter_next n d i) = Live x /\ matches x h k = true.
Proof.
  induction fuel as [|f IH]; intros i H; cbn [lookup_from] in H; [discriminate H|].
  destruct (getc l i) as [| |y] eqn:G.
  - discriminate H.
  - destruct (IH _ H) as (d & Hd & E & M). exists (S d). cbn [iter_next]. repeat split; [lia|exact E|exact M].
  - destruct (matches y h k) eqn:My.
    + injection H as H. subst y. exists 0. cbn [iter_next]. repeat split; [lia|exact G|exact My].
    + destruct (IH _ H) as (d & Hd & E & M). exists (S d). cbn [iter_next]. repeat split; [lia|exact E|exact M].
Qed.

(* --- walk_for (store / probe) --- *)

Lemma walk_for_fuel l n h k : forall fuel i ft,
  walk_for fuel l n i ft h k = PFuel -> walkne l n i fuel.
Proof.
  induction fuel as [|f IH]; intros i ft H; cbn [walkne]; [trivial|].
  cbn [walk_for] in H. destruct (getc l i) as [| |x] eqn:G.
  - destruct ft; discriminate H.
  - split; [discriminate|]. apply (IH _ _ H).
  - destruct (matches x h k); [discriminate H|].
    split; [discriminate|]. apply (IH _ _ H).
Qed.

Lemma walk_for_found l n h k s x : forall fuel i ft,
  walk_for fuel l n i ft h k = PFound s x ->
  exists d, d < fuel /\ iter_next n d i = s /\ getc l s = Live x /\ matches x h k = true.
Proof.
  induction fuel as [|f IH]; intros i ft H; cbn [walk_for] in H; [discriminate H|].
  destruct (getc l i) as [| |y] eqn:G.
  - destruct ft; discriminate H.
  - destruct (IH _ _ H) as (d & Hd & E & Gs & M). exists (S d). cbn [iter_next].
    repeat split; [lia|exact E|exact Gs|exact M].
  - destruct (matches y h k) eqn:My.
    + injection H as H1 H2. subst y s. exists 0. cbn [iter_next]. repeat split; [lia|exact G|exact My].
    + destruct (IH _ _ H) as (d & Hd & E & Gs & M). exists (S d). cbn [iter_next].
      repeat split; [lia|exact E|exact Gs|exact M].
Qed.

Definition ft_ok (l : list cell) (n i d : nat) (ft : option nat) (j : nat) (tomb : bool) : Prop :=
  match ft with
  | Some f => j = f /\ tomb = true
  | None => (tomb = false /\ j = iter_next n d i) \/
            (tomb = true /\ exists d', d' < d /\ j = iter_next n d' i /\ getc l j = Tomb)
  end.

Lemma walk_for_empty l n h k j tomb : forall fuel i ft,
  walk_for fuel l n i ft h k = PEmpty j tomb ->
  exists d, d < fuel /\ walkne l n i d /\ getc l (iter_next n d i) = Empty /\
    (forall e x, e < d -> getc l (iter_next n e i) = Live x -> matches x h k = false) /\
    ft_ok l n i d ft j tomb.
Proof.
  induction fuel as [|f IH]; intros i ft H; cbn [walk_for] in H; [discriminate H|].
  destruct (getc l i) as [| |y] eqn:G.
  - exists 0. cbn [iter_next walkne]. repeat split; [lia|exact G|intros e x He; lia|].
    unfold ft_ok. destruct ft as [f0|]; injection H as H1 H2; subst j tomb.
    + split; reflexivity.
    + left. split; reflexivity.
  - destruct (IH _ _ H) as (d & Hd & W & E & NM & FT). exists (S d). cbn [iter_next walkne].
    repeat split; [lia|rewrite G; discriminate|exact W|exact E| |].
    + intros e x He Gx. destruct e as [|e]; cbn [iter_next] in Gx.
      * rewrite G in Gx. discriminate Gx.
      * apply (NM e x); [lia|exact Gx].
    + unfold ft_ok in *. destruct ft as [f0|].
      * exact FT.
      * destruct FT as [FJ FT]. right. split; [exact FT|].
        exists 0. cbn [iter_next]. repeat split; [lia|exact FJ|]. rewrite FJ. exact G.
  - destruct (matches y h k) eqn:My; [discriminate H|].
    destruct (IH _ _ H) as (d & Hd & W & E & NM & FT). exists (S d). cbn [iter_next walkne].
    repeat split; [lia|rewrite G; discriminate|exact W|exact E| |].
    + intros e x He Gx. destruct e as [|e]; cbn [iter_next] in Gx.
      * rewrite G in Gx. injection Gx as Gx. subst x. exact My.
      * apply (NM e x); [lia|exact Gx].
    + unfold ft_ok in *. destruct ft as [f0|]; [exact FT|].
      destruct FT as [[FT FJ]|[FT (d' & Hd' & FJ & GT)]].
      * left. split; [exact FT|exact FJ].
      * right. split; [exact FT|]. exists (S d'). cbn [iter_next]. repeat split; [lia|exact FJ|exact GT].
Qed.

(* --- first_empty (rehash) --- *)

Lemma first_empty_none l n : forall fuel i, first_empty fuel l n i = None -> walkne l n i fuel.
Proof.
  induction fuel as [|f IH]; intros i H; cbn [walkne]; [trivial|].
  cbn [first_empty] in H. destruct (getc l i) as [| |x] eqn:G.
  - discriminate H.
  - split; [discriminate|]. apply IH. exact H.
  - split; [discriminate|]. apply IH. exact H.
Qed.

Lemma first_empty_some l n j : forall fuel i, first_empty fuel l n i = Some j ->
  exists d, d < fuel /\ iter_next n d i = j /\ walkne l n i d /\ getc l j = Empty.
Proof.
  induction fuel as [|f IH]; intros i H; cbn [first_empty] in H; [discriminate H|].
  destruct (getc l i) as [| |x] eqn:G.
  - injection H as H. subst j. exists 0. cbn [iter_next walkne]. repeat split; [lia|exact G].
  - destruct (IH _ H) as (d & Hd & E & W & GE). exists (S d). cbn [iter_next walkne].
    repeat split; [lia|exact E|rewrite G; discriminate|exact W|exact GE].
  - destruct (IH _ H) as (d & Hd & E & W & GE). exists (S d). cbn [iter_next walkne].
    repeat split; [lia|exact E|rewrite G; discriminate|exact W|exact GE].
Qed.

(* --- find_exact (removeExact) --- *)

Definition ex_test (cur it : item) : bool :=
  ((norm (ihash cur) =? norm (ihash it))%Z && (iid cur =? iid it)%Z)%bool.

Lemma find_exact_fuel l n it : forall fuel i, find_exact fuel l n i it = None -> walkne l n i fuel.
Proof.
  induction fuel as [|f IH]; intros i H; cbn [walkne]; [trivial|].
  cbn [find_exact] in H. destruct (getc l i) as [| |x] eqn:G.
  - discriminate H.
  - split; [discriminate|]. apply IH. exact H.
  - fold (ex_test x it) in H. destruct (ex_test x it); [discriminate H|].
    split; [discriminate|]. apply IH. exact H.
Qed.

Lemma find_exact_miss l n it : forall fuel i, find_exact fuel l n i it = Some None ->
  exists d, d < fuel /\ walkne l n i d /\ getc l (iter_next n d i) = Empty /\
    (forall e x, e < d -> getc l (iter_next n e i) = Live x -> ex_test x it = false).
Proof.
  induction fuel as [|f IH]; intros i H; cbn [find_exact] in H; [discriminate H|].
  destruct (getc l i) as [| |y] eqn:G.
  - exists 0. cbn [iter_next walkne]. repeat split; [lia|exact G|]. intros e x He. lia.
  - destruct (IH _ H) as (d & Hd & W & E & NM). exists (S d). cbn [iter_next walkne].
    repeat split; [lia|rewrite G; discriminate|exact W|exact E|].
    intros e x He Gx. destruct e as [|e]; cbn [iter_next] in Gx.
    + rewrite G in Gx. discriminate Gx.
    + apply (NM e x); [lia|exact Gx].
  - fold (ex_test y it) in H. destruct (ex_test y it) eqn:My; [discriminate H|].
    destruct (IH _ H) as (d & Hd & W & E & NM). exists (S d). cbn [iter_next walkne].
    repeat split; [lia|rewrite G; discriminate|exact W|exact E|].
    intros e x He Gx. destruct e as [|e]; cbn [iter_next] in Gx.
    + rewrite G in Gx. injection Gx as Gx. subst x. exact My.
    + apply (NM e x); [lia|exact Gx].
Qed.

Lemma find_exact_hit l n it s : forall fuel i, find_exact fuel l n i it = Some (Some s) ->
  exists d cur, d < fuel /\ iter_next n d i = s /\ getc l s = Live cur /\ ex_test cur it = true.
Proof.
  induction fuel as [|f IH]; intros i H; cbn [find_exact] in H; [discriminate H|].
  destruct (getc l i) as [| |y] eqn:G.
  - discriminate H.
  - destruct (IH _ H) as (d & cur & Hd & E & Gs & M). exists (S d), cur. cbn [iter_next].
    repeat split; [lia|exact E|exact Gs|exact M].
  - fold (ex_test y it) in H. destruct (ex_test y it) eqn:My.
    + injection H as H. subst s. exists 0, y. cbn [iter_next]. repeat split; [lia|exact G|exact My].
    + destruct (IH _ H) as (d & cur & Hd & E & Gs & M). exists (S d), cur. cbn [iter_next].
      repeat split; [lia|exact E|exact Gs|exact M].
Qed.

(* ------------------------------------------------------------------ *)
(** * Hash homes and matching                                            *)
(* ------------------------------------------------------------------ *)

Lemma home_in_lt n h : 0 < n -> home_in n h < n.
Proof.
  intros H. unfold home_in.
  pose proof (Z.mod_pos_bound (norm h) (Z.of_nat n) ltac:(lia)) as B. lia.
Qed.

Lemma home_in_norm n h h' : norm h = norm h' -> home_in n h = home_in n h'.
Proof. unfold home_in. intros E. rewrite E. reflexivity. Qed.

Lemma matches_true x h k : matches x h k = true -> norm (ihash x) = norm h /\ ikey x = k.
Proof.
  unfold matches. intros H. apply andb_true_iff in H. destruct H as [A B].
  split; apply Z.eqb_eq; assumption.
Qed.

Lemma ex_test_true cur it : ex_test cur it = true -> norm (ihash cur) = norm (ihash it) /\ iid cur = iid it.
Proof.
  unfold ex_test. intros H. apply andb_true_iff in H. destruct H as [A B].
  split; apply Z.eqb_eq; assumption.
Qed.

Lemma ex_test_false cur it : ex_test cur it = false -> ~ (norm (ihash cur) = norm (ihash it) /\ iid cur = iid it).
Proof.
  unfold ex_test. intros H [A B]. apply Z.eqb_eq in A. apply Z.eqb_eq in B.
  rewrite A, B in H. discriminate H.
Qed.

(* ------------------------------------------------------------------ *)
(** * Invariants                                                         *)
(* ------------------------------------------------------------------ *)

Section Spec.
Variable hashf : Z -> Z.

Definition consistent (it : item) : Prop := ihash it = hashf (ikey it).

(* slot p is reachable from the home of hash h along non-Empty cells in fewer than n steps *)
Definition reach_at (l : list cell) (n : nat) (h : Z) (p : nat) : Prop :=
  exists d, d < n /\ iter_next n d (home_in n h) = p /\ walkne l n (home_in n h) d.

Record LWF (l : list cell) (n : nat) : Prop := {
  lwf_len : length l = n;
  lwf_cons : forall p it, getc l p = Live it -> consistent it;
  lwf_uniq : uniq l;
  lwf_reach : forall p it, getc l p = Live it -> reach_at l n (ihash it) p
}.

Record WFcore (t : htable) : Prop := {
  wc_n : 8 <= nslots t;
  wc_err : herr t = false;
  wc_l : LWF (slots t) (nslots t);
  wc_live : live t = Z.of_nat (nlive (slots t));
  wc_tombs : tombs t = Z.of_nat (ntomb (slots t))
}.

Definition load_ok (t : htable) : Prop :=
  ((live t + tombs t) * htLoadDen < Z.of_nat (nslots t) * htLoadNum)%Z.

(* no cursor in flight *)
Record WF (t : htable) : Prop := {
  wf_core : WFcore t;
  wf_pin : pinned t = None;
  wf_load : load_ok t
}.

(* a probe cursor for the absent key kc is parked on slot q *)
Record WFpin (t : htable) (kc : Z) (q : nat) : Prop := {
  wp_core : WFcore t;
  wp_pin : pinned t = Some q;
  wp_load : load_ok t;
  wp_absent : forall x, resident (slots t) x -> ikey x <> kc;
  wp_q : q < nslots t;
  wp_cell : is_live (getc (slots t) q) = false;
  wp_path : reach_at (slots t) (nslots t) (hashf kc) q
}.

Lemma matches_consistent x k : consistent x -> ikey x = k -> matches x (hashf k) k = true.
Proof.
  unfold consistent, matches. intros C K. subst k. rewrite C.
  rewrite !Z.eqb_refl. reflexivity.
Qed.

Lemma reach_at_norm l n h h' p : norm h = norm h' -> reach_at l n h p -> reach_at l n h' p.
Proof. unfold reach_at. intros E H. rewrite <- (home_in_norm n h h' E). exact H. Qed.

Lemma reach_at_setc_nonempty l n h p q c :
  c <> Empty -> reach_at l n h p -> reach_at (setc l q c) n h p.
Proof.
  intros Hc (d & Hd & E & W). exists d. repeat split; [exact Hd|exact E|].
  apply walkne_setc_nonempty; assumption.
Qed.

Lemma reach_at_setc_empty l n h p q :
  getc l (next_in n q) = Empty ->
  (getc l p <> Empty \/ p <> next_in n q) ->
  reach_at l n h p -> reach_at (setc l q Empty) n h p.
Proof.
  intros Hnx HT (d & Hd & E & W). exists d. repeat split; [exact Hd|exact E|].
  apply walkne_setc_empty; [exact Hnx|exact W|]. rewrite E. exact HT.
Qed.

Lemma reach_at_lt l n h p : 0 < n -> reach_at l n h p -> p < n.
Proof.
  intros Hn (d & _ & E & _). subst p. apply iter_next_lt. apply home_in_lt. exact Hn.
Qed.

(* --- list-level updates --- *)

Lemma LWF_set_live l n p it :
  LWF l n -> p < n -> consistent it -> reach_at l n (ihash it) p ->
  (forall q x, q <> p -> getc l q = Live x -> ikey x <> ikey it) ->
  LWF (setc l p (Live it)) n.
Proof.
  intros [Len Cons U R] Hp Cit Rit Fresh. constructor.
  - rewrite length_setc. exact Len.
  - intros s x Hs. destruct (getc_setc_cases l p s (Live it)) as [(_ & _ & E)|E]; rewrite E in Hs.
    + injection Hs as Hs. subst x. exact Cit.
    + apply (Cons s x Hs).
  - apply uniq_setc_live; assumption.
  - intros s x Hs. apply reach_at_setc_nonempty; [discriminate|].
    destruct (getc_setc_cases l p s (Live it)) as [(Eq & _ & E)|E]; rewrite E in Hs.
    + injection Hs as Hs. subst x s. exact Rit.
    + apply (R s x Hs).
Qed.

Lemma LWF_set_tomb l n p : LWF l n -> LWF (setc l p Tomb) n.
Proof.
  intros [Len Cons U R]. constructor.
  - rewrite length_setc. exact Len.
  - intros s x Hs. destruct (getc_setc_cases l p s Tomb) as [(_ & _ & E)|E]; rewrite E in Hs.
    + discriminate Hs.
    + apply (Cons s x Hs).
  - apply uniq_setc_nonlive; [reflexivity|exact U].
  - intros s x Hs. apply reach_at_setc_nonempty; [discriminate|].
    destruct (getc_setc_cases l p s Tomb) as [(_ & _ & E)|E]; rewrite E in Hs.
    + discriminate Hs.
    + apply (R s x Hs).
Qed.

(* reclaim safety: a tombstone whose successor is Empty may be turned back into Empty *)
Lemma LWF_set_empty l n p :
  LWF l n -> getc l (next_in n p) = Empty -> is_live (getc l p) = false ->
  LWF (setc l p Empty) n.
Proof.
  intros [Len Cons U R] Hnx Hp. constructor.
  - rewrite length_setc. exact Len.
  - intros s x Hs. destruct (getc_setc_cases l p s Empty) as [(_ & _ & E)|E]; rewrite E in Hs.
    + discriminate Hs.
    + apply (Cons s x Hs).
  - apply uniq_setc_nonlive; [reflexivity|exact U].
  - intros s x Hs.
    destruct (getc_setc_cases l p s Empty) as [(_ & _ & E)|E]; rewrite E in Hs; [discriminate Hs|].
    apply reach_at_setc_empty; [exact Hnx| |apply (R s x Hs)].
    left. rewrite Hs. discriminate.
Qed.

Lemma amapl_set_live l j it :
  uniq l -> uniq (setc l j (Live it)) -> j < length l ->
  (forall x, getc l j = Live x -> ikey x = ikey it) ->
  forall k, amapl (setc l j (Live it)) k = if (k =? ikey it)%Z then Some it else amapl l k.
Proof.
  intros U U' Hj Same k. destruct (Z.eqb_spec k (ikey it)) as [E|E].
  - subst k. apply amapl_present; [exact U'|]. exists j. apply getc_setc_same. exact Hj.
  - apply amapl_ext; [exact U|exact U'|]. intros x K. split; intros [p Hp].
    + destruct (Nat.eq_dec j p) as [D|D].
      * subst p. exfalso. apply E. rewrite <- K. apply Same. exact Hp.
      * exists p. rewrite getc_setc_other by exact D. exact Hp.
    + destruct (getc_setc_cases l j p (Live it)) as [(_ & _ & G)|G]; rewrite G in Hp.
      * injection Hp as Hp. subst x. exfalso. apply E. symmetry. exact K.
      * exists p. exact Hp.
Qed.

Lemma amapl_set_nonlive l j c :
  uniq l -> is_live c = false -> j < length l ->
  forall k, amapl (setc l j c) k =
            match getc l j with
            | Live x => if (k =? ikey x)%Z then None else amapl l k
            | _ => amapl l k
            end.
Proof.
  intros U Hc Hj k.
  assert (U' : uniq (setc l j c)) by (apply uniq_setc_nonlive; assumption).
  assert (Sub : forall x, resident (setc l j c) x -> resident l x /\ getc l j <> Live x).
  { intros x [p Hp]. destruct (getc_setc_cases l j p c) as [(_ & _ & G)|G].
    - rewrite G in Hp. subst c. discriminate Hc.
    - split; [exists p; rewrite <- G; exact Hp|].
      intros Q. destruct (Nat.eq_dec j p) as [D|D].
      + subst p. rewrite getc_setc_same in Hp by exact Hj. subst c. discriminate Hc.
      + rewrite getc_setc_other in Hp by exact D.
        assert (j = p) by (apply (U j p x x Q Hp eq_refl)). contradiction. }
  assert (Sup : forall x, resident l x -> getc l j <> Live x -> resident (setc l j c) x).
  { intros x [p Hp] N. exists p. destruct (Nat.eq_dec j p) as [D|D].
    - subst p. contradiction.
    - rewrite getc_setc_other by exact D. exact Hp. }
  destruct (getc l j) as [| |y] eqn:G.
  - apply amapl_ext; [exact U|exact U'|]. intros x _. split.
    + intros R. apply Sup; [exact R|discriminate].
    + intros R. apply (Sub x R).
  - apply amapl_ext; [exact U|exact U'|]. intros x _. split.
    + intros R. apply Sup; [exact R|discriminate].
    + intros R. apply (Sub x R).
  - destruct (Z.eqb_spec k (ikey y)) as [E|E].
    + apply amapl_absent. intros x R K. destruct (Sub x R) as [[p Hp] N].
      apply N. f_equal. symmetry. apply (uniq_same l p j x y U Hp G). rewrite K. exact E.
    + apply amapl_ext; [exact U|exact U'|]. intros x K. split.
      * intros R. apply Sup; [exact R|]. intros Q. injection Q as Q. subst y. apply E. symmetry. exact K.
      * intros R. apply (Sub x R).
Qed.

(* ------------------------------------------------------------------ *)
(** * lookup                                                             *)
(* ------------------------------------------------------------------ *)

Lemma core_empty_exists t :
  WFcore t -> load_ok t -> exists e, e < nslots t /\ getc (slots t) e = Empty.
Proof.
  intros C L. destruct C as [N _ _ Lv Tb]. unfold nslots in *. apply empty_exists.
  unfold load_ok, htLoadDen, htLoadNum, nslots in L. rewrite Lv, Tb in L. lia.
Qed.

(* a scan that stopped on an Empty cell without meeting a P-item excludes every P-item that is
   reachable from the same start *)
Lemma scan_excl (P : item -> bool) l n i d d' x :
  walkne l n i d' -> getc l (iter_next n d' i) = Live x ->
  getc l (iter_next n d i) = Empty ->
  (forall e y, e < d -> getc l (iter_next n e i) = Live y -> P y = false) ->
  P x = true -> False.
Proof.
  intros W' G' GE NM Px.
  pose proof (walkne_stops l n i d d' W' GE) as LE.
  destruct (Nat.eq_dec d' d) as [D|D].
  - subst d'. rewrite GE in G'. discriminate G'.
  - rewrite (NM d' x ltac:(lia) G') in Px. discriminate Px.
Qed.

Lemma lookup_core t k : WFcore t -> load_ok t -> lookup t (hashf k) k = amap t k.
Proof.
  intros C L. destruct (core_empty_exists t C L) as (e & He & GE).
  destruct C as [N _ LW _ _]. destruct LW as [Len Cons U R].
  assert (Hn : 0 < nslots t) by lia.
  pose proof (home_in_lt (nslots t) (hashf k) Hn) as Hh.
  unfold lookup, amap.
  destruct (lookup_from (nslots t) (slots t) (nslots t) (home_in (nslots t) (hashf k)) (hashf k) k)
    as [[x|]|] eqn:E.
  - apply lookup_from_some_some in E. destruct E as (d & _ & G & M).
    apply matches_true in M. destruct M as [_ K]. subst k. symmetry.
    apply amapl_present; [exact U|]. eexists. exact G.
  - apply lookup_from_some_none in E. destruct E as (d & Hd & W & GE' & NM).
    symmetry. apply amapl_absent. intros x [p Hp] K.
    destruct (R p x Hp) as (d' & Hd' & Ep & W').
    pose proof (Cons p x Hp) as Cx.
    assert (HH : ihash x = hashf k) by (unfold consistent in Cx; rewrite Cx, K; reflexivity).
    rewrite HH in Ep, W'. rewrite <- Ep in Hp.
    apply (scan_excl (fun y => matches y (hashf k) k) _ _ _ d d' x W' Hp GE' NM).
    apply matches_consistent; assumption.
  - exfalso. apply lookup_from_none in E. apply (walkne_full_absurd _ _ _ e Hh He GE E).
Qed.

Theorem lookup_spec t k : WF t -> lookup t (hashf k) k = amap t k.
Proof. intros [C _ L]. apply lookup_core; assumption. Qed.

Theorem lookup_spec_pin t kc q k : WFpin t kc q -> lookup t (hashf k) k = amap t k.
Proof. intros W. apply lookup_core; [apply (wp_core _ _ _ W)|apply (wp_load _ _ _ W)]. Qed.

(* the fuel never runs out *)
Theorem lookup_fuel_ok t k : WF t ->
  lookup_from (nslots t) (slots t) (nslots t) (home_in (nslots t) (hashf k)) (hashf k) k <> None.
Proof.
  intros [C _ L] E. destruct (core_empty_exists t C L) as (e & He & GE).
  destruct C as [N _ _ _ _].
  assert (Hn : 0 < nslots t) by lia.
  apply lookup_from_none in E.
  apply (walkne_full_absurd _ _ _ e (home_in_lt _ (hashf k) Hn) He GE E).
Qed.

Theorem counts_match t : WFcore t -> live t = Z.of_nat (length (contents t)).
Proof. intros C. rewrite contents_lives, length_lives. apply (wc_live _ C). Qed.

(* ------------------------------------------------------------------ *)
(** * Writing a Live cell (shared by store / publish / swap_at)          *)
(* ------------------------------------------------------------------ *)

Lemma set_live_core t j it lv' tb' pin :
  WFcore t -> j < nslots t -> consistent it ->
  reach_at (slots t) (nslots t) (ihash it) j ->
  (forall q x, q <> j -> getc (slots t) q = Live x -> ikey x <> ikey it) ->
  (forall x, getc (slots t) j = Live x -> ikey x = ikey it) ->
  lv' = (live t + (if is_live (getc (slots t) j) then 0 else 1))%Z ->
  tb' = (tombs t - (if is_tomb (getc (slots t) j) then 1 else 0))%Z ->
  WFcore (with_slots t (setc (slots t) j (Live it)) lv' tb' pin) /\
  (forall k, amap (with_slots t (setc (slots t) j (Live it)) lv' tb' pin) k
             = if (k =? ikey it)%Z then Some it else amap t k).
Proof.
  intros C Hj Cit Rit Fresh Same Elv Etb.
  destruct C as [N Err LW Lv Tb].
  assert (LW' : LWF (setc (slots t) j (Live it)) (nslots t)) by (apply LWF_set_live; assumption).
  pose proof (cnt_setc is_live (slots t) j (Live it) Hj) as CL.
  pose proof (cnt_setc is_tomb (slots t) j (Live it) Hj) as CT.
  cbn [is_live is_tomb] in CL, CT.
  split.
  - constructor; unfold nslots in *; cbn [with_slots slots herr live tombs]; rewrite ?length_setc.
    + exact N.
    + exact Err.
    + exact LW'.
    + unfold nlive. destruct (is_live (getc (slots t) j)); unfold nlive in Lv; lia.
    + unfold ntomb. destruct (is_tomb (getc (slots t) j)); unfold ntomb in Tb; lia.
  - unfold amap. cbn [with_slots slots].
    apply amapl_set_live; [apply (lwf_uniq _ _ LW)|apply (lwf_uniq _ _ LW')|exact Hj|exact Same].
Qed.

(* ------------------------------------------------------------------ *)
(** * rehash / maybe_grow                                                *)
(* ------------------------------------------------------------------ *)

Record RInv (newN : nat) (a : list cell) (L : list item) : Prop := {
  ri_lwf : LWF a newN;
  ri_tomb : ntomb a = 0;
  ri_live : nlive a = length L;
  ri_res : forall x, resident a x <-> In x L
}.

Lemma RInv_init newN : RInv newN (repeat Empty newN) [].
Proof.
  constructor.
  - constructor.
    + apply repeat_length.
    + intros p it H. rewrite getc_repeat in H. discriminate H.
    + intros p q a b H. rewrite getc_repeat in H. discriminate H.
    + intros p it H. rewrite getc_repeat in H. discriminate H.
  - apply cnt_repeat_empty. reflexivity.
  - apply cnt_repeat_empty. reflexivity.
  - intros x. split; [intros [p H]; rewrite getc_repeat in H; discriminate H|intros []].
Qed.

Lemma reinsert_step newN a L it :
  0 < newN -> RInv newN a L -> consistent it -> ~ In (ikey it) (map ikey L) -> length L < newN ->
  exists a', reinsert newN (a, false) (Live it) = (a', false) /\ RInv newN a' (L ++ [it]).
Proof.
  intros Hn [LW NT NL Res] Cit Fresh HL.
  pose proof (lwf_len _ _ LW) as Len.
  destruct (empty_exists a) as (e & He & GE); [lia|].
  pose proof (home_in_lt newN (ihash it) Hn) as Hh.
  unfold reinsert. cbn [fst snd].
  destruct (first_empty newN a newN (home_in newN (ihash it))) as [j|] eqn:FE.
  - apply first_empty_some in FE. destruct FE as (d & Hd & Ej & W & Gj).
    assert (Hj : j < newN) by (rewrite <- Ej; apply iter_next_lt; exact Hh).
    exists (setc a j (Live it)). split; [reflexivity|].
    pose proof (cnt_setc is_live a j (Live it) ltac:(lia)) as CL.
    pose proof (cnt_setc is_tomb a j (Live it) ltac:(lia)) as CT.
    rewrite Gj in CL, CT. cbn [is_live is_tomb] in CL, CT.
    constructor.
    + apply LWF_set_live; [exact LW|exact Hj|exact Cit| |].
      * exists d. repeat split; assumption.
      * intros q x _ Gq K. apply Fresh. rewrite <- K. apply in_map. apply Res. exists q. exact Gq.
    + unfold ntomb in *. lia.
    + rewrite app_length. cbn [length]. unfold nlive in *. lia.
    + intros x. split.
      * intros [p Hp]. apply in_or_app.
        destruct (getc_setc_cases a j p (Live it)) as [(_ & _ & G)|G]; rewrite G in Hp.
        -- injection Hp as Hp. subst x. right. left. reflexivity.
        -- left. apply Res. exists p. exact Hp.
      * intros I. apply in_app_or in I. destruct I as [I|[I|[]]].
        -- apply Res in I. destruct I as [p Hp]. exists p.
           rewrite getc_setc_other; [exact Hp|]. intros Q. subst p. rewrite Gj in Hp. discriminate Hp.
        -- subst x. exists j. apply getc_setc_same. lia.
  - exfalso. apply first_empty_none in FE. rewrite Len in He. apply (walkne_full_absurd a newN _ e Hh He GE FE).
Qed.

Lemma rehash_fold newN : 0 < newN -> forall old a L,
  RInv newN a L -> (forall x, In x (lives old) -> consistent x) ->
  NoDup (map ikey (L ++ lives old)) -> length (L ++ lives old) < newN ->
  exists nl, fold_left (reinsert newN) old (a, false) = (nl, false) /\ RInv newN nl (L ++ lives old).
Proof.
  intros Hn. induction old as [|c old IH]; intros a L RI Cons ND HL.
  - exists a. cbn [fold_left]. split; [reflexivity|]. change (lives []) with (@nil item).
    rewrite app_nil_r. exact RI.
  - rewrite lives_cons in *. destruct c as [| |it].
    + cbn [fold_left reinsert]. apply IH; assumption.
    + cbn [fold_left reinsert]. apply IH; assumption.
    + cbn [fold_left].
      assert (Fresh : ~ In (ikey it) (map ikey L)).
      { rewrite map_app in ND. cbn [map] in ND. apply NoDup_remove_2 in ND.
        intros I. apply ND. apply in_or_app. left. exact I. }
      assert (HL' : length L < newN).
      { rewrite app_length in HL. cbn [length] in HL. lia. }
      destruct (reinsert_step newN a L it Hn RI (Cons it (or_introl eq_refl)) Fresh HL')
        as (a' & E & RI').
      rewrite E.
      change (it :: lives old) with ([it] ++ lives old) in *.
      rewrite app_assoc in *.
      apply IH; [exact RI'| |exact ND|exact HL].
      intros x I. apply Cons. apply in_or_app. right. exact I.
Qed.

Theorem rehash_spec t newN :
  WFcore t -> 8 <= newN -> (live t * htLoadDen < Z.of_nat newN * htLoadNum)%Z ->
  WF (rehash t newN) /\ (forall k, amap (rehash t newN) k = amap t k) /\
  gen (rehash t newN) = (gen t + 1)%Z /\ nslots (rehash t newN) = newN.
Proof.
  intros C HN HL. destruct C as [N Err LW Lv Tb].
  assert (Hn : 0 < newN) by lia.
  pose proof (length_lives (slots t)) as LL.
  destruct (rehash_fold newN Hn (slots t) (repeat Empty newN) [] (RInv_init newN)) as (nl & E & RI).
  { intros x I. apply resident_lives in I. destruct I as [p Hp]. apply (lwf_cons _ _ LW p x Hp). }
  { cbn [app]. apply uniq_NoDup. apply (lwf_uniq _ _ LW). }
  { cbn [app]. unfold htLoadDen, htLoadNum in HL. lia. }
  cbn [app] in RI. destruct RI as [LW' NT NL Res].
  pose proof (lwf_len _ _ LW') as Len'.
  unfold rehash. rewrite E.
  split; [|split; [|split]].
  - constructor; [constructor|reflexivity|]; unfold load_ok, nslots;
      cbn [slots live tombs herr pinned]; rewrite ?Len'.
    + exact HN.
    + rewrite Err. reflexivity.
    + exact LW'.
    + apply count_live_nlive.
    + rewrite NT. reflexivity.
    + rewrite count_live_nlive, NL, LL, <- Lv. unfold htLoadDen, htLoadNum in *. lia.
  - intros k. unfold amap. cbn [slots].
    apply amapl_ext; [apply (lwf_uniq _ _ LW)|apply (lwf_uniq _ _ LW')|].
    intros x _. rewrite Res. apply resident_lives.
  - reflexivity.
  - unfold nslots. cbn [slots]. exact Len'.
Qed.

Theorem maybe_grow_spec t :
  WFcore t -> pinned t = None ->
  WF (maybe_grow t) /\ (forall k, amap (maybe_grow t) k = amap t k).
Proof.
  intros C P. unfold maybe_grow.
  destruct (Z.ltb_spec ((live t + tombs t) * htLoadDen) (Z.of_nat (nslots t) * htLoadNum)) as [L|L].
  - split; [|reflexivity]. constructor; assumption.
  - pose proof (wc_n _ C) as N. pose proof (wc_live _ C) as Lv.
    pose proof (cnt_total (slots t)) as T. unfold nslots in *.
    set (newN := if (live t * htLoadDen >=? Z.of_nat (length (slots t)) * htLoadNum)%Z
                 then length (slots t) * 2 else length (slots t)).
    assert (H8 : 8 <= newN /\ (live t * htLoadDen < Z.of_nat newN * htLoadNum)%Z).
    { subst newN. unfold htLoadDen, htLoadNum in *. rewrite Z.geb_leb.
      destruct (Z.leb_spec (Z.of_nat (length (slots t)) * 3) (live t * 4)); lia. }
    destruct H8 as [H8 HL].
    destruct (rehash_spec t newN C H8 HL) as (W & A & _ & _).
    split; assumption.
Qed.

(* ------------------------------------------------------------------ *)
(** * The shared probe walk                                              *)
(* ------------------------------------------------------------------ *)

Lemma walk_empty_facts t k j tomb :
  WFcore t ->
  walk t (hashf k) k = PEmpty j tomb ->
  (forall x, resident (slots t) x -> ikey x <> k) /\ j < nslots t /\
  reach_at (slots t) (nslots t) (hashf k) j /\
  getc (slots t) j = (if tomb then Tomb else Empty).
Proof.
  intros C W. destruct C as [N _ LW _ _]. destruct LW as [Len Cons U R].
  assert (Hn : 0 < nslots t) by lia.
  pose proof (home_in_lt (nslots t) (hashf k) Hn) as Hh.
  unfold walk in W. apply walk_for_empty in W. destruct W as (d & Hd & Wk & GE & NM & FT).
  split; [|].
  - intros x [p Hp] K.
    destruct (R p x Hp) as (d' & Hd' & Ep & W').
    pose proof (Cons p x Hp) as Cx.
    assert (HH : ihash x = hashf k) by (unfold consistent in Cx; rewrite Cx, K; reflexivity).
    rewrite HH in Ep, W'. rewrite <- Ep in Hp.
    apply (scan_excl (fun y => matches y (hashf k) k) _ _ _ d d' x W' Hp GE NM).
    apply matches_consistent; assumption.
  - unfold ft_ok in FT. destruct FT as [[FT FJ]|[FT (d' & Hd' & FJ & GT)]]; subst tomb.
    + split; [subst j; apply iter_next_lt; exact Hh|]. split; [|subst j; exact GE].
      exists d. repeat split; [exact Hd|symmetry; exact FJ|exact Wk].
    + split; [subst j; apply iter_next_lt; exact Hh|]. split; [|exact GT].
      exists d'. repeat split; [lia|symmetry; exact FJ|]. apply (walkne_prefix _ _ _ d d' Wk). lia.
Qed.

Lemma walk_found_facts t h k s cur :
  walk t h k = PFound s cur -> getc (slots t) s = Live cur /\ norm (ihash cur) = norm h /\ ikey cur = k.
Proof.
  unfold walk. intros W. apply walk_for_found in W. destruct W as (d & _ & _ & G & M).
  apply matches_true in M. destruct M as [M1 M2]. repeat split; assumption.
Qed.

Lemma walk_fuel_absurd t h k : WFcore t -> load_ok t -> walk t h k = PFuel -> False.
Proof.
  intros C L W. destruct (core_empty_exists t C L) as (e & He & GE).
  pose proof (wc_n _ C) as N. assert (Hn : 0 < nslots t) by lia.
  unfold walk in W. apply walk_for_fuel in W.
  apply (walkne_full_absurd _ _ _ e (home_in_lt _ h Hn) He GE W).
Qed.

(* ------------------------------------------------------------------ *)
(** * store                                                              *)
(* ------------------------------------------------------------------ *)

(* replacing the item of a key in place (store on a resident key, swap_at) *)
Lemma replace_core t s cur it pin :
  WFcore t -> getc (slots t) s = Live cur -> ikey it = ikey cur -> consistent it ->
  WFcore (with_slots t (setc (slots t) s (Live it)) (live t) (tombs t) pin) /\
  (forall k, amap (with_slots t (setc (slots t) s (Live it)) (live t) (tombs t) pin) k
             = if (k =? ikey it)%Z then Some it else amap t k).
Proof.
  intros C G K Cit. pose proof C as C0. destruct C0 as [N _ LW _ _]. destruct LW as [Len Cons U R].
  pose proof (getc_live_lt _ _ _ G) as Hs.
  apply set_live_core; try assumption.
  - apply reach_at_norm with (h := ihash cur); [|apply (R s cur G)].
    pose proof (Cons s cur G) as Cc. unfold consistent in Cc, Cit. rewrite Cc, Cit, K. reflexivity.
  - intros q x D Gq Kx. apply D. apply (U q s x cur Gq G). rewrite Kx. exact K.
  - intros x Gx. rewrite G in Gx. injection Gx as Gx. subst x. symmetry. exact K.
  - rewrite G. cbn [is_live]. lia.
  - rewrite G. cbn [is_tomb]. lia.
Qed.

(* inserting a fresh key into a non-Live reachable slot (store on an absent key, publish) *)
Lemma insert_core t j it tb' pin :
  WFcore t -> consistent it ->
  (forall x, resident (slots t) x -> ikey x <> ikey it) ->
  j < nslots t -> is_live (getc (slots t) j) = false ->
  reach_at (slots t) (nslots t) (ihash it) j ->
  tb' = (tombs t - (if is_tomb (getc (slots t) j) then 1 else 0))%Z ->
  WFcore (with_slots t (setc (slots t) j (Live it)) (live t + 1) tb' pin) /\
  (forall k, amap (with_slots t (setc (slots t) j (Live it)) (live t + 1) tb' pin) k
             = if (k =? ikey it)%Z then Some it else amap t k).
Proof.
  intros C Cit Abs Hj NL Rj Etb.
  apply set_live_core; try assumption.
  - intros q x _ Gq. apply Abs. exists q. exact Gq.
  - intros x Gx. rewrite Gx in NL. discriminate NL.
  - rewrite NL. reflexivity.
Qed.

Lemma load_ok_with_slots t l lv tb p :
  length l = nslots t -> (lv + tb <= live t + tombs t)%Z -> load_ok t -> load_ok (with_slots t l lv tb p).
Proof.
  unfold load_ok, nslots. cbn [with_slots slots live tombs]. intros E H L. rewrite E.
  unfold htLoadDen, htLoadNum in *. lia.
Qed.

Theorem store_spec t it :
  WF t -> consistent it ->
  let (t', prev) := store t it in
  WF t' /\ prev = amap t (ikey it) /\
  (forall k, amap t' k = if (k =? ikey it)%Z then Some it else amap t k).
Proof.
  intros [C P L] Cit. unfold store.
  assert (Eh : ihash it = hashf (ikey it)) by exact Cit. rewrite Eh.
  destruct (walk t (hashf (ikey it)) (ikey it)) as [j tomb|s cur|] eqn:W.
  - destruct (walk_empty_facts t _ j tomb C W) as (Abs & Hj & Rj & Gj).
    assert (NL : is_live (getc (slots t) j) = false) by (rewrite Gj; destruct tomb; reflexivity).
    destruct (insert_core t j it (if tomb then tombs t - 1 else tombs t)%Z (pinned t) C Cit Abs Hj NL)
      as [C1 A1].
    { rewrite Eh. exact Rj. }
    { rewrite Gj. destruct tomb; cbn [is_tomb]; lia. }
    destruct (maybe_grow_spec _ C1) as [W2 A2]; [cbn [with_slots pinned]; exact P|].
    split; [exact W2|]. split.
    + symmetry. apply amapl_absent. exact Abs.
    + intros k. rewrite A2. apply A1.
  - destruct (walk_found_facts t _ _ s cur W) as (G & _ & K).
    destruct (replace_core t s cur it (pinned t) C G (eq_sym K) Cit) as [C1 A1].
    split; [|split].
    + constructor; [exact C1|exact P|].
      apply load_ok_with_slots; [apply length_setc|lia|exact L].
    + symmetry. rewrite <- K. apply amapl_present; [apply (lwf_uniq _ _ (wc_l _ C))|].
      exists s. exact G.
    + exact A1.
  - exfalso. apply (walk_fuel_absurd t _ _ C L W).
Qed.

Corollary store_WF t it : WF t -> consistent it -> WF (fst (store t it)).
Proof.
  intros W Cit. pose proof (store_spec t it W Cit) as S.
  destruct (store t it) as [t' prev]. apply S.
Qed.

(* ------------------------------------------------------------------ *)
(** * reclaim_tombs                                                      *)
(* ------------------------------------------------------------------ *)

(* what a reclaim pass may do: turn unpinned tombstones into Empty cells, keeping every walk that
   ends on a Live cell or on the pinned slot *)
Record Reclaimed (n : nat) (pin : option nat) (l : list cell) (tb : Z) (l' : list cell) (tb' : Z)
  : Prop := {
  rc_len : length l' = length l;
  rc_cell : forall s, getc l' s = getc l s \/
                      (getc l s = Tomb /\ getc l' s = Empty /\ is_pin pin s = false);
  rc_walk : forall i0 d, walkne l n i0 d ->
            (is_live (getc l (iter_next n d i0)) = true \/ is_pin pin (iter_next n d i0) = true) ->
            walkne l' n i0 d;
  rc_live : nlive l' = nlive l;
  rc_tomb : (tb' - Z.of_nat (ntomb l') = tb - Z.of_nat (ntomb l))%Z;
  rc_le : ntomb l' <= ntomb l
}.

Lemma Reclaimed_refl n pin l tb : Reclaimed n pin l tb l tb.
Proof. constructor; try reflexivity; try lia. - intros s. left. reflexivity. - intros i0 d W _. exact W. Qed.

Lemma Reclaimed_trans n pin l tb l2 tb2 l3 tb3 :
  Reclaimed n pin l tb l2 tb2 -> Reclaimed n pin l2 tb2 l3 tb3 -> Reclaimed n pin l tb l3 tb3.
Proof.
  intros [Len1 Cell1 Walk1 Lv1 Tb1 Le1] [Len2 Cell2 Walk2 Lv2 Tb2 Le2]. constructor; try lia.
  - intros s. destruct (Cell1 s) as [A|(A1 & A2 & A3)]; destruct (Cell2 s) as [B|(B1 & B2 & B3)].
    + left. rewrite B. exact A.
    + right. rewrite <- A. repeat split; assumption.
    + right. rewrite B. repeat split; assumption.
    + rewrite A2 in B1. discriminate B1.
  - intros i0 d W HT. apply Walk2; [apply Walk1; assumption|].
    destruct HT as [HT|HT]; [left|right; exact HT].
    destruct (Cell1 (iter_next n d i0)) as [A|(A1 & _)].
    + rewrite A. exact HT.
    + rewrite A1 in HT. discriminate HT.
Qed.

Lemma Reclaimed_step n pin l tb i :
  i < length l -> getc l i = Tomb -> is_pin pin i = false ->
  getc l (next_in n i) = Empty -> is_pin pin (next_in n i) = false ->
  Reclaimed n pin l tb (setc l i Empty) (tb - 1).
Proof.
  intros Hi G Pi Hnx Pnx.
  pose proof (cnt_setc is_live l i Empty Hi) as CL.
  pose proof (cnt_setc is_tomb l i Empty Hi) as CT.
  rewrite G in CL, CT. cbn [is_live is_tomb] in CL, CT.
  constructor.
  - apply length_setc.
  - intros s. destruct (Nat.eq_dec i s) as [D|D].
    + subst s. right. repeat split; [exact G|apply getc_setc_same; exact Hi|exact Pi].
    + left. apply getc_setc_other. exact D.
  - intros i0 d W HT. apply walkne_setc_empty; [exact Hnx|exact W|].
    destruct HT as [HT|HT].
    + left. intros Q. rewrite Q in HT. discriminate HT.
    + right. intros Q. rewrite Q, Pnx in HT. discriminate HT.
  - unfold nlive. lia.
  - unfold ntomb. lia.
  - unfold ntomb. lia.
Qed.

Lemma is_pin_next_prev n pin i : i < n -> is_pin pin (next_in n (prev_in n i)) = is_pin pin i.
Proof. intros H. rewrite next_prev by exact H. reflexivity. Qed.

Lemma reclaim_loop_spec n pin : forall fuel l i tb,
  i < n -> length l = n ->
  getc l (next_in n i) = Empty -> is_pin pin (next_in n i) = false ->
  Reclaimed n pin l tb (fst (reclaim_loop fuel l n i pin tb)) (snd (reclaim_loop fuel l n i pin tb)).
Proof.
  induction fuel as [|f IH]; intros l i tb Hi Len Hnx Pnx; cbn [reclaim_loop].
  - apply Reclaimed_refl.
  - destruct (is_pin pin i) eqn:Pi; [apply Reclaimed_refl|].
    destruct (getc l i) as [| |x] eqn:G; try apply Reclaimed_refl.
    apply Reclaimed_trans with (l2 := setc l i Empty) (tb2 := (tb - 1)%Z).
    + apply Reclaimed_step; try assumption. lia.
    + apply IH.
      * apply prev_in_lt. exact Hi.
      * rewrite length_setc. exact Len.
      * rewrite next_prev by exact Hi. apply getc_setc_same. lia.
      * rewrite next_prev by exact Hi. exact Pi.
Qed.

Lemma reclaim_tombs_spec n pin l i tb :
  i < n -> length l = n ->
  Reclaimed n pin l tb (fst (reclaim_tombs l n i pin tb)) (snd (reclaim_tombs l n i pin tb)).
Proof.
  intros Hi Len. unfold reclaim_tombs.
  destruct (is_pin pin (next_in n i)) eqn:Pnx; [apply Reclaimed_refl|].
  destruct (getc l (next_in n i)) as [| |x] eqn:G; try apply Reclaimed_refl.
  apply reclaim_loop_spec; assumption.
Qed.

Lemma Reclaimed_live n pin l tb l' tb' s x :
  Reclaimed n pin l tb l' tb' -> (getc l' s = Live x <-> getc l s = Live x).
Proof.
  intros RC. destruct (rc_cell _ _ _ _ _ _ RC s) as [A|(A1 & A2 & _)].
  - rewrite A. reflexivity.
  - rewrite A1, A2. split; discriminate.
Qed.

Lemma Reclaimed_resident n pin l tb l' tb' x :
  Reclaimed n pin l tb l' tb' -> (resident l' x <-> resident l x).
Proof.
  intros RC. split; intros [p Hp]; exists p; apply (Reclaimed_live _ _ _ _ _ _ p x RC); exact Hp.
Qed.

Lemma Reclaimed_pinned n pin l tb l' tb' q :
  Reclaimed n pin l tb l' tb' -> is_pin pin q = true -> getc l' q = getc l q.
Proof.
  intros RC P. destruct (rc_cell _ _ _ _ _ _ RC q) as [A|(_ & _ & A3)]; [exact A|].
  rewrite A3 in P. discriminate P.
Qed.

Lemma Reclaimed_reach_pin n pin l tb l' tb' h q :
  Reclaimed n pin l tb l' tb' -> is_pin pin q = true -> reach_at l n h q -> reach_at l' n h q.
Proof.
  intros RC P (d & Hd & E & W). exists d. repeat split; [exact Hd|exact E|].
  apply (rc_walk _ _ _ _ _ _ RC _ _ W). right. rewrite E. exact P.
Qed.

Lemma LWF_reclaimed n pin l tb l' tb' :
  LWF l n -> Reclaimed n pin l tb l' tb' -> LWF l' n.
Proof.
  intros [Len Cons U R] RC. constructor.
  - rewrite (rc_len _ _ _ _ _ _ RC). exact Len.
  - intros p x Hp. apply (Reclaimed_live _ _ _ _ _ _ p x RC) in Hp. apply (Cons p x Hp).
  - intros p q a b Ha Hb K.
    apply (Reclaimed_live _ _ _ _ _ _ p a RC) in Ha. apply (Reclaimed_live _ _ _ _ _ _ q b RC) in Hb.
    apply (U p q a b Ha Hb K).
  - intros p x Hp. apply (Reclaimed_live _ _ _ _ _ _ p x RC) in Hp.
    destruct (R p x Hp) as (d & Hd & E & W). exists d. repeat split; [exact Hd|exact E|].
    apply (rc_walk _ _ _ _ _ _ RC _ _ W). left. rewrite E, Hp. reflexivity.
Qed.

(* ------------------------------------------------------------------ *)
(** * remove_exact                                                       *)
(* ------------------------------------------------------------------ *)

Lemma is_pin_self q : is_pin (Some q) q = true.
Proof. cbn [is_pin]. apply Nat.eqb_refl. Qed.

(* General form, valid with or without a parked cursor and for ANY argument item: remove_exact
   deletes the first resident item on the probe path that has the argument's (normalised) hash and
   iid, and reports false exactly when no resident item has them. *)
Lemma remove_exact_core t it t' ok :
  WFcore t -> load_ok t -> remove_exact t it = (t', ok) ->
  WFcore t' /\ load_ok t' /\ pinned t' = pinned t /\ gen t' = gen t /\ nslots t' = nslots t /\
  (forall q, pinned t = Some q -> is_live (getc (slots t) q) = false ->
     getc (slots t') q = getc (slots t) q /\
     (forall h, reach_at (slots t) (nslots t) h q -> reach_at (slots t') (nslots t) h q)) /\
  ((ok = false /\ t' = t /\ (forall cur, resident (slots t) cur -> ex_test cur it = false)) \/
   (ok = true /\ exists cur, resident (slots t) cur /\ ex_test cur it = true /\
      (forall k, amap t' k = if (k =? ikey cur)%Z then None else amap t k))).
Proof.
  intros C L E. destruct (core_empty_exists t C L) as (e & He & GE).
  pose proof C as C0. destruct C0 as [N Err LW Lv Tb]. pose proof LW as LW0.
  destruct LW0 as [Len Cons U R].
  assert (Hn : 0 < nslots t) by lia.
  pose proof (home_in_lt (nslots t) (ihash it) Hn) as Hh.
  unfold remove_exact in E.
  destruct (find_exact (nslots t) (slots t) (nslots t) (home_in (nslots t) (ihash it)) it)
    as [[i|]|] eqn:F.
  - apply find_exact_hit in F. destruct F as (d & cur & Hd & Ei & Gi & M).
    pose proof (getc_live_lt _ _ _ Gi) as Hi. fold (nslots t) in Hi.
    assert (Len1 : length (setc (slots t) i Tomb) = nslots t) by (rewrite length_setc; reflexivity).
    pose proof (reclaim_tombs_spec (nslots t) (pinned t) (setc (slots t) i Tomb) i (tombs t + 1)%Z Hi Len1)
      as RC.
    destruct (reclaim_tombs (setc (slots t) i Tomb) (nslots t) i (pinned t) (tombs t + 1)) as [l2 tb] eqn:RT.
    cbn [fst snd] in RC. injection E as E1 E2. subst t' ok.
    assert (LW1 : LWF (setc (slots t) i Tomb) (nslots t)) by (apply LWF_set_tomb; exact LW).
    assert (LW2 : LWF l2 (nslots t)) by (apply (LWF_reclaimed _ _ _ _ _ _ LW1 RC)).
    pose proof (lwf_len _ _ LW2) as Len2.
    pose proof (cnt_setc is_live (slots t) i Tomb Hi) as CL.
    pose proof (cnt_setc is_tomb (slots t) i Tomb Hi) as CT.
    rewrite Gi in CL, CT. cbn [is_live is_tomb] in CL, CT.
    pose proof (rc_live _ _ _ _ _ _ RC) as RL. pose proof (rc_tomb _ _ _ _ _ _ RC) as RTb.
    pose proof (rc_le _ _ _ _ _ _ RC) as RLe. unfold nlive, ntomb in *.
    split; [|split; [|split; [|split; [|split; [|split]]]]].
    + constructor; unfold nslots in *; cbn [with_slots slots herr live tombs]; rewrite ?Len2.
      * exact N.
      * exact Err.
      * exact LW2.
      * unfold nlive. lia.
      * unfold ntomb. lia.
    + apply load_ok_with_slots; [exact Len2| |exact L]. lia.
    + reflexivity.
    + reflexivity.
    + unfold nslots. cbn [with_slots slots]. exact Len2.
    + intros q Pq NLq. cbn [with_slots slots]. rewrite Pq in RC.
      assert (Dq : i <> q) by (intros Q; subst q; rewrite Gi in NLq; discriminate NLq).
      split.
      * rewrite (Reclaimed_pinned _ _ _ _ _ _ q RC (is_pin_self q)).
        apply getc_setc_other. exact Dq.
      * intros h Rq. apply (Reclaimed_reach_pin _ _ _ _ _ _ h q RC (is_pin_self q)).
        apply reach_at_setc_nonempty; [discriminate|exact Rq].
    + right. split; [reflexivity|]. exists cur. split; [exists i; exact Gi|]. split; [exact M|].
      intros k. unfold amap. cbn [with_slots slots].
      rewrite (amapl_ext (setc (slots t) i Tomb) l2 k (lwf_uniq _ _ LW1) (lwf_uniq _ _ LW2)).
      * rewrite (amapl_set_nonlive (slots t) i Tomb U eq_refl Hi k). rewrite Gi. reflexivity.
      * intros x _. symmetry. apply (Reclaimed_resident _ _ _ _ _ _ x RC).
  - apply find_exact_miss in F. destruct F as (d & Hd & Wk & GE' & NM).
    injection E as E1 E2. subst t' ok.
    split; [exact C|]. split; [exact L|]. repeat split; try reflexivity; try (intros h Rq; exact Rq).
    left. repeat split. intros cur [p Hp].
    destruct (ex_test cur it) eqn:M; [|reflexivity]. exfalso.
    destruct (R p cur Hp) as (d' & Hd' & Ep & W').
    pose proof (ex_test_true _ _ M) as [HN _].
    rewrite (home_in_norm _ _ _ HN) in Ep, W'. rewrite <- Ep in Hp.
    apply (scan_excl (fun y => ex_test y it) _ _ _ d d' cur W' Hp GE' NM M).
  - exfalso. apply find_exact_fuel in F.
    apply (walkne_full_absurd _ _ _ e Hh He GE F).
Qed.

Lemma absent_iff_amapl l k : uniq l -> ((forall x, resident l x -> ikey x <> k) <-> amapl l k = None).
Proof.
  intros U. split.
  - apply amapl_absent.
  - intros A x Rx K. subst k. rewrite (amapl_present l x U Rx) in A. discriminate A.
Qed.

(* pointer identity of the argument: a resident item with the argument's iid has the argument's key *)
Definition iid_ok (t : htable) (it : item) : Prop :=
  forall cur, resident (slots t) cur -> iid cur = iid it -> ikey cur = ikey it.

Lemma remove_result_spec t it t' ok :
  WFcore t -> consistent it -> iid_ok t it ->
  ((ok = false /\ t' = t /\ (forall cur, resident (slots t) cur -> ex_test cur it = false)) \/
   (ok = true /\ exists cur, resident (slots t) cur /\ ex_test cur it = true /\
      (forall k, amap t' k = if (k =? ikey cur)%Z then None else amap t k))) ->
  (ok = true <-> exists cur, amap t (ikey it) = Some cur /\ iid cur = iid it) /\
  (forall k, amap t' k = if (ok && (k =? ikey it)%Z)%bool then None else amap t k).
Proof.
  intros C Cit Hid D. pose proof (lwf_uniq _ _ (wc_l _ C)) as U.
  destruct D as [(Ok & Et & NM)|(Ok & cur & Rc & M & A)]; subst ok.
  - subst t'. split; [|intros k; reflexivity]. split; [discriminate|].
    intros (cur & Ac & Ic). exfalso. apply amapl_some in Ac. destruct Ac as [Rc Kc].
    pose proof (NM cur Rc) as F. apply ex_test_false in F. apply F.
    destruct Rc as [p Hp]. pose proof (lwf_cons _ _ (wc_l _ C) p cur Hp) as Cc.
    unfold consistent in Cc, Cit. rewrite Cc, Cit, Kc. split; [reflexivity|exact Ic].
  - apply ex_test_true in M. destruct M as [_ Ic]. pose proof (Hid cur Rc Ic) as Kc.
    split.
    + split; [|reflexivity]. intros _. exists cur. split; [|exact Ic].
      rewrite <- Kc. apply amapl_present; assumption.
    + intros k. rewrite A, Kc. reflexivity.
Qed.

Theorem remove_exact_gen t it :
  WF t ->
  let (t', ok) := remove_exact t it in
  WF t' /\
  ((ok = false /\ t' = t /\
    (forall cur, resident (slots t) cur -> ~ (norm (ihash cur) = norm (ihash it) /\ iid cur = iid it))) \/
   (ok = true /\ exists cur, resident (slots t) cur /\
      norm (ihash cur) = norm (ihash it) /\ iid cur = iid it /\
      (forall k, amap t' k = if (k =? ikey cur)%Z then None else amap t k))).
Proof.
  intros [C P L]. destruct (remove_exact t it) as [t' ok] eqn:E.
  destruct (remove_exact_core t it t' ok C L E) as (C' & L' & P' & _ & _ & _ & D).
  split; [constructor; [exact C'|rewrite P'; exact P|exact L']|].
  destruct D as [(Ok & Et & NM)|(Ok & cur & Rc & M & A)].
  - left. repeat split; [exact Ok|exact Et|]. intros cur Rc. apply ex_test_false. apply NM. exact Rc.
  - right. split; [exact Ok|]. exists cur. apply ex_test_true in M. destruct M as [M1 M2].
    repeat split; assumption.
Qed.

Theorem remove_exact_spec t it :
  WF t -> consistent it -> iid_ok t it ->
  let (t', ok) := remove_exact t it in
  WF t' /\
  (ok = true <-> exists cur, amap t (ikey it) = Some cur /\ iid cur = iid it) /\
  (forall k, amap t' k = if (ok && (k =? ikey it)%Z)%bool then None else amap t k).
Proof.
  intros [C P L] Cit Hid. destruct (remove_exact t it) as [t' ok] eqn:E.
  destruct (remove_exact_core t it t' ok C L E) as (C' & L' & P' & _ & _ & _ & D).
  split; [constructor; [exact C'|rewrite P'; exact P|exact L']|].
  apply (remove_result_spec t it t' ok C Cit Hid D).
Qed.

(* with a parked cursor: the pinned barrier of reclaim_tombs keeps the cursor slot and its path *)
Theorem remove_exact_pin t kc q it :
  WFpin t kc q -> consistent it -> iid_ok t it ->
  let (t', ok) := remove_exact t it in
  WFpin t' kc q /\ getc (slots t') q = getc (slots t) q /\ gen t' = gen t /\
  (ok = true <-> exists cur, amap t (ikey it) = Some cur /\ iid cur = iid it) /\
  (forall k, amap t' k = if (ok && (k =? ikey it)%Z)%bool then None else amap t k).
Proof.
  intros [C P L Abs Hq Cell Path] Cit Hid. destruct (remove_exact t it) as [t' ok] eqn:E.
  destruct (remove_exact_core t it t' ok C L E) as (C' & L' & P' & G' & N' & Pin & D).
  destruct (Pin q P Cell) as [Gq Rq].
  destruct (remove_result_spec t it t' ok C Cit Hid D) as [Iff A].
  split; [|split; [exact Gq|split; [exact G'|split; [exact Iff|exact A]]]].
  constructor.
  - exact C'.
  - rewrite P'. exact P.
  - exact L'.
  - apply (absent_iff_amapl _ _ (lwf_uniq _ _ (wc_l _ C'))). fold (amap t' kc). rewrite A.
    destruct (ok && (kc =? ikey it)%Z)%bool; [reflexivity|].
    apply (absent_iff_amapl _ _ (lwf_uniq _ _ (wc_l _ C))). exact Abs.
  - rewrite N'. exact Hq.
  - rewrite Gq. exact Cell.
  - rewrite N'. apply Rq. exact Path.
Qed.

(* ------------------------------------------------------------------ *)
(** * clear / new_table                                                  *)
(* ------------------------------------------------------------------ *)

Lemma WF_empty n g e :
  8 <= n -> e = false ->
  WF {| slots := repeat Empty n; live := 0; tombs := 0; pinned := None; gen := g; herr := e |}.
Proof.
  intros N E. destruct (RInv_init n) as [LW NT NL _].
  constructor; [constructor| |]; unfold load_ok, nslots; cbn [slots live tombs herr pinned];
    rewrite ?repeat_length.
  - exact N.
  - exact E.
  - exact LW.
  - rewrite NL. reflexivity.
  - rewrite NT. reflexivity.
  - reflexivity.
  - unfold htLoadDen, htLoadNum. lia.
Qed.

Lemma amapl_repeat_empty n k : amapl (repeat Empty n) k = None.
Proof. apply amapl_absent. intros x [p Hp]. rewrite getc_repeat in Hp. discriminate Hp. Qed.

Lemma clear_core t :
  WFcore t -> WF (clear t) /\ (forall k, amap (clear t) k = None) /\ gen (clear t) = (gen t + 1)%Z.
Proof.
  intros C. unfold clear. split; [|split].
  - apply WF_empty; [apply (wc_n _ C)|apply (wc_err _ C)].
  - intros k. unfold amap. cbn [slots]. apply amapl_repeat_empty.
  - reflexivity.
Qed.

Theorem clear_spec t : WF t -> WF (clear t) /\ (forall k, amap (clear t) k = None).
Proof. intros [C _ _]. destruct (clear_core t C) as (W & A & _). split; assumption. Qed.

(* clearing while a cursor is parked: the table is well-formed again, the cursor is stale *)
Theorem clear_spec_pin t kc q :
  WFpin t kc q ->
  WF (clear t) /\ (forall k, amap (clear t) k = None) /\ gen (clear t) <> gen t.
Proof.
  intros W. destruct (clear_core t (wp_core _ _ _ W)) as (W' & A & G).
  split; [exact W'|]. split; [exact A|]. rewrite G. lia.
Qed.

Theorem new_table_WF c : WF (new_table c) /\ (forall k, amap (new_table c) k = None).
Proof.
  unfold new_table. split.
  - apply WF_empty; [|reflexivity]. unfold htMinSlots. lia.
  - intros k. unfold amap. cbn [slots]. apply amapl_repeat_empty.
Qed.

(* ------------------------------------------------------------------ *)
(** * probe / publish / unpin / swap_at                                  *)
(* ------------------------------------------------------------------ *)

Lemma WFcore_repin t pin :
  WFcore t -> WFcore (with_slots t (slots t) (live t) (tombs t) pin).
Proof.
  intros [N Err LW Lv Tb].
  constructor; unfold nslots in *; cbn [with_slots slots herr live tombs]; assumption.
Qed.

Lemma load_ok_repin t pin : load_ok t -> load_ok (with_slots t (slots t) (live t) (tombs t) pin).
Proof. intros L. apply load_ok_with_slots; [reflexivity|lia|exact L]. Qed.

Lemma repin_none_id t : pinned t = None -> with_slots t (slots t) (live t) (tombs t) None = t.
Proof. destruct t as [sl lv tb pn g e]. cbn [pinned]. intros P. subst pn. reflexivity. Qed.

Theorem probe_spec t k :
  WF t ->
  match probe t (hashf k) k with
  | (t', Some (s, it), cur) =>
      t' = t /\ amap t k = Some it /\ getc (slots t) s = Live it
  | (t', None, cur) =>
      WFpin t' k (cslot cur) /\ cgen cur = gen t' /\ gen t' = gen t /\
      ctomb cur = is_tomb (getc (slots t') (cslot cur)) /\
      (forall k', amap t' k' = amap t k')
  end.
Proof.
  intros [C P L]. unfold probe.
  destruct (walk t (hashf k) k) as [j tomb|s cur|] eqn:W.
  - destruct (walk_empty_facts t k j tomb C W) as (Abs & Hj & Rj & Gj).
    cbn [cslot cgen ctomb]. split; [|split; [reflexivity|split; [reflexivity|split]]].
    + constructor.
      * apply WFcore_repin. exact C.
      * reflexivity.
      * apply load_ok_repin. exact L.
      * exact Abs.
      * exact Hj.
      * cbn [with_slots slots]. rewrite Gj. destruct tomb; reflexivity.
      * exact Rj.
    + cbn [with_slots slots]. rewrite Gj. destruct tomb; reflexivity.
    + intros k'. reflexivity.
  - destruct (walk_found_facts t _ _ s cur W) as (G & _ & K).
    split; [reflexivity|]. split; [|exact G].
    rewrite <- K. apply amapl_present; [apply (lwf_uniq _ _ (wc_l _ C))|]. exists s. exact G.
  - exfalso. apply (walk_fuel_absurd t _ _ C L W).
Qed.

Theorem unpin_spec t kc q : WFpin t kc q -> WF (unpin t) /\ (forall k, amap (unpin t) k = amap t k).
Proof.
  intros W. unfold unpin. split; [|intros k; reflexivity].
  constructor; [apply WFcore_repin; apply (wp_core _ _ _ W)|reflexivity|
                apply load_ok_repin; apply (wp_load _ _ _ W)].
Qed.

Theorem unpin_WF t : WF t -> unpin t = t.
Proof. intros W. unfold unpin. apply repin_none_id. apply (wf_pin _ W). Qed.

Theorem swap_at_spec t s old it :
  WF t -> getc (slots t) s = Live old -> ikey it = ikey old -> consistent it ->
  WF (swap_at t s it) /\
  (forall k, amap (swap_at t s it) k = if (k =? ikey it)%Z then Some it else amap t k).
Proof.
  intros [C P L] G K Cit. unfold swap_at.
  destruct (replace_core t s old it (pinned t) C G K Cit) as [C1 A1].
  split; [|exact A1].
  constructor; [exact C1|exact P|]. apply load_ok_with_slots; [apply length_setc|lia|exact L].
Qed.

(* publishing through a valid cursor.  The hypothesis on [ctomb] is what [probe_spec] establishes and
   [remove_exact_pin] preserves (the cursor cell does not change); without it the theorem is false,
   see [publish_spec_refuted] below. *)
Theorem publish_spec t kc cur it :
  WFpin t kc (cslot cur) -> cgen cur = gen t ->
  (getc (slots t) (cslot cur) = Tomb -> ctomb cur = true) ->
  consistent it -> ikey it = kc ->
  WF (publish t it cur) /\
  (forall k, amap (publish t it cur) k = if (k =? kc)%Z then Some it else amap t k).
Proof.
  intros [C P L Abs Hq Cell Path] Hg Ht Cit K. subst kc.
  unfold publish. rewrite Hg, Z.eqb_refl. cbn [negb].
  assert (Rq : reach_at (slots t) (nslots t) (ihash it) (cslot cur)).
  { unfold consistent in Cit. rewrite Cit. exact Path. }
  set (wasTomb := (ctomb cur && match getc (slots t) (cslot cur) with Tomb => true | _ => false end)%bool).
  assert (Ew : (if wasTomb then tombs t - 1 else tombs t)%Z
               = (tombs t - (if is_tomb (getc (slots t) (cslot cur)) then 1 else 0))%Z).
  { subst wasTomb. destruct (getc (slots t) (cslot cur)) as [| |x] eqn:G; cbn [is_tomb].
    - rewrite andb_false_r. lia.
    - rewrite (Ht eq_refl). cbn [andb]. reflexivity.
    - rewrite andb_false_r. lia. }
  destruct (insert_core t (cslot cur) it (if wasTomb then tombs t - 1 else tombs t)%Z None
              C Cit Abs Hq Cell Rq Ew) as [C1 A1].
  destruct (maybe_grow_spec _ C1) as [W2 A2]; [reflexivity|].
  split; [exact W2|]. intros k. rewrite A2. apply A1.
Qed.

(* a stale cursor (the array was cleared or rebuilt since the probe) degrades to a plain store *)
Theorem publish_stale t it cur :
  WF t -> cgen cur <> gen t -> publish t it cur = fst (store t it).
Proof.
  intros W Hg. unfold publish. apply Z.eqb_neq in Hg. rewrite Hg. cbn [negb].
  rewrite (repin_none_id t (wf_pin _ W)). reflexivity.
Qed.

Corollary publish_stale_spec t it cur :
  WF t -> cgen cur <> gen t -> consistent it ->
  WF (publish t it cur) /\
  (forall k, amap (publish t it cur) k = if (k =? ikey it)%Z then Some it else amap t k).
Proof.
  intros W Hg Cit. rewrite (publish_stale t it cur W Hg).
  pose proof (store_spec t it W Cit) as S. destruct (store t it) as [t' prev].
  destruct S as (W' & _ & A). split; assumption.
Qed.

(* a stale cursor presented while a (newer) pin is still recorded: publish drops the pin and stores *)
Corollary publish_stale_pin t kc q it cur :
  WFpin t kc q -> cgen cur <> gen t -> consistent it ->
  WF (publish t it cur) /\
  (forall k, amap (publish t it cur) k = if (k =? ikey it)%Z then Some it else amap t k).
Proof.
  intros W Hg Cit. destruct (unpin_spec t kc q W) as [W0 A0]. unfold unpin in W0, A0.
  unfold publish. apply Z.eqb_neq in Hg. rewrite Hg. cbn [negb].
  pose proof (store_spec _ it W0 Cit) as S.
  destruct (store (with_slots t (slots t) (live t) (tombs t) None) it) as [t' prev].
  destruct S as (W' & _ & A). cbn [fst]. split; [exact W'|].
  intros k. rewrite A, A0. reflexivity.
Qed.

(* iid_ok from the "iids are pointer identities" reading: resident iids pairwise distinct and the
   argument itself resident (the situation of op 7 of the ht stream: remove what lookup returned) *)
Lemma iid_ok_resident t it :
  (forall a b, resident (slots t) a -> resident (slots t) b -> iid a = iid b -> a = b) ->
  resident (slots t) it -> iid_ok t it.
Proof. intros D R cur Rc I. rewrite (D cur it Rc R I). reflexivity. Qed.

(* projection forms, convenient on concrete tables *)
Corollary remove_exact_WF t it : WF t -> WF (fst (remove_exact t it)).
Proof.
  intros W. pose proof (remove_exact_gen t it W) as S.
  destruct (remove_exact t it) as [t' ok]. apply S.
Qed.

(* ------------------------------------------------------------------ *)
(** * End-to-end corollaries                                             *)
(* ------------------------------------------------------------------ *)

Corollary counts_match_WF t : WF t -> live t = Z.of_nat (length (contents t)).
Proof. intros W. apply counts_match. apply (wf_core _ W). Qed.

Corollary lookup_store t it k :
  WF t -> consistent it ->
  lookup (fst (store t it)) (hashf k) k = if (k =? ikey it)%Z then Some it else lookup t (hashf k) k.
Proof.
  intros W Cit. pose proof (store_spec t it W Cit) as S.
  destruct (store t it) as [t' prev]. destruct S as (W' & _ & A). cbn [fst].
  rewrite (lookup_spec t' k W'), (lookup_spec t k W). apply A.
Qed.

Corollary store_prev_lookup t it :
  WF t -> consistent it -> snd (store t it) = lookup t (hashf (ikey it)) (ikey it).
Proof.
  intros W Cit. pose proof (store_spec t it W Cit) as S.
  destruct (store t it) as [t' prev]. destruct S as (_ & P & _). cbn [snd].
  rewrite (lookup_spec t _ W). exact P.
Qed.

(* removing the very item that lookup returned (op 7 of the ht stream) *)
Corollary remove_exact_resident t it :
  WF t -> resident (slots t) it ->
  (forall a b, resident (slots t) a -> resident (slots t) b -> iid a = iid b -> a = b) ->
  snd (remove_exact t it) = true /\ WF (fst (remove_exact t it)) /\
  (forall k, lookup (fst (remove_exact t it)) (hashf k) k
             = if (k =? ikey it)%Z then None else lookup t (hashf k) k).
Proof.
  intros W R D. pose proof (wf_core _ W) as C.
  assert (Cit : consistent it) by (destruct R as [p Hp]; apply (lwf_cons _ _ (wc_l _ C) p it Hp)).
  pose proof (remove_exact_spec t it W Cit (iid_ok_resident t it D R)) as S.
  destruct (remove_exact t it) as [t' ok]. destruct S as (W' & Iff & A). cbn [fst snd].
  assert (Ok : ok = true).
  { apply Iff. exists it. split; [|reflexivity].
    apply amapl_present; [apply (lwf_uniq _ _ (wc_l _ C))|exact R]. }
  subst ok. split; [reflexivity|]. split; [exact W'|].
  intros k. rewrite (lookup_spec t' k W'), (lookup_spec t k W), A. reflexivity.
Qed.

Corollary lookup_clear t k : WF t -> lookup (clear t) (hashf k) k = None.
Proof.
  intros W. destruct (clear_spec t W) as [W' A]. rewrite (lookup_spec _ k W'). apply A.
Qed.

(* names used in the task's hints *)
Definition reclaim_safe := LWF_set_empty.

(*MARK-SECTION*)
End Spec.

(* ------------------------------------------------------------------ *)
(** * Non-vacuity: concrete tables                                       *)
(* ------------------------------------------------------------------ *)

Module Examples.

(* every key hashes to 5: all items collide, home slot 5 in a table of 8 *)
Definition hf (k : Z) : Z := 5%Z.
Definition mkit (k v id : Z) : item := {| ikey := k; ihash := hf k; ival := v; iid := id |}.

Definition t0 := new_table 0.
Definition t1 := fst (store t0 (mkit 1 10 100)).
Definition t2 := fst (store t1 (mkit 2 20 101)).
Definition t3 := fst (store t2 (mkit 3 30 102)).
Definition t4 := fst (store t3 (mkit 4 40 103)).          (* wraps around to slot 0 *)
Definition t5 := fst (remove_exact t4 (mkit 2 20 101)).   (* leaves a tombstone in slot 6 *)

Lemma cons_mkit k v id : consistent hf (mkit k v id).
Proof. reflexivity. Qed.

Example t4_WF : WF hf t4.
Proof.
  unfold t4, t3, t2, t1, t0.
  repeat (apply store_WF; [|apply cons_mkit]). apply new_table_WF.
Qed.

Example t4_shape :
  slots t4 = [Live (mkit 4 40 103); Empty; Empty; Empty; Empty;
              Live (mkit 1 10 100); Live (mkit 2 20 101); Live (mkit 3 30 102)]
  /\ live t4 = 4%Z /\ tombs t4 = 0%Z /\ herr t4 = false.
Proof. vm_compute. repeat split. Qed.

Example t5_WF : WF hf t5.
Proof. unfold t5. apply remove_exact_WF. apply t4_WF. Qed.

Example t5_shape :
  slots t5 = [Live (mkit 4 40 103); Empty; Empty; Empty; Empty;
              Live (mkit 1 10 100); Tomb; Live (mkit 3 30 102)]
  /\ live t5 = 3%Z /\ tombs t5 = 1%Z /\ herr t5 = false.
Proof. vm_compute. repeat split. Qed.

Example t5_lookup :
  lookup t5 (hf 4) 4 = Some (mkit 4 40 103) /\ lookup t5 (hf 2) 2 = None /\
  amap t5 4 = Some (mkit 4 40 103) /\ amap t5 2 = None.
Proof. vm_compute. repeat split. Qed.

(* probe for the absent key 5: the cursor parks on the tombstone in slot 6 *)
Definition p6 := probe t5 (hf 5) 5.
Definition t6 := fst (fst p6).
Definition cur6 := snd p6.

Example t6_WFpin : WFpin hf t6 5 6 /\ cur6 = {| cgen := 0; cslot := 6; ctomb := true |}.
Proof.
  pose proof (probe_spec hf t5 5 t5_WF) as S. fold p6 in S.
  unfold t6, cur6.
  destruct p6 as [[t' found] cur] eqn:E. vm_compute in E.
  injection E as E1 E2 E3. subst t' found cur.
  cbn [fst snd]. destruct S as (W & _). cbn [cslot] in W. split; [exact W|reflexivity].
Qed.

(* removing key 4 (slot 0) and then key 3 (slot 7) while the cursor is parked: reclaim turns slots 0 and 7
   back to Empty but stops at the pinned tombstone in slot 6 *)
Definition t7 := fst (remove_exact (fst (remove_exact t6 (mkit 4 40 103))) (mkit 3 30 102)).

Lemma iid_ok_any t k v id :
  (forall cur, resident (slots t) cur -> iid cur = id -> ikey cur = k) -> iid_ok t (mkit k v id).
Proof. intros H cur R I. apply (H cur R I). Qed.

Lemma resident_dec_list l x : resident l x -> In (Live x) l.
Proof. intros [p Hp]. unfold getc in Hp. rewrite <- Hp. apply nth_In. apply (getc_live_lt l p x Hp). Qed.

Example t7_WFpin : WFpin hf t7 5 6.
Proof.
  unfold t7.
  pose proof (remove_exact_pin hf t6 5 6 (mkit 4 40 103) (proj1 t6_WFpin) (cons_mkit _ _ _)) as S1.
  destruct (remove_exact t6 (mkit 4 40 103)) as [ta oka] eqn:Ea.
  assert (I1 : iid_ok t6 (mkit 4 40 103)).
  { intros cur R I. apply resident_dec_list in R. vm_compute in R.
    repeat (destruct R as [R|R]; [try discriminate R; injection R as R; subst cur; try reflexivity;
                                   vm_compute in I; discriminate I|]). destruct R. }
  destruct (S1 I1) as (Wa & _).
  pose proof (remove_exact_pin hf ta 5 6 (mkit 3 30 102) Wa (cons_mkit _ _ _)) as S2.
  assert (I2 : iid_ok ta (mkit 3 30 102)).
  { vm_compute in Ea. injection Ea as Ea _. subst ta.
    intros cur R I. apply resident_dec_list in R. vm_compute in R.
    repeat (destruct R as [R|R]; [try discriminate R; injection R as R; subst cur; try reflexivity;
                                   vm_compute in I; discriminate I|]). destruct R. }
  cbn [fst]. destruct (remove_exact ta (mkit 3 30 102)) as [tb okb]. cbn [fst].
  apply (S2 I2).
Qed.

Example t7_shape :
  slots t7 = [Empty; Empty; Empty; Empty; Empty; Live (mkit 1 10 100); Tomb; Empty]
  /\ live t7 = 1%Z /\ tombs t7 = 1%Z /\ pinned t7 = Some 6 /\ herr t7 = false.
Proof. vm_compute. repeat split. Qed.

(* publishing key 5 through the cursor *)
Definition t8 := publish t7 (mkit 5 50 104) cur6.

Example t8_WF : WF hf t8 /\ amap t8 5 = Some (mkit 5 50 104) /\ amap t8 1 = Some (mkit 1 10 100).
Proof.
  destruct (publish_spec hf t7 5 cur6 (mkit 5 50 104)) as [W A].
  - rewrite (proj2 t6_WFpin). cbn [cslot]. exact t7_WFpin.
  - vm_compute. reflexivity.
  - intros _. rewrite (proj2 t6_WFpin). reflexivity.
  - apply cons_mkit.
  - reflexivity.
  - split; [exact W|]. split; vm_compute; reflexivity.
Qed.

Example t8_shape :
  slots t8 = [Empty; Empty; Empty; Empty; Empty; Live (mkit 1 10 100); Live (mkit 5 50 104); Empty]
  /\ live t8 = 2%Z /\ tombs t8 = 0%Z /\ pinned t8 = None.
Proof. vm_compute. repeat split. Qed.

(* growth: the 6th insertion into 8 slots reaches the load bound and doubles the array *)
Definition g5 := fst (store (fst (store t4 (mkit 6 60 105))) (mkit 7 70 106)).

Example g5_WF : WF hf g5 /\ nslots g5 = 16 /\ live g5 = 6%Z /\ gen g5 = 1%Z.
Proof.
  split.
  - unfold g5. do 2 (apply store_WF; [|apply cons_mkit]). apply t4_WF.
  - vm_compute. repeat split.
Qed.

(* ---------------- refuted variants ---------------- *)

(* remove_exact_spec WITHOUT the iid_ok hypothesis is false: a consistent argument with the iid (and
   hash) of a resident item of another key removes that other item *)
Example remove_exact_spec_refuted :
  exists t it, WF hf t /\ consistent hf it /\
    let (t', ok) := remove_exact t it in
    ~ (ok = true <-> exists cur, amap t (ikey it) = Some cur /\ iid cur = iid it) /\
    ~ (forall k, amap t' k = if (ok && (k =? ikey it)%Z)%bool then None else amap t k).
Proof.
  exists t1, (mkit 9 0 100). split; [|split; [apply cons_mkit|]].
  - unfold t1, t0. apply store_WF; [apply new_table_WF|apply cons_mkit].
  - destruct (remove_exact t1 (mkit 9 0 100)) as [t' ok] eqn:E. vm_compute in E.
    injection E as E1 E2. subst t' ok. split.
    + intros [H _]. destruct (H eq_refl) as (cur & A & _). vm_compute in A. discriminate A.
    + intros H. specialize (H 1%Z). vm_compute in H. discriminate H.
Qed.

(* publish_spec WITHOUT the ctomb hypothesis is false: a cursor that claims "slot was Empty" on a
   tombstone leaves the tombstone count stale *)
Example publish_spec_refuted :
  exists t kc cur it, WFpin hf t kc (cslot cur) /\ cgen cur = gen t /\ consistent hf it /\ ikey it = kc /\
    ~ WF hf (publish t it cur).
Proof.
  exists t7, 5%Z, {| cgen := 0; cslot := 6; ctomb := false |}, (mkit 5 50 104).
  split; [exact t7_WFpin|]. split; [vm_compute; reflexivity|]. split; [apply cons_mkit|].
  split; [reflexivity|].
  intros [[_ _ _ _ Tb] _ _]. vm_compute in Tb. discriminate Tb.
Qed.

End Examples.

Print Assumptions lookup_spec.
Print Assumptions store_spec.
Print Assumptions remove_exact_spec.
Print Assumptions remove_exact_pin.
Print Assumptions probe_spec.
Print Assumptions publish_spec.
Print Assumptions rehash_spec.
Print Assumptions Examples.publish_spec_refuted.

(*MARK-END*)
