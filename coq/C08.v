(* C08 — Close is idempotent, final and releases every background goroutine. Theorems over QueueLts (Close / worker / blocked producers), CacheProofs (closed cache behaviour), CallbackLts (timers vs Close). Only `exact` + Print Assumptions. *)
Require Import KV.Base KV.QueueLts KV.QueueLtsProofs KV.CacheModel KV.CacheProofs KV.CallbackLts KV.CallbackProofs KV.RegistryLts KV.RegistryProofs KV.NotifierLts KV.NotifierProofs KV.ShutdownApply.
Open Scope Z_scope.

(* at most one thread is ever inside Close (closeOnce) *)
Theorem c08_close_exclusive :
  forall (f : bool) (n B : Z) (scripts : list (list op)) (s : gstate) 
           (t1 t2 : nat) (th1 th2 : thread) (a1 a2 : Z),
         wf_scripts scripts ->
         QueueLtsProofs.reachable (init_scripts f n B scripts) s ->
         QueueLtsProofs.thr s t1 th1 ->
         QueueLtsProofs.thr s t2 th2 ->
         cur th1 = Some (OClose a1) -> cur th2 = Some (OClose a2) -> t1 = t2.
Proof. exact QueueLtsProofs.close_exclusive. Qed.

(* a second Close waits while the first holds the Once *)
Theorem c08_close_blocks_then_returns :
  forall (c : bool) (s : gstate) (tid : nat) (th : thread) (a : Z) (r : list op) (t : nat),
         QueueLtsProofs.thr s tid th ->
         QueueLts.pc th = P0 ->
         cur th = None ->
         QueueLts.script th = OClose a :: r ->
         onceDone s = false -> onceHeld s = Some t -> lstepc c s tid = None.
Proof. exact QueueLtsProofs.close_blocks. Qed.

(* after Close completed, Close returns at once and changes nothing *)
Theorem c08_close_idempotent :
  forall (c : bool) (s : gstate) (tid : nat) (th : thread) (a : Z) (r : list op),
         QueueLtsProofs.thr s tid th ->
         QueueLts.pc th = P0 ->
         cur th = None ->
         QueueLts.script th = OClose a :: r ->
         onceDone s = true ->
         lstepc c s tid =
         Some
           (set_threads s
              (QueueLts.upd (threads s) tid
                 (set_dbuf (set_pc (set_cur (set_cur (set_script th r) (Some (OClose a))) None) P0)
                    [])), [0; 0; 0]).
Proof. exact QueueLtsProofs.close_idempotent. Qed.

(* when Close has returned every write worker has exited *)
Theorem c08_close_waits_for_workers :
  forall (f : bool) (n B : Z) (scripts : list (list op)) (s : gstate),
         wf_scripts scripts ->
         QueueLtsProofs.reachable (init_scripts f n B scripts) s ->
         onceDone s = true -> workers_done s = true.
Proof. exact QueueLtsProofs.close_waits_for_workers. Qed.

(* producers blocked on a full queue are released: ErrCacheClosed unless their write was still accepted through a space token *)
Theorem c08_close_releases :
  forall (f : bool) (n B : Z) (scripts : list (list op)) (s : gstate) 
           (c : bool) (tid : nat) (th : thread),
         wf_scripts scripts ->
         QueueLtsProofs.reachable (init_scripts f n B scripts) s ->
         QueueLtsProofs.thr s tid th ->
         QueueLts.pc th = P108 ->
         QueueLts.closeCh s = true ->
         exists (s' : gstate) (o : list Z),
           lstepc c s tid = Some (s', o) /\
           (o = [101; 0; 0] /\ spaceTok s = true /\ c = false \/
            o = [0; 3; 0] \/ o = [339; 0; 0] /\ (exists a : Z, cur th = Some (OClose a))).
Proof. exact QueueLtsProofs.close_releases. Qed.

(* closed cache: Set/SetAsync/SetWithCallback refuse and change nothing, Get/GetWithTTL miss, Exists/Delete false, Keys empty, Clear/Cleanup/Close are the identity *)
Theorem c08_closed_cache :
  forall (c : cache) (k v ttl cst sh : Z),
         CacheModel.closed c = true ->
         fst (op_set c k v ttl cst sh) = c /\
         snd (op_set c k v ttl cst sh) <> 0 /\
         (0 <= cst ->
          (forall s : CacheModel.shard, get_shard c sh = Some s -> ~ 0 < costcap s < cst) ->
          get_shard c sh <> None ->
          snd (op_set c k v ttl cst sh) = 3 /\ snd (op_set_async c k v ttl cst sh) = 3) /\
         fst (op_set_async c k v ttl cst sh) = c /\
         snd (op_set_async c k v ttl cst sh) <> 0 /\
         op_get c k sh = (c, false, 0, 0) /\
         op_exists c k sh = (c, false) /\
         op_delete c k sh = (c, false) /\
         op_keys c = [] /\ op_clear c = c /\ op_cleanup c = c /\ op_close c = c.
Proof. exact CacheProofs.closed_cache. Qed.

(* Close leaves the cache closed and empty *)
Theorem c08_closed_after_close :
  forall c : cache, CacheModel.closed (op_close c) = true.
Proof. exact CacheProofs.closed_after_close. Qed.

(* functional level: Close twice = Close once *)
Theorem c08_op_close_idempotent :
  forall c : cache, op_close (op_close c) = op_close c.
Proof. exact CacheProofs.op_close_idempotent. Qed.

(* CacheInv (closed => every shard empty, nothing queued) after every history *)
Theorem c08_invariant :
  forall (shard_of : Z -> Z) (ops : list (cop * list Z)) (c : cache),
         CacheInv shard_of c ->
         Forall (fun p : cop * list Z => wf_op shard_of (nshards c) (fst p)) ops ->
         CacheInv shard_of (crun c ops) /\ Cfg c (crun c ops).
Proof. exact CacheProofs.crun_inv. Qed.

(* a callback timer whose select runs after Close returned never calls *)
Theorem c08_timers_after_close :
  forall (dflt : Z) (s : CallbackLts.state) (t : CallbackLts.tid) (tk : task) (g : tg),
         CallbackLts.reachable dflt s ->
         g_sac g = true ->
         (forall w : CallbackLts.tid, CallbackLts.thr s t <> TCall tk g w) /\
         (forall r : option CallbackLts.tid, CallbackLts.thr s t = TRUnlock tk g r -> r = None) /\
         (post_sel (CallbackLts.thr s t) = Some (tk, g) -> once s = ODone).
Proof. exact CallbackProofs.B3_select_after_close_no_call. Qed.

(* a timer goroutine taking the close branch exits without calling *)
Theorem c08_timer_close_branch :
  forall (s : CallbackLts.state) (t : CallbackLts.tid) (ch : nat) 
           (tk : task) (fire : Z) (s' : CallbackLts.state),
         CallbackLts.thr s t = TSelect tk fire ->
         ch <> 0%nat ->
         CallbackLts.step s (CallbackLts.LStep t ch) = Some s' ->
         CallbackLts.closeCh s = true /\ CallbackLts.thr s' t = TQuiet tk /\ events s' = events s.
Proof. exact CallbackProofs.B3_close_branch_never_calls. Qed.

(* after Close the table is empty (re-validation of late timers fails) *)
Theorem c08_closed_is_empty :
  forall (dflt : Z) (s : CallbackLts.state),
         CallbackLts.reachable dflt s ->
         once s = ODone ->
         (forall k : key, tab s k = None) /\
         CallbackLts.thr s 0 = WkExited /\
         closed s = true /\
         CallbackLts.closeCh s = true /\
         (forall t : CallbackLts.tid, precommit (CallbackLts.thr s t) = false).
Proof. exact CallbackProofs.B3_closed_cache_is_empty. Qed.

(* Remove returns only after closing the instance it forgot *)
Theorem c08_registry_closes :
  forall (s : RegistryLts.state) (l : RegistryLts.label) (s' : RegistryLts.state) 
           (t : tid) (n : name) (i : iid),
         RegistryLts.reachable s ->
         thr s t = RmClose n i \/ thr s t = RmCloseFin n i ->
         RegistryLts.step s l = Some s' -> thr s' t = Done (KRm n) RNil -> i_st (insts s' i) = Closed.
Proof. exact RegistryProofs.A6_remove_returns_closed. Qed.

(* the notifier's final drain on Close delivers every notification staged before it visited that shard exactly once, then the goroutine exits *)
Theorem c08_notifier_final_drain :
  forall (re : Z -> option (nat * Z)) (n : nat) (scripts : list (list (nat * Z))) 
           (s : state) (sh : nat) (x : Z),
         NotifierLts.reachable re n scripts s ->
         npos s = NExited ->
         quiescent s ->
         NoDup (map snd (staged s)) ->
         In (sh, x) (staged s) ->
         ~ In (sh, x) (late s) -> count_occ pair_dec (delivered s) (sh, x) = 1%nat.
Proof. exact NotifierProofs.close_final_drain_exactly_once. Qed.

(* after the notifier exited no listener is ever called again *)
Theorem c08_notifier_exited_frozen :
  forall (re : Z -> option (nat * Z)) (s : state) (l : NotifierLts.label) (s' : state),
         npos s = NExited ->
         NotifierLts.step re s l = Some s' -> npos s' = NExited /\ delivered s' = delivered s.
Proof. exact NotifierProofs.exited_frozen. Qed.

(* literal nuance: on a closed cache a Set with an invalid cost reports the validation error, not ErrCacheClosed (validation precedes the closed check) *)
Theorem c08_code_3_literal_refuted :
  let c := op_close (cache_init ex_stale_cfg) in
         CacheModel.closed c = true /\
         snd (op_set c 1 10 0 (-1) 0) = 1 /\ snd (op_set c 1 10 0 1 0) = 3.
Proof. exact CacheProofs.closed_set_code_3_refuted. Qed.

(* F15 repaired: whatever calls that began before Close do afterwards (any number of late drainers, every interleaving), once Close has returned the shard is empty and stays empty *)
Theorem c08_closed_cache_stays_empty :
  forall (n0 k : nat) (s : st), reachable true n0 k s -> pcc s = CDone -> size s = 0%nat.
Proof. exact closed_cache_stays_empty. Qed.

(* F15 before the repair: Close runs to completion, a late drainer then applies a command published during shutdown: the closed cache holds an entry *)
Theorem c08_closed_cache_refuted_before_fix :
  exists s : st,
           exec false (init 1 1) [LC; LC; LC; LC; LD 0; LD 0; LD 0] = Some s /\
           pcc s = CDone /\ pcd s = [DDone] /\ size s = 1%nat.
Proof. exact closed_cache_refuted_before_fix. Qed.

Print Assumptions c08_close_exclusive.
Print Assumptions c08_close_blocks_then_returns.
Print Assumptions c08_close_idempotent.
Print Assumptions c08_close_waits_for_workers.
Print Assumptions c08_close_releases.
Print Assumptions c08_closed_cache.
Print Assumptions c08_closed_after_close.
Print Assumptions c08_op_close_idempotent.
Print Assumptions c08_invariant.
Print Assumptions c08_timers_after_close.
Print Assumptions c08_timer_close_branch.
Print Assumptions c08_closed_is_empty.
Print Assumptions c08_registry_closes.
Print Assumptions c08_notifier_final_drain.
Print Assumptions c08_notifier_exited_frozen.
Print Assumptions c08_code_3_literal_refuted.
Print Assumptions c08_closed_cache_stays_empty.
Print Assumptions c08_closed_cache_refuted_before_fix.
