(* C13 — HTTP: responses that must not be cached are never stored or replayed. Statements over HttpModel (HttpProofs.v). `carries` is the RFC 9111 reading of a Cache-Control value (commas inside quoted strings do not separate). Only `exact` + Print Assumptions. *)
Require Import KV.Base KV.HttpModel KV.HttpProofs.
Open Scope Z_scope.

(* any spelling, position, spacing or argument form of a directive the value carries is detected (the code splits at every comma, which only errs towards not caching) *)
Theorem c13_directive_sound :
  forall (d : str) (ds : list str) (v : str),
         In d ds -> carries d v -> has_directive v ds = true.
Proof. exact carries_sound_list. Qed.

(* exact characterisation of what the code computes *)
Theorem c13_directive_exact :
  forall (v : str) (ds : list str),
         has_directive v ds = true <->
         v <> [] /\
         (exists p d : str,
            In p (split_comma v) /\
            In d ds /\ equal_fold (trim_space (upto 61 (trim_space p))) d = true).
Proof. exact has_directive_iff. Qed.

(* a forbidding directive on ANY field line of ANY spelling of the Cache-Control key makes the default policy refuse *)
Theorem c13_any_field_line :
  forall (p : pconf) (method status bodylen : Z) (h : list (str * list str)) 
           (exp : option Z) (k : str) (vs : list str) (v d : str),
         In (k, vs) h ->
         equal_fold k s_cache_control = true ->
         In v vs ->
         In d forbidden ->
         carries d v -> default_policy p method status bodylen h exp = (false, 0, 0).
Proof. exact policy_carries_any_line. Qed.

(* not a cacheable method: not stored *)
Theorem c13_gate_method :
  forall (p : pconf) (method status bodylen : Z) (h : header) (exp : option Z),
         memZ (p_methods p) method = false ->
         default_policy p method status bodylen h exp = (false, 0, 0).
Proof. exact policy_method_gate. Qed.

(* status not configured: not stored *)
Theorem c13_gate_status :
  forall (p : pconf) (method status bodylen : Z) (h : header) (exp : option Z),
         memZ (p_status p) status = false ->
         default_policy p method status bodylen h exp = (false, 0, 0).
Proof. exact policy_status_gate. Qed.

(* body over the limit: not stored *)
Theorem c13_gate_body :
  forall (p : pconf) (method status bodylen : Z) (h : header) (exp : option Z),
         p_limit p = true ->
         p_maxbody p < bodylen -> default_policy p method status bodylen h exp = (false, 0, 0).
Proof. exact policy_body_gate. Qed.

(* no-store / no-cache / private: not stored *)
Theorem c13_gate_directive :
  forall (p : pconf) (method status bodylen : Z) (h : header) (exp : option Z),
         has_directive (header_field_values h s_cache_control) forbidden = true ->
         default_policy p method status bodylen h exp = (false, 0, 0).
Proof. exact policy_directive_gate. Qed.

(* stored exactly when every gate passes *)
Theorem c13_stored_iff :
  forall (p : pconf) (method status bodylen : Z) (h : header) (exp : option Z),
         fst (fst (default_policy p method status bodylen h exp)) = true <->
         gates_pass p method status bodylen h.
Proof. exact policy_stored_iff. Qed.

(* positive max-age wins *)
Theorem c13_lifetime_max_age :
  forall (p : pconf) (method status bodylen : Z) (h : header) (exp : option Z),
         gates_pass p method status bodylen h ->
         0 < extract_max_age (header_field_values h s_cache_control) ->
         default_policy p method status bodylen h exp =
         (true, 1, extract_max_age (header_field_values h s_cache_control)).
Proof. exact policy_max_age. Qed.

(* otherwise a future Expires *)
Theorem c13_lifetime_expires :
  forall (p : pconf) (method status bodylen : Z) (h : header) (ttl : Z),
         gates_pass p method status bodylen h ->
         extract_max_age (header_field_values h s_cache_control) <= 0 ->
         0 < ttl -> default_policy p method status bodylen h (Some ttl) = (true, 2, ttl).
Proof. exact policy_expires. Qed.

(* otherwise the default TTL *)
Theorem c13_lifetime_default :
  forall (p : pconf) (method status bodylen : Z) (h : header) (exp : option Z),
         gates_pass p method status bodylen h ->
         extract_max_age (header_field_values h s_cache_control) <= 0 ->
         exp = None \/ (exists ttl : Z, exp = Some ttl /\ ttl <= 0) ->
         default_policy p method status bodylen h exp = (true, 3, p_defttl p).
Proof. exact policy_default_ttl. Qed.

(* strconv.Atoi on digit strings, with the int64 range *)
Theorem c13_atoi :
  forall ds : list Z,
         ds <> [] -> digits ds -> atoi ds = (if dec ds <? two63 then Some (dec ds) else None).
Proof. exact atoi_digits. Qed.

(* anything else is rejected *)
Theorem c13_atoi_inverse :
  forall (s : str) (x : Z),
         atoi s = Some x ->
         exists ds : list Z,
           ds <> [] /\
           digits ds /\
           ((s = ds \/ s = 43 :: ds) /\ x = dec ds /\ 0 <= x < two63 \/
            s = 45 :: ds /\ x = - dec ds /\ - two63 <= x <= 0).
Proof. exact atoi_some_inv. Qed.

(* the first usable max-age yields exactly s seconds up to 9223372036 and the clamped maximum above: never a wrapped small or negative lifetime (finding F4, fixed) *)
Theorem c13_max_age_exact_or_clamped :
  forall (skip rest : list (list Z)) (ws0 name ws1 ws2 ds ws3 : list Z),
         let p := ws0 ++ name ++ ws1 ++ [61] ++ ws2 ++ ds ++ ws3 in
         Forall nocomma (skip ++ p :: rest) ->
         Forall skipped skip ->
         blanks ws0 ->
         blanks ws1 ->
         blanks ws2 ->
         blanks ws3 ->
         equal_fold name s_max_age = true ->
         ds <> [] ->
         digits ds ->
         let r := extract_max_age (join_comma (skip ++ p :: rest)) in
         (1 <= dec ds <= 9223372036 -> r = dec ds * 1000000000) /\
         (9223372036 < dec ds < two63 -> r = max_int64) /\
         (dec ds = 0 \/ two63 <= dec ds -> r = max_age_parts rest).
Proof. exact extract_max_age_spec. Qed.

(* never negative *)
Theorem c13_max_age_nonneg :
  forall cc : str, 0 <= extract_max_age cc.
Proof. exact extract_max_age_nonneg. Qed.

(* the capture is marked streamed exactly when the handler flushed, hijacked or committed 101 *)
Theorem c13_streamed_iff :
  forall (miss : str) (maxbody : Z) (limit : bool) (acts : list action),
         c_streamed (fst (run_handler miss maxbody limit acts)) = true <->
         In AFlush acts \/
         In AHijack acts \/
         (exists pre post : list action,
            acts = pre ++ AWriteHeader 101 :: post /\ existsb commits pre = false).
Proof. exact run_handler_streamed_iff. Qed.

(* too large iff the bytes written exceed the limit (a body landing exactly on the limit is cacheable); captured length = min(sum, limit) *)
Theorem c13_body_limit_exact :
  forall (miss : str) (maxbody : Z) (acts : list action),
         0 <= maxbody ->
         writes_nonneg acts ->
         streams_from false acts = false ->
         let c := fst (run_handler miss maxbody true acts) in
         (c_toolarge c = true <-> wsum acts > maxbody) /\ c_buflen c = Z.min (wsum acts) maxbody.
Proof. exact run_handler_limit. Qed.

(* flushed / hijacked / switched-protocol responses are never stored *)
Theorem c13_streamed_not_stored :
  forall (p : pconf) (ignore : list str) (miss : str) (method : Z) 
           (acts : list action) (exp : option Z),
         streams_from false acts = true -> fst (wrap_miss p ignore miss method acts exp) = None.
Proof. exact wrap_miss_streamed_none. Qed.

(* oversize bodies are never stored *)
Theorem c13_oversize_not_stored :
  forall (p : pconf) (ignore : list str) (miss : str) (method : Z) 
           (acts : list action) (exp : option Z),
         p_limit p = true ->
         0 <= p_maxbody p ->
         writes_nonneg acts ->
         wsum acts > p_maxbody p -> fst (wrap_miss p ignore miss method acts exp) = None.
Proof. exact wrap_miss_toolarge_none. Qed.

(* a non-cacheable method goes straight to the handler: nothing stored, no marker *)
Theorem c13_method_bypass :
  forall (p : pconf) (ignore : list str) (miss : str) (method : Z) 
           (acts : list action) (exp : option Z),
         memZ (p_methods p) method = false ->
         wrap_miss p ignore miss method acts exp = (None, run_raw acts).
Proof. exact wrap_miss_method_gate. Qed.

(* non-vacuity / direction of the approximation: a directive name inside a quoted argument is (conservatively) treated as present *)
Theorem c13_quoted_commas_conservative :
  let v := [97; 61; 34; 120; 44; 110; 111; 45; 115; 116; 111; 114; 101; 44; 121; 34] in
         ~ carries s_no_store v /\ has_directive v [s_no_store] = true.
Proof. exact conservative_inside_quotes. Qed.

Print Assumptions c13_directive_sound.
Print Assumptions c13_directive_exact.
Print Assumptions c13_any_field_line.
Print Assumptions c13_gate_method.
Print Assumptions c13_gate_status.
Print Assumptions c13_gate_body.
Print Assumptions c13_gate_directive.
Print Assumptions c13_stored_iff.
Print Assumptions c13_lifetime_max_age.
Print Assumptions c13_lifetime_expires.
Print Assumptions c13_lifetime_default.
Print Assumptions c13_atoi.
Print Assumptions c13_atoi_inverse.
Print Assumptions c13_max_age_exact_or_clamped.
Print Assumptions c13_max_age_nonneg.
Print Assumptions c13_streamed_iff.
Print Assumptions c13_body_limit_exact.
Print Assumptions c13_streamed_not_stored.
Print Assumptions c13_oversize_not_stored.
Print Assumptions c13_method_bypass.
Print Assumptions c13_quoted_commas_conservative.
