(* EstimatorProofs.v — theorems about the doorkeeper + count-min sketch model (C19). *)
Require Import KV.Base KV.Gen.Consts KV.Nibble KV.EstimatorModel.
Open Scope N_scope.
Ltac Zify.zify_post_hook ::= Z.div_mod_to_equations.

Definition W : N := 18446744073709551616.

Lemma nib_same w sh : EstimatorModel.nib w sh = Nibble.nib w sh.
Proof. reflexivity. Qed.

(* ---- word arrays ---- *)

Lemma setw_nat_length l i v : length (setw_nat l i v) = length l.
Proof. revert i; induction l as [|x r IH]; intros i; destruct i; cbn; auto. Qed.

Lemma setw_length l i v : length (setw l i v) = length l.
Proof. apply setw_nat_length. Qed.

Lemma nth_setw_nat_same l i v : (i < length l)%nat -> nth i (setw_nat l i v) 0 = v.
Proof.
  revert i; induction l as [|x r IH]; intros i Hi; cbn in Hi; [lia|].
  destruct i; cbn; [reflexivity|apply IH; lia].
Qed.

Lemma nth_setw_nat_other l i j v : i <> j -> nth j (setw_nat l i v) 0 = nth j l 0.
Proof.
  revert i j; induction l as [|x r IH]; intros i j Hne; [destruct i, j; reflexivity|].
  destruct i, j; cbn; try reflexivity; [lia|apply IH; lia].
Qed.

Lemma getw_setw_same l i v : i < N.of_nat (length l) -> getw (setw l i v) i = v.
Proof. intros H. unfold getw, setw. apply nth_setw_nat_same. lia. Qed.

Lemma getw_setw_other l i j v : i <> j -> getw (setw l i v) j = getw l j.
Proof. intros H. unfold getw, setw. apply nth_setw_nat_other. lia. Qed.

Definition words_ok (l : list N) : Prop := Forall (fun w => w < W) l.

Lemma words_ok_getw l i : words_ok l -> getw l i < W.
Proof.
  intros H. unfold getw. destruct (Nat.lt_ge_cases (N.to_nat i) (length l)) as [Hlt|Hge].
  - eapply Forall_forall in H; [exact H|]. apply nth_In. exact Hlt.
  - rewrite nth_overflow by lia. unfold W. lia.
Qed.

Lemma words_ok_setw_nat l i v : words_ok l -> v < W -> words_ok (setw_nat l i v).
Proof.
  intros H Hv. revert i; induction H as [|x r Hx Hr IH]; intros i; destruct i; cbn [setw_nat];
    try constructor; try assumption. apply IH.
Qed.

Lemma words_ok_setw l i v : words_ok l -> v < W -> words_ok (setw l i v).
Proof. apply words_ok_setw_nat. Qed.

(* ---- counter cells ---- *)

Definition cell (cs : list N) (i : N) : N := sk_counter cs i.

Lemma cell_le15 cs i : cell cs i <= 15.
Proof. unfold cell, sk_counter. rewrite nib_same. apply nib_le15. Qed.

Lemma shift_of_pos i : (i mod 16) * 4 = 4 * N.of_nat (N.to_nat (i mod 16)).
Proof. rewrite N2Nat.id. lia. Qed.

Lemma incr_spec cs i : words_ok cs -> i < 16 * N.of_nat (length cs) ->
  words_ok (sk_incr cs i) /\ length (sk_incr cs i) = length cs /\
  cell (sk_incr cs i) i = (if cell cs i <? 15 then cell cs i + 1 else cell cs i) /\
  (forall i', i' <> i -> cell (sk_incr cs i) i' = cell cs i').
Proof.
  intros Hok Hi. unfold sk_incr, cell, sk_counter. rewrite !nib_same.
  set (wi := i / 16). set (w := getw cs wi).
  assert (Hw : w < W) by (apply words_ok_getw; assumption).
  assert (Hwi : wi < N.of_nat (length cs)) by (subst wi; lia).
  rewrite shift_of_pos.
  set (j := N.to_nat (i mod 16)).
  assert (Hj : (j < 16)%nat) by (subst j; pose proof (N.mod_lt i 16 ltac:(lia)); lia).
  destruct (Nibble.nib w (4 * N.of_nat j) <? 15) eqn:E.
  - destruct (nib_bump w j Hw Hj ltac:(lia)) as [Hb [Hsame Hoth]].
    assert (Hw64 : w64 (w + N.shiftl 1 (4 * N.of_nat j)) = w + N.shiftl 1 (4 * N.of_nat j)).
    { unfold w64. apply N.mod_small. exact Hb. }
    rewrite Hw64. split; [apply words_ok_setw; assumption|]. split; [apply setw_length|]. split.
    + fold wi. rewrite getw_setw_same by assumption. exact Hsame.
    + intros i' Hne. destruct (N.eq_dec (i' / 16) wi) as [Heq|Hneq].
      * rewrite Heq, getw_setw_same by assumption. fold w.
        rewrite (shift_of_pos i'). apply Hoth.
        -- pose proof (N.mod_lt i' 16 ltac:(lia)). lia.
        -- subst j wi. intros Hc. apply Hne.
           pose proof (N.div_mod i 16 ltac:(lia)). pose proof (N.div_mod i' 16 ltac:(lia)). lia.
      * rewrite getw_setw_other by congruence. reflexivity.
  - split; [assumption|]. split; [reflexivity|]. split; [reflexivity|]. intros; reflexivity.
Qed.

Lemma fold_incr_spec idx : forall cs, words_ok cs ->
  (forall i, In i idx -> i < 16 * N.of_nat (length cs)) ->
  let cs' := fold_left sk_incr idx cs in
  words_ok cs' /\ length cs' = length cs /\
  (forall i', cell cs i' <= cell cs' i') /\
  (forall i, In i idx -> N.min (cell cs i + 1) 15 <= cell cs' i).
Proof.
  induction idx as [|i r IH]; intros cs Hok Hr; cbn [fold_left].
  - repeat split; try assumption; [intros; lia|intros i []].
  - destruct (incr_spec cs i Hok (Hr i (or_introl eq_refl))) as [Hok1 [Hl1 [Hs1 Ho1]]].
    destruct (IH (sk_incr cs i) Hok1) as [Hok2 [Hl2 [Hm2 Hb2]]].
    { intros x Hx. rewrite Hl1. apply Hr. right; exact Hx. }
    assert (Hmono1 : forall i', cell cs i' <= cell (sk_incr cs i) i').
    { intros i'. destruct (N.eq_dec i' i) as [->|Hne]; [rewrite Hs1; destruct (cell cs i <? 15); lia|rewrite Ho1 by assumption; lia]. }
    repeat split; try assumption; [congruence| |].
    + intros i'. specialize (Hmono1 i'). specialize (Hm2 i'). lia.
    + intros x [<-|Hx].
      * specialize (Hm2 i). rewrite Hs1 in Hm2. pose proof (cell_le15 cs i).
        destruct (cell cs i <? 15) eqn:E; lia.
      * specialize (Hb2 x Hx). specialize (Hmono1 x). lia.
Qed.

(* ---- min over the four rows ---- *)

Lemma min_counter_le cs idx i : In i idx -> min_counter cs idx <= cell cs i.
Proof.
  induction idx as [|a r IH]; intros Hin; [destruct Hin|].
  cbn [min_counter]. destruct r as [|b r'].
  - destruct Hin as [<-|[]]. unfold cell. lia.
  - destruct Hin as [<-|Hin]; [unfold cell; lia|]. specialize (IH Hin). lia.
Qed.

Lemma min_counter_ge cs idx x : x <= 15 -> (forall i, In i idx -> x <= cell cs i) -> x <= min_counter cs idx.
Proof.
  intros Hx. induction idx as [|a r IH]; intros H; cbn [min_counter]; [assumption|].
  destruct r as [|b r'].
  - apply (H a). left; reflexivity.
  - assert (x <= cell cs a) by (apply H; left; reflexivity).
    assert (x <= min_counter cs (b :: r')) by (apply IH; intros i Hi; apply H; right; exact Hi).
    unfold cell in *. lia.
Qed.

Lemma min_counter_le15 cs idx : min_counter cs idx <= 15.
Proof.
  induction idx as [|a r IH]; cbn [min_counter]; [lia|].
  destruct r; [apply cell_le15|]. pose proof (cell_le15 cs a). unfold cell in *. lia.
Qed.

(* ---- well-formed sketches: 8 * 2^k words, every word below 2^64 ---- *)

Definition sk_wf (s : sketch) : Prop :=
  words_ok (counters s) /\
  exists k, N.of_nat (length (counters s)) = 8 * 2 ^ k /\ blockMask s = N.ones k.

Lemma land_ones_lt a k : N.land a (N.ones k) < 2 ^ k.
Proof. rewrite N.land_ones. apply N.mod_lt. apply N.pow_nonzero. lia. Qed.

Lemma land127 a : N.land a 127 < 128.
Proof. change 127 with (N.ones 7). change 128 with (2 ^ 7). apply land_ones_lt. Qed.

Theorem indexes_in_range s av : sk_wf s ->
  forall i, In i (sk_indexes s av) -> i < 16 * N.of_nat (length (counters s)).
Proof.
  intros [_ [k [Hl Hm]]] i Hin. unfold sk_indexes in Hin. rewrite Hm in Hin. rewrite Hl.
  pose proof (land_ones_lt av k) as Hb.
  pose proof (land127 (N.shiftr av 21)). pose proof (land127 (N.shiftr av 28)).
  pose proof (land127 (N.shiftr av 35)). pose proof (land127 (N.shiftr av 42)).
  cbn [In] in Hin. nia.
Qed.

Lemma sk_wf_nonempty s : sk_wf s -> counters s <> [].
Proof.
  intros [_ [k [Hl _]]] He. rewrite He in Hl. cbn [length N.of_nat] in Hl.
  pose proof (N.pow_nonzero 2 k ltac:(lia)). lia.
Qed.

Lemma sk_estimate_eq s av : sk_wf s -> sk_estimate s av = min_counter (counters s) (sk_indexes s av).
Proof. intros H. unfold sk_estimate. destruct (counters s) eqn:E; [exfalso; eapply sk_wf_nonempty; eauto|reflexivity]. Qed.

Lemma sk_estimate_le15 s av : sk_estimate s av <= 15.
Proof. unfold sk_estimate. destruct (counters s); [lia|apply min_counter_le15]. Qed.

Lemma sk_indexes_indep s s' av : blockMask s = blockMask s' -> sk_indexes s av = sk_indexes s' av.
Proof. intros H. unfold sk_indexes. rewrite H. reflexivity. Qed.

Theorem sk_add_spec s av : sk_wf s ->
  let s' := sk_add s av in
  sk_wf s' /\ samples s' = samples s /\ resetAt s' = resetAt s /\
  (forall av', sk_estimate s av' <= sk_estimate s' av') /\
  N.min (sk_estimate s av + 1) 15 <= sk_estimate s' av.
Proof.
  intros Hwf. pose proof Hwf as [Hok [k [Hl Hm]]].
  cbv zeta. unfold sk_add. destruct (counters s) eqn:Ecs; [exfalso; eapply sk_wf_nonempty; eauto|].
  rewrite <- Ecs in *.
  destruct (min_counter (counters s) (sk_indexes s av) <? 15) eqn:E.
  - destruct (fold_incr_spec (sk_indexes s av) (counters s) Hok (indexes_in_range s av Hwf)) as [Hok' [Hl' [Hmono Hbump]]].
    set (s' := {| counters := fold_left sk_incr (sk_indexes s av) (counters s); blockMask := blockMask s;
                  samples := samples s; resetAt := resetAt s |}).
    assert (Hwf' : sk_wf s').
    { split; [exact Hok'|]. exists k. cbn [counters blockMask s']. rewrite Hl'. split; assumption. }
    split; [exact Hwf'|]. split; [reflexivity|]. split; [reflexivity|]. split.
    + intros av'. rewrite !sk_estimate_eq by assumption.
      rewrite (sk_indexes_indep s' s av') by reflexivity.
      apply min_counter_ge; [apply min_counter_le15|].
      intros i Hi. pose proof (min_counter_le (counters s) _ i Hi). specialize (Hmono i).
      cbn [counters s']. lia.
    + rewrite !sk_estimate_eq by assumption.
      rewrite (sk_indexes_indep s' s av) by reflexivity.
      apply min_counter_ge; [lia|].
      intros i Hi. pose proof (min_counter_le (counters s) _ i Hi). specialize (Hbump i Hi).
      cbn [counters s']. lia.
  - split; [assumption|]. split; [reflexivity|]. split; [reflexivity|]. split; [intros; lia|].
    rewrite sk_estimate_eq by assumption. pose proof (min_counter_le15 (counters s) (sk_indexes s av)). lia.
Qed.

(* ---- aging ---- *)

Lemma getw_map f l i : f 0 = 0 -> getw (map f l) i = f (getw l i).
Proof.
  intros Hf. unfold getw. revert l; induction (N.to_nat i) as [|n IH]; intros l; destruct l; cbn; auto.
Qed.

Lemma cell_age cs i : words_ok cs ->
  cell (map (fun w => N.land (N.shiftr w 1) agingMask) cs) i = cell cs i / 2.
Proof.
  intros Hok. unfold cell, sk_counter. rewrite !nib_same.
  rewrite (getw_map (fun w => N.land (N.shiftr w 1) agingMask)) by reflexivity.
  rewrite shift_of_pos.
  assert (Hj : (N.to_nat (i mod 16) < 16)%nat) by (pose proof (N.mod_lt i 16 ltac:(lia)); lia).
  destruct (nib_age (getw cs (i / 16)) _ (words_ok_getw cs (i / 16) Hok) Hj) as [_ H].
  exact H.
Qed.

Lemma words_ok_age cs : words_ok cs -> words_ok (map (fun w => N.land (N.shiftr w 1) agingMask) cs).
Proof.
  induction 1 as [|w r Hw Hr IH]; cbn [map]; constructor; [|assumption].
  destruct (nib_age w 0 Hw ltac:(lia)) as [H _]. exact H.
Qed.

Lemma min_counter_half cs cs' idx : idx <> [] ->
  (forall i, cell cs' i = cell cs i / 2) -> min_counter cs' idx = min_counter cs idx / 2.
Proof.
  intros Hne H. induction idx as [|a r IH]; [congruence|].
  cbn [min_counter]. destruct r as [|b r'].
  - apply H.
  - rewrite IH by congruence. fold (cell cs' a) (cell cs a). rewrite H.
    destruct (N.le_ge_cases (cell cs a) (min_counter cs (b :: r'))) as [Hle|Hle].
    + rewrite (N.min_l (cell cs a)) by assumption. apply N.min_l. apply N.div_le_mono; [lia|assumption].
    + rewrite (N.min_r (cell cs a)) by assumption. apply N.min_r. apply N.div_le_mono; [lia|assumption].
Qed.

Theorem sk_age_spec s : sk_wf s ->
  sk_wf (sk_age s) /\ forall av, sk_estimate (sk_age s) av = sk_estimate s av / 2.
Proof.
  intros Hwf. pose proof Hwf as [Hok [k [Hl Hm]]].
  assert (Hwf' : sk_wf (sk_age s)).
  { split; [apply words_ok_age; assumption|]. exists k. cbn [counters blockMask sk_age]. rewrite map_length. split; assumption. }
  split; [exact Hwf'|]. intros av. rewrite !sk_estimate_eq by assumption.
  rewrite (sk_indexes_indep (sk_age s) s av) by reflexivity.
  apply min_counter_half; [unfold sk_indexes; discriminate|].
  intros i. apply cell_age. assumption.
Qed.

(* ---- doorkeeper ---- *)

Definition door_wf (d : door) : Prop :=
  exists k, N.of_nat (length (dbits d)) * 64 = 2 ^ k /\ dmask d = N.ones k /\ dbits d <> [].

Lemma door_has_set d i i' : i / 64 < N.of_nat (length (dbits d)) ->
  door_has (door_set d i) i' = door_has d i' || (i' =? i).
Proof.
  intros Hr. unfold door_has, door_set. cbn [dbits].
  destruct (N.eq_dec (i' / 64) (i / 64)) as [Heq|Hne].
  - rewrite Heq, getw_setw_same by assumption.
    rewrite N.lor_spec. f_equal.
    rewrite N.shiftl_1_l, N.pow2_bits_eqb.
    destruct (i' =? i) eqn:E.
    + apply N.eqb_eq in E. subst. apply N.eqb_refl.
    + apply N.eqb_neq. apply N.eqb_neq in E. intros Hc. apply E.
      pose proof (N.div_mod i 64 ltac:(lia)). pose proof (N.div_mod i' 64 ltac:(lia)). lia.
  - rewrite getw_setw_other by congruence.
    replace (i' =? i) with false; [rewrite orb_false_r; reflexivity|].
    symmetry. apply N.eqb_neq. intros ->. congruence.
Qed.

Lemma door_idx_range d av : door_wf d ->
  fst (door_idx d av) / 64 < N.of_nat (length (dbits d)) /\
  snd (door_idx d av) / 64 < N.of_nat (length (dbits d)).
Proof.
  intros [k [Hl [Hm _]]]. unfold door_idx. cbn [fst snd]. rewrite Hm.
  pose proof (land_ones_lt av k). pose proof (land_ones_lt (N.shiftr av 32) k).
  split; apply N.div_lt_upper_bound; lia.
Qed.

Lemma door_set_wf d i : door_wf d -> door_wf (door_set d i).
Proof.
  intros [k [Hl [Hm Hne]]]. exists k. unfold door_set. cbn [dbits dmask]. rewrite setw_length.
  repeat split; try assumption. intros He. apply Hne.
  apply (f_equal (@length N)) in He. rewrite setw_length in He. destruct (dbits d); [reflexivity|discriminate].
Qed.

Theorem door_add_spec d av : door_wf d ->
  let '(seen, d') := door_add d av in
  door_wf d' /\ seen = door_contains d av /\ door_contains d' av = true /\
  (forall av', door_contains d av' = true -> door_contains d' av' = true).
Proof.
  intros Hwf. pose proof Hwf as [k [Hl [Hm Hne]]].
  unfold door_add, door_contains. destruct (dbits d) eqn:Eb; [congruence|]. rewrite <- Eb in *.
  destruct (door_idx d av) as [i j] eqn:Eij.
  pose proof (door_idx_range d av Hwf) as [Hri Hrj]. rewrite Eij in Hri, Hrj. cbn [fst snd] in Hri, Hrj.
  set (d1 := door_set d i). set (d2 := door_set d1 j).
  assert (Hwf2 : door_wf d2) by (apply door_set_wf, door_set_wf; assumption).
  assert (Hlen1 : length (dbits d1) = length (dbits d)) by (subst d1; unfold door_set; cbn; apply setw_length).
  assert (Hhas : forall x, door_has d2 x = door_has d x || (x =? i) || (x =? j)).
  { intros x. subst d2. rewrite door_has_set by (rewrite Hlen1; assumption).
    subst d1. rewrite door_has_set by assumption. reflexivity. }
  assert (Hidx : forall a, door_idx d2 a = door_idx d a) by reflexivity.
  destruct (dbits d2) eqn:Eb2; [destruct Hwf2 as [? [? [? Hc]]]; congruence|]. try rewrite <- Eb2 in *.
  split; [exact Hwf2|]. split; [reflexivity|]. split.
  - rewrite Hidx, Eij, !Hhas, !N.eqb_refl. rewrite !orb_true_r. reflexivity.
  - intros av'. rewrite Hidx. destruct (door_idx d av') as [a b]. rewrite !Hhas.
    intros H. apply andb_true_iff in H as [Ha Hb]. rewrite Ha, Hb. reflexivity.
Qed.

Lemma door_clear_spec d : door_wf d -> door_wf (door_clear d) /\ forall av, door_contains (door_clear d) av = false.
Proof.
  intros [k [Hl [Hm Hne]]]. split.
  - exists k. unfold door_clear. cbn [dbits dmask]. rewrite map_length. repeat split; try assumption.
    destruct (dbits d); [congruence|discriminate].
  - intros av. unfold door_contains, door_clear. cbn [dbits].
    destruct (map (fun _ : N => 0) (dbits d)) eqn:E; [reflexivity|]. rewrite <- E.
    unfold door_idx. cbn [dmask dbits]. unfold door_has. cbn [dbits].
    rewrite (getw_map (fun _ => 0)) by reflexivity. rewrite N.bits_0. reflexivity.
Qed.

(* ---- the estimator ---- *)

Definition est_wf (e : estimator) : Prop := sk_wf (sk e) /\ door_wf (dr e).

Lemma estimate_av_le15 e av : estimate_av e av <= 15.
Proof.
  unfold estimate_av. pose proof (sk_estimate_le15 (sk e) av).
  destruct (door_contains (dr e) av && (sk_estimate (sk e) av <? 15)) eqn:E; [|assumption].
  apply andb_true_iff in E as [_ E]. lia.
Qed.

(* one recording without an aging event: monotone for all, strictly up (capped) for the recorded one *)
Theorem record_no_aging e av e' : est_wf e -> record_av e av = (e', false) ->
  est_wf e' /\
  (forall av', estimate_av e av' <= estimate_av e' av') /\
  N.min (estimate_av e av + 1) 15 <= estimate_av e' av.
Proof.
  intros [Hs Hd] Hrec. unfold record_av in Hrec.
  pose proof (door_add_spec (dr e) av Hd) as Hda.
  destruct (door_add (dr e) av) as [seen d1]. destruct Hda as [Hd1 [Hseen [Hc1 Hmono]]].
  set (s1 := if seen then sk_add (sk e) av else sk e) in *.
  assert (Hs1 : sk_wf s1 /\ (forall av', sk_estimate (sk e) av' <= sk_estimate s1 av') /\
                (seen = true -> N.min (sk_estimate (sk e) av + 1) 15 <= sk_estimate s1 av)).
  { subst s1. destruct seen.
    - destruct (sk_add_spec (sk e) av Hs) as [A [_ [_ [B C]]]].
      split; [exact A|split; [exact B|intros _; exact C]].
    - split; [exact Hs|split; [intros; lia|discriminate]]. }
  destruct Hs1 as [Hwf1 [Hm1 Hb1]].
  unfold tick_obs in Hrec. cbn [sk dr counters blockMask samples resetAt] in Hrec.
  match type of Hrec with (if ?c then _ else _) = _ => destruct c eqn:Ec end; [discriminate|].
  inversion Hrec; subst e'; clear Hrec.
  assert (Hest : forall a, sk_estimate {| counters := counters s1; blockMask := blockMask s1;
                    samples := w64 (samples s1 + 1); resetAt := resetAt s1 |} a = sk_estimate s1 a) by reflexivity.
  split; [split; [|exact Hd1]|].
  { destruct Hwf1 as [A B]. split; assumption. }
  unfold estimate_av. cbn [sk dr]. split.
  - intros av'. rewrite Hest. specialize (Hm1 av'). pose proof (sk_estimate_le15 s1 av').
    destruct (door_contains (dr e) av') eqn:Ed.
    + rewrite (Hmono av' Ed). cbn [andb].
      destruct (sk_estimate (sk e) av' <? 15) eqn:E1, (sk_estimate s1 av' <? 15) eqn:E2; lia.
    + cbn [andb]. destruct (door_contains d1 av' && (sk_estimate s1 av' <? 15)); lia.
  - rewrite Hest, Hc1. cbn [andb]. pose proof (sk_estimate_le15 s1 av). specialize (Hm1 av).
    destruct seen.
    + specialize (Hb1 eq_refl). rewrite <- Hseen. cbn [andb].
      destruct (sk_estimate (sk e) av <? 15) eqn:E1, (sk_estimate s1 av <? 15) eqn:E2; lia.
    + rewrite <- Hseen. cbn [andb].
      destruct (sk_estimate s1 av <? 15) eqn:E2; lia.
Qed.

(* a tick that ages: every estimate becomes exactly half of its counted part, marks forgotten *)
Theorem tick_aging e e' : est_wf e -> tick_obs e = (e', true) ->
  est_wf e' /\ samples (sk e') = 0 /\
  forall av, estimate_av e' av = sk_estimate (sk e) av / 2 /\ door_contains (dr e') av = false.
Proof.
  intros [Hs Hd] Ht. unfold tick_obs in Ht.
  match type of Ht with (if ?c then _ else _) = _ => destruct c eqn:Ec end; [|discriminate].
  inversion Ht; subst e'; clear Ht.
  set (s1 := {| counters := counters (sk e); blockMask := blockMask (sk e);
                samples := w64 (samples (sk e) + 1); resetAt := resetAt (sk e) |}).
  assert (Hwf1 : sk_wf s1) by (destruct Hs as [A B]; split; assumption).
  destruct (sk_age_spec s1 Hwf1) as [Hwa Hha].
  destruct (door_clear_spec (dr e) Hd) as [Hdc Hnone].
  split; [split; assumption|]. split; [reflexivity|].
  intros av. unfold estimate_av. cbn [sk dr]. rewrite Hnone. cbn [andb]. split; [|reflexivity].
  rewrite Hha. reflexivity.
Qed.

Lemma record_aging e av e' : est_wf e -> record_av e av = (e', true) ->
  est_wf e' /\ forall av', door_contains (dr e') av' = false.
Proof.
  intros [Hs Hd] Hrec. unfold record_av in Hrec.
  pose proof (door_add_spec (dr e) av Hd) as Hda.
  destruct (door_add (dr e) av) as [seen d1]. destruct Hda as [Hd1 _].
  set (s1 := if seen then sk_add (sk e) av else sk e) in *.
  assert (Hwf1 : sk_wf s1).
  { subst s1. destruct seen; [destruct (sk_add_spec (sk e) av Hs) as [A _]; exact A|exact Hs]. }
  destruct (tick_aging {| sk := s1; dr := d1 |} e' (conj Hwf1 Hd1) Hrec) as [A [_ B]].
  split; [exact A|]. intros av'. apply B.
Qed.

(* ---- the lower-bound theorem over arbitrary recording sequences ---- *)

Fixpoint replay (e : estimator) (cnt : N -> N) (hs : list N) : estimator * (N -> N) :=
  match hs with
  | [] => (e, cnt)
  | h :: r =>
    let '(e1, aged) := increment_frequency e h in
    replay e1 (if aged then (fun _ => 0) else (fun x => if x =? h then cnt x + 1 else cnt x)) r
  end.

Definition lower_ok (e : estimator) (cnt : N -> N) : Prop :=
  forall h, N.min (cnt h) 15 <= estimate e h <= 15.

Theorem lower_bound hs : forall e cnt, est_wf e -> lower_ok e cnt ->
  let '(e', cnt') := replay e cnt hs in est_wf e' /\ lower_ok e' cnt'.
Proof.
  induction hs as [|h r IH]; intros e cnt Hwf Hlow; cbn [replay]; [split; assumption|].
  unfold increment_frequency. destruct (record_av e (avalanche h)) as [e1 aged] eqn:Erec.
  destruct aged.
  - destruct (record_aging e _ e1 Hwf Erec) as [Hwf1 _].
    apply IH; [assumption|]. intros x. cbn. split; [lia|apply estimate_av_le15].
  - destruct (record_no_aging e _ e1 Hwf Erec) as [Hwf1 [Hmono Hbump]].
    apply IH; [assumption|]. intros x. unfold estimate. split; [|apply estimate_av_le15].
    destruct (x =? h) eqn:E.
    + apply N.eqb_eq in E. subst x. destruct (Hlow h) as [Hl _]. unfold estimate in Hl. lia.
    + destruct (Hlow x) as [Hl _]. unfold estimate in Hl. specialize (Hmono (avalanche x)). lia.
Qed.

Theorem monotone_between_agings e h e' : est_wf e -> increment_frequency e h = (e', false) ->
  forall h', estimate e h' <= estimate e' h'.
Proof.
  intros Hwf H h'. destruct (record_no_aging e _ e' Hwf H) as [_ [Hm _]]. apply Hm.
Qed.

(* freshly built estimators are well-formed *)
Lemma new_estimator_wf k k' : 6 <= k' ->
  est_wf (new_estimator (8 * 2 ^ k) (2 ^ (k' - 6))).
Proof.
  intros Hk'. unfold new_estimator, est_wf. cbn [sk dr]. split.
  - split; cbn [counters blockMask].
    + apply Forall_forall. intros x Hx. apply repeat_spec in Hx. subst. unfold W. lia.
    + exists k. rewrite repeat_length, N2Nat.id. split; [reflexivity|].
      replace (8 * 2 ^ k / 8) with (2 ^ k) by (rewrite N.mul_comm, N.div_mul; lia).
      rewrite N.ones_equiv, N.pred_sub. reflexivity.
  - exists k'. cbn [dbits dmask]. rewrite repeat_length, N2Nat.id.
    assert (H64 : 2 ^ (k' - 6) * 64 = 2 ^ k').
    { change 64 with (2 ^ 6). rewrite <- N.pow_add_r. f_equal. lia. }
    rewrite H64. split; [reflexivity|]. split; [rewrite N.ones_equiv, N.pred_sub; reflexivity|].
    intros He. apply (f_equal (@length N)) in He. rewrite repeat_length in He. cbn in He.
    pose proof (N.pow_nonzero 2 (k' - 6) ltac:(lia)). lia.
Qed.

(* non-vacuity: a 64-word sketch with one cell saturated next to an empty one *)
Example saturated_neighbour :
  let e0 := new_estimator 64 16 in
  let e := fst (replay e0 (fun _ => 0) (repeat 7 20)) in
  estimate e 7 = 15 /\ estimate e 8 = 0.
Proof. vm_compute. split; reflexivity. Qed.

(* T-gen side conditions: the literals written into EstimatorModel are the constants compiled
   into /repo (coq/Gen/Consts.v is regenerated from the working tree on every run). *)
Lemma consts_as_modelled :
  (Z.of_N agingMask = sketchAgingMaskHi * 2 ^ 32 + sketchAgingMaskLo)%Z /\
  (sketchMaxCounter = 15)%Z /\ (sketchCounterBits = 4)%Z /\ (sketchCountersPerWord = 16)%Z /\
  (sketchBlockWords = 8)%Z /\ (sketchAgingMultiplier = 10)%Z /\ (sketchMinCounters = 1024)%Z.
Proof. vm_compute. repeat split; reflexivity. Qed.
